/- C20 helper lemmas: every kind of x86 operand text (register, immediate, label, memory) is read back by the operand reader and
   contains neither `,` nor `{` (so the line reader can cut around it). -/
import AsmjitVerif.Lemmas.FormatOpsR

namespace AsmjitVerif.Lemmas.FormatOpKinds
open AsmjitVerif.Format AsmjitVerif.FormatText AsmjitVerif.Lemmas.FormatLex AsmjitVerif.Lemmas.FormatNum
open AsmjitVerif.Lemmas.FormatX86Mem AsmjitVerif.Lemmas.FormatNames
open AsmjitVerif.Gen.FormatTabs

/-- the operand's text is non-empty, free of `,` and `{`, and the operand reader returns a reading that agrees with the operand -/
structure OpOK (flags : Nat) (env : Env) (op : Operand) : Prop where
  ne : x86FormatOperand flags env op ≠ []
  clean : ∀ c ∈ x86FormatOperand flags env op, c ≠ ',' ∧ c ≠ '{'
  reads : ∃ r, parseX86Op env (x86FormatOperand flags env op) = some r ∧ opAgrees env op r = true

def rdOp (flags : Nat) (env : Env) (op : Operand) : POp := (parseX86Op env (x86FormatOperand flags env op)).getD (.label 0)

theorem OpOK.eq {flags : Nat} {env : Env} {op : Operand} (h : OpOK flags env op) :
    parseX86Op env (x86FormatOperand flags env op) = some (rdOp flags env op) ∧ opAgrees env op (rdOp flags env op) = true := by
  obtain ⟨r, hr, ha⟩ := h.reads
  simp [rdOp, hr, ha]

theorem like_facts {t : Str} (h : NameLike t) :
    (∀ c ∈ t, c ≠ ',' ∧ c ≠ '{') ∧ '[' ∉ t ∧ startsWithDigit t = false ∧ t.head? ≠ some '-' := by
  refine ⟨fun c hc => ⟨(h.clean c hc).2.2.2.2.2.2.1, (h.clean c hc).2.2.2.2.2.2.2.2.1⟩, ?_, h.nodigit, ?_⟩
  · exact fun hm => (h.clean '[' hm).2.2.2.2.1 rfl
  · cases t with
    | nil => simp
    | cons c r =>
      have := (h.clean c (List.mem_cons_self ..)).2.1
      simpa using this

/-- register operands -/
theorem reg_opOK (flags : Nat) (env : Env) (t id : Nat) (h : RegOK env (x86FormatRegister flags env t id) t id) :
    OpOK flags env (.reg t id 0 none) := by
  obtain ⟨hc, hb, hd, hm⟩ := like_facts h.like
  refine ⟨h.like.ne, hc, POp.reg (rdReg env (x86FormatRegister flags env t id)) none none, ?_, ?_⟩
  · simp [x86FormatOperand, parseX86Op, hb, hd, hm, h.eq.1]
  · simp [opAgrees, h.eq.2]

/-- label operands -/
theorem label_opOK (flags : Nat) (env : Env) (id : Nat) (h : LabelOK env id) : OpOK flags env (.label id) := by
  obtain ⟨hc, hb, hd, hm⟩ := like_facts h.like
  refine ⟨h.like.ne, hc, .label id, ?_, ?_⟩
  · simp [x86FormatOperand, parseX86Op, hb, hd, hm, h.noreg, h.reads]
  · simp [opAgrees]

theorem numTok_chars (P : Char → Prop) (hd : ∀ d : Fin 16, P (digitChar d.val)) (hx : P 'x') (hz : P '0') (hm : P '-')
    (hex : Bool) (u : Nat) : ∀ c ∈ numTok hex u, P c := by
  have hu : ∀ n base, (base = 10 ∨ base = 16) → ∀ c ∈ uintStr n base, P c := by
    intro n base hb
    unfold uintStr
    exact digitsLoop_chars base P (by omega) (fun d hdd => hd ⟨d, by omega⟩) 64 n
  unfold numTok intStr
  intro c hc
  split at hc
  · simp only [List.cons_append, List.nil_append, List.mem_cons] at hc
    rcases hc with e | e | e
    · subst e; exact hz
    · subst e; exact hx
    · exact hu _ 16 (Or.inr rfl) c e
  · split at hc
    · simp only [List.mem_cons] at hc
      rcases hc with e | e
      · subst e; exact hm
      · exact hu _ 10 (Or.inl rfl) c e
    · exact hu _ 10 (Or.inl rfl) c hc

theorem imm_text (flags u : Nat) (h : u < two64) : formatImmValue flags u = numTok (hasBit flags ffHexImms) u := by
  have hmod : u % two64 = u := Nat.mod_eq_of_lt h
  unfold formatImmValue numTok
  rw [hmod]

theorem numTok_ne (hex : Bool) (u : Nat) : numTok hex u ≠ [] := by
  unfold numTok intStr
  split
  · simp
  · split
    · simp
    · exact digitsLoop_ne_nil 10 63 _

/-- immediate operands (x86: no predicate) -/
theorem imm_opOK (flags : Nat) (env : Env) (u : Nat) (h : u < two64) : OpOK flags env (.imm u 0) := by
  have htxt : x86FormatOperand flags env (.imm u 0) = numTok (hasBit flags ffHexImms) u := by
    simp [x86FormatOperand, imm_text flags u h]
  have hch := numTok_chars (fun c => c ≠ ',' ∧ c ≠ '{' ∧ c ≠ '[') (by decide) (by decide) (by decide) (by decide) (hasBit flags ffHexImms) u
  have hnum := AsmjitVerif.Lemmas.FormatA64Mem.isNumberTok_numTok (hasBit flags ffHexImms) u
  have hb : '[' ∉ numTok (hasBit flags ffHexImms) u := fun hm => (hch '[' hm).2.2 rfl
  refine ⟨by rw [htxt]; exact numTok_ne _ _, by rw [htxt]; exact fun c hc => ⟨(hch c hc).1, (hch c hc).2.1⟩, .imm u 0, ?_, ?_⟩
  · rw [htxt]
    have hcond : startsWithDigit (numTok (hasBit flags ffHexImms) u) = true ∨
        ((numTok (hasBit flags ffHexImms) u).head? = some '-' ∧ startsWithDigit (numTok (hasBit flags ffHexImms) u).tail = true) := by
      simp only [isNumberTok, Bool.or_eq_true, Bool.and_eq_true, beq_iff_eq] at hnum
      exact hnum
    simp [parseX86Op, hb, hcond, parseNumber64_numTok _ u h]
  · simp [opAgrees, Nat.mod_eq_of_lt h]

/-! ### memory operands: no `,` and no `{` inside the text -/

def Sep (c : Char) : Prop := c = ',' ∨ c = '{'

theorem digit_notsep : ∀ d : Fin 16, digitChar d.val ≠ ',' ∧ digitChar d.val ≠ '{' := by decide

theorem uint_notsep (n base : Nat) (hb : base = 10 ∨ base = 16) (c : Char) (hc : Sep c) : c ∉ uintStr n base := by
  intro hm
  have := digitsLoop_chars base (fun x => x ≠ ',' ∧ x ≠ '{') (by omega) (fun d hd => digit_notsep ⟨d, by omega⟩) 64 n c
    (by unfold uintStr at hm; exact hm)
  rcases hc with e | e <;> subst e
  · exact this.1 rfl
  · exact this.2 rfl

theorem like_notsep {t : Str} (h : NameLike t) (c : Char) (hc : Sep c) : c ∉ t := by
  intro hm
  have := (like_facts h).1 c hm
  rcases hc with e | e <;> subst e
  · exact this.1 rfl
  · exact this.2 rfl

theorem lower_notsep (c : Char) (hc : Sep c) : isLowerAlpha c = false := by
  rcases hc with e | e <;> subst e <;> decide

theorem lower_list_notsep (w : Str) (hw : ∀ x ∈ w, isLowerAlpha x = true) (c : Char) (hc : Sep c) : c ∉ w := by
  intro hm
  have := hw c hm
  rw [lower_notsep c hc] at this
  exact absurd this (by simp)

theorem pieces_notsep (flags : Nat) (env : Env) (m : X86Mem) (wf : WFX86Mem flags env m) (c : Char) (hc : Sep c) :
    ∀ p ∈ memPieces flags env m, p.1 ≠ some c ∧ c ∉ p.2 := by
  have hb := wf.base
  have hi := wf.index
  have hcne : c ≠ '+' ∧ c ≠ '-' ∧ c ≠ '*' ∧ c ≠ '&' ∧ c ≠ '0' ∧ c ≠ 'x' := by
    rcases hc with e | e <;> subst e <;> decide
  intro p hp
  unfold memPieces at hp
  rcases List.mem_append.mp hp with h | h
  · rcases List.mem_append.mp h with h | h
    · -- base
      unfold basePieces baseTok at h
      cases hbase : m.base with
      | none => simp [hbase] at h
      | label id =>
        rw [hbase] at hb
        simp only [hbase, List.mem_singleton] at h
        subst h
        exact ⟨by simp, like_notsep hb.like c hc⟩
      | reg t id =>
        rw [hbase] at hb
        simp only [hbase, List.mem_singleton] at h
        subst h
        by_cases hh : m.home = true
        · simp only [hh, if_true] at hb ⊢
          refine ⟨by simp, ?_⟩
          intro hm
          simp only [List.mem_cons] at hm
          rcases hm with e | e
          · exact hcne.2.2.2.1 e
          · exact like_notsep hb.like c hc e
        · simp only [hh, if_false, Bool.false_eq_true] at hb ⊢
          exact ⟨by simp, like_notsep hb.like c hc⟩
    · -- index
      unfold indexPieces at h
      cases hidx : m.index with
      | none => simp [hidx] at h
      | some q =>
        obtain ⟨t, id⟩ := q
        rw [hidx] at hi
        have hsg : x86MemSignAfterBase m ≠ some c := by
          unfold x86MemSignAfterBase; split
          · intro e; exact hcne.1 (by simpa using e.symm)
          · simp
        simp only [hidx, List.mem_cons] at h
        rcases h with e | e
        · subst e; exact ⟨hsg, like_notsep hi.like c hc⟩
        · by_cases h0 : m.shift = 0
          · simp [h0] at e
          · simp only [h0, ne_eq, not_false_eq_true, if_true, List.mem_singleton] at e
            subst e
            exact ⟨fun e => hcne.2.2.1 (by simpa using e.symm), uint_notsep _ 10 (Or.inl rfl) c hc⟩
  · -- displacement
    unfold dispPieces dispPiecesOf at h
    split at h
    · simp only [List.mem_singleton] at h
      subst h
      refine ⟨?_, ?_⟩
      · unfold dispSignOf x86MemSignAfterIndex x86MemSignAfterBase
        split
        · intro e; exact hcne.2.1 (by simpa using e.symm)
        · split
          · intro e; exact hcne.1 (by simpa using e.symm)
          · split
            · intro e; exact hcne.1 (by simpa using e.symm)
            · simp
      · unfold dispTokOf
        split
        · intro hm
          simp only [List.cons_append, List.nil_append, List.mem_cons] at hm
          rcases hm with e | e | e
          · exact hcne.2.2.2.2.1 e
          · exact hcne.2.2.2.2.2 e
          · exact uint_notsep _ 16 (Or.inr rfl) c hc e
        · exact uint_notsep _ 10 (Or.inl rfl) c hc
    · simp at h

theorem mem_text_notsep (flags : Nat) (env : Env) (m : X86Mem) (wf : WFX86Mem flags env m) (c : Char) (hc : Sep c) :
    c ∉ x86FormatMem flags env m := by
  rw [x86FormatMem_eq]
  have hcne : c ≠ '[' ∧ c ≠ ']' ∧ c ≠ ':' ∧ c ≠ ' ' := by rcases hc with e | e <;> subst e <;> decide
  have hsize : c ∉ x86SizeString m.size := by
    rcases wf.size with h0 | ⟨p, hp, hpn⟩
    · rw [h0]; have : x86SizeString 0 = [] := by decide
      rw [this]; simp
    · obtain ⟨h1, _, h3⟩ := sizeWords_facts p hp
      rw [← hpn, h1]
      intro hm
      rcases List.mem_append.mp hm with e | e
      · exact lower_list_notsep _ h3 c hc e
      · have : c = ' ' ∨ c = 'p' ∨ c = 't' ∨ c = 'r' := by
          rw [ptrL] at e; simp only [List.mem_cons, List.not_mem_nil, or_false] at e
          rcases e with e | e | e | e | e <;> simp [e]
        rcases hc with e' | e' <;> subst e' <;> simp at this
  have hseg : c ∉ x86MemSegText m := by
    unfold x86MemSegText
    split
    · rename_i hs
      have hmem : m.seg ∈ [1, 2, 3, 4, 5, 6] := by have := wf.seg; simp; omega
      obtain ⟨hl, _⟩ := segNames_facts m.seg hmem
      intro hm
      rcases List.mem_append.mp hm with e | e
      · exact lower_list_notsep _ hl c hc e
      · simp only [List.mem_singleton] at e; exact hcne.2.2.1 e
    · simp
  have haddr : c ∉ x86MemAddrText m := by
    unfold x86MemAddrText
    split
    · rw [absL]; rcases hc with e | e <;> subst e <;> decide
    · rw [relL]; rcases hc with e | e <;> subst e <;> decide
    · simp
  have hflat : c ∉ flattenPieces (memPieces flags env m) := not_mem_flatten c _ (pieces_notsep flags env m wf c hc)
  intro hm
  simp only [List.mem_append, List.mem_cons, List.mem_singleton, List.not_mem_nil, or_false] at hm
  rcases hm with e | e | e | e | e | e
  · exact hsize e
  · exact hseg e
  · exact hcne.1 e
  · exact haddr e
  · exact hflat e
  · exact hcne.2.1 e

/-- memory operands -/
theorem mem_opOK (flags : Nat) (env : Env) (m : X86Mem) (wf : WFX86Mem flags env m) : OpOK flags env (.x86mem m) := by
  have hbr : '[' ∈ x86FormatMem flags env m := by rw [x86FormatMem_eq]; simp
  refine ⟨?_, ?_, .mem (afterDisp flags env m), ?_, ?_⟩
  · intro e
    simp only [x86FormatOperand] at e
    rw [e] at hbr; simp at hbr
  · intro c hc
    simp only [x86FormatOperand] at hc
    exact ⟨fun e => mem_text_notsep flags env m wf c (Or.inl e) hc, fun e => mem_text_notsep flags env m wf c (Or.inr e) hc⟩
  · simp [x86FormatOperand, parseX86Op, hbr, x86_mem_read flags env m wf]
  · simp only [opAgrees]; exact x86_mem_agrees flags env m wf

end AsmjitVerif.Lemmas.FormatOpKinds
