/- C06 part 2 – step lemma of the `EmitMove:` block of emit_args_assignment. -/
import AsmjitVerif.Lemmas.C06ShuffleInv
namespace AsmjitVerif.C06S
open AsmjitVerif.CallConv AsmjitVerif.Shuffle AsmjitVerif.Machine

theorem emitMove_ok (p : Params) (hy : Hyp p) (e : Emit) (M : State) (hw : WF p e M) (i outId : Nat) (hi : i < p.n)
    (hreg : (e.ctx.var i).cur.isReg = true) (hnd : (e.ctx.var i).done = false) (ho : outId < 32)
    (hfree : physAt e.ctx (groupOf (e.ctx.var i).out.regType) outId = none ∨ outId = (e.ctx.var i).cur.regId)
    (hsw : hasSwap p.cfg.arch (groupOf (e.ctx.var i).out.regType) = true → outId = (e.ctx.var i).out.regId)
    (e' : Emit) (h : emitMove p.cfg e i outId = .ok e') :
    ∃ M', WF p e' M' ∧ (∀ j, j < p.n → (e.ctx.var j).done = true → (e'.ctx.var j).done = true) ∧
          ((e'.ctx.var i).done = decide (outId = (e.ctx.var i).out.regId)) ∧
          (∀ j, (e'.ctx.var j).cur.isReg = (e.ctx.var j).cur.isReg) := by
  have hv := hw.var i hi hreg
  generalize hvdef : e.ctx.var i = v at hv hnd hfree hsw hreg
  obtain ⟨tok, hget, htv, hform', hdn⟩ := hv.tok
  have hform := hform' hnd
  have hg : groupOf v.cur.regType = groupOf v.out.regType := hv.grp
  -- the selected instruction
  unfold emitMove at h
  simp only [hvdef] at h
  cases hmv : argMove p.cfg v.out.regType outId v.out.typeId (.reg v.cur.regType v.cur.regId) v.cur.typeId with
  | none => simp [hmv] at h
  | some ins =>
    simp only [hmv] at h
    have hshape : ∃ rd rs k c w, ins.ops = [.reg rd outId, .reg rs v.cur.regId] ∧ groupOf rd = groupOf v.out.regType ∧
        groupOf rs = groupOf v.out.regType ∧ (ins.name == Mn.xchg) = false ∧
        effect ins.name rd (regBytes rs) = some (k, c, w) ∧ (moveTok p.vis tok k c w).dv = true := by
      rcases hform with ⟨ht, hrt, hsv, hdv0⟩ | ⟨ht, hrt, hdv⟩
      · have h0 := hy.first i outId v.cur.regId hi ho hv.curLt (hv.srcReg hnd)
        rw [← hv.out, ← ht, ← hrt] at h0
        have htok := moveOkAt_of_form tok h0 htv hsv hdv0
        obtain ⟨rd, rs, k, c, w, h1, h2, h3, h4, h5, h6⟩ := moveOkAt_elim htok hmv
        exact ⟨rd, rs, k, c, w, h1, h2, by rw [h3, hg], h4, h5, h6⟩
      · have := hy.again i outId v.cur.regId tok.sv hi ho hv.curLt
        rw [← hv.out] at this
        have htk : (⟨i, tok.sv, true⟩ : Tok) = tok := by cases tok; simp_all
        rw [htk] at this
        have hmv' := hmv
        rw [hrt, ht] at hmv'
        obtain ⟨rd, rs, k, c, w, h1, h2, h3, h4, h5, h6⟩ := moveOkAt_elim this hmv'
        exact ⟨rd, rs, k, c, w, h1, h2, h3, h4, h5, h6⟩
    obtain ⟨rd, rs, k, c, w, hops, hgd, hgs, hnx, heff, hdv⟩ := hshape
    let g := groupOf v.out.regType
    let tok' := moveTok p.vis tok k c w
    let M' := M.set (.reg g outId) (some tok')
    have hstep : step p.vis p.f p.cfg.arch M ins = some M' := by
      unfold step
      rw [hops]
      simp only [hnx, Bool.false_eq_true, if_false, heff, hgd, hgs]
      have : M.get (Loc.reg (groupOf v.out.regType) v.cur.regId) = some tok := by
        rw [← hg]; exact hget
      simp [this, M', tok', g]
    -- the new context
    have hglt : g < 4 := hv.grpLt
    have hcl : e.ctx.vars.length = p.n := hw.len
    have hwl : e.ctx.wd.length = 4 := hw.wdlen
    have hpl : (e.ctx.w g).phys.length = 32 := hw.physlen g hglt
    have hvphys : physAt e.ctx g v.cur.regId = some i := by have := hv.phys; rw [hg] at this; exact this
    generalize hw'def : (if v.cur.regId ≠ outId then (e.ctx.w g).reassign i outId v.cur.regId else e.ctx.w g) = w'
    generalize hvar'def : ({ v with cur := FuncValue.reg v.out.typeId v.out.regType outId, done := decide (outId = v.out.regId) } : Var) = var'
    generalize hc'def : (e.ctx.setW g w').setVar i var' = c'
    have he' : e' = { ctx := c', out := e.out ++ [ins] } := by
      cases h; rw [← hc'def, ← hw'def, ← hvar'def]; rfl
    subst he'
    have hvar'i : c'.var i = var' := by
      rw [← hc'def]; exact var_setVar_eq _ _ _ (by simp [Ctx.setW, hcl, hi])
    have hvar'j : ∀ j, j ≠ i → c'.var j = e.ctx.var j := by
      intro j hj; rw [← hc'def, var_setVar_ne _ _ _ _ (fun h => hj h.symm)]; rfl
    have hphys' : ∀ g' r, physAt c' g' r =
        if g' = g then (if v.cur.regId ≠ outId then (if r = outId then some i else if r = v.cur.regId then none else physAt e.ctx g r)
                        else physAt e.ctx g r) else physAt e.ctx g' r := by
      intro g' r
      rw [← hc'def]
      unfold physAt
      rw [w_setVar]
      by_cases hgg : g' = g
      · subst hgg
        rw [w_setW_eq _ _ _ (by simp [hwl, hglt])]
        simp only [if_true, ← hw'def]
        by_cases hc : v.cur.regId = outId
        · simp [hc]
        · simp only [hc, ne_eq, not_false_eq_true, if_true]
          exact reassign_getD _ _ _ _ _ (by rw [hpl]; exact ho) (by rw [hpl]; exact hv.curLt)
      · simp only [hgg, if_false]
        rw [w_setW_ne _ _ _ _ (fun h => hgg h.symm)]
    -- a variable other than `i` in group `g` sits neither in `outId` nor in `i`'s register
    have hother : ∀ j, j < p.n → j ≠ i → (e.ctx.var j).cur.isReg = true → groupOf (e.ctx.var j).cur.regType = g →
        (e.ctx.var j).cur.regId ≠ outId ∧ (e.ctx.var j).cur.regId ≠ v.cur.regId := by
      intro j hj hji hrj hgj
      have hpj := (hw.var j hj hrj).phys
      rw [hgj] at hpj
      have h2 : (e.ctx.var j).cur.regId ≠ v.cur.regId := by
        intro heq; rw [heq, hvphys] at hpj; exact hji (Option.some.inj hpj).symm
      refine ⟨?_, h2⟩
      intro heq
      rcases hfree with hf | hf
      · rw [heq, hf] at hpj; exact absurd hpj (by simp)
      · exact h2 (heq.trans hf)
    refine ⟨M', ⟨?_, ?_, ?_, ?_, ?_, ?_, ?_⟩, ?_, ?_, ?_⟩  -- len wdlen physlen runs var stk inv
    · show c'.vars.length = p.n
      rw [← hc'def]; simp [Ctx.setVar, Ctx.setW, hcl]
    · show c'.wd.length = 4
      rw [← hc'def]; simp [Ctx.setVar, Ctx.setW, hwl]
    · intro g' hg'
      show (c'.w g').phys.length = 32
      rw [← hc'def, w_setVar]
      by_cases hgg : g' = g
      · subst hgg
        rw [w_setW_eq _ _ _ (by simp [hwl, hglt]), ← hw'def]
        split
        · simp [WorkData.reassign, hpl]
        · exact hpl
      · rw [w_setW_ne _ _ _ _ (fun h => hgg h.symm)]; exact hw.physlen g' hg'
    · exact run_push _ _ _ _ _ _ _ _ hw.runs hstep
    · intro j hj hrj'
      show VarOK p c' M' j (c'.var j)
      replace hrj' : (c'.var j).cur.isReg = true := hrj'
      by_cases hji : j = i
      · subst hji
        rw [hvar'i, ← hvar'def]
        refine ⟨hv.out, rfl, rfl, hv.outReg, hv.outInit, rfl, hv.grpLt, ho, hv.outLt, ?_, ?_, fun _ => hv.srcReg hnd⟩
        · show physAt _ (groupOf v.out.regType) outId = some j
          rw [hphys']
          by_cases hc : v.cur.regId = outId
          · simp [hc, g]; rw [← hc]; exact hvphys
          · simp [hc, g]
        · refine ⟨tok', ?_, ?_, fun _ => Or.inr ⟨rfl, rfl, hdv⟩, ?_⟩
          · show M'.get (Loc.reg (groupOf v.out.regType) outId) = some tok'
            exact get_set_self _ _ _
          · show (moveTok p.vis tok k c w).var = j
            rw [moveTok_var]; exact htv
          · intro hd
            exact ⟨by simpa [FuncValue.reg] using hd, hdv⟩
      · rw [hvar'j j hji] at hrj'
        have hvj := hw.var j hj hrj'
        rw [hvar'j j hji]
        refine ⟨hvj.out, hvj.curReg, hvj.notStk, hvj.outReg, hvj.outInit, hvj.grp, hvj.grpLt, hvj.curLt, hvj.outLt, ?_, ?_, hvj.srcReg⟩
        · rw [hphys']
          by_cases hgj : groupOf (e.ctx.var j).cur.regType = g
          · obtain ⟨h1, h2⟩ := hother j hj hji hrj' hgj
            have := hvj.phys
            rw [hgj] at this ⊢
            simp [h1, h2, this]
          · simp [hgj]; exact hvj.phys
        · obtain ⟨tj, hgetj, r1, r2, r3⟩ := hvj.tok
          refine ⟨tj, ?_, r1, r2, r3⟩
          rw [← hgetj]
          apply get_set_ne
          intro heq
          simp only [vloc, Loc.reg.injEq] at heq
          exact (hother j hj hji hrj' heq.1).1 heq.2
    · -- variables still in their stack slot are untouched
      intro j hj hnr
      show StkOK p M' j (c'.var j)
      replace hnr : (c'.var j).cur.isReg = false := hnr
      have hji : j ≠ i := by
        intro hh; subst hh; rw [hvar'i, ← hvar'def] at hnr; simp [FuncValue.reg] at hnr
      rw [hvar'j j hji] at hnr ⊢
      have hsj := hw.stk j hj hnr
      exact ⟨hsj.out, hsj.cur, hsj.isStk, hsj.direct, hsj.notDone, hsj.outReg, hsj.outInit, hsj.grpLt, hsj.outLt, by
        rw [← hsj.tok]; exact get_set_ne _ _ _ _ (by intro h; cases h)⟩
    · intro g' r j' hg' hr hpj
      show j' < p.n ∧ groupOf (c'.var j').cur.regType = g' ∧ (c'.var j').cur.regId = r ∧ (c'.var j').cur.isReg = true
      replace hpj : physAt c' g' r = some j' := hpj
      rw [hphys'] at hpj
      by_cases hgg : g' = g
      · subst hgg
        simp only [if_true] at hpj
        by_cases hc : v.cur.regId = outId
        · simp only [hc, ne_eq, not_true_eq_false, if_false] at hpj
          obtain ⟨a1, a2, a3, a4⟩ := hw.inv _ r j' hg' hr hpj
          by_cases hji : j' = i
          · subst hji
            rw [hvar'i, ← hvar'def]
            rw [hvdef] at a3
            exact ⟨a1, rfl, by simp [FuncValue.reg]; rw [← hc]; exact a3, rfl⟩
          · rw [hvar'j j' hji]; exact ⟨a1, a2, a3, a4⟩
        · simp only [hc, ne_eq, not_false_eq_true, if_true] at hpj
          by_cases hro : r = outId
          · simp only [hro, if_true] at hpj
            have : j' = i := (Option.some.inj hpj).symm
            subst this
            rw [hvar'i, ← hvar'def]
            exact ⟨hi, rfl, by simp [FuncValue.reg, hro], rfl⟩
          · simp only [hro, if_false] at hpj
            by_cases hrc : r = v.cur.regId
            · simp [hrc] at hpj
            · simp only [hrc, if_false] at hpj
              obtain ⟨a1, a2, a3, a4⟩ := hw.inv _ r j' hg' hr hpj
              have hji : j' ≠ i := by
                intro hh; subst hh; rw [hvdef] at a3; exact hrc a3.symm
              rw [hvar'j j' hji]; exact ⟨a1, a2, a3, a4⟩
      · simp only [hgg, if_false] at hpj
        obtain ⟨a1, a2, a3, a4⟩ := hw.inv g' r j' hg' hr hpj
        have hji : j' ≠ i := by
          intro hh; subst hh; rw [hvdef, hg] at a2; exact hgg a2.symm
        rw [hvar'j j' hji]; exact ⟨a1, a2, a3, a4⟩
    · intro j hj hd
      show (c'.var j).done = true
      by_cases hji : j = i
      · subst hji; rw [hvdef, hnd] at hd; exact absurd hd (by simp)
      · rw [hvar'j j hji]; exact hd
    · show (c'.var i).done = _
      rw [hvar'i, ← hvar'def]
    · intro j
      show (c'.var j).cur.isReg = _
      by_cases hji : j = i
      · subst hji; rw [hvar'i, ← hvar'def, hvdef, hreg]; rfl
      · rw [hvar'j j hji]

end AsmjitVerif.C06S
