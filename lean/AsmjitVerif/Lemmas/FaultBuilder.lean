/- C15: theorems about the BaseBuilder fault model (Model/FaultBuilder.lean). -/
import AsmjitVerif.Model.FaultBuilder
import AsmjitVerif.Lemmas.FaultInv
namespace AsmjitVerif.FaultBuilder
open AsmjitVerif AsmjitVerif.Fault
set_option maxHeartbeats 1600000

macro "btac" h:ident : tactic =>
  `(tactic| (repeat' split at $h:ident) <;> (first | (cases $h:ident; done) | (cases $h:ident; simp; done) | (cases $h:ident; rfl) | skip))

/-! ## out of memory: what may have changed -/

theorem addNode_oom (o o' : Oracle) (s s' : BSt) (n : Node) (h : addNode o s n = (o', s', .oom)) : s'.v = s.v := by
  unfold addNode at h; btac h
/-- a failed `_emit`: the node list is untouched and the one-shot state (extra register, options, inline comment) is cleared -
exactly the one-shot state a successful `_emit` leaves -/
theorem emit_oom (o o' : Oracle) (s s' : BSt) (k : Nat) (h : emit o s k = (o', s', .oom)) : s'.v = clearOneShot s.v := by
  unfold emit at h
  simp only at h
  repeat' split at h
  all_goals (first | (cases h; done) | (cases h; rfl))
theorem codeLabel_oom (o o' : Oracle) (s s' : BSt) (h : codeLabel o s = (o', s', .oom)) : s'.v = s.v := by
  unfold codeLabel at h; btac h
theorem codeLabel_ok (o o' : Oracle) (s s' : BSt) (h : codeLabel o s = (o', s', .ok)) :
    s'.v = { s.v with labelCount := s.v.labelCount + 1 } := by
  unfold codeLabel at h; btac h
theorem codeLabel_err (o o' : Oracle) (s s' : BSt) (e : Err) (h : codeLabel o s = (o', s', e)) : e = .ok ∨ e = .oom := by
  unfold codeLabel at h
  repeat' split at h
  all_goals (cases h; simp)
theorem comment_oom (o o' : Oracle) (s s' : BSt) (n : Nat) (h : comment o s n = (o', s', .oom)) : s'.v = s.v := by
  unfold comment at h
  repeat' split at h
  all_goals (first | (cases h; done) | (cases h; rfl) | exact addNode_oom _ _ _ _ _ h)

theorem newLabelTail_oom (id : Nat) (r : Oracle × BSt × Err) (o' : Oracle) (s' : BSt)
    (h : newLabelTail id r = (o', s', .oom)) : s'.v = r.2.1.v := by
  obtain ⟨o1, s1, e1⟩ := r
  unfold newLabelTail at h
  simp only at h
  repeat' split at h
  all_goals (first | (cases h; done) | (cases h; rfl) | skip)

/-- a failed `new_label()`: nothing changed, or exactly one label id of the CodeHolder was used up -/
theorem newLabel_oom (o o' : Oracle) (s s' : BSt) (h : newLabel o s = (o', s', .oom)) :
    s'.v = s.v ∨ s'.v = { s.v with labelCount := s.v.labelCount + 1 } := by
  unfold newLabel at h
  have ht := newLabelTail_oom _ _ _ _ h
  generalize hc : codeLabel o s = r at h ht
  obtain ⟨o1, s1, e1⟩ := r
  simp only at ht
  rcases codeLabel_err _ _ _ _ _ hc with rfl | rfl
  · right; rw [ht, codeLabel_ok _ _ _ _ hc]
  · left; rw [ht, codeLabel_oom _ _ _ _ hc]

theorem lnResize_view (o : Oracle) (s : BSt) (l : Nat) : (lnResize o s l).2.1.v = s.v := by
  unfold lnResize
  repeat' split
  all_goals rfl

theorem lnNode_view (l : Nat) (r : Oracle × BSt × Bool) : (lnNode l r).2.1.v = r.2.1.v := by
  obtain ⟨o1, s1, b⟩ := r
  unfold lnNode
  simp only
  repeat' split
  all_goals rfl

theorem labelNodeOf_view (o : Oracle) (s : BSt) (l : Nat) : (labelNodeOf o s l).2.1.v = s.v := by
  unfold labelNodeOf
  split
  · rfl
  · rw [lnNode_view, lnResize_view]

theorem bind_oom (o o' : Oracle) (s s' : BSt) (l : Nat) (h : bind o s l = (o', s', .oom)) : s'.v = s.v := by
  unfold bind at h
  have hv := labelNodeOf_view o s l
  generalize labelNodeOf o s l = r at h hv
  obtain ⟨o1, s1, e1⟩ := r
  unfold bindTail at h
  simp only at h hv
  repeat' split at h
  all_goals (first | (cases h; done) | (cases h; exact hv) | skip)

/-- `builder_fail_atomic_exact`: under every oracle a Builder call answered out of memory left the node list untouched; the
only other observable change possible is ONE label id of the CodeHolder used up by a failed `new_label()` -/
theorem bstep_oom_exact (op : BOp) (o o' : Oracle) (s s' : BSt) (h : bstep op o s = (o', s', .oom)) :
    s'.v = s.v ∨ (op = .newLabel ∧ s'.v = { s.v with labelCount := s.v.labelCount + 1 }) ∨
    (∃ k, op = .emit k ∧ s'.v = clearOneShot s.v) := by
  cases op <;> simp only [bstep] at h
  case emit k => right; right; exact ⟨k, rfl, emit_oom _ _ _ _ _ h⟩
  case setExtra r => cases h
  case setOpts b => cases h
  case setComment => cases h
  case newLabel => rcases newLabel_oom _ _ _ _ h with h1 | h1; exact Or.inl h1; exact Or.inr (Or.inl ⟨rfl, h1⟩)
  case codeLabel => left; exact codeLabel_oom _ _ _ _ h
  case bind l => left; exact bind_oom _ _ _ _ _ h
  case align n => left; exact addNode_oom _ _ _ _ _ h
  case embed n => left; exact addNode_oom _ _ _ _ _ h
  case embedLabel l =>
    left
    split at h
    · cases h
    · exact addNode_oom _ _ _ _ _ h
  case comment n => left; exact comment_oom _ _ _ _ _ h

/-! ## other answers refine the failure-free meaning -/

theorem addNode_ref (o o' : Oracle) (s s' : BSt) (n : Node) (e : Err) (h : addNode o s n = (o', s', e)) (he : e ≠ .oom) :
    e = .ok ∧ s'.v = { s.v with nodes := s.v.nodes ++ [n] } := by
  unfold addNode at h
  repeat' split at h
  all_goals (first | (cases h; simp at he; done) | (cases h; exact ⟨rfl, rfl⟩))

theorem newLabelTail_ref (id : Nat) (r : Oracle × BSt × Err) (o' : Oracle) (s' : BSt) (e : Err)
    (h : newLabelTail id r = (o', s', e)) (he : e ≠ .oom) (hr : r.2.2 = .ok ∨ r.2.2 = .oom) : e = .ok ∧ s'.v = r.2.1.v := by
  obtain ⟨o1, s1, e1⟩ := r
  unfold newLabelTail at h
  simp only at h hr
  repeat' split at h
  all_goals (first | (cases h; simp at he; done) | (cases h; exact ⟨rfl, rfl⟩) | skip)
  cases h
  rcases hr with rfl | rfl
  · rename_i hne; simp at hne
  · simp at he

/-- `builder_answer_refines_spec`: an answer other than out of memory is the failure-free answer and effect - with the one
documented tolerance: when the inline comment cannot be duplicated the instruction node is added without it -/
theorem bstep_ref (op : BOp) (o o' : Oracle) (s s' : BSt) (e : Err) (h : bstep op o s = (o', s', e)) (he : e ≠ .oom) :
    (s'.v, e) = bspec op s.v ∨
    (∃ k, op = .emit k ∧ s.v.pendCmt = true ∧ e = .ok ∧
      s'.v = { clearOneShot s.v with nodes := s.v.nodes ++ [.inst k s.v.pendExtra s.v.pendOpts false] }) := by
  cases op <;> simp only [bstep] at h
  case emit k =>
    unfold emit at h
    simp only at h
    repeat' split at h
    all_goals (first | (cases h; simp at he; done) | (cases h; left; simp_all [bspec, clearOneShot]; done) |
      (cases h; right; exact ⟨k, rfl, by assumption, rfl, by simp [clearOneShot]⟩))
  case setExtra r => left; cases h; rfl
  case setOpts b => left; cases h; rfl
  case setComment => left; cases h; rfl
  case newLabel =>
    left
    unfold newLabel at h
    generalize hc : codeLabel o s = r at h
    obtain ⟨o1, s1, e1⟩ := r
    have := newLabelTail_ref _ _ _ _ _ h he (codeLabel_err _ _ _ _ _ hc)
    simp only at this
    have he1 : e1 = .ok := by
      rcases codeLabel_err _ _ _ _ _ hc with h1 | h1
      · exact h1
      · subst h1; unfold newLabelTail at h; simp at h; simp_all
    subst he1
    rw [this.1, this.2, codeLabel_ok _ _ _ _ hc]; rfl
  case codeLabel =>
    left
    rcases codeLabel_err _ _ _ _ _ h with rfl | rfl
    · rw [codeLabel_ok _ _ _ _ h]; rfl
    · simp at he
  case bind l =>
    left
    unfold bind at h
    have hv := labelNodeOf_view o s l
    have hinv : (labelNodeOf o s l).2.2 = .invalidArgument ↔ l ≥ s.v.labelCount := by
      unfold labelNodeOf
      split
      · simp [*]
      · rename_i hl
        simp only [hl, iff_false]
        unfold lnNode
        repeat' split
        all_goals simp
    have hcases : (labelNodeOf o s l).2.2 = .ok ∨ (labelNodeOf o s l).2.2 = .oom ∨ (labelNodeOf o s l).2.2 = .invalidArgument := by
      unfold labelNodeOf
      split
      · simp
      · unfold lnNode
        repeat' split
        all_goals simp
    generalize labelNodeOf o s l = r at h hv hinv hcases
    obtain ⟨o1, s1, e1⟩ := r
    unfold bindTail at h
    simp only at h hv hinv hcases
    rcases hcases with rfl | rfl | rfl
    · have hl : ¬ l ≥ s.v.labelCount := by intro hh; have := hinv.mpr hh; simp at this
      simp only [ne_eq, not_true_eq_false, if_false] at h
      split at h
      · rename_i hc; cases h; rw [hv] at hc ⊢; have hc' := hc; simp at hc'; simp [bspec, hl, hc']
      · rename_i hc; cases h; rw [hv] at hc; have hc' := hc; simp at hc'; simp [bspec, hl, hc', hv]
    · simp at h; obtain ⟨_, _, rfl⟩ := h; simp at he
    · have hl := hinv.mp rfl
      simp at h; obtain ⟨_, rfl, rfl⟩ := h; rw [hv]; simp [bspec, hl]
  case align n => left; have := addNode_ref _ _ _ _ _ _ h he; rw [this.1, this.2]; rfl
  case embed n => left; have := addNode_ref _ _ _ _ _ _ h he; rw [this.1, this.2]; rfl
  case embedLabel l =>
    left
    split at h
    · rename_i hl; cases h; simp [bspec, hl]
    · rename_i hl; have := addNode_ref _ _ _ _ _ _ h he; rw [this.1, this.2]; simp [bspec, hl]
  case comment n =>
    left
    unfold comment at h
    split at h
    · rename_i hn; subst hn; have := addNode_ref _ _ _ _ _ _ h he; rw [this.1, this.2]; rfl
    · split at h
      · cases h; simp at he
      · have := addNode_ref _ _ _ _ _ _ h he; rw [this.1, this.2]; rfl


/-! ## fault accounting -/

theorem reserveGrow8_faults (o o1 : Oracle) (cap n c : Nat) (b : Bool) (h : reserveGrow8 o cap n = (o1, c, b)) :
    faults o1 ≤ faults o ∧ (b = false → faults o1 < faults o) := by
  unfold reserveGrow8 at h
  repeat' split at h
  all_goals (cases h; grind)
theorem reserveGrow8_le (o o1 : Oracle) (cap n c : Nat) (b : Bool) (h : reserveGrow8 o cap n = (o1, c, b)) :
    faults o1 ≤ faults o := (reserveGrow8_faults _ _ _ _ _ _ h).1
theorem reserveGrow8_lt (o o1 : Oracle) (cap n c : Nat) (h : reserveGrow8 o cap n = (o1, c, false)) :
    faults o1 < faults o := (reserveGrow8_faults _ _ _ _ _ _ h).2 rfl
attribute [grind →] reserveGrow8_le reserveGrow8_lt

theorem addNode_faults (o o' : Oracle) (s s' : BSt) (n : Node) (e : Err) (h : addNode o s n = (o', s', e)) : Acct o o' e := by
  unfold addNode at h
  repeat' split at h
  all_goals (cases h; grind)
theorem emit_faults (o o' : Oracle) (s s' : BSt) (k : Nat) (e : Err) (h : emit o s k = (o', s', e)) : Acct o o' e := by
  unfold emit at h
  simp only at h
  repeat' split at h
  all_goals (cases h; grind)
theorem codeLabel_faults (o o' : Oracle) (s s' : BSt) (e : Err) (h : codeLabel o s = (o', s', e)) : Acct o o' e := by
  unfold codeLabel at h
  repeat' split at h
  all_goals (cases h; grind)
theorem newLabelTail_faults (id : Nat) (r : Oracle × BSt × Err) (o0 o' : Oracle) (s' : BSt) (e : Err)
    (hr : Acct o0 r.1 r.2.2) (h : newLabelTail id r = (o', s', e)) : Acct o0 o' e := by
  obtain ⟨o1, s1, e1⟩ := r
  unfold newLabelTail at h
  simp only at h hr
  repeat' split at h
  all_goals (cases h; grind)
theorem lnResize_faults (o : Oracle) (s : BSt) (l : Nat) :
    faults (lnResize o s l).1 ≤ faults o ∧ ((lnResize o s l).2.2 = false → faults (lnResize o s l).1 < faults o) := by
  unfold lnResize
  repeat' split
  all_goals (simp; try grind)
theorem lnNode_faults (l : Nat) (r : Oracle × BSt × Bool) (o0 : Oracle)
    (hr : faults r.1 ≤ faults o0 ∧ (r.2.2 = false → faults r.1 < faults o0)) : Acct o0 (lnNode l r).1 (lnNode l r).2.2 := by
  obtain ⟨o1, s1, b⟩ := r
  unfold lnNode
  simp only at hr ⊢
  repeat' split
  all_goals (simp [Acct]; try grind)
theorem labelNodeOf_faults (o : Oracle) (s : BSt) (l : Nat) : Acct o (labelNodeOf o s l).1 (labelNodeOf o s l).2.2 := by
  unfold labelNodeOf
  split
  · simp [Acct]
  · exact lnNode_faults l _ o (lnResize_faults o s l)
theorem comment_faults (o o' : Oracle) (s s' : BSt) (n : Nat) (e : Err) (h : comment o s n = (o', s', e)) : Acct o o' e := by
  unfold comment at h
  split at h
  · exact addNode_faults _ _ _ _ _ _ h
  · split at h
    · cases h; grind
    · have := addNode_faults _ _ _ _ _ _ h; grind

/-- `builder_oom_consumes_fault`: Builder calls only consume failures, and an out-of-memory answer consumed one -/
theorem bstep_faults (op : BOp) (o o' : Oracle) (s s' : BSt) (e : Err) (h : bstep op o s = (o', s', e)) : Acct o o' e := by
  cases op <;> simp only [bstep] at h
  case emit k => exact emit_faults _ _ _ _ _ _ h
  case setExtra r => cases h; simp [Acct]
  case setOpts b => cases h; simp [Acct]
  case setComment => cases h; simp [Acct]
  case newLabel =>
    unfold newLabel at h
    generalize hc : codeLabel o s = r at h
    obtain ⟨o1, s1, e1⟩ := r
    exact newLabelTail_faults _ (o1, s1, e1) o _ _ _ (codeLabel_faults _ _ _ _ _ hc) h
  case codeLabel => exact codeLabel_faults _ _ _ _ _ h
  case bind l =>
    unfold bind at h
    have hf := labelNodeOf_faults o s l
    generalize labelNodeOf o s l = r at h hf
    obtain ⟨o1, s1, e1⟩ := r
    unfold bindTail at h
    simp only at h hf
    repeat' split at h
    all_goals (cases h; grind)
  case align n => exact addNode_faults _ _ _ _ _ _ h
  case embed n => exact addNode_faults _ _ _ _ _ _ h
  case embedLabel l =>
    split at h
    · cases h; simp [Acct]
    · exact addNode_faults _ _ _ _ _ _ h
  case comment n => exact comment_faults _ _ _ _ _ _ h


/-! ## the component invariant of the Builder's label bookkeeping -/

/-- `_label_entries` and `_label_nodes` have room for what they hold, `_label_nodes` never outgrows the label count, and no
unchecked append / resize ever ran without room -/
def BInv (s : BSt) : Prop :=
  s.corrupt = false ∧ s.v.labelCount ≤ s.c.labCap ∧ s.c.lnodes.length ≤ s.c.lnCap ∧ s.c.lnodes.length ≤ s.v.labelCount

theorem reserveGrow8_room (o o1 : Oracle) (cap n c : Nat) (h : reserveGrow8 o cap n = (o1, c, true)) (hn : 0 < n)
    (hb : n ≤ 2 ^ 41) : n ≤ c := by
  unfold reserveGrow8 at h
  repeat' split at h
  all_goals (first | (cases h; done) | (cases h; omega) | skip)
  cases h
  have := growCap_ge 0 n 8 (by decide) hn (by unfold Vector.kGrowThreshold Arena.u64; omega)
  simpa [growCap] using this

theorem addNode_binv (o o' : Oracle) (s s' : BSt) (n : Node) (e : Err) (hI : BInv s) (h : addNode o s n = (o', s', e)) :
    BInv s' ∧ s'.v.labelCount = s.v.labelCount := by
  unfold addNode at h
  repeat' split at h
  all_goals (cases h; exact ⟨hI, rfl⟩)

theorem codeLabel_binv (o o' : Oracle) (s s' : BSt) (e : Err) (hI : BInv s) (hb : s.v.labelCount + 1 ≤ 2 ^ 40)
    (h : codeLabel o s = (o', s', e)) : BInv s' ∧ s'.v.labelCount ≤ s.v.labelCount + 1 ∧ s'.c.lnodes = s.c.lnodes ∧ s'.c.lnCap = s.c.lnCap := by
  unfold BInv at *
  unfold codeLabel at h
  repeat' split at h
  all_goals (cases h; (try simp); grind)

theorem bstep_binv (op : BOp) (o o' : Oracle) (s s' : BSt) (e : Err) (hI : BInv s) (hb : s.v.labelCount + 1 ≤ 2 ^ 40)
    (h : bstep op o s = (o', s', e)) : BInv s' ∧ s'.v.labelCount ≤ s.v.labelCount + 1 := by
  cases op <;> simp only [bstep] at h
  case emit k =>
    unfold emit at h
    simp only at h
    repeat' split at h
    all_goals (cases h; exact ⟨by unfold BInv at *; simpa [clearOneShot] using hI, by simp [clearOneShot]⟩)
  case setExtra r => cases h; exact ⟨by unfold BInv at *; simpa using hI, by simp⟩
  case setOpts b => cases h; exact ⟨by unfold BInv at *; simpa using hI, by simp⟩
  case setComment => cases h; exact ⟨by unfold BInv at *; simpa using hI, by simp⟩
  case newLabel =>
    unfold newLabel at h
    generalize hc : codeLabel o s = r at h
    obtain ⟨o1, s1, e1⟩ := r
    have h1 := codeLabel_binv _ _ _ _ _ hI hb hc
    have hok : e1 = .ok → s1.v.labelCount = s.v.labelCount + 1 := by
      intro he; subst he; rw [codeLabel_ok _ _ _ _ hc]
    unfold newLabelTail at h
    simp only at h
    unfold BInv at *
    split at h
    · cases h; exact ⟨h1.1, h1.2.1⟩
    · rename_i hne
      have he1 : e1 = .ok := by simpa using hne
      have hcnt := hok he1
      repeat' split at h
      all_goals (cases h; (try simp); grind)
  case codeLabel => have := codeLabel_binv _ _ _ _ _ hI hb h; exact ⟨this.1, this.2.1⟩
  case bind l =>
    unfold bind bindTail labelNodeOf at h
    unfold BInv at *
    split at h
    · simp at h; obtain ⟨_, rfl, _⟩ := h; exact ⟨hI, by simp⟩
    · rename_i hl
      have hR : BInv (lnResize o s l).2.1 ∧ (lnResize o s l).2.1.v = s.v := by
        refine ⟨?_, lnResize_view o s l⟩
        unfold lnResize BInv
        repeat' split
        all_goals (first | exact hI | skip)
        rename_i hlen _ _ c1 hrg
        have := reserveGrow8_room _ _ _ _ _ hrg (by omega) (by omega)
        simp
        grind
      generalize lnResize o s l = r at h hR
      obtain ⟨o1, s1, b⟩ := r
      unfold lnNode at h
      simp only at h hR
      unfold BInv at hR
      obtain ⟨hR1, hRv⟩ := hR
      repeat' split at h
      all_goals (first | (cases h; simp [hRv]; grind) | skip)
  case align n => have := addNode_binv _ _ _ _ _ _ hI h; exact ⟨this.1, by omega⟩
  case embed n => have := addNode_binv _ _ _ _ _ _ hI h; exact ⟨this.1, by omega⟩
  case embedLabel l =>
    split at h
    · cases h; exact ⟨hI, by simp⟩
    · have := addNode_binv _ _ _ _ _ _ hI h; exact ⟨this.1, by omega⟩
  case comment n =>
    unfold comment at h
    split at h
    · have := addNode_binv _ _ _ _ _ _ hI h; exact ⟨this.1, by omega⟩
    · split at h
      · cases h; exact ⟨hI, by simp⟩
      · have := addNode_binv _ _ _ _ _ _ hI h; exact ⟨this.1, by omega⟩

theorem brun_binv : ∀ (ops : List BOp) (o : Oracle) (s : BSt), BInv s → s.v.labelCount + ops.length ≤ 2 ^ 40 → BInv (brun ops o s).1
  | [], _, _, hI, _ => by simpa [brun] using hI
  | op :: rest, o, s, hI, hb => by
    unfold brun
    generalize hst : bstep op o s = r
    obtain ⟨o1, s1, e⟩ := r
    simp only [List.length_cons] at hb
    have := bstep_binv op o o1 s s1 e hI (by omega) hst
    simp only
    exact brun_binv rest o1 s1 this.1 (by omega)

end AsmjitVerif.FaultBuilder
