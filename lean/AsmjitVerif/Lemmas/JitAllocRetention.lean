/- A block that holds no span is flagged empty in every reachable state (C09, retention policy; the converse of `BCnt.emp`). -/
import AsmjitVerif.Lemmas.JitAllocPools
namespace AsmjitVerif.JitAlloc


/-- a block whose used area is only the padding is flagged empty (the converse of `BCnt.emp`; fails on the pinned tree: C09-2) -/
def BEmp (b : Block) : Prop := b.areaUsed = b.padN → b.empty = true

theorem pad_span_le_used {b : Block} {S} {s0 n0 : Nat} (hI : BInv b S) (hC : BCnt b) (hS : S s0 n0) : b.padN + n0 ≤ b.areaUsed := by
  obtain ⟨i1, i2, i3⟩ := hI.inside s0 n0 hS
  have hcount := count_setRange_false b.used s0 (s0 + n0) (by omega) (by rw [hI.lenU]; exact i3) (by
    intro j a c
    exact (hI.used j (by omega)).mpr (Or.inr ⟨s0, n0, hS, a, c⟩))
  have hc := hC.cnt
  by_cases hp : b.pad = true
  · have hp1 := padN_pos b hp
    have h0 : bit (setRange b.used s0 (s0 + n0) false) 0 = true := by
      rw [bit_setRange]
      have : ¬(s0 ≤ 0 ∧ 0 < s0 + n0 ∧ 0 < b.used.length) := by omega
      simp only [this, if_false]
      exact (hI.used 0 hI.area).mpr (Or.inl ⟨hp, rfl⟩)
    have := count_pos_of_bit _ 0 h0
    omega
  · simp at hp
    have := padN_zero b hp
    omega

theorem padN_le_used {b : Block} {S} (hI : BInv b S) (hC : BCnt b) : b.padN ≤ b.areaUsed := by
  by_cases hp : b.pad = true
  · have := count_pos_of_bit b.used 0 ((hI.used 0 hI.area).mpr (Or.inl ⟨hp, rfl⟩))
    have := hC.cnt
    have := padN_pos b hp
    omega
  · simp at hp; have := padN_zero b hp; omega

theorem count_only_pad (l : List Bool) (pad : Bool) (hl : 0 < l.length)
    (h : ∀ i, i < l.length → (bit l i = true ↔ (pad = true ∧ i = 0))) : l.count true = if pad = true then 1 else 0 := by
  cases l with
  | nil => simp at hl
  | cons x xs =>
    have hx : x = pad := by
      have := h 0 (by simp)
      rw [bit_cons_zero] at this
      cases x <;> cases pad
      · rfl
      · exact absurd (this.mpr ⟨rfl, rfl⟩) (by simp)
      · exact absurd (this.mp rfl).1 (by simp)
      · rfl
    have hz : xs.count true = 0 := by
      apply List.count_eq_zero.mpr
      intro hmem
      obtain ⟨i, hi, e⟩ := List.mem_iff_getElem.mp hmem
      have := (h (i + 1) (by simp; omega)).mp (by rw [bit_cons_succ, bit_eq_getElem xs i hi, e])
      omega
    subst hx
    cases x <;> simp [List.count_cons, hz]

/-- a block without live spans uses exactly its padding granule -/
theorem used_eq_pad_of_no_spans {b : Block} {S} (hI : BInv b S) (hC : BCnt b) (hno : ∀ s n, ¬ S s n) : b.areaUsed = b.padN := by
  rw [hC.cnt, count_only_pad b.used b.pad (by rw [hI.lenU]; exact hI.area)]
  · rfl
  · intro i hi
    rw [hI.lenU] at hi
    rw [hI.used i hi]
    constructor
    · rintro (hp | ⟨s, n, hS, _⟩)
      · exact hp
      · exact absurd hS (hno s n)
    · intro hp; exact Or.inl hp

theorem BEmp.markReleased {b : Block} (s0 n0 : Nat) (hne : b.empty = false) : BEmp (b.markReleased s0 (s0 + n0)) := by
  have e1 : s0 + n0 - s0 = n0 := by omega
  intro hu
  simp only [markReleased_areaUsed, markReleased_padN, e1] at hu
  unfold Block.markReleased
  simp only [e1]
  by_cases hA : (b.incremental && b.searchStart == s0 + n0) = true
  · simp [hA, hu]
  · have hA' : (b.incremental && b.searchStart == s0 + n0) = false := by simpa using hA
    simp only [hA', Bool.false_eq_true, if_false]
    rw [if_pos hu]





def AEmp (a : Alloc) : Prop := ∀ b ∈ a.blocks, BEmp b

/-- a predicate kept by the cache refresh and established by a commit holds for every block after the block loop -/
theorem scanPass_forall (Q : Block → Prop) (sel : Block → Bool) (k : Nat) :
    ∀ (bs : List Block), (∀ b ∈ bs, Q b) →
      (∀ b ∈ bs, ∀ b', b.tryAlloc k = (b', none) → Q b') →
      (∀ b ∈ bs, ∀ b' idx, b.tryAlloc k = (b', some idx) → Q (b'.commit idx k)) →
      ∀ x ∈ (scanPass sel k bs).1, Q x := by
  intro bs
  induction bs with
  | nil => intro _ _ _ x hx; simp [scanPass] at hx
  | cons b bs ih =>
    intro hq hn hs x hx
    have ih' := ih (fun y hy => hq y (List.mem_cons_of_mem _ hy)) (fun y hy => hn y (List.mem_cons_of_mem _ hy))
      (fun y hy => hs y (List.mem_cons_of_mem _ hy))
    unfold scanPass at hx
    by_cases hsel : sel b = true
    · simp only [hsel, if_true] at hx
      rcases hta : b.tryAlloc k with ⟨b', _ | idx⟩
      · rw [hta] at hx
        rcases List.mem_cons.mp hx with rfl | hx
        · exact hn b List.mem_cons_self _ hta
        · exact ih' x hx
      · rw [hta] at hx
        rcases List.mem_cons.mp hx with rfl | hx
        · exact hs b List.mem_cons_self _ _ hta
        · exact hq x (List.mem_cons_of_mem _ hx)
    · simp only [hsel] at hx
      rcases List.mem_cons.mp hx with rfl | hx
      · exact hq _ List.mem_cons_self
      · exact ih' x hx

theorem allocNew_aemp {a : Alloc} {p n size : Nat} {blocks : List Block} (hfr : ∀ x ∈ blocks, x.id < a.nextId) (hn : 0 < n)
    (hq : ∀ b ∈ blocks, BEmp b) : AEmp (a.allocNew p n size blocks).1 := by
  let a1 : Alloc := { a with blocks := blocks }
  let nb := newBlock a1 p (idealBlockSize a1 p size)
  let fb : Block := ({ nb with searchStart := nb.searchStart + n, largest := nb.largest - n }).markAllocated nb.padN (nb.padN + n)
  have hblocks : (a.allocNew p n size blocks).1.blocks = blocks ++ [fb] := by
    unfold Alloc.allocNew
    simp only [Alloc.insertBlock, Alloc.modifyBlock, setPool_blocks, List.map_append, List.map_cons, List.map_nil]
    rw [map_modify_fresh blocks _ _ (by intro x hx; exact hfr x hx)]
    simp
    rfl
  intro x hx
  rw [hblocks] at hx
  rcases List.mem_append.mp hx with hx | hx
  · exact hq x hx
  · simp at hx
    rw [hx]
    intro hu
    exfalso
    have e1 : fb.areaUsed = nb.areaUsed + (nb.padN + n - nb.padN) := by simp [fb]
    have e2 : fb.padN = nb.padN := by simp [fb, Block.padN]
    have e3 : nb.areaUsed = nb.padN := rfl
    rw [e1, e2, e3] at hu
    omega

theorem alloc_aemp {a : Alloc} {T} (req : Nat) (h : AInv a T) (hE : AEmp a) : AEmp (a.alloc req).1 := by
  unfold Alloc.alloc
  simp only
  split
  · exact hE
  · split
    · exact hE
    · rename_i hs0 _
      have hal := alignUp_mod req a.cfg.gran
      generalize alignUp req a.cfg.gran = size at hs0 hal
      have hg := poolGran_pos h.wf (sizeToPoolId a.cfg size)
      have hdvd := sizeToPoolId_dvd a.cfg size hal
      have hsz := (ceil_mul_of_dvd size _ hg hdvd).symm
      have hn : 0 < (size + a.cfg.poolGran (sizeToPoolId a.cfg size) - 1) / a.cfg.poolGran (sizeToPoolId a.cfg size) := by
        apply Nat.pos_of_ne_zero
        intro h0
        rw [h0] at hsz
        omega
      -- one pass keeps BEmp, given BInv/BCnt of its input
      have pass : ∀ (sel : Block → Bool) (bs : List Block), (∀ b ∈ bs, BInv b (T b.id b.pool) ∧ BCnt b) → (∀ b ∈ bs, BEmp b) →
          ∀ x ∈ (scanPass sel ((size + a.cfg.poolGran (sizeToPoolId a.cfg size) - 1) / a.cfg.poolGran (sizeToPoolId a.cfg size)) bs).1, BEmp x := by
        intro sel bs hinv hq
        apply scanPass_forall BEmp sel _ bs hq
        · intro b hb b' ht hu
          obtain ⟨_, _, f3, f4, f5⟩ := tryAlloc_acct ht
          have : b'.padN = b.padN := by simp [Block.padN, f5]
          rw [f4]; exact hq b hb (by rw [← f3, ← this]; exact hu)
        · intro b hb b' idx ht hu
          exfalso
          obtain ⟨_, _, f3, f4, f5⟩ := tryAlloc_acct ht
          obtain ⟨_, _, c3, _⟩ := commit_acct b' idx ((size + a.cfg.poolGran (sizeToPoolId a.cfg size) - 1) / a.cfg.poolGran (sizeToPoolId a.cfg size))
          have hp : (b'.commit idx ((size + a.cfg.poolGran (sizeToPoolId a.cfg size) - 1) / a.cfg.poolGran (sizeToPoolId a.cfg size))).padN = b.padN := by
            simp [Block.commit, Block.padN, f5]
          have := padN_le_used (hinv b hb).1 (hinv b hb).2
          rw [c3, hp, f3] at hu
          omega
      have tp := twoPass_spec
        (fun b => b.pool == sizeToPoolId a.cfg size && decide ((a.pool (sizeToPoolId a.cfg size)).cursor.getD 0 ≤ b.id))
        (fun b => b.pool == sizeToPoolId a.cfg size && decide (b.id < (a.pool (sizeToPoolId a.cfg size)).cursor.getD 0))
        _ hn (T := T) a.blocks h.ids h.blk _ rfl
      have p1 := pass (fun b => b.pool == sizeToPoolId a.cfg size && decide ((a.pool (sizeToPoolId a.cfg size)).cursor.getD 0 ≤ b.id)) a.blocks h.blk hE
      have hr2 : ∀ x ∈ (if (scanPass (fun b => b.pool == sizeToPoolId a.cfg size && decide ((a.pool (sizeToPoolId a.cfg size)).cursor.getD 0 ≤ b.id))
            ((size + a.cfg.poolGran (sizeToPoolId a.cfg size) - 1) / a.cfg.poolGran (sizeToPoolId a.cfg size)) a.blocks).2.isSome
          then scanPass (fun b => b.pool == sizeToPoolId a.cfg size && decide ((a.pool (sizeToPoolId a.cfg size)).cursor.getD 0 ≤ b.id))
            ((size + a.cfg.poolGran (sizeToPoolId a.cfg size) - 1) / a.cfg.poolGran (sizeToPoolId a.cfg size)) a.blocks
          else scanPass (fun b => b.pool == sizeToPoolId a.cfg size && decide (b.id < (a.pool (sizeToPoolId a.cfg size)).cursor.getD 0))
            ((size + a.cfg.poolGran (sizeToPoolId a.cfg size) - 1) / a.cfg.poolGran (sizeToPoolId a.cfg size))
            (scanPass (fun b => b.pool == sizeToPoolId a.cfg size && decide ((a.pool (sizeToPoolId a.cfg size)).cursor.getD 0 ≤ b.id))
              ((size + a.cfg.poolGran (sizeToPoolId a.cfg size) - 1) / a.cfg.poolGran (sizeToPoolId a.cfg size)) a.blocks).1).1, BEmp x := by
        split
        · exact p1
        · rename_i hnone
          have s1 := scanPass_spec (fun b => b.pool == sizeToPoolId a.cfg size && decide ((a.pool (sizeToPoolId a.cfg size)).cursor.getD 0 ≤ b.id))
            _ hn T a.blocks h.ids h.blk
          have hn' : (scanPass (fun b => b.pool == sizeToPoolId a.cfg size && decide ((a.pool (sizeToPoolId a.cfg size)).cursor.getD 0 ≤ b.id))
              ((size + a.cfg.poolGran (sizeToPoolId a.cfg size) - 1) / a.cfg.poolGran (sizeToPoolId a.cfg size)) a.blocks).2 = none := by
            cases hh : (scanPass (fun b => b.pool == sizeToPoolId a.cfg size && decide ((a.pool (sizeToPoolId a.cfg size)).cursor.getD 0 ≤ b.id))
              ((size + a.cfg.poolGran (sizeToPoolId a.cfg size) - 1) / a.cfg.poolGran (sizeToPoolId a.cfg size)) a.blocks).2 with
            | none => rfl
            | some v => rw [hh] at hnone; simp at hnone
          have s12 := s1.2
          rw [hn'] at s12
          exact pass _ _ s12 p1
      unfold Alloc.allocIn
      simp only
      split
      · intro x hx
        simp only [Alloc.allocFound, setPool_blocks] at hx
        exact hr2 x hx
      · rename_i hr
        rw [hr] at tp
        obtain ⟨hmap, _⟩ := tp
        have hfresh : ∀ x ∈ (if (scanPass (fun b => b.pool == sizeToPoolId a.cfg size && decide ((a.pool (sizeToPoolId a.cfg size)).cursor.getD 0 ≤ b.id))
            ((size + a.cfg.poolGran (sizeToPoolId a.cfg size) - 1) / a.cfg.poolGran (sizeToPoolId a.cfg size)) a.blocks).2.isSome
          then scanPass (fun b => b.pool == sizeToPoolId a.cfg size && decide ((a.pool (sizeToPoolId a.cfg size)).cursor.getD 0 ≤ b.id))
            ((size + a.cfg.poolGran (sizeToPoolId a.cfg size) - 1) / a.cfg.poolGran (sizeToPoolId a.cfg size)) a.blocks
          else scanPass (fun b => b.pool == sizeToPoolId a.cfg size && decide (b.id < (a.pool (sizeToPoolId a.cfg size)).cursor.getD 0))
            ((size + a.cfg.poolGran (sizeToPoolId a.cfg size) - 1) / a.cfg.poolGran (sizeToPoolId a.cfg size))
            (scanPass (fun b => b.pool == sizeToPoolId a.cfg size && decide ((a.pool (sizeToPoolId a.cfg size)).cursor.getD 0 ≤ b.id))
              ((size + a.cfg.poolGran (sizeToPoolId a.cfg size) - 1) / a.cfg.poolGran (sizeToPoolId a.cfg size)) a.blocks).1).1,
            x.id < a.nextId := fun x hx => by
          obtain ⟨y, hy, e⟩ := exists_of_map_eq hmap.symm x hx
          simp at e
          have := h.fresh y hy
          omega
        exact allocNew_aemp hfresh hn hr2





theorem release_aemp {a : Alloc} {T} {s0 n0 : Nat} {b : Block} (h : AInv a T) (hE : AEmp a) (hb : b ∈ a.blocks)
    (hS : T b.id b.pool s0 n0) : AEmp (a.release b.id (s0 * a.cfg.poolGran b.pool)).1 := by
  have hg := poolGran_pos h.wf b.pool
  obtain ⟨hI, hC⟩ := h.blk b hb
  obtain ⟨i1, i2, i3⟩ := hI.inside s0 n0 hS
  have hidx : s0 * a.cfg.poolGran b.pool / a.cfg.poolGran b.pool = s0 := Nat.mul_div_cancel _ hg
  have he : indexOfStop b.stop s0 + 1 = s0 + n0 := by rw [hI.toBCore.indexOfStop hS]; omega
  intro x hx
  rcases release_shape a b.id _ b (findBlock_of_mem h.ids hb) x hx with hx | ⟨m, rfl⟩
  · exact hE x hx
  · rw [hidx, he]
    exact BEmp.markReleased s0 n0 (span_le_used hI hC hS).2

theorem shrink_aemp {a : Alloc} {T} {s0 n0 : Nat} {b : Block} (h : AInv a T) (hE : AEmp a) (hb : b ∈ a.blocks)
    (hS : T b.id b.pool s0 n0) (newSize : Nat) (hns : 0 < newSize) :
    AEmp (a.shrinkImpl b.id (s0 * a.cfg.poolGran b.pool) newSize).1 := by
  have hg := poolGran_pos h.wf b.pool
  obtain ⟨hI, hC⟩ := h.blk b hb
  obtain ⟨i1, i2, i3⟩ := hI.inside s0 n0 hS
  have hidx : s0 * a.cfg.poolGran b.pool / a.cfg.poolGran b.pool = s0 := Nat.mul_div_cancel _ hg
  have he : indexOfStop b.stop s0 + 1 = s0 + n0 := by rw [hI.toBCore.indexOfStop hS]; omega
  have hm : 0 < (newSize + a.cfg.poolGran b.pool - 1) / a.cfg.poolGran b.pool := by
    apply Nat.pos_of_ne_zero
    intro h0
    have := Nat.div_eq_zero_iff.mp h0
    omega
  have hpu := pad_span_le_used hI hC hS
  intro x hx
  rcases shrink_shape a b.id _ newSize b (findBlock_of_mem h.ids hb) x hx with hx | ⟨m, rfl⟩ | ⟨m, hd, hgt, rfl⟩
  · exact hE x hx
  · exact hE b hb
  · rw [hidx, he] at hd hgt ⊢
    intro hu
    exfalso
    have e : (b.markShrunk (s0 + (newSize + a.cfg.poolGran b.pool - 1) / a.cfg.poolGran b.pool) (s0 + n0)).areaUsed =
        b.areaUsed - (s0 + n0 - (s0 + (newSize + a.cfg.poolGran b.pool - 1) / a.cfg.poolGran b.pool)) := by simp
    have e2 : (b.markShrunk (s0 + (newSize + a.cfg.poolGran b.pool - 1) / a.cfg.poolGran b.pool) (s0 + n0)).padN = b.padN := by simp
    have hu' : (b.markShrunk (s0 + (newSize + a.cfg.poolGran b.pool - 1) / a.cfg.poolGran b.pool) (s0 + n0)).areaUsed =
        (b.markShrunk (s0 + (newSize + a.cfg.poolGran b.pool - 1) / a.cfg.poolGran b.pool) (s0 + n0)).padN := hu
    rw [e, e2] at hu'
    omega

theorem writeMem_aemp {a : Alloc} (hE : AEmp a) (blk off size byte : Nat) : AEmp (a.writeMem blk off size byte) := by
  intro x hx
  simp only [Alloc.writeMem, Alloc.modifyBlock, List.mem_map] at hx
  obtain ⟨y, hy, rfl⟩ := hx
  split
  · exact hE y hy
  · exact hE y hy

theorem reset_aemp (a : Alloc) (hard : Bool) : AEmp (a.reset hard) := by
  intro x hx
  simp only [Alloc.reset] at hx
  obtain ⟨y, hy, hf⟩ := List.mem_filterMap.mp hx
  by_cases hk : a.keeps hard y = true
  · simp [hk] at hf
    rw [← hf]
    intro _
    exact wipeOut_empty _ _
  · simp [hk] at hf

theorem AEmp.step {s : St} (hI : Inv s) (hE : AEmp s.a) (op : Op) : AEmp (step s op).1.a := by
  have rel : ∀ (s : St), Inv s → AEmp s.a → ∀ (j : Nat) (hd : Handle), s.tab[j]? = some hd → hd.live = true →
      ∀ ansOk : Ans,
      AEmp (match s.a.release hd.blk hd.off with
        | (a, .ok _) => (({ a := a, tab := killHandle s.tab j } : St), ansOk)
        | (a, .error e) => ({ s with a := a }, Ans.err e)).1.a := by
    intro s hI hE j hd hj hl ansOk
    obtain ⟨b, hb, e, st, n0, o1, o2⟩ := hI.owned j hd hj hl
    have hS : TT s b.id b.pool st n0 := ⟨j, hd, hj, hl, e.symm, o1, o2⟩
    have := release_aemp hI.toAInv hE hb hS
    rw [e, ← o1] at this
    rcases hr : s.a.release hd.blk hd.off with ⟨a', (e' | u)⟩ <;> (rw [hr] at this; exact this)
  have shr : ∀ (s : St), Inv s → AEmp s.a → ∀ (j : Nat) (hd : Handle), s.tab[j]? = some hd → hd.live = true →
      ∀ newSize : Nat, newSize ≠ 0 →
      AEmp (match s.a.shrinkImpl hd.blk hd.off newSize with
        | (a, .ok (some sz)) => (({ a := a, tab := setHandleSize s.tab j sz } : St), Ans.size sz)
        | (a, .ok none) => ({ s with a := a }, Ans.size hd.size)
        | (a, .error e) => ({ s with a := a }, Ans.err e)).1.a := by
    intro s hI hE j hd hj hl newSize hns
    obtain ⟨b, hb, e, st, n0, o1, o2⟩ := hI.owned j hd hj hl
    have hS : TT s b.id b.pool st n0 := ⟨j, hd, hj, hl, e.symm, o1, o2⟩
    have := shrink_aemp hI.toAInv hE hb hS newSize (Nat.pos_of_ne_zero hns)
    rw [e, ← o1] at this
    rcases hr : s.a.shrinkImpl hd.blk hd.off newSize with ⟨a', (e' | (_ | sz))⟩ <;> (rw [hr] at this; exact this)
  cases op with
  | alloc req =>
    have := alloc_aemp req hI.toAInv hE
    simp only [JitAlloc.step]
    rcases hr : s.a.alloc req with ⟨a', (e | sp)⟩ <;> (rw [hr] at this; exact this)
  | release j =>
    simp only [JitAlloc.step]
    cases hj : s.tab[j]? with
    | none => exact hE
    | some hd =>
      simp only
      cases hl : hd.live with
      | false => simpa using hE
      | true => simp only [Bool.not_true, Bool.false_eq_true, if_false]; exact rel s hI hE j hd hj hl _
  | shrink j newSize =>
    simp only [JitAlloc.step]
    cases hj : s.tab[j]? with
    | none => exact hE
    | some hd =>
      simp only
      cases hl : hd.live with
      | false => simpa using hE
      | true =>
        simp only [Bool.not_true, Bool.false_eq_true, if_false]
        by_cases h0 : newSize = 0
        · simp only [h0, if_true]; exact rel s hI hE j hd hj hl _
        · simp only [h0, if_false]; exact shr s hI hE j hd hj hl newSize h0
  | query j off =>
    simp only [JitAlloc.step]
    cases hj : s.tab[j]? with
    | none => exact hE
    | some hd =>
      simp only
      cases s.a.findBlock hd.blk with
      | none => exact hE
      | some b =>
        simp only
        split
        · exact hE
        · split
          · exact hE
          · split <;> exact hE
  | sstale j newSize =>
    simp only [JitAlloc.step]
    cases hj : s.tab[j]? with
    | none => exact hE
    | some hd =>
      simp only
      split
      · exact hE
      · cases s.a.findBlock hd.blk with
        | none => exact hE
        | some b =>
          simp only
          split
          · exact hE
          · cases hq : s.a.query hd.blk hd.off with
            | ok sp => exact hE
            | error e =>
              simp only
              obtain ⟨e', he'⟩ := shrinkImpl_of_query_error (n := newSize) hq
              rw [he']
              exact hE
  | write j byte =>
    simp only [JitAlloc.step]
    cases hj : s.tab[j]? with
    | none => exact hE
    | some hd =>
      simp only
      split
      · exact hE
      · exact writeMem_aemp hE _ _ _ _
  | wtrunc j byte newSize =>
    simp only [JitAlloc.step]
    cases hj : s.tab[j]? with
    | none => exact hE
    | some hd =>
      simp only
      cases hl : hd.live with
      | false => simpa using hE
      | true =>
        simp only [Bool.not_true, Bool.false_eq_true, if_false]
        have hI' := hI.writeMem hd.blk hd.off hd.size (byte % 256)
        have hE' := writeMem_aemp hE hd.blk hd.off hd.size (byte % 256)
        split
        · exact hE'
        · by_cases h0 : newSize = 0
          · simp only [h0, if_true]
            exact rel { s with a := s.a.writeMem hd.blk hd.off hd.size (byte % 256) } hI' hE' j hd hj hl _
          · simp only [h0, if_false]
            exact shr { s with a := s.a.writeMem hd.blk hd.off hd.size (byte % 256) } hI' hE' j hd hj hl newSize h0
  | read j =>
    simp only [JitAlloc.step]
    cases hj : s.tab[j]? with
    | none => exact hE
    | some hd =>
      simp only
      split
      · exact hE
      · split <;> exact hE
  | mem => exact hE
  | sweep => exact hE
  | blocks => exact hE
  | dump => exact hE
  | reset hard => exact reset_aemp s.a hard
  | isinit => exact hE
  | rforeign k => exact hE
  | qforeign k => exact hE
  | sforeign => exact hE

theorem AEmp.finalState {s : St} (hI : Inv s) (hE : AEmp s.a) (ops : List Op) : AEmp (finalState s ops).a := by
  induction ops generalizing s with
  | nil => exact hE
  | cons op ops ih => exact ih (hI.step op) (AEmp.step hI hE op)



end AsmjitVerif.JitAlloc
