/- C06 part 2 – arguments that arrive in registers OR on the stack, register destinations: `init_work_data` establishes the
   invariant, phase 2 and phase 3 compose (stack-arguments base addressed through sp / the frame pointer). -/
import AsmjitVerif.Lemmas.C06ShuffleTop
import AsmjitVerif.Lemmas.C06ShufflePhase3
namespace AsmjitVerif.C06S
open AsmjitVerif.CallConv AsmjitVerif.Shuffle AsmjitVerif.Machine

/-- a stack argument assigned to a register -/
structure StkPair (src dst : FuncValue) : Prop where
  srcNotReg : src.isReg = false
  srcStk : src.isStack = true
  srcDirect : src.isIndirect = false
  dstReg : dst.isReg = true

/-- the variable `init_work_data` creates -/
def mkVar2 (src dst : FuncValue) : Var :=
  if src.isReg then mkVar src dst else { cur := src, out := patchRegDst dst, outInit := true }

/-- an assignment of register and stack arguments to registers: every argument has a register destination; register arguments
    stay in their group and sit in pairwise distinct registers, stack arguments in pairwise distinct slots; destinations are
    pairwise distinct (the API answers `kOverlappedRegs` otherwise) -/
structure SrcDst (vals : Vals) : Prop where
  pair : ∀ i, i < vals.length → (vals.getD i dfltVal).2 = some (dstAt vals i) ∧
    (RegPair (srcAt vals i) (dstAt vals i) ∨ StkPair (srcAt vals i) (dstAt vals i))
  dist : ∀ i j, i < vals.length → j < vals.length → i ≠ j → srcLoc (srcAt vals i) ≠ srcLoc (srcAt vals j)
  ddist : ∀ i j, i < vals.length → j < vals.length → i ≠ j →
    ¬ (groupOf (dstAt vals i).regType = groupOf (dstAt vals j).regType ∧ (dstAt vals i).regId = (dstAt vals j).regId)

theorem srcLoc_reg {s : FuncValue} (h : s.isReg = true) : srcLoc s = some (.reg (groupOf s.regType) s.regId) := by simp [srcLoc, h]
theorem srcLoc_stk {s : FuncValue} (h1 : s.isReg = false) (h2 : s.isStack = true) : srcLoc s = some (.argStack s.stackOffset) := by
  simp [srcLoc, h1, h2]

structure PInv2 (vals : Vals) (c : Ctx) (k : Nat) : Prop where
  len : c.vars.length = k
  wdlen : c.wd.length = 4
  physlen : ∀ g, g < 4 → (c.w g).phys.length = 32
  sdm : c.stackDstMask = 0
  hss : c.hasStackSrc = false → ∀ i, i < k → (srcAt vals i).isReg = true
  sav : c.saVarId = 255
  var : ∀ i, i < k → c.var i = mkVar2 (srcAt vals i) (dstAt vals i)
  lt : ∀ i, i < k → groupOf (dstAt vals i).regType < 4 ∧ (dstAt vals i).regId < 32
  phys : ∀ i, i < k → (srcAt vals i).isReg = true → physAt c (groupOf (srcAt vals i).regType) (srcAt vals i).regId = some i
  inv : ∀ g r j, physAt c g r = some j → j < k ∧ (srcAt vals j).isReg = true ∧ groupOf (srcAt vals j).regType = g ∧ (srcAt vals j).regId = r

structure InitStepS (c c' : Ctx) (src dst : FuncValue) : Prop where
  vars : c'.vars = c.vars ++ [mkVar2 src dst]
  phys : ∀ g r, physAt c' g r = physAt c g r
  wdlen : c'.wd.length = 4
  physlen : ∀ g, g < 4 → (c'.w g).phys.length = 32
  sdm : c'.stackDstMask = c.stackDstMask
  hss : c'.hasStackSrc = true
  sav : c'.saVarId = c.saVarId
  grpLt : groupOf dst.regType < 4
  dstLt : dst.regId < 32

theorem initVar_stk (a : Arch) (c : Ctx) (re : Nat) (src dst : FuncValue) (hp : StkPair src dst)
    (hwl : c.wd.length = 4) (hpl : ∀ g, g < 4 → (c.w g).phys.length = 32) (c' : Ctx) (re' : Nat)
    (h : initVar a c re src dst = .ok (c', re')) : InitStepS c c' src dst := by
  unfold initVar at h
  have hass : src.isAssigned = true := by simp [FuncValue.isAssigned, hp.srcStk]
  simp only [hass, hp.srcDirect, Bool.not_true, Bool.false_eq_true, if_false] at h
  cases hdst : initDst a c src dst with
  | error x => rw [hdst] at h; simp at h
  | ok r =>
    obtain ⟨c1, d1, g, id⟩ := r
    rw [hdst] at h
    simp only at h
    obtain ⟨hd1, hg, hid, hglt, hidlt, w1, hc1, hw1⟩ := initDst_reg a c src dst hp.dstReg c1 d1 g id hdst
    unfold initSrc at h
    simp only [hp.srcNotReg, Bool.false_eq_true, if_false] at h
    simp only [Except.ok.injEq, Prod.mk.injEq] at h
    obtain ⟨hc', _⟩ := h
    have hphys1 : ∀ g' r, physAt c1 g' r = physAt c g' r := by
      intro g' r; unfold physAt
      by_cases hgg : g' = g
      · subst hgg; rw [hc1, w_setW_eq _ _ _ (by rw [hwl]; exact hglt), hw1]
      · rw [hc1, w_setW_ne _ _ _ _ (fun hh => hgg hh.symm)]
    have hwl1 : c1.wd.length = 4 := by rw [hc1]; simp [Ctx.setW, hwl]
    refine ⟨?_, ?_, ?_, ?_, ?_, ?_, ?_, by rw [← hg]; exact hglt, by rw [← hid]; exact hidlt⟩
    · rw [← hc']; simp only
      rw [hc1]; simp only [Ctx.setW, mkVar2, hp.srcNotReg, hd1, Bool.false_eq_true, if_false]
    · intro g' r; rw [← hc']; exact hphys1 g' r
    · rw [← hc']; exact hwl1
    · intro g' hg'
      rw [← hc']
      show (c1.w g').phys.length = 32
      by_cases hg2 : g' = g
      · subst hg2; rw [hc1, w_setW_eq _ _ _ (by rw [hwl]; exact hglt), hw1]; exact hpl _ hg'
      · rw [hc1, w_setW_ne _ _ _ _ (fun hh => hg2 hh.symm)]; exact hpl _ hg'
    · rw [← hc', hc1]; rfl
    · rw [← hc']
    · rw [← hc', hc1]; rfl

theorem mkVar2_reg {src dst : FuncValue} (h : src.isReg = true) : mkVar2 src dst = mkVar src dst := by simp [mkVar2, h]

theorem initVars_spec2 (a : Arch) (vals : Vals) (hr : SrcDst vals) : ∀ (rest : Vals) (k : Nat) (c : Ctx) (re : Nat),
    rest = vals.drop k → k ≤ vals.length → PInv2 vals c k → ∀ c' re', initVars a c re rest = .ok (c', re') →
    PInv2 vals c' vals.length := by
  intro rest
  induction rest with
  | nil =>
    intro k c re hrest hkle hP c' re' h
    have hk : vals.length ≤ k := by
      have := congrArg List.length hrest; simp at this; omega
    simp only [initVars] at h
    cases h
    have : k = vals.length := by omega
    subst this; exact hP
  | cons x rest ih =>
    intro k c re hrest hkle hP c' re' h
    have hklt : k < vals.length := by
      have := congrArg List.length hrest; simp at this; omega
    rw [List.drop_eq_getElem_cons hklt] at hrest
    injection hrest with hx hrest'
    obtain ⟨hdd, hpair⟩ := hr.pair k hklt
    have hxs : x = (srcAt vals k, some (dstAt vals k)) := by
      have h1 : vals.getD k dfltVal = x := by
        rw [hx]; simp [List.getD_eq_getElem?_getD, hklt]
      unfold srcAt; rw [← hdd, h1]
    rw [hxs] at h
    simp only [initVars] at h
    cases hiv : initVar a c re (srcAt vals k) (dstAt vals k) with
    | error e => rw [hiv] at h; simp at h
    | ok r =>
      obtain ⟨c1, re1⟩ := r
      rw [hiv] at h
      simp only at h
      have hlen : c.vars.length = k := hP.len
      refine ih (k + 1) c1 re1 hrest' hklt ?_ c' re' h
      rcases hpair with hpair | hpair
      · -- register source
        have hs := initVar_reg a c re _ _ hpair hP.wdlen hP.physlen c1 re1 hiv
        have hne : ∀ i, i < k → (srcAt vals i).isReg = true → ¬ (groupOf (srcAt vals i).regType = groupOf (srcAt vals k).regType ∧
            (srcAt vals i).regId = (srcAt vals k).regId) := by
          intro i hi hri hh
          have := hr.dist i k (by omega) hklt (by omega)
          rw [srcLoc_reg hri, srcLoc_reg hpair.srcReg, hh.1, hh.2] at this
          exact this rfl
        refine ⟨by rw [hs.vars]; simp [hlen], hs.wdlen, hs.physlen, by rw [hs.sdm]; exact hP.sdm, ?_,
          by rw [hs.sav]; exact hP.sav, ?_, ?_, ?_, ?_⟩
        · intro hh i hi
          by_cases hik : i = k
          · subst hik; exact hpair.srcReg
          · exact hP.hss (by rw [← hs.hss]; exact hh) i (by omega)
        · intro i hi
          unfold Ctx.var
          rw [hs.vars]
          by_cases hik : i = k
          · subst hik; rw [mkVar2_reg hpair.srcReg, ← hlen]; exact getD_append_len _ _ _
          · rw [getD_append_left _ _ _ _ (by omega)]; exact hP.var i (by omega)
        · intro i hi
          by_cases hik : i = k
          · subst hik; exact ⟨hs.grpLt, hs.dstLt⟩
          · exact hP.lt i (by omega)
        · intro i hi hri
          rw [hs.phys]
          by_cases hik : i = k
          · subst hik; simp [hlen]
          · have := hne i (by omega) hri
            simp only [this, if_false]
            exact hP.phys i (by omega) hri
        · intro g r j hj
          rw [hs.phys] at hj
          by_cases hgr : g = groupOf (srcAt vals k).regType ∧ r = (srcAt vals k).regId
          · simp only [hgr, and_self, if_true] at hj
            have : j = k := by rw [← hlen]; exact (Option.some.inj hj).symm
            subst this
            exact ⟨by omega, hpair.srcReg, hgr.1.symm, hgr.2.symm⟩
          · simp only [hgr, if_false] at hj
            obtain ⟨a1, a2, a3, a4⟩ := hP.inv g r j hj
            exact ⟨by omega, a2, a3, a4⟩
      · -- stack source
        have hs := initVar_stk a c re _ _ hpair hP.wdlen hP.physlen c1 re1 hiv
        refine ⟨by rw [hs.vars]; simp [hlen], hs.wdlen, hs.physlen, by rw [hs.sdm]; exact hP.sdm, ?_,
          by rw [hs.sav]; exact hP.sav, ?_, ?_, ?_, ?_⟩
        · intro hh; rw [hs.hss] at hh; exact absurd hh (by simp)
        · intro i hi
          unfold Ctx.var
          rw [hs.vars]
          by_cases hik : i = k
          · subst hik; rw [← hlen]; exact getD_append_len _ _ _
          · rw [getD_append_left _ _ _ _ (by omega)]; exact hP.var i (by omega)
        · intro i hi
          by_cases hik : i = k
          · subst hik; exact ⟨hs.grpLt, hs.dstLt⟩
          · exact hP.lt i (by omega)
        · intro i hi hri
          rw [hs.phys]
          by_cases hik : i = k
          · subst hik; rw [hpair.srcNotReg] at hri; exact absurd hri (by simp)
          · exact hP.phys i (by omega) hri
        · intro g r j hj
          rw [hs.phys] at hj
          obtain ⟨a1, a2, a3, a4⟩ := hP.inv g r j hj
          exact ⟨by omega, a2, a3, a4⟩

theorem initFrom_get2 (vis : List VarInfo) : ∀ (rest : Vals) (k : Nat),
    (∀ j, j < rest.length → ∃ d l, (rest.getD j dfltVal).2 = some d ∧ srcLoc (rest.getD j dfltVal).1 = some l) →
    (∀ i j, i < rest.length → j < rest.length → i ≠ j → srcLoc (rest.getD i dfltVal).1 ≠ srcLoc (rest.getD j dfltVal).1) →
    ∀ j, j < rest.length → ∀ l, srcLoc (rest.getD j dfltVal).1 = some l →
      (initFrom vis k rest).get l = some (initTok vis (k + j)) := by
  intro rest
  induction rest with
  | nil => intro k _ _ j hj; simp at hj
  | cons x rest ih =>
    intro k hloc hdist j hj l hl
    obtain ⟨src, dd⟩ := x
    obtain ⟨d, l0, hd, hl0⟩ := hloc 0 (by simp)
    rw [getD_cons_zero] at hd hl0
    simp only at hd hl0
    subst hd
    have hunf : initFrom vis k ((src, some d) :: rest) = (l0, initTok vis k) :: initFrom vis (k + 1) rest := by
      simp [initFrom, hl0]
    rw [hunf, get_cons]
    cases j with
    | zero =>
      rw [getD_cons_zero] at hl
      simp only at hl
      rw [hl0] at hl
      simp [Option.some.inj hl]
    | succ j' =>
      rw [getD_cons_succ] at hl
      have hne := hdist 0 (j' + 1) (by simp) hj (by omega)
      rw [getD_cons_zero, getD_cons_succ] at hne
      simp only at hne
      have : ¬ (l0 = l) := by
        intro h; apply hne; rw [hl0, hl, h]
      simp only [this, if_false]
      have := ih (k + 1)
        (fun i hi => by have := hloc (i + 1) (by simp; omega); rw [getD_cons_succ] at this; exact this)
        (fun a b ha hb hab => by
          have := hdist (a + 1) (b + 1) (by simp; omega) (by simp; omega) (by omega)
          rw [getD_cons_succ, getD_cons_succ] at this; exact this)
        j' (by simpa using hj) l hl
      rw [this]; congr 2; omega

/-- a register variable that `init_work_data` marks done in place needs no conversion -/
def DoneInitOk2 (vals : Vals) : Prop :=
  ∀ i, i < vals.length → (srcAt vals i).isReg = true →
    doneAtInit (srcAt vals i) (patchRegDst (dstAt vals i)) (groupOf (dstAt vals i).regType) (dstAt vals i).regId = true →
    (initTok (vals.map varInfoOf) i).dv = true

theorem srcAt_loc (vals : Vals) (hr : SrcDst vals) (i : Nat) (hi : i < vals.length) :
    ∃ l, srcLoc (srcAt vals i) = some l := by
  rcases (hr.pair i hi).2 with h | h
  · exact ⟨_, srcLoc_reg h.srcReg⟩
  · exact ⟨_, srcLoc_stk h.srcNotReg h.srcStk⟩

theorem wf_of_pinv2 (cfg : Cfg) (f : FrameIn) (vals : Vals) (hr : SrcDst vals) (hd0 : DoneInitOk2 vals) (c c2 : Ctx)
    (hP : PInv2 vals c vals.length) (F : Nat → WorkData) (hv : c2.vars = c.vars) (hwd : c2.wd = (List.range 4).map F)
    (hF : ∀ g, g < 4 → (F g).phys = (c.w g).phys) :
    WF (paramsOf cfg f vals) { ctx := c2 } (paramsOf cfg f vals).M0 := by
  have hphys : ∀ g r, g < 4 → physAt c2 g r = physAt c g r := by
    intro g r hg; unfold physAt; rw [w_map_range c2 F g hwd]; simp only [hg, if_true]; rw [hF g hg]
  have hvar : ∀ i, c2.var i = c.var i := by intro i; unfold Ctx.var; rw [hv]
  have hget : ∀ i, i < vals.length → ∀ l, srcLoc (srcAt vals i) = some l →
      (initFrom (vals.map varInfoOf) 0 vals).get l = some (initTok (vals.map varInfoOf) i) := by
    intro i hi l hl
    have := initFrom_get2 (vals.map varInfoOf) vals 0
      (fun j hj => by
        obtain ⟨l', hl'⟩ := srcAt_loc vals hr j hj
        exact ⟨dstAt vals j, l', (hr.pair j hj).1, hl'⟩)
      (fun a b ha hb hab => hr.dist a b ha hb hab) i hi l hl
    simpa using this
  refine ⟨by show c2.vars.length = vals.length; rw [hv]; exact hP.len, by show c2.wd.length = 4; rw [hwd]; simp, ?_, rfl, ?_, ?_, ?_⟩
  · intro g hg
    show (c2.w g).phys.length = 32
    rw [w_map_range c2 F g hwd]; simp only [hg, if_true]; rw [hF g hg]; exact hP.physlen g hg
  · intro i hi hreg
    have hi' : i < vals.length := hi
    show VarOK _ c2 _ i (c2.var i)
    replace hreg : (c2.var i).cur.isReg = true := hreg
    obtain ⟨hdd, hpair0⟩ := hr.pair i hi'
    obtain ⟨hgl, hdl⟩ := hP.lt i hi'
    rw [hvar, hP.var i hi'] at hreg ⊢
    have hsr : (srcAt vals i).isReg = true := by
      cases hh : (srcAt vals i).isReg with
      | true => rfl
      | false => simp [mkVar2, hh] at hreg
    have hpair : RegPair (srcAt vals i) (dstAt vals i) := by
      rcases hpair0 with h | h
      · exact h
      · rw [h.srcNotReg] at hsr; exact absurd hsr (by simp)
    rw [mkVar2_reg hsr]
    have hsrc := params_src cfg f vals i hi'
    have hout := params_out cfg f vals i hi'
    have hgrp : groupOf (srcAt vals i).regType = groupOf (patchRegDst (dstAt vals i)).regType := by
      rw [patch_regType]; exact hpair.grp
    refine ⟨hout.symm, hpair.srcReg, hpair.srcNotStk, by show (patchRegDst _).isReg = true; rw [patch_isReg]; exact hpair.dstReg, rfl, hgrp,
      by show groupOf (patchRegDst _).regType < 4; rw [patch_regType]; exact hgl, hpair.srcLt,
      by show (patchRegDst _).regId < 32; rw [patch_regId]; exact hdl, ?_, ?_, fun _ => by rw [hsrc]; exact hpair.srcReg⟩
    · show physAt c2 (groupOf (srcAt vals i).regType) (srcAt vals i).regId = some i
      rw [hphys _ _ (by rw [hpair.grp]; exact hgl)]; exact hP.phys i hi' hsr
    · refine ⟨initTok (vals.map varInfoOf) i, ?_, rfl, fun _ => Or.inl ⟨by rw [hsrc]; rfl, by rw [hsrc]; rfl, rfl, fun h => h⟩, ?_⟩
      · exact hget i hi' _ (srcLoc_reg hsr)
      · intro hdone
        exact ⟨by
          have : (patchRegDst (dstAt vals i)).regId = (dstAt vals i).regId := patch_regId _
          simp only [mkVar, doneAtInit, Bool.and_eq_true, decide_eq_true_eq] at hdone
          show (srcAt vals i).regId = (patchRegDst (dstAt vals i)).regId
          rw [this]; exact hdone.1.symm, hd0 i hi' hsr hdone⟩
  · intro i hi hnr
    have hi' : i < vals.length := hi
    show StkOK _ _ i (c2.var i)
    replace hnr : (c2.var i).cur.isReg = false := hnr
    obtain ⟨hdd, hpair0⟩ := hr.pair i hi'
    obtain ⟨hgl, hdl⟩ := hP.lt i hi'
    rw [hvar, hP.var i hi'] at hnr ⊢
    have hpair : StkPair (srcAt vals i) (dstAt vals i) := by
      rcases hpair0 with h | h
      · rw [mkVar2_reg h.srcReg] at hnr; simp only [mkVar] at hnr; rw [h.srcReg] at hnr; exact absurd hnr (by simp)
      · exact h
    have hmk : mkVar2 (srcAt vals i) (dstAt vals i) = { cur := srcAt vals i, out := patchRegDst (dstAt vals i), outInit := true } := by
      simp [mkVar2, hpair.srcNotReg]
    rw [hmk]
    have hsrc := params_src cfg f vals i hi'
    have hout := params_out cfg f vals i hi'
    exact ⟨hout.symm, hsrc.symm, hpair.srcStk, hpair.srcDirect, rfl, by show (patchRegDst _).isReg = true; rw [patch_isReg]; exact hpair.dstReg,
      rfl, by show groupOf (patchRegDst _).regType < 4; rw [patch_regType]; exact hgl,
      by show (patchRegDst _).regId < 32; rw [patch_regId]; exact hdl,
      hget i hi' _ (srcLoc_stk hpair.srcNotReg hpair.srcStk)⟩
  · intro g r j hg hr' hj
    rw [hphys g r hg] at hj
    obtain ⟨a1, a2, a3, a4⟩ := hP.inv g r j hj
    rw [hvar, hP.var j a1, mkVar2_reg a2]
    exact ⟨a1, a3, a4, a2⟩

/-! ### phase 2 never touches the `has_stack_src` flag -/
theorem emitMove_hss (cfg : Cfg) (e : Emit) (v o : Nat) (e' : Emit) (h : emitMove cfg e v o = .ok e') :
    e'.ctx.hasStackSrc = e.ctx.hasStackSrc := by
  unfold emitMove at h
  simp only at h
  split at h
  · exact absurd h (by simp)
  · cases h; rfl

theorem shuffleVar_hss (cfg : Cfg) (e : Emit) (fl : Flags) (i : Nat) (e' : Emit) (fl' : Flags)
    (h : shuffleVar cfg (e, fl) i = .ok (e', fl')) : e'.ctx.hasStackSrc = e.ctx.hasStackSrc := by
  unfold shuffleVar at h
  simp only at h
  repeat' (split at h)
  all_goals first
    | (cases h; rfl)
    | (cases h; exact emitMove_hss _ _ _ _ _ (by assumption))
    | (exact absurd h (by simp))

theorem pass_hss (cfg : Cfg) : ∀ (L : List Nat) (e : Emit) (fl : Flags) (e' : Emit) (fl' : Flags),
    L.foldlM (shuffleVar cfg) (e, fl) = .ok (e', fl') → e'.ctx.hasStackSrc = e.ctx.hasStackSrc := by
  intro L
  induction L with
  | nil => intro e fl e' fl' h; simp only [List.foldlM_nil, pure, Except.pure] at h; cases h; rfl
  | cons a L ih =>
    intro e fl e' fl' h
    simp only [List.foldlM_cons, bind, Except.bind] at h
    cases h1 : shuffleVar cfg (e, fl) a with
    | error x => rw [h1] at h; simp at h
    | ok r =>
      obtain ⟨e1, fl1⟩ := r
      rw [h1] at h
      simp only at h
      rw [ih e1 fl1 e' fl' h, shuffleVar_hss cfg e fl a e1 fl1 h1]

theorem loop_hss (cfg : Cfg) (n : Nat) : ∀ (fuel : Nat) (e : Emit) (fl : Flags) (e' : Emit),
    shuffleLoop cfg n fuel e fl = .ok e' → e'.ctx.hasStackSrc = e.ctx.hasStackSrc := by
  intro fuel
  induction fuel with
  | zero => intro e fl e' h; simp [shuffleLoop] at h
  | succ fuel ih =>
    intro e fl e' h
    unfold shuffleLoop at h
    cases h1 : (List.range n).foldlM (shuffleVar cfg) (e, fl) with
    | error x => rw [h1] at h; simp at h
    | ok r =>
      obtain ⟨e1, fl1⟩ := r
      rw [h1] at h
      simp only at h
      have hp := pass_hss cfg _ e fl e1 fl1 h1
      split at h
      · cases h; exact hp
      · split at h
        · exact absurd h (by simp)
        · rw [ih _ _ _ h, hp]

theorem initWorkData_wf2 (cfg : Cfg) (f : FrameIn) (vals : Vals) (hr : SrcDst vals) (hd0 : DoneInitOk2 vals)
    (hsa : (f.da && !f.fp) = false) (ctx : Ctx) (h : initWorkData cfg.arch f 255 vals = .ok ctx) :
    WF (paramsOf cfg f vals) { ctx := ctx } (paramsOf cfg f vals).M0 ∧ ctx.stackDstMask = 0 ∧
    (ctx.hasStackSrc = false → ∀ i, i < vals.length → (srcAt vals i).isReg = true) := by
  unfold initWorkData at h
  simp only at h
  generalize hc0 : ({ wd := (List.range 4).map fun g =>
      { archRegs := if (g = 0 && f.fp) = true then (availableRegs cfg.arch).getD g 0 &&& not32 (1 <<< fpId cfg.arch)
                    else (availableRegs cfg.arch).getD g 0 } } : Ctx) = c0 at h
  have hwd0 : c0.wd = (List.range 4).map fun g =>
      ({ archRegs := if (g = 0 && f.fp) = true then (availableRegs cfg.arch).getD g 0 &&& not32 (1 <<< fpId cfg.arch)
                    else (availableRegs cfg.arch).getD g 0 } : WorkData) := by subst hc0; rfl
  have hP0 : PInv2 vals c0 0 := by
    have hw : ∀ g, (c0.w g).phys = List.replicate 32 none := by
      intro g; rw [w_map_range c0 _ g hwd0]; split <;> rfl
    refine ⟨by subst hc0; rfl, by rw [hwd0]; simp, fun g _ => by rw [hw]; simp, by subst hc0; rfl,
      fun _ i hi => absurd hi (by omega), by subst hc0; rfl,
      fun i hi => absurd hi (by omega), fun i hi => absurd hi (by omega), fun i hi => absurd hi (by omega), ?_⟩
    intro g r j hj
    unfold physAt at hj; rw [hw, replicate_getD_none] at hj; exact absurd hj (by simp)
  cases hiv : initVars cfg.arch c0 0 vals with
  | error e => rw [hiv] at h; simp at h
  | ok r =>
    obtain ⟨c, re⟩ := r
    rw [hiv] at h
    simp only at h
    have hP := initVars_spec2 cfg.arch vals hr vals 0 c0 0 (by simp) (by omega) hP0 c re hiv
    have hsr : (c.hasStackSrc && f.da && !f.fp) = false := by
      rw [Bool.and_assoc, hsa, Bool.and_false]
    simp only [hsr, Bool.false_and, Bool.false_or, bne_self_eq_false, Bool.and_false, Bool.false_eq_true, if_false,
      ne_eq, not_true_eq_false, decide_false, Bool.not_false] at h
    split at h
    · exact absurd h (by simp)
    · simp only [Bool.not_false, Bool.true_eq_false, if_false, if_true] at h
      cases h
      exact ⟨wf_of_pinv2 cfg f vals hr hd0 c _ hP
        (fun g => { archRegs := (c.w g).archRegs,
                    workRegs := (c.w g).archRegs &&& (f.dirty.getD g 0 ||| not32 (f.preserved.getD g 0)) ||| (c.w g).dstRegs |||
                      (c.w g).assignedMask,
                    dstRegs := (c.w g).dstRegs, phys := (c.w g).phys })
        rfl rfl (fun g _ => rfl), hP.sdm, hP.hss⟩

/-- the register the incoming stack arguments are addressed through when the frame needs no moving base pointer: `sp`, or the
    frame pointer of a dynamically aligned frame -/
def saFixed (a : Arch) (f : FrameIn) : Nat := if f.da then fpId a else spId a

theorem sa0_eq (f : FrameIn) (a : Arch) (hsa : (f.da && !f.fp) = false) (X : Nat) :
    (if f.da = true then (if f.fp = true then fpId a else X) else spId a) = saFixed a f := by
  unfold saFixed
  cases hda : f.da <;> cases hfp : f.fp <;> simp [hda, hfp] at hsa ⊢

theorem saLoc_fixed (f : FrameIn) (a : Arch) (hsa : (f.da && !f.fp) = false) (s : State) (o : Int) :
    loadLoc f a s (saFixed a f) (f.saOffset a (saFixed a f) + o) = some (.argStack o) := by
  unfold loadLoc saFixed FrameIn.saOffset
  have hne : fpId a ≠ spId a := by cases a <;> decide
  cases hda : f.da <;> cases hfp : f.fp <;> simp [hda, hfp, hne] at hsa ⊢ <;> omega

theorem judge_of_wf (cfg : Cfg) (f : FrameIn) (vals : Vals) (hr : SrcDst vals) (e : Emit) (M' : State)
    (hw' : WF (paramsOf cfg f vals) e M') (hkind : ∀ j, j < vals.length → (e.ctx.var j).cur.isReg = true)
    (hdone : ∀ j, j < vals.length → (e.ctx.var j).cur.isReg = true → (e.ctx.var j).done = true) :
    judge cfg.arch f vals e.out = some true := by
  unfold judge setup
  simp only
  have hrun : run (vals.map varInfoOf) f cfg.arch (initFrom (vals.map varInfoOf) 0 vals) e.out = some M' := hw'.runs
  rw [hrun]
  simp only [Option.map_some, Option.some.injEq]
  apply destsFrom_all
  intro j hj
  have hv := hw'.var j hj (hkind j hj)
  obtain ⟨hdd, hpair⟩ := hr.pair j hj
  have hdr : (dstAt vals j).isReg = true := by
    rcases hpair with h | h
    · exact h.dstReg
    · exact h.dstReg
  obtain ⟨tok, hget, htv, _, hd⟩ := hv.tok
  obtain ⟨hreg, hdv⟩ := hd (hdone j hj (hkind j hj))
  have hout : (e.ctx.var j).out = patchRegDst (dstAt vals j) := by rw [hv.out]; exact params_out cfg f vals j hj
  refine ⟨dstAt vals j, hdd, hdr, ?_⟩
  unfold destOk
  have : M'.get (Loc.reg (groupOf (dstAt vals j).regType) (dstAt vals j).regId) = some tok := by
    rw [← patch_regType, ← patch_regId, ← hout, ← hv.grp, ← hreg]; exact hget
  simp [this, htv, hdv]

/-- **register and stack arguments into registers, end to end** (stack arguments addressed through sp / the frame pointer): if
    `emit_args_assignment` returns `kOk`, the emitted list – register shuffle, then the loads – run on the machine from the state
    `setup` builds leaves every destination holding its argument in destination form -/
theorem shuffle_correct_srcs (cfg : Cfg) (f : FrameIn) (vals : Vals) (hr : SrcDst vals) (hd0 : DoneInitOk2 vals)
    (hsa : (f.da && !f.fp) = false) (hy : Hyp (paramsOf cfg f vals))
    (hload : ∀ i d off, i < vals.length → d < 32 →
      loadOkAt cfg (paramsOf cfg f vals).vis ((paramsOf cfg f vals).out i).regType ((paramsOf cfg f vals).out i).typeId
        ((paramsOf cfg f vals).src i).typeId (initTok (paramsOf cfg f vals).vis i) d (saFixed cfg.arch f) off = true)
    (hnsa : ∀ i, i < vals.length → ¬ ((dstAt vals i).regId = saFixed cfg.arch f ∧ groupOf (dstAt vals i).regType = 0))
    (hok : (emitArgsAssignment cfg f 255 vals).1 = none) :
    judge cfg.arch f vals (emitArgsAssignment cfg f 255 vals).2 = some true := by
  have h3 : Hyp3 (paramsOf cfg f vals) (saFixed cfg.arch f) := by
    refine ⟨hload, ?_, ?_, saLoc_fixed f cfg.arch hsa⟩
    · intro i hi
      have hi' : i < vals.length := hi
      rw [params_out cfg f vals i hi', patch_regId, patch_regType]; exact hnsa i hi'
    · intro i j hi hj hij
      have hi' : i < vals.length := hi
      have hj' : j < vals.length := hj
      rw [params_out cfg f vals i hi', params_out cfg f vals j hj', patch_regId, patch_regType, patch_regId, patch_regType]
      exact hr.ddist i j hi' hj' hij
  unfold emitArgsAssignment at hok ⊢
  simp only at hok ⊢
  cases hiw : initWorkData cfg.arch f 255 vals with
  | error e => rw [hiw] at hok; simp at hok
  | ok ctx =>
    rw [hiw] at hok
    obtain ⟨hwf, hsdm, hssreg⟩ := initWorkData_wf2 cfg f vals hr hd0 hsa ctx hiw
    have hn : ctx.vars.length = vals.length := hwf.len
    simp only [hsdm, ne_eq, not_true_eq_false, if_false, hn] at hok ⊢
    cases hl : shuffleLoop cfg vals.length (2 * vals.length + 2) { ctx := ctx } {} with
    | error x => (try rw [hl] at hok); simp at hok
    | ok e =>
      rw [hl] at hok
      simp only at hok ⊢
      obtain ⟨M', hw', hdone⟩ := loop_ok (paramsOf cfg f vals) hy _ _ _ {} hwf rfl e hl
      have hhss : e.ctx.hasStackSrc = ctx.hasStackSrc := loop_hss cfg _ _ _ _ e hl
      cases hb : e.ctx.hasStackSrc
      · simp only [hb, Bool.not_false, if_true]
        have hkind : ∀ j, j < vals.length → (e.ctx.var j).cur.isReg = true := by
          intro j hj
          cases hr' : (e.ctx.var j).cur.isReg with
          | true => rfl
          | false =>
            exfalso
            have hs := hw'.stk j hj hr'
            have h1 := hs.cur
            rw [params_src cfg f vals j hj] at h1
            rw [h1, hssreg (by rw [← hhss]; exact hb) j hj] at hr'; exact absurd hr' (by simp)
        exact judge_of_wf cfg f vals hr e M' hw' hkind hdone
      · simp only [hb, Bool.not_true, Bool.false_eq_true, if_false, hsa, sa0_eq f cfg.arch hsa] at hok ⊢
        cases hf : (List.range vals.length).foldlM (stackLoadVar cfg f (saFixed cfg.arch f)) (e, 1) with
        | error x => rw [hf] at hok; simp at hok
        | ok r =>
          obtain ⟨e2, ic⟩ := r
          obtain ⟨hic, ⟨M2, hw2⟩, hd2, hall, _⟩ := phase3_ok (paramsOf cfg f vals) _ h3 (List.range vals.length) e M' hw' hdone
            (fun j hj => List.mem_range.1 hj) e2 ic hf
          subst hic
          simp only [if_true]
          exact judge_of_wf cfg f vals hr e2 M2 hw2 (fun j hj => hall j (List.mem_range.2 hj)) hd2

end AsmjitVerif.C06S
