/-
C18 — ArenaTree::remove, part 8: the push-down loop of `removeNode` started from a represented tree
(`removeLoop_refines_partial`).
-/
import AsmjitVerif.Lemmas.C18TreeRem7
namespace AsmjitVerif.Tree.Rem
open AsmjitVerif.Tree AsmjitVerif.Tree.Spec

/-- the state in which `removeNode` enters its push-down loop -/
def initState (h : Tree) : RmState := { t := upd h 1 (fun _ => { r := h.root }) }

theorem removeNode_eq (h : Tree) (node : Nat) :
    removeNode h node =
      (let s := removeLoop kFuel node (initState h)
       let t := setChild s.t s.p (child s.t s.p true == s.q) (child s.t s.q (child s.t s.q false == 0))
       let t := if s.f ≠ s.q then
           replaceLoop kFuel t node (if s.gf ≠ 0 then s.gf else 1) s.f s.q
             (if (if s.gf ≠ 0 then s.gf else 1) = 1 then true
              else decide (key t (if s.gf ≠ 0 then s.gf else 1) < key t node))
         else t
       makeBlack { t with root := child t 1 true } (child t 1 true)) := rfl

theorem init_inv {h : Tree} {t : T} (hr : Represents h t) (node : Nat) (hmem : node ∈ t.idxs) :
    Inv (key h node) node (initState h) [] t := by
  obtain ⟨hrep, hnd⟩ := hr
  have hn2 := hrep.ge2 node hmem
  have hsz : 1 < h.nodes.size := by omega
  have e1 : nd (initState h).t 1 = { r := h.root } := by
    simp [initState, nd_upd, hsz]
  have eo : ∀ i, i ≠ 1 → nd (initState h).t i = nd h i := by
    intro i hi; simp only [initState, nd_upd]; rw [if_neg (fun c => hi c.1)]
  have es : (initState h).t.nodes.size = h.nodes.size := by simp only [initState, size_upd]
  refine ⟨by rw [es]; omega, by rw [e1], ?_, trivial, ?_, by simpa [ctxIdxs] using hnd, rfl, rfl, rfl⟩
  · show (nd (initState h).t node).key = (nd h node).key
    rw [eo node (by omega)]
  · show Rep (initState h).t (getC (nd (initState h).t 1) true) t
    rw [e1]
    exact hrep.frame es (fun i hi => eo i (by have := (hrep.ge2 i hi).1; omega))

theorem removeLoop_f (node : Nat) : ∀ (fuel : Nat) (st : RmState), (st.f = 0 ∨ st.f = node) →
    ((removeLoop fuel node st).f = 0 ∨ (removeLoop fuel node st).f = node) := by
  intro fuel
  induction fuel with
  | zero => intro st h; exact h
  | succ fuel ih =>
    intro st h
    rw [removeLoop_succ]
    split
    · exact h
    · apply ih
      rw [step_f]
      split
      · rename_i e; right; exact e
      · exact h

/-- PARTIAL RESULT (push-down loop only).  Hypotheses: the heap represents `t`, `node` is one of its nodes, and
    `t.height ≤ kFuel`.  Then after the `while (q->has_child(dir))` loop of `remove` — every colour flip and every
    single/double rotation, on all inputs — the heap (seen from `head.right`) represents a tree `t1` with EXACTLY the
    same in-order sequence of node indices and of keys (so it is still a BST over the same nodes, none lost, none
    duplicated), `head.left` is still null, the loop has stopped at a real node `q` of `t1` (`q = pIdx ctx`, the
    innermost frame) whose `dir` child is null, `p` is `q`'s parent (or `head`), and `f ∈ {0, node}`.
    MISSING for `remove_refines`: (1) the invariant that `f = node` was found, that `gf` is still a proper ancestor
    of `f` and that the frame directions agree with key comparison (needed for `replaceLoop`); (2) the unlink and
    `replaceLoop` steps (done below only for the `f = q` path); (3) the colour invariants (`RB`) of `absStep`. -/
theorem removeLoop_refines_partial {h : Tree} {t : T} {node : Nat} (hr : Represents h t) (hmem : node ∈ t.idxs)
    (hfuel : t.height ≤ kFuel) :
    let s := removeLoop kFuel node (initState h)
    ∃ (F : Frame) (up : List Frame), Inv (key h node) node s (F :: up) .nil ∧
      (plug (F :: up) .nil).io = t.io ∧ (plug (F :: up) .nil).idxs = t.idxs ∧ (plug (F :: up) .nil).keys = t.keys ∧
      Rep s.t (nd s.t 1).r (plug (F :: up) .nil) ∧ s.q = F.i ∧ child s.t s.q s.dir = 0 ∧ (s.f = 0 ∨ s.f = node) := by
  intro s
  obtain ⟨ctx', inv', e', _⟩ := removeLoop_inv (key h node) node kFuel (initState h) [] t (init_inv hr node hmem) hfuel
  simp only [plug] at e'
  cases ctx' with
  | nil =>
    simp only [plug, T.io] at e'
    have := congrArg (List.map Prod.fst) e'
    rw [T.io_idxs] at this
    rw [← this] at hmem; simp at hmem
  | cons F up =>
    refine ⟨F, up, inv', e', ?_, ?_, inv'.repc.plug inv'.reps, inv'.hq, ?_, removeLoop_f node _ _ (Or.inl rfl)⟩
    · rw [← T.io_idxs, e', T.io_idxs]
    · rw [← T.io_keys, e', T.io_keys]
    · show child s.t s.q s.dir = 0
      rw [inv'.hq, inv'.hdir]; exact inv'.reps.isNil_iff.mp rfl

/-- non-vacuity: a concrete heap built with `newNode`/`insertNode`; removing the node with key 3 (index 3) -/
def ins (t : Tree) (k : Nat) : Tree := let (t1, n) := newNode t k; insertNode t1 n
def demo : Tree := ins (ins (ins (ins (ins (ins {} 5) 3) 8) 1) 4) 9
example : inorder 10 demo demo.root = [1, 3, 4, 5, 8, 9] := by decide
example : key demo 3 = 3 ∧
    inorder 10 (removeLoop kFuel 3 (initState demo)).t (child (removeLoop kFuel 3 (initState demo)).t 1 true)
      = [1, 3, 4, 5, 8, 9] ∧ (removeLoop kFuel 3 (initState demo)).f = 3 := by decide
example : inorder 10 (removeNode demo 3) (removeNode demo 3).root = [1, 4, 5, 8, 9] := by decide

end AsmjitVerif.Tree.Rem
