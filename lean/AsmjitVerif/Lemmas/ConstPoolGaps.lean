/- C19 invariant, part 1: definitions and the gap machinery (`addGap`, `gapLoop`, `allocOffset`). -/
import AsmjitVerif.Lemmas.ConstPoolBasic
namespace AsmjitVerif.ConstPool
open Spec

/-- `n` is a node of tree `i` that owns its storage -/
def NS (t : List (List Node)) (i : Nat) (n : Node) : Prop := n ∈ getAt t i ∧ n.shared = false

def GDisj (a b : Gap) : Prop := a.offset + a.size ≤ b.offset ∨ b.offset + b.size ≤ a.offset

structure NodeOk (size align i : Nat) (n : Node) : Prop where
  idx : i < 7
  len : n.data.length = 2 ^ i
  al : 2 ^ i ∣ n.offset
  fit : n.offset + 2 ^ i ≤ size
  le : 2 ^ i ≤ align

structure TreeInv (t : List (List Node)) (size align : Nat) (hist : List Entry) : Prop where
  ok : ∀ i n, n ∈ getAt t i → NodeOk size align i n
  disj : ∀ i j a b, NS t i a → NS t j b →
    (i = j ∧ a = b) ∨ a.offset + 2 ^ i ≤ b.offset ∨ b.offset + 2 ^ j ≤ a.offset
  shared : ∀ j m, m ∈ getAt t j → m.shared = true →
    ∃ i n, NS t i n ∧ n.offset ≤ m.offset ∧ m.offset + 2 ^ j ≤ n.offset + 2 ^ i ∧
      m.data = (n.data.drop (m.offset - n.offset)).take (2 ^ j)
  histNode : ∀ e ∈ hist, ∃ i n, i < 7 ∧ e.data.length = 2 ^ i ∧ treeGet (getAt t i) e.data = some n ∧ n.offset = e.offset
  nodeHist : ∀ i n, NS t i n → (⟨n.data, n.offset⟩ : Entry) ∈ hist

structure GapInv (gaps : List (List Gap)) (t : List (List Node)) (bound : Nat) : Prop where
  geom : ∀ i g, g ∈ getAt gaps i → g.size = 2 ^ i ∧ 2 ^ i ∣ g.offset ∧ g.offset + g.size ≤ bound
  node : ∀ i g j n, g ∈ getAt gaps i → NS t j n → g.offset + g.size ≤ n.offset ∨ n.offset + 2 ^ j ≤ g.offset
  pair : ∀ i, (getAt gaps i).Pairwise GDisj
  cross : ∀ i j, i ≠ j → ∀ a ∈ getAt gaps i, ∀ b ∈ getAt gaps j, GDisj a b

/-- `[off, off+len)` is inside the pool and touches neither a storage-owning node nor a gap -/
structure Free (gaps : List (List Gap)) (t : List (List Node)) (bound off len : Nat) : Prop where
  fit : off + len ≤ bound
  node : ∀ j n, NS t j n → off + len ≤ n.offset ∨ n.offset + 2 ^ j ≤ off
  gap : ∀ i g, g ∈ getAt gaps i → off + len ≤ g.offset ∨ g.offset + g.size ≤ off

/-- The invariant of every reachable pool, relative to the ghost history of accepted constants. -/
structure Inv (s : Pool) (hist : List Entry) : Prop where
  tree : TreeInv s.tree s.size s.alignment hist
  gaps : GapInv s.gaps s.tree s.size
  pow : s.alignment = 0 ∨ ∃ k, s.alignment = 2 ^ k

theorem GapInv.mono {gaps t b b'} (h : GapInv gaps t b) (hb : b ≤ b') : GapInv gaps t b' :=
  ⟨fun i g hg => by have := h.geom i g hg; exact ⟨this.1, this.2.1, by omega⟩, h.node, h.pair, h.cross⟩

/-! ### `ConstPool_addGap` -/

theorem gapClass_spec (offset size : Nat) (h : size ≠ 0) :
    gapSizeFor offset size = 2 ^ gapIndexFor offset size ∧ 2 ^ gapIndexFor offset size ∣ offset ∧
    gapSizeFor offset size ≤ size := by
  unfold gapSizeFor gapIndexFor
  by_cases h5 : size ≥ 32 ∧ offset % 32 = 0
  · rw [if_pos h5, if_pos h5]; exact ⟨by decide, Nat.dvd_of_mod_eq_zero h5.2, h5.1⟩
  rw [if_neg h5, if_neg h5]
  by_cases h4 : size ≥ 16 ∧ offset % 16 = 0
  · rw [if_pos h4, if_pos h4]; exact ⟨by decide, Nat.dvd_of_mod_eq_zero h4.2, h4.1⟩
  rw [if_neg h4, if_neg h4]
  by_cases h3 : size ≥ 8 ∧ offset % 8 = 0
  · rw [if_pos h3, if_pos h3]; exact ⟨by decide, Nat.dvd_of_mod_eq_zero h3.2, h3.1⟩
  rw [if_neg h3, if_neg h3]
  by_cases h2 : size ≥ 4 ∧ offset % 4 = 0
  · rw [if_pos h2, if_pos h2]; exact ⟨by decide, Nat.dvd_of_mod_eq_zero h2.2, h2.1⟩
  rw [if_neg h2, if_neg h2]
  by_cases h1 : size ≥ 2 ∧ offset % 2 = 0
  · rw [if_pos h1, if_pos h1]; exact ⟨by decide, Nat.dvd_of_mod_eq_zero h1.2, h1.1⟩
  rw [if_neg h1, if_neg h1]
  exact ⟨by decide, by simp, by omega⟩

theorem mem_push {gaps : List (List Gap)} {gi i : Nat} {g0 x : Gap} :
    x ∈ getAt (setAt gaps gi (g0 :: getAt gaps gi)) i ↔ (i = gi ∧ x = g0) ∨ x ∈ getAt gaps i := by
  rw [getAt_setAt]; split
  · rename_i h; subst h; simp
  · rename_i h; simp [h]

theorem addGapAux_spec (t : List (List Node)) : ∀ (fuel : Nat) (gaps : List (List Gap)) (offset size : Nat), size ≤ fuel →
    GapInv gaps t offset → (∀ j n, NS t j n → n.offset + 2 ^ j ≤ offset) →
    GapInv (addGapAux fuel gaps offset size) t (offset + size) := by
  intro fuel
  induction fuel with
  | zero =>
    intro gaps offset size hf hg _
    have : size = 0 := by omega
    subst this; simp only [addGapAux]; exact hg
  | succ fuel ih =>
    intro gaps offset size hf hg hn
    rw [addGapAux]
    by_cases h0 : size = 0
    · simp [h0]; exact hg
    · simp only [h0, if_false]
      obtain ⟨hsz, hdvd, hle⟩ := gapClass_spec offset size h0
      have hpos := gapSizeFor_pos offset size
      generalize gapSizeFor offset size = gs at *
      generalize gapIndexFor offset size = gi at *
      have key : GapInv (setAt gaps gi ({ offset := offset, size := gs } :: getAt gaps gi)) t (offset + gs) := by
        refine ⟨?_, ?_, ?_, ?_⟩
        · intro i g hmem
          rcases mem_push.1 hmem with ⟨rfl, rfl⟩ | hold
          · exact ⟨hsz, hdvd, Nat.le_refl _⟩
          · have := hg.geom i g hold; exact ⟨this.1, this.2.1, by omega⟩
        · intro i g j n hmem hns
          rcases mem_push.1 hmem with ⟨rfl, rfl⟩ | hold
          · right; exact hn j n hns
          · exact hg.node i g j n hold hns
        · intro i
          rw [getAt_setAt]; split
          · rename_i h; subst h
            rw [List.pairwise_cons]
            refine ⟨fun x hx => ?_, hg.pair _⟩
            right; exact (hg.geom _ x hx).2.2
          · exact hg.pair i
        · intro i j hij a ha b hb
          rcases mem_push.1 ha with ⟨rfl, rfl⟩ | ha'
          · rcases mem_push.1 hb with ⟨rfl, _⟩ | hb'
            · exact absurd rfl hij
            · right; exact (hg.geom _ b hb').2.2
          · rcases mem_push.1 hb with ⟨rfl, rfl⟩ | hb'
            · left; exact (hg.geom _ a ha').2.2
            · exact hg.cross i j hij a ha' b hb'
      have := ih _ (offset + gs) (size - gs) (by omega) key (fun j n hns => by have := hn j n hns; omega)
      have he : offset + gs + (size - gs) = offset + size := by omega
      rw [he] at this; exact this

theorem addGap_spec (t : List (List Node)) (size : Nat) (gaps : List (List Gap)) (offset : Nat)
    (hg : GapInv gaps t offset) (hn : ∀ j n, NS t j n → n.offset + 2 ^ j ≤ offset) :
    GapInv (addGap gaps offset size) t (offset + size) :=
  addGapAux_spec t size gaps offset size (Nat.le_refl _) hg hn

/-! ### the gap loop of `add` -/

theorem mem_pop {gaps : List (List Gap)} {ti i : Nat} {gap x : Gap} {next : List Gap}
    (h : getAt gaps ti = gap :: next) (hx : x ∈ getAt (setAt gaps ti next) i) : x ∈ getAt gaps i := by
  rw [getAt_setAt] at hx; split at hx
  · rename_i hi; subst hi; rw [h]; exact List.mem_cons_of_mem _ hx
  · exact hx

theorem gapLoop_spec (t : List (List Node)) (bound ti : Nat) : ∀ (iters : Nat) (gaps : List (List Gap)) (acc : Option Nat),
    GapInv gaps t bound → (∀ o, acc = some o → 2 ^ ti ∣ o ∧ Free gaps t bound o (2 ^ ti)) →
    GapInv (gapLoop (2 ^ ti) ti iters gaps acc).1 t bound ∧
    (∀ o, (gapLoop (2 ^ ti) ti iters gaps acc).2 = some o →
        2 ^ ti ∣ o ∧ Free (gapLoop (2 ^ ti) ti iters gaps acc).1 t bound o (2 ^ ti)) := by
  intro iters
  induction iters with
  | zero => intro gaps acc hg hacc; simp only [gapLoop]; exact ⟨hg, hacc⟩
  | succ iters ih =>
    intro gaps acc hg hacc
    rw [gapLoop]
    split
    · exact ih gaps acc hg hacc
    · rename_i gap next heq
      have hmem : gap ∈ getAt gaps ti := by rw [heq]; exact List.mem_cons_self
      obtain ⟨hsz, hal, hfit⟩ := hg.geom ti gap hmem
      have hz : ¬ (gap.size - 2 ^ ti > 0) := by omega
      simp only [hz, if_false]
      have hpair := hg.pair ti
      rw [heq, List.pairwise_cons] at hpair
      have hg' : GapInv (setAt gaps ti next) t bound := by
        refine ⟨fun i g h => hg.geom i g (mem_pop heq h), fun i g j n h hns => hg.node i g j n (mem_pop heq h) hns, ?_, ?_⟩
        · intro i; rw [getAt_setAt]; split
          · exact hpair.2
          · exact hg.pair i
        · intro i j hij a ha b hb
          exact hg.cross i j hij a (mem_pop heq ha) b (mem_pop heq hb)
      apply ih _ _ hg'
      intro o ho
      have ho' : gap.offset = o := by simpa using ho
      subst ho'
      refine ⟨hal, ⟨by omega, ?_, ?_⟩⟩
      · intro j n hns
        have := hg.node ti gap j n hmem hns; omega
      · intro i g hgm
        rw [getAt_setAt] at hgm; split at hgm
        · have := hpair.1 g hgm; unfold GDisj at this; omega
        · rename_i hne
          have := hg.cross ti i (fun h => hne h.symm) gap hmem g hgm; unfold GDisj at this; omega

/-- `allocOffset` hands out an aligned range that is free, and keeps the gap invariant -/
theorem allocOffset_spec (s : Pool) (hist : List Entry) (ti : Nat) (hinv : Inv s hist) :
    let a := allocOffset s (2 ^ ti) ti
    GapInv a.1 s.tree a.2.2 ∧ s.size ≤ a.2.2 ∧ 2 ^ ti ∣ a.2.1 ∧ Free a.1 s.tree a.2.2 a.2.1 (2 ^ ti) := by
  have hl := gapLoop_spec s.tree s.size ti (6 - ti) s.gaps none hinv.gaps (by simp)
  simp only [allocOffset]
  generalize gapLoop (2 ^ ti) ti (6 - ti) s.gaps none = r at *
  obtain ⟨g1, o1⟩ := r
  cases o1 with
  | some o =>
    simp only
    have := hl.2 o rfl
    exact ⟨hl.1, Nat.le_refl _, this.1, this.2⟩
  | none =>
    simp only
    have hpos : 0 < 2 ^ ti := Nat.two_pow_pos ti
    have hmod := alignUpDiff_mod s.size (2 ^ ti) hpos
    generalize alignUpDiff s.size (2 ^ ti) = diff at *
    have hnodes : ∀ j n, NS s.tree j n → n.offset + 2 ^ j ≤ s.size :=
      fun j n hns => (hinv.tree.ok j n hns.1).fit
    have hg2 : GapInv (if diff ≠ 0 then addGap g1 s.size diff else g1) s.tree (s.size + diff) := by
      by_cases hd : diff = 0
      · simp [hd]; exact hl.1
      · simp only [ne_eq, hd, not_false_eq_true, if_true]
        exact addGap_spec s.tree diff g1 s.size hl.1 hnodes
    refine ⟨hg2.mono (by omega), by omega, Nat.dvd_of_mod_eq_zero hmod, ⟨Nat.le_refl _, ?_, ?_⟩⟩
    · intro j n hns; right; have := hnodes j n hns; omega
    · intro i g hgm; right; exact (hg2.geom i g hgm).2.2

end AsmjitVerif.ConstPool
