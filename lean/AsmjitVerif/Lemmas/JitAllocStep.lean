/- Every operation of the protocol preserves the allocator invariant `Inv` (C09). -/
import AsmjitVerif.Lemmas.JitAllocOps
namespace AsmjitVerif.JitAlloc

/-- the span relation the handle table induces -/
def TT (s : St) : Nat → Nat → Nat → Nat → Prop := fun id p st n => Spans s.tab id (s.a.cfg.poolGran p) st n

theorem Inv.toAInv {s : St} (h : Inv s) : AInv s.a (TT s) := ⟨h.wf, h.ids, h.fresh, h.blk⟩

theorem Inv.spans_fresh {s : St} (h : Inv s) : ∀ id p st n, TT s id p st n → id < s.a.nextId := by
  rintro id p st n ⟨i, hd, h1, h2, h3, _⟩
  obtain ⟨b, hb, e, _⟩ := h.owned i hd h1 h2
  have := h.fresh b hb
  omega

theorem block_unique {s : St} (h : Inv s) {x y : Block} (hx : x ∈ s.a.blocks) (hy : y ∈ s.a.blocks) (e : x.id = y.id) : x = y :=
  eq_of_id_eq h.ids hx hy e

/-! ### the span relation under table updates -/

theorem Spans_append (tab : List Handle) (hd : Handle) (id g st n : Nat) :
    Spans (tab ++ [hd]) id g st n ↔ Spans tab id g st n ∨ (hd.live = true ∧ hd.blk = id ∧ hd.off = st * g ∧ hd.size = n * g) := by
  unfold Spans
  constructor
  · rintro ⟨i, h, h1, h2⟩
    by_cases hi : i < tab.length
    · rw [List.getElem?_append_left hi] at h1
      exact Or.inl ⟨i, h, h1, h2⟩
    · rw [List.getElem?_append_right (by omega)] at h1
      by_cases hi2 : i - tab.length = 0
      · simp [hi2] at h1; subst h1; exact Or.inr h2
      · have : i - tab.length = (i - tab.length - 1) + 1 := by omega
        rw [this] at h1; simp at h1
  · rintro (⟨i, h, h1, h2⟩ | h2)
    · have hi : i < tab.length := by
        by_cases c : i < tab.length
        · exact c
        · rw [List.getElem?_eq_none (by omega)] at h1; simp at h1
      exact ⟨i, h, by rw [List.getElem?_append_left hi]; exact h1, h2⟩
    · exact ⟨tab.length, hd, by simp, h2⟩

theorem getElem?_killHandle (tab : List Handle) (j i : Nat) :
    (killHandle tab j)[i]? = (tab[i]?).map fun x => if i = j then { x with live := false } else x := by
  simp [killHandle, List.getElem?_mapIdx]

theorem getElem?_setHandleSize (tab : List Handle) (j sz i : Nat) :
    (setHandleSize tab j sz)[i]? = (tab[i]?).map fun x => if i = j then { x with size := sz } else x := by
  simp [setHandleSize, List.getElem?_mapIdx]

/-! ### alloc -/


theorem Inv.append_dead {s : St} (h : Inv s) (hd : Handle) (hl : hd.live = false) : Inv { s with tab := s.tab ++ [hd] } := by
  have getE : ∀ (i : Nat) (x : Handle), (s.tab ++ [hd])[i]? = some x → x.live = true → s.tab[i]? = some x := by
    intro i x h1 h2
    by_cases hi : i < s.tab.length
    · rwa [List.getElem?_append_left hi] at h1
    · rw [List.getElem?_append_right (by omega)] at h1
      by_cases hi2 : i - s.tab.length = 0
      · simp [hi2] at h1; subst h1; rw [hl] at h2; simp at h2
      · have : i - s.tab.length = (i - s.tab.length - 1) + 1 := by omega
        rw [this] at h1; simp at h1
  refine ⟨h.wf, h.ids, h.fresh, ?_, ?_, ?_⟩
  · intro b hb
    obtain ⟨hI, hC⟩ := h.blk b hb
    exact ⟨hI.congr (by intro st n; simp [Spans_append, hl]), hC⟩
  · intro i x h1 h2
    exact h.owned i x (getE i x h1 h2) h2
  · intro i j h1 h2 hij e1 e2 l1 l2
    exact h.tdisj i j h1 h2 hij (getE i h1 e1 l1) (getE j h2 e2 l2) l1 l2

theorem Inv.step_alloc {s : St} (h : Inv s) (req : Nat) : Inv (step s (.alloc req)).1 := by
  have spec := alloc_spec req h.toAInv h.spans_fresh
  rcases hr : s.a.alloc req with ⟨a', (e | sp)⟩
  · have ha : a' = s.a := by have := spec.1 e (by rw [hr]); rw [hr] at this; exact this
    simp only [step, hr]
    subst ha
    exact h.append_dead _ rfl
  · have post := spec.2 sp (by rw [hr])
    rw [hr] at post
    simp only [step, hr]
    simp only [AllocPost] at post
    obtain ⟨idx, k, hk, hoff, hsize, hreq, hal, hcfg, hnext, hA, ⟨bw, hbw, w1, w2, w3, w4, w5⟩, hpres, hdis⟩ := post
    have hgp := poolGran_pos h.wf sp.pool
    -- blocks of a' with the id of the new span are in the span's pool
    have hpool : ∀ x ∈ a'.blocks, x.id = sp.blk → x.pool = sp.pool := by
      intro x hx e
      have := eq_of_id_eq hA.ids hx hbw (by rw [e, w1])
      rw [this]; exact w2
    have getE : ∀ (i : Nat) (x : Handle), (s.tab ++ [⟨true, sp.blk, sp.off, sp.size⟩])[i]? = some x →
        (i < s.tab.length ∧ s.tab[i]? = some x) ∨ (i = s.tab.length ∧ x = ⟨true, sp.blk, sp.off, sp.size⟩) := by
      intro i x h1
      by_cases hi : i < s.tab.length
      · rw [List.getElem?_append_left hi] at h1; exact Or.inl ⟨hi, h1⟩
      · rw [List.getElem?_append_right (by omega)] at h1
        by_cases hi2 : i - s.tab.length = 0
        · simp [hi2] at h1; exact Or.inr ⟨by omega, h1.symm⟩
        · have : i - s.tab.length = (i - s.tab.length - 1) + 1 := by omega
          rw [this] at h1; simp at h1
    refine ⟨by rw [hcfg]; exact h.wf, hA.ids, hA.fresh, ?_, ?_, ?_⟩
    · intro b hb
      obtain ⟨hI, hC⟩ := hA.blk b hb
      refine ⟨hI.congr ?_, hC⟩
      intro st n
      show _ ↔ Spans _ _ (a'.cfg.poolGran b.pool) _ _
      rw [hcfg]
      simp only [Spans_append, TT]
      constructor
      · rintro (hT | ⟨e1, e2, e3⟩)
        · exact Or.inl hT
        · have hp := hpool b hb e1
          rw [hp]
          exact Or.inr ⟨trivial, e1.symm, by rw [hoff, e2], by rw [hsize, e3]⟩
      · rintro (hT | ⟨_, e1, e2, e3⟩)
        · exact Or.inl hT
        · have hp := hpool b hb e1.symm
          rw [hp, hoff] at e2
          rw [hp, hsize] at e3
          exact Or.inr ⟨e1.symm, (Nat.eq_of_mul_eq_mul_right hgp e2).symm, (Nat.eq_of_mul_eq_mul_right hgp e3).symm⟩
    · intro i x h1 h2
      rcases getE i x h1 with ⟨_, h1'⟩ | ⟨_, rfl⟩
      · obtain ⟨b, hb, e, st, n, o1, o2⟩ := h.owned i x h1' h2
        obtain ⟨b', hb', e1, e2⟩ := hpres b hb
        exact ⟨b', hb', by rw [e1, e], st, n, by show _ = _ * a'.cfg.poolGran _; rw [e2, hcfg]; exact o1, by show _ = _ * a'.cfg.poolGran _; rw [e2, hcfg]; exact o2⟩
      · exact ⟨bw, hbw, w1, idx, k, by show _ = _ * a'.cfg.poolGran _; rw [w2, hcfg]; exact hoff, by show _ = _ * a'.cfg.poolGran _; rw [w2, hcfg]; exact hsize⟩
    · intro i j h1 h2 hij e1 e2 l1 l2 hb
      rcases getE j h2 e2 with ⟨hj, e2'⟩ | ⟨hj, rfl⟩
      · rcases getE i h1 e1 with ⟨_, e1'⟩ | ⟨hi, _⟩
        · exact h.tdisj i j h1 h2 hij e1' e2' l1 l2 hb
        · omega
      · rcases getE i h1 e1 with ⟨_, e1'⟩ | ⟨hi, _⟩
        · -- an old live span of the same block against the new span
          obtain ⟨b, hbm, e, st, n, o1, o2⟩ := h.owned i h1 e1' l1
          obtain ⟨b', hb', f1, f2⟩ := hpres b hbm
          have hp : b.pool = sp.pool := by rw [← f2]; exact hpool b' hb' (by rw [f1, e]; exact hb)
          rw [hp] at o1 o2
          have hT : TT s sp.blk sp.pool st n := ⟨i, h1, e1', l1, hb, o1, o2⟩
          have hd := hdis st n hT
          simp only
          rw [o1, o2, hoff, hsize, ← Nat.add_mul, ← Nat.add_mul]
          rcases hd with d | d
          · exact Or.inl (Nat.mul_le_mul_right _ d)
          · exact Or.inr (Nat.mul_le_mul_right _ d)
        · omega

/-! ### release -/


/-- two live handles with the same block and the same first byte are the same handle -/
theorem Inv.handle_unique {s : St} (h : Inv s) {i j : Nat} {h1 h2 : Handle} (e1 : s.tab[i]? = some h1) (e2 : s.tab[j]? = some h2)
    (l1 : h1.live = true) (l2 : h2.live = true) (hb : h1.blk = h2.blk) (ho : h1.off = h2.off) (hs : 0 < h1.size) (hs2 : 0 < h2.size) :
    i = j := by
  by_cases c : i = j
  · exact c
  · exfalso
    rcases Nat.lt_or_gt_of_ne c with c | c
    · have := h.tdisj i j h1 h2 c e1 e2 l1 l2 hb; omega
    · have := h.tdisj j i h2 h1 c e2 e1 l2 l1 hb.symm; omega

theorem Inv.release_handle {s : St} (h : Inv s) {j : Nat} {hd : Handle} (hj : s.tab[j]? = some hd) (hl : hd.live = true) :
    (s.a.release hd.blk hd.off).2 = .ok () ∧ Inv { a := (s.a.release hd.blk hd.off).1, tab := killHandle s.tab j } := by
  obtain ⟨b, hb, e, st, n0, o1, o2⟩ := h.owned j hd hj hl
  have hg := poolGran_pos h.wf b.pool
  have hS : TT s b.id b.pool st n0 := ⟨j, hd, hj, hl, e.symm, o1, o2⟩
  have spec := release_spec h.toAInv hb hS
  rw [e, ← o1] at spec
  obtain ⟨hok, hcfg, hnext, hA, hsub, hrem, hlast⟩ := spec
  obtain ⟨_, hn0, _⟩ := (h.blk b hb).1.inside st n0 hS
  have hsz : 0 < hd.size := by rw [o2]; exact Nat.mul_pos hn0 hg
  refine ⟨hok, ?_⟩
  generalize (s.a.release hd.blk hd.off).1 = a' at *
  -- blocks of a' are blocks of s.a with the same id and pool
  have pool_of : ∀ x ∈ a'.blocks, x.id = b.id → x.pool = b.pool := by
    intro x hx ex
    obtain ⟨y, hy, f1, f2⟩ := hsub x hx
    have := block_unique h hy hb (by rw [f1, ex])
    rw [← f2, this]
  have live_other : ∀ (i : Nat) (x : Handle), (killHandle s.tab j)[i]? = some x → x.live = true → i ≠ j ∧ s.tab[i]? = some x := by
    intro i x h1 h2
    rw [getElem?_killHandle] at h1
    cases ht : s.tab[i]? with
    | none => rw [ht] at h1; simp at h1
    | some y =>
      rw [ht] at h1
      simp at h1
      by_cases c : i = j
      · simp [c] at h1; rw [← h1] at h2; simp at h2
      · simp [c] at h1; exact ⟨c, by rw [h1]⟩
  refine ⟨by rw [hcfg]; exact h.wf, hA.ids, hA.fresh, ?_, ?_, ?_⟩
  · intro x hx
    obtain ⟨hI, hC⟩ := hA.blk x hx
    refine ⟨hI.congr ?_, hC⟩
    intro st' n'
    show _ ↔ Spans _ _ (a'.cfg.poolGran x.pool) _ _
    rw [hcfg]
    constructor
    · rintro ⟨⟨i, y, h1, h2, h3, h4, h5⟩, hne⟩
      have hij : i ≠ j := by
        rintro rfl
        rw [hj] at h1
        have := Option.some.inj h1
        subst this
        apply hne
        have hp := pool_of x hx (by rw [← h3, e])
        rw [hp] at h4 h5
        exact ⟨by rw [← h3, e], Nat.eq_of_mul_eq_mul_right hg (by rw [← h4, o1]), Nat.eq_of_mul_eq_mul_right hg (by rw [← h5, o2])⟩
      exact ⟨i, y, by rw [getElem?_killHandle, h1]; simp [hij], h2, h3, h4, h5⟩
    · rintro ⟨i, y, h1, h2, h3, h4, h5⟩
      obtain ⟨hij, h1'⟩ := live_other i y h1 h2
      refine ⟨⟨i, y, h1', h2, h3, h4, h5⟩, ?_⟩
      rintro ⟨f1, f2, f3⟩
      have hp := pool_of x hx f1
      rw [hp, f2] at h4
      rw [hp, f3] at h5
      have := h.handle_unique h1' hj h2 hl (by rw [h3, f1, e]) (by rw [h4, o1]) (by rw [h5, ← o2]; exact hsz) hsz
      exact hij this
  · intro i x h1 h2
    obtain ⟨hij, h1'⟩ := live_other i x h1 h2
    obtain ⟨y, hy, f, st', n', p1, p2⟩ := h.owned i x h1' h2
    by_cases c : y.id = b.id
    · have hyb := block_unique h hy hb c
      subst hyb
      rcases hlast with ⟨z, hz, z1, z2⟩ | hlast
      · exact ⟨z, hz, by rw [z1, f], st', n', by show _ = _ * a'.cfg.poolGran _; rw [z2, hcfg]; exact p1,
          by show _ = _ * a'.cfg.poolGran _; rw [z2, hcfg]; exact p2⟩
      · exfalso
        have := hlast st' n' ⟨i, x, h1', h2, f.symm, p1, p2⟩
        have := h.handle_unique h1' hj h2 hl (by rw [← f, e]) (by rw [p1, o1, this.1]) (by rw [p2, this.2, ← o2]; exact hsz) hsz
        exact hij this
    · obtain ⟨z, hz, z1, z2⟩ := hrem y hy c
      exact ⟨z, hz, by rw [z1, f], st', n', by show _ = _ * a'.cfg.poolGran _; rw [z2, hcfg]; exact p1,
        by show _ = _ * a'.cfg.poolGran _; rw [z2, hcfg]; exact p2⟩
  · intro i1 i2 x1 x2 hlt e1 e2 l1 l2 hbk
    obtain ⟨_, e1'⟩ := live_other i1 x1 e1 l1
    obtain ⟨_, e2'⟩ := live_other i2 x2 e2 l2
    exact h.tdisj i1 i2 x1 x2 hlt e1' e2' l1 l2 hbk

/-! ### shrink -/


theorem Inv.shrink_post {s : St} (h : Inv s) {j : Nat} {hd : Handle} (hj : s.tab[j]? = some hd) (hl : hd.live = true)
    {b : Block} (hb : b ∈ s.a.blocks) (e : b.id = hd.blk) {st n0 m : Nat}
    (o1 : hd.off = st * s.a.cfg.poolGran b.pool) (o2 : hd.size = n0 * s.a.cfg.poolGran b.pool) (hm : 0 < m) (hmn : m ≤ n0)
    {a' : Alloc} (post : ShrinkPost s.a (TT s) b st n0 m a') :
    Inv { a := a', tab := setHandleSize s.tab j (m * s.a.cfg.poolGran b.pool) } := by
  have hg := poolGran_pos h.wf b.pool
  obtain ⟨hcfg, hnext, hA, hsub, hpres⟩ := post
  have hsz : 0 < hd.size := by rw [o2]; exact Nat.mul_pos (by omega) hg
  have hle : m * s.a.cfg.poolGran b.pool ≤ hd.size := by rw [o2]; exact Nat.mul_le_mul_right _ hmn
  have pool_of : ∀ x ∈ a'.blocks, x.id = b.id → x.pool = b.pool := by
    intro x hx ex
    obtain ⟨y, hy, f1, f2⟩ := hsub x hx
    have := block_unique h hy hb (by rw [f1, ex])
    rw [← f2, this]
  have entry : ∀ (i : Nat) (x : Handle), (setHandleSize s.tab j (m * s.a.cfg.poolGran b.pool))[i]? = some x →
      (i ≠ j ∧ s.tab[i]? = some x) ∨ (i = j ∧ x = { hd with size := m * s.a.cfg.poolGran b.pool }) := by
    intro i x h1
    rw [getElem?_setHandleSize] at h1
    cases ht : s.tab[i]? with
    | none => rw [ht] at h1; simp at h1
    | some y =>
      rw [ht] at h1
      simp at h1
      by_cases c : i = j
      · subst c
        rw [hj] at ht
        have := Option.some.inj ht
        subst this
        simp at h1
        exact Or.inr ⟨rfl, h1.symm⟩
      · simp [c] at h1; exact Or.inl ⟨c, by rw [h1]⟩
  have entry_j : (setHandleSize s.tab j (m * s.a.cfg.poolGran b.pool))[j]? = some { hd with size := m * s.a.cfg.poolGran b.pool } := by
    rw [getElem?_setHandleSize, hj]; simp
  have entry_other : ∀ (i : Nat) (x : Handle), i ≠ j → s.tab[i]? = some x →
      (setHandleSize s.tab j (m * s.a.cfg.poolGran b.pool))[i]? = some x := by
    intro i x c h1
    rw [getElem?_setHandleSize, h1]; simp [c]
  refine ⟨by rw [hcfg]; exact h.wf, hA.ids, hA.fresh, ?_, ?_, ?_⟩
  · intro x hx
    obtain ⟨hI, hC⟩ := hA.blk x hx
    refine ⟨hI.congr ?_, hC⟩
    intro st' n'
    show _ ↔ Spans _ _ (a'.cfg.poolGran x.pool) _ _
    rw [hcfg]
    constructor
    · rintro (⟨⟨i, y, h1, h2, h3, h4, h5⟩, hne⟩ | ⟨f1, f2, f3⟩)
      · have hij : i ≠ j := by
          rintro rfl
          rw [hj] at h1
          have := Option.some.inj h1
          subst this
          apply hne
          have hp := pool_of x hx (by rw [← h3, e])
          rw [hp] at h4 h5
          exact ⟨by rw [← h3, e], Nat.eq_of_mul_eq_mul_right hg (by rw [← h4, o1]), Nat.eq_of_mul_eq_mul_right hg (by rw [← h5, o2])⟩
        exact ⟨i, y, entry_other i y hij h1, h2, h3, h4, h5⟩
      · have hp := pool_of x hx f1
        exact ⟨j, _, entry_j, hl, by rw [f1, e], by rw [hp, f2]; exact o1, by rw [hp, f3]⟩
    · rintro ⟨i, y, h1, h2, h3, h4, h5⟩
      rcases entry i y h1 with ⟨hij, h1'⟩ | ⟨hij, rfl⟩
      · refine Or.inl ⟨⟨i, y, h1', h2, h3, h4, h5⟩, ?_⟩
        rintro ⟨f1, f2, f3⟩
        have hp := pool_of x hx f1
        rw [hp, f2] at h4
        rw [hp, f3] at h5
        have := h.handle_unique h1' hj h2 hl (by rw [h3, f1, e]) (by rw [h4, o1]) (by rw [h5, ← o2]; exact hsz) hsz
        exact hij this
      · simp only at h3 h4 h5
        have f1 : x.id = b.id := by rw [← h3, e]
        have hp := pool_of x hx f1
        rw [hp] at h4 h5
        exact Or.inr ⟨f1, Nat.eq_of_mul_eq_mul_right hg (by rw [← h4, o1]), Nat.eq_of_mul_eq_mul_right hg h5.symm⟩
  · intro i x h1 h2
    rcases entry i x h1 with ⟨hij, h1'⟩ | ⟨hij, rfl⟩
    · obtain ⟨y, hy, f, st', n', p1, p2⟩ := h.owned i x h1' h2
      obtain ⟨z, hz, z1, z2⟩ := hpres y hy
      exact ⟨z, hz, by rw [z1, f], st', n', by show _ = _ * a'.cfg.poolGran _; rw [z2, hcfg]; exact p1,
        by show _ = _ * a'.cfg.poolGran _; rw [z2, hcfg]; exact p2⟩
    · obtain ⟨z, hz, z1, z2⟩ := hpres b hb
      exact ⟨z, hz, by rw [z1]; exact e, st, m, by show _ = _ * a'.cfg.poolGran _; rw [z2, hcfg]; exact o1,
        by show _ = _ * a'.cfg.poolGran _; rw [z2, hcfg]⟩
  · intro i1 i2 x1 x2 hlt e1 e2 l1 l2 hbk
    rcases entry i1 x1 e1 with ⟨c1, e1'⟩ | ⟨c1, rfl⟩ <;> rcases entry i2 x2 e2 with ⟨c2, e2'⟩ | ⟨c2, rfl⟩
    · exact h.tdisj i1 i2 x1 x2 hlt e1' e2' l1 l2 hbk
    · subst c2
      have := h.tdisj i1 i2 x1 hd hlt e1' hj l1 hl hbk
      simp only; omega
    · subst c1
      have := h.tdisj i1 i2 hd x2 hlt hj e2' hl l2 hbk
      simp only; omega
    · omega

theorem setHandleSize_same {tab : List Handle} {j : Nat} {hd : Handle} (hj : tab[j]? = some hd) :
    setHandleSize tab j hd.size = tab := by
  apply List.ext_getElem?
  intro i
  rw [getElem?_setHandleSize]
  cases ht : tab[i]? with
  | none => simp
  | some y =>
    simp
    intro c
    subst c
    rw [hj] at ht
    have := Option.some.inj ht
    subst this
    rfl



/-- all outcomes of `JitAllocatorImpl_shrink` on a live handle keep the invariant -/
theorem Inv.shrink_handle {s : St} (h : Inv s) {j : Nat} {hd : Handle} (hj : s.tab[j]? = some hd) (hl : hd.live = true)
    (newSize : Nat) (hns : 0 < newSize) :
    (∀ a' sz, s.a.shrinkImpl hd.blk hd.off newSize = (a', .ok (some sz)) → Inv { a := a', tab := setHandleSize s.tab j sz }) ∧
    (∀ a', s.a.shrinkImpl hd.blk hd.off newSize = (a', .ok none) → Inv { a := a', tab := s.tab }) ∧
    (∀ a' e, s.a.shrinkImpl hd.blk hd.off newSize = (a', .error e) → Inv { a := a', tab := s.tab }) := by
  obtain ⟨b, hb, e, st, n0, o1, o2⟩ := h.owned j hd hj hl
  have hS : TT s b.id b.pool st n0 := ⟨j, hd, hj, hl, e.symm, o1, o2⟩
  obtain ⟨_, hn0, _⟩ := (h.blk b hb).1.inside st n0 hS
  have spec := shrink_spec h.toAInv hb hS newSize hns _ _ rfl rfl
  rw [e, ← o1] at spec
  obtain ⟨hm, c1, c2, c3⟩ := spec
  rcases Nat.lt_trichotomy n0 ((newSize + s.a.cfg.poolGran b.pool - 1) / s.a.cfg.poolGran b.pool) with hlt | heq | hgt
  · have := c1 hlt
    rw [this]
    refine ⟨fun a' sz hh => by simp at hh, fun a' hh => by simp at hh, fun a' e' hh => ?_⟩
    simp at hh; rw [← hh.1]; exact h
  · obtain ⟨r2, post⟩ := c2 heq.symm
    have hI := h.shrink_post hj hl hb e o1 o2 hn0 (Nat.le_refl _) post
    rw [← o2, setHandleSize_same hj] at hI
    refine ⟨fun a' sz hh => by rw [hh] at r2; simp at r2, fun a' hh => by rw [hh] at hI; exact hI,
      fun a' e' hh => by rw [hh] at r2; simp at r2⟩
  · obtain ⟨r2, post⟩ := c3 hgt
    have hI := h.shrink_post hj hl hb e o1 o2 hm (Nat.le_of_lt hgt) post
    refine ⟨fun a' sz hh => ?_, fun a' hh => by rw [hh] at r2; simp at r2, fun a' e' hh => by rw [hh] at r2; simp at r2⟩
    rw [hh] at r2 hI
    simp at r2
    rw [r2]; exact hI

theorem Inv.writeMem {s : St} (h : Inv s) (blk off size byte : Nat) : Inv { s with a := s.a.writeMem blk off size byte } := by
  have hA := h.toAInv.writeMem blk off size byte
  obtain ⟨w1, w2⟩ := writeMem_blocks_ids (a := s.a) blk off size byte
  refine ⟨h.wf, hA.ids, hA.fresh, hA.blk, ?_, h.tdisj⟩
  intro i x h1 h2
  obtain ⟨y, hy, f, st, n, p1, p2⟩ := h.owned i x h1 h2
  obtain ⟨z, hz, z1, z2⟩ := w2 y hy
  exact ⟨z, hz, by rw [z1, f], st, n, by rw [z2]; exact p1, by rw [z2]; exact p2⟩

theorem Inv.reset {s : St} (h : Inv s) (hard : Bool) :
    Inv { a := s.a.reset hard, tab := s.tab.map fun _ => { live := false, blk := 0, off := 0, size := 0 } } := by
  obtain ⟨hA, hcfg⟩ := reset_spec h.toAInv hard
  have dead : ∀ (i : Nat) (x : Handle), (s.tab.map fun _ => ({ live := false, blk := 0, off := 0, size := 0 } : Handle))[i]? = some x →
      x.live = false := by
    intro i x h1
    simp at h1
    obtain ⟨_, _, rfl⟩ := h1
    rfl
  refine ⟨by rw [hcfg]; exact h.wf, hA.ids, hA.fresh, ?_, ?_, ?_⟩
  · intro b hb
    obtain ⟨hI, hC⟩ := hA.blk b hb
    refine ⟨hI.congr ?_, hC⟩
    intro st n
    constructor
    · intro hf; exact absurd hf (by simp)
    · rintro ⟨i, x, h1, h2, _⟩
      have := dead i x h1
      rw [this] at h2; simp at h2
  · intro i x h1 h2
    have := dead i x h1
    rw [this] at h2; simp at h2
  · intro i j x1 x2 _ h1 _ l1
    have := dead i x1 h1
    rw [this] at l1; simp at l1

/-! ### all operations -/


theorem Inv.step_release_like {s : St} (h : Inv s) {j : Nat} {hd : Handle} (hj : s.tab[j]? = some hd) (hl : hd.live = true)
    (ansOk : Ans) :
    Inv (match s.a.release hd.blk hd.off with
      | (a, .ok _) => (({ a := a, tab := killHandle s.tab j } : St), ansOk)
      | (a, .error e) => ({ s with a := a }, Ans.err e)).1 := by
  obtain ⟨hok, hI⟩ := h.release_handle hj hl
  rcases hr : s.a.release hd.blk hd.off with ⟨a', (e | u)⟩
  · rw [hr] at hok; simp at hok
  · rw [hr] at hI; exact hI

theorem Inv.step_shrink_like {s : St} (h : Inv s) {j : Nat} {hd : Handle} (hj : s.tab[j]? = some hd) (hl : hd.live = true)
    (newSize : Nat) (hns : newSize ≠ 0) :
    Inv (match s.a.shrinkImpl hd.blk hd.off newSize with
      | (a, .ok (some sz)) => (({ a := a, tab := setHandleSize s.tab j sz } : St), Ans.size sz)
      | (a, .ok none) => ({ s with a := a }, Ans.size hd.size)
      | (a, .error e) => ({ s with a := a }, Ans.err e)).1 := by
  obtain ⟨c1, c2, c3⟩ := h.shrink_handle hj hl newSize (Nat.pos_of_ne_zero hns)
  rcases hr : s.a.shrinkImpl hd.blk hd.off newSize with ⟨a', (e | (_ | sz))⟩
  · exact c3 a' e hr
  · exact c2 a' hr
  · exact c1 a' sz hr

/-- every operation of the protocol preserves the invariant -/
theorem Inv.step {s : St} (h : Inv s) (op : Op) : Inv (step s op).1 := by
  cases op with
  | alloc req => exact h.step_alloc req
  | release j =>
    simp only [JitAlloc.step]
    cases hj : s.tab[j]? with
    | none => exact h
    | some hd =>
      simp only
      cases hl : hd.live with
      | false => simpa using h
      | true => simp only [Bool.not_true, Bool.false_eq_true, if_false]; exact h.step_release_like hj hl _
  | shrink j newSize =>
    simp only [JitAlloc.step]
    cases hj : s.tab[j]? with
    | none => exact h
    | some hd =>
      simp only
      cases hl : hd.live with
      | false => simpa using h
      | true =>
        simp only [Bool.not_true, Bool.false_eq_true, if_false]
        by_cases h0 : newSize = 0
        · simp only [h0, if_true]; exact h.step_release_like hj hl _
        · simp only [h0, if_false]; exact h.step_shrink_like hj hl newSize h0
  | query j off =>
    simp only [JitAlloc.step]
    cases hj : s.tab[j]? with
    | none => exact h
    | some hd =>
      simp only
      cases s.a.findBlock hd.blk with
      | none => exact h
      | some b =>
        simp only
        split
        · exact h
        · split
          · exact h
          · split <;> exact h
  | sstale j newSize =>
    simp only [JitAlloc.step]
    cases hj : s.tab[j]? with
    | none => exact h
    | some hd =>
      simp only
      split
      · exact h
      · cases s.a.findBlock hd.blk with
        | none => exact h
        | some b =>
          simp only
          split
          · exact h
          · cases hq : s.a.query hd.blk hd.off with
            | ok sp => exact h
            | error e =>
              simp only
              obtain ⟨e', he'⟩ := shrinkImpl_of_query_error (n := newSize) hq
              rw [he']
              exact h
  | write j byte =>
    simp only [JitAlloc.step]
    cases hj : s.tab[j]? with
    | none => exact h
    | some hd =>
      simp only
      split
      · exact h
      · exact h.writeMem _ _ _ _
  | wtrunc j byte newSize =>
    simp only [JitAlloc.step]
    cases hj : s.tab[j]? with
    | none => exact h
    | some hd =>
      simp only
      cases hl : hd.live with
      | false => simpa using h
      | true =>
        simp only [Bool.not_true, Bool.false_eq_true, if_false]
        have hw := h.writeMem hd.blk hd.off hd.size (byte % 256)
        split
        · exact hw
        · by_cases h0 : newSize = 0
          · simp only [h0, if_true]
            exact hw.step_release_like (s := { s with a := s.a.writeMem hd.blk hd.off hd.size (byte % 256) }) hj hl _
          · simp only [h0, if_false]
            exact hw.step_shrink_like (s := { s with a := s.a.writeMem hd.blk hd.off hd.size (byte % 256) }) hj hl newSize h0
  | read j =>
    simp only [JitAlloc.step]
    cases hj : s.tab[j]? with
    | none => exact h
    | some hd =>
      simp only
      split
      · exact h
      · split <;> exact h
  | mem => exact h
  | sweep => exact h
  | blocks => exact h
  | dump => exact h
  | reset hard => exact h.reset hard
  | isinit => exact h
  | rforeign k => exact h
  | qforeign k => exact h
  | sforeign => exact h

theorem Inv.init (cfg : Config) (hwf : WF cfg) : Inv (St.init cfg) := by
  refine ⟨hwf, by simp [St.init, Alloc.init], by simp [St.init, Alloc.init], by simp [St.init, Alloc.init], ?_, ?_⟩
  · intro i x h1; simp [St.init] at h1
  · intro i j x1 x2 _ h1; simp [St.init] at h1

/-- the invariant holds after every history -/
theorem Inv.finalState {s : St} (h : Inv s) (ops : List Op) : Inv (finalState s ops) := by
  induction ops generalizing s with
  | nil => exact h
  | cons op ops ih => exact ih (h.step op)

end AsmjitVerif.JitAlloc
