/-
C18 – the inductive invariant of the arena model and the safety theorem `arena_safe`.
-/
import AsmjitVerif.Lemmas.C18Arena
namespace AsmjitVerif.Arena

abbrev DisjR (a b : Item) : Prop := disjB a b = true

theorem disjB_symm {a b : Item} : DisjR a b → DisjR b a := by
  rcases a with ⟨la, sa⟩; rcases b with ⟨lb, sb⟩
  cases la <;> cases lb <;> simp [DisjR, disjB] <;> omega

/-- an owned piece is 8-aligned, non-empty, inside its block and below the bump frontier `(c, p)`;
a dynamic piece is registered -/
def ItemOK (B : List Nat) (c p : Nat) (D : List Nat) : Item → Prop
  | (.managed pos off, sz) =>
    off % 8 = 0 ∧ 0 < sz ∧ off + sz ≤ B.getD pos 0 ∧ (pos < c ∨ (pos = c ∧ off + sz ≤ p))
  | (.dyn id, _) => id ∈ D

/-- shape of ghost entries: oneshot entries are managed; reusable entries are either a managed piece of
exactly a size class or a dynamic block whose recorded size selects no size class -/
def EntryOK : Nat × Loc × Nat → Prop
  | (0, .managed _ _, _) => True
  | (0, .dyn _, _) => False
  | (_ + 1, .managed _ _, sz) => ∃ k, k < 8 ∧ sz = slotSize k
  | (_ + 1, .dyn _, sz) => ¬ slotIndex sz < kSlotCount

/-- everything that is owned by somebody: client regions and free-list entries -/
def owned (s : State) (live : Live) : List Item := liveItems live ++ slotItems s.slots

/-- the inductive invariant -/
structure Inv (s : State) (live : Live) : Prop where
  slen : s.slots.length = 8
  ptr_le : s.ptr ≤ s.blocks.getD s.cur 0
  ptr_al : s.ptr % 8 = 0
  ok : ∀ it ∈ owned s live, ItemOK s.blocks s.cur s.ptr s.dyns it
  mg : ∀ it ∈ slotItems s.slots, ∃ pos off, it.1 = Loc.managed pos off
  pw : (owned s live).Pairwise DisjR
  dn : s.dyns.Nodup
  dlt : ∀ id ∈ s.dyns, id < s.dynCounter
  dlive : ∀ id ∈ s.dyns, ∃ it ∈ liveItems live, it.1 = Loc.dyn id
  ent : ∀ e ∈ live, EntryOK e

theorem carve_ok_pw {B c p D B' c' p' D'} {items items' : List Item} {new : Item}
    (hok : ∀ it ∈ items, ItemOK B c p D it) (hpw : items.Pairwise DisjR)
    (hperm : items'.Perm (new :: items))
    (hmono : ∀ it, ItemOK B c p D it → ItemOK B' c' p' D' it ∧ DisjR new it)
    (hnew : ItemOK B' c' p' D' new) :
    (∀ it ∈ items', ItemOK B' c' p' D' it) ∧ items'.Pairwise DisjR := by
  constructor
  · intro it hit
    rcases List.mem_cons.1 (hperm.mem_iff.1 hit) with rfl | h
    · exact hnew
    · exact (hmono it (hok it h)).1
  · refine (hperm.pairwise_iff disjB_symm).2 ?_
    exact List.pairwise_cons.2 ⟨fun it h => (hmono it (hok it h)).2, hpw⟩

/-! ### Frontier moves -/

theorem ItemOK_bump {B c p D sz} {it : Item} (p' : Nat) (hp : p + sz ≤ p') (h : ItemOK B c p D it) :
    ItemOK B c p' D it ∧ DisjR (Loc.managed c p, sz) it := by
  rcases it with ⟨l, s⟩
  cases l with
  | managed pos off =>
    simp only [ItemOK] at h ⊢
    simp [DisjR, disjB, -List.getD_eq_getElem?_getD]
    omega
  | dyn id => simpa [ItemOK, DisjR, disjB] using h

theorem ItemOK_slow {B c p D} {it : Item} (X : List Nat) (p' sz : Nat) (h : ItemOK B c p D it) :
    ItemOK (B.take (c + 1) ++ X) (B.take (c + 1)).length p' D it
    ∧ DisjR (Loc.managed (B.take (c + 1)).length 0, sz) it := by
  rcases it with ⟨l, s⟩
  cases l with
  | managed pos off =>
    simp only [ItemOK] at h ⊢
    have hlen : pos < B.length := getD_pos (by omega)
    have hle : pos ≤ c := by omega
    rw [getD_take_append B X c pos hle hlen]
    have : pos < (B.take (c + 1)).length := by simp; omega
    simp [DisjR, disjB, -List.getD_eq_getElem?_getD]
    omega
  | dyn id => simpa [ItemOK, DisjR, disjB] using h

theorem ItemOK_trim {B c p D} {it : Item} (h : ItemOK B c p D it) :
    ItemOK (B.take (c + 1)) c p D it := by
  rcases it with ⟨l, s⟩
  cases l with
  | managed pos off =>
    simp only [ItemOK] at h ⊢
    have hlen : pos < B.length := getD_pos (by omega)
    have hle : pos ≤ c := by omega
    have := getD_take_append B [] c pos hle hlen
    rw [List.append_nil] at this
    rw [this]
    exact h
  | dyn id => simpa [ItemOK] using h

/-! ### Generic invariant steps -/

theorem liveItems_cons (e : Nat × Loc × Nat) (live : Live) : liveItems (e :: live) = e.2 :: liveItems live := rfl

theorem Inv.carve_live {s : State} {live : Live} (hI : Inv s live) (s' : State) (e : Nat × Loc × Nat)
    (hslots : s'.slots = s.slots) (hd : s'.dyns = s.dyns) (hdc : s'.dynCounter = s.dynCounter)
    (hmono : ∀ it, ItemOK s.blocks s.cur s.ptr s.dyns it →
      ItemOK s'.blocks s'.cur s'.ptr s'.dyns it ∧ DisjR e.2 it)
    (hnew : ItemOK s'.blocks s'.cur s'.ptr s'.dyns e.2) (he : EntryOK e)
    (hple : s'.ptr ≤ s'.blocks.getD s'.cur 0) (hpal : s'.ptr % 8 = 0) : Inv s' (e :: live) := by
  have hperm : (owned s' (e :: live)).Perm (e.2 :: owned s live) := by
    simp [owned, liveItems_cons, hslots]
  have := carve_ok_pw hI.ok hI.pw hperm hmono hnew
  refine ⟨by rw [hslots]; exact hI.slen, hple, hpal, this.1, by rw [hslots]; exact hI.mg, this.2,
    by rw [hd]; exact hI.dn, by rw [hd, hdc]; exact hI.dlt, ?_, ?_⟩
  · intro id hid
    rw [hd] at hid
    obtain ⟨it, h1, h2⟩ := hI.dlive id hid
    exact ⟨it, List.mem_cons_of_mem _ h1, h2⟩
  · intro e' he'
    rcases List.mem_cons.1 he' with rfl | h
    · exact he
    · exact hI.ent _ h

theorem Inv.carve_slot {s : State} {live : Live} (hI : Inv s live) (s' : State) (k pos off : Nat) (hk : k < 8)
    (hslots : s'.slots = pushSlot s.slots k (.managed pos off))
    (hd : s'.dyns = s.dyns) (hdc : s'.dynCounter = s.dynCounter)
    (hmono : ∀ it, ItemOK s.blocks s.cur s.ptr s.dyns it →
      ItemOK s'.blocks s'.cur s'.ptr s'.dyns it ∧ DisjR (.managed pos off, slotSize k) it)
    (hnew : ItemOK s'.blocks s'.cur s'.ptr s'.dyns (.managed pos off, slotSize k))
    (hple : s'.ptr ≤ s'.blocks.getD s'.cur 0) (hpal : s'.ptr % 8 = 0) : Inv s' live := by
  have hk' : k < s.slots.length := by rw [hI.slen]; exact hk
  have hp := slotItems_push (.managed pos off) s.slots k hk'
  have hperm : (owned s' live).Perm ((.managed pos off, slotSize k) :: owned s live) := by
    simp only [owned, hslots]
    exact (List.Perm.append_left _ hp).trans List.perm_middle
  have := carve_ok_pw hI.ok hI.pw hperm hmono hnew
  refine ⟨by rw [hslots]; simp [pushSlot, hI.slen], hple, hpal, this.1, ?_, this.2,
    by rw [hd]; exact hI.dn, by rw [hd, hdc]; exact hI.dlt, by rw [hd]; exact hI.dlive, hI.ent⟩
  intro it hit
  rw [hslots] at hit
  rcases List.mem_cons.1 (hp.mem_iff.1 hit) with rfl | h
  · exact ⟨pos, off, rfl⟩
  · exact hI.mg it h

theorem Inv.move {s : State} {live : Live} (hI : Inv s live) (s' : State)
    (hslots : s'.slots = s.slots) (hd : s'.dyns = s.dyns) (hdc : s'.dynCounter = s.dynCounter)
    (hmono : ∀ it, ItemOK s.blocks s.cur s.ptr s.dyns it → ItemOK s'.blocks s'.cur s'.ptr s'.dyns it)
    (hple : s'.ptr ≤ s'.blocks.getD s'.cur 0) (hpal : s'.ptr % 8 = 0) : Inv s' live := by
  have ho : owned s' live = owned s live := by simp [owned, hslots]
  refine ⟨by rw [hslots]; exact hI.slen, hple, hpal, ?_, by rw [hslots]; exact hI.mg, by rw [ho]; exact hI.pw,
    by rw [hd]; exact hI.dn, by rw [hd, hdc]; exact hI.dlt, by rw [hd]; exact hI.dlive, hI.ent⟩
  intro it hit
  rw [ho] at hit
  exact hmono it (hI.ok it hit)

/-! ### The operations -/

theorem Inv.bump_live {s : State} {live : Live} (hI : Inv s live) (key sz : Nat) (h0 : 0 < sz)
    (h8 : sz % 8 = 0) (hfit : sz ≤ s.remaining) (he : EntryOK (key, .managed s.cur s.ptr, sz)) :
    Inv { s with ptr := s.ptr + sz } ((key, .managed s.cur s.ptr, sz) :: live) := by
  have hr : s.ptr + sz ≤ s.blocks.getD s.cur 0 := by
    have := hI.ptr_le
    simp only [State.remaining, State.curSize] at hfit
    omega
  have hal := hI.ptr_al
  refine hI.carve_live _ _ ?_ ?_ ?_ ?_ ?_ ?_ ?_ ?_
  · rfl
  · rfl
  · rfl
  · intro it h; exact ItemOK_bump _ (Nat.le_refl _) h
  · simp [ItemOK, -List.getD_eq_getElem?_getD]; omega
  · exact he
  · exact hr
  · simp only; omega

theorem Inv.bump_slot {s : State} {live : Live} (hI : Inv s live) (k : Nat) (hk : k < 8)
    (hfit : slotSize k ≤ s.remaining) :
    Inv { s with slots := pushSlot s.slots k (.managed s.cur s.ptr), ptr := s.ptr + slotSize k } live := by
  have hr : s.ptr + slotSize k ≤ s.blocks.getD s.cur 0 := by
    have := hI.ptr_le
    simp only [State.remaining, State.curSize] at hfit
    omega
  have hal := hI.ptr_al
  have h0 := slotSize_pos hk
  have h8 := slotSize_mod8 hk
  refine hI.carve_slot _ k s.cur s.ptr hk ?_ ?_ ?_ ?_ ?_ ?_ ?_
  · rfl
  · rfl
  · rfl
  · intro it h; exact ItemOK_bump _ (Nat.le_refl _) h
  · simp [ItemOK, -List.getD_eq_getElem?_getD]; omega
  · exact hr
  · simp only; omega

theorem Inv.slow {s : State} {live : Live} (hI : Inv s live) (size : Nat) (h0 : 0 < size)
    (h8 : size % 8 = 0) (s' : State) (r : Option Loc) (h : allocOneshotSlow s size = (s', r)) :
    match r with
    | some p => (∃ pos off, p = Loc.managed pos off) ∧
        ∀ key, EntryOK (key, p, size) → Inv s' ((key, p, size) :: live)
    | none => Inv s' live := by
  unfold allocOneshotSlow at h
  simp only [] at h
  split at h
  · rename_i b rest hsp
    have hb := dropSmall_head hsp
    cases h
    refine ⟨⟨_, _, rfl⟩, ?_⟩
    intro key he
    clear h
    refine hI.carve_live _ _ ?_ ?_ ?_ ?_ ?_ ?_ ?_ ?_
    · rfl
    · rfl
    · rfl
    · intro it hit; exact ItemOK_slow _ _ _ hit
    · simp only [ItemOK, getD_append_length, hsp]
      simp; omega
    · exact he
    · simp only [getD_append_length, hsp]; simpa using hb
    · exact h8
  · rename_i hsp
    have hfail : Inv { s with blocks := s.blocks.take (s.cur + 1) } live := by
      refine hI.move _ ?_ ?_ ?_ ?_ ?_ ?_
      · rfl
      · rfl
      · rfl
      · intro it hit; exact ItemOK_trim hit
      · simp only [getD_take_self]; exact hI.ptr_le
      · exact hI.ptr_al
    by_cases hA : size > 1 <<< s.shift - 48 ∧ size > u64 - 1 - 48
    · rw [if_pos hA] at h; cases h; exact hfail
    · rw [if_neg hA] at h
      by_cases hB : (if size > 1 <<< s.shift - 48 then size + 16 else 1 <<< s.shift - 32) > s.mallocMax
      · rw [if_pos hB] at h; cases h; exact hfail
      · rw [if_neg hB] at h
        cases h
        refine ⟨⟨_, _, rfl⟩, ?_⟩
        intro key he
        refine hI.carve_live _ _ ?_ ?_ ?_ ?_ ?_ ?_ ?_ ?_
        · rfl
        · rfl
        · rfl
        · intro it hit; exact ItemOK_slow _ _ _ hit
        · simp only [ItemOK, getD_append_length]
          simp
          refine ⟨h0, ?_⟩
          split <;> omega
        · exact he
        · simp only [getD_append_length]
          simp
          split <;> omega
        · exact h8

theorem Inv.leftover_inv {live : Live} : ∀ (fuel : Nat) (s : State) (size : Nat),
    Inv s live → size ≤ s.remaining → Inv (leftover fuel s size) live := by
  intro fuel
  induction fuel with
  | zero => intro s size hI _; simpa [leftover] using hI
  | succ n ih =>
    intro s size hI hfit
    unfold leftover
    by_cases hsz : size < kMinSlot
    · rw [if_pos hsz]; exact hI
    · rw [if_neg hsz]
      have hc := leftover_choice size (by simp [kMinSlot] at hsz; omega)
      simp only []
      apply ih
      · exact hI.bump_slot _ hc.1 (Nat.le_trans hc.2 hfit)
      · simp only [State.remaining, State.curSize] at hfit ⊢
        omega

theorem Inv.pop {s : State} {live : Live} (hI : Inv s live) (idx : Nat) (p : Loc) (rest : List Loc)
    (hidx : idx < 8) (h : s.slots.getD idx [] = p :: rest) (key : Nat) :
    Inv { s with slots := s.slots.set idx rest } ((key + 1, p, slotSize idx) :: live) := by
  have hp := slotItems_pop p rest s.slots idx h
  have hperm : (owned s live).Perm
      (owned { s with slots := s.slots.set idx rest } ((key + 1, p, slotSize idx) :: live)) := by
    simp only [owned, liveItems_cons]
    exact (List.Perm.append_left _ hp).trans List.perm_middle
  have hmem : (p, slotSize idx) ∈ slotItems s.slots := hp.mem_iff.2 (List.mem_cons_self ..)
  refine ⟨by simp [hI.slen], hI.ptr_le, hI.ptr_al, ?_, ?_, (hperm.pairwise_iff disjB_symm).1 hI.pw,
    hI.dn, hI.dlt, ?_, ?_⟩
  · intro it hit
    exact hI.ok it (hperm.mem_iff.2 hit)
  · intro it hit
    exact hI.mg it (hp.mem_iff.2 (List.mem_cons_of_mem _ hit))
  · intro id hid
    obtain ⟨it, h1, h2⟩ := hI.dlive id hid
    exact ⟨it, List.mem_cons_of_mem _ h1, h2⟩
  · intro e he
    rcases List.mem_cons.1 he with rfl | h'
    · obtain ⟨pos, off, hpo⟩ := hI.mg _ hmem
      simp only at hpo
      subst hpo
      exact ⟨idx, hidx, rfl⟩
    · exact hI.ent _ h'

theorem findH_spec : ∀ {live : Live} {key : Nat} {p : Loc} {sz : Nat}, findH live key = some (p, sz) →
    (key, p, sz) ∈ live ∧ (liveItems live).Perm ((p, sz) :: liveItems (eraseH live key)) := by
  intro live
  induction live with
  | nil => intro key p sz h; simp [findH] at h
  | cons e rest ih =>
    intro key p sz h
    rcases e with ⟨k, l, z⟩
    unfold findH at h
    unfold eraseH
    by_cases hk : k = key
    · rw [if_pos hk] at h
      simp only [Option.some.injEq, Prod.mk.injEq] at h
      obtain ⟨rfl, rfl⟩ := h
      subst hk
      simp [liveItems]
    · rw [if_neg hk] at h
      have := ih h
      simp only [hk, if_false]
      refine ⟨List.mem_cons_of_mem _ this.1, ?_⟩
      simp only [liveItems_cons]
      exact (List.Perm.cons _ this.2).trans (List.Perm.swap ..)

theorem eraseH_subset : ∀ {live : Live} {key : Nat} {e}, e ∈ eraseH live key → e ∈ live := by
  intro live
  induction live with
  | nil => intro key e h; simp [eraseH] at h
  | cons a rest ih =>
    intro key e h
    unfold eraseH at h
    split at h
    · exact List.mem_cons_of_mem _ h
    · rcases List.mem_cons.1 h with rfl | h'
      · exact List.mem_cons_self ..
      · exact List.mem_cons_of_mem _ (ih h')

theorem Inv.put {s : State} {live : Live} (hI : Inv s live) (key : Nat) (p : Loc) (sz : Nat)
    (hf : findH live (key + 1) = some (p, sz)) : Inv (freeReusable s p sz) (eraseH live (key + 1)) := by
  obtain ⟨hmem, hpl⟩ := findH_spec hf
  have he := hI.ent _ hmem
  cases p with
  | managed pos off =>
    obtain ⟨k, hk, rfl⟩ := he
    have hk' : k < s.slots.length := by rw [hI.slen]; exact hk
    have hps := slotItems_push (.managed pos off) s.slots k hk'
    have hfr : freeReusable s (.managed pos off) (slotSize k)
        = { s with slots := pushSlot s.slots k (.managed pos off) } := by
      simp [freeReusable, slotIndex_slotSize hk, kSlotCount, hk]
    rw [hfr]
    have hperm : (owned s live).Perm
        (owned { s with slots := pushSlot s.slots k (.managed pos off) } (eraseH live (key + 1))) := by
      simp only [owned]
      refine (List.Perm.append_right _ hpl).trans ?_
      refine List.Perm.trans ?_ (List.Perm.append_left _ hps.symm)
      exact List.perm_middle.symm
    refine ⟨by simp [pushSlot, hI.slen], hI.ptr_le, hI.ptr_al, ?_, ?_, (hperm.pairwise_iff disjB_symm).1 hI.pw,
      hI.dn, hI.dlt, ?_, fun e h => hI.ent e (eraseH_subset h)⟩
    · intro it hit
      exact hI.ok it (hperm.mem_iff.2 hit)
    · intro it hit
      rcases List.mem_cons.1 (hps.mem_iff.1 hit) with rfl | h
      · exact ⟨pos, off, rfl⟩
      · exact hI.mg it h
    · intro id hid
      obtain ⟨it, h1, h2⟩ := hI.dlive id hid
      rcases List.mem_cons.1 (hpl.mem_iff.1 h1) with rfl | h
      · simp at h2
      · exact ⟨it, h, h2⟩
  | dyn id =>
    have hfr : freeReusable s (.dyn id) sz = { s with dyns := s.dyns.erase id } := by
      simp only [EntryOK] at he
      simp [freeReusable, he]
    rw [hfr]
    have hperm : (owned s live).Perm
        ((Loc.dyn id, sz) :: owned { s with dyns := s.dyns.erase id } (eraseH live (key + 1))) := by
      simp only [owned]
      exact List.Perm.append_right _ hpl
    have hpw := (hperm.pairwise_iff disjB_symm).1 hI.pw
    rw [List.pairwise_cons] at hpw
    refine ⟨hI.slen, hI.ptr_le, hI.ptr_al, ?_, hI.mg, hpw.2,
      hI.dn.erase _, ?_, ?_, fun e h => hI.ent e (eraseH_subset h)⟩
    · intro it hit
      have h1 := hI.ok it (hperm.mem_iff.2 (List.mem_cons_of_mem _ hit))
      have h2 := hpw.1 it hit
      rcases it with ⟨l, z⟩
      cases l with
      | managed pos off => exact h1
      | dyn b =>
        simp only [ItemOK] at h1 ⊢
        simp [DisjR, disjB] at h2
        exact (List.mem_erase_of_ne (fun h => h2 h.symm)).2 h1
    · intro b hb
      exact hI.dlt b (List.mem_of_mem_erase hb)
    · intro b hb
      have hb' := (hI.dn.mem_erase_iff).1 hb
      obtain ⟨it, h1, h2⟩ := hI.dlive b hb'.2
      rcases List.mem_cons.1 (hpl.mem_iff.1 h1) with rfl | h
      · simp at h2; exact absurd h2.symm hb'.1
      · exact ⟨it, h, h2⟩

theorem Inv.dynAlloc {s : State} {live : Live} (hI : Inv s live) (key sz : Nat)
    (hsz : ¬ slotIndex sz < kSlotCount) :
    Inv { s with dyns := s.dynCounter :: s.dyns, dynCounter := s.dynCounter + 1 }
      ((key + 1, .dyn s.dynCounter, sz) :: live) := by
  have hperm : (owned { s with dyns := s.dynCounter :: s.dyns, dynCounter := s.dynCounter + 1 }
      ((key + 1, .dyn s.dynCounter, sz) :: live)).Perm ((.dyn s.dynCounter, sz) :: owned s live) := by
    simp [owned, liveItems_cons]
  have := carve_ok_pw (B' := s.blocks) (c' := s.cur) (p' := s.ptr) (D' := s.dynCounter :: s.dyns)
    hI.ok hI.pw hperm ?_ (by simp [ItemOK])
  · refine ⟨hI.slen, hI.ptr_le, hI.ptr_al, this.1, hI.mg, this.2, ?_, ?_, ?_, ?_⟩
    · refine List.nodup_cons.2 ⟨fun h => ?_, hI.dn⟩
      exact Nat.lt_irrefl _ (hI.dlt _ h)
    · intro b hb
      rcases List.mem_cons.1 hb with rfl | h
      · exact Nat.lt_succ_self _
      · exact Nat.lt_succ_of_lt (hI.dlt b h)
    · intro b hb
      rcases List.mem_cons.1 hb with rfl | h
      · exact ⟨_, List.mem_cons_self .., rfl⟩
      · obtain ⟨it, h1, h2⟩ := hI.dlive b h
        exact ⟨it, List.mem_cons_of_mem _ h1, h2⟩
    · intro e he
      rcases List.mem_cons.1 he with rfl | h
      · exact hsz
      · exact hI.ent e h
  · intro it hit
    rcases it with ⟨l, z⟩
    cases l with
    | managed pos off => exact ⟨hit, by simp [DisjR, disjB]⟩
    | dyn b =>
      simp only [ItemOK] at hit ⊢
      have := hI.dlt b hit
      refine ⟨List.mem_cons_of_mem _ hit, ?_⟩
      simp [DisjR, disjB]; omega

theorem Inv.reset (s : State) (hard : Bool) : Inv (Arena.reset s hard) [] := by
  have ho : ∀ t : State, t.slots = List.replicate 8 [] → owned t [] = [] := by
    intro t ht; unfold owned; rw [ht, slotItems_replicate]; rfl
  have hs : (Arena.reset s hard).slots = List.replicate 8 [] := by simp [Arena.reset]
  have hd : (Arena.reset s hard).dyns = [] := by simp [Arena.reset]
  have hp : (Arena.reset s hard).ptr = 0 := by simp [Arena.reset]
  refine ⟨by rw [hs]; simp, by rw [hp]; exact Nat.zero_le _, by rw [hp], ?_, ?_, ?_, ?_, ?_, ?_, ?_⟩
  · rw [ho _ hs]; simp
  · rw [hs, slotItems_replicate]; simp
  · rw [ho _ hs]; simp
  · rw [hd]; simp
  · rw [hd]; simp
  · rw [hd]; simp
  · simp

theorem Inv.allocOneshot_inv {s : State} {live : Live} (hI : Inv s live) (size : Nat) (h0 : 0 < size)
    (h8 : size % 8 = 0) (s' : State) (r : Option Loc) (h : allocOneshot s size = (s', r)) :
    match r with
    | some p => Inv s' ((0, p, size) :: live)
    | none => Inv s' live := by
  unfold allocOneshot at h
  by_cases hc : size > s.remaining
  · rw [if_pos hc] at h
    have := hI.slow size h0 h8 s' r h
    cases r with
    | none => exact this
    | some p =>
      obtain ⟨⟨pos, off, rfl⟩, h2⟩ := this
      exact h2 0 trivial
  · rw [if_neg hc] at h
    cases h
    exact hI.bump_live 0 size h0 h8 (by omega) trivial

theorem Inv.allocReusable_inv {s : State} {live : Live} (hI : Inv s live) (size key : Nat)
    (s' : State) (r : Option Loc) (asz : Nat) (h : allocReusable s size = (s', r, asz)) :
    match r with
    | some p => Inv s' ((key + 1, p, asz) :: live)
    | none => Inv s' live := by
  unfold allocReusable at h
  by_cases hidx : slotIndex size < kSlotCount
  · rw [if_pos hidx] at h
    have hidx8 : slotIndex size < 8 := hidx
    simp only [] at h
    split at h
    · rename_i p rest hsl
      cases h
      exact hI.pop _ p rest hidx8 hsl key
    · by_cases hrem : s.remaining ≥ slotSize (slotIndex size)
      · rw [if_pos hrem] at h
        cases h
        exact hI.bump_live (key + 1) _ (slotSize_pos hidx8) (slotSize_mod8 hidx8) hrem ⟨_, hidx8, rfl⟩
      · rw [if_neg hrem] at h
        generalize hq : allocOneshotSlow (leftover 64 s s.remaining) (slotSize (slotIndex size)) = q at h
        have hL := hI.leftover_inv 64 s s.remaining (Nat.le_refl _)
        rcases q with ⟨s2, _ | p⟩
        · simp only [Prod.mk.injEq] at h
          obtain ⟨rfl, rfl, rfl⟩ := h
          exact hL.slow _ (slotSize_pos hidx8) (slotSize_mod8 hidx8) _ _ hq
        · simp only [Prod.mk.injEq] at h
          obtain ⟨rfl, rfl, rfl⟩ := h
          have := hL.slow _ (slotSize_pos hidx8) (slotSize_mod8 hidx8) _ _ hq
          obtain ⟨⟨pos, off, rfl⟩, h2⟩ := this
          exact h2 (key + 1) ⟨_, hidx8, rfl⟩
  · rw [if_neg hidx] at h
    by_cases h1 : size ≥ u64 - 1 - 24
    · rw [if_pos h1] at h; cases h; exact hI
    · rw [if_neg h1] at h
      by_cases h2 : size + 24 > s.mallocMax
      · rw [if_pos h2] at h; cases h; exact hI
      · rw [if_neg h2] at h
        cases h
        exact hI.dynAlloc key size hidx

/-! ### Induction over operation sequences -/

theorem Inv.init (minBlock staticSize mallocMax : Nat) : Inv (init minBlock staticSize mallocMax) [] := by
  have ho : owned (Arena.init minBlock staticSize mallocMax) [] = [] := by
    unfold owned; simp only [Arena.init]; rw [slotItems_replicate]; rfl
  refine ⟨by simp [Arena.init], by simp [Arena.init], by simp [Arena.init], ?_, ?_, ?_, ?_, ?_, ?_, ?_⟩
  · rw [ho]; simp
  · simp only [Arena.init]; rw [slotItems_replicate]; simp
  · rw [ho]; simp
  · simp [Arena.init]
  · simp [Arena.init]
  · simp [Arena.init]
  · simp

theorem step_inv {s : State} {live : Live} (hI : Inv s live) (op : AOp) :
    Inv (step (s, live) op).1 (step (s, live) op).2 := by
  cases op with
  | one size =>
    simp only [step]
    by_cases hc : size % 8 = 0 ∧ 0 < size
    · rw [if_pos hc]
      generalize hq : allocOneshot s size = q
      rcases q with ⟨s', _ | p⟩
      · exact hI.allocOneshot_inv size hc.2 hc.1 _ _ hq
      · exact hI.allocOneshot_inv size hc.2 hc.1 _ _ hq
    · rw [if_neg hc]; exact hI
  | get h size =>
    simp only [step]
    by_cases hc : 0 < size ∧ findH live (h + 1) = none
    · rw [if_pos hc]
      generalize hq : allocReusable s size = q
      rcases q with ⟨s', _ | p, asz⟩
      · exact hI.allocReusable_inv size h _ _ _ hq
      · exact hI.allocReusable_inv size h _ _ _ hq
    · rw [if_neg hc]; exact hI
  | put h =>
    simp only [step]
    generalize hq : findH live (h + 1) = q
    rcases q with _ | ⟨p, sz⟩
    · exact hI
    · exact hI.put h p sz hq
  | reset hard => exact Inv.reset s hard

theorem run_inv : ∀ (ops : List AOp) (s : State) (live : Live), Inv s live →
    Inv (run ops (s, live)).1 (run ops (s, live)).2 := by
  intro ops
  induction ops with
  | nil => intro s live h; exact h
  | cons op ops ih =>
    intro s live h
    have := step_inv h op
    simp only [run, List.foldl_cons] at ih ⊢
    exact ih _ _ this

/-! ### From the invariant to the safety predicate -/

theorem pairwiseB_iff {α : Type} (r : α → α → Bool) : ∀ l : List α,
    pairwiseB r l = true ↔ l.Pairwise (fun a b => r a b = true) := by
  intro l
  induction l with
  | nil => simp [pairwiseB]
  | cons x xs ih => simp [pairwiseB, ih, List.all_eq_true]

theorem Inv.itemSafe {s : State} {live : Live} (hI : Inv s live) {it : Item} (h : it ∈ liveItems live) :
    itemSafe s it = true := by
  have hok := hI.ok it (List.mem_append_left _ h)
  rcases it with ⟨l, z⟩
  cases l with
  | managed pos off =>
    simp only [ItemOK] at hok
    have hlen : pos < s.blocks.length := getD_pos (by omega)
    simp [Arena.itemSafe, -List.getD_eq_getElem?_getD, hlen, hok.1, hok.2.2.1]
  | dyn id =>
    simp only [ItemOK] at hok
    simp [Arena.itemSafe, hok]

theorem Inv.safe {s : State} {live : Live} (hI : Inv s live) : safe s live = true := by
  unfold Arena.safe
  simp only [Bool.and_eq_true, List.all_eq_true, List.any_eq_true, pairwiseB_iff]
  refine ⟨⟨fun it h => hI.itemSafe h, (List.pairwise_append.1 hI.pw).1⟩, ?_⟩
  intro id hid
  obtain ⟨it, h1, h2⟩ := hI.dlive id hid
  exact ⟨it, h1, by simp [h2]⟩

theorem safe_iff_Safe (s : State) (live : Live) : safe s live = true ↔ Safe s live := by
  unfold Arena.safe
  simp only [Bool.and_eq_true, List.all_eq_true, List.any_eq_true, pairwiseB_iff]
  constructor
  · rintro ⟨⟨h1, h2⟩, h3⟩
    refine ⟨?_, ?_, h2, ?_⟩
    · intro key pos off sz hm
      have := h1 (.managed pos off, sz) (List.mem_map.2 ⟨_, hm, rfl⟩)
      simpa [itemSafe, -List.getD_eq_getElem?_getD, and_assoc] using this
    · intro key id sz hm
      have := h1 (.dyn id, sz) (List.mem_map.2 ⟨_, hm, rfl⟩)
      simpa [itemSafe] using this
    · intro id hid
      obtain ⟨it, hit, he⟩ := h3 id hid
      obtain ⟨⟨key, l, sz⟩, hm, rfl⟩ := List.mem_map.1 hit
      simp at he
      subst he
      exact ⟨key, sz, hm⟩
  · intro h
    refine ⟨⟨?_, h.disjoint⟩, ?_⟩
    · intro it hit
      obtain ⟨⟨key, l, sz⟩, hm, rfl⟩ := List.mem_map.1 hit
      cases l with
      | managed pos off =>
        have := h.inBlock key pos off sz hm
        simp [itemSafe, -List.getD_eq_getElem?_getD, this]
      | dyn id =>
        have := h.dynReg key id sz hm
        simp [itemSafe, this]
    · intro id hid
      obtain ⟨key, sz, hm⟩ := h.dynLive id hid
      exact ⟨(.dyn id, sz), List.mem_map.2 ⟨_, hm, rfl⟩, by simp⟩

/-! ### The theorems -/

/-- `arena_safe` without any hypothesis on the parameters: the safety monitor holds after every sequence of
client operations (the invariant does not depend on the block-size policy). -/
theorem arena_safe_general (minBlock staticSize mallocMax : Nat) (ops : List AOp) :
    safe (run ops (init minBlock staticSize mallocMax, [])).1
         (run ops (init minBlock staticSize mallocMax, [])).2 = true :=
  (run_inv ops _ _ (Inv.init minBlock staticSize mallocMax)).safe

/-- C18 memory safety of the arena, for all operation sequences. -/
theorem arena_safe : ∀ (minBlock staticSize mallocMax : Nat) (ops : List AOp),
    1024 ≤ minBlock → (staticSize = 0 ∨ 16 ≤ staticSize) →
    let (s, live) := run ops (init minBlock staticSize mallocMax, [])
    safe s live = true := by
  intro minBlock staticSize mallocMax ops _ _
  have := arena_safe_general minBlock staticSize mallocMax ops
  generalize run ops (init minBlock staticSize mallocMax, []) = r at this
  rcases r with ⟨s, live⟩
  exact this

/-- `Prop` form of `arena_safe` -/
theorem arena_Safe (minBlock staticSize mallocMax : Nat) (ops : List AOp) :
    Safe (run ops (init minBlock staticSize mallocMax, [])).1
         (run ops (init minBlock staticSize mallocMax, [])).2 :=
  (safe_iff_Safe _ _).1 (arena_safe_general minBlock staticSize mallocMax ops)

/-- reachable states satisfy the invariant -/
theorem reachable_inv (minBlock staticSize mallocMax : Nat) (ops : List AOp) :
    Inv (run ops (init minBlock staticSize mallocMax, [])).1
        (run ops (init minBlock staticSize mallocMax, [])).2 :=
  run_inv ops _ _ (Inv.init minBlock staticSize mallocMax)

theorem Inv.new_disjoint {s : State} {live : Live} {e : Nat × Loc × Nat} (hI : Inv s (e :: live)) :
    Arena.itemSafe s e.2 = true ∧ ∀ it ∈ liveItems live, disjB e.2 it = true := by
  refine ⟨hI.itemSafe (List.mem_cons_self ..), ?_⟩
  intro it hit
  have := hI.pw
  simp only [owned, liveItems_cons, List.cons_append, List.pairwise_cons] at this
  exact this.1 it (List.mem_append_left _ hit)

/-- In every reachable state: the region handed out by `alloc_oneshot` / `alloc_reusable` lies inside a block
(or is a registered fresh dynamic block) and does not overlap any region that is live at that moment – memory
is only ever re-issued after it was released by `free_reusable` or `reset`. -/
theorem arena_reuses_only_released (minBlock staticSize mallocMax : Nat) (ops : List AOp) :
    let (s, live) := run ops (init minBlock staticSize mallocMax, [])
    (∀ size s' p, size % 8 = 0 → 0 < size → allocOneshot s size = (s', some p) →
      itemSafe s' (p, size) = true ∧ ∀ it ∈ liveItems live, disjB (p, size) it = true)
    ∧ (∀ size s' p asz, allocReusable s size = (s', some p, asz) →
      itemSafe s' (p, asz) = true ∧ ∀ it ∈ liveItems live, disjB (p, asz) it = true) := by
  have := reachable_inv minBlock staticSize mallocMax ops
  generalize run ops (init minBlock staticSize mallocMax, []) = r at this
  rcases r with ⟨s, live⟩
  refine ⟨?_, ?_⟩
  · intro size s' p h8 h0 h
    exact (Inv.allocOneshot_inv this size h0 h8 s' (some p) h).new_disjoint
  · intro size s' p asz h
    exact (Inv.allocReusable_inv this size 0 s' (some p) asz h).new_disjoint

/-- `reset` returns everything: bump pointer at the start of the first block, all free lists and the dynamic
block list empty, no live region; a hard reset keeps at most the first (static) block. -/
theorem reset_returns_all (s : State) (live : Live) (hard : Bool) :
    let (s', live') := step (s, live) (.reset hard)
    s'.ptr = 0 ∧ s'.cur = 0 ∧ s'.slots = List.replicate 8 [] ∧ s'.dyns = [] ∧ live' = [] ∧
    (hard = true → s'.blocks = if s.hasStatic then s.blocks.take 1 else []) := by
  simp only [step]
  refine ⟨by simp [Arena.reset], by simp [Arena.reset], by simp [Arena.reset], by simp [Arena.reset], trivial, ?_⟩
  intro hh
  subst hh
  cases hb : s.blocks with
  | nil => simp [Arena.reset, hb]
  | cons b rest => cases hs : s.hasStatic <;> simp [Arena.reset, hb, hs]

/-! ### Non-vacuity -/

/-- a history with the bump path, a leftover distribution into the free lists (slots 1..5), a new block, reuse
from a free list (`get 2 500` takes the 512-byte leftover piece), a dynamic block and `put`/`get` reuse:
live regions exist and the monitor accepts -/
example :
    let r := run [.one 1000, .get 1 900, .get 2 500, .get 3 200, .get 4 5000, .put 2, .get 5 300] (init 1024 0, [])
    r.2 = [(6, .managed 0 1000, 512), (5, .dyn 0, 5000), (4, .managed 0 1512, 256), (2, .managed 1 0, 1024),
           (0, .managed 0 0, 1000)]
    ∧ r.1.blocks = [2000, 4048] ∧ r.1.slots.getD 1 [] = [.managed 0 1960] ∧ safe r.1 r.2 = true := by
  decide

/-- soft reset followed by block reuse -/
example :
    let r := run [.get 1 100, .one 64, .get 2 3000, .get 5 600, .put 1, .get 3 100, .reset false, .one 2000,
                  .get 4 40, .get 6 900, .put 4, .one 8] (init 1024 0, [])
    r.2 = [(0, .managed 1 1088, 8), (7, .managed 1 64, 1024), (0, .managed 0 0, 2000)] ∧ safe r.1 r.2 = true := by
  decide

/-- reuse really happens: the freed region is handed out again -/
example : (run [.get 1 100, .put 1, .get 2 100] (init 1024 0, [])).2 = [(3, .managed 0 0, 128)] := by decide

/-- a dynamic block is live and registered -/
example :
    let r := run [.get 1 5000] (init 1024 0, [])
    r.2 = [(2, .dyn 0, 5000)] ∧ r.1.dyns = [0] ∧ safe r.1 r.2 = true := by decide

/-- the monitor rejects overlapping regions, regions outside their block, misaligned regions, unknown and
leaked dynamic blocks -/
example : safe (init 1024 4096) [(1, .managed 0 0, 32), (2, .managed 0 16, 32)] = false := by decide
example : safe (init 1024 4096) [(1, .managed 0 4072, 16)] = false := by decide
example : safe (init 1024 4096) [(1, .managed 1 0, 16)] = false := by decide
example : safe (init 1024 4096) [(1, .managed 0 4, 16)] = false := by decide
example : safe (init 1024 4096) [(1, .dyn 0, 5000)] = false := by decide
example : safe { init 1024 4096 with dyns := [0] } [] = false := by decide
example : safe (init 1024 4096) [(1, .managed 0 0, 32), (2, .managed 0 32, 32)] = true := by decide

/-- why `one` requires `0 < size`: a zero-size request on an arena without blocks returns a location in the
non-existing block 0 (the address of the zero block in C++), for which `pos < blocks.length` fails -/
theorem one_zero_on_empty_arena :
    (allocOneshot (init 1024 0) 0).2 = some (.managed 0 0) ∧ (allocOneshot (init 1024 0) 0).1.blocks = []
    ∧ safe (allocOneshot (init 1024 0) 0).1 [(0, .managed 0 0, 0)] = false := by decide

/-- `reset_returns_all` on a concrete history (three blocks and a dynamic block before the reset) -/
example :
    let r := run [.one 1000, .one 1000, .one 4000, .get 1 5000] (init 1024 512, [])
    r.1.blocks = [496, 2000, 4048] ∧ r.1.dyns = [0] ∧
    (step r (.reset true)).1.blocks = [496] ∧ (step r (.reset false)).1.blocks = [496, 2000, 4048] := by decide

/-! ### The static block survives, everything else is returned by a hard reset -/

/-- `hasStatic` does not change and the first block of the chain stays the first block -/
def Rel (s s' : State) : Prop :=
  s'.hasStatic = s.hasStatic ∧ ∀ b, s.blocks.take 1 = [b] → s'.blocks.take 1 = [b]

theorem Rel.refl (s : State) : Rel s s := ⟨rfl, fun _ h => h⟩
theorem Rel.trans {a b c : State} (h1 : Rel a b) (h2 : Rel b c) : Rel a c :=
  ⟨h2.1.trans h1.1, fun x h => h2.2 x (h1.2 x h)⟩

theorem take1_take_append (B X : List Nat) (c b : Nat) (h : B.take 1 = [b]) :
    (B.take (c + 1) ++ X).take 1 = [b] := by
  cases B with
  | nil => simp at h
  | cons a rest => simp at h; simp [h]

theorem slow_rel {s : State} {size : Nat} {s' : State} {r : Option Loc}
    (h : allocOneshotSlow s size = (s', r)) : Rel s s' := by
  unfold allocOneshotSlow at h
  simp only [] at h
  have hf : Rel s { s with blocks := s.blocks.take (s.cur + 1) } :=
    ⟨rfl, fun b hb => by simpa using take1_take_append _ [] s.cur _ hb⟩
  split at h
  · cases h
    exact ⟨rfl, fun b hb => take1_take_append _ _ _ _ hb⟩
  · by_cases hA : size > 1 <<< s.shift - 48 ∧ size > u64 - 1 - 48
    · rw [if_pos hA] at h; cases h; exact hf
    · rw [if_neg hA] at h
      by_cases hB : (if size > 1 <<< s.shift - 48 then size + 16 else 1 <<< s.shift - 32) > s.mallocMax
      · rw [if_pos hB] at h; cases h; exact hf
      · rw [if_neg hB] at h
        cases h
        exact ⟨rfl, fun b hb => take1_take_append _ _ _ _ hb⟩

theorem leftover_rel : ∀ (fuel : Nat) (s : State) (size : Nat), Rel s (leftover fuel s size) := by
  intro fuel
  induction fuel with
  | zero => intro s size; simpa [leftover] using Rel.refl s
  | succ n ih =>
    intro s size
    unfold leftover
    by_cases hsz : size < kMinSlot
    · rw [if_pos hsz]; exact Rel.refl s
    · rw [if_neg hsz]
      simp only []
      generalize (if slotIndex (size / 2) < kSlotCount then slotIndex (size / 2) else kSlotCount - 1) = k
      have h1 := ih { s with slots := pushSlot s.slots k (.managed s.cur s.ptr), ptr := s.ptr + slotSize k }
        (size - slotSize k)
      exact ⟨h1.1, h1.2⟩

theorem allocReusable_rel {s : State} {size : Nat} {s' : State} {r : Option Loc} {asz : Nat}
    (h : allocReusable s size = (s', r, asz)) : Rel s s' := by
  unfold allocReusable at h
  by_cases hidx : slotIndex size < kSlotCount
  · rw [if_pos hidx] at h
    simp only [] at h
    split at h
    · cases h; exact ⟨rfl, fun _ h => h⟩
    · by_cases hrem : s.remaining ≥ slotSize (slotIndex size)
      · rw [if_pos hrem] at h
        cases h; exact ⟨rfl, fun _ h => h⟩
      · rw [if_neg hrem] at h
        generalize hq : allocOneshotSlow (leftover 64 s s.remaining) (slotSize (slotIndex size)) = q at h
        have hL := leftover_rel 64 s s.remaining
        rcases q with ⟨s2, _ | p⟩
        · simp only [Prod.mk.injEq] at h
          obtain ⟨rfl, _, _⟩ := h
          exact hL.trans (slow_rel hq)
        · simp only [Prod.mk.injEq] at h
          obtain ⟨rfl, _, _⟩ := h
          exact hL.trans (slow_rel hq)
  · rw [if_neg hidx] at h
    by_cases h1 : size ≥ u64 - 1 - 24
    · rw [if_pos h1] at h; cases h; exact Rel.refl s
    · rw [if_neg h1] at h
      by_cases h2 : size + 24 > s.mallocMax
      · rw [if_pos h2] at h; cases h; exact Rel.refl s
      · rw [if_neg h2] at h
        cases h
        exact ⟨rfl, fun _ h => h⟩

theorem freeReusable_rel (s : State) (p : Loc) (sz : Nat) : Rel s (freeReusable s p sz) := by
  unfold freeReusable
  by_cases hidx : slotIndex sz < kSlotCount
  · simp only [if_pos hidx]; exact ⟨rfl, fun _ h => h⟩
  · simp only [if_neg hidx]
    cases p with
    | managed pos off => exact Rel.refl s
    | dyn id => exact ⟨rfl, fun _ h => h⟩

/-- `hasStatic` never changes along a run and the static block stays the first block of the chain -/
def StaticInv (z : Nat) (s : State) : Prop :=
  s.hasStatic = decide (z ≠ 0) ∧ (z ≠ 0 → s.blocks.take 1 = [z - 16])

theorem StaticInv.of_rel {z : Nat} {s s' : State} (h : StaticInv z s) (hr : Rel s s') : StaticInv z s' :=
  ⟨hr.1.trans h.1, fun hz => hr.2 _ (h.2 hz)⟩

theorem reset_hasStatic (s : State) (hard : Bool) : (Arena.reset s hard).hasStatic = s.hasStatic := by
  cases hard with
  | false => simp [Arena.reset]
  | true =>
    cases hb : s.blocks with
    | nil => simp [Arena.reset, hb]
    | cons b rest => cases hs : s.hasStatic <;> simp [Arena.reset, hb, hs]

theorem reset_blocks (s : State) (hard : Bool) :
    (Arena.reset s hard).blocks = if hard then (if s.hasStatic then s.blocks.take 1 else []) else s.blocks := by
  cases hard with
  | false => simp [Arena.reset]
  | true =>
    cases hb : s.blocks with
    | nil => simp [Arena.reset, hb]
    | cons b rest => cases hs : s.hasStatic <;> simp [Arena.reset, hb, hs]

theorem StaticInv.reset {z : Nat} {s : State} (h : StaticInv z s) (hard : Bool) :
    StaticInv z (Arena.reset s hard) := by
  refine ⟨(reset_hasStatic s hard).trans h.1, fun hz => ?_⟩
  have hs : s.hasStatic = true := by simp [h.1, hz]
  have h2 := h.2 hz
  rw [reset_blocks, hs]
  cases hard with
  | false => simpa using h2
  | true => simp [h2]

theorem StaticInv.step {z : Nat} {s : State} (live : Live) (h : StaticInv z s) (op : AOp) :
    StaticInv z (step (s, live) op).1 := by
  cases op with
  | one size =>
    simp only [Arena.step]
    by_cases hc : size % 8 = 0 ∧ 0 < size
    · rw [if_pos hc]
      generalize hq : allocOneshot s size = q
      have hrel : Rel s q.1 := by
        unfold allocOneshot at hq
        by_cases hc2 : size > s.remaining
        · rw [if_pos hc2] at hq
          exact slow_rel (r := q.2) hq
        · rw [if_neg hc2] at hq
          subst hq
          exact ⟨rfl, fun _ h => h⟩
      rcases q with ⟨s', _ | p⟩ <;> exact h.of_rel hrel
    · rw [if_neg hc]; exact h
  | get k size =>
    simp only [Arena.step]
    by_cases hc : 0 < size ∧ findH live (k + 1) = none
    · rw [if_pos hc]
      generalize hq : allocReusable s size = q
      rcases q with ⟨s', _ | p, asz⟩ <;> exact h.of_rel (allocReusable_rel hq)
    · rw [if_neg hc]; exact h
  | put k =>
    simp only [Arena.step]
    generalize hq : findH live (k + 1) = q
    rcases q with _ | ⟨p, sz⟩
    · exact h
    · exact h.of_rel (freeReusable_rel s p sz)
  | reset hard => exact h.reset hard

theorem StaticInv.run {z : Nat} : ∀ (ops : List AOp) (s : State) (live : Live), StaticInv z s →
    StaticInv z (run ops (s, live)).1 := by
  intro ops
  induction ops with
  | nil => intro s live h; exact h
  | cons op ops ih =>
    intro s live h
    have := h.step live op
    simp only [Arena.run, List.foldl_cons] at ih ⊢
    exact ih _ _ this

/-- After any history, a hard reset brings the arena back to the block chain it was initialised with: only
the static block (if one was given) remains; bump pointer, free lists, dynamic blocks and the live set are
empty. -/
theorem reset_hard_restores_init (minBlock staticSize mallocMax : Nat) (ops : List AOp) :
    let r := run (ops ++ [.reset true]) (init minBlock staticSize mallocMax, [])
    r.1.blocks = (init minBlock staticSize mallocMax).blocks ∧ r.1.ptr = 0 ∧ r.1.cur = 0 ∧
    r.1.slots = List.replicate 8 [] ∧ r.1.dyns = [] ∧ r.2 = [] := by
  have h0 : StaticInv staticSize (init minBlock staticSize mallocMax) := by
    refine ⟨by simp [Arena.init], fun hz => by simp [Arena.init, hz]⟩
  have h := h0.run ops _ []
  simp only [Arena.run, List.foldl_append, List.foldl_cons, List.foldl_nil] at h ⊢
  generalize List.foldl step (init minBlock staticSize mallocMax, []) ops = r at h
  rcases r with ⟨s, live⟩
  have hr := reset_returns_all s live true
  simp only at hr h ⊢
  refine ⟨?_, hr.1, hr.2.1, hr.2.2.1, hr.2.2.2.1, hr.2.2.2.2.1⟩
  rw [hr.2.2.2.2.2 trivial]
  by_cases hz : staticSize = 0
  · have : s.hasStatic = false := by simp [h.1, hz]
    simp [this, Arena.init, hz]
  · have : s.hasStatic = true := by simp [h.1, hz]
    simp [this, Arena.init, hz, h.2 hz]

example :
    (run ([.one 1000, .one 1000, .one 4000, .get 1 5000] ++ [.reset true]) (init 1024 512, [])).1.blocks = [496] := by
  decide

/-! ### Functional extra: the allocated size covers the request -/

/-- `_alloc_reusable` never reports less than what was asked for (`size` a `size_t` value) -/
theorem allocReusable_size_le {s : State} {size : Nat} {s' : State} {p : Loc} {asz : Nat}
    (h : allocReusable s size = (s', some p, asz)) (h0 : 0 < size) (hlt : size < u64) : size ≤ asz := by
  unfold allocReusable at h
  by_cases hidx : slotIndex size < kSlotCount
  · rw [if_pos hidx] at h
    have hfit := slotIndex_fits size h0 hlt hidx
    simp only [] at h
    split at h
    · cases h; exact hfit
    · by_cases hrem : s.remaining ≥ slotSize (slotIndex size)
      · rw [if_pos hrem] at h
        cases h; exact hfit
      · rw [if_neg hrem] at h
        generalize allocOneshotSlow (leftover 64 s s.remaining) (slotSize (slotIndex size)) = q at h
        rcases q with ⟨s2, _ | p2⟩
        · simp at h
        · simp only [Prod.mk.injEq] at h
          obtain ⟨_, _, rfl⟩ := h
          exact hfit
  · rw [if_neg hidx] at h
    by_cases h1 : size ≥ u64 - 1 - 24
    · rw [if_pos h1] at h; simp at h
    · rw [if_neg h1] at h
      by_cases h2 : size + 24 > s.mallocMax
      · rw [if_pos h2] at h; simp at h
      · rw [if_neg h2] at h
        cases h
        exact Nat.le_refl _

end AsmjitVerif.Arena
