/- C06 part 2 – integer arguments in GP registers satisfy every hypothesis of `shuffle_correct_regs` (x86 and AArch64). -/
import AsmjitVerif.Lemmas.C06ShuffleTop
import AsmjitVerif.Lemmas.C06ShuffleSel
namespace AsmjitVerif.C06S
open AsmjitVerif.CallConv AsmjitVerif.Shuffle AsmjitVerif.Machine

/-- the judgement of a selected move reads the variable table only at the token's variable -/
theorem moveOkAt_single (cfg : Cfg) (vis : List VarInfo) (i : Nat) (vi : VarInfo) (h : vis[i]? = some vi)
    (rtD tD rtS tS : Nat) (sv dv : Bool) (d s : Nat) :
    moveOkAt cfg vis rtD tD rtS tS ⟨i, sv, dv⟩ d s = moveOkAt cfg [vi] rtD tD rtS tS ⟨0, sv, dv⟩ d s := by
  unfold moveOkAt
  simp only [moveTok_dv_single vis i vi h]

theorem moveOkAt_a64 (cfg : Cfg) (ha : cfg.arch = .a64) (vis : List VarInfo) (rtD tD rtS tS : Nat) (tok : Tok) (d s : Nat) :
    moveOkAt cfg vis rtD tD rtS tS tok d s = moveOkAt { arch := .a64 } vis rtD tD rtS tS tok d s := by
  unfold moveOkAt argMove
  simp only [ha, if_true]

/-- `moveOkAt` on AArch64 without register ids: judged on the selection `a64Sel` alone -/
def selOkTokA (vis : List VarInfo) (rtD tD rtS tS : Nat) (tok : Tok) : Bool :=
  match a64Sel rtD tD (.reg rtS) tS with
  | none => true
  | some m =>
    groupOf m.dstRt == groupOf rtD && groupOf (m.srcRt.getD rtS) == groupOf rtS && m.name != .xchg &&
      (match effect m.name m.dstRt (regBytes (m.srcRt.getD rtS)) with
       | some (k, c, w) => (moveTok vis tok k c w).dv
       | none => false)

theorem moveOkAt_a64_sel (cfg : Cfg) (harch : cfg.arch = .a64) (vis : List VarInfo) (rtD tD rtS tS : Nat) (tok : Tok) (d s : Nat) :
    moveOkAt cfg vis rtD tD rtS tS tok d s = selOkTokA vis rtD tD rtS tS tok := by
  unfold moveOkAt selOkTokA argMove a64ArgMove
  simp only [harch, if_true, Opnd.kind]
  cases a64Sel rtD tD (.reg rtS) tS with
  | none => rfl
  | some m =>
    cases hs : m.srcRt with
    | none => simp [MoveSel.apply, hs, Opnd.withSize] <;> rfl
    | some r => simp [MoveSel.apply, hs, Opnd.withRt, Opnd.withSize] <;> rfl

theorem selOkTokA_single (vis : List VarInfo) (i : Nat) (vi : VarInfo) (h : vis[i]? = some vi)
    (rtD tD rtS tS : Nat) (sv dv : Bool) :
    selOkTokA vis rtD tD rtS tS ⟨i, sv, dv⟩ = selOkTokA [vi] rtD tD rtS tS ⟨0, sv, dv⟩ := by
  unfold selOkTokA
  simp only [moveTok_dv_single vis i vi h]

/-- finite core for AArch64 (fix C06-13): for every integer type pair, 32/64-bit register views, the selected
    instruction (`mov` / `sxtb` / `sxth` / `sxtw` / `uxtb` / `uxth`) turns an initial token and a destination-form token into
    destination form -/
theorem a64_int_core : ∀ dt ∈ intTys, ∀ st ∈ intTys, ∀ rtD ∈ [5, 6], ∀ rtS ∈ [5, 6],
    selOkTokA [⟨st, dt⟩] rtD dt rtS st ⟨0, true, (⟨st, dt⟩ : VarInfo).required == .none⟩ = true ∧
    selOkTokA [⟨st, dt⟩] rtD dt rtD dt ⟨0, false, true⟩ = true ∧
    selOkTokA [⟨st, dt⟩] rtD dt rtD dt ⟨0, true, true⟩ = true := by
  decide +kernel

/-- `Hyp.first` / `Hyp.again` for every integer variable on AArch64, every register id -/
theorem a64_int_moves_ok (cfg : Cfg) (harch : cfg.arch = .a64) (vis : List VarInfo) (i dt st rtD rtS : Nat)
    (hdt : dt ∈ intTys) (hst : st ∈ intTys) (hrd : rtD ∈ [5, 6]) (hrs : rtS ∈ [5, 6]) (hvi : vis[i]? = some ⟨st, dt⟩) (d s : Nat) :
    moveOkAt cfg vis rtD dt rtS st (initTok vis i) d s = true ∧
    ∀ b, moveOkAt cfg vis rtD dt rtD dt ⟨i, b, true⟩ d s = true := by
  obtain ⟨h1, h2, h3⟩ := a64_int_core dt hdt st hst rtD hrd rtS hrs
  refine ⟨?_, fun b => ?_⟩
  · rw [moveOkAt_a64_sel cfg harch, initTok_single vis i _ hvi, selOkTokA_single vis i _ hvi]; exact h1
  · rw [moveOkAt_a64_sel cfg harch, selOkTokA_single vis i _ hvi]
    cases b
    · exact h2
    · exact h3

/-- every argument is a concrete integer in a 32- or 64-bit GP register wide enough for its type, and is assigned a register
    of that kind (a destination without TypeId takes the register's) -/
def IntRegs (vals : Vals) : Prop :=
  ∀ i, i < vals.length →
    (srcAt vals i).typeId ∈ intTys ∧ (srcAt vals i).regType ∈ [5, 6] ∧
    (patchRegDst (dstAt vals i)).typeId ∈ intTys ∧ (dstAt vals i).regType ∈ [5, 6] ∧
    tySize (srcAt vals i).typeId ≤ regBytes (srcAt vals i).regType ∧
    tySize (patchRegDst (dstAt vals i)).typeId ≤ regBytes (dstAt vals i).regType

theorem params_vis (cfg : Cfg) (f : FrameIn) (vals : Vals) (hr : RegOnly vals) (i : Nat) (hi : i < vals.length) :
    (paramsOf cfg f vals).vis[i]? = some ⟨(srcAt vals i).typeId, (patchRegDst (dstAt vals i)).typeId⟩ := by
  obtain ⟨hdd, hpair⟩ := hr.pair i hi
  have hg : vals.getD i dfltVal = vals[i] := by simp [List.getD_eq_getElem?_getD, hi]
  show (vals.map varInfoOf)[i]? = _
  rw [List.getElem?_map, List.getElem?_eq_getElem hi]
  simp only [Option.map_some, Option.some.injEq]
  have h2 : vals[i].2 = some (dstAt vals i) := by rw [← hg]; exact hdd
  have h1 : vals[i].1 = srcAt vals i := by unfold srcAt; rw [hg]
  unfold varInfoOf
  rw [h2]
  simp only [h1, patchRegDst, hpair.dstReg, if_true]
  by_cases h0 : (dstAt vals i).typeId = 0 <;> simp [h0]

theorem int8_facts : ∀ t ∈ intTys, isInt t = true ∧ isAbstract t = false := by decide

theorem int_done_none : ∀ dt ∈ intTys, ∀ st ∈ intTys, (dt = 0 || st = 0 || decide (tySize dt ≤ tySize st)) = true →
    ((⟨st, dt⟩ : VarInfo).required == .none) = true := by decide +kernel

theorem group_gp {rt : Nat} (h : rt ∈ [5, 6]) : groupOf rt = 0 := by
  simp at h; rcases h with rfl | rfl <;> decide

theorem doneInitOk_of_int (vals : Vals) (hr : RegOnly vals) (hint : IntRegs vals) : DoneInitOk vals := by
  intro i hi hdone
  obtain ⟨hst, _, hdt, hrd, _, _⟩ := hint i hi
  have hvis := params_vis { arch := .x64 } ⟨false, false, 0, 0, 0, [], []⟩ vals hr i hi
  have hvis' : (vals.map varInfoOf)[i]? = some ⟨(srcAt vals i).typeId, (patchRegDst (dstAt vals i)).typeId⟩ := hvis
  rw [initTok_single _ i _ hvis']
  simp only [doneAtInit, group_gp hrd, ne_eq, not_true_eq_false, if_false, Bool.and_eq_true] at hdone
  exact int_done_none _ hdt _ hst hdone.2

theorem hyp_of_int (cfg : Cfg) (hcfg : cfg ∈ x86Cfgs ∨ cfg.arch = .a64) (f : FrameIn) (vals : Vals) (hr : RegOnly vals)
    (hint : IntRegs vals) : Hyp (paramsOf cfg f vals) := by
  have hmoves : ∀ i, i < vals.length → ∀ d s,
      moveOkAt cfg (paramsOf cfg f vals).vis ((paramsOf cfg f vals).out i).regType ((paramsOf cfg f vals).out i).typeId
        ((paramsOf cfg f vals).src i).regType ((paramsOf cfg f vals).src i).typeId (initTok (paramsOf cfg f vals).vis i) d s = true ∧
      ∀ b, moveOkAt cfg (paramsOf cfg f vals).vis ((paramsOf cfg f vals).out i).regType ((paramsOf cfg f vals).out i).typeId
        ((paramsOf cfg f vals).out i).regType ((paramsOf cfg f vals).out i).typeId ⟨i, b, true⟩ d s = true := by
    intro i hi d s
    obtain ⟨hst, hrs, hdt, hrd, _, _⟩ := hint i hi
    rw [params_src cfg f vals i hi, params_out cfg f vals i hi, patch_regType]
    rcases hcfg with hc | hc
    · exact x86_int_moves_ok cfg hc _ i _ _ _ _ hdt hst hrd hrs (params_vis cfg f vals hr i hi) d s
    · exact a64_int_moves_ok cfg hc _ i _ _ _ _ hdt hst hrd hrs (params_vis cfg f vals hr i hi) d s
  refine ⟨fun i d s hi _ _ _ => (hmoves i hi d s).1, fun i d s b hi _ _ => (hmoves i hi d s).2 b, ?_, ?_⟩
  · intro i hi
    have hi' : i < vals.length := hi
    rw [params_src cfg f vals i hi', params_out cfg f vals i hi']
    exact params_vis cfg f vals hr i hi'
  · intro i hi _ _
    have hi' : i < vals.length := hi
    obtain ⟨hst, hrs, hdt, hrd, hs1, hs2⟩ := hint i hi'
    rw [params_src cfg f vals i hi', params_out cfg f vals i hi', patch_regType]
    exact ⟨(int8_facts _ hst).1, (int8_facts _ hst).2, (int8_facts _ hdt).1, (int8_facts _ hdt).2, hs1, hs2⟩

/-- **integer arguments in GP registers, x86 (32/64-bit, SSE/AVX/AVX-512) and AArch64, every assignment**: nothing is assumed about the
    move selection or about exchanges any more (fixes C06-12 and C06-13) -/
theorem shuffle_correct_int_regs (cfg : Cfg) (hcfg : cfg ∈ x86Cfgs ∨ cfg.arch = .a64) (f : FrameIn) (vals : Vals)
    (hr : RegOnly vals) (hint : IntRegs vals) (hok : (emitArgsAssignment cfg f 255 vals).1 = none) :
    judge cfg.arch f vals (emitArgsAssignment cfg f 255 vals).2 = some true :=
  shuffle_correct_regs cfg f vals hr (doneInitOk_of_int vals hr hint) (hyp_of_int cfg hcfg f vals hr hint) hok

end AsmjitVerif.C06S
