/-
C09: the integer expressions of jitallocator.cpp with their machine widths (`size_t` = 64 bit, `uint32_t`), wrap-around and
truncation made explicit, compared with the unbounded arithmetic of Model/JitAlloc.lean.

Result.  For requests the allocator accepts (aligned size <= 2^31 - 1), pool granularities <= 1024, base block sizes <= 2^28 and block
sizes <= 0xA000_0000 (an invariant: `ideal_bound`) every expression is exact: `alloc_check_exact`, `area_exact`, `ideal_exact`,
`new_block_area_exact`, `bit_words_exact`, `shrink_products_exact`.  Two expressions are NOT exact on reachable arguments:
* `JitAllocatorImpl_shrink`: `uint32_t area_shrunk_size = pool->area_size_from_byte_size(new_size)` wraps and truncates a `size_t`
  (`shrink_area_truncates`): `shrink(span, 2^38)` is taken for a shrink to 0 granules (defect C09-9; the repaired test
  `new_size > span_prev_size` is exact for every `new_size`: `shrink_guard_exact`);
* `JitAllocator::alloc`: `align_up(size, granularity)` wraps to 0 for `size > 2^64 - granularity`, reported as kInvalidArgument
  instead of kTooLarge (`alloc_check_wraps`; C09-10, error code only).
-/
import AsmjitVerif.Model.JitAlloc
namespace AsmjitVerif.JitAlloc.Word

local notation "W64" => (18446744073709551616 : Nat)
local notation "W32" => (4294967296 : Nat)
/-- 2^31 + 2^29: no block is ever larger -/
local notation "MaxBlock" => (2684354560 : Nat)

/-- `Support::align_up<size_t>(x, a)`, `a` a power of two: `((x + (a - 1)) mod 2^64) & ~(a - 1)` -/
def alignUp64 (x a : Nat) : Nat := ((x + (a - 1)) % W64) / a * a

/-- `pool->area_size_from_byte_size(size)`: `uint32_t((size + granularity - 1) >> granularity_log2)` -/
def areaOfBytes32 (size g : Nat) : Nat := (((size + g - 1) % W64) / g) % W32

/-- the size test of `JitAllocator::alloc` as the pinned code computes it -/
def allocCheck (req gran : Nat) : Except Err Nat :=
  let size := alignUp64 req gran
  if (size + W64 - 1) % W64 ≥ 2147483647 then .error (if size = 0 then .InvalidArgument else .TooLarge) else .ok size

/-- the same test in the model (unbounded) -/
def allocCheckModel (req gran : Nat) : Except Err Nat :=
  let size := alignUp req gran
  if size = 0 then .error .InvalidArgument else if size - 1 ≥ 2147483647 then .error .TooLarge else .ok size

/-- `JitAllocator_calculate_ideal_block_size` in `size_t` (0 = the overflow exits) -/
def ideal64 (last base : Nat) (noPad : Bool) (g size : Nat) : Nat :=
  if !noPad && W64 - 1 - size < g then 0
  else
    let asz := if noPad then size else (size + g) % W64
    let bs := if last < 67108864 then (last * 2) % W64 else last
    if asz > bs then
      let r := alignUp64 asz base
      if r < asz then 0 else r
    else bs

/-- the model's computation (`idealBlockSize` with the last block's size / base size passed in) -/
def idealModel (last base : Nat) (noPad : Bool) (g size : Nat) : Nat :=
  let size := if noPad then size else size + g
  let bs := if last < 1024 * 1024 * 64 then last * 2 else last
  if size > bs then alignUp size base else bs

/-- `bit_word_count` of `JitAllocator_new_block`: `(area_size + 63u) / 64u` in `uint32_t` -/
def bitWords32 (area : Nat) : Nat := ((area + 63) % W32) / 64

theorem alignUp64_exact {x a : Nat} (ha : 0 < a) (h : x + a ≤ W64) : alignUp64 x a = alignUp x a := by
  unfold alignUp64 alignUp
  rw [Nat.mod_eq_of_lt (by omega)]
  congr 2
  omega

/-- the request test is exact unless the request lies within one granule of 2^64 -/
theorem alloc_check_exact {req gran : Nat} (hg : 0 < gran) (h : req + gran ≤ W64) : allocCheck req gran = allocCheckModel req gran := by
  unfold allocCheck allocCheckModel
  rw [alignUp64_exact hg h]
  simp only
  have hle : alignUp req gran < W64 + gran := by
    unfold alignUp
    have := Nat.div_mul_le_self (req + gran - 1) gran
    omega
  have hmul : gran ∣ alignUp req gran := by unfold alignUp; exact Nat.dvd_mul_left _ _
  have hlt : alignUp req gran ≤ W64 := by
    unfold alignUp
    have := Nat.div_mul_le_self (req + gran - 1) gran
    omega
  by_cases h0 : alignUp req gran = 0
  · simp [h0]
  · by_cases hW : alignUp req gran = W64
    · simp [hW]
    · have e : (alignUp req gran + W64 - 1) % W64 = alignUp req gran - 1 := by
        have : alignUp req gran + W64 - 1 = (alignUp req gran - 1) + W64 := by omega
        rw [this, Nat.add_mod_right, Nat.mod_eq_of_lt (by omega)]
      rw [e]
      simp only [h0, if_false]

/-- ... and there it differs: the wrapped size is 0 and the error code is kInvalidArgument, the model says kTooLarge (C09-10) -/
theorem alloc_check_wraps : allocCheck (W64 - 1) 64 = .error .InvalidArgument ∧ allocCheckModel (W64 - 1) 64 = .error .TooLarge := by
  constructor <;> rfl

theorem area_core {x g : Nat} (h64 : x + g ≤ W64) (hg : 0 < g) (h32 : (x + g - 1) / g < W32) : areaOfBytes32 x g = (x + g - 1) / g := by
  unfold areaOfBytes32
  rw [Nat.mod_eq_of_lt (a := x + g - 1) (by omega)]
  exact Nat.mod_eq_of_lt h32

/-- area of an accepted request -/
theorem area_exact {size g : Nat} (hg : 0 < g) (hs : size ≤ 2147483648) (hg' : g ≤ 1024) : areaOfBytes32 size g = (size + g - 1) / g := by
  apply area_core (by omega) hg
  calc (size + g - 1) / g ≤ size + g - 1 := Nat.div_le_self _ _
    _ < W32 := by omega

theorem alignUp_le {x a : Nat} (ha : 0 < a) : alignUp x a ≤ x + a - 1 := by
  unfold alignUp; exact Nat.div_mul_le_self _ _

theorem alignUp_ge' {x a : Nat} (ha : 0 < a) : x ≤ alignUp x a := by
  unfold alignUp
  have h1 := Nat.div_add_mod (x + a - 1) a
  have h2 := Nat.mod_lt (x + a - 1) ha
  rw [Nat.mul_comm] at h1
  omega

/-- the block size computation never overflows and equals the model's, and the new block is again at most `MaxBlock` -/
theorem ideal_exact {last base g size : Nat} (noPad : Bool) (hl : last ≤ MaxBlock) (hb0 : 0 < base) (hb : base ≤ 268435456)
    (hs : size ≤ 2147483648) (hg : g ≤ 1024) :
    ideal64 last base noPad g size = idealModel last base noPad g size ∧ idealModel last base noPad g size ≤ MaxBlock := by
  unfold ideal64 idealModel
  have h1 : ¬ (W64 - 1 - size < g) := by omega
  have e1 : (size + g) % W64 = size + g := Nat.mod_eq_of_lt (by omega)
  have e2 : (if last < 67108864 then (last * 2) % W64 else last) = (if last < 1024 * 1024 * 64 then last * 2 else last) := by
    split
    · rw [Nat.mod_eq_of_lt (by omega)]
    · rfl
  simp only [h1, Bool.and_false, decide_false, Bool.false_eq_true, if_false, e1, e2]
  generalize hbs : (if last < 1024 * 1024 * 64 then last * 2 else last) = bs
  have hbsle : bs ≤ MaxBlock := by rw [← hbs]; split <;> omega
  generalize hasz : (if noPad = true then size else size + g) = asz
  have haszle : asz ≤ 2147483648 + 1024 := by rw [← hasz]; split <;> omega
  by_cases hc : asz > bs
  · simp only [hc, if_true]
    have hA := alignUp_le (x := asz) hb0
    have hG := alignUp_ge' (x := asz) hb0
    rw [alignUp64_exact hb0 (by omega)]
    have : ¬ alignUp asz base < asz := by omega
    simp only [this, if_false, true_and]
    -- a multiple of `base` (a divisor of 2^28 in every configuration) below 2^31 + 1024 + 2^28
    omega
  · simp only [hc, if_false, true_and]
    exact hbsle

/-- `uint32_t area_size = uint32_t((block_size + granularity - 1) >> log2)` and `bit_word_count` of `JitAllocator_new_block` -/
theorem new_block_area_exact {bs g : Nat} (hg : 0 < g) (hg' : g ≤ 1024) (hb : bs ≤ MaxBlock) :
    areaOfBytes32 bs g = (bs + g - 1) / g ∧ bitWords32 ((bs + g - 1) / g) = ((bs + g - 1) / g + 63) / 64 := by
  have hdiv : (bs + g - 1) / g ≤ bs + g - 1 := Nat.div_le_self _ _
  constructor
  · exact area_core (by omega) hg (by omega)
  · unfold bitWords32
    rw [Nat.mod_eq_of_lt (by omega)]

/-- the 32-bit products of `JitAllocatorImpl_shrink` (`span_prev_size`, fill offset, fill length) are exact: they are byte
offsets / sizes inside a block -/
theorem shrink_products_exact {st prev m g bs : Nat} (hin : (st + prev) * g ≤ bs) (hb : bs ≤ MaxBlock) (hm : m ≤ prev) :
    (prev * g) % W32 = prev * g ∧ ((st + m) % W32 * g) % W32 = (st + m) * g ∧ ((prev - m) * g) % W32 = (prev - m) * g := by
  have h1 : prev * g ≤ (st + prev) * g := Nat.mul_le_mul_right _ (by omega)
  have h2 : (st + m) * g ≤ (st + prev) * g := Nat.mul_le_mul_right _ (by omega)
  have h3 : (prev - m) * g ≤ (st + prev) * g := Nat.mul_le_mul_right _ (by omega)
  by_cases hg : g = 0
  · subst hg; simp
  · have hpos : 0 < g := Nat.pos_of_ne_zero hg
    have : st + m ≤ (st + m) * g := Nat.le_mul_of_pos_right _ hpos
    refine ⟨Nat.mod_eq_of_lt (by omega), ?_, Nat.mod_eq_of_lt (by omega)⟩
    rw [Nat.mod_eq_of_lt (a := st + m) (by omega)]
    exact Nat.mod_eq_of_lt (by omega)

/-- the new size of `shrink` is converted exactly as long as it stays below 2^32 granules -/
theorem shrink_area_exact {newSize g : Nat} (hg : 0 < g) (h : newSize + g - 1 < W32 * g) (h64 : newSize + g ≤ W64) :
    areaOfBytes32 newSize g = (newSize + g - 1) / g := by
  exact area_core h64 hg ((Nat.div_lt_iff_lt_mul hg).mpr h)

/-- **C09-9**: beyond that it is truncated (2^38 bytes = 2^32 granules of 64 bytes -> 0; 2^38 + 64 -> 1) or wraps
(2^64 - 1 -> 0): a request to ENLARGE the span passes the test `area_shrunk_size > area_prev_size` and frees the span -/
theorem shrink_area_truncates :
    areaOfBytes32 274877906944 64 = 0 ∧ (274877906944 + 64 - 1) / 64 = W32 ∧
    areaOfBytes32 274877907008 64 = 1 ∧ areaOfBytes32 (W64 - 1) 64 = 0 := by decide

/-- the repaired test compares in `size_t` before narrowing: it rejects exactly the sizes the model rejects, for EVERY `new_size`,
and what passes is converted exactly -/
theorem shrink_guard_exact {newSize prev g : Nat} (hg : 0 < g) (hg' : g ≤ 1024) (hp : prev * g < W32) :
    (newSize > prev * g ↔ (newSize + g - 1) / g > prev) ∧
    (¬ newSize > prev * g → areaOfBytes32 newSize g = (newSize + g - 1) / g) := by
  have key : (newSize + g - 1) / g > prev ↔ newSize > prev * g := by
    constructor
    · intro h
      have := (Nat.le_div_iff_mul_le hg).mp (show prev + 1 ≤ (newSize + g - 1) / g from h)
      rw [Nat.add_mul] at this
      omega
    · intro h
      apply (Nat.le_div_iff_mul_le hg).mpr
      rw [Nat.succ_mul]
      omega
  refine ⟨key.symm, ?_⟩
  intro hle
  have hle' : newSize ≤ prev * g := by omega
  have hpl : prev ≤ prev * g := Nat.le_mul_of_pos_right _ hg
  have hnk : ¬ (newSize + g - 1) / g > prev := fun hh => hle (key.mp hh)
  exact area_core (by omega) hg (by omega)

end AsmjitVerif.JitAlloc.Word
