/- C15 helper lemmas, part 2: every answer other than out-of-memory refines the failure-free spec (per operation). -/
import AsmjitVerif.Lemmas.Fault
namespace AsmjitVerif.Fault
open AsmjitVerif
set_option maxHeartbeats 800000


theorem insertIdx_takeWhile (p : Nat → Bool) (x : Nat) : ∀ l : List Nat,
    l.insertIdx (l.takeWhile p).length x = insertSorted p x l
  | [] => by simp [insertSorted]
  | y :: r => by
    by_cases hp : p y = true
    · simp [hp, insertSorted, insertIdx_takeWhile p x r]
    · simp [hp, insertSorted]

theorem commitSection_eq_spec (v : View) (nm : List Nat) (al : Nat) (ord : Int) :
    commitSection v nm al ord = specNewSection v nm al ord := by
  unfold commitSection specNewSection orderPos
  simp only
  congr 1
  exact insertIdx_takeWhile _ _ _

macro "ref_tac" h:ident : tactic =>
  `(tactic| (repeat' split at $h:ident) <;> (first | (cases $h:ident; done) | (cases $h:ident; simp_all [specStep]; done) | skip))

theorem newSection_ref (o o' : Oracle) (s s' : St) (nm : List Nat) (al : Nat) (ord : Int) (e : Err)
    (h : newSection o s nm al ord = (o', s', e)) (he : e ≠ .oom) :
    (s'.v, e) = specStep (.newSection nm al ord) s.v := by
  unfold newSection at h
  repeat' split at h
  all_goals (first | (cases h; simp at he; done) | (cases h; simp [specStep, commitSection_eq_spec, *]; done) | skip)

theorem newLabel_ref (o o' : Oracle) (s s' : St) (e : Err)
    (h : newLabel o s = (o', s', e)) (he : e ≠ .oom) : (s'.v, e) = specStep .newLabel s.v := by
  unfold newLabel at h
  repeat' split at h
  all_goals (first | (cases h; simp at he; done) | (cases h; simp [specStep, *]; done) | skip)

theorem newNamed_ref (o o' : Oracle) (s s' : St) (nm : List Nat) (t p : Nat) (e : Err)
    (h : newNamed o s nm t p = (o', s', e)) (he : e ≠ .oom) : (s'.v, e) = specStep (.newNamed nm t p) s.v := by
  unfold newNamed at h
  repeat' split at h
  all_goals (first | (cases h; simp at he; done) | (cases h; simp [specStep, specNewNamed, *]; done) | (cases h; simp_all [specStep, specNewNamed]; done) | skip)

macro "ref_all" h:ident he:ident : tactic =>
  `(tactic| (repeat' split at $h:ident) <;>
     (first | (cases $h:ident; simp at $he:ident; done) | (cases $h:ident; simp [specStep, *]; done) | skip))

theorem newReloc_ref (o o' : Oracle) (s s' : St) (t : Nat) (e : Err)
    (h : newReloc o s t = (o', s', e)) (he : e ≠ .oom) : (s'.v, e) = specStep (.newReloc t) s.v := by
  unfold newReloc at h; ref_all h he

theorem newFixup_ref (o o' : Oracle) (s s' : St) (e : Err)
    (h : newFixup o s = (o', s', e)) (he : e ≠ .oom) : (s'.v, e) = specStep .newFixup s.v := by
  unfold newFixup at h; ref_all h he

theorem freeFixup_ref (o o' : Oracle) (s s' : St) (e : Err)
    (h : freeFixup o s = (o', s', e)) (he : e ≠ .oom) : (s'.v, e) = specStep .freeFixup s.v := by
  unfold freeFixup at h; ref_all h he

theorem emit_ref (o o' : Oracle) (s s' : St) (a b : Nat) (e : Err)
    (h : emit o s a b = (o', s', e)) (he : e ≠ .oom) : (s'.v, e) = specStep (.emit a b) s.v := by
  unfold emit at h; ref_all h he

theorem inst_ref (o o' : Oracle) (s s' : St) (a b : Nat) (e : Err)
    (h : inst o s a b = (o', s', e)) (he : e ≠ .oom) : (s'.v, e) = specStep (.inst a b) s.v := by
  unfold inst at h; ref_all h he

theorem jmpf_ref (o o' : Oracle) (s s' : St) (a : Nat) (e : Err)
    (h : jmpf o s a = (o', s', e)) (he : e ≠ .oom) : (s'.v, e) = specStep (.jmpf a) s.v := by
  unfold jmpf at h; ref_all h he

theorem vappend_ref (o o' : Oracle) (s s' : St) (x : Nat) (e : Err)
    (h : vappend o s x = (o', s', e)) (he : e ≠ .oom) : (s'.v, e) = specStep (.vappend x) s.v := by
  unfold vappend at h; ref_all h he

theorem vreserve_ref (o o' : Oracle) (s s' : St) (x : Nat) (e : Err)
    (h : vreserve o s x = (o', s', e)) (he : e ≠ .oom) : (s'.v, e) = specStep (.vreserve x) s.v := by
  unfold vreserve at h; ref_all h he

theorem sappend_ref (o o' : Oracle) (s s' : St) (a b : Nat) (e : Err)
    (h : sappend o s a b = (o', s', e)) (he : e ≠ .oom) : (s'.v, e) = specStep (.sappend a b) s.v := by
  unfold sappend at h; ref_all h he

theorem newReloc_ref' (o o' : Oracle) (s s' : St) (t : Nat) (e : Err)
    (h : newReloc o s t = (o', s', e)) (he : e ≠ .oom) : (s'.v, e) = specStep (.newReloc t) s.v := by
  unfold newReloc at h
  repeat' split at h
  all_goals (first | (cases h; simp at he; done) | (cases h; simp [specStep, *]; done) | skip)

theorem exprTail_ref (s : St) (sc : Section) (cap1 : Nat) (r : Oracle × St × Err) (o' : Oracle) (s' : St) (e : Err)
    (hsc : s.v.sections[0]? = some sc)
    (hr : r.2.2 ≠ .oom → r.2.2 = .ok)
    (h : exprTail s sc cap1 r = (o', s', e)) (he : e ≠ .oom) : (s'.v, e) = specStep .exprReloc s.v := by
  obtain ⟨o2, s2, e2⟩ := r
  unfold exprTail at h
  simp only at h hr
  split at h
  · cases h; exact absurd (hr he) (by assumption)
  · repeat' split at h
    all_goals (first | (cases h; simp at he; done) | (cases h; simp [specStep, hsc]; done) | skip)

theorem exprReloc_ref (o o' : Oracle) (s s' : St) (e : Err)
    (h : exprReloc o s = (o', s', e)) (he : e ≠ .oom) : (s'.v, e) = specStep .exprReloc s.v := by
  unfold exprReloc at h
  repeat' split at h
  all_goals (first | (cases h; simp at he; done) | (cases h; simp [specStep, *]; done) | skip)
  rename_i sc hsc _ o1 cap1 _
  refine exprTail_ref _ _ _ _ _ _ _ hsc ?_ h he
  intro hne
  generalize hnr : newReloc _ _ _ = r at hne ⊢
  obtain ⟨o2, s2, e2⟩ := r
  have := newReloc_ref' _ _ _ _ _ _ hnr hne
  simp [specStep] at this
  exact this.2

/-- the view after `ensure_address_table_section()` succeeded -/
def withAddrTab (v : View) : View :=
  { commitSection v [46, 97, 100, 100, 114, 116, 97, 98] 8 2147483647 with addrTab := some v.sections.length }

theorem newSection_ok_view (o o1 : Oracle) (s s1 : St) (nm : List Nat) (al : Nat) (ord : Int)
    (h : newSection o s nm al ord = (o1, s1, .ok)) : s1.v = commitSection s.v nm al ord := by
  unfold newSection at h
  repeat' split at h
  all_goals (first | (cases h; done) | (cases h; rfl) | skip)

theorem newSection_err_view (o o1 : Oracle) (s s1 : St) (nm : List Nat) (al : Nat) (ord : Int) (e : Err)
    (h : newSection o s nm al ord = (o1, s1, e)) (he : e ≠ .ok) : s1.v = s.v := by
  unfold newSection at h
  repeat' split at h
  all_goals (first | (cases h; rfl) | (cases h; simp at he) | skip)

/-- `ensure_address_table_section()`: null and nothing new; or the existing section; or the new, empty one -/
theorem ensureAddrTab_spec (o : Oracle) (s : St) :
    ((ensureAddrTab o s).2.2 = none ∧ (ensureAddrTab o s).2.1.v = s.v ∧ s.v.addrTab = none) ∨
    (∃ id, (ensureAddrTab o s).2.2 = some id ∧ s.v.addrTab = some id ∧ (ensureAddrTab o s).2.1.v = s.v) ∨
    ((ensureAddrTab o s).2.2 = some s.v.sections.length ∧ s.v.addrTab = none ∧
      (ensureAddrTab o s).2.1.v = withAddrTab s.v) := by
  unfold ensureAddrTab
  split
  · rename_i id hat; right; left; exact ⟨id, rfl, hat, rfl⟩
  · rename_i hat
    generalize hns : newSection o s _ 8 2147483647 = r
    obtain ⟨o1, s1, e⟩ := r
    unfold ensureTail
    by_cases he : e = .ok
    · subst he
      right; right
      simp [withAddrTab, newSection_ok_view _ _ _ _ _ _ _ hns, hat]
    · left
      simp [he, hat, newSection_err_view _ _ _ _ _ _ _ _ hns he]

theorem addAddr_ref (o o' : Oracle) (s s' : St) (a : Nat) (e : Err)
    (h : addAddr o s a = (o', s', e)) (he : e ≠ .oom) : (s'.v, e) = specStep (.addAddr a) s.v := by
  unfold addAddr at h
  split at h
  · rename_i hc; cases h; simp only [specStep, specAddAddr, hc, if_true]
  · rename_i hc
    have hc' : ¬ a ∈ s.v.addrs := by simpa using hc
    have hs := ensureAddrTab_spec o s
    generalize ensureAddrTab o s = r at h hs
    obtain ⟨o1, s1, oid⟩ := r
    unfold addAddrTail at h
    simp only at h hs
    rcases hs with ⟨rfl, _, _⟩ | ⟨id, rfl, hat, hv⟩ | ⟨rfl, hat, hv⟩
    · simp only at h; cases h; simp at he
    · simp only at h
      split at h
      · cases h; simp at he
      · cases h; simp [specStep, specAddAddr, hc', hat, hv]
    · simp only at h
      split at h
      · cases h; simp at he
      · cases h
        simp [specStep, specAddAddr, hc', hat, hv, withAddrTab, commitSection_eq_spec]

end AsmjitVerif.Fault
