/-
C18 — ArenaTree::remove, part 2: one iteration of the push-down loop, case by case, as heap equations.
-/
import AsmjitVerif.Lemmas.C18TreeRem
namespace AsmjitVerif.Tree.Rem
open AsmjitVerif.Tree AsmjitVerif.Tree.Spec

/-- the body of one iteration of `removeLoop` (after the loop test) -/
def stepState (node : Nat) (s : RmState) : RmState :=
    let last := s.dir
    let g := s.p
    let p := s.q
    let q := child s.t s.q s.dir
    let t := s.t
    let dir := decide (key t q < key t node)
    let (f, gf) := if q = node then (q, g) else (s.f, s.gf)
    let (t, p) :=
      if !isRed t q && !isRed t (child t q dir) then
        if isRed t (child t q (!dir)) then
          let (t, c) := singleRotate t q dir
          (setChild t p last c, c)
        else if child t p (!last) ≠ 0 then
          let s' := child t p (!last)
          if !isRed t (child t s' (!last)) && !isRed t (child t s' last) then
            (makeRed (makeRed (makeBlack t p) s') q, p)
          else
            let dir2 := child t g true == p
            let c0 := child t g dir2
            let (t, c) :=
              if isRed t (child t s' last) then
                let (t, c) := doubleRotate t p last
                (setChild t g dir2 c, c)
              else if isRed t (child t s' (!last)) then
                let (t, c) := singleRotate t p last
                (setChild t g dir2 c, c)
              else (t, c0)
            let t := makeRed t q
            let t := makeRed t c
            let t := makeBlack t (child t c false)
            let t := makeBlack t (child t c true)
            (t, p)
        else (t, p)
      else (t, p)
    { t := t, g := g, p := p, q := q, f := f, gf := gf, dir := dir }

theorem removeLoop_succ (fuel node : Nat) (s : RmState) :
    removeLoop (fuel + 1) node s = if child s.t s.q s.dir = 0 then s else removeLoop fuel node (stepState node s) := rfl

theorem removeLoop_zero (node : Nat) (s : RmState) : removeLoop 0 node s = s := rfl

section cases
variable (node : Nat) (st : RmState)

theorem step_q : (stepState node st).q = child st.t st.q st.dir := rfl
theorem step_g : (stepState node st).g = st.p := rfl
theorem step_dir : (stepState node st).dir = decide (key st.t (child st.t st.q st.dir) < key st.t node) := rfl
theorem step_f : (stepState node st).f = if child st.t st.q st.dir = node then child st.t st.q st.dir else st.f := by
  simp only [stepState]; split <;> rfl
theorem step_gf : (stepState node st).gf = if child st.t st.q st.dir = node then st.p else st.gf := by
  simp only [stepState]; split <;> rfl

/-- no restructuring -/
theorem step_noop (q : Nat) (d : Bool) (hq : child st.t st.q st.dir = q) (hd : decide (key st.t q < key st.t node) = d)
    (hc : (!isRed st.t q && !isRed st.t (child st.t q d)) = false ∨
          (isRed st.t (child st.t q (!d)) = false ∧ child st.t st.q (!st.dir) = 0)) :
    (stepState node st).t = st.t ∧ (stepState node st).p = st.q := by
  simp only [stepState, hq, hd]
  rcases hc with hc | ⟨h1, h2⟩
  · simp [hc]
  · simp [h1, h2]

/-- red sibling child of `q`: single rotation at `q` -/
theorem step_rot (q : Nat) (d : Bool) (hq : child st.t st.q st.dir = q) (hd : decide (key st.t q < key st.t node) = d)
    (h1 : isRed st.t q = false) (h2 : isRed st.t (child st.t q d) = false) (h3 : isRed st.t (child st.t q (!d)) = true) :
    (stepState node st).t = setChild (singleRotate st.t q d).1 st.q st.dir (singleRotate st.t q d).2 ∧
    (stepState node st).p = (singleRotate st.t q d).2 := by
  simp only [stepState, hq, hd]
  simp [h1, h2, h3]

/-- colour flip -/
theorem step_flip (q : Nat) (d : Bool) (s : Nat) (hq : child st.t st.q st.dir = q) (hd : decide (key st.t q < key st.t node) = d)
    (h1 : isRed st.t q = false) (h2 : isRed st.t (child st.t q d) = false) (h3 : isRed st.t (child st.t q (!d)) = false)
    (hs : child st.t st.q (!st.dir) = s) (hs0 : s ≠ 0)
    (h4 : isRed st.t (child st.t s (!st.dir)) = false) (h5 : isRed st.t (child st.t s st.dir) = false) :
    (stepState node st).t = makeRed (makeRed (makeBlack st.t st.q) s) q ∧ (stepState node st).p = st.q := by
  simp only [stepState, hq, hd, hs]
  simp [h1, h2, h3, h4, h5, hs0]

/-- sibling has a red near child: double rotation at `p` -/
theorem step_dbl (q : Nat) (d : Bool) (s : Nat) (hq : child st.t st.q st.dir = q) (hd : decide (key st.t q < key st.t node) = d)
    (h1 : isRed st.t q = false) (h2 : isRed st.t (child st.t q d) = false) (h3 : isRed st.t (child st.t q (!d)) = false)
    (hs : child st.t st.q (!st.dir) = s) (hs0 : s ≠ 0)
    (h5 : isRed st.t (child st.t s st.dir) = true) (dir2 : Bool) (hd2 : (child st.t st.p true == st.q) = dir2) :
    let t1 := (doubleRotate st.t st.q st.dir).1
    let c := (doubleRotate st.t st.q st.dir).2
    let t2 := setChild t1 st.p dir2 c
    let t3 := makeRed (makeRed t2 q) c
    let t4 := makeBlack t3 (child t3 c false)
    (stepState node st).t = makeBlack t4 (child t4 c true) ∧ (stepState node st).p = st.q := by
  simp only [stepState, hq, hd, hs, hd2]
  simp [h1, h2, h3, h5, hs0]

/-- sibling has a red far child only: single rotation at `p` -/
theorem step_sgl (q : Nat) (d : Bool) (s : Nat) (hq : child st.t st.q st.dir = q) (hd : decide (key st.t q < key st.t node) = d)
    (h1 : isRed st.t q = false) (h2 : isRed st.t (child st.t q d) = false) (h3 : isRed st.t (child st.t q (!d)) = false)
    (hs : child st.t st.q (!st.dir) = s) (hs0 : s ≠ 0)
    (h5 : isRed st.t (child st.t s st.dir) = false) (h4 : isRed st.t (child st.t s (!st.dir)) = true)
    (dir2 : Bool) (hd2 : (child st.t st.p true == st.q) = dir2) :
    let t1 := (singleRotate st.t st.q st.dir).1
    let c := (singleRotate st.t st.q st.dir).2
    let t2 := setChild t1 st.p dir2 c
    let t3 := makeRed (makeRed t2 q) c
    let t4 := makeBlack t3 (child t3 c false)
    (stepState node st).t = makeBlack t4 (child t4 c true) ∧ (stepState node st).p = st.q := by
  simp only [stepState, hq, hd, hs, hd2]
  simp [h1, h2, h3, h4, h5, hs0]

end cases

/-! ### the abstract push-down step on (context, subtree) -/

def _root_.AsmjitVerif.Tree.Spec.T.key : T → Nat
  | .nil => 0
  | .node _ k _ _ _ => k
def _root_.AsmjitVerif.Tree.Spec.T.setRed : T → Bool → T
  | .nil, _ => .nil
  | .node i k _ l r, b => .node i k b l r
def _root_.AsmjitVerif.Tree.Spec.T.isNil : T → Bool
  | .nil => true
  | _ => false
/-- in-order (index, key) list -/
def _root_.AsmjitVerif.Tree.Spec.T.io : T → List (Nat × Nat)
  | .nil => []
  | .node i k _ l r => l.io ++ (i, k) :: r.io

theorem _root_.AsmjitVerif.Tree.Spec.T.io_idxs (t : T) : t.io.map Prod.fst = t.idxs := by
  induction t with
  | nil => rfl
  | node i k c l r ihl ihr => simp [T.io, T.idxs, ihl, ihr]
theorem _root_.AsmjitVerif.Tree.Spec.T.io_keys (t : T) : t.io.map Prod.snd = t.keys := by
  induction t with
  | nil => rfl
  | node i k c l r ihl ihr => simp [T.io, T.keys, ihl, ihr]

theorem mkT_io (i k : Nat) (c d : Bool) (a b : T) :
    (mkT i k c d a b).io = if d then b.io ++ (i, k) :: a.io else a.io ++ (i, k) :: b.io := by
  cases d <;> simp [mkT, T.io]

theorem _root_.AsmjitVerif.Tree.Spec.T.eq_mkT (t : T) (hn : t.isNil = false) (d : Bool) :
    t = mkT t.rootIdx t.key t.isRed d (t.child d) (t.child (!d)) := by
  cases t with
  | nil => simp [T.isNil] at hn
  | node i k c l r => cases d <;> cases c <;> simp [mkT, T.rootIdx, T.key, T.isRed, T.child]

theorem plug_io_congr (ctx : List Frame) (s s' : T) (h : s.io = s'.io) : (plug ctx s).io = (plug ctx s').io := by
  induction ctx generalizing s s' with
  | nil => simpa [plug] using h
  | cons F up ih => simp only [plug]; apply ih; simp [mkT_io, h]

def absStep (kn : Nat) (ctx : List Frame) (S : T) : List Frame × T :=
  let q := S.rootIdx
  let k := S.key
  let c := S.isRed
  let d := decide (k < kn)
  let Sd := S.child d
  let So := S.child (!d)
  if !c && !Sd.isRed then
    if So.isRed then
      (⟨q, k, true, d, So.child d⟩ :: ⟨So.rootIdx, So.key, false, d, So.child (!d)⟩ :: ctx, Sd)
    else match ctx with
      | [] => (⟨q, k, c, d, So⟩ :: ctx, Sd)
      | P :: up =>
        let s := P.sib
        let last := P.d
        if s.isNil then (⟨q, k, c, d, So⟩ :: ctx, Sd)
        else if !(s.child (!last)).isRed && !(s.child last).isRed then
          (⟨q, k, true, d, So⟩ :: ⟨P.i, P.k, false, last, s.setRed true⟩ :: up, Sd)
        else if (s.child last).isRed then
          let x := s.child last
          (⟨q, k, true, d, So⟩ :: ⟨P.i, P.k, false, last, x.child last⟩ ::
            ⟨x.rootIdx, x.key, true, last, mkT s.rootIdx s.key false last (x.child (!last)) (s.child (!last))⟩ :: up, Sd)
        else
          let y := s.child (!last)
          (⟨q, k, true, d, So⟩ :: ⟨P.i, P.k, false, last, s.child last⟩ ::
            ⟨s.rootIdx, s.key, true, last, y.setRed false⟩ :: up, Sd)
  else (⟨q, k, c, d, So⟩ :: ctx, Sd)

theorem _root_.AsmjitVerif.Tree.Spec.T.isRed_notNil {t : T} (h : t.isRed = true) : t.isNil = false := by
  cases t <;> simp_all [T.isRed, T.isNil]

theorem _root_.AsmjitVerif.Tree.Spec.T.setRed_io (t : T) (b : Bool) : (t.setRed b).io = t.io := by cases t <;> rfl

theorem T.io_eq (t : T) (hn : t.isNil = false) :
    t.io = (t.child false).io ++ (t.rootIdx, t.key) :: (t.child true).io := by
  cases t with
  | nil => simp [T.isNil] at hn
  | node i k c l r => simp [T.io, T.child, T.rootIdx, T.key]

/-- the step keeps the in-order (index, key) sequence of the whole tree -/
theorem absStep_io (kn : Nat) (ctx : List Frame) (S : T) (hS : S.isNil = false) :
    (plug (absStep kn ctx S).1 (absStep kn ctx S).2).io = (plug ctx S).io := by
  simp only [absStep]
  generalize decide (S.key < kn) = d
  split
  · split
    · rename_i _ hr
      simp only [plug]; apply plug_io_congr
      rw [T.io_eq S hS]
      cases d
      · simp only [mkT_io, Bool.not_false]
        rw [T.io_eq (S.child true) (T.isRed_notNil hr)]; simp
      · simp only [mkT_io, Bool.not_true]
        rw [T.io_eq (S.child false) (T.isRed_notNil hr)]; simp
    · split
      · simp only [plug, mkT_io]; rw [T.io_eq S hS]; cases d <;> simp
      · rename_i P up
        split
        · simp only [plug]; apply plug_io_congr; simp only [mkT_io]; rw [T.io_eq S hS]; cases d <;> simp
        · rename_i hsn
          have hsn : P.sib.isNil = false := by simpa using hsn
          split
          · simp only [plug]; apply plug_io_congr; simp only [mkT_io]; rw [T.io_eq S hS]
            cases d <;> simp [T.setRed_io]
          · split
            · rename_i hx
              simp only [plug]; apply plug_io_congr
              simp only [mkT_io]
              rw [T.io_eq S hS, T.io_eq P.sib hsn]
              cases hl : P.d
              · rw [hl] at hx
                rw [T.io_eq (P.sib.child false) (T.isRed_notNil hx)]
                cases d <;> simp
              · rw [hl] at hx
                rw [T.io_eq (P.sib.child true) (T.isRed_notNil hx)]
                cases d <;> simp
            · simp only [plug]; apply plug_io_congr
              simp only [mkT_io]
              rw [T.io_eq S hS, T.io_eq P.sib hsn]
              cases hl : P.d <;> cases d <;> simp [T.setRed_io]
  · simp only [plug]; apply plug_io_congr; simp only [mkT_io]; rw [T.io_eq S hS]; cases d <;> simp

end AsmjitVerif.Tree.Rem
