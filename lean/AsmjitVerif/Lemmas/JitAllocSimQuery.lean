/- C09 refinement (model run ⊑ monitor): locating a byte offset in a block: padding granule or a unique live span. -/
import AsmjitVerif.Lemmas.JitAllocSimOcc
namespace AsmjitVerif.JitAlloc
open Spec

theorem Sim.block? {g : Ghost} {s : St} (hS : Sim g s) (hI : Inv s) {b : Block} (hb : b ∈ s.a.blocks) :
    g.block? b.id = some (toGB b) := by
  unfold Ghost.block?
  rw [hS.blocks, List.find?_map]
  have : (fun (x : GBlock) => x.id == b.id) ∘ toGB = fun (y : Block) => y.id == b.id := rfl
  rw [this, find_of_mem s.a.blocks hI.ids hb]
  rfl

theorem Sim.block?_none {g : Ghost} {s : St} (hS : Sim g s) {id : Nat} (h : s.a.findBlock id = none) : g.block? id = none := by
  unfold Ghost.block?
  rw [hS.blocks, List.find?_map]
  have : (fun (x : GBlock) => x.id == id) ∘ toGB = fun (y : Block) => y.id == id := rfl
  rw [this]
  unfold Alloc.findBlock at h
  rw [h]; rfl

theorem div_lt_of_lt_mul' {a b c : Nat} (h : a < b * c) : a / c < b := Nat.div_lt_of_lt_mul (by rwa [Nat.mul_comm] at h)

/-- the padding granule is found by `query` as a one-granule span -/
theorem pad_locate {b : Block} {S} (h : BCore b S) (hp : b.pad = true) :
    bit b.used 0 = true ∧ JitAlloc.indexOfStop b.stop 0 = 0 ∧ spanStart b.used b.stop 0 = 0 := by
  refine ⟨(h.used 0 h.area).mpr (Or.inl ⟨hp, rfl⟩), ?_, ?_⟩
  · apply indexOfStop_eq _ _ _ (Nat.le_refl _) (by rw [h.lenS]; exact h.area)
    · exact (h.stop 0 h.area).mpr (Or.inl ⟨hp, rfl⟩)
    · intro k h1 h2; omega
  · unfold spanStart; simp

/-- `query` of the model against the ghost's `spanAt` -/
theorem query_link {g : Ghost} {s : St} (hS : Sim g s) (hG : Good s) {b : Block} (hb : b ∈ s.a.blocks) (addr : Nat)
    (haddr : addr < b.blockSize) :
    (∀ sp, s.a.query b.id addr = .ok sp → g.spanAt b.id addr = some (sp.off, sp.size) ∧ sp.blk = b.id) ∧
    (∀ e, s.a.query b.id addr = .error e → g.spanAt b.id addr = none) := by
  have hI := hG.inv
  have hg := poolGran_pos hI.wf b.pool
  obtain ⟨hB, _⟩ := hI.blk b hb
  have hD := hG.div b hb
  have hidx : addr / s.a.cfg.poolGran b.pool < b.areaSize := by
    apply div_lt_of_lt_mul'; rw [hD.area]; exact haddr
  have hsa : g.spanAt b.id addr = (g.occupied (toGB b)).find? (fun (o, sz) => decide (o ≤ addr) && decide (addr < o + sz)) := by
    unfold Ghost.spanAt; rw [hS.block? hI hb]
  -- an occupied interval that contains `addr` is determined by the granule of `addr`
  have hdm := Nat.div_add_mod addr (s.a.cfg.poolGran b.pool)
  have hml := Nat.mod_lt addr hg
  generalize hq : addr / s.a.cfg.poolGran b.pool = q at hidx hdm
  generalize hr : addr % s.a.cfg.poolGran b.pool = r at hdm hml
  have contains_iff : ∀ st n : Nat, (st * s.a.cfg.poolGran b.pool ≤ addr ∧ addr < st * s.a.cfg.poolGran b.pool + n * s.a.cfg.poolGran b.pool) ↔
      (st ≤ q ∧ q < st + n) := by
    intro st n
    rw [← Nat.add_mul, ← hdm, Nat.mul_comm (s.a.cfg.poolGran b.pool) q]
    constructor
    · rintro ⟨h1, h2⟩
      constructor
      · by_cases c : st ≤ q
        · exact c
        · exfalso
          have : (q + 1) * s.a.cfg.poolGran b.pool ≤ st * s.a.cfg.poolGran b.pool := Nat.mul_le_mul_right _ (by omega)
          rw [Nat.add_mul] at this; omega
      · by_cases c : q < st + n
        · exact c
        · exfalso
          have : (st + n) * s.a.cfg.poolGran b.pool ≤ q * s.a.cfg.poolGran b.pool := Nat.mul_le_mul_right _ (by omega)
          omega
    · rintro ⟨h1, h2⟩
      constructor
      · have : st * s.a.cfg.poolGran b.pool ≤ q * s.a.cfg.poolGran b.pool := Nat.mul_le_mul_right _ h1
        omega
      · have : (q + 1) * s.a.cfg.poolGran b.pool ≤ (st + n) * s.a.cfg.poolGran b.pool := Nat.mul_le_mul_right _ (by omega)
        rw [Nat.add_mul] at this; omega
  have hpadc := hD.padc
  -- classification of the occupied intervals that contain `addr`
  have occ_cases : ∀ o sz, (o, sz) ∈ g.occupied (toGB b) → (decide (o ≤ addr) && decide (addr < o + sz)) = true →
      (b.pad = true ∧ q = 0 ∧ o = 0 ∧ sz = s.a.cfg.poolGran b.pool) ∨
      ∃ st n, Spans s.tab b.id (s.a.cfg.poolGran b.pool) st n ∧ st ≤ q ∧ q < st + n ∧
        o = st * s.a.cfg.poolGran b.pool ∧ sz = n * s.a.cfg.poolGran b.pool := by
    intro o sz hm hp
    simp only [Bool.and_eq_true, decide_eq_true_eq] at hp
    rcases (mem_occupied hS b o sz).mp hm with ⟨hn, rfl, rfl⟩ | ⟨x, hx, rfl, rfl⟩
    · left
      refine ⟨by rw [hpadc, hn]; rfl, ?_, rfl, rfl⟩
      have := (contains_iff 0 1).mp ⟨by omega, by omega⟩
      omega
    · right
      obtain ⟨st, n, hSp, o1, o2⟩ := liveIn_span hS hI hb hx
      rw [o1, o2] at hp
      have := (contains_iff st n).mp hp
      exact ⟨st, n, hSp, this.1, this.2, o1, o2⟩
  unfold Alloc.query
  simp only [findBlock_of_mem hI.ids hb, hq]
  by_cases hu : bit b.used q = true
  · simp only [hu, Bool.not_true, Bool.false_eq_true, if_false]
    refine ⟨?_, fun e he => by simp at he⟩
    intro sp hsp
    simp only [Except.ok.injEq] at hsp
    rcases (hB.used q hidx).mp hu with ⟨hp, h0⟩ | ⟨st, n, hSp, h1, h2⟩
    · -- the padding granule
      subst h0
      obtain ⟨_, p2, p3⟩ := pad_locate hB.toBCore hp
      rw [p2, p3] at hsp
      subst hsp
      refine ⟨?_, rfl⟩
      rw [hsa]
      simp only [Nat.zero_mul, Nat.zero_add, Nat.sub_zero, Nat.one_mul]
      apply find?_eq_of_unique
      · apply (mem_occupied hS b _ _).mpr
        left
        refine ⟨?_, rfl, rfl⟩
        rw [hpadc] at hp; simpa using hp
      · simp only [Bool.and_eq_true, decide_eq_true_eq]; omega
      · rintro ⟨o, sz⟩ hm hp'
        rcases occ_cases o sz hm hp' with ⟨_, _, rfl, rfl⟩ | ⟨st, n, hSp, h1, h2, _, _⟩
        · rfl
        · exfalso
          obtain ⟨i1, _, _⟩ := hB.inside st n hSp
          have := padN_pos b hp; omega
    · obtain ⟨_, p2, p3⟩ := hB.toBCore.locate hSp h1 h2
      obtain ⟨i1, i2, i3⟩ := hB.inside st n hSp
      rw [p2, p3] at hsp
      subst hsp
      refine ⟨?_, rfl⟩
      rw [hsa]
      have e : st + n - 1 + 1 - st = n := by omega
      simp only [e]
      apply find?_eq_of_unique
      · apply (mem_occupied hS b _ _).mpr
        right
        obtain ⟨x, hx, e1, e2⟩ := (hS.spans _ _ _ _).mp hSp
        exact ⟨x, hx, e1, e2⟩
      · simp only [Bool.and_eq_true, decide_eq_true_eq]
        exact (contains_iff st n).mpr ⟨h1, h2⟩
      · rintro ⟨o, sz⟩ hm hp'
        rcases occ_cases o sz hm hp' with ⟨hp, h0, rfl, rfl⟩ | ⟨st', n', hSp', h1', h2', rfl, rfl⟩
        · exfalso
          have := padN_pos b hp; omega
        · rcases hB.disj st n st' n' hSp hSp' with ⟨rfl, rfl⟩ | d | d
          · rfl
          · omega
          · omega
  · have hu' : bit b.used q = false := by simpa using hu
    simp only [hu', Bool.not_false, if_true]
    refine ⟨fun sp he => by simp at he, ?_⟩
    intro e _
    rw [hsa]
    apply find?_none_of_forall
    rintro ⟨o, sz⟩ hm
    show (decide (o ≤ addr) && decide (addr < o + sz)) = false
    cases hp' : (decide (o ≤ addr) && decide (addr < o + sz))
    · rfl
    · exfalso
      rcases occ_cases o sz hm hp' with ⟨hp, h0, _, _⟩ | ⟨st, n, hSp, h1, h2, _, _⟩
      · have := (hB.used q hidx).mpr (Or.inl ⟨hp, h0⟩); rw [hu'] at this; simp at this
      · have := (hB.used q hidx).mpr (Or.inr ⟨st, n, hSp, h1, h2⟩); rw [hu'] at this; simp at this

end AsmjitVerif.JitAlloc
