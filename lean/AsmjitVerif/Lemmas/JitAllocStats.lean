/- C09: `statistics()` as sums over all blocks (exchange of the sums over pools and blocks). -/
import AsmjitVerif.Lemmas.JitAllocRetention
namespace AsmjitVerif.JitAlloc


/-- sum over pool indices `0 .. n-1` -/
def psum (n : Nat) (f : Nat → Nat) : Nat := ((List.range n).map f).sum

theorem psum_succ (n : Nat) (f : Nat → Nat) : psum (n + 1) f = psum n f + f n := by
  simp [psum, List.range_succ]

theorem psum_add (n : Nat) (f g : Nat → Nat) : psum n (fun p => f p + g p) = psum n f + psum n g := by
  induction n with
  | zero => rfl
  | succ n ih => rw [psum_succ, psum_succ, psum_succ, ih]; omega

theorem psum_single (n k v : Nat) (c : Nat → Nat) (hk : k < n) : psum n (fun p => (if k = p then v else 0) * c p) = v * c k := by
  induction n with
  | zero => omega
  | succ n ih =>
    rw [psum_succ]
    by_cases h : k = n
    · subst h
      have : psum k (fun p => (if k = p then v else 0) * c p) = 0 := by
        clear ih
        have : ∀ m, m ≤ k → psum m (fun p => (if k = p then v else 0) * c p) = 0 := by
          intro m
          induction m with
          | zero => intro _; rfl
          | succ m ihm =>
            intro hm
            rw [psum_succ, ihm (by omega)]
            have : ¬ k = m := by omega
            simp [this]
        exact this k (Nat.le_refl _)
      simp [this]
    · rw [ih (by omega)]
      simp [h]

/-- exchanging the sum over pools with the sum over blocks -/
theorem psum_agg (n : Nat) (f : Block → Nat) (c : Nat → Nat) : ∀ (bs : List Block), (∀ b ∈ bs, b.pool < n) →
    psum n (fun p => agg (fun b => if b.pool = p then f b else 0) bs * c p) = agg (fun b => f b * c b.pool) bs := by
  intro bs
  induction bs with
  | nil =>
    intro _
    simp only [agg_nil, Nat.zero_mul]
    induction n with
    | zero => rfl
    | succ n ihn => rw [psum_succ, ihn (by intro b hb; simp at hb)]
  | cons x xs ih =>
    intro h
    have := ih (fun b hb => h b (List.mem_cons_of_mem _ hb))
    simp only [agg_cons, Nat.add_mul]
    rw [psum_add, this, psum_single n x.pool (f x) c (h x List.mem_cons_self)]

theorem sum_zipIdx_aux (f : PoolAcc → Nat → Nat) : ∀ (l : List PoolAcc) (k : Nat),
    ((l.zipIdx k).map fun (q, p) => f q p).sum = ((List.range l.length).map fun i => f (l.getD i {}) (k + i)).sum := by
  intro l
  induction l with
  | nil => intro k; rfl
  | cons x xs ih =>
    intro k
    simp only [List.zipIdx_cons, List.map_cons, List.sum_cons, List.length_cons, List.range_succ_eq_map, List.map_map]
    rw [ih (k + 1)]
    simp only [Function.comp, List.getD_cons_zero, List.getD_cons_succ, Nat.add_zero]
    congr 2
    apply List.map_congr_left
    intro i _
    congr 1
    omega

theorem sum_zipIdx_eq_psum (l : List PoolAcc) (f : PoolAcc → Nat → Nat) :
    (l.zipIdx.map fun (q, p) => f q p).sum = psum l.length (fun p => f (l.getD p {}) p) := by
  have := sum_zipIdx_aux f l 0
  simpa [psum] using this





theorem psum_congr (n : Nat) (f g : Nat → Nat) (h : ∀ p, p < n → f p = g p) : psum n f = psum n g := by
  induction n with
  | zero => rfl
  | succ n ih => rw [psum_succ, psum_succ, ih (fun p hp => h p (by omega)), h n (by omega)]

theorem agg_one (bs : List Block) : agg (fun _ => 1) bs = bs.length := by
  induction bs with
  | nil => rfl
  | cons x xs ih => simp [ih]; omega

/-- `statistics()` against the blocks: the sums over the pools are sums over all blocks -/
theorem stats_of_pinv {a : Alloc} (hP : PInv a) :
    a.stats.blocks = a.blocks.length ∧
    a.stats.reserved = agg (fun b => b.areaSize * a.cfg.poolGran b.pool) a.blocks ∧
    a.stats.used = agg (fun b => b.areaUsed * a.cfg.poolGran b.pool) a.blocks := by
  unfold Alloc.stats
  simp only
  refine ⟨?_, ?_, ?_⟩
  · rw [sum_zipIdx_eq_psum a.pools (fun q _ => q.blockCount)]
    rw [psum_congr _ _ (fun p => agg (fun b => if b.pool = p then 1 else 0) a.blocks * 1) (by
      intro p hp; have := hP.cnt p hp; simp only [Alloc.pool] at this; rw [this, Nat.mul_one]; rfl)]
    rw [psum_agg _ (fun _ => 1) (fun _ => 1) a.blocks hP.plt]
    simpa using agg_one a.blocks
  · rw [sum_zipIdx_eq_psum a.pools (fun q p => q.totalSize * a.cfg.poolGran p)]
    rw [psum_congr _ _ (fun p => agg (fun b => if b.pool = p then b.areaSize else 0) a.blocks * a.cfg.poolGran p) (by
      intro p hp; have := hP.size p hp; simp only [Alloc.pool] at this; rw [this]; rfl)]
    exact psum_agg _ (·.areaSize) a.cfg.poolGran a.blocks hP.plt
  · rw [sum_zipIdx_eq_psum a.pools (fun q p => q.totalUsed * a.cfg.poolGran p)]
    rw [psum_congr _ _ (fun p => agg (fun b => if b.pool = p then b.areaUsed else 0) a.blocks * a.cfg.poolGran p) (by
      intro p hp; have := hP.used p hp; simp only [Alloc.pool] at this; rw [this]; rfl)]
    exact psum_agg _ (·.areaUsed) a.cfg.poolGran a.blocks hP.plt



end AsmjitVerif.JitAlloc
