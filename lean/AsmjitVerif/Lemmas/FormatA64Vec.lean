/- C20 helper lemmas: AArch64 vector register operands with arrangement and element index (`v1.4s`, `v1.16b[5]`) read back. -/
import AsmjitVerif.Lemmas.FormatA64LineFull

namespace AsmjitVerif.Lemmas.FormatA64Line
open AsmjitVerif.Format AsmjitVerif.FormatText AsmjitVerif.Lemmas.FormatLex AsmjitVerif.Lemmas.FormatNum
open AsmjitVerif.Lemmas.FormatX86Mem AsmjitVerif.Lemmas.FormatA64Mem AsmjitVerif.Lemmas.FormatOpKinds AsmjitVerif.Lemmas.FormatLabels

/-- (lane count, letter) the formatter prints for a 64-bit (`t = 10`) or 128-bit (`t = 11`) vector with element type 1..6 -/
def vecCount (t etype : Nat) : Nat := if t = 10 then (armElementData etype).2 / 2 else (armElementData etype).2
def vecLetter (etype : Nat) : Char := (armElementData etype).1

def idxText : Option Nat → Str
  | some i => ['['] ++ uintStr i ++ [']']
  | none => []

/-- the combinations the architecture has: b/h/s/d arrangements of 64- and 128-bit vectors, `.4b` / `.2h` of 128-bit ones -/
def VecKind (t etype : Nat) : Prop :=
  (t = 10 ∧ (etype = 1 ∨ etype = 2 ∨ etype = 3 ∨ etype = 4)) ∨
  (t = 11 ∧ (etype = 1 ∨ etype = 2 ∨ etype = 3 ∨ etype = 4 ∨ etype = 5 ∨ etype = 6))

theorem vec_text (env : Env) (t id etype : Nat) (eidx : Option Nat) (hid : id < 256) (hk : VecKind t etype) :
    armFormatRegister env t id etype eidx =
      ('v' :: uintStr id) ++ '.' :: (uintStr (vecCount t etype) ++ [vecLetter etype]) ++ idxText eidx := by
  have hvl := virtLookup_small env id hid
  rcases hk with ⟨ht, he⟩ | ⟨ht, he⟩ <;> subst ht
  · rcases he with e | e | e | e <;> subst e <;> cases eidx <;>
      simp [armFormatRegister, armRegBase, hvl, armElementData, vecCount, vecLetter, idxText, rtVec8, rtVec128, rtVec64]
  · rcases he with e | e | e | e | e | e <;> subst e <;> cases eidx <;>
      simp [armFormatRegister, armRegBase, hvl, armElementData, vecCount, vecLetter, idxText, rtVec8, rtVec128, rtVec64]

theorem vec_kind_facts : ∀ t ∈ [10, 11], ∀ e ∈ [1, 2, 3, 4, 5, 6], (t = 10 → e ≤ 4) →
    a64Arrangement t e = some (vecCount t e, vecLetter e) ∧
    readArrangement (uintStr (vecCount t e) ++ [vecLetter e]) = some (vecCount t e, vecLetter e) ∧
    (∀ c ∈ uintStr (vecCount t e) ++ [vecLetter e], notOpenBracket c = true ∧ notSpace c = true ∧ c ≠ ',') := by decide

theorem dec_more : ∀ d : Fin 10, notOpenBracket (digitChar d.val) = true ∧ notDot (digitChar d.val) = true ∧
    notSpace (digitChar d.val) = true ∧ digitChar d.val ≠ ',' ∧ digitChar d.val ≠ ']' := by decide

theorem uint_more (n : Nat) : ∀ c ∈ uintStr n 10, notOpenBracket c = true ∧ notDot c = true ∧ notSpace c = true ∧ c ≠ ',' ∧ c ≠ ']' := by
  unfold uintStr
  exact digitsLoop_chars 10 _ (by omega) (fun d hd => dec_more ⟨d, hd⟩) 64 n

theorem vRegId_v (id : Nat) (h : id < 32) : vRegId ('v' :: uintStr id 10) = some id := by
  have hall : (uintStr id 10).all Char.isDigit = true := by
    simp only [List.all_eq_true]; intro c hc; exact (uint_dec_chars id c hc).1
  have hne : (uintStr id 10).isEmpty = false := by
    have := digitsLoop_ne_nil 10 63 id
    unfold uintStr; cases h' : digitsLoop 10 64 id [] <;> simp_all
  have hp := parseDec_uintStr id (by unfold two64; omega)
  simp [vRegId, hall, hne, hp, h]

theorem readElemIndex_idx (eidx : Option Nat) (h : ∀ i, eidx = some i → i < two64) : readElemIndex (idxText eidx) = some eidx := by
  cases eidx with
  | none => rfl
  | some i =>
    have hp := parseDec_uintStr i (h i rfl)
    have e : idxText (some i) = '[' :: (uintStr i ++ [']']) := rfl
    rw [e]
    simp [readElemIndex, dropLast_concat, hp]

/-- a physical vector register with arrangement (and element index): `v1.4s`, `v1.16b[5]`, `v1.4b[2]` -/
theorem vec_opOKA (flags : Nat) (env : Env) (t id etype : Nat) (eidx : Option Nat) (hid : id < 32) (hk : VecKind t etype)
    (hidx : ∀ i, eidx = some i → i < two64) : OpOKA flags env (.reg t id etype eidx) := by
  have htxt : a64FormatOperand flags env (.reg t id etype eidx) =
      ('v' :: uintStr id) ++ '.' :: (uintStr (vecCount t etype) ++ [vecLetter etype]) ++ idxText eidx := by
    show armFormatRegister env t id etype eidx = _
    exact vec_text env t id etype eidx (by omega) hk
  have hmem : t ∈ [10, 11] ∧ etype ∈ [1, 2, 3, 4, 5, 6] ∧ (t = 10 → etype ≤ 4) ∧ etype ≠ 0 := by
    rcases hk with ⟨ht, he⟩ | ⟨ht, he⟩ <;> subst ht <;> refine ⟨by simp, by simp; omega, by omega, by omega⟩
  obtain ⟨harr, hread, hel⟩ := vec_kind_facts t hmem.1 etype hmem.2.1 hmem.2.2.1
  have hV : ∀ c ∈ 'v' :: uintStr id 10, notOpenBracket c = true ∧ notDot c = true ∧ notSpace c = true ∧ c ≠ ',' := by
    intro c hc
    simp only [List.mem_cons] at hc
    rcases hc with e | e
    · subst e; decide
    · have := uint_more id c e; exact ⟨this.1, this.2.1, this.2.2.1, this.2.2.2.1⟩
  -- split at '[' and at '.'
  have hmainC : ∀ c ∈ ('v' :: uintStr id) ++ '.' :: (uintStr (vecCount t etype) ++ [vecLetter etype]), notOpenBracket c = true := by
    intro c hc
    rcases List.mem_append.mp hc with e | e
    · exact (hV c e).1
    · simp only [List.mem_cons] at e
      rcases e with e | e
      · subst e; decide
      · exact (hel c e).1
  have hidxStop : StopsAt notOpenBracket (idxText eidx) := by
    cases eidx with
    | none => exact Or.inl rfl
    | some i => exact Or.inr ⟨'[', uintStr i ++ [']'], rfl, by decide⟩
  have hsplit1 := takeWhile_append_stop notOpenBracket _ (idxText eidx) hmainC hidxStop
  have hsplit2 := takeWhile_append_stop notDot ('v' :: uintStr id) ('.' :: (uintStr (vecCount t etype) ++ [vecLetter etype]))
    (fun c hc => (hV c hc).2.1) (Or.inr ⟨'.', _, rfl, by decide⟩)
  have hnosp : ∀ c ∈ ('v' :: uintStr id) ++ '.' :: (uintStr (vecCount t etype) ++ [vecLetter etype]) ++ idxText eidx, notSpace c = true ∧ c ≠ ',' := by
    intro c hc
    rcases List.mem_append.mp hc with e | e
    · rcases List.mem_append.mp e with e | e
      · exact ⟨(hV c e).2.2.1, (hV c e).2.2.2⟩
      · simp only [List.mem_cons] at e
        rcases e with e | e
        · subst e; decide
        · exact ⟨(hel c e).2.1, (hel c e).2.2⟩
    · cases eidx with
      | none => simp [idxText] at e
      | some i =>
        simp only [idxText, List.mem_append, List.mem_singleton] at e
        rcases e with (e | e) | e
        · subst e; decide
        · have := uint_more i c e; exact ⟨this.2.2.1, this.2.2.2.1⟩
        · subst e; decide
  have hden : denoteReg env t id = .phys t id := by simp [denoteReg, virtLookup_small env id (by omega)]
  -- from here on the text is an opaque `S` with the facts established above
  obtain ⟨S, hS⟩ : ∃ S, S = ('v' :: uintStr id) ++ '.' :: (uintStr (vecCount t etype) ++ [vecLetter etype]) ++ idxText eidx := ⟨_, rfl⟩
  rw [← hS] at htxt hnosp
  have hsp := dropWhile_all' notSpace S (fun c hc => (hnosp c hc).1)
  have hhead : S.head? = some 'v' := by rw [hS]; rfl
  have hnn : isNumberTok S = false := by rw [hS]; simp [isNumberTok, startsWithDigit]
  have hreg : parseA64Reg env S = some (.reg (.phys 0 id) (some (vecCount t etype, vecLetter etype)) eidx) := by
    rw [hS]
    unfold parseA64Reg
    rw [hsplit1.2, hsplit1.1, readElemIndex_idx eidx hidx]
    simp only [Option.bind_some]
    rw [hsplit2.2, hsplit2.1]
    simp [hread, vRegId_v id hid]
  have hne : S ≠ [] := by rw [hS]; simp
  refine ⟨rfl, ?_, ?_, .reg (.phys 0 id) (some (vecCount t etype, vecLetter etype)) eidx, ?_, ?_⟩
  · intro c hcm
    simp only [itemOf, Item.chunks, List.mem_singleton] at hcm
    subst hcm; rw [htxt]
    exact ⟨hne, fun hm => (hnosp ',' hm).2 rfl⟩
  · simp only [itemOf]; left; rw [htxt]
    intro ho
    unfold opensGroup at ho
    have := ho.1.symm.trans hhead
    simp at this
  · rw [htxt]
    have h1 : ¬ (S.head? = some '[') := by rw [hhead]; decide
    have h2 : ¬ (S.head? = some '{') := by rw [hhead]; decide
    unfold parseA64Op
    rw [if_neg h1, if_neg h2, hsp.1]
    show parseA64Word env S = _
    unfold parseA64Word
    simp only [hnn, Bool.false_eq_true, if_false, hreg]
  · have hne0 : etype ≠ 0 := hmem.2.2.2
    cases etype with
    | zero => exact absurd rfl hne0
    | succ e =>
      have ht : (t == 10 || t == 11) = true := by rcases hmem.1 with h | h <;> simp_all
      simp [opAgrees, hden, harr, ht]

end AsmjitVerif.Lemmas.FormatA64Line
