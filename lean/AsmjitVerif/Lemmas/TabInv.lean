/- two invariants of every reachable assembling state about the address table: the `.addrtab` section id is a valid
   section index, and no table entry has a slot (slots are assigned only by `relocate_to_base`). -/
import AsmjitVerif.Lemmas.RelSlots
namespace AsmjitVerif.CodeHolder
open AsmjitVerif.Offset

def TabIn (s : State) : Prop := ∀ ats, s.addrTabSec = some ats → ats < s.secs.length
def TabNone (s : State) : Prop := ∀ e ∈ s.addrTab, e.slot = none

theorem tabIn_grow {s s' : State} (h : TabIn s) (g : Grow s s') : TabIn s' := by
  intro ats ha
  rcases g.tabOk with e | ⟨_, e, hl⟩
  · rw [e] at ha
    exact Nat.lt_of_lt_of_le (h ats ha) (lenExt_length g.len)
  · rw [e] at ha; cases ha; exact hl

theorem tabNone_of_eq {s s' : State} (he : s'.addrTab = s.addrTab) (h : TabNone s) : TabNone s' := by
  unfold TabNone; rw [he]; exact h

@[simp] theorem emit_addrTab (s : State) (bs : Bytes) : (s.emit bs).addrTab = s.addrTab := rfl
@[simp] theorem newReloc_addrTab (s : State) (r : Reloc) : (newReloc s r).1.addrTab = s.addrTab := rfl
@[simp] theorem newFixup_addrTab (s : State) (l : Nat) (f : Fixup) : (newFixup s l f).addrTab = s.addrTab := by
  unfold newFixup; split <;> rfl

theorem tabNone_addAddress (s : State) (a : BitVec 64) (h : TabNone s) : TabNone (addAddress s a) := by
  unfold addAddress
  split
  · exact h
  · cases hx : s.addrTabSec <;> (
      dsimp only
      intro e he
      replace he : e ∈ s.addrTab ++ [{ addr := a, slot := none }] := he
      rw [List.mem_append] at he
      rcases he with he | he
      · exact h e he
      · simp only [List.mem_singleton] at he; subst he; rfl)

theorem bindLabel_addrTab (s : State) (l sec : Nat) (off : BitVec 64) : (bindLabel s l sec off).1.addrTab = s.addrTab := by
  unfold bindLabel
  repeat' split
  all_goals rfl

syntax "tab_none" ident : tactic
macro_rules
  | `(tactic| tab_none $h) => `(tactic|
      (try dsimp only) <;> (repeat' split) <;> (try dsimp only) <;> first
        | exact $h
        | exact tabNone_of_eq (by simp only [emit_addrTab, newReloc_addrTab, newFixup_addrTab]) $h
        | exact tabNone_of_eq (by simp only [emit_addrTab, newReloc_addrTab, newFixup_addrTab]) (tabNone_addAddress _ _ $h))

theorem x86MemAbsM_tabNone (s : State) (sh : AShape) (a : AddrT) (t : BitVec 64) (h : TabNone s) : TabNone (x86MemAbsM s sh a t).1 := by
  unfold x86MemAbsM; tab_none h

theorem step_tabNone (s : State) (op : Op) (hop : op ≠ .relocate 0#64 → True) (hrel : ∀ b, op ≠ .relocate b) (h : TabNone s) :
    TabNone (step s op).1 := by
  cases op with
  | newLabel => simp only [step]; unfold newLabel; tab_none h
  | newSection a o => simp only [step]; unfold newSection; tab_none h
  | «section» id => simp only [step]; unfold switchSection; tab_none h
  | bind l => simp only [step]; unfold bind; exact tabNone_of_eq (bindLabel_addrTab _ _ _ _) h
  | align n => simp only [step]; unfold alignZero; tab_none h
  | embed bs => simp only [step]; unfold embed; tab_none h
  | jmp k opt l => simp only [step]; unfold x86JmpLabel emitJmpCallRel; tab_none h
  | mem k l d => simp only [step]; unfold x86MemLabel; tab_none h
  | a64 k l a => simp only [step]; unfold a64RelLabel; tab_none h
  | elabel l n => simp only [step]; unfold embedLabel; tab_none h
  | edelta l b n => simp only [step]; unfold embedLabelDelta; tab_none h
  | vsize i v => simp only [step]; unfold setVirtSize; tab_none h
  | flatten => simp only [step]; unfold flatten; tab_none h
  | resolve => simp only [step]; unfold resolve; tab_none h
  | relocate b => exact absurd rfl (hrel b)
  | jmpAbs k opt t =>
    simp only [step]; unfold x86JmpAbs emitJmpCallRel
    dsimp only
    repeat' split
    all_goals first
      | exact h
      | (refine tabNone_of_eq ?_ h; simp only [emit_addrTab, newReloc_addrTab, newFixup_addrTab]; done)
      | (refine tabNone_of_eq (s := addAddress s t) ?_ (tabNone_addAddress s t h); simp only [emit_addrTab, newReloc_addrTab]; done)
  | a64Abs k t => simp only [step]; unfold a64RelAbs; tab_none h
  | memAbs k a t =>
    simp only [step]
    split
    · exact h
    · unfold x86MemAbs
      cases (MKind.ashape s.arch k).moffs with
      | none => exact x86MemAbsM_tabNone _ _ _ _ h
      | some mo =>
        dsimp only
        split
        · exact tabNone_of_eq rfl h
        · exact x86MemAbsM_tabNone _ _ _ _ h

theorem inv_tabs_init (arch : Arch) (base : BitVec 64) : TabIn (State.init arch base) ∧ TabNone (State.init arch base) := by
  constructor
  · intro ats h; simp [State.init] at h
  · intro e he; simp [State.init] at he

/-- both invariants hold after any program of assembling operations -/
theorem run_tabs (s : State) (ops : List Op) (hops : ∀ op ∈ ops, op.early = true) (h : Inv s) (hi : TabIn s) (hn : TabNone s) :
    TabIn (run s ops) ∧ TabNone (run s ops) := by
  induction ops generalizing s with
  | nil => exact ⟨hi, hn⟩
  | cons op rest ih =>
    have ho := hops op List.mem_cons_self
    refine ih _ (fun o h' => hops o (List.mem_cons_of_mem _ h')) (step_inv s op ho h) (tabIn_grow hi (step_grow s op ho h))
      (step_tabNone s op (fun _ => trivial) (fun b e => by subst e; cases ho) hn)

end AsmjitVerif.CodeHolder
