/- C19, part 3: what `fill` produces under the invariant, and that the specification monitor accepts every model step. -/
import AsmjitVerif.Lemmas.ConstPoolTree
namespace AsmjitVerif.ConstPool
open Spec

theorem getAt_nil {α : Type} (i : Nat) : getAt ([] : List (List α)) i = [] := by cases i <;> rfl

theorem Inv.init : Inv Pool.init [] := by
  refine ⟨⟨?_, ?_, ?_, ?_, ?_⟩, ⟨?_, ?_, ?_, ?_⟩, Or.inl rfl⟩ <;>
    simp [Pool.init, NS, getAt_nil]

/-! ### the image -/

theorem fill_facts (s : Pool) (hist : List Entry) (h : Inv s hist) :
    (fill s).length = s.size ∧
    ∀ p, ((fill s)[p]? = (List.replicate s.size 0#8)[p]? ∧ ∀ i n, NS s.tree i n → ¬ (n.offset ≤ p ∧ p < n.offset + 2 ^ i))
       ∨ (∃ i n, NS s.tree i n ∧ n.offset ≤ p ∧ p < n.offset + 2 ^ i ∧ (fill s)[p]? = n.data[p - n.offset]?) := by
  have hfit : ∀ n ∈ allNodes s.tree, n.shared = false → n.offset + n.data.length ≤ (List.replicate s.size 0#8).length := by
    intro n hn _
    obtain ⟨i, _, hi⟩ := (mem_allNodes _ _).1 hn
    have := h.tree.ok i n hi
    rw [this.len, List.length_replicate]; exact this.fit
  have := fillTree_spec (allNodes s.tree) (List.replicate s.size 0#8) hfit
  rw [← fill_eq] at this
  refine ⟨by rw [this.1, List.length_replicate], fun p => ?_⟩
  rcases this.2 p with ⟨h1, h2⟩ | ⟨n, hn, hs, h3, h4, h5⟩
  · left; refine ⟨h1, fun i n hns => ?_⟩
    have hok := h.tree.ok i n hns.1
    have := h2 n ((mem_allNodes _ _).2 ⟨i, hok.idx, hns.1⟩) hns.2
    rw [hok.len] at this; exact this
  · right
    obtain ⟨i, _, hi⟩ := (mem_allNodes _ _).1 hn
    have hok := h.tree.ok i n hi
    rw [hok.len] at h4
    exact ⟨i, n, ⟨hi, hs⟩, h3, h4, h5⟩

/-- every node (shared or not) finds its bytes at its offset -/
theorem fill_node (s : Pool) (hist : List Entry) (h : Inv s hist) (i : Nat) (n : Node) (hn : n ∈ getAt s.tree i)
    (k : Nat) (hk : k < 2 ^ i) : (fill s)[n.offset + k]? = n.data[k]? := by
  have owner : ∀ i n, NS s.tree i n → ∀ k, k < 2 ^ i → (fill s)[n.offset + k]? = n.data[k]? := by
    intro i n hns k hk
    rcases (fill_facts s hist h).2 (n.offset + k) with ⟨_, h2⟩ | ⟨j, n', hns', h3, h4, h5⟩
    · exact absurd ⟨by omega, by omega⟩ (h2 i n hns)
    · rcases h.tree.disj i j n n' hns hns' with ⟨_, rfl⟩ | hd
      · rw [h5]; congr 1; omega
      · omega
  by_cases hs : n.shared = false
  · exact owner i n ⟨hn, hs⟩ k hk
  · have hs' : n.shared = true := by simpa using hs
    obtain ⟨i', n', hns', h1, h2, h3⟩ := h.tree.shared i n hn hs'
    have := owner i' n' hns' (n.offset - n'.offset + k) (by omega)
    have e : n'.offset + (n.offset - n'.offset + k) = n.offset + k := by omega
    rw [e] at this; rw [this, h3]
    simp [hk]

theorem hist_image (s : Pool) (hist : List Entry) (h : Inv s hist) (e : Entry) (he : e ∈ hist)
    (k : Nat) (hk : k < e.data.length) : (fill s)[e.offset + k]? = e.data[k]? := by
  obtain ⟨i, n, _, hl, hget, hoff⟩ := h.tree.histNode e he
  obtain ⟨hmem, hdata⟩ := treeGet_some hget
  rw [← hoff, ← hdata]
  exact fill_node s hist h i n hmem k (by rw [← hl]; exact hk)

theorem entry_ok (s : Pool) (hist : List Entry) (h : Inv s hist) (e : Entry) (he : e ∈ hist) :
    e.data.length ∣ e.offset ∧ e.offset + e.data.length ≤ s.size ∧ e.data.length ∣ s.alignment ∧ 0 < e.data.length ∧
    e.data.length ≤ s.alignment := by
  obtain ⟨i, n, _, hl, hget, hoff⟩ := h.tree.histNode e he
  obtain ⟨hmem, _⟩ := treeGet_some hget
  have hok := h.tree.ok i n hmem
  rw [hl, ← hoff]
  refine ⟨hok.al, hok.fit, ?_, Nat.two_pow_pos i, hok.le⟩
  rcases h.pow with h0 | ⟨k, hk⟩
  · have := hok.le; have := Nat.two_pow_pos i; omega
  · rw [hk]
    have := hok.le; rw [hk] at this
    exact Nat.pow_dvd_pow 2 ((Nat.pow_le_pow_iff_right (by decide)).1 this)

/-! ### specification-level facts -/

theorem slice_of_pointwise (img : Bytes) (off : Nat) (d : Bytes)
    (h : ∀ k, k < d.length → img[off + k]? = d[k]?) : slice img off d.length = d := by
  apply List.ext_getElem?
  intro k
  unfold slice
  by_cases hk : k < d.length
  · rw [List.getElem?_take_of_lt hk, List.getElem?_drop]; exact h k hk
  · rw [List.getElem?_take_eq_none (by omega), List.getElem?_eq_none (by omega)]

theorem compatible_of_pointwise (img : Bytes) (a b : Entry)
    (ha : ∀ k, k < a.data.length → img[a.offset + k]? = a.data[k]?)
    (hb : ∀ k, k < b.data.length → img[b.offset + k]? = b.data[k]?) : compatible a b = true := by
  unfold compatible
  rw [List.all_eq_true]
  intro k hk
  have hk' : k < a.data.length := List.mem_range.1 hk
  by_cases hc : covers b (a.offset + k) = true
  · simp only [hc, Bool.not_true, Bool.false_or, beq_iff_eq]
    unfold covers at hc
    simp only [Bool.and_eq_true, decide_eq_true_eq] at hc
    rw [← ha k hk', ← hb (a.offset + k - b.offset) (by omega)]
    congr 1; omega
  · simp [hc]

theorem alignCovers_of {a len : Nat} (h1 : len ≤ a) (h2 : len ∣ a) : alignCovers a len = true := by
  simp [alignCovers, h1, Nat.mod_eq_zero_of_dvd h2]

theorem alignUp_ge (x a : Nat) : x ≤ alignUp x a := by unfold alignUp; split <;> omega

theorem alignUp_mod (x a : Nat) : alignUp x a % max a 1 = 0 := by
  unfold alignUp; split
  · rename_i h
    have : max a 1 = 1 := by omega
    rw [this]; exact Nat.mod_one _
  · rename_i h
    have : max a 1 = a := by omega
    rw [this]; exact alignUpDiff_mod x a (by omega)

/-! ### the monitor accepts every step of the model -/

theorem imageOk_fill (s : Pool) (hist : List Entry) (h : Inv s hist) : imageOk hist s.size s.alignment (fill s) = true := by
  have hf := fill_facts s hist h
  unfold imageOk
  simp only [Bool.and_eq_true, beq_iff_eq, List.all_eq_true, Bool.or_eq_true, List.any_eq_true]
  refine ⟨⟨⟨hf.1, fun e he => ?_⟩, fun p hp => ?_⟩, fun e he => ?_⟩
  · exact slice_of_pointwise _ _ _ (hist_image s hist h e he)
  · have hp' : p < s.size := List.mem_range.1 hp
    rcases hf.2 p with ⟨h1, _⟩ | ⟨i, n, hns, h3, h4, _⟩
    · right; rw [h1]; simp [hp']
    · left
      refine ⟨⟨n.data, n.offset⟩, h.tree.nodeHist i n hns, ?_⟩
      have := (h.tree.ok i n hns.1).len
      simp [covers, this, h3, h4]
  · have := entry_ok s hist h e he; exact alignCovers_of this.2.2.2.2 this.2.2.1

theorem step_ok (s : Pool) (m : Mon) (op : Op) (hinv : Inv s m.hist) (hs : m.size = s.size) (ha : m.align = s.alignment) :
    (m.step (observe s op)).1 = true ∧ Inv (step s op) (m.step (observe s op)).2.hist ∧
    (m.step (observe s op)).2.size = (step s op).size ∧ (m.step (observe s op)).2.align = (step s op).alignment := by
  cases op with
  | reset => exact ⟨rfl, Inv.init, rfl, rfl⟩
  | fill =>
    simp only [observe, Mon.step, step, hs, ha, beq_self_eq_true, Bool.true_and]
    exact ⟨imageOk_fill s m.hist hinv, hinv, trivial, trivial⟩
  | embed pad pre =>
    simp only [observe, embed, Mon.step, step, hs, ha, beq_self_eq_true, Bool.true_and]
    refine ⟨?_, hinv, trivial, trivial⟩
    have hge := alignUp_ge pre.length s.alignment
    have hdrop : List.drop (alignUp pre.length s.alignment)
        (pre ++ (List.replicate (alignUp pre.length s.alignment - pre.length) pad ++ fill s)) = fill s := by
      rw [← List.append_assoc]
      apply List.drop_left'
      simp; omega
    rw [hdrop, imageOk_fill s m.hist hinv]
    simp [hge, alignUp_mod]
  | add d =>
    simp only [observe, step]
    by_cases hv : validSize d.length = true
    · obtain ⟨off, hr, hinv', hsz, hal⟩ := add_inv s m.hist d hinv hv
      simp only [Mon.step, hv, if_true, hr]
      refine ⟨?_, hinv', trivial, trivial⟩
      have hnew := entry_ok _ _ hinv' ⟨d, off⟩ List.mem_cons_self
      simp only [Bool.and_eq_true, beq_iff_eq, decide_eq_true_eq]
      refine ⟨⟨⟨⟨⟨Nat.mod_eq_zero_of_dvd hnew.1, hnew.2.1⟩, alignCovers_of hnew.2.2.2.2 hnew.2.2.1⟩, by omega⟩, by omega⟩, ?_⟩
      unfold placedOk
      rw [List.all_eq_true]
      intro e he
      simp only [Bool.and_eq_true, Bool.or_eq_true, Bool.not_eq_true', beq_eq_false_iff_ne, ne_eq, beq_iff_eq]
      constructor
      · by_cases hd : e.data = d
        · right
          obtain ⟨i, n, hi, hl, hget, hoff⟩ := hinv.tree.histNode e he
          rw [hd] at hl hget
          have := add_hit s d i hi hl n hget
          rw [this] at hr
          simp only [Result.ok.injEq] at hr
          omega
        · left; exact hd
      · exact compatible_of_pointwise (fill (add s d).1) e ⟨d, off⟩
          (hist_image _ _ hinv' e (List.mem_cons_of_mem _ he))
          (hist_image _ _ hinv' ⟨d, off⟩ List.mem_cons_self)
    · have hv' : validSize d.length = false := by simpa using hv
      rw [add_invalid s d hv']
      simp only [Mon.step, hv', Bool.false_eq_true, if_false, hs, ha, beq_self_eq_true, Bool.and_self]
      exact ⟨by decide, hinv, trivial, trivial⟩

theorem firstBad_trace (ops : List Op) : ∀ (s : Pool) (m : Mon) (i : Nat), Inv s m.hist → m.size = s.size → m.align = s.alignment →
    firstBad m i (trace s ops) = none := by
  induction ops with
  | nil => intro s m i _ _ _; rfl
  | cons op rest ih =>
    intro s m i hinv hs ha
    obtain ⟨h1, h2, h3, h4⟩ := step_ok s m op hinv hs ha
    simp only [trace, firstBad, h1, if_true]
    exact ih _ _ _ h2 h3 h4

/-! ### runs -/

def NoReset (ops : List Op) : Prop := ∀ op ∈ ops, op ≠ Op.reset

theorem runFrom_cons (s : Pool) (op : Op) (rest : List Op) : runFrom s (op :: rest) = runFrom (step s op) rest := rfl

/-- without `reset`, the invariant is kept, accepted constants stay in the ghost history, the pool does not shrink -/
theorem runFrom_inv (ops : List Op) : ∀ (s : Pool) (hist : List Entry), Inv s hist → NoReset ops →
    ∃ h2, Inv (runFrom s ops) h2 ∧ (∀ e ∈ hist, e ∈ h2) ∧ s.size ≤ (runFrom s ops).size := by
  induction ops with
  | nil => intro s hist h _; exact ⟨hist, h, fun _ he => he, Nat.le_refl _⟩
  | cons op rest ih =>
    intro s hist h hnr
    have hnr' : NoReset rest := fun o ho => hnr o (List.mem_cons_of_mem _ ho)
    rw [runFrom_cons]
    cases op with
    | reset => exact absurd rfl (hnr _ List.mem_cons_self)
    | fill => exact ih s hist h hnr'
    | embed pad pre => exact ih s hist h hnr'
    | add d =>
      by_cases hv : validSize d.length = true
      · obtain ⟨off, _, hinv', hsz, _⟩ := add_inv s hist d h hv
        obtain ⟨h2, hi2, hsub, hs2⟩ := ih _ _ hinv' hnr'
        refine ⟨h2, hi2, fun e he => hsub e (List.mem_cons_of_mem _ he), ?_⟩
        simp only [step] at hs2 ⊢; omega
      · have hv' : validSize d.length = false := by simpa using hv
        simp only [step, add_invalid s d hv']
        exact ih s hist h hnr'

/-- every reachable pool satisfies the invariant for some ghost history -/
theorem runFrom_inv_any (ops : List Op) : ∀ (s : Pool) (hist : List Entry), Inv s hist → ∃ h2, Inv (runFrom s ops) h2 := by
  induction ops with
  | nil => intro s hist h; exact ⟨hist, h⟩
  | cons op rest ih =>
    intro s hist h
    rw [runFrom_cons]
    cases op with
    | reset => exact ih _ _ Inv.init
    | fill => exact ih s hist h
    | embed pad pre => exact ih s hist h
    | add d =>
      by_cases hv : validSize d.length = true
      · obtain ⟨off, _, hinv', _, _⟩ := add_inv s hist d h hv
        exact ih _ _ hinv'
      · have hv' : validSize d.length = false := by simpa using hv
        simp only [step, add_invalid s d hv']
        exact ih s hist h

end AsmjitVerif.ConstPool
