/- C07 hand-over lemmas: `ctz`, the gap lists stay empty, one placement step. -/
import AsmjitVerif.Model.RAStack
import AsmjitVerif.Lemmas.FrameArith
namespace AsmjitVerif.Frame

theorem ctzGo_ge : ∀ (k f x : Nat), 2 ^ k ∣ x → x ≠ 0 → k ≤ f → k ≤ ctzGo f x := by
  intro k
  induction k with
  | zero => intro f x _ _ _; exact Nat.zero_le _
  | succ k ih =>
    intro f x hd hx hf
    cases f with
    | zero => omega
    | succ f =>
      have h2 : 2 ∣ x := Nat.dvd_trans ⟨2 ^ k, by rw [Nat.pow_succ, Nat.mul_comm]⟩ hd
      have hev : x % 2 = 0 := Nat.mod_eq_zero_of_dvd h2
      simp only [ctzGo]
      rw [if_neg (by omega)]
      have hd' : 2 ^ k ∣ x / 2 := by
        obtain ⟨m, hm⟩ := hd
        refine ⟨m, ?_⟩
        rw [hm, Nat.pow_succ, Nat.mul_assoc, Nat.mul_comm 2 m, ← Nat.mul_assoc, Nat.mul_div_cancel _ (by omega)]
      have := ih f (x / 2) hd' (by omega) (by omega)
      omega

theorem two_pow_ctzGo_dvd : ∀ (f x : Nat), 2 ^ ctzGo f x ∣ x := by
  intro f
  induction f with
  | zero => intro x; simp [ctzGo]
  | succ f ih =>
    intro x
    simp only [ctzGo]
    split
    · simp
    · rename_i h
      have hev : x % 2 = 0 := by omega
      obtain ⟨m, hm⟩ := ih (x / 2)
      refine ⟨m, ?_⟩
      have : x = 2 * (x / 2) := by have := Nat.div_add_mod x 2; omega
      rw [Nat.add_comm, Nat.pow_succ, Nat.mul_comm (2 ^ _) 2, Nat.mul_assoc, ← hm]
      exact this

def AllEmpty (gaps : Gaps) : Prop := ∀ i, gaps.getD i [] = []

theorem noGaps_empty : AllEmpty noGaps := by
  intro i
  match i with
  | 0 | 1 | 2 | 3 | 4 | 5 => rfl
  | i + 6 => rfl

theorem popGap_none (gaps : Gaps) (h : AllEmpty gaps) : ∀ (fuel index : Nat), popGap gaps fuel index = none := by
  intro fuel
  induction fuel with
  | zero => intro _; rfl
  | succ fuel ih =>
    intro index
    simp only [popGap]
    split
    · rw [h index]; simp only [List.getLast?_nil]; exact ih _
    · rfl

/-- a gap is registered at an offset that is a multiple of the alignment that caused it, so the first chunk is at
least as large as that alignment and never fits: the loop bails out at once -/
theorem regGaps_bail (fuel : Nat) (gaps : Gaps) (k gapOffset gapSize : Nat) (hk : k ≤ 31)
    (hd : 2 ^ k ∣ gapOffset) (h0 : gapOffset ≠ 0) (hlt : gapOffset + gapSize < 2 ^ 32) (hs : gapSize < 2 ^ k) :
    regGaps fuel gaps gapOffset (gapOffset + gapSize) = gaps := by
  cases fuel with
  | zero => rfl
  | succ fuel =>
    simp only [regGaps]
    split
    · have hge : k ≤ ctz gapOffset := ctzGo_ge k 32 gapOffset hd h0 (by omega)
      have hdv : 2 ^ ctz gapOffset ∣ gapOffset := two_pow_ctzGo_dvd 32 gapOffset
      have hle : 2 ^ ctz gapOffset ≤ gapOffset := Nat.le_of_dvd (by omega) hdv
      have hpk : 2 ^ k ≤ 2 ^ ctz gapOffset := Nat.pow_le_pow_right (by omega) hge
      have e1 : u32 (1 <<< ctz gapOffset) = 2 ^ ctz gapOffset := by
        rw [Nat.one_shiftLeft]; exact Nat.mod_eq_of_lt (by omega)
      have e2 : u32 (gapOffset + gapSize + 2 ^ 32 - gapOffset) = gapSize := by
        have : gapOffset + gapSize + 2 ^ 32 - gapOffset = gapSize + 2 ^ 32 := by omega
        unfold u32; rw [this, Nat.add_mod_right, Nat.mod_eq_of_lt (by omega)]
      rw [e1, e2, if_pos (by omega)]
    · rfl

/-- with empty gap lists a (non stack-argument) slot simply goes to the aligned running offset -/
theorem placeOne_simple (ps : PS) (s : RASlot) (hg : AllEmpty ps.gaps) (hsa : s.isStackArg = false)
    (k : Nat) (hk : k ≤ 7) (ha : s.align = 2 ^ k) (hb : ps.offset + s.size + 2 * 2 ^ k < 2 ^ 32) :
    placeOne ps s = ({ offset := alignUp ps.offset s.align + s.size, gaps := ps.gaps },
                     { s with offset := alignUp ps.offset s.align }) := by
  have hpk : 2 ^ k ≤ 128 := by
    have : 2 ^ k ≤ 2 ^ 7 := Nat.pow_le_pow_right (by omega) hk
    omega
  obtain ⟨a1, a2, a3⟩ := alignUp_spec ps.offset k (by omega) (by omega)
  unfold placeOne
  rw [hsa]
  simp only [Bool.false_eq_true, if_false]
  have hfound : (if s.size < 64 then popGap ps.gaps 6 (ctz s.size) else none) = none := by
    split
    · exact popGap_none _ hg _ _
    · rfl
  rw [hfound, ha]
  simp only
  by_cases he : ps.offset = alignUp ps.offset (2 ^ k)
  · rw [if_neg (by intro h; exact h he)]
    simp only [ne_eq, not_true_eq_false, if_false]
    rw [← he]
    have : u32 (ps.offset + s.size) = ps.offset + s.size := Nat.mod_eq_of_lt (by omega)
    rw [this]
  · rw [if_pos he]
    simp only
    have hgs : u32 (alignUp ps.offset (2 ^ k) + 2 ^ 32 - ps.offset) = alignUp ps.offset (2 ^ k) - ps.offset := by
      have : alignUp ps.offset (2 ^ k) + 2 ^ 32 - ps.offset = (alignUp ps.offset (2 ^ k) - ps.offset) + 2 ^ 32 := by omega
      unfold u32; rw [this, Nat.add_mod_right, Nat.mod_eq_of_lt (by omega)]
    rw [hgs]
    have hne : alignUp ps.offset (2 ^ k) - ps.offset ≠ 0 := by omega
    rw [if_pos hne]
    have hend : u32 (alignUp ps.offset (2 ^ k) - ps.offset + alignUp ps.offset (2 ^ k))
        = alignUp ps.offset (2 ^ k) + (alignUp ps.offset (2 ^ k) - ps.offset) := by
      unfold u32; rw [Nat.mod_eq_of_lt (by omega)]; omega
    rw [hend, regGaps_bail 64 ps.gaps k _ _ (by omega) (Nat.dvd_of_mod_eq_zero a1) (by omega) (by omega) (by omega)]
    have : u32 (alignUp ps.offset (2 ^ k) + s.size) = alignUp ps.offset (2 ^ k) + s.size := Nat.mod_eq_of_lt (by omega)
    rw [this]

end AsmjitVerif.Frame
