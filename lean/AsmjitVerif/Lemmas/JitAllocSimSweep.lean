/- C09 refinement (model run ⊑ monitor): the bit-vector sweep of the model reports exactly the occupied granule intervals. -/
import AsmjitVerif.Lemmas.JitAllocSimOps3
namespace AsmjitVerif.JitAlloc
open Spec

/-- forward version of the loop of `sweepBlock` -/
def sweepFrom (b : Block) : Nat → Nat → List (Nat × Nat)
  | 0, _ => []
  | fuel + 1, i =>
    if i ≥ b.areaSize then []
    else if bit b.used i then
      (i, indexOfStop b.stop i + 1 - i) :: sweepFrom b fuel (max (indexOfStop b.stop i + 1) (i + 1))
    else sweepFrom b fuel (i + 1)

theorem sweepBlock_go_eq (b : Block) : ∀ (fuel i : Nat) (acc : List (Nat × Nat)),
    sweepBlock.go b fuel i acc = acc.reverse ++ sweepFrom b fuel i := by
  intro fuel
  induction fuel with
  | zero => intro i acc; simp [sweepBlock.go, sweepFrom]
  | succ f ih =>
    intro i acc
    unfold sweepBlock.go sweepFrom
    split
    · simp
    · split
      · rw [ih]; simp
      · rw [ih]

theorem sweepBlock_eq (b : Block) : sweepBlock b = sweepFrom b b.areaSize 0 := by
  unfold sweepBlock; rw [sweepBlock_go_eq]; rfl

/-- occupied granule intervals of a block in the model: the padding granule and the live spans -/
def OccG (s : St) (b : Block) (st n : Nat) : Prop :=
  (b.pad = true ∧ st = 0 ∧ n = 1) ∨ Spans s.tab b.id (s.a.cfg.poolGran b.pool) st n

theorem OccG.facts {s : St} (hI : Inv s) {b : Block} (hb : b ∈ s.a.blocks) {st n : Nat} (h : OccG s b st n) :
    0 < n ∧ st + n ≤ b.areaSize ∧ (∀ i, st ≤ i → i < st + n → bit b.used i = true) ∧
    JitAlloc.indexOfStop b.stop st + 1 = st + n := by
  obtain ⟨hB, _⟩ := hI.blk b hb
  rcases h with ⟨hp, rfl, rfl⟩ | hS
  · obtain ⟨p1, p2, _⟩ := pad_locate hB.toBCore hp
    refine ⟨by omega, by have := hB.area; omega, ?_, by rw [p2]⟩
    intro i h1 h2
    have : i = 0 := by omega
    rw [this]; exact p1
  · obtain ⟨i1, i2, i3⟩ := hB.inside st n hS
    refine ⟨i2, i3, ?_, ?_⟩
    · intro i h1 h2; exact (hB.used i (by omega)).mpr (Or.inr ⟨st, n, hS, h1, h2⟩)
    · rw [hB.toBCore.indexOfStop hS]; omega

theorem OccG.disj {s : St} (hI : Inv s) {b : Block} (hb : b ∈ s.a.blocks) {st n st' n' : Nat} (h : OccG s b st n) (h' : OccG s b st' n') :
    (st = st' ∧ n = n') ∨ st + n ≤ st' ∨ st' + n' ≤ st := by
  obtain ⟨hB, _⟩ := hI.blk b hb
  rcases h with ⟨hp, rfl, rfl⟩ | hS <;> rcases h' with ⟨hp', rfl, rfl⟩ | hS'
  · exact Or.inl ⟨rfl, rfl⟩
  · obtain ⟨i1, _, _⟩ := hB.inside st' n' hS'
    have := padN_pos b hp; omega
  · obtain ⟨i1, _, _⟩ := hB.inside st n hS
    have := padN_pos b hp'; omega
  · exact hB.disj st n st' n' hS hS'

theorem OccG.of_used {s : St} (hI : Inv s) {b : Block} (hb : b ∈ s.a.blocks) {i : Nat} (hi : i < b.areaSize) (hu : bit b.used i = true) :
    ∃ st n, OccG s b st n ∧ st ≤ i ∧ i < st + n := by
  obtain ⟨hB, _⟩ := hI.blk b hb
  rcases (hB.used i hi).mp hu with ⟨hp, rfl⟩ | ⟨st, n, hS, h1, h2⟩
  · exact ⟨0, 1, Or.inl ⟨hp, rfl, rfl⟩, by omega, by omega⟩
  · exact ⟨st, n, Or.inr hS, h1, h2⟩

/-- `i` is not in the interior of an occupied interval -/
def Boundary (s : St) (b : Block) (i : Nat) : Prop := ∀ st n, OccG s b st n → ¬(st < i ∧ i < st + n)

theorem sweepFrom_spec {s : St} (hI : Inv s) {b : Block} (hb : b ∈ s.a.blocks) :
    ∀ (fuel i : Nat), Boundary s b i → b.areaSize ≤ i + fuel →
      (∀ x ∈ sweepFrom b fuel i, OccG s b x.1 x.2 ∧ i ≤ x.1) ∧
      (∀ st n, OccG s b st n → i ≤ st → (st, n) ∈ sweepFrom b fuel i) ∧
      increasing (sweepFrom b fuel i) = true := by
  intro fuel
  induction fuel with
  | zero =>
    intro i _ hfu
    refine ⟨by intro x hx; simp [sweepFrom] at hx, ?_, rfl⟩
    intro st n h hle
    obtain ⟨f1, f2, _, _⟩ := h.facts hI hb
    omega
  | succ f ih =>
    intro i hbd hfu
    unfold sweepFrom
    by_cases hge : i ≥ b.areaSize
    · simp only [hge, if_true]
      refine ⟨by intro x hx; simp at hx, ?_, rfl⟩
      intro st n h hle
      obtain ⟨f1, f2, _, _⟩ := h.facts hI hb
      omega
    · simp only [hge, if_false]
      by_cases hu : bit b.used i = true
      · simp only [hu, if_true]
        obtain ⟨st, n, hO, h1, h2⟩ := OccG.of_used hI hb (by omega) hu
        have hst : st = i := by
          by_cases c : st = i
          · exact c
          · exact absurd ⟨by omega, h2⟩ (hbd st n hO)
        subst hst
        obtain ⟨f1, f2, f3, f4⟩ := hO.facts hI hb
        have hmax : max (JitAlloc.indexOfStop b.stop st + 1) (st + 1) = st + n := by rw [f4]; omega
        have hitem : JitAlloc.indexOfStop b.stop st + 1 - st = n := by rw [f4]; omega
        rw [hmax, hitem]
        have hbd' : Boundary s b (st + n) := by
          intro st' n' hO' hc
          rcases OccG.disj hI hb hO hO' with ⟨rfl, rfl⟩ | d | d <;> omega
        obtain ⟨r1, r2, r3⟩ := ih (st + n) hbd' (by omega)
        refine ⟨?_, ?_, ?_⟩
        · intro x hx
          rcases List.mem_cons.mp hx with rfl | hx
          · exact ⟨hO, Nat.le_refl _⟩
          · obtain ⟨a1, a2⟩ := r1 x hx; exact ⟨a1, by omega⟩
        · intro st' n' hO' hle
          rcases OccG.disj hI hb hO hO' with ⟨rfl, rfl⟩ | d | d
          · exact List.mem_cons_self
          · exact List.mem_cons_of_mem _ (r2 st' n' hO' d)
          · obtain ⟨g1, _, _, _⟩ := hO'.facts hI hb; omega
        · cases hsf : sweepFrom b f (st + n) with
          | nil => rfl
          | cons y ys =>
            have hy := (r1 y (by rw [hsf]; simp)).2
            rw [hsf] at r3
            simp only [increasing, Bool.and_eq_true, decide_eq_true_eq]
            exact ⟨hy, r3⟩
      · have hu' : bit b.used i = false := by simpa using hu
        simp only [hu', Bool.false_eq_true, if_false]
        have hbd' : Boundary s b (i + 1) := by
          intro st' n' hO' hc
          obtain ⟨_, _, g3, _⟩ := hO'.facts hI hb
          have := g3 i (by omega) (by omega)
          rw [hu'] at this; simp at this
        obtain ⟨r1, r2, r3⟩ := ih (i + 1) hbd' (by omega)
        refine ⟨?_, ?_, r3⟩
        · intro x hx; obtain ⟨a1, a2⟩ := r1 x hx; exact ⟨a1, by omega⟩
        · intro st' n' hO' hle
          by_cases c : st' = i
          · exfalso
            obtain ⟨g1, _, g3, _⟩ := hO'.facts hI hb
            have := g3 i (by omega) (by omega)
            rw [hu'] at this; simp at this
          · exact r2 st' n' hO' (by omega)

end AsmjitVerif.JitAlloc

namespace AsmjitVerif.JitAlloc
open Spec

theorem mem_occupiedG {g : Ghost} {s : St} (hS : Sim g s) (hG : Good s) {b : Block} (hb : b ∈ s.a.blocks) (st n : Nat) :
    (st, n) ∈ g.occupiedG (toGB b) ↔ OccG s b st n := by
  have hI := hG.inv
  have hg := poolGran_pos hI.wf b.pool
  have hpadc := (hG.div b hb).padc
  unfold Ghost.occupiedG
  simp only [List.mem_map, toGB, hS.cfg]
  constructor
  · rintro ⟨⟨o, sz⟩, hm, e⟩
    simp only [Prod.mk.injEq] at e
    rcases (mem_occupied hS b o sz).mp hm with ⟨hn, rfl, rfl⟩ | ⟨x, hx, rfl, rfl⟩
    · left
      refine ⟨by rw [hpadc, hn]; rfl, ?_, ?_⟩
      · rw [← e.1]; simp
      · rw [← e.2]; exact Nat.div_self hg
    · right
      obtain ⟨st', n', hSp, o1, o2⟩ := liveIn_span hS hI hb hx
      rw [o1, Nat.mul_div_cancel _ hg] at e
      rw [o2, Nat.mul_div_cancel _ hg] at e
      rw [← e.1, ← e.2]; exact hSp
  · rintro (⟨hp, rfl, rfl⟩ | hSp)
    · refine ⟨(0, s.a.cfg.poolGran b.pool), ?_, ?_⟩
      · apply (mem_occupied hS b _ _).mpr
        left
        refine ⟨?_, rfl, rfl⟩
        rw [hpadc] at hp; simpa using hp
      · simp [Nat.div_self hg]
    · obtain ⟨x, hx, e1, e2⟩ := (hS.spans _ _ _ _).mp hSp
      refine ⟨(x.off, x.size), (mem_occupied hS b _ _).mpr (Or.inr ⟨x, hx, rfl, rfl⟩), ?_⟩
      simp only [e1, e2, Nat.mul_div_cancel _ hg]

theorem judge_sweep {g : Ghost} {s : St} (hS : Sim g s) (hG : Good s) : JudgeOk g s .sweep := by
  refine ⟨g, ?_, hS⟩
  simp only [step, judge, List.map_map]
  have h1 : (s.a.blocks.map ((fun (x : Nat × List (Nat × Nat)) => x.1) ∘ fun b => (b.id, sweepBlock b))) = g.blocks.map (·.id) := by
    rw [hS.blocks, List.map_map]; rfl
  simp only [h1, ne_eq, not_true_eq_false, if_false]
  have h2 : (g.blocks.zip (s.a.blocks.map ((fun (x : Nat × List (Nat × Nat)) => x.2) ∘ fun b => (b.id, sweepBlock b)))).all
      (fun (b, sp) => g.sweepOk b sp) = true := by
    rw [hS.blocks, zip_map_map, List.all_map, List.all_eq_true]
    intro b hb
    simp only [Function.comp]
    obtain ⟨r1, r2, r3⟩ := sweepFrom_spec hG.inv hb b.areaSize 0 (by intro st n _ hc; omega) (by omega)
    unfold Ghost.sweepOk
    rw [sweepBlock_eq]
    simp only [Bool.and_eq_true, List.all_eq_true, List.contains_iff_mem]
    refine ⟨⟨r3, ?_⟩, ?_⟩
    · rintro ⟨st, n⟩ hx
      exact (mem_occupiedG hS hG hb st n).mpr (r1 (st, n) hx).1
    · rintro ⟨st, n⟩ hx
      exact r2 st n ((mem_occupiedG hS hG hb st n).mp hx) (Nat.zero_le _)
  simp [h2]

end AsmjitVerif.JitAlloc
