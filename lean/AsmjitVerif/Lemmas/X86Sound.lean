/-
Lemmas for `validate_sound` (C13): a successful signature match of the validator model yields a row and, through the
kernel-checked `rowSound` of that row, a database form that admits the kind of every spelled operand at its position.
-/
import AsmjitVerif.Spec.X86Sound
namespace AsmjitVerif.X86Sound
open AsmjitVerif.X86Validate

theorem exists_bit {x : Nat} (h : x ≠ 0) : ∃ i, x.testBit i = true := by
  apply Classical.byContradiction
  intro hn
  apply h
  apply Nat.eq_of_testBit_eq
  intro i
  have : ¬ x.testBit i = true := fun e => hn ⟨i, e⟩
  simp [this]

theorem fOpMask_lt : fOpMask < 2 ^ 56 := by decide

/-- operand flags `o` and reference flags `r` with a common kind: one single kind bit of `r` is in `o` -/
theorem common_bit (o r : Nat) (h : o &&& (r &&& fOpMask) ≠ 0) : ∃ b ∈ bitsOf (r &&& fOpMask), o &&& b ≠ 0 := by
  obtain ⟨i, hi⟩ := exists_bit h
  rw [Nat.testBit_and] at hi
  simp only [Bool.and_eq_true] at hi
  have hlt : i < 56 := by
    apply Classical.byContradiction
    intro hge
    have hle : r &&& fOpMask ≤ fOpMask := Nat.and_le_right
    have : r &&& fOpMask < 2 ^ i := by
      have : 2 ^ 56 ≤ 2 ^ i := Nat.pow_le_pow_right (by decide) (by omega)
      have := fOpMask_lt
      omega
    rw [Nat.testBit_lt_two_pow this] at hi
    exact absurd hi.2 (by simp)
  refine ⟨1 <<< i, ?_, ?_⟩
  · unfold bitsOf
    exact List.mem_map.mpr ⟨i, List.mem_filter.mpr ⟨List.mem_range.mpr hlt, hi.2⟩, rfl⟩
  · intro e
    have : (o &&& 1 <<< i).testBit i = true := by
      rw [Nat.testBit_and, Nat.one_shiftLeft, Nat.testBit_two_pow]; simp [hi.1]
    rw [e] at this
    simp at this

theorem any_bit (r : Nat) (h : r &&& fOpMask ≠ 0) : ∃ b, b ∈ bitsOf (r &&& fOpMask) := by
  obtain ⟨b, hb, _⟩ := common_bit (r &&& fOpMask) r (by rw [Nat.and_self]; exact h)
  exact ⟨b, hb⟩

/-- an accepted `check_op_sig` that leaves `imm_out_of_range` clear found a common kind -/
theorem checkOpSig_common (o r : Nat × Nat) (oor : Bool) (h : checkOpSig o r oor = (true, false)) :
    o.1 &&& (r.1 &&& fOpMask) ≠ 0 ∧ oor = false := by
  unfold checkOpSig at h
  by_cases hc : test (o.1 &&& r.1) fOpMask = true
  · simp only [hc, Bool.not_true, Bool.false_eq_true, if_false] at h
    refine ⟨?_, ?_⟩
    · simp only [test, bne_iff_ne, ne_eq] at hc
      rw [← Nat.and_assoc]; exact hc
    · split at h
      · simp at h
      · split at h
        · simp at h
        · split at h
          · simp at h
          · simpa using h
  · simp only [hc, Bool.not_false, if_true] at h
    split at h <;> simp at h

/-- a successful pass over the signature rows stopped at a row of a compatible mode whose operand loop accepted the
    operands with `imm_out_of_range` clear -/
theorem matchSignatures_true (mode : Nat) (ops : List (Nat × Nat)) :
    ∀ (rows : List (Nat × Nat × Nat × List (Nat × Nat))) (g g' : Bool), matchSignatures mode ops rows g = (true, g') →
      ∃ row ∈ rows, row.2.1 &&& mode ≠ 0 ∧
        ((row.1 = ops.length ∧ matchExplicit ops row.2.2.2 false = (true, false)) ∨
         (row.1 ≠ ops.length ∧ row.1 - row.2.2.1 = ops.length ∧ matchSkippingImplicit ops row.2.2.2 false = (true, false))) := by
  intro rows
  induction rows with
  | nil => intro g g' h; simp [matchSignatures] at h
  | cons row rest ih =>
    intro g g' h
    obtain ⟨opCount, smode, implicitCount, refs⟩ := row
    unfold matchSignatures at h
    by_cases hm : smode &&& mode = 0
    · simp only [hm, if_true] at h
      obtain ⟨r, hr, hh⟩ := ih _ _ h
      exact ⟨r, List.mem_cons_of_mem _ hr, hh⟩
    · simp only [hm, if_false] at h
      by_cases h1 : opCount = ops.length
      · simp only [h1, if_true] at h
        cases hme : matchExplicit ops refs false with
        | mk m loc =>
          rw [hme] at h
          simp only at h
          cases m with
          | false =>
            simp only [Bool.false_eq_true, if_false] at h
            obtain ⟨r, hr, hh⟩ := ih _ _ h
            exact ⟨r, List.mem_cons_of_mem _ hr, hh⟩
          | true =>
            simp only [if_true] at h
            cases loc with
            | false => exact ⟨_, List.mem_cons_self, hm, Or.inl ⟨h1, hme⟩⟩
            | true =>
              simp only [Bool.not_true, Bool.false_eq_true, if_false] at h
              obtain ⟨r, hr, hh⟩ := ih _ _ h
              exact ⟨r, List.mem_cons_of_mem _ hr, hh⟩
      · simp only [h1, if_false] at h
        by_cases h2 : opCount - implicitCount = ops.length
        · simp only [h2, if_true] at h
          cases hme : matchSkippingImplicit ops refs false with
          | mk m loc =>
            rw [hme] at h
            simp only at h
            cases m with
            | false =>
              simp only [Bool.false_eq_true, if_false] at h
              obtain ⟨r, hr, hh⟩ := ih _ _ h
              exact ⟨r, List.mem_cons_of_mem _ hr, hh⟩
            | true =>
              simp only [if_true] at h
              cases loc with
              | false => exact ⟨_, List.mem_cons_self, hm, Or.inr ⟨h1, h2, hme⟩⟩
              | true =>
                simp only [Bool.not_true, Bool.false_eq_true, if_false] at h
                obtain ⟨r, hr, hh⟩ := ih _ _ h
                exact ⟨r, List.mem_cons_of_mem _ hr, hh⟩
        · simp only [h2, if_false, Bool.false_eq_true] at h
          obtain ⟨r, hr, hh⟩ := ih _ _ h
          exact ⟨r, List.mem_cons_of_mem _ hr, hh⟩

end AsmjitVerif.X86Sound
