/-
Lemmas for `validate_sound` (C13): a successful signature match of the validator model yields a row and, through the
kernel-checked `rowSound` of that row, a database form that admits the kind of every spelled operand at its position.
-/
import AsmjitVerif.Spec.X86Sound
namespace AsmjitVerif.X86Sound
open AsmjitVerif.X86Validate

theorem exists_bit {x : Nat} (h : x ≠ 0) : ∃ i, x.testBit i = true := by
  apply Classical.byContradiction
  intro hn
  apply h
  apply Nat.eq_of_testBit_eq
  intro i
  have : ¬ x.testBit i = true := fun e => hn ⟨i, e⟩
  simp [this]

theorem fOpMask_lt : fOpMask < 2 ^ 56 := by decide

/-- operand flags `o` and reference flags `r` with a common kind: one single kind bit of `r` is in `o` -/
theorem common_bit (o r : Nat) (h : o &&& (r &&& fOpMask) ≠ 0) : ∃ b ∈ bitsOf (r &&& fOpMask), o &&& b ≠ 0 := by
  obtain ⟨i, hi⟩ := exists_bit h
  rw [Nat.testBit_and] at hi
  simp only [Bool.and_eq_true] at hi
  have hlt : i < 56 := by
    apply Classical.byContradiction
    intro hge
    have hle : r &&& fOpMask ≤ fOpMask := Nat.and_le_right
    have : r &&& fOpMask < 2 ^ i := by
      have : 2 ^ 56 ≤ 2 ^ i := Nat.pow_le_pow_right (by decide) (by omega)
      have := fOpMask_lt
      omega
    rw [Nat.testBit_lt_two_pow this] at hi
    exact absurd hi.2 (by simp)
  refine ⟨1 <<< i, ?_, ?_⟩
  · unfold bitsOf
    exact List.mem_map.mpr ⟨i, List.mem_filter.mpr ⟨List.mem_range.mpr hlt, hi.2⟩, rfl⟩
  · intro e
    have : (o &&& 1 <<< i).testBit i = true := by
      rw [Nat.testBit_and, Nat.one_shiftLeft, Nat.testBit_two_pow]; simp [hi.1]
    rw [e] at this
    simp at this

theorem any_bit (r : Nat) (h : r &&& fOpMask ≠ 0) : ∃ b, b ∈ bitsOf (r &&& fOpMask) := by
  obtain ⟨b, hb, _⟩ := common_bit (r &&& fOpMask) r (by rw [Nat.and_self]; exact h)
  exact ⟨b, hb⟩

/-- an accepted `check_op_sig` that leaves `imm_out_of_range` clear found a common kind -/
theorem checkOpSig_common (o r : Nat × Nat) (oor : Bool) (h : checkOpSig o r oor = (true, false)) :
    o.1 &&& (r.1 &&& fOpMask) ≠ 0 ∧ oor = false := by
  unfold checkOpSig at h
  by_cases hc : test (o.1 &&& r.1) fOpMask = true
  · simp only [hc, Bool.not_true, Bool.false_eq_true, if_false] at h
    refine ⟨?_, ?_⟩
    · simp only [test, bne_iff_ne, ne_eq] at hc
      rw [← Nat.and_assoc]; exact hc
    · split at h
      · simp at h
      · split at h
        · simp at h
        · split at h
          · simp at h
          · simpa using h
  · simp only [hc, Bool.not_false, if_true] at h
    split at h <;> simp at h

/-- a successful pass over the signature rows stopped at a row of a compatible mode whose operand loop accepted the
    operands with `imm_out_of_range` clear -/
theorem matchSignatures_true (mode : Nat) (ops : List (Nat × Nat)) :
    ∀ (rows : List (Nat × Nat × Nat × List (Nat × Nat))) (g g' : Bool), matchSignatures mode ops rows g = (true, g') →
      ∃ row ∈ rows, row.2.1 &&& mode ≠ 0 ∧
        ((row.1 = ops.length ∧ matchExplicit ops row.2.2.2 false = (true, false)) ∨
         (row.1 ≠ ops.length ∧ row.1 - row.2.2.1 = ops.length ∧ matchSkippingImplicit ops row.2.2.2 false = (true, false))) := by
  intro rows
  induction rows with
  | nil => intro g g' h; simp [matchSignatures] at h
  | cons row rest ih =>
    intro g g' h
    obtain ⟨opCount, smode, implicitCount, refs⟩ := row
    unfold matchSignatures at h
    by_cases hm : smode &&& mode = 0
    · simp only [hm, if_true] at h
      obtain ⟨r, hr, hh⟩ := ih _ _ h
      exact ⟨r, List.mem_cons_of_mem _ hr, hh⟩
    · simp only [hm, if_false] at h
      by_cases h1 : opCount = ops.length
      · simp only [h1, if_true] at h
        cases hme : matchExplicit ops refs false with
        | mk m loc =>
          rw [hme] at h
          simp only at h
          cases m with
          | false =>
            simp only [Bool.false_eq_true, if_false] at h
            obtain ⟨r, hr, hh⟩ := ih _ _ h
            exact ⟨r, List.mem_cons_of_mem _ hr, hh⟩
          | true =>
            simp only [if_true] at h
            cases loc with
            | false => exact ⟨_, List.mem_cons_self, hm, Or.inl ⟨h1, hme⟩⟩
            | true =>
              simp only [Bool.not_true, Bool.false_eq_true, if_false] at h
              obtain ⟨r, hr, hh⟩ := ih _ _ h
              exact ⟨r, List.mem_cons_of_mem _ hr, hh⟩
      · simp only [h1, if_false] at h
        by_cases h2 : opCount - implicitCount = ops.length
        · simp only [h2, if_true] at h
          cases hme : matchSkippingImplicit ops refs false with
          | mk m loc =>
            rw [hme] at h
            simp only at h
            cases m with
            | false =>
              simp only [Bool.false_eq_true, if_false] at h
              obtain ⟨r, hr, hh⟩ := ih _ _ h
              exact ⟨r, List.mem_cons_of_mem _ hr, hh⟩
            | true =>
              simp only [if_true] at h
              cases loc with
              | false => exact ⟨_, List.mem_cons_self, hm, Or.inr ⟨h1, h2, hme⟩⟩
              | true =>
                simp only [Bool.not_true, Bool.false_eq_true, if_false] at h
                obtain ⟨r, hr, hh⟩ := ih _ _ h
                exact ⟨r, List.mem_cons_of_mem _ hr, hh⟩
        · simp only [h2, if_false, Bool.false_eq_true] at h
          obtain ⟨r, hr, hh⟩ := ih _ _ h
          exact ⟨r, List.mem_cons_of_mem _ hr, hh⟩

/-! ### position bookkeeping: a clean operand loop embeds the operands in every form covering the row -/

theorem and_pow_testBit {o i : Nat} (h : o &&& 2 ^ i ≠ 0) : o.testBit i = true := by
  apply Classical.byContradiction
  intro hf
  apply h
  apply Nat.eq_of_testBit_eq
  intro j
  rw [Nat.testBit_and, Nat.testBit_two_pow]
  have hf' : o.testBit i = false := by simpa using hf
  by_cases e : i = j
  · subst e; simp [hf']
  · simp [e]

/-- two flag words that both contain the single kind bit `b` share a kind -/
theorem share_bit {x o k b : Nat} (hb : b ∈ bitsOf x) (ho : o &&& b ≠ 0) (hk : k &&& b ≠ 0) : o &&& k ≠ 0 := by
  unfold bitsOf at hb
  obtain ⟨i, _, e⟩ := List.mem_map.mp hb
  subst e
  rw [Nat.one_shiftLeft] at ho hk
  have h1 := and_pow_testBit ho
  have h2 := and_pow_testBit hk
  intro e0
  have : (o &&& k).testBit i = true := by rw [Nat.testBit_and, h1, h2]; rfl
  rw [e0] at this
  simp at this

theorem checkOpSig_oor (o r : Nat × Nat) : (checkOpSig o r true).2 = true := by
  unfold checkOpSig
  simp only
  repeat' split
  all_goals rfl

theorem msi_oor (a b : List (Nat × Nat)) (oor : Bool) (h : oor = true) : (matchSkippingImplicit a b oor).2 = true := by
  induction a, b, oor using matchSkippingImplicit.induct with
  | case1 x oor => unfold matchSkippingImplicit; simpa using h
  | case2 hd tl oor => unfold matchSkippingImplicit; simpa using h
  | case3 o os r rs oor himp ih => unfold matchSkippingImplicit; simp only [himp, if_true]; exact ih h
  | case4 o os r rs oor himp oor' hck ih =>
    unfold matchSkippingImplicit
    simp only [himp, if_false, hck, if_true]
    apply ih
    subst h
    have := checkOpSig_oor o r
    rw [hck] at this
    exact this
  | case5 o os r rs oor himp a oor' hck ha =>
    unfold matchSkippingImplicit
    simp only [himp, if_false, hck]
    cases a with
    | true => exact absurd rfl ha
    | false =>
      simp only [Bool.false_eq_true, if_false]
      subst h
      have := checkOpSig_oor o r
      rw [hck] at this
      exact this

theorem me_oor : ∀ (a b : List (Nat × Nat)), (matchExplicit a b true).2 = true := by
  intro a
  induction a with
  | nil => intro b; simp [matchExplicit]
  | cons o os ih =>
    intro b
    cases b with
    | nil => simp [matchExplicit]
    | cons r rs =>
      unfold matchExplicit
      cases hck : checkOpSig o r true with
      | mk a oor' =>
        have h2 := checkOpSig_oor o r
        rw [hck] at h2
        simp only at h2
        subst h2
        cases a <;> simp [ih]

/-- the step shared by both loops: a spelled operand accepted at a reference position -/
theorem embeds_step (o r : Nat × Nat) (os rs : List (Nat × Nat)) (hcom : o.1 &&& (r.1 &&& fOpMask) ≠ 0)
    (htl : ∃ choice, All2 (fun b r => b ∈ bitsOf r) choice (rs.map fun r => r.1 &&& fOpMask) ∧
      ∀ f : List Nat, All2 (fun k b => k &&& b ≠ 0) f choice → Embeds os rs f) :
    ∃ choice, All2 (fun b r => b ∈ bitsOf r) choice ((r :: rs).map fun r => r.1 &&& fOpMask) ∧
      ∀ f : List Nat, All2 (fun k b => k &&& b ≠ 0) f choice → Embeds (o :: os) (r :: rs) f := by
  obtain ⟨b, hb, hob⟩ := common_bit o.1 r.1 hcom
  obtain ⟨choice, hc1, hc2⟩ := htl
  refine ⟨b :: choice, by simp only [List.map_cons, All2]; exact ⟨hb, hc1⟩, ?_⟩
  intro f hf
  cases f with
  | nil => simp [All2] at hf
  | cons k ks =>
    simp only [All2] at hf
    simp only [Embeds]
    exact Or.inr ⟨share_bit hb hob hf.1, hc2 ks hf.2⟩

/-- a reference position that is skipped or left over: any kind of the reference will do -/
theorem embeds_skip (ops : List (Nat × Nat)) (r : Nat × Nat) (rs : List (Nat × Nat)) (hr : r.1 &&& fOpMask ≠ 0)
    (hok : test r.1 fFlagImplicit = true ∨ ops = [])
    (htl : ∃ choice, All2 (fun b r => b ∈ bitsOf r) choice (rs.map fun r => r.1 &&& fOpMask) ∧
      ∀ f : List Nat, All2 (fun k b => k &&& b ≠ 0) f choice → Embeds ops rs f) :
    ∃ choice, All2 (fun b r => b ∈ bitsOf r) choice ((r :: rs).map fun r => r.1 &&& fOpMask) ∧
      ∀ f : List Nat, All2 (fun k b => k &&& b ≠ 0) f choice → Embeds ops (r :: rs) f := by
  obtain ⟨b, hb⟩ := any_bit r.1 hr
  obtain ⟨choice, hc1, hc2⟩ := htl
  refine ⟨b :: choice, by simp only [List.map_cons, All2]; exact ⟨hb, hc1⟩, ?_⟩
  intro f hf
  cases f with
  | nil => simp [All2] at hf
  | cons k ks =>
    simp only [All2] at hf
    cases ops with
    | nil => simp only [Embeds]; exact Or.inr (hc2 ks hf.2)
    | cons o os =>
      simp only [Embeds]
      rcases hok with himp | he
      · exact Or.inl ⟨himp, hc2 ks hf.2⟩
      · cases he

theorem embeds_nil : ∀ (rs : List (Nat × Nat)), rs.all (fun r => r.1 &&& fOpMask != 0) = true →
    ∃ choice, All2 (fun b r => b ∈ bitsOf r) choice (rs.map fun r => r.1 &&& fOpMask) ∧
      ∀ f : List Nat, All2 (fun k b => k &&& b ≠ 0) f choice → Embeds [] rs f := by
  intro rs
  induction rs with
  | nil =>
    intro _
    refine ⟨[], by simp [All2], fun f hf => ?_⟩
    cases f with
    | nil => simp [Embeds]
    | cons _ _ => simp [All2] at hf
  | cons r rs ih =>
    intro h
    simp only [List.all_cons, Bool.and_eq_true, bne_iff_ne, ne_eq] at h
    exact embeds_skip [] r rs h.1 (Or.inr rfl) (ih h.2)

/-- the implicit-operand-skipping loop of `validate` -/
theorem embeds_of_skipping (ops refs : List (Nat × Nat)) (oor : Bool)
    (hne : refs.all (fun r => r.1 &&& fOpMask != 0) = true)
    (h : matchSkippingImplicit ops refs oor = (true, false)) :
    ∃ choice, All2 (fun b r => b ∈ bitsOf r) choice (refs.map fun r => r.1 &&& fOpMask) ∧
      ∀ f : List Nat, All2 (fun k b => k &&& b ≠ 0) f choice → Embeds ops refs f := by
  induction ops, refs, oor using matchSkippingImplicit.induct with
  | case1 x oor => exact embeds_nil x hne
  | case2 hd tl oor => unfold matchSkippingImplicit at h; simp at h
  | case3 o os r rs oor himp ih =>
    simp only [List.all_cons, Bool.and_eq_true, bne_iff_ne, ne_eq] at hne
    unfold matchSkippingImplicit at h
    simp only [himp, if_true] at h
    exact embeds_skip (o :: os) r rs hne.1 (Or.inl himp) (ih hne.2 h)
  | case4 o os r rs oor himp oor' hck ih =>
    simp only [List.all_cons, Bool.and_eq_true, bne_iff_ne, ne_eq] at hne
    unfold matchSkippingImplicit at h
    simp only [himp, Bool.false_eq_true, if_false, hck, if_true] at h
    have hoor' : oor' = false := by
      cases oor' with
      | false => rfl
      | true => have := msi_oor os rs true rfl; rw [h] at this; simp at this
    subst hoor'
    exact embeds_step o r os rs (checkOpSig_common o r oor hck).1 (ih hne.2 h)
  | case5 o os r rs oor himp a oor' hck ha =>
    unfold matchSkippingImplicit at h
    simp only [himp, Bool.false_eq_true, if_false, hck] at h
    cases a with
    | true => exact absurd rfl ha
    | false => simp at h

/-- the position-by-position loop of `validate` (operand count = reference count) -/
theorem embeds_of_explicit : ∀ (ops refs : List (Nat × Nat)) (oor : Bool),
    refs.all (fun r => r.1 &&& fOpMask != 0) = true → ops.length = refs.length →
    matchExplicit ops refs oor = (true, false) →
    ∃ choice, All2 (fun b r => b ∈ bitsOf r) choice (refs.map fun r => r.1 &&& fOpMask) ∧
      ∀ f : List Nat, All2 (fun k b => k &&& b ≠ 0) f choice → Embeds ops refs f := by
  intro ops
  induction ops with
  | nil =>
    intro refs oor hne hl _
    cases refs with
    | nil => exact embeds_nil [] hne
    | cons _ _ => simp at hl
  | cons o os ih =>
    intro refs oor hne hl h
    cases refs with
    | nil => simp at hl
    | cons r rs =>
      simp only [List.all_cons, Bool.and_eq_true, bne_iff_ne, ne_eq] at hne
      unfold matchExplicit at h
      cases hck : checkOpSig o r oor with
      | mk a oor' =>
        rw [hck] at h
        simp only at h
        cases a with
        | false => simp at h
        | true =>
          simp only [if_true] at h
          have hoor' : oor' = false := by
            cases oor' with
            | false => rfl
            | true => have := me_oor os rs; rw [h] at this; simp at this
          subst hoor'
          exact embeds_step o r os rs (checkOpSig_common o r oor hck).1 (ih rs false hne.2 (by simpa using hl) h)

end AsmjitVerif.X86Sound
