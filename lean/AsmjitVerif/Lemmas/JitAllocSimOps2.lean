/- C09 refinement (model run ⊑ monitor): `JudgeOk` for query and stale shrink. -/
import AsmjitVerif.Lemmas.JitAllocSimQuery
namespace AsmjitVerif.JitAlloc
open Spec

theorem judge_query {g : Ghost} {s : St} (hS : Sim g s) (hG : Good s) (h byteOff : Nat) : JudgeOk g s (.query h byteOff) := by
  refine ⟨g, ?_, ?_⟩
  · have hget := hS.getH h
    cases hx : g.tab[h]? with
    | none =>
      rw [hx] at hget
      simp only [Option.map_none] at hget
      simp [step, judge, hget, hx]
    | some x =>
      rw [hx] at hget
      simp only [Option.map_some] at hget
      simp only [step, hget]
      cases hf : s.a.findBlock (toH x).blk with
      | none => simp [judge, hx]
      | some b =>
        obtain ⟨hb, hid⟩ := findBlock_some hf
        simp only
        split
        · simp [judge, hx]
        · split
          · simp [judge, hx]
          · rename_i hnoob
            have hlt : (toH x).off + byteOff < b.blockSize := by omega
            obtain ⟨l1, l2⟩ := query_link hS hG hb ((toH x).off + byteOff) hlt
            rw [hid] at l1 l2
            cases hq : s.a.query (toH x).blk ((toH x).off + byteOff) with
            | ok sp =>
              obtain ⟨e1, e2⟩ := l1 sp hq
              have e1' : g.spanAt x.blk (x.off + byteOff) = some (sp.off, sp.size) := e1
              have e2' : sp.blk = x.blk := e2
              simp [judge, hx, rwOf, e1', e2']
            | error e =>
              have e1' : g.spanAt x.blk (x.off + byteOff) = none := l2 e hq
              simp [judge, hx, e1']
  · -- the state does not change
    have : (step s (.query h byteOff)).1 = s := by
      simp only [step]
      cases s.tab[h]? with
      | none => rfl
      | some hd =>
        simp only
        cases s.a.findBlock hd.blk with
        | none => rfl
        | some b =>
          simp only
          split
          · rfl
          · split
            · rfl
            · split <;> rfl
    rw [this]; exact hS

theorem judge_sstale {g : Ghost} {s : St} (hS : Sim g s) (h newSize : Nat) : JudgeOk g s (.sstale h newSize) := by
  have key : (step s (.sstale h newSize)).1 = s ∧
      ((step s (.sstale h newSize)).2 = .dead ∨ (step s (.sstale h newSize)).2 = .gone ∨ (step s (.sstale h newSize)).2 = .busy ∨
        ∃ e, (step s (.sstale h newSize)).2 = .err e) := by
    simp only [step]
    cases s.tab[h]? with
    | none => exact ⟨rfl, Or.inl rfl⟩
    | some hd =>
      simp only
      split
      · exact ⟨rfl, Or.inl rfl⟩
      · cases s.a.findBlock hd.blk with
        | none => exact ⟨rfl, Or.inr (Or.inl rfl)⟩
        | some b =>
          simp only
          split
          · exact ⟨rfl, Or.inr (Or.inl rfl)⟩
          · cases hq : s.a.query hd.blk hd.off with
            | ok sp => exact ⟨rfl, Or.inr (Or.inr (Or.inl rfl))⟩
            | error e =>
              simp only
              obtain ⟨e', he'⟩ := shrinkImpl_of_query_error (n := newSize) hq
              rw [he']
              exact ⟨rfl, Or.inr (Or.inr (Or.inr ⟨e', rfl⟩))⟩
  obtain ⟨k1, k2⟩ := key
  refine ⟨g, ?_, by rw [k1]; exact hS⟩
  rcases k2 with e | e | e | ⟨e', e⟩ <;> rw [e] <;> simp [judge]

end AsmjitVerif.JitAlloc
