/- C09: every protocol operation is one or two elementary state transitions (`Trans`). -/
import AsmjitVerif.Lemmas.JitAllocRetention
namespace AsmjitVerif.JitAlloc


/-- label of a transition: `some (j, byte)` when it is the caller's write of `byte` over handle `j` -/
abbrev TLabel := Option (Nat × Nat)

/-- the elementary state transitions every protocol operation is made of -/
inductive Trans (s : St) : TLabel → St → Prop where
  | same : Trans s none s
  | allocErr (req : Nat) (e : Err) : (s.a.alloc req).2 = .error e →
      Trans s none { a := (s.a.alloc req).1, tab := s.tab ++ [{ live := false, blk := 0, off := 0, size := 0 }] }
  | allocOk (req : Nat) (sp : SpanOut) : (s.a.alloc req).2 = .ok sp →
      Trans s none { a := (s.a.alloc req).1, tab := s.tab ++ [{ live := true, blk := sp.blk, off := sp.off, size := sp.size }] }
  | release (j : Nat) (hd : Handle) : s.tab[j]? = some hd → hd.live = true → (s.a.release hd.blk hd.off).2 = .ok () →
      Trans s none { a := (s.a.release hd.blk hd.off).1, tab := killHandle s.tab j }
  | shrinkSome (j : Nat) (hd : Handle) (newSize sz : Nat) : s.tab[j]? = some hd → hd.live = true → newSize ≠ 0 →
      (s.a.shrinkImpl hd.blk hd.off newSize).2 = .ok (some sz) →
      Trans s none { a := (s.a.shrinkImpl hd.blk hd.off newSize).1, tab := setHandleSize s.tab j sz }
  | shrinkNone (j : Nat) (hd : Handle) (newSize : Nat) : s.tab[j]? = some hd → hd.live = true → newSize ≠ 0 →
      (s.a.shrinkImpl hd.blk hd.off newSize).2 = .ok none →
      Trans s none { a := (s.a.shrinkImpl hd.blk hd.off newSize).1, tab := s.tab }
  | write (j : Nat) (hd : Handle) (byte : Nat) : s.tab[j]? = some hd → hd.live = true →
      Trans s (some (j, byte)) { a := s.a.writeMem hd.blk hd.off hd.size byte, tab := s.tab }
  | reset (hard : Bool) :
      Trans s none { a := s.a.reset hard, tab := s.tab.map fun _ => { live := false, blk := 0, off := 0, size := 0 } }

/-- the caller's write an operation performs: span index and byte -/
def Op.writes : Op → TLabel
  | .write j b => some (j, b % 256)
  | .wtrunc j b _ => some (j, b % 256)
  | _ => none

/-- every operation is one elementary transition, or a write followed by one (write with truncation); only `write` / `wtrunc`
carry the caller's-write label -/
theorem step_trans_lbl {s : St} (hI : Inv s) (op : Op) :
    (∃ l, Trans s l (step s op).1 ∧ (l = op.writes ∨ (l = none ∧ ∀ j byte hd, op.writes = some (j, byte) → s.tab[j]? = some hd → hd.live = false))) ∨
    ∃ m j byte, op.writes = some (j, byte) ∧ Trans s (some (j, byte)) m ∧ Inv m ∧ Trans m none (step s op).1 := by
  have rel : ∀ (s : St), Inv s → ∀ (j : Nat) (hd : Handle), s.tab[j]? = some hd → hd.live = true → ∀ ansOk : Ans,
      Trans s none (match s.a.release hd.blk hd.off with
        | (a, .ok _) => (({ a := a, tab := killHandle s.tab j } : St), ansOk)
        | (a, .error e) => ({ s with a := a }, Ans.err e)).1 := by
    intro s hI j hd hj hl ansOk
    obtain ⟨hok, _⟩ := hI.release_handle hj hl
    have t := Trans.release (s := s) j hd hj hl hok
    rcases hr : s.a.release hd.blk hd.off with ⟨a', (e' | u)⟩
    · rw [hr] at hok; simp at hok
    · rw [hr] at t; exact t
  have shr : ∀ (s : St), Inv s → ∀ (j : Nat) (hd : Handle), s.tab[j]? = some hd → hd.live = true → ∀ newSize : Nat, newSize ≠ 0 →
      Trans s none (match s.a.shrinkImpl hd.blk hd.off newSize with
        | (a, .ok (some sz)) => (({ a := a, tab := setHandleSize s.tab j sz } : St), Ans.size sz)
        | (a, .ok none) => ({ s with a := a }, Ans.size hd.size)
        | (a, .error e) => ({ s with a := a }, Ans.err e)).1 := by
    intro s hI j hd hj hl newSize hns
    rcases hr : s.a.shrinkImpl hd.blk hd.off newSize with ⟨a', (e' | (_ | sz))⟩
    · -- error: the allocator is unchanged
      obtain ⟨b, hb, e, st, n0, o1, o2⟩ := hI.owned j hd hj hl
      have hS : TT s b.id b.pool st n0 := ⟨j, hd, hj, hl, e.symm, o1, o2⟩
      have spec := shrink_spec hI.toAInv hb hS newSize (Nat.pos_of_ne_zero hns) _ _ rfl rfl
      rw [e, ← o1] at spec
      obtain ⟨_, c1, c2, c3⟩ := spec
      have : a' = s.a := by
        rcases Nat.lt_trichotomy n0 ((newSize + s.a.cfg.poolGran b.pool - 1) / s.a.cfg.poolGran b.pool) with hlt | heq | hgt
        · have := c1 hlt; rw [hr] at this; simp at this; exact this.1
        · have := (c2 heq.symm).1; rw [hr] at this; simp at this
        · have := (c3 hgt).1; rw [hr] at this; simp at this
      simp only [this]
      exact Trans.same
    · have t := Trans.shrinkNone (s := s) j hd newSize hj hl hns (by rw [hr])
      rw [hr] at t; exact t
    · have t := Trans.shrinkSome (s := s) j hd newSize sz hj hl hns (by rw [hr])
      rw [hr] at t; exact t
  cases op with
  | alloc req =>
    left
    refine ⟨none, ?_, Or.inl rfl⟩
    simp only [JitAlloc.step]
    rcases hr : s.a.alloc req with ⟨a', (e | sp)⟩
    · have t := Trans.allocErr (s := s) req e (by rw [hr]); rw [hr] at t; exact t
    · have t := Trans.allocOk (s := s) req sp (by rw [hr]); rw [hr] at t; exact t
  | release j =>
    left
    refine ⟨none, ?_, Or.inl rfl⟩
    simp only [JitAlloc.step]
    cases hj : s.tab[j]? with
    | none => exact Trans.same
    | some hd =>
      simp only
      cases hl : hd.live with
      | false => simpa using Trans.same
      | true => simp only [Bool.not_true, Bool.false_eq_true, if_false]; exact rel s hI j hd hj hl _
  | shrink j newSize =>
    left
    refine ⟨none, ?_, Or.inl rfl⟩
    simp only [JitAlloc.step]
    cases hj : s.tab[j]? with
    | none => exact Trans.same
    | some hd =>
      simp only
      cases hl : hd.live with
      | false => simpa using Trans.same
      | true =>
        simp only [Bool.not_true, Bool.false_eq_true, if_false]
        by_cases h0 : newSize = 0
        · simp only [h0, if_true]; exact rel s hI j hd hj hl _
        · simp only [h0, if_false]; exact shr s hI j hd hj hl newSize h0
  | query j off =>
    left
    refine ⟨none, ?_, Or.inl rfl⟩
    simp only [JitAlloc.step]
    cases hj : s.tab[j]? with
    | none => exact Trans.same
    | some hd =>
      simp only
      cases s.a.findBlock hd.blk with
      | none => exact Trans.same
      | some b =>
        simp only
        split
        · exact Trans.same
        · split
          · exact Trans.same
          · split <;> exact Trans.same
  | sstale j newSize =>
    left
    refine ⟨none, ?_, Or.inl rfl⟩
    simp only [JitAlloc.step]
    cases hj : s.tab[j]? with
    | none => exact Trans.same
    | some hd =>
      simp only
      split
      · exact Trans.same
      · cases s.a.findBlock hd.blk with
        | none => exact Trans.same
        | some b =>
          simp only
          split
          · exact Trans.same
          · cases hq : s.a.query hd.blk hd.off with
            | ok sp => exact Trans.same
            | error e =>
              simp only
              obtain ⟨e', he'⟩ := shrinkImpl_of_query_error (n := newSize) hq
              rw [he']
              exact Trans.same
  | write j byte =>
    left
    simp only [JitAlloc.step]
    cases hj : s.tab[j]? with
    | none => exact ⟨none, Trans.same, Or.inr ⟨rfl, fun j' byte' hd' e' h' => by simp only [Op.writes, Option.some.injEq, Prod.mk.injEq] at e'; rw [← e'.1, hj] at h'; cases h'⟩⟩
    | some hd =>
      simp only
      cases hl : hd.live with
      | false => exact ⟨none, by simpa using Trans.same, Or.inr ⟨rfl, fun j' byte' hd' e' h' => by simp only [Op.writes, Option.some.injEq, Prod.mk.injEq] at e'; rw [← e'.1, hj] at h'; cases h'; exact hl⟩⟩
      | true => simp only [Bool.not_true, Bool.false_eq_true, if_false]; exact ⟨_, Trans.write j hd (byte % 256) hj hl, Or.inl rfl⟩
  | wtrunc j byte newSize =>
    simp only [JitAlloc.step]
    cases hj : s.tab[j]? with
    | none => exact Or.inl ⟨none, Trans.same, Or.inr ⟨rfl, fun j' byte' hd' e' h' => by simp only [Op.writes, Option.some.injEq, Prod.mk.injEq] at e'; rw [← e'.1, hj] at h'; cases h'⟩⟩
    | some hd =>
      simp only
      cases hl : hd.live with
      | false => left; exact ⟨none, by simpa using Trans.same, Or.inr ⟨rfl, fun j' byte' hd' e' h' => by simp only [Op.writes, Option.some.injEq, Prod.mk.injEq] at e'; rw [← e'.1, hj] at h'; cases h'; exact hl⟩⟩
      | true =>
        simp only [Bool.not_true, Bool.false_eq_true, if_false]
        have hI' := hI.writeMem hd.blk hd.off hd.size (byte % 256)
        have tw := Trans.write (s := s) j hd (byte % 256) hj hl
        split
        · exact Or.inl ⟨_, tw, Or.inl rfl⟩
        · right
          refine ⟨_, j, byte % 256, rfl, tw, hI', ?_⟩
          by_cases h0 : newSize = 0
          · simp only [h0, if_true]
            exact rel { s with a := s.a.writeMem hd.blk hd.off hd.size (byte % 256) } hI' j hd hj hl _
          · simp only [h0, if_false]
            exact shr { s with a := s.a.writeMem hd.blk hd.off hd.size (byte % 256) } hI' j hd hj hl newSize h0
  | read j =>
    left
    refine ⟨none, ?_, Or.inl rfl⟩
    simp only [JitAlloc.step]
    cases hj : s.tab[j]? with
    | none => exact Trans.same
    | some hd =>
      simp only
      split
      · exact Trans.same
      · split <;> exact Trans.same
  | mem => exact Or.inl ⟨none, Trans.same, Or.inl rfl⟩
  | sweep => exact Or.inl ⟨none, Trans.same, Or.inl rfl⟩
  | blocks => exact Or.inl ⟨none, Trans.same, Or.inl rfl⟩
  | dump => exact Or.inl ⟨none, Trans.same, Or.inl rfl⟩
  | reset hard => exact Or.inl ⟨none, Trans.reset hard, Or.inl rfl⟩
  | isinit => exact Or.inl ⟨none, Trans.same, Or.inl rfl⟩
  | rforeign k => exact Or.inl ⟨none, Trans.same, Or.inl rfl⟩
  | qforeign k => exact Or.inl ⟨none, Trans.same, Or.inl rfl⟩
  | sforeign => exact Or.inl ⟨none, Trans.same, Or.inl rfl⟩

theorem step_trans {s : St} (hI : Inv s) (op : Op) :
    (∃ l, Trans s l (step s op).1) ∨ ∃ m l1 l2, Trans s l1 m ∧ Inv m ∧ Trans m l2 (step s op).1 := by
  rcases step_trans_lbl hI op with ⟨l, t, _⟩ | ⟨m, _, _, _, t1, hm, t2⟩
  · exact Or.inl ⟨l, t⟩
  · exact Or.inr ⟨m, _, _, t1, hm, t2⟩

end AsmjitVerif.JitAlloc
