/- C06 part 2 – one visit of a variable in the register phase, a whole pass, the pass loop. -/
import AsmjitVerif.Lemmas.C06ShuffleStep
import AsmjitVerif.Lemmas.C06ShuffleSwap
namespace AsmjitVerif.C06S
open AsmjitVerif.CallConv AsmjitVerif.Shuffle AsmjitVerif.Machine

theorem lowestAvailable_spec (w : WorkData) (extra : Nat → Bool) (r : Nat) (h : w.lowestAvailable extra = some r) :
    r < 32 ∧ w.isAssigned r = false := by
  unfold WorkData.lowestAvailable at h
  have hm := List.mem_of_find?_eq_some h
  have hp := List.find?_some h
  simp only [Bool.and_eq_true, Bool.not_eq_true'] at hp
  exact ⟨List.mem_range.1 hm, hp.1.2⟩

/-- what one visit guarantees -/
structure VisitPost (p : Params) (e : Emit) (fl : Flags) (i : Nat) (e' : Emit) (fl' : Flags) : Prop where
  wf : ∃ M', WF p e' M'
  mono : ∀ j, j < p.n → (e.ctx.var j).done = true → (e'.ctx.var j).done = true
  pend : fl.pending = true → fl'.pending = true
  visited : (e'.ctx.var i).done = true ∨ fl'.pending = true ∨ (e'.ctx.var i).cur.isReg = false
  kind : ∀ j, (e'.ctx.var j).cur.isReg = (e.ctx.var j).cur.isReg

theorem shuffleVar_ok (p : Params) (hy : Hyp p) (e : Emit) (M : State) (hw : WF p e M) (fl : Flags) (i : Nat) (hi : i < p.n)
    (e' : Emit) (fl' : Flags) (h : shuffleVar p.cfg (e, fl) i = .ok (e', fl')) : VisitPost p e fl i e' fl' := by
  unfold shuffleVar at h
  simp only at h
  by_cases hd : (e.ctx.var i).done = true
  · simp only [hd, Bool.true_or, if_true] at h
    cases h
    exact ⟨⟨M, hw⟩, fun _ _ h => h, fun h => h, Or.inl hd, fun _ => rfl⟩
  · have hd' : (e.ctx.var i).done = false := by simpa using hd
    by_cases hreg : (e.ctx.var i).cur.isReg = true
    case neg =>
      have hreg' : (e.ctx.var i).cur.isReg = false := by simpa using hreg
      simp only [hd', hreg', Bool.not_false, Bool.or_true, if_true] at h
      cases h
      exact ⟨⟨M, hw⟩, fun _ _ h => h, fun h => h, Or.inr (Or.inr hreg'), fun _ => rfl⟩
    have hv := hw.var i hi hreg
    have h0 : ((e.ctx.var i).done || !(e.ctx.var i).cur.isReg) = false := by simp [hd', hreg]
    simp only [h0, Bool.false_eq_true, if_false] at h
    have hgne : ¬ (groupOf (e.ctx.var i).cur.regType ≠ groupOf (e.ctx.var i).out.regType) := by simp [hv.grp]
    simp only [hgne, if_false] at h
    by_cases hfree : (!(e.ctx.w (groupOf (e.ctx.var i).out.regType)).isAssigned (e.ctx.var i).out.regId ||
        decide ((e.ctx.var i).cur.regId = (e.ctx.var i).out.regId)) = true
    · simp only [hfree, if_true] at h
      cases hem : emitMove p.cfg e i (e.ctx.var i).out.regId with
      | error x => simp [hem] at h
      | ok e1 =>
        simp only [hem] at h
        cases h
        have hfree' : physAt e.ctx (groupOf (e.ctx.var i).out.regType) (e.ctx.var i).out.regId = none ∨
            (e.ctx.var i).out.regId = (e.ctx.var i).cur.regId := by
          simp only [Bool.or_eq_true, Bool.not_eq_true', decide_eq_true_eq] at hfree
          rcases hfree with h1 | h1
          · left; unfold WorkData.isAssigned at h1; unfold physAt
            cases hh : (e.ctx.w (groupOf (e.ctx.var i).out.regType)).phys.getD (e.ctx.var i).out.regId none with
            | none => rfl
            | some x => rw [hh] at h1; simp at h1
          · right; exact h1.symm
        obtain ⟨M', hw', hm, hdn, hk⟩ := emitMove_ok p hy e M hw i _ hi hreg hd' hv.outLt hfree' (fun _ => rfl) _ hem
        exact ⟨⟨M', hw'⟩, hm, fun _ => rfl, Or.inr (Or.inl rfl), hk⟩
    · have hfree2 : (!(e.ctx.w (groupOf (e.ctx.var i).out.regType)).isAssigned (e.ctx.var i).out.regId ||
          decide ((e.ctx.var i).cur.regId = (e.ctx.var i).out.regId)) = false := by simpa using hfree
      simp only [hfree2, Bool.false_eq_true, if_false] at h
      simp only [Bool.or_eq_false_iff, Bool.not_eq_false', decide_eq_false_iff_not] at hfree2
      obtain ⟨hass, hne⟩ := hfree2
      -- the occupant of the destination register
      have hsome : ∃ altId, physAt e.ctx (groupOf (e.ctx.var i).out.regType) (e.ctx.var i).out.regId = some altId := by
        unfold WorkData.isAssigned at hass; unfold physAt
        cases hh : (e.ctx.w (groupOf (e.ctx.var i).out.regType)).phys.getD (e.ctx.var i).out.regId none with
        | none => rw [hh] at hass; simp at hass
        | some x => exact ⟨x, rfl⟩
      obtain ⟨altId, hphys⟩ := hsome
      have hphys2 := hphys; unfold physAt at hphys2
      simp only [hphys2, Option.getD_some] at h
      obtain ⟨haltLt, _, _, harg⟩ := hw.inv _ _ altId hv.grpLt hv.outLt hphys
      have ha := hw.var altId haltLt harg
      by_cases hcnd : (!(e.ctx.var altId).outInit || ((e.ctx.var altId).out.isReg &&
          decide (groupOf (e.ctx.var altId).out.regType = groupOf (e.ctx.var i).cur.regType) &&
          decide ((e.ctx.var altId).out.regId = (e.ctx.var i).cur.regId))) = true
      · simp only [hcnd, if_true] at h
        have hcond : (e.ctx.var altId).out.regId = (e.ctx.var i).cur.regId := by
          simp only [ha.outInit, Bool.not_true, Bool.false_or, Bool.and_eq_true, decide_eq_true_eq] at hcnd
          exact hcnd.2
        by_cases hsw : hasSwap p.cfg.arch (groupOf (e.ctx.var i).cur.regType) = true
        · simp only [hsw, if_true] at h
          split at h
          · exact absurd h (by simp)
          · rename_i ins hrs
            have hrs' : regSwap p.cfg (swapRt (e.ctx.var i).cur.regType (e.ctx.var altId).cur.regType)
                (e.ctx.var i).out.regId (e.ctx.var i).cur.regId = some ins := hrs
            cases h
            obtain ⟨M', hw', hm, hdn, hk⟩ := swap_ok p hy e M hw i altId hi hreg hd' hne hphys hcond hsw ins hrs' _ _ _ rfl rfl rfl
            refine ⟨⟨M', hw'⟩, hm, fun h => by simp [h], ?_, hk⟩
            rcases hdn with hdn | hdn
            · exact Or.inl hdn
            · refine Or.inr (Or.inl ?_)
              unfold needsExt at hdn ⊢
              simp only [Bool.or_eq_true]
              exact Or.inl (Or.inr hdn)
        · have hsw' : hasSwap p.cfg.arch (groupOf (e.ctx.var i).cur.regType) = false := by simpa using hsw
          simp only [hsw', Bool.false_eq_true, if_false] at h
          cases hla : (e.ctx.w (groupOf (e.ctx.var i).out.regType)).lowestAvailable with
          | none => simp only [hla] at h; cases h; exact ⟨⟨M, hw⟩, fun _ _ h => h, fun _ => rfl, Or.inr (Or.inl rfl), fun _ => rfl⟩
          | some r0 =>
            simp only [hla] at h
            have fin : ∀ pick e1, pick < 32 → (e.ctx.w (groupOf (e.ctx.var i).out.regType)).isAssigned pick = false →
                emitMove p.cfg e i pick = .ok e1 →
                VisitPost p e fl i e1 { didSome := true, pending := true, postponed := fl.postponed } := by
              intro pick e1 hp1 hp2 hem
              have hfree' : physAt e.ctx (groupOf (e.ctx.var i).out.regType) pick = none := by
                unfold WorkData.isAssigned at hp2; unfold physAt
                cases hh : (e.ctx.w (groupOf (e.ctx.var i).out.regType)).phys.getD pick none with
                | none => rfl
                | some x => rw [hh] at hp2; simp at hp2
              obtain ⟨M', hw', hm, hdn, hk⟩ := emitMove_ok p hy e M hw i pick hi hreg hd' hp1 (Or.inl hfree')
                (fun hs => by rw [← hv.grp, hsw'] at hs; exact absurd hs (by simp)) _ hem
              exact ⟨⟨M', hw'⟩, hm, fun _ => rfl, Or.inr (Or.inl rfl), hk⟩
            cases hin : (e.ctx.w (groupOf (e.ctx.var i).out.regType)).lowestAvailable
                (fun r => !bit (e.ctx.w (groupOf (e.ctx.var i).out.regType)).dstRegs r) with
            | some r1 =>
              simp only [hin] at h
              split at h
              · exact absurd h (by simp)
              · rename_i e1 hem
                cases h
                exact fin r1 _ (lowestAvailable_spec _ _ _ hin).1 (lowestAvailable_spec _ _ _ hin).2 hem
            | none =>
              simp only [hin, Option.getD_some] at h
              split at h
              · exact absurd h (by simp)
              · rename_i e1 hem
                cases h
                exact fin r0 _ (lowestAvailable_spec _ _ _ hla).1 (lowestAvailable_spec _ _ _ hla).2 hem
      · have hcnd' : (!(e.ctx.var altId).outInit || ((e.ctx.var altId).out.isReg &&
            decide (groupOf (e.ctx.var altId).out.regType = groupOf (e.ctx.var i).cur.regType) &&
            decide ((e.ctx.var altId).out.regId = (e.ctx.var i).cur.regId))) = false := by simpa using hcnd
        simp only [hcnd', Bool.false_eq_true, if_false] at h
        cases h
        exact ⟨⟨M, hw⟩, fun _ _ h => h, fun _ => rfl, Or.inr (Or.inl rfl), fun _ => rfl⟩

theorem pass_ok (p : Params) (hy : Hyp p) : ∀ (L : List Nat) (e : Emit) (M : State) (fl : Flags), WF p e M →
    (∀ j ∈ L, j < p.n) → ∀ e' fl', L.foldlM (shuffleVar p.cfg) (e, fl) = .ok (e', fl') →
    (∃ M', WF p e' M') ∧ (∀ j, j < p.n → (e.ctx.var j).done = true → (e'.ctx.var j).done = true) ∧
    (fl.pending = true → fl'.pending = true) ∧
    (∀ j ∈ L, (e'.ctx.var j).done = true ∨ fl'.pending = true ∨ (e'.ctx.var j).cur.isReg = false) ∧
    (∀ j, (e'.ctx.var j).cur.isReg = (e.ctx.var j).cur.isReg) := by
  intro L
  induction L with
  | nil =>
    intro e M fl hw _ e' fl' h
    simp only [List.foldlM_nil, pure, Except.pure] at h
    cases h
    exact ⟨⟨M, hw⟩, fun _ _ h => h, fun h => h, fun j hj => absurd hj (by simp), fun _ => rfl⟩
  | cons a L ih =>
    intro e M fl hw hL e' fl' h
    rw [List.foldlM_cons] at h
    cases hs : shuffleVar p.cfg (e, fl) a with
    | error x => rw [hs] at h; simp [bind, Except.bind] at h
    | ok s1 =>
      obtain ⟨e1, fl1⟩ := s1
      rw [hs] at h
      simp only [bind, Except.bind] at h
      have hv := shuffleVar_ok p hy e M hw fl a (hL a (by simp)) e1 fl1 hs
      obtain ⟨M1, hw1⟩ := hv.wf
      obtain ⟨hwf, hmono, hpend, hvis, hkind⟩ := ih e1 M1 fl1 hw1 (fun j hj => hL j (by simp [hj])) e' fl' h
      refine ⟨hwf, fun j hj hd => hmono j hj (hv.mono j hj hd), fun hp => hpend (hv.pend hp), ?_, fun j => (hkind j).trans (hv.kind j)⟩
      intro j hj
      rcases List.mem_cons.1 hj with rfl | hj'
      · rcases hv.visited with h1 | h1 | h1
        · exact Or.inl (hmono _ (hL _ (by simp)) h1)
        · exact Or.inr (Or.inl (hpend h1))
        · exact Or.inr (Or.inr ((hkind _).trans h1))
      · exact hvis j hj'

theorem loop_ok (p : Params) (hy : Hyp p) : ∀ (fuel : Nat) (e : Emit) (M : State) (fl : Flags), WF p e M → fl.pending = false →
    ∀ e', shuffleLoop p.cfg p.n fuel e fl = .ok e' →
    ∃ M', WF p e' M' ∧ ∀ j, j < p.n → (e'.ctx.var j).cur.isReg = true → (e'.ctx.var j).done = true := by
  intro fuel
  induction fuel with
  | zero => intro e M fl _ _ e' h; simp [shuffleLoop] at h
  | succ fuel ih =>
    intro e M fl hw hfl e' h
    unfold shuffleLoop at h
    cases hs : (List.range p.n).foldlM (shuffleVar p.cfg) (e, fl) with
    | error x => rw [hs] at h; simp at h
    | ok s1 =>
      obtain ⟨e1, fl1⟩ := s1
      rw [hs] at h
      simp only at h
      obtain ⟨⟨M1, hw1⟩, _, _, hvis, _⟩ := pass_ok p hy (List.range p.n) e M fl hw (fun j hj => List.mem_range.1 hj) e1 fl1 hs
      by_cases hp : fl1.pending = true
      · simp only [hp, Bool.not_true, Bool.false_eq_true, if_false] at h
        split at h
        · exact absurd h (by simp)
        · exact ih e1 M1 _ hw1 (by split <;> rfl) e' h
      · have hp' : fl1.pending = false := by simpa using hp
        simp only [hp', Bool.not_false, if_true] at h
        cases h
        refine ⟨M1, hw1, fun j hj hr => ?_⟩
        rcases hvis j (List.mem_range.2 hj) with h1 | h1 | h1
        · exact h1
        · rw [hp'] at h1; exact absurd h1 (by simp)
        · rw [hr] at h1; exact absurd h1 (by simp)

/-- **register phase**: from a well-formed context, whatever the pass loop emits with `ok` leaves every variable's destination
    register holding that variable in destination form -/
theorem regphase_correct (p : Params) (hy : Hyp p) (e : Emit) (M : State) (hw : WF p e M) (fuel : Nat) (e' : Emit)
    (h : shuffleLoop p.cfg p.n fuel e {} = .ok e') (hall : ∀ i, i < p.n → (e'.ctx.var i).cur.isReg = true) :
    ∃ M', run p.vis p.f p.cfg.arch p.M0 e'.out = some M' ∧
      ∀ i, i < p.n → destOk M' i (.reg (groupOf (p.out i).regType) (p.out i).regId) = true := by
  obtain ⟨M', hw', hdone⟩ := loop_ok p hy fuel e M {} hw rfl e' h
  refine ⟨M', hw'.runs, fun i hi => ?_⟩
  have hv := hw'.var i hi (hall i hi)
  obtain ⟨tok, hget, htv, _, hd⟩ := hv.tok
  obtain ⟨hreg, hdv⟩ := hd (hdone i hi (hall i hi))
  unfold destOk
  have : M'.get (Loc.reg (groupOf (p.out i).regType) (p.out i).regId) = some tok := by
    rw [← hv.out, ← hv.grp, ← hreg]; exact hget
  simp [this, htv, hdv]

end AsmjitVerif.C06S
