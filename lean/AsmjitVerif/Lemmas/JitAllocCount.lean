/- `allocation_count` equals the number of live spans in every reachable state (C09, statistics). -/
import AsmjitVerif.Lemmas.JitAllocStep
namespace AsmjitVerif.JitAlloc

def liveCount (tab : List Handle) : Nat := tab.countP (·.live)

theorem mapIdx_self {α} (f : Nat → α → α) (xs : List α) (h : ∀ i x, f i x = x) : xs.mapIdx f = xs := by
  apply List.ext_getElem?
  intro i
  simp only [List.getElem?_mapIdx]
  cases xs[i]? <;> simp [h]

theorem killHandle_cons_zero (x : Handle) (xs : List Handle) : killHandle (x :: xs) 0 = { x with live := false } :: xs := by
  simp only [killHandle, List.mapIdx_cons]
  congr 1
  exact mapIdx_self _ _ (by intro i x; simp)

theorem killHandle_cons_succ (x : Handle) (xs : List Handle) (j : Nat) : killHandle (x :: xs) (j + 1) = x :: killHandle xs j := by
  simp only [killHandle, List.mapIdx_cons]
  congr 1
  apply List.mapIdx_eq_mapIdx_iff.mpr
  intro i hi
  simp

theorem liveCount_kill : ∀ (tab : List Handle) (j : Nat) (hd : Handle), tab[j]? = some hd → hd.live = true →
    liveCount (killHandle tab j) + 1 = liveCount tab := by
  intro tab
  induction tab with
  | nil => intro j hd h; simp at h
  | cons x xs ih =>
    intro j hd h hl
    cases j with
    | zero =>
      simp at h; subst h
      rw [killHandle_cons_zero]
      simp [liveCount, List.countP_cons, hl]
    | succ j =>
      simp at h
      rw [killHandle_cons_succ]
      have := ih j hd h hl
      simp only [liveCount, List.countP_cons] at this ⊢
      omega

theorem liveCount_setSize (tab : List Handle) (j sz : Nat) : liveCount (setHandleSize tab j sz) = liveCount tab := by
  unfold liveCount setHandleSize
  induction tab generalizing j with
  | nil => simp
  | cons x xs ih =>
    simp only [List.mapIdx_cons, List.countP_cons]
    cases j with
    | zero =>
      rw [mapIdx_self _ xs (by intro i y; simp)]
      simp
    | succ j =>
      have := ih j
      have e : (List.mapIdx (fun i y => if i + 1 = j + 1 then ({ y with size := sz } : Handle) else y) xs) =
          (List.mapIdx (fun i y => if i = j then ({ y with size := sz } : Handle) else y) xs) := by
        apply List.mapIdx_eq_mapIdx_iff.mpr
        intro i hi; simp
      rw [e, this]
      simp

theorem liveCount_dead (tab : List Handle) : liveCount (tab.map fun _ => ({ live := false, blk := 0, off := 0, size := 0 } : Handle)) = 0 := by
  unfold liveCount
  induction tab with
  | nil => rfl
  | cons x xs ih => simp [List.countP_cons, ih]



theorem alloc_allocCount (a : Alloc) (req : Nat) :
    (a.alloc req).1.allocCount = a.allocCount + (match (a.alloc req).2 with | .ok _ => 1 | .error _ => 0) := by
  unfold Alloc.alloc
  simp only
  split
  · rfl
  · split
    · rfl
    · unfold Alloc.allocIn
      simp only
      split <;> rfl

theorem release_allocCount (a : Alloc) (blk off : Nat) (b : Block) (hf : a.findBlock blk = some b) :
    (a.release blk off).1.allocCount = a.allocCount - 1 := by
  unfold Alloc.release
  simp only [hf]
  repeat (first | rfl | split)

theorem shrinkImpl_allocCount (a : Alloc) (blk off n : Nat) : (a.shrinkImpl blk off n).1.allocCount = a.allocCount := by
  unfold Alloc.shrinkImpl
  split
  · rfl
  · simp only
    repeat (first | rfl | split)

/-- `allocation_count` = number of live spans -/
def CInv (s : St) : Prop := s.a.allocCount = liveCount s.tab

theorem liveCount_append (tab : List Handle) (h : Handle) : liveCount (tab ++ [h]) = liveCount tab + (if h.live then 1 else 0) := by
  simp [liveCount, List.countP_append, List.countP_cons]

theorem liveCount_pos {tab : List Handle} {j : Nat} {hd : Handle} (hj : tab[j]? = some hd) (hl : hd.live = true) : 0 < liveCount tab := by
  have := liveCount_kill tab j hd hj hl; omega

theorem CInv.step {s : St} (hI : Inv s) (hC : CInv s) (op : Op) : CInv (step s op).1 := by
  unfold CInv at *
  have rel : ∀ (s : St), Inv s → s.a.allocCount = liveCount s.tab → ∀ (j : Nat) (hd : Handle), s.tab[j]? = some hd → hd.live = true →
      ∀ ansOk : Ans,
      (match s.a.release hd.blk hd.off with
        | (a, .ok _) => (({ a := a, tab := killHandle s.tab j } : St), ansOk)
        | (a, .error e) => ({ s with a := a }, Ans.err e)).1.a.allocCount =
      liveCount (match s.a.release hd.blk hd.off with
        | (a, .ok _) => (({ a := a, tab := killHandle s.tab j } : St), ansOk)
        | (a, .error e) => ({ s with a := a }, Ans.err e)).1.tab := by
    intro s hI hC j hd hj hl ansOk
    obtain ⟨hok, _⟩ := hI.release_handle hj hl
    obtain ⟨b, hb, e, _⟩ := hI.owned j hd hj hl
    have hf := findBlock_of_mem hI.ids hb
    rw [e] at hf
    have hc := release_allocCount s.a hd.blk hd.off b hf
    have hk := liveCount_kill s.tab j hd hj hl
    rcases hr : s.a.release hd.blk hd.off with ⟨a', (e' | u)⟩
    · rw [hr] at hok; simp at hok
    · rw [hr] at hc
      simp only at hc ⊢
      omega
  have shr : ∀ (s : St), s.a.allocCount = liveCount s.tab → ∀ (j : Nat) (hd : Handle) (newSize : Nat),
      (match s.a.shrinkImpl hd.blk hd.off newSize with
        | (a, .ok (some sz)) => (({ a := a, tab := setHandleSize s.tab j sz } : St), Ans.size sz)
        | (a, .ok none) => ({ s with a := a }, Ans.size hd.size)
        | (a, .error e) => ({ s with a := a }, Ans.err e)).1.a.allocCount =
      liveCount (match s.a.shrinkImpl hd.blk hd.off newSize with
        | (a, .ok (some sz)) => (({ a := a, tab := setHandleSize s.tab j sz } : St), Ans.size sz)
        | (a, .ok none) => ({ s with a := a }, Ans.size hd.size)
        | (a, .error e) => ({ s with a := a }, Ans.err e)).1.tab := by
    intro s hC j hd newSize
    have hc := shrinkImpl_allocCount s.a hd.blk hd.off newSize
    rcases hr : s.a.shrinkImpl hd.blk hd.off newSize with ⟨a', (e | (_ | sz))⟩ <;> rw [hr] at hc <;> simp only at hc ⊢
    · omega
    · omega
    · rw [liveCount_setSize]; omega
  cases op with
  | alloc req =>
    have hc := alloc_allocCount s.a req
    simp only [JitAlloc.step]
    rcases hr : s.a.alloc req with ⟨a', (e | sp)⟩ <;> rw [hr] at hc <;> simp only at hc ⊢ <;> rw [liveCount_append] <;> simp <;> omega
  | release j =>
    simp only [JitAlloc.step]
    cases hj : s.tab[j]? with
    | none => exact hC
    | some hd =>
      simp only
      cases hl : hd.live with
      | false => simpa using hC
      | true => simp only [Bool.not_true, Bool.false_eq_true, if_false]; exact rel s hI hC j hd hj hl _
  | shrink j newSize =>
    simp only [JitAlloc.step]
    cases hj : s.tab[j]? with
    | none => exact hC
    | some hd =>
      simp only
      cases hl : hd.live with
      | false => simpa using hC
      | true =>
        simp only [Bool.not_true, Bool.false_eq_true, if_false]
        by_cases h0 : newSize = 0
        · simp only [h0, if_true]; exact rel s hI hC j hd hj hl _
        · simp only [h0, if_false]; exact shr s hC j hd newSize
  | query j off =>
    simp only [JitAlloc.step]
    cases hj : s.tab[j]? with
    | none => exact hC
    | some hd =>
      simp only
      cases s.a.findBlock hd.blk with
      | none => exact hC
      | some b =>
        simp only
        split
        · exact hC
        · split
          · exact hC
          · split <;> exact hC
  | sstale j newSize =>
    simp only [JitAlloc.step]
    cases hj : s.tab[j]? with
    | none => exact hC
    | some hd =>
      simp only
      split
      · exact hC
      · cases s.a.findBlock hd.blk with
        | none => exact hC
        | some b =>
          simp only
          split
          · exact hC
          · cases hq : s.a.query hd.blk hd.off with
            | ok sp => exact hC
            | error e =>
              simp only
              obtain ⟨e', he'⟩ := shrinkImpl_of_query_error (n := newSize) hq
              rw [he']
              exact hC
  | write j byte =>
    simp only [JitAlloc.step]
    cases hj : s.tab[j]? with
    | none => exact hC
    | some hd =>
      simp only
      split
      · exact hC
      · exact hC
  | wtrunc j byte newSize =>
    simp only [JitAlloc.step]
    cases hj : s.tab[j]? with
    | none => exact hC
    | some hd =>
      simp only
      cases hl : hd.live with
      | false => simpa using hC
      | true =>
        simp only [Bool.not_true, Bool.false_eq_true, if_false]
        have hw := hI.writeMem hd.blk hd.off hd.size (byte % 256)
        split
        · exact hC
        · by_cases h0 : newSize = 0
          · simp only [h0, if_true]
            exact rel { s with a := s.a.writeMem hd.blk hd.off hd.size (byte % 256) } hw hC j hd hj hl _
          · simp only [h0, if_false]
            exact shr { s with a := s.a.writeMem hd.blk hd.off hd.size (byte % 256) } hC j hd newSize
  | read j =>
    simp only [JitAlloc.step]
    cases hj : s.tab[j]? with
    | none => exact hC
    | some hd =>
      simp only
      split
      · exact hC
      · split <;> exact hC
  | mem => exact hC
  | sweep => exact hC
  | blocks => exact hC
  | dump => exact hC
  | reset hard =>
    simp only [JitAlloc.step]
    rw [liveCount_dead]
    rfl
  | isinit => exact hC
  | rforeign k => exact hC
  | qforeign k => exact hC
  | sforeign => exact hC

theorem CInv.finalState {s : St} (hI : Inv s) (hC : CInv s) (ops : List Op) : CInv (finalState s ops) := by
  induction ops generalizing s with
  | nil => exact hC
  | cons op ops ih => exact ih (hI.step op) (hC.step hI op)

end AsmjitVerif.JitAlloc
