/-
ArenaList (Model/ListPool.lean) refines a plain list — full development (supersedes the partial one in
C18ListPool.lean).  The list object is treated as the sentinel node 0 of a circular list: `lk h l true 0 = l.first`,
`lk h l false 0 = l.last`; `LL N P p xs q` is a two-ended chain and is symmetric under reversal (`LL_mirror`), so every
insertion is "put `n` between `a` and `b = next a`" and every removal "take `n` out between `prev n` and `next n`".
-/
import AsmjitVerif.Lemmas.C18ListPool
namespace AsmjitVerif.ListPool2
set_option linter.unusedSimpArgs false
open AsmjitVerif.ListPool AsmjitVerif.Spec.C18HashList

/-! ### abstract two-ended chains -/

def LL (N P : Nat → Nat) : Nat → List Nat → Nat → Prop
  | p, [], q => N p = q ∧ P q = p
  | p, x :: xs, q => N p = x ∧ P x = p ∧ LL N P x xs q

theorem LL_split (N P : Nat → Nat) (p q a : Nat) (L R : List Nat) :
    LL N P p (L ++ a :: R) q ↔ LL N P p L a ∧ LL N P a R q := by
  induction L generalizing p with
  | nil => simp [LL, and_assoc]
  | cons x L ih => simp [LL, ih, and_assoc]

theorem LL_snoc (N P : Nat → Nat) (p q y : Nat) (xs : List Nat) :
    LL N P p (xs ++ [y]) q ↔ LL N P p xs y ∧ N y = q ∧ P q = y := by
  rw [LL_split]; simp [LL]

theorem LL_mirror (N P : Nat → Nat) (p q : Nat) (xs : List Nat) (h : LL N P p xs q) : LL P N q xs.reverse p := by
  induction xs generalizing p with
  | nil => exact ⟨h.2, h.1⟩
  | cons x xs ih =>
    obtain ⟨h1, h2, h3⟩ := h
    rw [List.reverse_cons, LL_snoc]
    exact ⟨ih x h3, h2, h1⟩

theorem LL_congr (N P N' P' : Nat → Nat) (p q : Nat) (xs : List Nat)
    (hN : ∀ m, m = p ∨ m ∈ xs → N' m = N m) (hP : ∀ m, m ∈ xs ∨ m = q → P' m = P m)
    (h : LL N P p xs q) : LL N' P' p xs q := by
  induction xs generalizing p with
  | nil => exact ⟨by rw [hN p (Or.inl rfl)]; exact h.1, by rw [hP q (Or.inr rfl)]; exact h.2⟩
  | cons x xs ih =>
    obtain ⟨h1, h2, h3⟩ := h
    refine ⟨by rw [hN p (Or.inl rfl)]; exact h1, by rw [hP x (Or.inl List.mem_cons_self)]; exact h2, ?_⟩
    exact ih x (fun m hm => hN m (Or.inr (by rcases hm with e | e; exact e ▸ List.mem_cons_self;
                                               exact List.mem_cons_of_mem _ e)))
      (fun m hm => hP m (by rcases hm with e | e; exact Or.inl (List.mem_cons_of_mem _ e); exact Or.inr e)) h3

theorem LL_head (N P : Nat → Nat) (p q : Nat) (xs : List Nat) (h : LL N P p xs q) : N p = xs.headD q := by
  cases xs with
  | nil => exact h.1
  | cons x xs => exact h.1

theorem headD_mem (R : List Nat) (q : Nat) : R.headD q = q ∨ R.headD q ∈ R := by
  cases R with
  | nil => exact Or.inl rfl
  | cons r R => exact Or.inr List.mem_cons_self

/-- put `n` right after the chain start `a` -/
theorem LL_ins_head (N P N' P' : Nat → Nat) (a n q b : Nat) (R : List Nat) (hb : b = R.headD q)
    (hll : LL N P a R q) (hnd : (a :: R).Nodup) (hqR : q ∉ R) (hnR : n ∉ R) (hnq : n ≠ q)
    (hNa : N' a = n) (hNn : N' n = b) (hPb : P' b = n) (hPn : P' n = a)
    (hN : ∀ m, m ≠ a → m ≠ n → N' m = N m) (hP : ∀ m, m ≠ b → m ≠ n → P' m = P m) :
    LL N' P' a (n :: R) q := by
  cases R with
  | nil =>
    have : b = q := hb
    subst this
    exact ⟨hNa, hPn, hNn, hPb⟩
  | cons r R =>
    have : b = r := hb
    subst this
    obtain ⟨_, _, h3⟩ := hll
    rw [List.nodup_cons] at hnd
    obtain ⟨har, hnd2⟩ := hnd
    rw [List.nodup_cons] at hnd2
    refine ⟨hNa, hPn, hNn, hPb, ?_⟩
    apply LL_congr N P N' P' b q R _ _ h3
    · intro m hm
      have hmR : m ∈ b :: R := by rcases hm with e | e; exact e ▸ List.mem_cons_self; exact List.mem_cons_of_mem _ e
      exact hN m (fun e => har (e ▸ hmR)) (fun e => hnR (e ▸ hmR))
    · intro m hm
      rcases hm with e | e
      · exact hP m (fun e' => hnd2.1 (e' ▸ e)) (fun e' => hnR (e' ▸ List.mem_cons_of_mem _ e))
      · exact hP m (fun e' => hqR (by rw [← e, e']; exact List.mem_cons_self)) (fun e' => hnq (by rw [← e', e]))

/-- put `n` right after the member `a` -/
theorem LL_ins_mid (N P N' P' : Nat → Nat) (p a n q b : Nat) (L R : List Nat) (hb : b = R.headD q)
    (hll : LL N P p (L ++ a :: R) q) (hnd : (L ++ a :: R).Nodup) (hp : p ∉ L ++ a :: R) (hq : q ∉ L ++ a :: R)
    (hn : n ∉ L ++ a :: R) (hnp : n ≠ p) (hnq : n ≠ q)
    (hNa : N' a = n) (hNn : N' n = b) (hPb : P' b = n) (hPn : P' n = a)
    (hN : ∀ m, m ≠ a → m ≠ n → N' m = N m) (hP : ∀ m, m ≠ b → m ≠ n → P' m = P m) :
    LL N' P' p (L ++ a :: n :: R) q := by
  rw [LL_split] at hll ⊢
  obtain ⟨h1, h2⟩ := hll
  have hnd' := List.nodup_append.1 hnd
  obtain ⟨hndL, hndR, hdis⟩ := hnd'
  have hqR : q ∉ R := fun e => hq (List.mem_append_right _ (List.mem_cons_of_mem _ e))
  have hnR : n ∉ R := fun e => hn (List.mem_append_right _ (List.mem_cons_of_mem _ e))
  have hbm : b = q ∨ b ∈ R := hb ▸ headD_mem R q
  have hne : ∀ m, m ∈ L ∨ m = a → m ≠ b := by
    intro m hm e
    rcases hbm with hb1 | hb1
    · apply hq; rw [← hb1, ← e]
      rcases hm with h | h
      · exact List.mem_append_left _ h
      · exact List.mem_append_right _ (h ▸ List.mem_cons_self)
    · rcases hm with h | h
      · exact hdis m h b (List.mem_cons_of_mem _ hb1) e
      · exact (List.nodup_cons.1 hndR).1 (by rw [← h, e]; exact hb1)
  refine ⟨?_, LL_ins_head N P N' P' a n q b R hb h2 hndR hqR hnR hnq hNa hNn hPb hPn hN hP⟩
  apply LL_congr N P N' P' p a L _ _ h1
  · intro m hm
    apply hN m
    · rcases hm with e | e
      · intro e'; apply hp; rw [← e, e']; exact List.mem_append_right _ List.mem_cons_self
      · exact fun e' => hdis m e a List.mem_cons_self e'
    · rcases hm with e | e
      · exact fun e' => hnp (by rw [← e', e])
      · exact fun e' => hn (e' ▸ List.mem_append_left _ e)
  · intro m hm
    apply hP m (hne m hm)
    rcases hm with e | e
    · exact fun e' => hn (e' ▸ List.mem_append_left _ e)
    · exact fun e' => hn (by rw [← e', e]; exact List.mem_append_right _ List.mem_cons_self)

/-- take the first node `n` out of the chain starting at `a` -/
theorem LL_rem_head (N P N' P' : Nat → Nat) (a n q b : Nat) (R : List Nat) (hb : b = R.headD q)
    (hll : LL N P a (n :: R) q) (hnd : (a :: n :: R).Nodup) (hqR : q ∉ n :: R)
    (hNa : N' a = b) (hPb : P' b = a)
    (hN : ∀ m, m ≠ a → m ≠ n → N' m = N m) (hP : ∀ m, m ≠ b → m ≠ n → P' m = P m) :
    LL N' P' a R q := by
  obtain ⟨_, _, h3⟩ := hll
  rw [List.nodup_cons] at hnd
  obtain ⟨han, hnd2⟩ := hnd
  rw [List.nodup_cons] at hnd2
  cases R with
  | nil =>
    have : b = q := hb
    subst this
    exact ⟨hNa, hPb⟩
  | cons r R =>
    have : b = r := hb
    subst this
    obtain ⟨_, _, h4⟩ := h3
    have hnd3 := List.nodup_cons.1 hnd2.2
    refine ⟨hNa, hPb, ?_⟩
    apply LL_congr N P N' P' b q R _ _ h4
    · intro m hm
      have hmR : m ∈ b :: R := by rcases hm with e | e; exact e ▸ List.mem_cons_self; exact List.mem_cons_of_mem _ e
      exact hN m (fun e => han (e ▸ List.mem_cons_of_mem _ hmR)) (fun e => hnd2.1 (e ▸ hmR))
    · intro m hm
      rcases hm with e | e
      · exact hP m (fun e' => hnd3.1 (e' ▸ e)) (fun e' => hnd2.1 (e' ▸ List.mem_cons_of_mem _ e))
      · exact hP m (fun e' => hqR (by rw [← e, e']; exact List.mem_cons_of_mem _ List.mem_cons_self))
          (fun e' => hqR (by rw [← e, e']; exact List.mem_cons_self))


/-- take `n` out right after the member `a` -/
theorem LL_rem_mid (N P N' P' : Nat → Nat) (p a n q b : Nat) (L R : List Nat) (hb : b = R.headD q)
    (hll : LL N P p (L ++ a :: n :: R) q) (hnd : (L ++ a :: n :: R).Nodup) (hp : p ∉ L ++ a :: n :: R)
    (hq : q ∉ L ++ a :: n :: R)
    (hNa : N' a = b) (hPb : P' b = a)
    (hN : ∀ m, m ≠ a → m ≠ n → N' m = N m) (hP : ∀ m, m ≠ b → m ≠ n → P' m = P m) :
    LL N' P' p (L ++ a :: R) q := by
  rw [LL_split] at hll ⊢
  obtain ⟨h1, h2⟩ := hll
  obtain ⟨hndL, hndR, hdis⟩ := List.nodup_append.1 hnd
  have hqR : q ∉ n :: R := fun e => hq (List.mem_append_right _ (List.mem_cons_of_mem _ e))
  have hbm : b = q ∨ b ∈ R := hb ▸ headD_mem R q
  have hndR' := List.nodup_cons.1 hndR
  have hne : ∀ m, m ∈ L ∨ m = a → m ≠ b := by
    intro m hm e
    rcases hbm with hb1 | hb1
    · apply hq; rw [← hb1, ← e]
      rcases hm with h | h
      · exact List.mem_append_left _ h
      · exact List.mem_append_right _ (h ▸ List.mem_cons_self)
    · rcases hm with h | h
      · exact hdis m h b (List.mem_cons_of_mem _ (List.mem_cons_of_mem _ hb1)) e
      · exact hndR'.1 (by rw [← h, e]; exact List.mem_cons_of_mem _ hb1)
  refine ⟨?_, LL_rem_head N P N' P' a n q b R hb h2 hndR hqR hNa hPb hN hP⟩
  apply LL_congr N P N' P' p a L _ _ h1
  · intro m hm
    apply hN m
    · rcases hm with e | e
      · intro e'; apply hp; rw [← e, e']; exact List.mem_append_right _ List.mem_cons_self
      · exact fun e' => hdis m e a List.mem_cons_self e'
    · rcases hm with e | e
      · intro e'; apply hp; rw [← e, e']
        exact List.mem_append_right _ (List.mem_cons_of_mem _ List.mem_cons_self)
      · exact fun e' => hdis m e n (List.mem_cons_of_mem _ List.mem_cons_self) e'
  · intro m hm
    apply hP m (hne m hm)
    rcases hm with e | e
    · exact fun e' => hdis m e n (List.mem_cons_of_mem _ List.mem_cons_self) e'
    · exact fun e' => hndR'.1 (by rw [← e, e']; exact List.mem_cons_self)

/-! ### the heap-level representation predicate -/

/-- link `d` of node `m`, the list object being node 0: `next 0 = first`, `prev 0 = last` -/
def lk (h : Heap) (l : DList) (d : Bool) (m : Nat) : Nat := if m = 0 then lend l (!d) else link h m d

/-- `l` over heap `h` represents the list of node indices `xs`: nodes distinct, non-null, allocated; `first`/`last`
are the ends (0 when empty); `next`/`prev` of consecutive members agree; `prev first = 0`, `next last = 0` -/
structure IsList (h : Heap) (l : DList) (xs : List Nat) : Prop where
  nodup : xs.Nodup
  mem : ∀ x ∈ xs, x ≠ 0 ∧ x < h.size
  ll : LL (lk h l true) (lk h l false) 0 xs 0

theorem IsList.zero_not_mem {h l xs} (hl : IsList h l xs) : 0 ∉ xs := fun e => (hl.mem 0 e).1 rfl

theorem IsList.first {h l xs} (hl : IsList h l xs) : l.first = xs.headD 0 := LL_head _ _ _ _ _ hl.ll
theorem IsList.last {h l xs} (hl : IsList h l xs) : l.last = xs.getLastD 0 := by
  have := LL_head _ _ _ _ _ (LL_mirror _ _ _ _ _ hl.ll)
  rw [show lk h l false 0 = l.last from rfl] at this
  rw [this, List.headD_eq_head?_getD, List.head?_reverse, List.getLastD_eq_getLast?]

theorem isList_empty (h : Heap) : IsList h {} [] := ⟨List.nodup_nil, by simp, rfl, rfl⟩

/-- consecutive members are linked both ways; the ends point to null -/
theorem IsList.links {h l} {L R : List Nat} {a b : Nat} (hl : IsList h l (L ++ a :: b :: R)) :
    (nd h a).next = b ∧ (nd h b).prev = a := by
  have h1 := ((LL_split _ _ _ _ _ _ _).1 hl.ll).2
  have ha : a ≠ 0 := (hl.mem a (by simp)).1
  have hb : b ≠ 0 := (hl.mem b (by simp)).1
  have := h1.1; have h2 := h1.2.1
  simp only [lk, ha, hb, if_false, link] at this h2
  exact ⟨by simpa using this, by simpa using h2⟩

theorem lk_zero_true (h : Heap) (l : DList) : lk h l true 0 = l.first := rfl
theorem lk_zero_false (h : Heap) (l : DList) : lk h l false 0 = l.last := rfl
theorem lk_true (h : Heap) (l : DList) (m : Nat) (hm : m ≠ 0) : lk h l true m = (nd h m).next := by
  simp [lk, hm, link]
theorem lk_false (h : Heap) (l : DList) (m : Nat) (hm : m ≠ 0) : lk h l false m = (nd h m).prev := by
  simp [lk, hm, link]

/-! ### walks -/

theorem walk_LL (h : Heap) (l : DList) (d : Bool) (P : Nat → Nat) (xs : List Nat) (p fuel : Nat)
    (hnz : ∀ x ∈ xs, x ≠ 0) (hll : LL (lk h l d) P p xs 0) (hfuel : xs.length ≤ fuel) :
    walk fuel h (xs.headD 0) d = xs.map (fun x => (nd h x).val) := by
  induction xs generalizing p fuel with
  | nil => cases fuel <;> simp [walk]
  | cons x xs ih =>
    obtain ⟨_, _, h3⟩ := hll
    have hx0 : x ≠ 0 := hnz x List.mem_cons_self
    cases fuel with
    | zero => simp at hfuel
    | succ fuel =>
      have hnext := LL_head _ _ _ _ _ h3
      have := ih x fuel (fun y hy => hnz y (List.mem_cons_of_mem _ hy)) h3 (by simpa using hfuel)
      simp only [lk, hx0, if_false] at hnext
      simp only [walk, List.headD_cons, hx0, if_false, hnext, this, List.map_cons]

/-- forward walk from `first` reads the values in list order -/
theorem walk_forward {h l xs} (hl : IsList h l xs) (fuel : Nat) (hfuel : xs.length ≤ fuel) :
    walk fuel h l.first true = xs.map (fun x => (nd h x).val) := by
  rw [hl.first]; exact walk_LL h l true _ xs 0 fuel (fun x hx => (hl.mem x hx).1) hl.ll hfuel

/-- backward walk from `last` reads the reverse -/
theorem walk_backward {h l xs} (hl : IsList h l xs) (fuel : Nat) (hfuel : xs.length ≤ fuel) :
    walk fuel h l.last false = (xs.map (fun x => (nd h x).val)).reverse := by
  have hm := LL_mirror _ _ _ _ _ hl.ll
  have hh := LL_head _ _ _ _ _ hm
  rw [lk_zero_false] at hh
  rw [hh, ← List.map_reverse]
  exact walk_LL h l false _ xs.reverse 0 fuel (fun x hx => (hl.mem x (List.mem_reverse.1 hx)).1) hm
    (by simpa using hfuel)


/-! ### effect of the primitive updates on `lk` -/

theorem lk_setLink (h : Heap) (l : DList) (c : Nat) (d : Bool) (x : Nat) (d' : Bool) (m : Nat) :
    lk (setLink h c d x) l d' m = if m ≠ 0 ∧ m = c ∧ c < h.size ∧ d' = d then x else lk h l d' m := by
  unfold lk
  by_cases hm : m = 0
  · simp [hm]
  · simp only [hm, if_false, link, setLink, nd_upd]
    by_cases hc : m = c
    · subst hc
      by_cases hs : m < h.size
      · cases d <;> cases d' <;> simp [hm, hs]
      · simp [hs]
    · simp [hc]

theorem lk_setEnd (h : Heap) (l : DList) (e : Bool) (x : Nat) (d' : Bool) (m : Nat) :
    lk h (setEnd l e x) d' m = if m = 0 ∧ e = (!d') then x else lk h l d' m := by
  unfold lk
  by_cases hm : m = 0
  · cases e <;> cases d' <;> simp [hm, setEnd, lend]
  · simp [hm]

theorem lk_clear (h : Heap) (l : DList) (c : Nat) (d' : Bool) (m : Nat) :
    lk (upd h c (fun x => { x with prev := 0, next := 0 })) l d' m =
      if m ≠ 0 ∧ m = c ∧ c < h.size then 0 else lk h l d' m := by
  unfold lk
  by_cases hm : m = 0
  · simp [hm]
  · simp only [hm, if_false, link, nd_upd]
    by_cases hc : m = c
    · subst hc
      by_cases hs : m < h.size
      · cases d' <;> simp [hm, hs]
      · simp [hs]
    · simp [hc]

/-! ### generic insertion / removal at the representation level -/

structure InsFacts (h : Heap) (l : DList) (h' : Heap) (l' : DList) (a b n : Nat) : Prop where
  size : h.size ≤ h'.size
  Na : lk h' l' true a = n
  Nn : lk h' l' true n = b
  Pb : lk h' l' false b = n
  Pn : lk h' l' false n = a
  N : ∀ m, m ≠ a → m ≠ n → lk h' l' true m = lk h l true m
  P : ∀ m, m ≠ b → m ≠ n → lk h' l' false m = lk h l false m

theorem isList_ins_front {h l h' l' xs b n} (hl : IsList h l xs) (hf : InsFacts h l h' l' 0 b n)
    (hb : b = l.first) (hn0 : n ≠ 0) (hns : n < h.size) (hnx : n ∉ xs) : IsList h' l' (n :: xs) := by
  refine ⟨List.nodup_cons.2 ⟨hnx, hl.nodup⟩, ?_, ?_⟩
  · intro x hx
    rcases List.mem_cons.1 hx with e | e
    · rw [e]; exact ⟨hn0, Nat.lt_of_lt_of_le hns hf.size⟩
    · exact ⟨(hl.mem x e).1, Nat.lt_of_lt_of_le (hl.mem x e).2 hf.size⟩
  · exact LL_ins_head _ _ _ _ 0 n 0 b xs (by rw [hb, hl.first]) hl.ll
      (List.nodup_cons.2 ⟨hl.zero_not_mem, hl.nodup⟩) hl.zero_not_mem hnx hn0 hf.Na hf.Nn hf.Pb hf.Pn hf.N hf.P

theorem isList_ins_mid {h l h' l' L R a b n} (hl : IsList h l (L ++ a :: R)) (hf : InsFacts h l h' l' a b n)
    (hb : b = lk h l true a) (hn0 : n ≠ 0) (hns : n < h.size) (hnx : n ∉ L ++ a :: R) :
    IsList h' l' (L ++ a :: n :: R) := by
  have hnd : (L ++ a :: n :: R).Nodup := by
    have := hl.nodup
    rw [List.nodup_append] at this ⊢
    obtain ⟨h1, h2, h3⟩ := this
    rw [List.nodup_cons] at h2
    refine ⟨h1, List.nodup_cons.2 ⟨?_, List.nodup_cons.2 ⟨?_, h2.2⟩⟩, ?_⟩
    · intro e
      rcases List.mem_cons.1 e with e | e
      · exact hnx (by rw [← e]; simp)
      · exact h2.1 e
    · exact fun e => hnx (by simp [e])
    · intro x hx y hy
      rcases List.mem_cons.1 hy with e | e
      · exact h3 x hx a List.mem_cons_self |> fun t => by rw [e]; exact t
      · rcases List.mem_cons.1 e with e | e
        · rw [e]; exact fun e' => hnx (by rw [← e']; simp [hx])
        · exact h3 x hx y (List.mem_cons_of_mem _ e)
  refine ⟨hnd, ?_, ?_⟩
  · intro x hx
    have : x = n ∨ x ∈ L ++ a :: R := by
      simp only [List.mem_append, List.mem_cons] at hx ⊢
      rcases hx with h | h | h | h <;> simp [h]
    rcases this with e | e
    · rw [e]; exact ⟨hn0, Nat.lt_of_lt_of_le hns hf.size⟩
    · exact ⟨(hl.mem x e).1, Nat.lt_of_lt_of_le (hl.mem x e).2 hf.size⟩
  · have hbR : b = R.headD 0 := by
      rw [hb]; exact LL_head _ _ _ _ _ ((LL_split _ _ _ _ _ _ _).1 hl.ll).2
    exact LL_ins_mid _ _ _ _ 0 a n 0 b L R hbR hl.ll hl.nodup hl.zero_not_mem hl.zero_not_mem hnx hn0 hn0
      hf.Na hf.Nn hf.Pb hf.Pn hf.N hf.P

structure RemFacts (h : Heap) (l : DList) (h' : Heap) (l' : DList) (a b n : Nat) : Prop where
  size : h.size ≤ h'.size
  Na : lk h' l' true a = b
  Pb : lk h' l' false b = a
  N : ∀ m, m ≠ a → m ≠ n → lk h' l' true m = lk h l true m
  P : ∀ m, m ≠ b → m ≠ n → lk h' l' false m = lk h l false m

theorem isList_rem_front {h l h' l' R b n} (hl : IsList h l (n :: R)) (hf : RemFacts h l h' l' 0 b n)
    (hb : b = lk h l true n) : IsList h' l' R := by
  have hnd := List.nodup_cons.1 hl.nodup
  refine ⟨hnd.2, ?_, ?_⟩
  · intro x hx
    have := hl.mem x (List.mem_cons_of_mem _ hx)
    exact ⟨this.1, Nat.lt_of_lt_of_le this.2 hf.size⟩
  · have hbR : b = R.headD 0 := by
      rw [hb]; exact LL_head _ _ _ _ _ hl.ll.2.2
    exact LL_rem_head _ _ _ _ 0 n 0 b R hbR hl.ll (List.nodup_cons.2 ⟨hl.zero_not_mem, hl.nodup⟩) hl.zero_not_mem
      hf.Na hf.Pb hf.N hf.P

theorem isList_rem_mid {h l h' l' L R a b n} (hl : IsList h l (L ++ a :: n :: R)) (hf : RemFacts h l h' l' a b n)
    (hb : b = lk h l true n) : IsList h' l' (L ++ a :: R) := by
  have hsub : (L ++ a :: R).Sublist (L ++ a :: n :: R) :=
    (List.Sublist.refl L).append ((List.sublist_cons_self n R).cons_cons a)
  refine ⟨hsub.nodup hl.nodup, ?_, ?_⟩
  · intro x hx
    have := hl.mem x (hsub.subset hx)
    exact ⟨this.1, Nat.lt_of_lt_of_le this.2 hf.size⟩
  · have hbR : b = R.headD 0 := by
      rw [hb]
      have := ((LL_split _ _ _ _ _ _ _).1 hl.ll).2
      exact LL_head _ _ _ _ _ this.2.2
    exact LL_rem_mid _ _ _ _ 0 a n 0 b L R hbR hl.ll hl.nodup hl.zero_not_mem hl.zero_not_mem
      hf.Na hf.Pb hf.N hf.P


/-! ### the model operations -/

theorem insertNode_facts (h : Heap) (l : DList) (ref n : Nat) (d : Bool) (b : Nat)
    (href0 : ref ≠ 0) (hrefs : ref < h.size) (hn0 : n ≠ 0) (hns : n < h.size) (hnr : n ≠ ref)
    (hb : b = lk h l d ref) (hbn : b ≠ n) (hbr : b ≠ ref) (hbs : b ≠ 0 → b < h.size) :
    (insertNode h l ref n d).1.size = h.size ∧
    lk (insertNode h l ref n d).1 (insertNode h l ref n d).2 d ref = n ∧
    lk (insertNode h l ref n d).1 (insertNode h l ref n d).2 d n = b ∧
    lk (insertNode h l ref n d).1 (insertNode h l ref n d).2 (!d) b = n ∧
    lk (insertNode h l ref n d).1 (insertNode h l ref n d).2 (!d) n = ref ∧
    (∀ m, m ≠ ref → m ≠ n → lk (insertNode h l ref n d).1 (insertNode h l ref n d).2 d m = lk h l d m) ∧
    (∀ m, m ≠ b → m ≠ n → lk (insertNode h l ref n d).1 (insertNode h l ref n d).2 (!d) m = lk h l (!d) m) := by
  have hb' : link h ref d = b := by rw [hb]; simp [lk, href0]
  by_cases hb0 : b = 0
  · subst hb0
    simp only [insertNode, hb', ne_eq, not_true_eq_false, if_false]
    refine ⟨by simp [size_setLink], ?_, ?_, ?_, ?_, ?_, ?_⟩
    · simp [lk_setLink, lk_setEnd, size_setLink, href0, hrefs, hnr, Ne.symm hnr]
    · simp [lk_setLink, lk_setEnd, size_setLink, hn0, hns]
    · simp [lk_setLink, lk_setEnd, size_setLink]
    · simp [lk_setLink, lk_setEnd, size_setLink, hn0, hns]
    · intro m hm1 hm2; simp [lk_setLink, lk_setEnd, size_setLink, hm1, hm2]
    · intro m hm1 hm2; simp [lk_setLink, lk_setEnd, size_setLink, hm1, hm2]
  · have hbs' := hbs hb0
    simp only [insertNode, hb', ne_eq, hb0, not_false_eq_true, if_true]
    refine ⟨by simp [size_setLink], ?_, ?_, ?_, ?_, ?_, ?_⟩
    · simp [lk_setLink, size_setLink, href0, hrefs, hnr, Ne.symm hnr, hbr, Ne.symm hbr]
    · simp [lk_setLink, size_setLink, hn0, hns]
    · simp [lk_setLink, size_setLink, hb0, hbs', hbn, hbr]
    · simp [lk_setLink, size_setLink, hn0, hns]
    · intro m hm1 hm2; simp [lk_setLink, size_setLink, hm1, hm2]
    · intro m hm1 hm2; simp [lk_setLink, size_setLink, hm1, hm2]


theorem lk_mk (h : Heap) (f la : Nat) (d' : Bool) (m : Nat) :
    lk h { first := f, last := la } d' m = if m = 0 then (if d' then f else la) else link h m d' := by
  unfold lk; cases d' <;> simp [lend]

theorem lk_def (h : Heap) (l : DList) (d' : Bool) (m : Nat) :
    lk h l d' m = if m = 0 then (if d' then l.first else l.last) else link h m d' := by
  unfold lk; cases d' <;> simp [lend]

theorem addNode_facts (h : Heap) (l : DList) (n : Nat) (d : Bool) (p : Nat)
    (hn0 : n ≠ 0) (hns : n < h.size) (hp : p = lend l d) (hpn : p ≠ n) (hps : p ≠ 0 → p < h.size) :
    (addNode h l n d).1.size = h.size ∧
    lk (addNode h l n d).1 (addNode h l n d).2 (!d) 0 = n ∧
    lk (addNode h l n d).1 (addNode h l n d).2 (!d) n = p ∧
    lk (addNode h l n d).1 (addNode h l n d).2 d p = n ∧
    lk (addNode h l n d).1 (addNode h l n d).2 d n = lk h l d n ∧
    (∀ m, m ≠ p → m ≠ n → lk (addNode h l n d).1 (addNode h l n d).2 d m = lk h l d m) ∧
    (∀ m, m ≠ 0 → m ≠ n → lk (addNode h l n d).1 (addNode h l n d).2 (!d) m = lk h l (!d) m) := by
  by_cases hp0 : p = 0
  · subst hp0
    simp only [addNode, ← hp, ne_eq, not_true_eq_false, if_false]
    refine ⟨by simp [size_setLink], ?_, ?_, ?_, ?_, ?_, ?_⟩
    · cases d <;> simp [lk_setLink, lk_setEnd]
    · cases d <;> simp [lk_setLink, lk_setEnd, hn0, hns]
    · cases d <;> simp [lk_setLink, lk_setEnd]
    · cases d <;> simp [lk_setLink, lk_setEnd, hn0, hns]
    · intro m hm1 hm2; cases d <;> simp [lk_setLink, lk_setEnd, hm1, hm2]
    · intro m hm1 hm2; cases d <;> simp [lk_setLink, lk_setEnd, hm1, hm2]
  · have hps' := hps hp0
    simp only [addNode, ← hp, ne_eq, hp0, not_false_eq_true, if_true]
    refine ⟨by simp [size_setLink], ?_, ?_, ?_, ?_, ?_, ?_⟩
    · cases d <;> simp [lk_setLink, lk_setEnd]
    · cases d <;> simp [lk_setLink, lk_setEnd, size_setLink, hn0, hns, hpn, Ne.symm hpn]
    · cases d <;> simp [lk_setLink, lk_setEnd, size_setLink, hp0, hps']
    · cases d <;> simp [lk_setLink, lk_setEnd, size_setLink, hn0, hns, hpn, Ne.symm hpn]
    · intro m hm1 hm2; cases d <;> simp [lk_setLink, lk_setEnd, size_setLink, hm1, hm2]
    · intro m hm1 hm2; cases d <;> simp [lk_setLink, lk_setEnd, size_setLink, hm1, hm2]

theorem link_upd (h : Heap) (c : Nat) (f : LNode → LNode) (m : Nat) (d : Bool) :
    link (upd h c f) m d = if c ≠ 0 ∧ m = c ∧ c < h.size then (if d then (f (nd h m)).next else (f (nd h m)).prev)
      else link h m d := by
  unfold link; rw [nd_upd]
  by_cases hc : (c ≠ 0 ∧ m = c ∧ c < h.size)
  · rw [if_pos hc, if_pos hc]
  · rw [if_neg hc, if_neg hc]

theorem link_setLink (h : Heap) (c : Nat) (d : Bool) (x : Nat) (m : Nat) (d' : Bool) :
    link (setLink h c d x) m d' = if c ≠ 0 ∧ m = c ∧ c < h.size ∧ d' = d then x else link h m d' := by
  unfold setLink; rw [link_upd]
  by_cases hc : c ≠ 0 ∧ m = c ∧ c < h.size
  · cases d <;> cases d' <;> simp [hc, link]
  · have : ¬ (c ≠ 0 ∧ m = c ∧ c < h.size ∧ d' = d) := fun hh => hc ⟨hh.1, hh.2.1, hh.2.2.1⟩
    rw [if_neg hc, if_neg this]

theorem unlink_facts (h : Heap) (l : DList) (n a b : Nat) (hn0 : n ≠ 0) (hns : n < h.size)
    (ha : a = (nd h n).prev) (hb : b = (nd h n).next) (han : a ≠ n) (hbn : b ≠ n)
    (has : a ≠ 0 → a < h.size) (hbs : b ≠ 0 → b < h.size) :
    (unlink h l n).1.size = h.size ∧
    lk (unlink h l n).1 (unlink h l n).2 true a = b ∧
    lk (unlink h l n).1 (unlink h l n).2 false b = a ∧
    (∀ m, m ≠ a → m ≠ n → lk (unlink h l n).1 (unlink h l n).2 true m = lk h l true m) ∧
    (∀ m, m ≠ b → m ≠ n → lk (unlink h l n).1 (unlink h l n).2 false m = lk h l false m) ∧
    (nd (unlink h l n).1 n).prev = 0 ∧ (nd (unlink h l n).1 n).next = 0 := by
  by_cases ha0 : a = 0 <;> by_cases hb0 : b = 0
  all_goals
    simp only [unlink, ← ha, ← hb, ne_eq, ha0, hb0, not_true_eq_false, not_false_eq_true, if_true, if_false]
    clear ha hb
    refine ⟨by simp [size_upd, size_setLink], ?_, ?_, ?_, ?_, ?_, ?_⟩
  all_goals
    first
    | (intro m hm1 hm2
       simp [lk_def, link_upd, link_setLink, size_setLink, size_upd, hn0, hns, han, hbn,
         Ne.symm han, Ne.symm hbn, ha0, hb0, has, hbs, hm1, hm2])
    | simp [lk_def, link_upd, link_setLink, size_setLink, size_upd, nd_upd, hn0, hns, han, hbn,
        Ne.symm han, Ne.symm hbn, ha0, hb0, has, hbs]


theorem popFirst_facts (h : Heap) (l : DList) (n b : Nat) (hn : n = l.first) (hn0 : n ≠ 0) (hns : n < h.size)
    (hb : b = (nd h n).next) (hbn : b ≠ n) (hbs : b ≠ 0 → b < h.size) :
    (popFirst h l).1.size = h.size ∧ (popFirst h l).2.2 = n ∧
    lk (popFirst h l).1 (popFirst h l).2.1 true 0 = b ∧
    lk (popFirst h l).1 (popFirst h l).2.1 false b = 0 ∧
    (∀ m, m ≠ 0 → m ≠ n → lk (popFirst h l).1 (popFirst h l).2.1 true m = lk h l true m) ∧
    (∀ m, m ≠ b → m ≠ n → lk (popFirst h l).1 (popFirst h l).2.1 false m = lk h l false m) := by
  by_cases hb0 : b = 0
  all_goals
    simp only [popFirst, ← hn, ← hb, ne_eq, hb0, not_true_eq_false, not_false_eq_true, if_true, if_false]
    clear hb hn
    refine ⟨by simp [size_setLink], trivial, ?_, ?_, ?_, ?_⟩
  all_goals
    first
    | (intro m hm1 hm2
       simp [lk_def, link_setLink, size_setLink, hn0, hns, hbn, Ne.symm hbn, hb0, hbs, hm1, hm2])
    | simp [lk_def, link_setLink, size_setLink, hn0, hns, hbn, Ne.symm hbn, hb0, hbs]

theorem pop_facts (h : Heap) (l : DList) (n a : Nat) (hn : n = l.last) (hn0 : n ≠ 0) (hns : n < h.size)
    (ha : a = (nd h n).prev) (han : a ≠ n) (has : a ≠ 0 → a < h.size) :
    (pop h l).1.size = h.size ∧ (pop h l).2.2 = n ∧
    lk (pop h l).1 (pop h l).2.1 true a = 0 ∧
    lk (pop h l).1 (pop h l).2.1 false 0 = a ∧
    (∀ m, m ≠ a → m ≠ n → lk (pop h l).1 (pop h l).2.1 true m = lk h l true m) ∧
    (∀ m, m ≠ 0 → m ≠ n → lk (pop h l).1 (pop h l).2.1 false m = lk h l false m) := by
  by_cases ha0 : a = 0
  all_goals
    simp only [pop, ← hn, ← ha, ne_eq, ha0, not_true_eq_false, not_false_eq_true, if_true, if_false]
    clear ha hn
    refine ⟨by simp [size_setLink], trivial, ?_, ?_, ?_, ?_⟩
  all_goals
    first
    | (intro m hm1 hm2
       simp [lk_def, link_setLink, size_setLink, hn0, hns, han, Ne.symm han, ha0, has, hm1, hm2])
    | simp [lk_def, link_setLink, size_setLink, hn0, hns, han, Ne.symm han, ha0, has]


/-! ### the operations as textbook list operations (split form: `xs = L ++ x :: R`) -/

theorem IsList.next {h l L x R} (hl : IsList h l (L ++ x :: R)) : lk h l true x = R.headD 0 :=
  LL_head _ _ _ _ _ ((LL_split _ _ _ _ _ _ _).1 hl.ll).2

theorem IsList.prev {h l L x R} (hl : IsList h l (L ++ x :: R)) : lk h l false x = L.getLastD 0 := by
  have hm := LL_mirror _ _ _ _ _ hl.ll
  rw [List.reverse_append, List.reverse_cons, List.append_assoc, List.singleton_append] at hm
  have := LL_head _ _ _ _ _ ((LL_split _ _ _ _ _ _ _).1 hm).2
  rw [this, List.headD_eq_head?_getD, List.head?_reverse, List.getLastD_eq_getLast?]

theorem getLastD_mem (L : List Nat) (q : Nat) : L.getLastD q = q ∨ L.getLastD q ∈ L := by
  rcases List.eq_nil_or_concat L with e | ⟨L', a, e⟩
  · subst e; exact Or.inl rfl
  · subst e; right; simp

/-- side facts about a neighbour `y` (0 or a member different from `x`) -/
theorem IsList.nbr {h l xs} (hl : IsList h l xs) (y : Nat) (hy : y = 0 ∨ y ∈ xs) (n : Nat) (hn0 : n ≠ 0)
    (hnx : n ∉ xs) : y ≠ n ∧ (y ≠ 0 → y < h.size) := by
  rcases hy with e | e
  · exact ⟨by rw [e]; exact Ne.symm hn0, fun c => absurd e c⟩
  · exact ⟨fun c => hnx (c ▸ e), fun _ => (hl.mem y e).2⟩

/-- `insert_after(ref, n)` -/
theorem insertNode_after {h l L ref R n} (hl : IsList h l (L ++ ref :: R)) (hn0 : n ≠ 0) (hns : n < h.size)
    (hnx : n ∉ L ++ ref :: R) :
    IsList (insertNode h l ref n true).1 (insertNode h l ref n true).2 (L ++ ref :: n :: R) := by
  have hr := hl.mem ref (by simp)
  have hb := hl.next
  have hbm : R.headD 0 = 0 ∨ R.headD 0 ∈ L ++ ref :: R := by
    rcases headD_mem R 0 with e | e
    · exact Or.inl e
    · exact Or.inr (List.mem_append_right _ (List.mem_cons_of_mem _ e))
  have hnb := hl.nbr _ hbm n hn0 hnx
  have hbr : R.headD 0 ≠ ref := by
    rcases headD_mem R 0 with e | e
    · rw [e]; exact Ne.symm hr.1
    · intro c
      have := (List.nodup_append.1 hl.nodup).2.1
      exact (List.nodup_cons.1 this).1 (c ▸ e)
  have hf := insertNode_facts h l ref n true (R.headD 0) hr.1 hr.2 hn0 hns (fun c => hnx (by simp [c]))
    hb.symm hnb.1 hbr hnb.2
  exact isList_ins_mid hl ⟨Nat.le_of_eq hf.1.symm, hf.2.1, hf.2.2.1, hf.2.2.2.1, hf.2.2.2.2.1, hf.2.2.2.2.2.1,
    hf.2.2.2.2.2.2⟩ hb.symm hn0 hns hnx

/-- `prepend(n)` = `_add_node(n, 0)` of an unlinked node -/
theorem addNode_prepend {h l xs n} (hl : IsList h l xs) (hn0 : n ≠ 0) (hns : n < h.size) (hnx : n ∉ xs)
    (hprev : (nd h n).prev = 0) : IsList (addNode h l n false).1 (addNode h l n false).2 (n :: xs) := by
  have hpm : l.first = 0 ∨ l.first ∈ xs := by rw [hl.first]; exact headD_mem xs 0
  have hnb := hl.nbr _ hpm n hn0 hnx
  have hf := addNode_facts h l n false l.first hn0 hns rfl hnb.1 hnb.2
  have h0 : lk h l false n = 0 := by rw [lk_false _ _ _ hn0]; exact hprev
  exact isList_ins_front hl ⟨Nat.le_of_eq hf.1.symm, hf.2.1, hf.2.2.1, hf.2.2.2.1, by rw [hf.2.2.2.2.1]; exact h0,
    hf.2.2.2.2.2.2, hf.2.2.2.2.2.1⟩ rfl hn0 hns hnx

/-- `pop_first()` on a non-empty list -/
theorem popFirst_tail {h l n R} (hl : IsList h l (n :: R)) :
    IsList (popFirst h l).1 (popFirst h l).2.1 R ∧ (popFirst h l).2.2 = n := by
  have hn := hl.mem n (by simp)
  have hb : lk h l true n = R.headD 0 := hl.next (L := [])
  rw [lk_true _ _ _ hn.1] at hb
  have hbm : R.headD 0 = 0 ∨ R.headD 0 ∈ R := headD_mem R 0
  have hbn : R.headD 0 ≠ n := by
    rcases hbm with e | e
    · rw [e]; exact Ne.symm hn.1
    · exact fun c => (List.nodup_cons.1 hl.nodup).1 (c ▸ e)
  have hbs : R.headD 0 ≠ 0 → R.headD 0 < h.size := by
    intro c
    rcases hbm with e | e
    · exact absurd e c
    · exact (hl.mem _ (List.mem_cons_of_mem _ e)).2
  have hf := popFirst_facts h l n (R.headD 0) hl.first.symm hn.1 hn.2 hb.symm hbn hbs
  refine ⟨isList_rem_front hl ⟨Nat.le_of_eq hf.1.symm, hf.2.2.1, hf.2.2.2.1, hf.2.2.2.2.1, hf.2.2.2.2.2⟩ ?_, hf.2.1⟩
  rw [lk_true _ _ _ hn.1]; exact hb.symm


/-- `append(n)` = `_add_node(n, 1)` of an unlinked node: textbook `xs ++ [n]` -/
theorem addNode_append {h l xs n} (hl : IsList h l xs) (hn0 : n ≠ 0) (hns : n < h.size) (hnx : n ∉ xs)
    (hnext : (nd h n).next = 0) : IsList (addNode h l n true).1 (addNode h l n true).2 (xs ++ [n]) := by
  have hpm : l.last = 0 ∨ l.last ∈ xs := by rw [hl.last]; exact getLastD_mem xs 0
  have hnb := hl.nbr _ hpm n hn0 hnx
  have hf := addNode_facts h l n true l.last hn0 hns rfl hnb.1 hnb.2
  have h0 : lk h l true n = 0 := by rw [lk_true _ _ _ hn0]; exact hnext
  have F : InsFacts h l (addNode h l n true).1 (addNode h l n true).2 l.last 0 n :=
    ⟨Nat.le_of_eq hf.1.symm, hf.2.2.2.1, by rw [hf.2.2.2.2.1]; exact h0, hf.2.1, hf.2.2.1, hf.2.2.2.2.2.1,
      hf.2.2.2.2.2.2⟩
  rcases List.eq_nil_or_concat xs with e | ⟨L, a, e⟩
  · subst e
    have hp : l.last = 0 := hl.last
    rw [hp] at F
    exact isList_ins_front hl F (hl.first.symm ▸ rfl) hn0 hns hnx
  · rw [List.concat_eq_append] at e
    subst e
    have hp : l.last = a := by rw [hl.last]; simp
    rw [hp] at F
    have := isList_ins_mid (L := L) (R := []) hl F (hl.next (R := [])).symm hn0 hns hnx
    simpa using this

/-- `pop()` on a non-empty list: textbook `dropLast`, returns the last -/
theorem pop_dropLast {h l L n} (hl : IsList h l (L ++ [n])) :
    IsList (pop h l).1 (pop h l).2.1 L ∧ (pop h l).2.2 = n := by
  have hn := hl.mem n (by simp)
  have hlast : n = l.last := by rw [hl.last]; simp
  have ha : lk h l false n = L.getLastD 0 := hl.prev (R := [])
  rw [lk_false _ _ _ hn.1] at ha
  have ham := getLastD_mem L 0
  have han : L.getLastD 0 ≠ n := by
    rcases ham with e | e
    · rw [e]; exact Ne.symm hn.1
    · intro c
      have := (List.nodup_append.1 hl.nodup).2.2 _ e n (by simp)
      exact this c
  have has : L.getLastD 0 ≠ 0 → L.getLastD 0 < h.size := by
    intro c
    rcases ham with e | e
    · exact absurd e c
    · exact (hl.mem _ (List.mem_append_left _ e)).2
  have hf := pop_facts h l n (L.getLastD 0) hlast hn.1 hn.2 ha.symm han has
  have F : RemFacts h l (pop h l).1 (pop h l).2.1 (L.getLastD 0) 0 n :=
    ⟨Nat.le_of_eq hf.1.symm, hf.2.2.1, hf.2.2.2.1, hf.2.2.2.2.1, hf.2.2.2.2.2⟩
  refine ⟨?_, hf.2.1⟩
  rcases List.eq_nil_or_concat L with e | ⟨L', a, e⟩
  · subst e
    exact isList_rem_front (R := []) hl F (hl.next (L := []) (R := [])).symm
  · rw [List.concat_eq_append] at e
    subst e
    have hb := (hl.next (L := L' ++ [a]) (R := [])).symm
    have hl' : IsList h l (L' ++ a :: n :: []) := by simpa using hl
    have F' : RemFacts h l (pop h l).1 (pop h l).2.1 a 0 n := by simpa using F
    exact isList_rem_mid (R := []) hl' F' hb


theorem IsList.prev_side {h l L x R} (hl : IsList h l (L ++ x :: R)) :
    L.getLastD 0 ≠ x ∧ (L.getLastD 0 ≠ 0 → L.getLastD 0 < h.size) := by
  have hx := hl.mem x (by simp)
  rcases getLastD_mem L 0 with e | e
  · exact ⟨by rw [e]; exact Ne.symm hx.1, fun c => absurd e c⟩
  · exact ⟨fun c => (List.nodup_append.1 hl.nodup).2.2 _ e x List.mem_cons_self c,
      fun _ => (hl.mem _ (List.mem_append_left _ e)).2⟩

theorem IsList.next_side {h l L x R} (hl : IsList h l (L ++ x :: R)) :
    R.headD 0 ≠ x ∧ (R.headD 0 ≠ 0 → R.headD 0 < h.size) := by
  have hx := hl.mem x (by simp)
  rcases headD_mem R 0 with e | e
  · exact ⟨by rw [e]; exact Ne.symm hx.1, fun c => absurd e c⟩
  · exact ⟨fun c => (List.nodup_cons.1 (List.nodup_append.1 hl.nodup).2.1).1 (c ▸ e),
      fun _ => (hl.mem _ (List.mem_append_right _ (List.mem_cons_of_mem _ e))).2⟩

/-- `unlink(n)` of a member: textbook removal, and the node's links are cleared -/
theorem unlink_erase {h l L n R} (hl : IsList h l (L ++ n :: R)) :
    IsList (unlink h l n).1 (unlink h l n).2 (L ++ R) ∧
    (nd (unlink h l n).1 n).prev = 0 ∧ (nd (unlink h l n).1 n).next = 0 := by
  have hn := hl.mem n (by simp)
  have ha : lk h l false n = L.getLastD 0 := hl.prev
  have hb : lk h l true n = R.headD 0 := hl.next
  have hb' := hb
  rw [lk_false _ _ _ hn.1] at ha
  rw [lk_true _ _ _ hn.1] at hb
  have hf := unlink_facts h l n (L.getLastD 0) (R.headD 0) hn.1 hn.2 ha.symm hb.symm hl.prev_side.1 hl.next_side.1
    hl.prev_side.2 hl.next_side.2
  have F : RemFacts h l (unlink h l n).1 (unlink h l n).2 (L.getLastD 0) (R.headD 0) n :=
    ⟨Nat.le_of_eq hf.1.symm, hf.2.1, hf.2.2.1, hf.2.2.2.1, hf.2.2.2.2.1⟩
  refine ⟨?_, hf.2.2.2.2.2⟩
  rcases List.eq_nil_or_concat L with e | ⟨L', a, e⟩
  · subst e
    exact isList_rem_front hl F hb'.symm
  · rw [List.concat_eq_append] at e
    subst e
    have hl' : IsList h l (L' ++ a :: n :: R) := by simpa using hl
    have F' : RemFacts h l (unlink h l n).1 (unlink h l n).2 a (R.headD 0) n := by simpa using F
    have := isList_rem_mid hl' F' hb'.symm
    simpa using this

/-- `insert_before(ref, n)` -/
theorem insertNode_before {h l L ref R n} (hl : IsList h l (L ++ ref :: R)) (hn0 : n ≠ 0) (hns : n < h.size)
    (hnx : n ∉ L ++ ref :: R) :
    IsList (insertNode h l ref n false).1 (insertNode h l ref n false).2 (L ++ n :: ref :: R) := by
  have hr := hl.mem ref (by simp)
  have ha : lk h l false ref = L.getLastD 0 := hl.prev
  have ham : L.getLastD 0 = 0 ∨ L.getLastD 0 ∈ L ++ ref :: R := by
    rcases getLastD_mem L 0 with e | e
    · exact Or.inl e
    · exact Or.inr (List.mem_append_left _ e)
  have hnb := hl.nbr _ ham n hn0 hnx
  have hf := insertNode_facts h l ref n false (L.getLastD 0) hr.1 hr.2 hn0 hns (fun c => hnx (by simp [c]))
    ha.symm hnb.1 hl.prev_side.1 hnb.2
  have F : InsFacts h l (insertNode h l ref n false).1 (insertNode h l ref n false).2 (L.getLastD 0) ref n :=
    ⟨Nat.le_of_eq hf.1.symm, hf.2.2.2.1, hf.2.2.2.2.1, hf.2.1, hf.2.2.1, hf.2.2.2.2.2.2, hf.2.2.2.2.2.1⟩
  rcases List.eq_nil_or_concat L with e | ⟨L', a, e⟩
  · subst e
    have hfirst : l.first = ref := hl.first
    exact isList_ins_front hl F hfirst.symm hn0 hns hnx
  · rw [List.concat_eq_append] at e
    subst e
    have hl' : IsList h l (L' ++ a :: ref :: R) := by simpa using hl
    have F' : InsFacts h l (insertNode h l ref n false).1 (insertNode h l ref n false).2 a ref n := by simpa using F
    have hnx' : n ∉ L' ++ a :: ref :: R := by simpa using hnx
    have := isList_ins_mid hl' F' (hl'.next).symm hn0 hns hnx'
    simpa using this


/-! ### non-vacuity: a concrete heap with nodes 1,2,3 (values 10,20,30); build [2,1,3] by append 1, insert_before 1 2,
insert_after 1 3, then unlink 1 and pop -/
def h0 : Heap := #[{}, { val := 10 }, { val := 20 }, { val := 30 }]
def s1 := addNode h0 {} 1 true
def s2 := insertNode s1.1 s1.2 1 2 false
def s3 := insertNode s2.1 s2.2 1 3 true
def s4 := unlink s3.1 s3.2 1

example : IsList s1.1 s1.2 ([] ++ [1]) :=
  addNode_append (isList_empty h0) (by decide) (by decide) (by decide) (by decide)
example : IsList s2.1 s2.2 ([] ++ 2 :: 1 :: []) :=
  insertNode_before (L := []) (R := [])
    (addNode_append (isList_empty h0) (by decide) (by decide) (by decide) (by decide)) (by decide) (by decide)
    (by decide)
example : walk 3 s3.1 s3.2.first true = [20, 10, 30] ∧ walk 3 s3.1 s3.2.last false = [30, 10, 20] := by decide
example : walk 3 s4.1 s4.2.first true = [20, 30] ∧ (nd s4.1 1).prev = 0 ∧ (nd s4.1 1).next = 0 := by decide
example : (pop s4.1 s4.2).2.2 = 3 ∧ walk 3 (pop s4.1 s4.2).1 (pop s4.1 s4.2).2.1.first true = [20] := by decide

end AsmjitVerif.ListPool2
