/-
C18 — ArenaTree::remove, part 14: the replace loop (`for (;;)` re-finding `f` from the stale `gf`) and the raw copy.
-/
import AsmjitVerif.Lemmas.C18TreeRem13
namespace AsmjitVerif.Tree.Rem
open AsmjitVerif.Tree AsmjitVerif.Tree.Spec

/-- `q` takes the links and the colour of `f` -/
def cp (x y : TNode) : TNode := { x with l := y.l, r := y.r, red := y.red }
@[simp] theorem getC_cp (x y : TNode) (d : Bool) : getC (cp x y) d = getC y d := by cases d <;> rfl
@[simp] theorem key_cp (x y : TNode) : (cp x y).key = x.key := rfl
@[simp] theorem red_cp (x y : TNode) : (cp x y).red = y.red := rfl

/-- the body executed when `n->child(dir) == f` -/
def rawCopy (h : Tree) (n : Nat) (dir : Bool) (f q : Nat) : Tree :=
  upd (setChild h n dir q) q (fun x => cp x (nd (setChild h n dir q) f))

theorem replaceLoop_succ (fuel : Nat) (t : Tree) (node n f q : Nat) (dir : Bool) :
    replaceLoop (fuel + 1) t node n f q dir =
      if child t n dir = f then rawCopy t n dir f q
      else if child t n dir = 0 then t
      else replaceLoop fuel t node (child t n dir) f q (decide (key t (child t n dir) < key t node)) := rfl

/-- the frames visited by the replace loop, outermost first -/
def Walk (h : Tree) (f node : Nat) : List Frame → List Frame → Prop
  | [], U => holeptr h U = f
  | G :: rm, U => holeptr h U = G.i ∧ G.i ≠ f ∧ G.i ≠ 0 ∧ G.d = decide (key h G.i < key h node) ∧
      Walk h f node rm (G :: U)

theorem replaceLoop_walk (h : Tree) (f q node : Nat) : ∀ (rm U : List Frame) (fuel : Nat),
    Walk h f node rm U → rm.length < fuel →
    replaceLoop fuel h node (pIdx U) f q (dirOf U) =
      rawCopy h (pIdx (rm.reverse ++ U)) (dirOf (rm.reverse ++ U)) f q := by
  intro rm
  induction rm with
  | nil =>
    intro U fuel hw hf
    cases fuel with
    | zero => simp at hf
    | succ k =>
      rw [replaceLoop_succ]
      have : child h (pIdx U) (dirOf U) = f := hw
      rw [if_pos this]; rfl
  | cons G rm ih =>
    intro U fuel hw hf
    obtain ⟨w1, w2, w3, w4, w5⟩ := hw
    cases fuel with
    | zero => simp at hf
    | succ k =>
      rw [replaceLoop_succ]
      have e : child h (pIdx U) (dirOf U) = G.i := w1
      rw [e, if_neg w2, if_neg w3, ← w4]
      have := ih (G :: U) k w5 (by simp at hf; omega)
      have e1 : pIdx (G :: U) = G.i := rfl
      have e2 : dirOf (G :: U) = G.d := rfl
      have e3 : (G :: rm).reverse ++ U = rm.reverse ++ (G :: U) := by simp
      rw [e1, e2] at this
      rw [e3]; exact this

theorem ctxIdxs_append (A B : List Frame) : ctxIdxs (A ++ B) = ctxIdxs A ++ ctxIdxs B := by
  induction A with
  | nil => rfl
  | cons F A ih => simp [ctxIdxs, ih]

theorem RepC.suffix {h : Tree} (A B : List Frame) (hr : RepC h (A ++ B)) : RepC h B := by
  induction A with
  | nil => exact hr
  | cons F A ih => exact ih hr.2.2.2.2.2.2

theorem walk_of_repc {h : Tree} {f node : Nat} : ∀ (rm U : List Frame), RepC h (rm.reverse ++ U) →
    (∀ G ∈ rm, G.i ≠ f ∧ G.d = decide (key h G.i < key h node)) → holeptr h (rm.reverse ++ U) = f →
    Walk h f node rm U := by
  intro rm
  induction rm with
  | nil => intro U _ _ hh; simpa [Walk] using hh
  | cons G rm ih =>
    intro U hr hg hh
    have e : (G :: rm).reverse ++ U = rm.reverse ++ (G :: U) := by simp
    rw [e] at hr hh
    have hGU := RepC.suffix _ _ hr
    refine ⟨hGU.2.2.2.2.2.1, (hg G (by simp)).1, by have := hGU.1; omega, (hg G (by simp)).2, ?_⟩
    exact ih (G :: U) hr (fun G' hG' => hg G' (by simp [hG'])) hh

/-- the raw copy turns `f`'s frame into a frame of `q`, all other frames untouched -/
theorem rawcopy_repc {h h'' : Tree} {f q kq : Nat} {Ff : Frame} {above : List Frame}
    (es : h''.nodes.size = h.nodes.size) (hq2 : 2 ≤ q) (hqs : q < h.nodes.size)
    (eq' : nd h'' q = cp (nd h q) (nd h f)) (hkq : (nd h q).key = kq) (hFf : Ff.i = f)
    (habove : RepC h'' above) (hhole : holeptr h'' above = q) :
    ∀ below, RepC h (below ++ Ff :: above) → (∀ i ∈ ctxIdxs (below ++ [Ff]), nd h'' i = nd h i) →
      RepC h'' (below ++ ⟨q, kq, Ff.c, Ff.d, Ff.sib⟩ :: above) ∧
      holeptr h'' (below ++ ⟨q, kq, Ff.c, Ff.d, Ff.sib⟩ :: above) = holeptr h (below ++ Ff :: above) := by
  intro below
  induction below with
  | nil =>
    intro hr fr
    obtain ⟨a, b, c, d, e, f', g⟩ := hr
    simp only [List.nil_append]
    refine ⟨⟨hq2, es ▸ hqs, by rw [eq']; simpa using hkq, by rw [eq']; simpa [hFf] using d, ?_, hhole, habove⟩, ?_⟩
    · show Rep h'' (getC (nd h'' q) (!Ff.d)) Ff.sib
      rw [eq']; simp only [getC_cp]; rw [← hFf]
      exact e.frame es (fun i hi => fr i (by simp [ctxIdxs, hi]))
    · show getC (nd h'' q) Ff.d = getC (nd h Ff.i) Ff.d
      rw [eq', hFf]; simp
  | cons B bl ih =>
    intro hr fr
    obtain ⟨a, b, c, d, e, f', g⟩ := hr
    have frB : nd h'' B.i = nd h B.i := fr B.i (by simp [ctxIdxs])
    obtain ⟨i1, i2⟩ := ih g (fun i hi => fr i (by
      simp only [List.cons_append, ctxIdxs, List.mem_cons, List.mem_append]; right; right; exact hi))
    refine ⟨⟨a, es ▸ b, frB ▸ c, frB ▸ d, ?_, ?_, i1⟩, ?_⟩
    · rw [frB]; exact e.frame es (fun i hi => fr i (by simp [ctxIdxs, hi]))
    · exact i2.trans f'
    · show getC (nd h'' B.i) B.d = getC (nd h B.i) B.d
      rw [frB]

end AsmjitVerif.Tree.Rem
