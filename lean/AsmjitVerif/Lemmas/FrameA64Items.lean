/- C07: structure of the AArch64 save-slot list (`groupItems`, `groupEnd`, `a64Items`). -/
import AsmjitVerif.Lemmas.FrameA64Main
namespace AsmjitVerif.Frame

theorem itemsAsc_mono : ∀ (l : List (PSlot × Bool)) (lo lo' : Nat), lo ≤ lo' → itemsAsc lo' l → itemsAsc lo l := by
  intro l lo lo' h hl
  cases l with
  | nil => trivial
  | cons it rest => exact ⟨Nat.le_trans h hl.1, hl.2⟩

theorem itemsAsc_append : ∀ (l1 l2 : List (PSlot × Bool)) (lo lo2 : Nat),
    itemsAsc lo l1 → itemsEnd lo l1 ≤ lo2 → itemsAsc lo2 l2 → itemsAsc lo (l1 ++ l2) := by
  intro l1
  induction l1 with
  | nil => intro l2 lo lo2 _ h1 h2; exact itemsAsc_mono l2 lo lo2 h1 h2
  | cons it l1 ih =>
    intro l2 lo lo2 h1 h2 h3
    exact ⟨h1.1, ih l2 _ lo2 h1.2 h2 h3⟩

theorem itemsEnd_append : ∀ (l1 l2 : List (PSlot × Bool)) (lo : Nat),
    itemsEnd lo (l1 ++ l2) = itemsEnd (itemsEnd lo l1) l2 := by
  intro l1
  induction l1 with
  | nil => intro l2 lo; rfl
  | cons it l1 ih => intro l2 lo; exact ih l2 _

theorem groupEnd_ge (slot single : Nat) : ∀ (ids : List Nat) (off : Nat), off ≤ groupEnd slot single ids off
  | [], off => Nat.le_refl _
  | [_], off => by simp only [groupEnd]; omega
  | _ :: _ :: rest, off => by
    have := groupEnd_ge slot single rest (off + slot * 2)
    simp only [groupEnd]; omega

theorem groupEnd_eq (slot single : Nat) : ∀ (ids : List Nat) (off : Nat),
    groupEnd slot single ids off = off + (ids.length / 2) * (slot * 2) + (ids.length % 2) * single
  | [], off => by simp [groupEnd]
  | [_], off => by simp [groupEnd]
  | _ :: _ :: rest, off => by
    have := groupEnd_eq slot single rest (off + slot * 2)
    simp only [groupEnd, List.length_cons]
    rw [this]
    have h1 : (rest.length + 1 + 1) / 2 = rest.length / 2 + 1 := by omega
    have h2 : (rest.length + 1 + 1) % 2 = rest.length % 2 := by omega
    rw [h1, h2, Nat.add_mul, Nat.one_mul]; omega

/-- one group: ascending, within `[off, groupEnd)`, keys are the ids in order, only the head may carry the
`mov x29, sp` flag -/
theorem groupItems_spec (g sz slot single : Nat) (fp : Bool) (hsz : 0 < sz) (h1 : sz ≤ slot) (h2 : sz ≤ single) :
    ∀ (ids : List Nat) (first : Bool) (off : Nat), groupEnd slot single ids off < 2 ^ 16 →
      itemsAsc off (groupItems g sz slot fp first ids off)
      ∧ itemsEnd off (groupItems g sz slot fp first ids off) ≤ groupEnd slot single ids off
      ∧ keysOf (groupItems g sz slot fp first ids off) = ids.map (fun r => (g, r))
      ∧ (∀ it ∈ groupItems g sz slot fp first ids off, it.1.1 = g ∧ it.1.2.1 = sz ∧ 0 < pBytes it.1
          ∧ (it.2 = true → fp = true ∧ first = true))
      ∧ (∀ it rest, groupItems g sz slot fp first ids off = it :: rest → it.1.2.2.2.2 = off ∧ ∀ x ∈ rest, x.2 = false)
  | [], first, off, _ => by simp [groupItems, itemsAsc, itemsEnd, groupEnd, keysOf]
  | [r], first, off, hb => by
    simp only [groupEnd] at hb
    have hu : u16 off = off := Nat.mod_eq_of_lt (by omega)
    simp only [groupItems, hu, itemsAsc, itemsEnd, groupEnd, keysOf, List.flatMap_cons, List.flatMap_nil,
      List.append_nil, List.map_cons, List.map_nil, List.mem_cons, List.not_mem_nil, or_false]
    refine ⟨⟨Nat.le_refl _, trivial⟩, ?_, ?_, ?_, ?_⟩
    · simp [pBytes, pRegs]; omega
    · simp [pKeys, pRegs]
    · intro it hit; subst hit
      refine ⟨rfl, rfl, by simp [pBytes, pRegs]; omega, ?_⟩
      intro h; simp only [Bool.and_eq_true] at h; exact ⟨h.2, h.1⟩
    · intro it rest h
      injection h with h3 h4
      subst h3; subst h4
      exact ⟨rfl, by simp⟩
  | r1 :: r2 :: ids, first, off, hb => by
    simp only [groupEnd] at hb
    have hge := groupEnd_ge slot single ids (off + slot * 2)
    have hu : u16 off = off := Nat.mod_eq_of_lt (by omega)
    obtain ⟨a1, a2, a3, a4, a5⟩ := groupItems_spec g sz slot single fp hsz h1 h2 ids false (off + slot * 2) hb
    have hpb : pBytes (g, sz, r1, some r2, off) = sz * 2 := by simp [pBytes, pRegs]
    simp only [groupItems, hu, groupEnd]
    refine ⟨⟨Nat.le_refl _, ?_⟩, ?_, ?_, ?_, ?_⟩
    · dsimp only
      exact itemsAsc_mono _ _ _ (by rw [hpb]; omega) a1
    · simp only [itemsEnd]
      cases hl : groupItems g sz slot fp false ids (off + slot * 2) with
      | nil => simp only [itemsEnd]; rw [hpb]; omega
      | cons x xs => rw [hl] at a2; exact a2
    · simp only [keysOf, List.flatMap_cons, List.map_cons]
      have : keysOf (groupItems g sz slot fp false ids (off + slot * 2)) = ids.map (fun r => (g, r)) := a3
      unfold keysOf at this
      rw [this]
      simp [pKeys, pRegs]
    · intro it hit
      rcases List.mem_cons.mp hit with hit | hit
      · subst hit
        refine ⟨rfl, rfl, by rw [hpb]; omega, ?_⟩
        intro h; simp only [Bool.and_eq_true] at h; exact ⟨h.2, h.1⟩
      · obtain ⟨b1, b2, b3, b4⟩ := a4 it hit
        exact ⟨b1, b2, b3, fun h => absurd (b4 h).2 (by simp)⟩
    · intro it rest h
      injection h with h3 h4
      subst h3; subst h4
      refine ⟨rfl, ?_⟩
      intro x hx
      obtain ⟨_, _, _, b4⟩ := a4 x hx
      cases hx2 : x.2 with
      | false => rfl
      | true => exact absurd (b4 hx2).2 (by simp)

/-! ### clearing one bit of a register mask (generic in the bit; instantiated for x29 and x30) -/

theorem testBit_clearBit (m b i : Nat) (hi : i < 32)
    (htb : ∀ j, j < 32 → Nat.testBit (2 ^ 32 - 1 - 2 ^ b) j = (j != b)) :
    (clearBit m b).testBit i = (m.testBit i && (i != b)) := by
  unfold clearBit
  rw [Nat.testBit_and, htb i hi]

theorem bitsAsc_clearBit_length (m b : Nat) (hb : b < 32) (h : m.testBit b = true)
    (h32 : List.range 32 = List.range b ++ b :: (List.range (31 - b)).map (b + 1 + ·))
    (htb : ∀ j, j < 32 → Nat.testBit (2 ^ 32 - 1 - 2 ^ b) j = (j != b)) :
    (bitsAsc (clearBit m b) 32).length + 1 = (bitsAsc m 32).length := by
  unfold bitsAsc
  rw [h32]
  simp only [List.filter_append, List.filter_cons, List.length_append]
  have e1 : (List.range b).filter (fun i => (clearBit m b).testBit i) = (List.range b).filter (fun i => m.testBit i) := by
    apply List.filter_congr
    intro i hi
    rw [List.mem_range] at hi
    rw [testBit_clearBit m b i (by omega) htb]
    have : (i != b) = true := by simp; omega
    rw [this, Bool.and_true]
  have e2 : ((List.range (31 - b)).map (b + 1 + ·)).filter (fun i => (clearBit m b).testBit i)
      = ((List.range (31 - b)).map (b + 1 + ·)).filter (fun i => m.testBit i) := by
    apply List.filter_congr
    intro i hi
    rw [List.mem_map] at hi
    obtain ⟨j, hj, rfl⟩ := hi
    rw [List.mem_range] at hj
    rw [testBit_clearBit m b (b + 1 + j) (by omega) htb]
    have : ((b + 1 + j) != b) = true := by simp; omega
    rw [this, Bool.and_true]
  have e3 : (clearBit m b).testBit b = false := by rw [testBit_clearBit m b b hb htb]; simp
  rw [e1, e2, e3, h]
  simp only [Bool.false_eq_true, if_false, if_true, List.length_cons]
  omega

theorem mem_bitsAsc_clearBit (m b r : Nat)
    (htb : ∀ j, j < 32 → Nat.testBit (2 ^ 32 - 1 - 2 ^ b) j = (j != b)) :
    r ∈ bitsAsc (clearBit m b) 32 ↔ r ∈ bitsAsc m 32 ∧ r ≠ b := by
  rw [mem_bitsAsc, mem_bitsAsc]
  constructor
  · rintro ⟨h1, h2⟩
    rw [testBit_clearBit m b r h1 htb] at h2
    simp only [Bool.and_eq_true, bne_iff_ne, ne_eq] at h2
    exact ⟨⟨h1, h2.1⟩, h2.2⟩
  · rintro ⟨⟨h1, h2⟩, h3⟩
    refine ⟨h1, ?_⟩
    rw [testBit_clearBit m b r h1 htb, h2]
    simp [h3]

theorem htb29 : ∀ j, j < 32 → Nat.testBit (2 ^ 32 - 1 - 2 ^ 29) j = (j != 29) := by decide
theorem htb30 : ∀ j, j < 32 → Nat.testBit (2 ^ 32 - 1 - 2 ^ 30) j = (j != 30) := by decide
theorem h32_29 : List.range 32 = List.range 29 ++ 29 :: (List.range (31 - 29)).map (29 + 1 + ·) := by decide
theorem h32_30 : List.range 32 = List.range 30 ++ 30 :: (List.range (31 - 30)).map (30 + 1 + ·) := by decide

/-- the ids saved besides the (FP, LR) pair -/
def a64RestIds (f : Frame) : List Nat := bitsAsc (clearBit (clearBit (f.saved 0) 29) 30) 32

theorem mem_a64RestIds (f : Frame) (r : Nat) : r ∈ a64RestIds f ↔ r ∈ bitsAsc (f.saved 0) 32 ∧ r ≠ 29 ∧ r ≠ 30 := by
  unfold a64RestIds
  rw [mem_bitsAsc_clearBit _ 30 r htb30, mem_bitsAsc_clearBit _ 29 r htb29]
  constructor
  · rintro ⟨⟨h1, h2⟩, h3⟩; exact ⟨h1, h2, h3⟩
  · rintro ⟨h1, h2, h3⟩; exact ⟨⟨h1, h2⟩, h3⟩

theorem a64RestIds_length (f : Frame) (h29 : (f.saved 0).testBit 29 = true) (h30 : (f.saved 0).testBit 30 = true) :
    (a64RestIds f).length + 2 = (bitsAsc (f.saved 0) 32).length := by
  unfold a64RestIds
  have a := bitsAsc_clearBit_length (f.saved 0) 29 (by omega) h29 h32_29 htb29
  have h30' : (clearBit (f.saved 0) 29).testBit 30 = true := by
    rw [testBit_clearBit _ 29 30 (by omega) htb29, h30]; rfl
  have b := bitsAsc_clearBit_length (clearBit (f.saved 0) 29) 30 (by omega) h30' h32_30 htb30
  omega

theorem a64GpIds_length (f : Frame) (hfp : f.hasFP = true → (f.saved 0).testBit 29 = true ∧ (f.saved 0).testBit 30 = true) :
    (a64GpIds f).length = f.nSaved 0 := by
  unfold a64GpIds Frame.nSaved
  cases h : f.hasFP with
  | false => simp
  | true =>
    obtain ⟨h29, h30⟩ := hfp h
    have := a64RestIds_length f h29 h30
    unfold a64RestIds at this
    simp only [if_true, List.length_cons]
    omega

theorem mem_a64GpIds (f : Frame) (hfp : f.hasFP = true → (f.saved 0).testBit 29 = true ∧ (f.saved 0).testBit 30 = true)
    (r : Nat) : r ∈ a64GpIds f ↔ r ∈ bitsAsc (f.saved 0) 32 := by
  unfold a64GpIds
  cases h : f.hasFP with
  | false => simp
  | true =>
    obtain ⟨h29, h30⟩ := hfp h
    simp only [if_true, List.mem_cons]
    rw [show bitsAsc (clearBit (clearBit (f.saved 0) 29) 30) 32 = a64RestIds f from rfl, mem_a64RestIds]
    constructor
    · rintro (h | h | ⟨h, _, _⟩)
      · subst h; rw [mem_bitsAsc]; exact ⟨by omega, h29⟩
      · subst h; rw [mem_bitsAsc]; exact ⟨by omega, h30⟩
      · exact h
    · intro hr
      by_cases e1 : r = 29
      · exact Or.inl e1
      · by_cases e2 : r = 30
        · exact Or.inr (Or.inl e2)
        · exact Or.inr (Or.inr ⟨hr, e1, e2⟩)

theorem a64GpIds_nodup (f : Frame) : (a64GpIds f).Nodup := by
  unfold a64GpIds
  split
  · rw [List.nodup_cons, List.nodup_cons]
    rw [show bitsAsc (clearBit (clearBit (f.saved 0) 29) 30) 32 = a64RestIds f from rfl]
    refine ⟨?_, ?_, bitsAsc_nodup _ _⟩
    · intro h
      rcases List.mem_cons.mp h with h | h
      · omega
      · exact ((mem_a64RestIds f 29).mp h).2.1 rfl
    · intro h; exact ((mem_a64RestIds f 30).mp h).2.2 rfl
  · exact bitsAsc_nodup _ _

theorem mvOk_all_false : ∀ (l : List (PSlot × Bool)), (∀ it ∈ l, it.2 = false) → mvOk l := by
  intro l
  induction l with
  | nil => intro _; trivial
  | cons it l ih =>
    intro h
    refine ⟨fun ht => ?_, ih (fun x hx => h x (List.mem_cons_of_mem _ hx))⟩
    have := h it (by simp); rw [ht] at this; exact absurd this (by simp)

theorem mvOk_append_false : ∀ (l1 l2 : List (PSlot × Bool)), (∀ it ∈ l1, it.2 = false) → mvOk l2 → mvOk (l1 ++ l2) := by
  intro l1
  induction l1 with
  | nil => intro l2 _ h; exact h
  | cons it l1 ih =>
    intro l2 h h2
    refine ⟨fun ht => ?_, ih l2 (fun x hx => h x (List.mem_cons_of_mem _ hx)) h2⟩
    have := h it (by simp); rw [ht] at this; exact absurd this (by simp)

theorem keysOf_append (l1 l2 : List (PSlot × Bool)) : keysOf (l1 ++ l2) = keysOf l1 ++ keysOf l2 := by
  unfold keysOf; rw [List.flatMap_append]

/-- a list whose only flagged element can be the head is `mvOk` when x29 is not a key of the tail -/
theorem mvOk_head (it : PSlot × Bool) (rest : List (PSlot × Bool)) (hrest : ∀ x ∈ rest, x.2 = false)
    (h29 : (0, 29) ∉ keysOf rest) : mvOk (it :: rest) :=
  ⟨fun _ => h29, mvOk_all_false rest hrest⟩

/-- everything `A64WF` says about the slot list, from the register sizes of the convention -/
theorem a64_items_facts (f : Frame) (harch : f.arch = .a64) (h0 : f.srSize 0 = 8 ∧ f.srAlign 0 = 16)
    (h1 : (f.srSize 1 = 8 ∨ f.srSize 1 = 16) ∧ f.srAlign 1 = 16)
    (hfp : f.hasFP = true → (f.saved 0).testBit 29 = true ∧ (f.saved 0).testBit 30 = true)
    (h31 : (f.saved 0).testBit 31 = false) :
    a64Total f = (f.nSaved 0 / 2) * 16 + (f.nSaved 0 % 2) * 16 + (f.nSaved 1 / 2) * (f.srSize 1 * 2) + (f.nSaved 1 % 2) * 16
    ∧ itemsAsc 0 (a64Items f) ∧ itemsEnd 0 (a64Items f) ≤ a64Total f
    ∧ (∀ it rest, a64Items f = it :: rest → it.1.2.2.2.2 = 0)
    ∧ keysOf (a64Items f) = (a64GpIds f).map (fun r => (0, r)) ++ (a64VecIds f).map (fun r => (1, r))
    ∧ mvOk (a64Items f)
    ∧ (∀ it ∈ a64Items f, it.1.2.1 = f.keepBytes it.1.1 ∧ 0 < pBytes it.1 ∧ (it.2 = true → f.hasFP = true))
    ∧ (a64Items f = [] → a64Total f = 0)
    ∧ (f.hasFP = true → ∃ it rest, a64Items f = it :: rest ∧ it.2 = true) := by
  obtain ⟨s0a, s0b⟩ := h0
  obtain ⟨s1a, s1b⟩ := h1
  have hsingle0 : alignUp 8 16 = 16 := by decide
  have hsingle1 : alignUp (f.srSize 1) 16 = 16 := by rcases s1a with h | h <;> rw [h] <;> decide
  have hn0 := nSaved_le f 0
  have hn1 := nSaved_le f 1
  have hlen0 := a64GpIds_length f hfp
  have hlen1 : (a64VecIds f).length = f.nSaved 1 := rfl
  have hgpEnd : a64GpEnd f = (f.nSaved 0 / 2) * 16 + (f.nSaved 0 % 2) * 16 := by
    unfold a64GpEnd
    rw [s0a, s0b, hsingle0, groupEnd_eq, hlen0]; omega
  have htotal : a64Total f = a64GpEnd f + (f.nSaved 1 / 2) * (f.srSize 1 * 2) + (f.nSaved 1 % 2) * 16 := by
    unfold a64Total
    rw [s1b, hsingle1, groupEnd_eq, hlen1]
  have hs1le : f.srSize 1 ≤ 16 := by rcases s1a with h | h <;> omega
  have hs1pos : 0 < f.srSize 1 := by rcases s1a with h | h <;> omega
  have hb1 : f.nSaved 1 / 2 * (f.srSize 1 * 2) ≤ 16 * 32 := by
    have : f.nSaved 1 / 2 ≤ 16 := by omega
    calc f.nSaved 1 / 2 * (f.srSize 1 * 2) ≤ 16 * (16 * 2) := Nat.mul_le_mul this (by omega)
      _ = 16 * 32 := by omega
  have hv0 : a64ViewSize f 0 = 8 := by simp [a64ViewSize]
  have hv1 : a64ViewSize f 1 = f.srSize 1 := by
    unfold a64ViewSize
    rcases s1a with h | h <;> simp [h]
  -- the two groups
  obtain ⟨a1, a2, a3, a4, a5⟩ := groupItems_spec 0 8 8 16 f.hasFP (by omega) (by omega) (by omega) (a64GpIds f) true 0
    (by have : groupEnd 8 16 (a64GpIds f) 0 = a64GpEnd f := by unfold a64GpEnd; rw [s0a, s0b, hsingle0]
        rw [this, hgpEnd]; omega)
  obtain ⟨b1, b2, b3, b4, b5⟩ := groupItems_spec 1 (f.srSize 1) (f.srSize 1) 16 f.hasFP hs1pos (Nat.le_refl _) hs1le
    (a64VecIds f) true (a64GpEnd f)
    (by have : groupEnd (f.srSize 1) 16 (a64VecIds f) (a64GpEnd f) = a64Total f := by unfold a64Total; rw [s1b, hsingle1]
        rw [this, htotal, hgpEnd]; omega)
  have eG0 : groupEnd 8 16 (a64GpIds f) 0 = a64GpEnd f := by unfold a64GpEnd; rw [s0a, s0b, hsingle0]
  have eG1 : groupEnd (f.srSize 1) 16 (a64VecIds f) (a64GpEnd f) = a64Total f := by unfold a64Total; rw [s1b, hsingle1]
  rw [eG0] at a2
  rw [eG1] at b2
  have hitems : a64Items f = groupItems 0 8 8 f.hasFP true (a64GpIds f) 0
      ++ groupItems 1 (f.srSize 1) (f.srSize 1) f.hasFP true (a64VecIds f) (a64GpEnd f) := by
    unfold a64Items; rw [hv0, hv1, s0a]
  generalize hG0 : groupItems 0 8 8 f.hasFP true (a64GpIds f) 0 = G0 at *
  generalize hG1 : groupItems 1 (f.srSize 1) (f.srSize 1) f.hasFP true (a64VecIds f) (a64GpEnd f) = G1 at *
  have hge := groupEnd_ge (f.srSize 1) 16 (a64VecIds f) (a64GpEnd f)
  rw [eG1] at hge
  refine ⟨by rw [htotal, hgpEnd], ?_, ?_, ?_, ?_, ?_, ?_, ?_, ?_⟩
  · rw [hitems]; exact itemsAsc_append G0 G1 0 (a64GpEnd f) a1 a2 b1
  · rw [hitems, itemsEnd_append]
    cases hg : G1 with
    | nil => simp only [itemsEnd]; omega
    | cons x xs => rw [hg] at b2; exact b2
  · intro it rest h
    rw [hitems] at h
    cases hg : G0 with
    | nil =>
      rw [hg, List.nil_append] at h
      have hz : a64GpEnd f = 0 := by
        have : a64GpIds f = [] := by
          cases hi : a64GpIds f with
          | nil => rfl
          | cons r rs =>
            exfalso
            rw [hi] at hG0
            cases rs <;> simp [groupItems] at hG0 <;> rw [hg] at hG0 <;> exact absurd hG0 (by simp)
        unfold a64GpEnd; rw [this]; rfl
      rw [(b5 it rest h).1, hz]
    | cons x xs =>
      rw [hg, List.cons_append] at h
      injection h with h3 h4
      subst h3
      exact (a5 x xs hg).1
  · rw [hitems, keysOf_append, a3, b3]
  · -- flags
    rw [hitems]
    cases hfpc : f.hasFP with
    | false =>
      apply mvOk_all_false
      intro it hit
      rw [List.mem_append] at hit
      cases hm : it.2 with
      | false => rfl
      | true =>
        rcases hit with hit | hit
        · have := ((a4 it hit).2.2.2 hm).1; rw [hfpc] at this; exact absurd this (by simp)
        · have := ((b4 it hit).2.2.2 hm).1; rw [hfpc] at this; exact absurd this (by simp)
    | true =>
      have hG1ok : mvOk G1 := by
        cases hg : G1 with
        | nil => trivial
        | cons x xs =>
          apply mvOk_head x xs (b5 x xs hg).2
          intro hk
          have : keysOf (x :: xs) = (a64VecIds f).map (fun r => (1, r)) := by rw [← hg]; exact b3
          have hsub : (0, 29) ∈ keysOf (x :: xs) := by
            simp only [keysOf, List.flatMap_cons, List.mem_append]; exact Or.inr hk
          rw [this, List.mem_map] at hsub
          obtain ⟨_, _, h⟩ := hsub
          exact absurd (Prod.mk.inj h).1 (by decide)
      cases hg : G0 with
      | nil => rw [List.nil_append]; exact hG1ok
      | cons x xs =>
        rw [List.cons_append]
        refine ⟨fun _ => ?_, mvOk_append_false xs G1 (a5 x xs hg).2 hG1ok⟩
        -- x29 is in the head pair only
        intro hk
        rw [keysOf_append, List.mem_append] at hk
        have hids : a64GpIds f = 29 :: 30 :: a64RestIds f := by unfold a64GpIds a64RestIds; rw [hfpc]; rfl
        rcases hk with hk | hk
        · have hkeys0 : keysOf (x :: xs) = (a64GpIds f).map (fun r => (0, r)) := by rw [← hg]; exact a3
          rw [hids] at hG0
          simp only [groupItems] at hG0
          rw [hg] at hG0
          injection hG0 with _ hxs
          have hspec := groupItems_spec 0 8 8 16 f.hasFP (by omega) (by omega) (by omega) (a64RestIds f) false (0 + 8 * 2)
            (by
              have e : groupEnd 8 16 (a64GpIds f) 0 = groupEnd 8 16 (a64RestIds f) (0 + 8 * 2) := by rw [hids]; rfl
              rw [← e, eG0, hgpEnd]; omega)
          rw [hxs] at hspec
          rw [hspec.2.2.1, List.mem_map] at hk
          obtain ⟨r, hr, hreq⟩ := hk
          have : r = 29 := (Prod.mk.inj hreq).2
          subst this
          exact ((mem_a64RestIds f 29).mp hr).2.1 rfl
        · rw [b3, List.mem_map] at hk
          obtain ⟨_, _, h⟩ := hk
          exact absurd (Prod.mk.inj h).1 (by decide)
  · intro it hit
    rw [hitems, List.mem_append] at hit
    rcases hit with hit | hit
    · obtain ⟨c1, c2, c3, c4⟩ := a4 it hit
      refine ⟨?_, c3, fun h => (c4 h).1⟩
      rw [c1, c2]; simp [Frame.keepBytes, harch, Arch.W]
    · obtain ⟨c1, c2, c3, c4⟩ := b4 it hit
      refine ⟨?_, c3, fun h => (c4 h).1⟩
      rw [c1, c2]; simp [Frame.keepBytes]
  · intro he
    rw [hitems] at he
    have hnil0 : G0 = [] := (List.append_eq_nil_iff.mp he).1
    have hnil1 : G1 = [] := (List.append_eq_nil_iff.mp he).2
    have hz0 : a64GpIds f = [] := by
      cases hi : a64GpIds f with
      | nil => rfl
      | cons r rs =>
        exfalso
        rw [hi] at hG0
        cases rs <;> simp [groupItems] at hG0 <;> rw [hnil0] at hG0 <;> exact absurd hG0 (by simp)
    have hz1 : a64VecIds f = [] := by
      cases hi : a64VecIds f with
      | nil => rfl
      | cons r rs =>
        exfalso
        rw [hi] at hG1
        cases rs <;> simp [groupItems] at hG1 <;> rw [hnil1] at hG1 <;> exact absurd hG1 (by simp)
    unfold a64Total a64GpEnd
    rw [hz0, hz1]; rfl
  · intro hfpc
    have hids : a64GpIds f = 29 :: 30 :: a64RestIds f := by unfold a64GpIds a64RestIds; rw [hfpc]; rfl
    rw [hids] at hG0
    simp only [groupItems] at hG0
    rw [hitems, ← hG0]
    exact ⟨_, _, rfl, by simp [hfpc]⟩

end AsmjitVerif.Frame
