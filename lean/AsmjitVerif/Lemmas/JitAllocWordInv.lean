/- C09: no block of a reachable state is larger than 2^31 + 2^29 bytes, hence every 32/64-bit expression of the block-size
computation is exact (Lemmas/JitAllocWord.lean) in every reachable state. -/
import AsmjitVerif.Lemmas.JitAllocDiv
import AsmjitVerif.Lemmas.JitAllocWord
namespace AsmjitVerif.JitAlloc

/-- every block is at most 0xA000_0000 bytes -/
def ABnd (a : Alloc) : Prop := ∀ b ∈ a.blocks, b.blockSize ≤ 2684354560

/-- configurations with base block size <= 256 MiB and pool granularities <= 1024 (all `mkConfig` produces) -/
def CfgBnd (c : Config) : Prop := 0 < c.blockSize ∧ c.blockSize ≤ 268435456 ∧ ∀ p, p < c.poolCount → c.poolGran p ≤ 1024

/-- the block a pool's doubling starts from -/
def lastSize (a : Alloc) (p : Nat) : Nat :=
  match (a.poolBlocks p).getLast? with
  | some l => l.blockSize
  | none => a.cfg.blockSize

theorem idealBlockSize_eq (a : Alloc) (p size : Nat) :
    idealBlockSize a p size = Word.idealModel (lastSize a p) a.cfg.blockSize a.cfg.noPad (a.cfg.poolGran p) size := rfl

theorem lastSize_le {a : Alloc} (hc : CfgBnd a.cfg) (hB : ABnd a) (p : Nat) : lastSize a p ≤ 2684354560 := by
  unfold lastSize
  cases hl : (a.poolBlocks p).getLast? with
  | none => have := hc.2.1; simp only; omega
  | some l =>
    have hm : l ∈ a.poolBlocks p := List.mem_of_getLast? hl
    simp only [Alloc.poolBlocks, List.mem_filter] at hm
    exact hB l hm.1

/-- the 64-bit computation of `calculate_ideal_block_size` agrees with the model and stays within the bound -/
theorem ideal_word_exact {a : Alloc} (hc : CfgBnd a.cfg) (hB : ABnd a) {p size : Nat} (hp : p < a.cfg.poolCount) (hs : size ≤ 2147483647) :
    Word.ideal64 (lastSize a p) a.cfg.blockSize a.cfg.noPad (a.cfg.poolGran p) size = idealBlockSize a p size ∧
    idealBlockSize a p size ≤ 2684354560 := by
  rw [idealBlockSize_eq]
  exact Word.ideal_exact a.cfg.noPad (lastSize_le hc hB p) hc.1 hc.2.1 (by omega) (hc.2.2 p hp)

theorem alloc_abnd {a : Alloc} {T} (req : Nat) (h : AInv a T) (hc : CfgBnd a.cfg) (hB : ABnd a) : ABnd (a.alloc req).1 := by
  intro x hx
  refine alloc_forall (fun b => b.blockSize ≤ 2684354560) req h hB ?_ ?_ ?_ x hx
  · intro b b' k _ _ hq ht
    obtain ⟨_, _, f3, _, _⟩ := tryAlloc_fields ht
    rw [f3]; exact hq
  · intro b b' k idx _ _ _ hq ht
    obtain ⟨_, _, f3, _, _⟩ := tryAlloc_fields ht
    simp only [Block.commit, markAllocated_blockSize]
    rw [f3]; exact hq
  · intro blocks p n size hqb _ _ hp _ hs
    simp only [markAllocated_blockSize, newBlock, Block.clear]
    exact (ideal_word_exact (a := { a with blocks := blocks }) hc hqb hp hs).2

theorem ABnd.trans {s s' : St} (hI : Inv s) (hc : CfgBnd s.a.cfg) (hB : ABnd s.a) {l : TLabel} (t : Trans s l s') : ABnd s'.a := by
  have rel : ∀ (j : Nat) (hd : Handle), s.tab[j]? = some hd → hd.live = true → ABnd (s.a.release hd.blk hd.off).1 := by
    intro j hd h1 h2
    obtain ⟨b, hb, e, _⟩ := hI.owned j hd h1 h2
    have hfb : s.a.findBlock hd.blk = some b := by rw [← e]; exact findBlock_of_mem hI.ids hb
    intro x hx
    rcases release_shape2 s.a hd.blk hd.off b hfb x hx with hx | rfl
    · exact hB x hx
    · have := hB b hb; simpa using this
  have shr : ∀ (j : Nat) (hd : Handle) (n : Nat), s.tab[j]? = some hd → hd.live = true → ABnd (s.a.shrinkImpl hd.blk hd.off n).1 := by
    intro j hd n h1 h2
    obtain ⟨b, hb, e, _⟩ := hI.owned j hd h1 h2
    have hfb : s.a.findBlock hd.blk = some b := by rw [← e]; exact findBlock_of_mem hI.ids hb
    intro x hx
    rcases shrink_shape2 s.a hd.blk hd.off n b hfb x hx with hx | ⟨b0, hb0, rfl⟩
    · exact hB x hx
    · rcases hb0 with e | ⟨_, _, e⟩
      · rw [e]; exact hB b hb
      · rw [e]; have := hB b hb; simpa using this
  cases t with
  | same => exact hB
  | allocErr req e h => exact alloc_abnd req hI.toAInv hc hB
  | allocOk req sp h => exact alloc_abnd req hI.toAInv hc hB
  | release j hd h1 h2 h3 => exact rel j hd h1 h2
  | shrinkSome j hd n sz h1 h2 h3 h4 => exact shr j hd n h1 h2
  | shrinkNone j hd n h1 h2 h3 h4 => exact shr j hd n h1 h2
  | write j hd byte h1 h2 =>
    intro x hx
    simp only [Alloc.writeMem, Alloc.modifyBlock, List.mem_map] at hx
    obtain ⟨y, hy, rfl⟩ := hx
    split
    · exact hB y hy
    · exact hB y hy
  | reset hard =>
    intro x hx
    simp only [Alloc.reset] at hx
    obtain ⟨y, hy, hf⟩ := List.mem_filterMap.mp hx
    by_cases hk : s.a.keeps hard y = true
    · simp [hk] at hf
      rw [← hf]
      have : (wipeOut s.a.cfg y).blockSize = y.blockSize := by unfold wipeOut; split; rfl; split <;> rfl
      rw [this]; exact hB y hy
    · simp [hk] at hf

theorem mkConfig_bnd (opts gran blockSize pattern : Nat) : CfgBnd (mkConfig opts gran blockSize pattern) := by
  refine ⟨(mkConfig_wf opts gran blockSize pattern).2, ?_, ?_⟩
  · unfold mkConfig; simp only
    split
    · omega
    · rename_i h; simp at h; omega
  · intro p hp
    have hp3 : p < 3 := by unfold Config.poolCount at hp; split at hp <;> omega
    have hg : (mkConfig opts gran blockSize pattern).gran ≤ 256 := by
      unfold mkConfig; simp only
      split
      · omega
      · rename_i h; simp at h; omega
    unfold Config.poolGran
    have : p = 0 ∨ p = 1 ∨ p = 2 := by omega
    rcases this with rfl | rfl | rfl <;> omega

end AsmjitVerif.JitAlloc
