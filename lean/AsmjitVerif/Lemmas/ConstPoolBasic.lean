/- Helper lemmas for C19: association-list tree, byte writes, `fill`, alignment arithmetic. -/
import AsmjitVerif.Model.ConstPool
import AsmjitVerif.Spec.ConstPool
namespace AsmjitVerif.ConstPool

/-! ### tree as association list -/

theorem mem_treeInsert (m x : Node) (l : List Node) : x ∈ treeInsert m l ↔ x = m ∨ x ∈ l := by
  induction l with
  | nil => simp [treeInsert]
  | cons h t ih =>
    simp only [treeInsert]; split
    · simp
    · simp [ih]; constructor
      · rintro (h | h | h) <;> simp [h]
      · rintro (h | h | h) <;> simp [h]

theorem find?_treeInsert_of_not (p : Node → Bool) (m : Node) (l : List Node) (h : p m = false) :
    (treeInsert m l).find? p = l.find? p := by
  induction l with
  | nil => simp [treeInsert, h]
  | cons a t ih =>
    simp only [treeInsert]; split
    · simp [List.find?, h]
    · simp only [List.find?]; split <;> simp [ih]

theorem find?_treeInsert_self (p : Node → Bool) (m : Node) (l : List Node) (h : p m = true)
    (hn : l.find? p = none) : (treeInsert m l).find? p = some m := by
  induction l with
  | nil => simp [treeInsert, h]
  | cons a t ih =>
    simp only [List.find?] at hn
    split at hn
    · simp at hn
    · rename_i ha
      simp only [treeInsert]; split
      · simp [List.find?, h]
      · simp [List.find?, ha, ih hn]

/-- insertion of node `m` into tree `j` -/
def ins (t : List (List Node)) (j : Nat) (m : Node) : List (List Node) := setAt t j (treeInsert m (getAt t j))

theorem mem_ins (t : List (List Node)) (j i : Nat) (m x : Node) :
    x ∈ getAt (ins t j m) i ↔ (i = j ∧ x = m) ∨ x ∈ getAt t i := by
  unfold ins; rw [getAt_setAt]; split
  · rename_i h; subst h; simp [mem_treeInsert]
  · rename_i h; simp [h]

theorem treeGet_ins_of_ne (t : List (List Node)) (j i : Nat) (m : Node) (key : Bytes)
    (h : i ≠ j ∨ m.data ≠ key) : treeGet (getAt (ins t j m) i) key = treeGet (getAt t i) key := by
  unfold ins; rw [getAt_setAt]; split
  · rename_i hij; subst hij
    have : m.data ≠ key := by rcases h with h | h; exact absurd rfl h; exact h
    unfold treeGet; apply find?_treeInsert_of_not; simpa using this
  · rfl

theorem treeGet_ins_self (t : List (List Node)) (j : Nat) (m : Node)
    (h : treeGet (getAt t j) m.data = none) : treeGet (getAt (ins t j m) j) m.data = some m := by
  unfold ins; rw [getAt_setAt]; simp only [if_true]
  unfold treeGet; apply find?_treeInsert_self
  · simp
  · exact h

theorem treeGet_some {l : List Node} {key : Bytes} {n : Node} (h : treeGet l key = some n) :
    n ∈ l ∧ n.data = key := by
  unfold treeGet at h
  exact ⟨List.mem_of_find?_eq_some h, by simpa using List.find?_some h⟩

/-! ### writes -/

theorem writeAt_length (buf : Bytes) (off : Nat) (d : Bytes) (h : off + d.length ≤ buf.length) :
    (writeAt buf off d).length = buf.length := by
  simp [writeAt]; omega

theorem writeAt_getElem? (buf : Bytes) (off : Nat) (d : Bytes) (h : off + d.length ≤ buf.length) (p : Nat) :
    (writeAt buf off d)[p]? = if off ≤ p ∧ p < off + d.length then d[p - off]? else buf[p]? := by
  unfold writeAt
  by_cases h1 : p < off
  · rw [List.getElem?_append_left (by simp; omega)]
    simp [h1]; omega
  · rw [List.getElem?_append_right (by simp; omega)]
    have hl : (List.take off buf).length = off := by simp; omega
    rw [hl]
    by_cases h2 : p < off + d.length
    · rw [List.getElem?_append_left (by omega)]
      simp [h2]; omega
    · rw [List.getElem?_append_right (by omega)]
      simp [List.getElem?_drop]
      have : ¬ (off ≤ p ∧ p < off + d.length) := by omega
      simp [this]; congr 1; omega

/-- what `fillTree` leaves at position `p`: the old byte if no copied node covers `p`, else the byte of a covering node -/
theorem fillTree_spec (nodes : List Node) (buf : Bytes)
    (hfit : ∀ n ∈ nodes, n.shared = false → n.offset + n.data.length ≤ buf.length) :
    (fillTree buf nodes).length = buf.length ∧
    ∀ p, ((fillTree buf nodes)[p]? = buf[p]? ∧ ∀ n ∈ nodes, n.shared = false → ¬ (n.offset ≤ p ∧ p < n.offset + n.data.length))
       ∨ (∃ n ∈ nodes, n.shared = false ∧ n.offset ≤ p ∧ p < n.offset + n.data.length ∧ (fillTree buf nodes)[p]? = n.data[p - n.offset]?) := by
  induction nodes generalizing buf with
  | nil => simp [fillTree]
  | cons a t ih =>
    have hstep : fillTree buf (a :: t) = fillTree (if a.shared then buf else writeAt buf a.offset a.data) t := by
      simp [fillTree, List.foldl]
    rw [hstep]
    by_cases hs : a.shared = true
    · simp only [hs, if_true]
      have := ih buf (fun n hn => hfit n (List.mem_cons_of_mem _ hn))
      refine ⟨this.1, fun p => ?_⟩
      rcases this.2 p with ⟨h1, h2⟩ | ⟨n, hn, h⟩
      · left; refine ⟨h1, ?_⟩
        intro n hn hsn
        rcases List.mem_cons.1 hn with rfl | hn
        · simp [hs] at hsn
        · exact h2 n hn hsn
      · right; exact ⟨n, List.mem_cons_of_mem _ hn, h⟩
    · have hs' : a.shared = false := by simpa using hs
      simp only [hs', Bool.false_eq_true, if_false]
      have hfa := hfit a (List.mem_cons_self) hs'
      have hlen := writeAt_length buf a.offset a.data hfa
      have := ih (writeAt buf a.offset a.data) (fun n hn hsn => by rw [hlen]; exact hfit n (List.mem_cons_of_mem _ hn) hsn)
      refine ⟨by rw [this.1, hlen], fun p => ?_⟩
      rcases this.2 p with ⟨h1, h2⟩ | ⟨n, hn, h⟩
      · rw [writeAt_getElem? buf a.offset a.data hfa p] at h1
        by_cases hc : a.offset ≤ p ∧ p < a.offset + a.data.length
        · right; refine ⟨a, List.mem_cons_self, hs', hc.1, hc.2, ?_⟩
          simpa [hc] using h1
        · left; refine ⟨by simpa [hc] using h1, ?_⟩
          intro n hn hsn
          rcases List.mem_cons.1 hn with rfl | hn
          · exact hc
          · exact h2 n hn hsn
      · right; exact ⟨n, List.mem_cons_of_mem _ hn, h⟩

/-- all nodes of the seven trees in `fill` order -/
def allNodes (t : List (List Node)) : List Node := (List.range 7).flatMap (getAt t)

theorem mem_allNodes (t : List (List Node)) (n : Node) : n ∈ allNodes t ↔ ∃ i, i < 7 ∧ n ∈ getAt t i := by
  simp [allNodes, List.mem_flatMap]

theorem fill_eq (s : Pool) : fill s = fillTree (List.replicate s.size 0#8) (allNodes s.tree) := by
  unfold fill allNodes fillTree
  rw [List.foldl_flatMap]

/-! ### arithmetic -/

theorem alignUpDiff_mod (x a : Nat) (ha : 0 < a) : (x + alignUpDiff x a) % a = 0 := by
  unfold alignUpDiff
  have hr : x % a < a := Nat.mod_lt _ ha
  by_cases h0 : x % a = 0
  · simp [h0, Nat.mod_self]
  · have h1 : (a - x % a) % a = a - x % a := Nat.mod_eq_of_lt (by omega)
    rw [h1]
    have h2 := Nat.div_add_mod x a
    have : x + (a - x % a) = a * (x / a + 1) := by rw [Nat.mul_add]; omega
    rw [this]; exact Nat.mul_mod_right _ _

theorem alignUpDiff_lt (x a : Nat) (ha : 0 < a) : alignUpDiff x a < a := Nat.mod_lt _ ha

theorem validSize_iff (n : Nat) : Spec.validSize n = true ↔ (¬ (n = 0 ∨ n > kMaxSize) ∧ 2 ^ ctz n = n) := by
  by_cases h : n < 65
  · revert n; decide
  · have : Spec.validSize n = false := by
      unfold Spec.validSize; simp; omega
    simp [this, kMaxSize]; omega

theorem ctz_pow (i : Nat) (h : i < 7) : ctz (2 ^ i) = i := by
  revert i; decide

theorem validSize_pow (n : Nat) (h : Spec.validSize n = true) : ∃ i, i < 7 ∧ n = 2 ^ i ∧ ctz n = i := by
  have h' : n = 1 ∨ n = 2 ∨ n = 4 ∨ n = 8 ∨ n = 16 ∨ n = 32 ∨ n = 64 := by
    unfold Spec.validSize at h; simp at h; omega
  rcases h' with rfl | rfl | rfl | rfl | rfl | rfl | rfl
  · exact ⟨0, by decide⟩
  · exact ⟨1, by decide⟩
  · exact ⟨2, by decide⟩
  · exact ⟨3, by decide⟩
  · exact ⟨4, by decide⟩
  · exact ⟨5, by decide⟩
  · exact ⟨6, by decide⟩

end AsmjitVerif.ConstPool
