/-
C18 – `ArenaVector<T>`, part 3: the sequence theorem `vec_refines_list`.
For every list of steps – vector operations interleaved with `env s` steps that replace the arena by ANY state
(the allocation oracle may grant or refuse anything) – started from any arena and the empty vector: the model never reports a write
outside the allocation (`none`), `WF` holds after every prefix, an operation answered `.oom` leaves the vector
unchanged, and `items` equals the textbook list computed by `specStep`.
-/
import AsmjitVerif.Lemmas.C18Vector2
namespace AsmjitVerif.Vector
open AsmjitVerif.Arena

theorem okB_false {e : Err} (h : okB e = false) : e = .oom := by cases e <;> simp_all [okB]
theorem okB_true {e : Err} (h : okB e = true) : e = .ok := by cases e <;> simp_all [okB]

/-- one vector operation: never `none`; arena bound, `WF` and the refinement are kept; `ok = false` (the model
answered `.oom`) leaves the vector unchanged -/
theorem modelStep_spec {itemSize : Nat} (hi : 0 < itemSize) (hi32 : itemSize < u32) (a : State) {v : Vec}
    (hw : WF v) (op : VOp) :
    ∃ a' v' ok, modelStep itemSize a v op = some (a', v', ok) ∧ WF v' ∧
      (ok = false → v' = v) ∧ items v' = specStep (items v) op ok := by
  have hlen := length_items hw
  -- shared treatment of the three `insert` flavours
  have hins : ∀ index x, index ≤ v.size →
      ∃ a' v' ok, (insert a v index x itemSize).map (fun r => (r.1, r.2.1, okB r.2.2)) = some (a', v', ok) ∧
        WF v' ∧ (ok = false → v' = v) ∧
        items v' = if ok then (items v).take index ++ x :: (items v).drop index else items v := by
    intro index x hidx
    obtain ⟨a', v', e, heq, mm, wf, hoom, hok⟩ := insert_spec x hw hidx hi hi32
    refine ⟨a', v', okB e, by rw [heq]; rfl, wf, fun h => hoom (okB_false h), ?_⟩
    cases e with
    | ok => simp only [okB]; exact hok rfl
    | oom => rw [hoom rfl]; simp [okB]
  cases op with
  | append x =>
    obtain ⟨a', v', ok, heq, wf, hoom, hit⟩ := hins v.size x (Nat.le_refl _)
    refine ⟨a', v', ok, heq, wf, hoom, ?_⟩
    rw [hit]; simp only [specStep]
    rw [← hlen, List.take_length, List.drop_length]
  | prepend x =>
    obtain ⟨a', v', ok, heq, wf, hoom, hit⟩ := hins 0 x (Nat.zero_le _)
    refine ⟨a', v', ok, heq, wf, hoom, ?_⟩
    rw [hit]; simp only [specStep, List.take_zero, List.drop_zero, List.nil_append]
  | insert i x =>
    simp only [modelStep]
    by_cases hidx : i ≤ v.size
    · rw [if_pos hidx]
      obtain ⟨a', v', ok, heq, wf, hoom, hit⟩ := hins i x hidx
      refine ⟨a', v', ok, heq, wf, hoom, ?_⟩
      rw [hit]; simp only [specStep, hlen, hidx, true_and]
    · rw [if_neg hidx]
      refine ⟨a, v, true, rfl, hw, nofun, ?_⟩
      simp only [specStep, hlen, hidx, false_and, if_false]
  | removeAt i =>
    simp only [modelStep]
    by_cases hidx : i < v.size
    · rw [if_pos hidx]
      obtain ⟨v', heq, wf, hit⟩ := removeAt_spec hw hidx
      refine ⟨a, v', true, by rw [heq]; rfl, wf, nofun, ?_⟩
      rw [hit]; simp only [specStep, hlen, hidx, if_true]
    · rw [if_neg hidx]
      refine ⟨a, v, true, rfl, hw, nofun, ?_⟩
      simp only [specStep, hlen, hidx, if_false]
  | pop =>
    simp only [modelStep]
    by_cases h0 : 0 < v.size
    · rw [if_pos h0]
      obtain ⟨wf, hit, _⟩ := pop_spec hw h0
      exact ⟨a, _, true, rfl, wf, nofun, by rw [hit]; rfl⟩
    · rw [if_neg h0]
      refine ⟨a, v, true, rfl, hw, nofun, ?_⟩
      have hs : v.size = 0 := by omega
      simp only [specStep, Vector.items, hs, List.take_zero, List.dropLast_nil]
  | clear =>
    obtain ⟨wf, hit⟩ := clear_spec hw
    exact ⟨a, _, true, rfl, wf, nofun, by rw [hit]; rfl⟩
  | truncate n =>
    obtain ⟨wf, hit⟩ := truncate_spec hw n
    exact ⟨a, _, true, rfl, wf, nofun, by rw [hit]; rfl⟩
  | reserveFit n =>
    simp only [modelStep]
    generalize hr : reserveFitP a v n itemSize = r
    obtain ⟨a1, v1, e1⟩ := r
    have ok := reserveFitP_spec hr hw hi hi32
    exact ⟨a1, v1, okB e1, rfl, ok.wf, fun h => ok.oom (okB_false h), by rw [ok.items]; rfl⟩
  | reserveGrow n =>
    simp only [modelStep]
    generalize hr : reserveGrowP a v n itemSize = r
    obtain ⟨a1, v1, e1⟩ := r
    have ok := reserveGrowP_spec hr hw hi hi32
    exact ⟨a1, v1, okB e1, rfl, ok.wf, fun h => ok.oom (okB_false h), by rw [ok.items]; rfl⟩
  | resizeFit n =>
    obtain ⟨a', v', e, heq, mm, wf, hoom, hok⟩ := resize_spec false n hw hi hi32
    refine ⟨a', v', okB e, by simp only [modelStep]; rw [heq]; rfl, wf, fun h => hoom (okB_false h), ?_⟩
    cases e with
    | ok => rw [hok rfl]; simp [specStep, okB, hlen]
    | oom => rw [hoom rfl]; simp [specStep, okB]
  | resizeGrow n =>
    obtain ⟨a', v', e, heq, mm, wf, hoom, hok⟩ := resize_spec true n hw hi hi32
    refine ⟨a', v', okB e, by simp only [modelStep]; rw [heq]; rfl, wf, fun h => hoom (okB_false h), ?_⟩
    cases e with
    | ok => rw [hok rfl]; simp [specStep, okB, hlen]
    | oom => rw [hoom rfl]; simp [specStep, okB]
  | release =>
    simp only [modelStep]
    generalize hr : release a v itemSize = r
    obtain ⟨a1, v1⟩ := r
    obtain ⟨mm, wf, hit⟩ := release_spec hr hw
    exact ⟨a1, v1, true, rfl, wf, nofun, by rw [hit]; rfl⟩

/-- the invariant of the lockstep run: `WF` (hence `size ≤ capacity = buf.length`) and the refinement
`items = textbook list`; nothing is assumed about the arena -/
def Inv (c : State × Vec × List Nat) : Prop := WF c.2.1 ∧ items c.2.1 = c.2.2

theorem stepAll_inv {itemSize : Nat} (hi : 0 < itemSize) (hi32 : itemSize < u32) {c : State × Vec × List Nat}
    (hc : Inv c) (st : Step) : ∃ c', stepAll itemSize c st = some c' ∧ Inv c' := by
  obtain ⟨a, v, l⟩ := c
  obtain ⟨hw, hl⟩ := hc
  simp only at hw hl
  cases st with
  | vec op =>
    obtain ⟨a', v', ok, heq, wf, _, hit⟩ := modelStep_spec hi hi32 a hw op
    refine ⟨(a', v', specStep l op ok), ?_, wf, ?_⟩
    · simp only [stepAll]; rw [heq]; rfl
    · simp only; rw [hit, hl]
  | env s =>
    exact ⟨_, rfl, hw, hl⟩

theorem run_inv {itemSize : Nat} (hi : 0 < itemSize) (hi32 : itemSize < u32) (steps : List Step) :
    ∀ c, Inv c → ∃ c', run itemSize c steps = some c' ∧ Inv c' := by
  induction steps with
  | nil => intro c hc; exact ⟨c, rfl, hc⟩
  | cons st rest ih =>
    intro c hc
    obtain ⟨c1, h1, hc1⟩ := stepAll_inv hi hi32 hc st
    obtain ⟨c2, h2, hc2⟩ := ih c1 hc1
    exact ⟨c2, by simp only [run, h1]; exact h2, hc2⟩

theorem run_append (itemSize : Nat) (s1 s2 : List Step) :
    ∀ c, run itemSize c (s1 ++ s2) = (run itemSize c s1).bind (fun c' => run itemSize c' s2) := by
  induction s1 with
  | nil => intro c; rfl
  | cons st rest ih =>
    intro c
    simp only [List.cons_append, run]
    cases stepAll itemSize c st with
    | none => rfl
    | some c' => exact ih c'

/-- **The sequence theorem.**  `0 < itemSize < 2^32`, any start arena, the empty vector,
ANY list of steps (vector operations interleaved with arbitrary arena replacements `env s`): the run never
yields `none`, and at the end (hence, the list being arbitrary, after every prefix – see
`vec_refines_list_prefix`) the vector is well formed and its items are exactly the textbook list. -/
theorem vec_refines_list {itemSize : Nat} (hi : 0 < itemSize) (hi32 : itemSize < u32) (steps : List Step)
    (a0 : State) :
    ∃ a v l, run itemSize (a0, {}, []) steps = some (a, v, l) ∧ WF v ∧ items v = l := by
  obtain ⟨⟨a, v, l⟩, hrun, hw, hl⟩ := run_inv hi hi32 steps (a0, {}, []) ⟨wf_empty, rfl⟩
  exact ⟨a, v, l, hrun, hw, hl⟩

/-- the same after every prefix, and the full run continues from the state reached by the prefix -/
theorem vec_refines_list_prefix {itemSize : Nat} (hi : 0 < itemSize) (hi32 : itemSize < u32) (steps : List Step)
    (a0 : State) (k : Nat) :
    ∃ a v l, run itemSize (a0, {}, []) (steps.take k) = some (a, v, l) ∧ WF v ∧ items v = l ∧
      v.size ≤ v.cap ∧ v.buf.length = v.cap ∧
      run itemSize (a0, {}, []) steps = run itemSize (a, v, l) (steps.drop k) := by
  obtain ⟨a, v, l, hrun, hw, hl⟩ := vec_refines_list hi hi32 (steps.take k) a0
  refine ⟨a, v, l, hrun, hw, hl, hw.le, hw.len, ?_⟩
  have := run_append itemSize (steps.take k) (steps.drop k) (a0, {}, [])
  rw [List.take_append_drop, hrun] at this
  exact this

/-- at every reachable state, every further vector operation succeeds in the model (`some`), an operation
answered `.oom` (`ok = false`) leaves the vector unchanged, and the items follow the textbook semantics -/
theorem vec_refines_list_step {itemSize : Nat} (hi : 0 < itemSize) (hi32 : itemSize < u32) (steps : List Step)
    (a0 : State) (op : VOp) :
    ∃ a v l, run itemSize (a0, {}, []) steps = some (a, v, l) ∧
      ∃ a' v' ok, modelStep itemSize a v op = some (a', v', ok) ∧ WF v' ∧ (ok = false → v' = v) ∧
        items v' = specStep l op ok := by
  obtain ⟨a, v, l, hrun, hw, hl⟩ := vec_refines_list hi hi32 steps a0
  obtain ⟨a', v', ok, heq, wf, hoom, hit⟩ := modelStep_spec hi hi32 a hw op
  exact ⟨a, v, l, hrun, a', v', ok, heq, wf, hoom, by rw [hit, hl]⟩

example : (run 4 (init 8192 0, {}, []) [.vec (.append 5), .vec (.prepend 3), .env (init 64 0 0), .vec (.append 7),
    .vec (.insert 1 4), .vec (.removeAt 0), .vec (.resizeGrow 4), .vec .pop, .vec (.truncate 2)]).map (·.2.2)
    = some [4, 5] := by decide

/-- the oracle first refuses everything (`mallocMax = 0`: `append` answers `.oom`, list unchanged), then an `env`
step installs an arena that grants a 4 GiB block: `reserve_grow(0xFFFFFFFE)` succeeds with capacity `0xFFFFFFFF` -/
example : (run 1 (init 8192 0 0, {}, []) [.vec (.append 1), .env (init 8192 0 (2 ^ 40)),
    .vec (.reserveGrow 4294967294)]).map (fun c => (c.2.1.cap, c.2.2)) = some (4294967295, []) := by decide

end AsmjitVerif.Vector
