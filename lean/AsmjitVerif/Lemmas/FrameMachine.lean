/- C07 helper lemmas about the stack machine: little-endian memory, `run`, and the push/pop bracket. -/
import AsmjitVerif.Model.Frame
namespace AsmjitVerif.Frame

theorem storeBytes_other (m : Mem) (a w v x : Nat) (h : x < a ∨ a + w ≤ x) : storeBytes m a w v x = m x := by
  unfold storeBytes
  rw [if_neg]; omega

theorem loadBytes_congr (m1 m2 : Mem) (w : Nat) : ∀ (a : Nat),
    (∀ x, a ≤ x → x < a + w → m1 x = m2 x) → loadBytes m1 a w = loadBytes m2 a w := by
  induction w with
  | zero => intro a _; rfl
  | succ w ih =>
    intro a h
    simp only [loadBytes]
    rw [h a (by omega) (by omega), ih (a + 1) (fun x h1 h2 => h x (by omega) (by omega))]

theorem loadBytes_store_same (w : Nat) : ∀ (m : Mem) (a v : Nat),
    loadBytes (storeBytes m a w v) a w = v % 256 ^ w := by
  induction w with
  | zero => intro m a v; simp [loadBytes, Nat.mod_one]
  | succ w ih =>
    intro m a v
    simp only [loadBytes]
    have h0 : storeBytes m a (w + 1) v a = v % 256 := by
      unfold storeBytes; rw [if_pos (by omega)]; simp
    have h1 : loadBytes (storeBytes m a (w + 1) v) (a + 1) w = loadBytes (storeBytes m (a + 1) w (v / 256)) (a + 1) w := by
      apply loadBytes_congr
      intro x hx1 hx2
      unfold storeBytes
      rw [if_pos (by omega), if_pos (by omega)]
      have : x - a = (x - (a + 1)) + 1 := by omega
      rw [this, Nat.pow_succ, Nat.mul_comm, Nat.div_div_eq_div_mul]
    rw [h0, h1, ih, Nat.mod_mod, Nat.pow_succ, Nat.mul_comm (256 ^ w) 256, Nat.mod_mul]

theorem loadBytes_store_other (m : Mem) (a w v b w' : Nat) (h : b + w' ≤ a ∨ a + w ≤ b) :
    loadBytes (storeBytes m a w v) b w' = loadBytes m b w' := by
  apply loadBytes_congr
  intro x h1 h2
  exact storeBytes_other m a w v x (by omega)

theorem run_append (a : Arch) (p q : List Instr) (s : St) :
    run a (p ++ q) s = (run a p s).bind (run a q) := by
  induction p generalizing s with
  | nil => simp [run]
  | cons i p ih =>
    simp only [List.cons_append, run]
    cases step a i s with
    | none => simp
    | some s' => simp [ih]

@[simp] theorem setGp_gp (s : St) (r v i : Nat) : (s.setGp r v).gp i = if i = r then v else s.gp i := rfl
@[simp] theorem setGp_mem (s : St) (r v : Nat) : (s.setGp r v).mem = s.mem := rfl
@[simp] theorem setGp_x (s : St) (r v : Nat) : (s.setGp r v).x = s.x := rfl
@[simp] theorem setGp_ret (s : St) (r v : Nat) : (s.setGp r v).ret = s.ret := rfl

/-- **push/pop bracket.** Pushing the registers `ids` (none of them `sp`, no duplicates), then running
anything that comes back with the same `sp` and has not touched the pushed words, then popping in reverse
order restores `sp` and every pushed register, and changes nothing else. -/
theorem push_pop_bracket (a : Arch) (ids : List Nat) : ∀ (s : St),
    ids.Nodup → a.spId ∉ ids → s.ret = none → a.W * ids.length ≤ s.gp a.spId →
    ∃ t1, run a (ids.map Instr.push) s = some t1
      ∧ t1.gp a.spId = s.gp a.spId - a.W * ids.length
      ∧ (∀ r, r ≠ a.spId → t1.gp r = s.gp r) ∧ t1.x = s.x ∧ t1.ret = none
      ∧ (∀ x, x < s.gp a.spId - a.W * ids.length ∨ s.gp a.spId ≤ x → t1.mem x = s.mem x)
      ∧ ∀ t2 : St, t2.gp a.spId = t1.gp a.spId → t2.ret = none →
          (∀ x, t1.gp a.spId ≤ x → x < s.gp a.spId → t2.mem x = t1.mem x) →
          ∃ t3, run a (ids.reverse.map Instr.pop) t2 = some t3
            ∧ t3.gp a.spId = s.gp a.spId
            ∧ (∀ r, r ∈ ids → t3.gp r = s.gp r % 256 ^ a.W)
            ∧ (∀ r, r ∉ ids → r ≠ a.spId → t3.gp r = t2.gp r)
            ∧ t3.x = t2.x ∧ t3.mem = t2.mem ∧ t3.ret = none := by
  induction ids with
  | nil =>
    intro s _ _ hret _
    refine ⟨s, by simp [run], by simp, fun _ _ => rfl, rfl, hret, fun _ _ => rfl, ?_⟩
    intro t2 h2 hr2 _
    refine ⟨t2, by simp [run], by simpa using h2, by simp, fun _ _ _ => rfl, rfl, rfl, hr2⟩
  | cons r ids ih =>
    intro s hnd hsp hret hroom
    have hnd' : ids.Nodup := (List.nodup_cons.mp hnd).2
    have hr_notin : r ∉ ids := (List.nodup_cons.mp hnd).1
    have hr_sp : r ≠ a.spId := fun h => hsp (by simp [h])
    have hsp' : a.spId ∉ ids := fun h => hsp (List.mem_cons_of_mem _ h)
    simp only [List.length_cons] at hroom ⊢
    have hW : a.W ≤ s.gp a.spId := by
      have : a.W * (ids.length + 1) = a.W * ids.length + a.W := by rw [Nat.mul_add, Nat.mul_one]
      omega
    -- the first push
    let s' : St := ({ s with mem := storeBytes s.mem (s.gp a.spId - a.W) a.W (s.gp r) }).setGp a.spId (s.gp a.spId - a.W)
    have hstep : step a (Instr.push r) s = some s' := by
      have hns : s.ret.isSome = false := by rw [hret]; rfl
      simp only [step, hns, Bool.false_eq_true, if_false]
      rw [if_neg (by omega)]
    have hs'sp : s'.gp a.spId = s.gp a.spId - a.W := by simp [s']
    have hmul : a.W * (ids.length + 1) = a.W * ids.length + a.W := by rw [Nat.mul_add, Nat.mul_one]
    obtain ⟨t1, hrun, ht1sp, ht1gp, ht1x, ht1ret, ht1mem, hpop⟩ :=
      ih s' hnd' hsp' (by simpa [s'] using hret) (by rw [hs'sp]; omega)
    refine ⟨t1, ?_, ?_, ?_, ?_, ht1ret, ?_, ?_⟩
    · simp only [List.map_cons, run, hstep, Option.bind_some]; exact hrun
    · rw [ht1sp, hs'sp]; omega
    · intro q hq; rw [ht1gp q hq]; simp [s', hq]
    · rw [ht1x]; rfl
    · intro x hx
      rw [ht1mem x (by rw [hs'sp]; omega)]
      simp only [s', setGp_mem]
      exact storeBytes_other _ _ _ _ _ (by omega)
    · intro t2 h2sp h2ret h2mem
      obtain ⟨t3, hrun3, h3sp, h3in, h3out, h3x, h3mem, h3ret⟩ :=
        hpop t2 h2sp h2ret (fun x hx1 hx2 => h2mem x hx1 (by rw [hs'sp] at hx2; omega))
      -- the last pop
      let t4 : St := (t3.setGp a.spId (t3.gp a.spId + a.W)).setGp r (loadBytes t3.mem (t3.gp a.spId) a.W)
      have hstep4 : step a (Instr.pop r) t3 = some t4 := by
        have hns : t3.ret.isSome = false := by rw [h3ret]; rfl
        simp only [step, hns, Bool.false_eq_true, if_false]
        rfl
      have hload : loadBytes t3.mem (t3.gp a.spId) a.W = s.gp r % 256 ^ a.W := by
        rw [h3mem, h3sp, hs'sp]
        have : loadBytes t2.mem (s.gp a.spId - a.W) a.W = loadBytes s'.mem (s.gp a.spId - a.W) a.W := by
          apply loadBytes_congr
          intro x hx1 hx2
          rw [h2mem x (by rw [ht1sp, hs'sp]; omega) (by omega)]
          exact ht1mem x (Or.inr (by rw [hs'sp]; exact hx1))
        rw [this]
        simp only [s', setGp_mem]
        exact loadBytes_store_same _ _ _ _
      refine ⟨t4, ?_, ?_, ?_, ?_, ?_, ?_, ?_⟩
      · simp only [List.reverse_cons, List.map_append, List.map_cons, List.map_nil, run_append, hrun3,
          Option.bind_some, run, hstep4]
      · simp only [t4, setGp_gp, if_neg hr_sp.symm, if_true, h3sp, hs'sp]; omega
      · intro q hq
        rcases List.mem_cons.mp hq with hq | hq
        · subst hq; simp only [t4, setGp_gp, if_true]; exact hload
        · have hqr : q ≠ r := fun h => hr_notin (h ▸ hq)
          have hqsp : q ≠ a.spId := fun h => hsp' (h ▸ hq)
          simp only [t4, setGp_gp, if_neg hqr, if_neg hqsp]
          rw [h3in q hq]; simp [s', hqsp]
      · intro q hq hqsp
        have hqr : q ≠ r := fun h => hq (by simp [h])
        have hq' : q ∉ ids := fun h => hq (List.mem_cons_of_mem _ h)
        simp only [t4, setGp_gp, if_neg hqr, if_neg hqsp]
        exact h3out q hq' hqsp
      · simp only [t4, setGp_x]; exact h3x
      · simp only [t4, setGp_mem]; exact h3mem
      · simp only [t4, setGp_ret]; exact h3ret

theorem addrOf_nat (B n : Nat) : addrOf B (n : Int) = some (B + n) := by
  unfold addrOf
  simp only
  rw [if_pos (by omega)]
  congr 1

theorem addrOf_neg (B n : Nat) (h : n ≤ B) : addrOf B (-(n : Int)) = some (B - n) := by
  unfold addrOf
  simp only
  rw [if_pos (by omega)]
  congr 1
  omega

theorem toI32_small (x : Nat) (h : x < 2 ^ 31) : toI32 x = (x : Int) := by
  unfold toI32
  have : x % 2 ^ 32 = x := Nat.mod_eq_of_lt (by omega)
  rw [this, if_pos h]

/-! ### non-GP save slots: (instruction, register id, offset from `sp`) -/

abbrev Slot := XMn × Nat × Nat

/-- offsets ascend and the byte ranges do not overlap: each slot starts at or after `lo` and the next
one at or after its end -/
def slotsAscending : Nat → List Slot → Prop
  | _, [] => True
  | lo, (mn, _, off) :: rest => lo ≤ off ∧ slotsAscending (off + mn.size) rest

/-- end of the last slot -/
def slotsEnd : Nat → List Slot → Nat
  | lo, [] => lo
  | _, (mn, _, off) :: rest => slotsEnd (off + mn.size) rest

theorem slotsEnd_ge : ∀ (slots : List Slot) (lo : Nat), slotsAscending lo slots → lo ≤ slotsEnd lo slots := by
  intro slots
  induction slots with
  | nil => intro lo _; exact Nat.le_refl _
  | cons p rest ih =>
    intro lo h
    obtain ⟨mn, id, off⟩ := p
    obtain ⟨h1, h2⟩ := h
    have := ih (off + mn.size) h2
    simp only [slotsEnd]
    omega

def slotKey (p : Slot) : Nat × Nat := (p.1.group, p.2.1)
def stXof (p : Slot) : Instr := Instr.stX p.1 4 (toI32 p.2.2) p.2.1
def ldXof (p : Slot) : Instr := Instr.ldX p.1 p.2.1 4 (toI32 p.2.2)

@[simp] theorem setX_gp (s : St) (g r v : Nat) : (s.setX g r v).gp = s.gp := rfl
@[simp] theorem setX_mem (s : St) (g r v : Nat) : (s.setX g r v).mem = s.mem := rfl
@[simp] theorem setX_ret (s : St) (g r v : Nat) : (s.setX g r v).ret = s.ret := rfl
theorem setX_x (s : St) (g r v g' i : Nat) : (s.setX g r v).x g' i = if g' = g ∧ i = r then v else s.x g' i := rfl

/-- **save-slot bracket.** Storing registers into ascending, non-overlapping slots relative to `sp = B`,
then anything that keeps `sp` and the slot bytes, then loading them back in the same order restores every
saved register (in the bytes moved), changes no other register and no memory. -/
theorem xsave_bracket (a : Arch) (B : Nat) (slots : List Slot) : ∀ (lo : Nat) (s : St),
    slotsAscending lo slots → (slots.map slotKey).Nodup → s.ret = none → s.gp 4 = B →
    (∀ p ∈ slots, p.1.aligned = true → (B + p.2.2) % 16 = 0) → (∀ p ∈ slots, p.2.2 < 2 ^ 31) →
    ∃ t1, run a (slots.map stXof) s = some t1 ∧ t1.gp = s.gp ∧ t1.x = s.x ∧ t1.ret = none
      ∧ (∀ x, x < B + lo ∨ B + slotsEnd lo slots ≤ x → t1.mem x = s.mem x)
      ∧ ∀ t2 : St, t2.gp 4 = B → t2.ret = none →
          (∀ x, B + lo ≤ x → x < B + slotsEnd lo slots → t2.mem x = t1.mem x) →
          ∃ t3, run a (slots.map ldXof) t2 = some t3 ∧ t3.gp = t2.gp ∧ t3.mem = t2.mem ∧ t3.ret = none
            ∧ (∀ p ∈ slots, t3.x p.1.group p.2.1 = s.x p.1.group p.2.1 % 256 ^ p.1.size)
            ∧ (∀ g i, (g, i) ∉ slots.map slotKey → t3.x g i = t2.x g i) := by
  induction slots with
  | nil =>
    intro lo s _ _ hret _ _ _
    refine ⟨s, by simp [run], rfl, rfl, hret, fun _ _ => rfl, ?_⟩
    intro t2 _ h2 _
    exact ⟨t2, by simp [run], rfl, rfl, h2, by simp, fun _ _ _ => rfl⟩
  | cons p rest ih =>
    intro lo s hasc hnd hret hsp hal hoff
    obtain ⟨mn, id, off⟩ := p
    obtain ⟨hlo, hasc'⟩ := hasc
    have hnd' : (rest.map slotKey).Nodup := (List.nodup_cons.mp hnd).2
    have hkey : (mn.group, id) ∉ rest.map slotKey := (List.nodup_cons.mp hnd).1
    have hoff0 : off < 2 ^ 31 := hoff (mn, id, off) (by simp)
    have hal0 : mn.aligned = true → (B + off) % 16 = 0 := hal (mn, id, off) (by simp)
    have hend := slotsEnd_ge rest (off + mn.size) hasc'
    have hns : s.ret.isSome = false := by rw [hret]; rfl
    have hfault : (mn.aligned && (B + off) % 16 != 0) = false := by
      cases hm : mn.aligned with
      | false => rfl
      | true => simp [hal0 hm]
    let s' : St := { s with mem := storeBytes s.mem (B + off) mn.size (s.x mn.group id) }
    have hstep : step a (stXof (mn, id, off)) s = some s' := by
      simp only [stXof, step, hns, Bool.false_eq_true, if_false, hsp, toI32_small off hoff0, addrOf_nat,
        Option.bind_some, hfault]
      rfl
    obtain ⟨t1, hrun, h1gp, h1x, h1ret, h1mem, hload⟩ :=
      ih (off + mn.size) s' hasc' hnd' hret hsp (fun p hp => hal p (List.mem_cons_of_mem _ hp))
        (fun p hp => hoff p (List.mem_cons_of_mem _ hp))
    refine ⟨t1, ?_, h1gp, h1x, h1ret, ?_, ?_⟩
    · simp only [List.map_cons, run, hstep, Option.bind_some]; exact hrun
    · intro x hx
      simp only [slotsEnd] at hx
      rw [h1mem x (by omega)]
      exact storeBytes_other _ _ _ _ _ (by omega)
    · intro t2 h2sp h2ret h2mem
      simp only [slotsEnd] at h2mem
      have hns2 : t2.ret.isSome = false := by rw [h2ret]; rfl
      let t2' : St := t2.setX mn.group id (loadBytes t2.mem (B + off) mn.size)
      have hstep2 : step a (ldXof (mn, id, off)) t2 = some t2' := by
        simp only [ldXof, step, hns2, Bool.false_eq_true, if_false, h2sp, toI32_small off hoff0, addrOf_nat,
          Option.bind_some, hfault]
        rfl
      have hval : loadBytes t2.mem (B + off) mn.size = s.x mn.group id % 256 ^ mn.size := by
        have : loadBytes t2.mem (B + off) mn.size = loadBytes s'.mem (B + off) mn.size := by
          apply loadBytes_congr
          intro x hx1 hx2
          rw [h2mem x (by omega) (by omega)]
          exact h1mem x (Or.inl (by omega))
        rw [this]
        exact loadBytes_store_same _ _ _ _
      obtain ⟨t3, hrun3, h3gp, h3mem, h3ret, h3in, h3out⟩ :=
        hload t2' (by simpa [t2'] using h2sp) (by simpa [t2'] using h2ret)
          (fun x hx1 hx2 => by simp only [t2', setX_mem]; exact h2mem x (by omega) hx2)
      refine ⟨t3, ?_, ?_, ?_, h3ret, ?_, ?_⟩
      · simp only [List.map_cons, run, hstep2, Option.bind_some]; exact hrun3
      · rw [h3gp]; rfl
      · rw [h3mem]; rfl
      · intro q hq
        rcases List.mem_cons.mp hq with hq | hq
        · subst hq
          rw [h3out mn.group id hkey]
          simp only [t2', setX_x, and_self, if_true]
          exact hval
        · exact h3in q hq
      · intro g i hgi
        have h1 : (g, i) ≠ (mn.group, id) := fun h => hgi (by simp [slotKey, h])
        have h2 : (g, i) ∉ rest.map slotKey := fun h => hgi (List.mem_cons_of_mem _ h)
        rw [h3out g i h2]
        simp only [t2', setX_x]
        rw [if_neg]
        intro ⟨hg, hi⟩; exact h1 (by rw [hg, hi])

end AsmjitVerif.Frame
