/-
Helper lemmas for the logical-immediate theorems of C17: `ctz64` meets its relational spec; per element width the
tail of `encode_logical_imm` is sound w.r.t. `DecodeBitMasks` and never refuses a value `DecodeBitMasks` produces.
SSA style: every intermediate of the C++ (`z_index`, `z_imm`, …) is generalised to a variable so that the bit-blaster
sees a DAG; `ctz64` stays opaque and is replaced by its relational spec.
-/
import AsmjitVerif.Spec.A64Imm
import Std.Tactic.BVDecide
namespace AsmjitVerif.A64Imm

/-- relational meaning of count-trailing-zeros: `n` is the index of the least set bit of `x` -/
def CtzSpec (x n : BitVec 64) : Prop :=
  n.ult 64#64 = true ∧ (x >>> n) &&& 1#64 = 1#64 ∧ x &&& ((1#64 <<< n) - 1#64) = 0#64

theorem ctz64_spec (x : BitVec 64) : x ≠ 0#64 → CtzSpec x (ctz64 x) := by
  intro hx
  unfold CtzSpec ctz64
  bv_decide (config := { timeout := 300 })

/-- what "sound" means for one accepted encoding `e` of `v` in a 64-bit operation -/
def Sound64 (v : BitVec 64) (e : LogicalImm) : Prop :=
  decodeBitMasksValid (e.n == 1#32) (e.s.truncate 6) = true ∧
  decodeBitMasksValue (e.n == 1#32) (e.s.truncate 6) (e.r.truncate 6) = v ∧
  e.n.ult 2#32 = true ∧ e.s.ult 64#32 = true ∧ e.r.ult 64#32 = true

/-- … and in a 32-bit operation (N must be 0; the register holds the low 32 bits) -/
def Sound32 (v : BitVec 64) (e : LogicalImm) : Prop :=
  e.n = 0#32 ∧ decodeBitMasksValid false (e.s.truncate 6) = true ∧
  decodeBitMasksValue false (e.s.truncate 6) (e.r.truncate 6) &&& 0xFFFFFFFF#64 = v ∧
  e.s.ult 64#32 = true ∧ e.r.ult 64#32 = true

/-- SSA unfolding of `encodeLogicalElem v w = some e` followed by bit-blasting -/
syntax "logical_ssa" term : tactic
set_option hygiene false in
macro_rules
  | `(tactic| logical_ssa $w) => `(tactic|
      (simp only [encodeLogicalElem] at h
       generalize himm : v &&& lsbMask64v $w = imm at h
       split at h
       · cases h
       rename_i hne
       have c1 := ctz64_spec (~~~imm)
       generalize hzi : ctz64 (~~~imm) = zi at h c1
       generalize hzimm : imm ^^^ ((1#64 <<< zi) - 1#64) = zimm at h
       have c2 := ctz64_spec zimm
       generalize hcz : ctz64 zimm = cz at h c2
       generalize hzc : (if (zimm != 0#64) = true then cz else $w) - zi = zc at h
       generalize hoi : zi + zc = oi at h
       generalize hoimm : ~~~(zimm ^^^ lsbMask64v oi) = oimm at h
       have c3 := ctz64_spec oimm
       generalize hco : ctz64 oimm = co at h c3
       generalize hoc : (if (oimm != 0#64) = true then co else $w) - oi = oc at h
       split at h
       · cases h
       rename_i hok
       cases h
       simp only [Sound64, Sound32, CtzSpec, halvesEq, lsbMask64v, decodeBitMasksValid, decodeBitMasksValue, expandElem] at *
       bv_decide (config := { timeout := 300 })))

theorem elem_sound64_64 (v : BitVec 64) (e : LogicalImm)
    (h : encodeLogicalElem v 64#64 = some e) : Sound64 v e := by logical_ssa 64#64
theorem elem_sound64_32 (v : BitVec 64) (e : LogicalImm) (hw : halvesEq v 32)
    (h : encodeLogicalElem v 32#64 = some e) : Sound64 v e := by logical_ssa 32#64
theorem elem_sound64_16 (v : BitVec 64) (e : LogicalImm) (hw : halvesEq v 32 ∧ halvesEq v 16)
    (h : encodeLogicalElem v 16#64 = some e) : Sound64 v e := by logical_ssa 16#64
theorem elem_sound64_8 (v : BitVec 64) (e : LogicalImm) (hw : halvesEq v 32 ∧ halvesEq v 16 ∧ halvesEq v 8)
    (h : encodeLogicalElem v 8#64 = some e) : Sound64 v e := by logical_ssa 8#64
theorem elem_sound64_4 (v : BitVec 64) (e : LogicalImm) (hw : halvesEq v 32 ∧ halvesEq v 16 ∧ halvesEq v 8 ∧ halvesEq v 4)
    (h : encodeLogicalElem v 4#64 = some e) : Sound64 v e := by logical_ssa 4#64
theorem elem_sound64_2 (v : BitVec 64) (e : LogicalImm)
    (hw : halvesEq v 32 ∧ halvesEq v 16 ∧ halvesEq v 8 ∧ halvesEq v 4 ∧ halvesEq v 2)
    (h : encodeLogicalElem v 2#64 = some e) : Sound64 v e := by logical_ssa 2#64

theorem elem_sound32_32 (v : BitVec 64) (e : LogicalImm) (hv : v &&& 0xFFFFFFFF00000000#64 = 0#64)
    (h : encodeLogicalElem v 32#64 = some e) : Sound32 v e := by logical_ssa 32#64
theorem elem_sound32_16 (v : BitVec 64) (e : LogicalImm) (hv : v &&& 0xFFFFFFFF00000000#64 = 0#64) (hw : halvesEq v 16)
    (h : encodeLogicalElem v 16#64 = some e) : Sound32 v e := by logical_ssa 16#64
theorem elem_sound32_8 (v : BitVec 64) (e : LogicalImm) (hv : v &&& 0xFFFFFFFF00000000#64 = 0#64)
    (hw : halvesEq v 16 ∧ halvesEq v 8)
    (h : encodeLogicalElem v 8#64 = some e) : Sound32 v e := by logical_ssa 8#64
theorem elem_sound32_4 (v : BitVec 64) (e : LogicalImm) (hv : v &&& 0xFFFFFFFF00000000#64 = 0#64)
    (hw : halvesEq v 16 ∧ halvesEq v 8 ∧ halvesEq v 4)
    (h : encodeLogicalElem v 4#64 = some e) : Sound32 v e := by logical_ssa 4#64
theorem elem_sound32_2 (v : BitVec 64) (e : LogicalImm) (hv : v &&& 0xFFFFFFFF00000000#64 = 0#64)
    (hw : halvesEq v 16 ∧ halvesEq v 8 ∧ halvesEq v 4 ∧ halvesEq v 2)
    (h : encodeLogicalElem v 2#64 = some e) : Sound32 v e := by logical_ssa 2#64

/-! ### completeness: a value produced by `DecodeBitMasks` is never refused -/

syntax "logical_complete_ssa" term : tactic
set_option hygiene false in
macro_rules
  | `(tactic| logical_complete_ssa $w) => `(tactic|
      (intro h
       simp only [encodeLogicalElem] at h
       generalize himm : v &&& lsbMask64v $w = imm at h
       split at h
       · rename_i hbad
         simp only [halvesEq, lsbMask64v, decodeBitMasksValid, decodeBitMasksValue, expandElem] at *
         bv_decide (config := { timeout := 300 })
       rename_i hne
       have c1 := ctz64_spec (~~~imm)
       generalize hzi : ctz64 (~~~imm) = zi at h c1
       generalize hzimm : imm ^^^ ((1#64 <<< zi) - 1#64) = zimm at h
       have c2 := ctz64_spec zimm
       generalize hcz : ctz64 zimm = cz at h c2
       generalize hzc : (if (zimm != 0#64) = true then cz else $w) - zi = zc at h
       generalize hoi : zi + zc = oi at h
       generalize hoimm : ~~~(zimm ^^^ lsbMask64v oi) = oimm at h
       have c3 := ctz64_spec oimm
       generalize hco : ctz64 oimm = co at h c3
       generalize hoc : (if (oimm != 0#64) = true then co else $w) - oi = oc at h
       split at h
       · rename_i hbad
         simp only [CtzSpec, halvesEq, lsbMask64v, decodeBitMasksValid, decodeBitMasksValue, expandElem] at *
         bv_decide (config := { timeout := 300 })
       · cases h))

/-- `v` is an architecturally valid 64-bit logical immediate -/
def IsLogical64 (v : BitVec 64) (n : Bool) (imms immr : BitVec 6) : Prop :=
  decodeBitMasksValid n imms = true ∧ v = decodeBitMasksValue n imms immr

theorem elem_complete64_64 (v : BitVec 64) (n : Bool) (imms immr : BitVec 6) (hv : IsLogical64 v n imms immr)
    (hw : ¬ halvesEq v 32) : encodeLogicalElem v 64#64 ≠ none := by
  unfold IsLogical64 at hv; logical_complete_ssa 64#64
theorem elem_complete64_32 (v : BitVec 64) (n : Bool) (imms immr : BitVec 6) (hv : IsLogical64 v n imms immr)
    (hw : halvesEq v 32 ∧ ¬ halvesEq v 16) : encodeLogicalElem v 32#64 ≠ none := by
  unfold IsLogical64 at hv; logical_complete_ssa 32#64
theorem elem_complete64_16 (v : BitVec 64) (n : Bool) (imms immr : BitVec 6) (hv : IsLogical64 v n imms immr)
    (hw : halvesEq v 32 ∧ halvesEq v 16 ∧ ¬ halvesEq v 8) : encodeLogicalElem v 16#64 ≠ none := by
  unfold IsLogical64 at hv; logical_complete_ssa 16#64
theorem elem_complete64_8 (v : BitVec 64) (n : Bool) (imms immr : BitVec 6) (hv : IsLogical64 v n imms immr)
    (hw : halvesEq v 32 ∧ halvesEq v 16 ∧ halvesEq v 8 ∧ ¬ halvesEq v 4) : encodeLogicalElem v 8#64 ≠ none := by
  unfold IsLogical64 at hv; logical_complete_ssa 8#64
theorem elem_complete64_4 (v : BitVec 64) (n : Bool) (imms immr : BitVec 6) (hv : IsLogical64 v n imms immr)
    (hw : halvesEq v 32 ∧ halvesEq v 16 ∧ halvesEq v 8 ∧ halvesEq v 4 ∧ ¬ halvesEq v 2) : encodeLogicalElem v 4#64 ≠ none := by
  unfold IsLogical64 at hv; logical_complete_ssa 4#64
theorem elem_complete64_2 (v : BitVec 64) (n : Bool) (imms immr : BitVec 6) (hv : IsLogical64 v n imms immr)
    (hw : halvesEq v 32 ∧ halvesEq v 16 ∧ halvesEq v 8 ∧ halvesEq v 4 ∧ halvesEq v 2) : encodeLogicalElem v 2#64 ≠ none := by
  unfold IsLogical64 at hv; logical_complete_ssa 2#64

/-- `v` (upper half zero) is an architecturally valid 32-bit logical immediate -/
def IsLogical32 (v : BitVec 64) (imms immr : BitVec 6) : Prop :=
  decodeBitMasksValid false imms = true ∧ v = decodeBitMasksValue false imms immr &&& 0xFFFFFFFF#64

theorem elem_complete32_32 (v : BitVec 64) (imms immr : BitVec 6) (hv : IsLogical32 v imms immr)
    (hw : ¬ halvesEq v 16) : encodeLogicalElem v 32#64 ≠ none := by
  unfold IsLogical32 at hv; logical_complete_ssa 32#64
theorem elem_complete32_16 (v : BitVec 64) (imms immr : BitVec 6) (hv : IsLogical32 v imms immr)
    (hw : halvesEq v 16 ∧ ¬ halvesEq v 8) : encodeLogicalElem v 16#64 ≠ none := by
  unfold IsLogical32 at hv; logical_complete_ssa 16#64
theorem elem_complete32_8 (v : BitVec 64) (imms immr : BitVec 6) (hv : IsLogical32 v imms immr)
    (hw : halvesEq v 16 ∧ halvesEq v 8 ∧ ¬ halvesEq v 4) : encodeLogicalElem v 8#64 ≠ none := by
  unfold IsLogical32 at hv; logical_complete_ssa 8#64
theorem elem_complete32_4 (v : BitVec 64) (imms immr : BitVec 6) (hv : IsLogical32 v imms immr)
    (hw : halvesEq v 16 ∧ halvesEq v 8 ∧ halvesEq v 4 ∧ ¬ halvesEq v 2) : encodeLogicalElem v 4#64 ≠ none := by
  unfold IsLogical32 at hv; logical_complete_ssa 4#64
theorem elem_complete32_2 (v : BitVec 64) (imms immr : BitVec 6) (hv : IsLogical32 v imms immr)
    (hw : halvesEq v 16 ∧ halvesEq v 8 ∧ halvesEq v 4 ∧ halvesEq v 2) : encodeLogicalElem v 2#64 ≠ none := by
  unfold IsLogical32 at hv; logical_complete_ssa 2#64

end AsmjitVerif.A64Imm
