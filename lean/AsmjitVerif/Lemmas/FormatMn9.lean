/- C20 helper lemma (table): every instruction id except 0 has a non-empty name, plain and alias formatted. -/
import AsmjitVerif.Spec.FormatText

namespace AsmjitVerif.Lemmas.FormatMn
open AsmjitVerif.Format AsmjitVerif.FormatText AsmjitVerif.Gen.FormatTabs

set_option maxRecDepth 1000000

theorem names_nonempty :
    (∀ n ∈ x86InstNames.toList.drop 1, n.toList ≠ []) ∧ (∀ n ∈ x86AliasNames.toList.drop 1, n.toList ≠ []) := by decide +kernel

end AsmjitVerif.Lemmas.FormatMn
