/-
C18 – proofs for the arena allocator model (Model/Arena.lean) against Spec/C18Arena.lean.
-/
import AsmjitVerif.Spec.C18Arena
namespace AsmjitVerif.Arena

/-! ### Arithmetic of the size classes -/

theorem slot_facts : ∀ k, k < 8 →
    0 < slotSize k ∧ slotSize k % 16 = 0 ∧ slotIndex (slotSize k) = k ∧ slotSize k = 16 * 2 ^ k := by
  decide

theorem slotSize_pos {k : Nat} (h : k < 8) : 0 < slotSize k := (slot_facts k h).1
theorem slotSize_mod8 {k : Nat} (h : k < 8) : slotSize k % 8 = 0 := by
  have := (slot_facts k h).2.1; omega
theorem slotIndex_slotSize {k : Nat} (h : k < 8) : slotIndex (slotSize k) = k := (slot_facts k h).2.2.1

/-- finite core of the `leftover` size choice -/
theorem leftover_small : ∀ y, y < 2048 →
    (slotSize (bitLen (y ||| 15) - 4) ≤ 2 * (y + 1) ∨ slotSize (bitLen (y ||| 15) - 4) = 16)
    ∧ bitLen (y ||| 15) - 4 < 8 := by
  decide +kernel

/-- the slot chosen by `Arena_make_block_leftover_reusable` fits into the leftover -/
theorem leftover_choice (size : Nat) (h : 16 ≤ size) :
    (if slotIndex (size / 2) < kSlotCount then slotIndex (size / 2) else kSlotCount - 1) < 8 ∧
    slotSize (if slotIndex (size / 2) < kSlotCount then slotIndex (size / 2) else kSlotCount - 1) ≤ size := by
  have hy : (size / 2 + u64 - 1) % u64 ≤ size / 2 - 1 := by
    have : size / 2 + u64 - 1 = (size / 2 - 1) + u64 := by omega
    rw [this, Nat.add_mod_right]; exact Nat.mod_le _ _
  generalize hyd : (size / 2 + u64 - 1) % u64 = y at hy
  unfold slotIndex kSlotCount
  rw [hyd]
  by_cases hs : y < 2048
  · have := leftover_small y hs
    rw [if_pos this.2]
    refine ⟨this.2, ?_⟩
    rcases this.1 with h1 | h1 <;> omega
  · have hm : 2048 ≤ y ||| 15 := Nat.le_trans (by omega) Nat.left_le_or
    have hne : (y ||| 15) ≠ 0 := by omega
    have hl : 11 ≤ (y ||| 15).log2 := (Nat.le_log2 hne).2 hm
    have hb : ¬ (bitLen (y ||| 15) - 4 < 8) := by
      unfold bitLen; rw [if_neg hne]; omega
    rw [if_neg hb]
    refine ⟨by omega, ?_⟩
    have : slotSize (8 - 1) = 2048 := by decide
    omega

/-- finite core of "the size class is large enough" -/
theorem slot_fits_small : ∀ y, y < 2048 → y + 1 ≤ slotSize (bitLen (y ||| 15) - 4) := by
  decide +kernel

/-- `_get_reusable_slot_index`: a request that selects a size class fits into it -/
theorem slotIndex_fits (size : Nat) (h0 : 0 < size) (hlt : size < u64) (h : slotIndex size < 8) :
    size ≤ slotSize (slotIndex size) := by
  have e : (size + u64 - 1) % u64 = size - 1 := by
    have : size + u64 - 1 = (size - 1) + u64 := by omega
    rw [this, Nat.add_mod_right]; exact Nat.mod_eq_of_lt (by omega)
  unfold slotIndex at h ⊢
  rw [e] at h ⊢
  have hm : 15 ≤ (size - 1) ||| 15 := Nat.right_le_or
  have hne : ((size - 1) ||| 15) ≠ 0 := by omega
  have hy : size - 1 ≤ (size - 1) ||| 15 := Nat.left_le_or
  have hb : ((size - 1) ||| 15).log2 < 11 := by
    unfold bitLen at h; rw [if_neg hne] at h; omega
  have := (Nat.log2_lt hne).1 hb
  have := slot_fits_small (size - 1) (by omega)
  omega

/-! ### Items owned by the free lists -/

def slotItemsFrom : Nat → List (List Loc) → List Item
  | _, [] => []
  | k, st :: rest => st.map (fun l => (l, slotSize k)) ++ slotItemsFrom (k + 1) rest

/-- every entry of free list `k` owns `slotSize k` bytes -/
def slotItems (slots : List (List Loc)) : List Item := slotItemsFrom 0 slots

theorem slotItemsFrom_push (l : Loc) : ∀ (slots : List (List Loc)) (j k : Nat), k < slots.length →
    (slotItemsFrom j (pushSlot slots k l)).Perm ((l, slotSize (j + k)) :: slotItemsFrom j slots) := by
  intro slots
  induction slots with
  | nil => intro j k h; simp at h
  | cons st rest ih =>
    intro j k h
    cases k with
    | zero => simp [pushSlot, slotItemsFrom]
    | succ k =>
      have := ih (j + 1) k (by simpa using h)
      simp only [pushSlot, List.modify_succ_cons, slotItemsFrom] at this ⊢
      have e : j + (k + 1) = j + 1 + k := by omega
      rw [e]
      exact (List.Perm.append_left _ this).trans List.perm_middle

theorem slotItems_push (l : Loc) (slots : List (List Loc)) (k : Nat) (h : k < slots.length) :
    (slotItems (pushSlot slots k l)).Perm ((l, slotSize k) :: slotItems slots) := by
  have := slotItemsFrom_push l slots 0 k h
  simpa [slotItems] using this

theorem slotItemsFrom_pop (p : Loc) (tl : List Loc) : ∀ (slots : List (List Loc)) (j k : Nat),
    slots.getD k [] = p :: tl →
    (slotItemsFrom j slots).Perm ((p, slotSize (j + k)) :: slotItemsFrom j (slots.set k tl)) := by
  intro slots
  induction slots with
  | nil => intro j k h; simp at h
  | cons st rest ih =>
    intro j k h
    cases k with
    | zero =>
      simp at h
      simp [slotItemsFrom, h]
    | succ k =>
      have := ih (j + 1) k (by simpa using h)
      simp only [List.set_cons_succ, slotItemsFrom] at this ⊢
      have e : j + (k + 1) = j + 1 + k := by omega
      rw [e]
      exact (List.Perm.append_left _ this).trans List.perm_middle

theorem slotItems_pop (p : Loc) (tl : List Loc) (slots : List (List Loc)) (k : Nat)
    (h : slots.getD k [] = p :: tl) :
    (slotItems slots).Perm ((p, slotSize k) :: slotItems (slots.set k tl)) := by
  have := slotItemsFrom_pop p tl slots 0 k h
  simpa [slotItems] using this

theorem slotItems_replicate : slotItems (List.replicate 8 []) = [] := by decide

/-! ### Block chain lookups -/

theorem getD_pos {B : List Nat} {pos : Nat} (h : 0 < B.getD pos 0) : pos < B.length := by
  apply Decidable.byContradiction
  intro hn
  have : B[pos]? = none := List.getElem?_eq_none (by omega)
  simp [List.getD_eq_getElem?_getD, this] at h

theorem getD_take_append (B X : List Nat) (c pos : Nat) (h1 : pos ≤ c) (h2 : pos < B.length) :
    (B.take (c + 1) ++ X).getD pos 0 = B.getD pos 0 := by
  have : pos < (B.take (c + 1)).length := by simp; omega
  have h3 : pos < c + 1 := by omega
  simp [List.getD_eq_getElem?_getD, List.getElem?_append_left this, h3]

theorem getD_take_self (B : List Nat) (c : Nat) : (B.take (c + 1)).getD c 0 = B.getD c 0 := by
  simp [List.getD_eq_getElem?_getD]

theorem getD_append_length (A X : List Nat) : (A ++ X).getD A.length 0 = X.getD 0 0 := by
  simp [List.getD_eq_getElem?_getD, List.getElem?_append_right (Nat.le_refl _)]

theorem dropSmall_head {size b : Nat} : ∀ {l r : List Nat}, dropSmall size l = b :: r → size ≤ b := by
  intro l
  induction l with
  | nil => intro r h; simp [dropSmall] at h
  | cons a l ih =>
    intro r h
    unfold dropSmall at h
    split at h
    · simp at h; omega
    · exact ih h

end AsmjitVerif.Arena
