/-
ArenaPool (LIFO free list over `Arena.allocOneshot`) and ArenaList (doubly linked list over an index heap)
refine a stack / a plain list.  Model: Model/ListPool.lean, textbook semantics: Spec/C18HashList.lean.
Proof note: the kernel must never iota-reduce a `match allocOneshot …` (it would unfold the arena model), hence
`generalize` + matcher equation lemmas with `simp -iota`.
-/
import AsmjitVerif.Spec.C18HashList
namespace AsmjitVerif.ListPool
open AsmjitVerif.Arena AsmjitVerif.Spec.C18HashList

/-! ### ArenaPool -/

/-- LIFO: right after `release x`, `alloc` returns `x`, does not touch the arena and restores the pool -/
theorem pool_alloc_lifo (p : Pool) (x : Loc) (a : State) (size : Nat) :
    (p.release x).alloc a size = (a, p, some x) := by
  unfold Pool.alloc Pool.release
  simp -iota only [Pool.alloc.match_3.eq_1]

/-- non-empty free list: its head is returned, the rest stays -/
theorem pool_alloc_cons (p : Pool) (x : Loc) (rest : List Loc) (a : State) (size : Nat) (h : p.free = x :: rest) :
    p.alloc a size = (a, { free := rest }, some x) := by
  unfold Pool.alloc
  rw [h]

/-- empty free list: a fresh oneshot allocation, pool unchanged -/
theorem pool_alloc_nil (p : Pool) (a : State) (size : Nat) (h : p.free = []) :
    p.alloc a size = ((allocOneshot a size).1, p, (allocOneshot a size).2) := by
  unfold Pool.alloc
  rw [h]

example : (({} : Pool).release (.dyn 1)).release (.dyn 2) |>.alloc {} 16 |>.2.2 = some (.dyn 2) := by
  rw [pool_alloc_lifo]

theorem pool_alloc_free (p : Pool) (a : State) (size : Nat) : (p.alloc a size).2.1.free = p.free.tail := by
  cases hf : p.free with
  | nil => rw [pool_alloc_nil p a size hf, hf]; rfl
  | cons x rest => rw [pool_alloc_cons p x rest a size hf]; rfl

/-- what `alloc` returns: the top of the stack of released locations, else whatever `allocOneshot` gives -/
theorem pool_alloc_result (p : Pool) (a : State) (size : Nat) :
    (p.alloc a size).2.2 = match p.free.head? with
      | some x => some x
      | none => (allocOneshot a size).2 := by
  cases hf : p.free with
  | nil => rw [pool_alloc_nil p a size hf]; rfl
  | cons x rest => rw [pool_alloc_cons p x rest a size hf]; rfl

def stepPool (st : State × Pool) : POp → State × Pool
  | .alloc size => ((st.2.alloc st.1 size).1, (st.2.alloc st.1 size).2.1)
  | .release x => (st.1, st.2.release x)

def runPool (st : State × Pool) (ops : List POp) : State × Pool := ops.foldl stepPool st

theorem pool_run (ops : List POp) (st : State × Pool) :
    (runPool st ops).2.free = runStack st.2.free ops := by
  induction ops generalizing st with
  | nil => rfl
  | cons op ops ih =>
    have hstep : (stepPool st op).2.free = pStep st.2.free op := by
      cases op with
      | alloc size => exact pool_alloc_free st.2 st.1 size
      | release x => rfl
    show (runPool (stepPool st op) ops).2.free = runStack (pStep st.2.free op) ops
    rw [ih, hstep]

/-- MAIN (pool): for every sequence of alloc/release from the empty pool and every arena state, the free list is
exactly the textbook stack of released-and-not-reallocated locations (LIFO order) -/
theorem pool_refines_stack (ops : List POp) (a : State) : (runPool (a, {}) ops).2.free = runStack [] ops :=
  pool_run ops (a, {})

example : runStack [] [.release (.dyn 1), .release (.dyn 2), .alloc 8] = [.dyn 1] := by decide


/-! ### ArenaList (first, PARTIAL development: Chain-based predicate, prepend, pop_first, forward walk).
SUPERSEDED by Lemmas/C18ListPool2.lean (all seven operations, both walks) and Lemmas/C18ListPool3.lean
(`list_refines_list`); only the heap lemmas `nd_upd`, `size_upd`, `val_*`, `nd_push*` below are reused there. -/

theorem size_upd (h : Heap) (n : Nat) (f : LNode → LNode) : (upd h n f).size = h.size := by
  unfold upd; split <;> simp

theorem nd_upd (h : Heap) (n m : Nat) (f : LNode → LNode) :
    nd (upd h n f) m = if n ≠ 0 ∧ m = n ∧ n < h.size then f (nd h m) else nd h m := by
  unfold upd nd
  by_cases hn : n = 0
  · simp [hn]
  · simp only [hn, if_false, Array.getD_eq_getD_getElem?, Array.getElem?_modify]
    by_cases hm : m = n
    · subst hm
      by_cases hs : m < h.size
      · simp [hs, hn]
      · simp [hs]
    · have : ¬ n = m := fun e => hm e.symm
      simp [hm, this]

/-- links from `p` (expected `prev` of the head) along `xs`; the last node has `next = 0` -/
def Chain (h : Heap) : Nat → List Nat → Prop
  | _, [] => True
  | p, x :: xs => x ≠ 0 ∧ x < h.size ∧ (nd h x).prev = p ∧ (nd h x).next = xs.headD 0 ∧ Chain h x xs

/-- `l` over heap `h` represents the list of node indices `xs` -/
structure IsList (h : Heap) (l : DList) (xs : List Nat) : Prop where
  nodup : xs.Nodup
  first : l.first = xs.headD 0
  last : l.last = xs.getLastD 0
  chain : Chain h 0 xs

theorem isList_empty (h : Heap) : IsList h {} [] := ⟨List.nodup_nil, rfl, rfl, trivial⟩

theorem chain_frame (h h' : Heap) (hs : h.size ≤ h'.size) (xs : List Nat) (p : Nat)
    (hf : ∀ x ∈ xs, nd h' x = nd h x) (hc : Chain h p xs) : Chain h' p xs := by
  induction xs generalizing p with
  | nil => trivial
  | cons x xs ih =>
    obtain ⟨h0, h1, h2, h3, h4⟩ := hc
    have hx := hf x List.mem_cons_self
    exact ⟨h0, Nat.lt_of_lt_of_le h1 hs, by rw [hx]; exact h2, by rw [hx]; exact h3,
      ih x (fun y hy => hf y (List.mem_cons_of_mem _ hy)) h4⟩

/-- forward `walk` from the first node yields the values in list order (any fuel ≥ length) -/
theorem walk_forward (h : Heap) (xs : List Nat) (p fuel : Nat) (hc : Chain h p xs) (hfuel : xs.length ≤ fuel) :
    walk fuel h (xs.headD 0) true = xs.map (fun x => (nd h x).val) := by
  induction xs generalizing p fuel with
  | nil => cases fuel <;> simp [walk]
  | cons x xs ih =>
    obtain ⟨h0, _, _, h3, h4⟩ := hc
    cases fuel with
    | zero => simp at hfuel
    | succ fuel =>
      have := ih x fuel h4 (by simpa using hfuel)
      simp only [walk, List.headD_cons, h0, if_false, link, if_true, h3, this, List.map_cons]

theorem isList_walk_forward (h : Heap) (l : DList) (xs : List Nat) (hl : IsList h l xs) (fuel : Nat)
    (hfuel : xs.length ≤ fuel) : walk fuel h l.first true = xs.map (fun x => (nd h x).val) := by
  rw [hl.first]; exact walk_forward h xs 0 fuel hl.chain hfuel

/-- `prepend` = `_add_node(node, 0)` of an unlinked node not in the list: textbook `n :: xs` -/
theorem addNode_prepend (h : Heap) (l : DList) (xs : List Nat) (n : Nat) (hl : IsList h l xs)
    (hn0 : n ≠ 0) (hns : n < h.size) (hnx : n ∉ xs) (hprev : (nd h n).prev = 0) :
    IsList (addNode h l n false).1 (addNode h l n false).2 (n :: xs) := by
  obtain ⟨hnd, hfirst, hlast, hchain⟩ := hl
  cases xs with
  | nil =>
    have hf : l.first = 0 := hfirst
    simp only [addNode, lend, setLink, setEnd, hf, Bool.not_false, if_true, Bool.false_eq_true, if_false,
      ne_eq, not_true_eq_false]
    refine ⟨by simp, rfl, rfl, hn0, by rw [size_upd]; exact hns, ?_, ?_, trivial⟩
    · rw [nd_upd]; simp [hn0, hns, hprev]
    · rw [nd_upd]; simp [hn0, hns]
  | cons x xs =>
    have hf : l.first = x := hfirst
    obtain ⟨hx0, hxs, hxp, hxn, hxc⟩ := hchain
    have hxn' : x ≠ n := fun e => hnx (e ▸ List.mem_cons_self)
    simp only [addNode, lend, setLink, setEnd, hf, Bool.not_false, if_true, Bool.false_eq_true, if_false,
      ne_eq, hx0, not_false_eq_true]
    rw [List.nodup_cons] at hnd
    refine ⟨List.nodup_cons.2 ⟨hnx, List.nodup_cons.2 hnd⟩, rfl, ?_, hn0, by simp [size_upd, hns], ?_, ?_,
      hx0, by simp [size_upd, hxs], ?_, ?_, ?_⟩
    · show l.last = _
      rw [hlast]; simp
    · rw [nd_upd, if_neg (fun hh => hxn' hh.2.1.symm), nd_upd]; simp [hn0, hns, hprev]
    · rw [nd_upd, if_neg (fun hh => hxn' hh.2.1.symm), nd_upd]; simp [hn0, hns]
    · rw [nd_upd, nd_upd]; simp [hx0, hxs, size_upd, hxn']
    · rw [nd_upd, nd_upd]; simp [hx0, hxs, size_upd, hxn', hxn]
    · apply chain_frame h _ (by simp [size_upd]) xs x _ hxc
      intro y hy
      have hyx : y ≠ x := fun e => hnd.1 (e ▸ hy)
      have hyn : y ≠ n := fun e => hnx (e ▸ List.mem_cons_of_mem _ hy)
      rw [nd_upd, nd_upd]; simp [hyx, hyn]

example : (addNode (newNode (newNode #[{}] 7).1 8).1 (addNode (newNode #[{}] 7).1 {} 1 false).2 2 false).2
    = { first := 2, last := 1 } := by decide


/-- `pop_first()` on a non-empty list: returns the head, the list becomes the textbook `tail` -/
theorem popFirst_tail (h : Heap) (l : DList) (x : Nat) (xs : List Nat) (hl : IsList h l (x :: xs)) :
    IsList (popFirst h l).1 (popFirst h l).2.1 xs ∧ (popFirst h l).2.2 = x := by
  obtain ⟨hnd, hfirst, hlast, hchain⟩ := hl
  have hf : l.first = x := hfirst
  obtain ⟨hx0, hxs, hxp, hxn, hxc⟩ := hchain
  rw [List.nodup_cons] at hnd
  cases xs with
  | nil =>
    have hxn0 : (nd h x).next = 0 := hxn
    simp only [popFirst, hf, hxn0, ne_eq, not_true_eq_false, if_false]
    exact ⟨⟨List.nodup_nil, rfl, rfl, trivial⟩, trivial⟩
  | cons y ys =>
    have hxny : (nd h x).next = y := hxn
    obtain ⟨hy0, hys, hyp, hyn, hyc⟩ := hxc
    have hyx : y ≠ x := fun e => hnd.1 (e ▸ List.mem_cons_self)
    have hnd2 := List.nodup_cons.1 hnd.2
    simp only [popFirst, hf, hxny, ne_eq, hy0, not_false_eq_true, if_true, setLink, Bool.false_eq_true, if_false]
    refine ⟨⟨hnd.2, rfl, ?_, hy0, by simp [size_upd, hys], ?_, ?_, ?_⟩, trivial⟩
    · show l.last = _
      rw [hlast]; simp
    · rw [nd_upd, if_neg (fun hh => hyx hh.2.1), nd_upd]; simp [hy0, hys]
    · rw [nd_upd, if_neg (fun hh => hyx hh.2.1), nd_upd]; simp [hy0, hys, hyn]
    · apply chain_frame h _ (by simp [size_upd]) ys y _ hyc
      intro z hz
      have hzy : z ≠ y := fun e => hnd2.1 (e ▸ hz)
      have hzx : z ≠ x := fun e => hnd.1 (e ▸ List.mem_cons_of_mem _ hz)
      rw [nd_upd, nd_upd]; simp [hzy, hzx]


/-! ### sequence theorem, PARTIAL: only the sub-language {prepend, popFirst} -/

theorem val_setLink (h : Heap) (a : Nat) (d : Bool) (x m : Nat) : (nd (setLink h a d x) m).val = (nd h m).val := by
  unfold setLink; rw [nd_upd]; split
  · cases d <;> rfl
  · rfl

theorem size_setLink (h : Heap) (a : Nat) (d : Bool) (x : Nat) : (setLink h a d x).size = h.size := size_upd _ _ _

theorem val_addNode (h : Heap) (l : DList) (n : Nat) (d : Bool) (m : Nat) :
    (nd (addNode h l n d).1 m).val = (nd h m).val := by
  unfold addNode
  simp only []
  split <;> simp [val_setLink]

theorem val_popFirst (h : Heap) (l : DList) (m : Nat) : (nd (popFirst h l).1 m).val = (nd h m).val := by
  unfold popFirst
  simp only []
  split <;> simp [val_setLink]

theorem nd_push (h : Heap) (a : LNode) (x : Nat) (hx : x < h.size) : nd (h.push a) x = nd h x := by
  unfold nd; simp [Array.getD_eq_getD_getElem?, Array.getElem?_push, hx, Nat.ne_of_lt hx]

theorem nd_push_self (h : Heap) (a : LNode) : nd (h.push a) h.size = a := by
  unfold nd; simp [Array.getD_eq_getD_getElem?]

theorem chain_lt (h : Heap) (p : Nat) (xs : List Nat) (hc : Chain h p xs) : ∀ x ∈ xs, x < h.size := by
  induction xs generalizing p with
  | nil => intro x hx; simp at hx
  | cons y ys ih =>
    intro x hx
    rcases List.mem_cons.1 hx with e | hx
    · rw [e]; exact hc.2.1
    · exact ih y hc.2.2.2.2 x hx

/-- model step for the sub-language (other operations: see `list_refines_list`, not proved yet) -/
def stepListP (st : Heap × DList) : LOp → Heap × DList
  | .prepend v => addNode (newNode st.1 v).1 st.2 (newNode st.1 v).2 false
  | .popFirst => if st.2.first = 0 then st else ((popFirst st.1 st.2).1, (popFirst st.1 st.2).2.1)
  | _ => st

def simpleOp : LOp → Prop
  | .prepend _ => True
  | .popFirst => True
  | _ => False

theorem stepListP_inv (st : Heap × DList) (vs : List Nat) (op : LOp) (hop : simpleOp op)
    (hinv : 0 < st.1.size ∧ ∃ xs, IsList st.1 st.2 xs ∧ xs.map (fun x => (nd st.1 x).val) = vs) :
    0 < (stepListP st op).1.size ∧
    ∃ xs, IsList (stepListP st op).1 (stepListP st op).2 xs ∧
      xs.map (fun x => (nd (stepListP st op).1 x).val) = lStep vs op := by
  obtain ⟨hpos, xs, hl, hvals⟩ := hinv
  cases op with
  | prepend v =>
    have hlt := chain_lt _ _ _ hl.chain
    have hl1 : IsList (st.1.push { val := v }) st.2 xs :=
      ⟨hl.nodup, hl.first, hl.last, chain_frame st.1 _ (by simp) xs 0
        (fun x hx => nd_push _ _ _ (hlt x hx)) hl.chain⟩
    have hnx : st.1.size ∉ xs := fun hm => Nat.lt_irrefl _ (hlt _ hm)
    have := addNode_prepend (st.1.push { val := v }) st.2 xs st.1.size hl1 (Nat.ne_of_gt hpos) (by simp) hnx
      (by rw [nd_push_self])
    refine ⟨?_, st.1.size :: xs, this, ?_⟩
    · show 0 < (addNode _ _ _ _).1.size
      unfold addNode; simp only []; split <;> simp [size_setLink, newNode]
    · show List.map (fun x => (nd (addNode _ _ _ _).1 x).val) _ = v :: vs
      simp only [newNode, val_addNode, List.map_cons, nd_push_self]
      rw [← hvals]
      congr 1
      apply List.map_congr_left
      intro x hx
      rw [nd_push _ _ _ (hlt x hx)]
  | popFirst =>
    cases xs with
    | nil =>
      have hf : st.2.first = 0 := hl.first
      simp only [stepListP, hf, if_true]
      exact ⟨hpos, [], hl, by rw [← hvals]; rfl⟩
    | cons x xs =>
      have hf : st.2.first ≠ 0 := by rw [hl.first]; exact hl.chain.1
      have := popFirst_tail st.1 st.2 x xs hl
      simp only [stepListP, hf, if_false]
      refine ⟨?_, xs, this.1, ?_⟩
      · unfold popFirst; simp only []; split <;> simp [size_setLink, hpos]
      · simp only [val_popFirst]
        rw [← hvals]; rfl
  | append _ => exact absurd hop id
  | insertAfter _ _ => exact absurd hop id
  | insertBefore _ _ => exact absurd hop id
  | unlink _ => exact absurd hop id
  | pop => exact absurd hop id

/-- PARTIAL sequence theorem (operations prepend / pop_first only): from the empty list (heap = just the null node),
the model list always represents the textbook list of values, and a forward walk reads exactly that list -/
theorem list_refines_list_partial (ops : List LOp) (hops : ∀ op ∈ ops, simpleOp op) :
    ∃ xs, IsList (ops.foldl stepListP (#[{}], {})).1 (ops.foldl stepListP (#[{}], {})).2 xs ∧
      walk xs.length (ops.foldl stepListP (#[{}], {})).1 (ops.foldl stepListP (#[{}], {})).2.first true
        = runList [] ops := by
  have key : ∀ (ops : List LOp) (st : Heap × DList) (vs : List Nat), (∀ op ∈ ops, simpleOp op) →
      (0 < st.1.size ∧ ∃ xs, IsList st.1 st.2 xs ∧ xs.map (fun x => (nd st.1 x).val) = vs) →
      (0 < (ops.foldl stepListP st).1.size ∧ ∃ xs, IsList (ops.foldl stepListP st).1 (ops.foldl stepListP st).2 xs ∧
        xs.map (fun x => (nd (ops.foldl stepListP st).1 x).val) = runList vs ops) := by
    intro ops
    induction ops with
    | nil => intro st vs _ h; exact h
    | cons op ops ih =>
      intro st vs hs h
      exact ih (stepListP st op) (lStep vs op) (fun o ho => hs o (List.mem_cons_of_mem _ ho))
        (stepListP_inv st vs op (hs op List.mem_cons_self) h)
  obtain ⟨_, xs, hl, hv⟩ := key ops (#[{}], {}) [] hops ⟨by decide, [], isList_empty _, rfl⟩
  exact ⟨xs, hl, by rw [isList_walk_forward _ _ xs hl _ (Nat.le_refl _), hv]⟩

example : runList [] [.prepend 5, .prepend 6, .popFirst, .prepend 7] = [7, 5] := by decide
example : walk 2 ([LOp.prepend 5, .prepend 6, .popFirst, .prepend 7].foldl stepListP (#[{}], {})).1
    ([LOp.prepend 5, .prepend 6, .popFirst, .prepend 7].foldl stepListP (#[{}], {})).2.first true = [7, 5] := by decide

end AsmjitVerif.ListPool
