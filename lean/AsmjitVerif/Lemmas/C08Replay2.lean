/- C08: serialize_replays for label, section (no re-entry) and typed-data calls. -/
import AsmjitVerif.Lemmas.C08Calls

namespace AsmjitVerif.Builder
open Spec

/-- invariant of an edit-free run without section re-entry: the document is the Assembler's call list, the gap is at the end -/
structure J (t : Spec.St) (a : ASt) : Prop where
  fr : FRel t a
  gap : t.d.gap = t.d.items.length
  lin : linearize t = .section 0 :: a.out
  sec : ∀ s, (t.f.sectionNodes.find? (fun e => e.1 == s)).isSome = a.entered.contains s

/-- operations admitted by `serialize_replays`: emitter calls only, and a `section` call never goes back to a section entered before -/
def Adm0 (a : ASt) : Op → Prop
  | .section s => ¬ (s < a.nSections) ∨ a.entered.contains s = false
  | .cpool _ _ _ => False
  | op => isEdit op = false

/-- state-only change of the front end (one-shot state, section count): nothing happens to the document -/
theorem J_state (t : Spec.St) (a a' : ASt) (f' : Front) (hJ : J t a)
    (hn : f'.nodes = t.f.nodes) (hl : f'.labelNodes = t.f.labelNodes) (hs : f'.sectionNodes = t.f.sectionNodes)
    (hr : f'.regSize = a'.regSize) (hns : f'.nSections = a'.nSections) (ho : f'.opts = a'.opts) (he : f'.extra = a'.extra)
    (hc : f'.cmt = a'.cmt) (ar : a'.regSize = a.regSize) (al : a'.nLabels = a.nLabels) (ab : a'.bound = a.bound)
    (ae : a'.entered = a.entered) (ao : a'.out = a.out) :
    J { f := f', d := t.d } a' := by
  have hna : ∀ n, nodeAt f' n = nodeAt t.f n := by intro n; simp [nodeAt, hn]
  refine ⟨⟨hr, by rw [hl, al]; exact hJ.fr.nLabels, hns, ho, he, hc, ?_, ?_, ?_, ?_⟩, hJ.gap, ?_, ?_⟩
  · intro n h; rw [hn]; exact hJ.fr.fresh n h
  · intro l h
    rw [al] at h
    obtain ⟨n, h1, h2, h3⟩ := hJ.fr.lab l h
    exact ⟨n, by rw [hl]; exact h1, by rw [hn]; exact h2, by rw [hna]; exact h3⟩
  · intro l n h1 h2
    rw [al] at h1; rw [hl] at h2; rw [ab]
    exact hJ.fr.bound l n h1 h2
  · intro l h; rw [ab] at h; rw [al]; exact hJ.fr.bnd l h
  · rw [ao, ← hJ.lin]; simp [linearize, hna]
  · intro s; rw [hs, ae]; exact hJ.sec s

/-- one fresh node is created and linked at the end -/
theorem J_append_gen (t : Spec.St) (a a' : ASt) (f' : Front) (d' : Doc) (P : Node) (hJ : J t a)
    (hi : d'.items = t.d.items ++ [t.f.nodes.length]) (hg : d'.gap = d'.items.length)
    (hn : f'.nodes = t.f.nodes ++ [P]) (hl : f'.labelNodes = t.f.labelNodes)
    (hs : ∀ s, (f'.sectionNodes.find? (fun e => e.1 == s)).isSome = a'.entered.contains s)
    (hr : f'.regSize = a'.regSize) (hns : f'.nSections = a'.nSections) (ho : f'.opts = a'.opts) (he : f'.extra = a'.extra)
    (hc : f'.cmt = a'.cmt) (ar : a'.regSize = a.regSize) (al : a'.nLabels = a.nLabels) (ab : a'.bound = a.bound)
    (ao : a'.out = a.out ++ [P.toCall]) :
    J { f := f', d := d' } a' := by
  have hlen : f'.nodes.length = t.f.nodes.length + 1 := by rw [hn]; simp
  refine ⟨⟨hr, by rw [hl, al]; exact hJ.fr.nLabels, hns, ho, he, hc, ?_, ?_, ?_, ?_⟩, hg, ?_, hs⟩
  · intro n h
    simp only [hi, List.mem_append, List.mem_singleton] at h
    rw [hlen]
    rcases h with h | rfl
    · exact Nat.lt_succ_of_lt (hJ.fr.fresh n h)
    · exact Nat.lt_succ_self _
  · intro l h
    rw [al] at h
    obtain ⟨n, h1, h2, h3⟩ := hJ.fr.lab l h
    exact ⟨n, by rw [hl]; exact h1, by rw [hlen]; omega, by rw [nodeAt_prefix _ _ [P] hn n h2]; exact h3⟩
  · intro l n h1 h2
    rw [al] at h1; rw [hl] at h2; rw [ab]
    obtain ⟨n', h1', h2', _⟩ := hJ.fr.lab l h1
    have : n = n' := by rw [h1'] at h2; exact (Option.some.inj h2).symm
    subst this
    simp only [hi, List.mem_append, List.mem_singleton]
    rw [← hJ.fr.bound l n h1 h2]
    constructor
    · rintro (h | h)
      · exact h
      · omega
    · exact Or.inl
  · intro l h; rw [ab] at h; rw [al]; exact hJ.fr.bnd l h
  · simp only [linearize, hi, List.map_append, List.map_cons, List.map_nil, nodeAt_append_new _ _ _ hn]
    rw [lin_prefix t f' [P] hn hJ.fr.fresh, hJ.lin, ao]; simp

theorem J_append (t : Spec.St) (a a' : ASt) (f' : Front) (P : Node) (hJ : J t a)
    (hn : f'.nodes = t.f.nodes ++ [P]) (hl : f'.labelNodes = t.f.labelNodes) (hs : f'.sectionNodes = t.f.sectionNodes)
    (hr : f'.regSize = a'.regSize) (hns : f'.nSections = a'.nSections) (ho : f'.opts = a'.opts) (he : f'.extra = a'.extra)
    (hc : f'.cmt = a'.cmt) (ar : a'.regSize = a.regSize) (al : a'.nLabels = a.nLabels) (ab : a'.bound = a.bound)
    (ae : a'.entered = a.entered) (ao : a'.out = a.out ++ [P.toCall]) :
    J { f := f', d := t.d.apply (.add t.f.nodes.length) } a' := by
  have hnot : t.f.nodes.length ∉ t.d.items := fun hm => Nat.lt_irrefl _ (hJ.fr.fresh _ hm)
  rw [doc_add_end _ _ hnot hJ.gap]
  exact J_append_gen t a a' f' _ P hJ rfl (by simp) hn hl (by intro s; rw [hs, ae]; exact hJ.sec s) hr hns ho he hc ar al ab ao

/-- a call that creates one node and leaves the one-shot state alone -/
theorem J_emit (t : Spec.St) (a : ASt) (P : Node) (hJ : J t a) :
    J { f := { t.f with nodes := t.f.nodes ++ [P] }, d := t.d.apply (.add t.f.nodes.length) } (a.emit P.toCall) :=
  J_append t a _ _ P hJ rfl rfl rfl hJ.fr.regSize hJ.fr.nSections hJ.fr.opts hJ.fr.extra hJ.fr.cmt rfl rfl rfl rfl rfl

theorem J_keep (t : Spec.St) (a : ASt) (hJ : J t a) : J { f := t.f, d := t.d } a := hJ

theorem J_step0 (t : Spec.St) (a : ASt) (op : Op) (hJ : J t a) (hA : Adm0 a op) : J (Spec.step t op).1 (astep a op) := by
  have fr := hJ.fr
  rw [spec_step_state]
  cases op with
  | newlabel =>
    have hlen : t.f.labelNodes.length = a.nLabels := fr.nLabels
    refine ⟨⟨fr.regSize, by simp [front, Front.newNode, astep, hlen], fr.nSections, fr.opts, fr.extra, fr.cmt, ?_, ?_, ?_, ?_⟩,
      hJ.gap, ?_, ?_⟩
    · intro n h
      simp only [front, Front.newNode, List.foldl_nil, List.length_append, List.length_singleton] at h ⊢
      exact Nat.lt_succ_of_lt (fr.fresh n h)
    · intro l h
      simp only [astep] at h
      simp only [front, Front.newNode, List.foldl_nil]
      by_cases hl : l < a.nLabels
      · obtain ⟨n, h1, h2, h3⟩ := fr.lab l hl
        refine ⟨n, ?_, by simp; omega, ?_⟩
        · simp only [List.getD_eq_getElem?_getD] at h1 ⊢
          rw [List.getElem?_append_left (by omega)]; exact h1
        · rw [nodeAt_prefix t.f _ [.label t.f.labelNodes.length] rfl n h2]; exact h3
      · have : l = a.nLabels := by omega
        subst this
        refine ⟨t.f.nodes.length, ?_, by simp, ?_⟩
        · simp [List.getD_eq_getElem?_getD, ← hlen]
        · simp [nodeAt, List.getD_eq_getElem?_getD, hlen]
    · intro l n h1 h2
      simp only [astep] at h1 ⊢
      simp only [front, Front.newNode, List.foldl_nil] at h2 ⊢
      by_cases hl : l < a.nLabels
      · simp only [List.getD_eq_getElem?_getD] at h2
        rw [List.getElem?_append_left (by omega)] at h2
        exact fr.bound l n hl (by simpa [List.getD_eq_getElem?_getD] using h2)
      · have : l = a.nLabels := by omega
        subst this
        have hn : n = t.f.nodes.length := by
          simp [List.getD_eq_getElem?_getD, ← hlen] at h2; exact h2.symm
        subst hn
        constructor
        · intro h; exact absurd (fr.fresh _ h) (Nat.lt_irrefl _)
        · intro h; exact absurd (fr.bnd _ h) (Nat.lt_irrefl _)
    · intro l h; simp only [astep] at h ⊢; exact Nat.lt_succ_of_lt (fr.bnd l h)
    · simp only [front, Front.newNode, List.foldl_nil, astep]
      rw [← hJ.lin]
      exact lin_prefix t _ [.label t.f.labelNodes.length] rfl fr.fresh
    · intro s; simpa [front, Front.newNode, astep] using hJ.sec s
  | newsection =>
    exact J_state t a _ _ hJ rfl rfl rfl fr.regSize (by simp [front, astep, fr.nSections]) fr.opts fr.extra fr.cmt rfl rfl rfl rfl rfl
  | opts v =>
    exact J_state t a _ _ hJ rfl rfl rfl fr.regSize fr.nSections (by simp [front, astep, fr.opts]) fr.extra fr.cmt rfl rfl rfl rfl rfl
  | extra x =>
    exact J_state t a _ _ hJ rfl rfl rfl fr.regSize fr.nSections fr.opts (by simp [front, astep]) fr.cmt rfl rfl rfl rfl rfl
  | icomment x =>
    exact J_state t a _ _ hJ rfl rfl rfl fr.regSize fr.nSections fr.opts fr.extra (by simp [front, astep]) rfl rfl rfl rfl rfl
  | inst id l =>
    have := J_append t a (astep a (.inst id l))
      { t.f with nodes := t.f.nodes ++ [.inst id (clearReserved t.f.opts) t.f.extra t.f.cmt (opCountFromArgs l) (storeOps l)],
                 opts := 0, extra := "-", cmt := "-" }
      (.inst id (clearReserved t.f.opts) t.f.extra t.f.cmt (opCountFromArgs l) (storeOps l)) hJ rfl rfl rfl
      fr.regSize fr.nSections rfl rfl rfl rfl rfl rfl rfl ?_
    · simpa [front, Front.newNode] using this
    · simp only [astep, ASt.emit, Node.toCall, fr.opts, fr.extra, fr.cmt]
      congr 3
      -- operands: replay (capture l) = normalised l (only the six slots matter)
      simp only [replayOps, storeOps, normOps, capacityOf, getOp]
      cases hd : (getOp l 3).isNone <;> cases he : (getOp l 4).isNone <;> cases hf : (getOp l 5).isNone <;>
      cases ha : (getOp l 0).isNone <;> cases hb : (getOp l 1).isNone <;> cases hc : (getOp l 2).isNone <;>
      simp [opCountFromArgs, getOp, hd, he, hf, ha, hb, hc, List.range, List.range.loop] at * <;>
      simp [opCountFromArgs, getOp, *, List.range, List.range.loop]
  | align m n => simpa [front, Front.newNode, astep, Node.toCall] using J_emit t a (.align m n) hJ
  | comment c => simpa [front, Front.newNode, astep, Node.toCall] using J_emit t a (.comment c) hJ
  | embed b => simpa [front, Front.newNode, astep, Node.toCall] using J_emit t a (.data 35 (hexLen b) 1 b) hJ
  | bind l =>
    by_cases hl : l < a.nLabels
    · obtain ⟨n, h1, h2, h3⟩ := fr.lab l hl
      have hnc : (t.f.nodes.getD n (.comment "?")).isCpool = false := by
        have h3' := h3; simp only [nodeAt] at h3'; rw [h3']; rfl
      have hnc' : (t.f.nodes[n]?.getD (.comment "?")).isCpool = false := by
        simpa [List.getD_eq_getElem?_getD] using hnc
      have hv : t.f.labelValid l = true := by simp [Front.labelValid, fr.nLabels, hl]
      by_cases hb : l ∈ a.bound
      · have hact : t.d.has n = true := by
          simp only [Doc.has, List.contains_iff_mem]; exact (fr.bound l n hl h1).mpr hb
        have e : astep a (.bind l) = a := by simp [astep, hl, hb]
        have h1' : t.f.labelNodes[l]?.getD none = some n := by simpa [List.getD_eq_getElem?_getD] using h1
        rw [e]; simpa [front, hv, h1, h1', hact, hnc, hnc'] using hJ
      · have hnot : n ∉ t.d.items := fun h => hb ((fr.bound l n hl h1).mp h)
        have hact : t.d.has n = false := by simp [Doc.has, hnot]
        have ea : astep a (.bind l) = { (a.emit (.bind l)) with bound := l :: a.bound } := by simp [astep, hl, hb]
        rw [ea]
        simp only [front, hv, h1, hact, hnc, Bool.not_true, Bool.false_eq_true, if_false, List.foldl_cons, List.foldl_nil]
        rw [doc_add_end _ _ hnot hJ.gap]
        refine ⟨⟨fr.regSize, fr.nLabels, fr.nSections, fr.opts, fr.extra, fr.cmt, ?_, fr.lab, ?_, ?_⟩, by simp, ?_, hJ.sec⟩
        · intro m hm
          simp only [List.mem_append, List.mem_singleton] at hm
          rcases hm with hm | rfl
          · exact fr.fresh m hm
          · exact h2
        · intro l' n' hl' hn'
          simp only [ASt.emit] at hl' ⊢
          simp only [List.mem_append, List.mem_singleton, List.mem_cons]
          by_cases hll : l' = l
          · subst hll
            have : n' = n := by rw [h1] at hn'; exact (Option.some.inj hn').symm
            subst this; simp
          · have hne : n' ≠ n := by
              intro e; subst e
              obtain ⟨n'', g1, _, g3⟩ := fr.lab l' hl'
              have : n' = n'' := by rw [g1] at hn'; exact (Option.some.inj hn').symm
              subst this
              rw [h3] at g3
              exact hll (by injection g3 with g; exact g.symm)
            rw [← fr.bound l' n' hl' hn']
            constructor
            · rintro (h | h)
              · exact Or.inr h
              · exact absurd (by simpa using h) hne
            · rintro (h | h)
              · exact absurd h hll
              · exact Or.inl h
        · intro l' h'
          simp only [ASt.emit, List.mem_cons] at h' ⊢
          rcases h' with rfl | h'
          · exact hl
          · exact fr.bnd l' h'
        · simp only [linearize, List.map_append, List.map_cons, List.map_nil, h3, ASt.emit]
          have := hJ.lin
          simp only [linearize] at this
          rw [this]; simp [Node.toCall]
    · have hv : t.f.labelValid l = false := by simp [Front.labelValid, fr.nLabels, hl]
      have e : astep a (.bind l) = a := by simp [astep, hl]
      rw [e]; simpa [front, hv] using hJ
  | data ty items rep bytes =>
    by_cases hm : typeModelled ty = true
    · cases hsz : typeSize a.regSize ty with
      | none =>
        have e : astep a (.data ty items rep bytes) = a := by simp [astep, hm, hsz]
        rw [e]; simpa [front, hm, fr.regSize, hsz] using hJ
      | some sz =>
        have := J_emit t a (.data ty items rep (if items * sz = 0 then "-" else bytes)) hJ
        simpa [front, Front.newNode, astep, hm, fr.regSize, hsz, Node.toCall] using this
    · have hm' : typeModelled ty = false := by simpa using hm
      have e : astep a (.data ty items rep bytes) = a := by simp [astep, hm']
      rw [e]; simpa [front, hm'] using hJ
  | elabel l size =>
    by_cases hl : l < a.nLabels
    · have hv : t.f.labelValid l = true := by simp [Front.labelValid, fr.nLabels, hl]
      by_cases hsz : sizeOk size = true
      · have := J_emit t a (.elabel l size) hJ
        simpa [front, Front.newNode, astep, hv, hl, hsz, Node.toCall] using this
      · have hsz' : sizeOk size = false := by simpa using hsz
        have e : astep a (.elabel l size) = a := by simp [astep, hsz']
        rw [e]; simpa [front, hv, hsz'] using hJ
    · have hv : t.f.labelValid l = false := by simp [Front.labelValid, fr.nLabels, hl]
      have e : astep a (.elabel l size) = a := by simp [astep, hl]
      rw [e]; simpa [front, hv] using hJ
  | edelta l b size =>
    by_cases hl : (l < a.nLabels ∧ b < a.nLabels)
    · have hv : (t.f.labelValid l && t.f.labelValid b) = true := by simp [Front.labelValid, fr.nLabels, hl.1, hl.2]
      by_cases hsz : sizeOk size = true
      · have := J_emit t a (.edelta l b size) hJ
        simpa [front, Front.newNode, astep, hv, hl.1, hl.2, hsz, Node.toCall] using this
      · have hsz' : sizeOk size = false := by simpa using hsz
        have e : astep a (.edelta l b size) = a := by simp [astep, hsz']
        rw [e]; simpa [front, hv, hsz'] using hJ
    · have hdec : (decide (l < a.nLabels) && decide (b < a.nLabels)) = false := by
        by_cases h1 : l < a.nLabels
        · by_cases h2 : b < a.nLabels
          · exact absurd ⟨h1, h2⟩ hl
          · simp [h2]
        · simp [h1]
      have hv : (t.f.labelValid l && t.f.labelValid b) = false := by
        simp only [Front.labelValid, fr.nLabels]; exact hdec
      have e : astep a (.edelta l b size) = a := by simp [astep, hdec]
      rw [e]; simpa [front, hv] using hJ
  | «section» s =>
    by_cases hs : s < a.nSections
    · have hent : a.entered.contains s = false := by
        rcases hA with h | h
        · exact absurd hs h
        · exact h
      have hfind : t.f.sectionNodes.find? (fun e => e.1 == s) = none := by
        have := hJ.sec s
        rw [hent] at this
        cases hf : t.f.sectionNodes.find? (fun e => e.1 == s) with
        | none => rfl
        | some e => rw [hf] at this; simp at this
      have hge : ¬ (s ≥ t.f.nSections) := by rw [fr.nSections]; omega
      have hnot : t.f.nodes.length ∉ t.d.items := fun hm => Nat.lt_irrefl _ (fr.fresh _ hm)
      have hd : [Act.regSection t.f.nodes.length, Act.section t.f.nodes.length].foldl Doc.apply t.d =
          { t.d with items := t.d.items ++ [t.f.nodes.length], gap := t.d.items.length + 1,
                     secNodes := t.f.nodes.length :: t.d.secNodes } := by
        simp [Doc.apply, Doc.has, Doc.isSec, hnot]
      have ea : astep a (.section s) =
          { (a.emit (.section s)) with cur := s, entered := s :: a.entered, reentered := a.reentered || a.entered.contains s } := by
        simp [astep, hs]
      rw [ea]
      simp only [front, hge, if_false, hfind, Front.newNode]
      rw [hd]
      refine J_append_gen t a _ _ _ (.section s) hJ rfl (by simp) rfl rfl ?_ fr.regSize fr.nSections fr.opts fr.extra fr.cmt
        rfl rfl rfl rfl
      intro s'
      by_cases hss : s = s'
      · subst hss; simp
      · have hne : (s == s') = false := by simpa using hss
        have hne' : (s' == s) = false := by simpa using (Ne.symm hss)
        simp only [List.find?_cons, hne, List.contains_cons, hne', Bool.false_or]
        exact hJ.sec s'
    · have hge : s ≥ t.f.nSections := by rw [fr.nSections]; omega
      have e : astep a (.section s) = a := by simp [astep, hs]
      rw [e]; simpa [front, hge] using hJ
  | cpool l isz bytes => exact absurd hA (by simp [Adm0])
  | gconst z b => exact absurd hA (by simp [Adm0, isEdit])
  | cursor n => exact absurd hA (by simp [Adm0, isEdit])
  | remove n => exact absurd hA (by simp [Adm0, isEdit])
  | removerange x y => exact absurd hA (by simp [Adm0, isEdit])
  | addnode n => exact absurd hA (by simp [Adm0, isEdit])
  | addafter n r => exact absurd hA (by simp [Adm0, isEdit])
  | addbefore n r => exact absurd hA (by simp [Adm0, isEdit])

theorem J_init (r : Nat) : J (Spec.St.init r) { regSize := r } := by
  refine ⟨⟨rfl, rfl, rfl, rfl, rfl, rfl, ?_, ?_, ?_, ?_⟩, rfl, rfl, ?_⟩
  · intro n h; simp [Spec.St.init] at h ⊢; omega
  · intro l h; simp at h
  · intro l n h; simp at h
  · intro l h; simp at h
  · intro s
    simp only [Spec.St.init, List.find?_cons, List.find?_nil, List.contains_cons, List.contains_nil, Bool.or_false]
    by_cases h : s = 0
    · subst h; simp
    · have h1 : ((0 : Nat) == s) = false := by simpa using (Ne.symm h)
      have h2 : (s == 0) = false := by simpa using h
      simp [h1, h2]

end AsmjitVerif.Builder
