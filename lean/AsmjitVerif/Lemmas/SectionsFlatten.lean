/- `flatten`: the 64-bit loops against the unbounded ideal layout; the layout monitor on the result. -/
import AsmjitVerif.Lemmas.SectionsAlign
namespace AsmjitVerif.Sections

/-- alignment precondition of a table suffix processed with running offset `off`: the head may be `.text` (alignment 0)
    only when the running offset is 0; all later sections have good alignments -/
def Pre (off : Nat) : List Section → Prop
  | [] => True
  | s :: rest => AlignOK off s.align ∧ ∀ t ∈ rest, GoodAlign t.align

theorem Pre_tail {off : Nat} {s : Section} {rest : List Section} (h : Pre off (s :: rest)) (off' : Nat) : Pre off' rest := by
  cases rest with
  | nil => trivial
  | cons t r =>
    refine ⟨Or.inl (h.2 t (by simp)), ?_⟩
    intro u hu
    exact h.2 u (by simp [hu])

theorem idealEnd_ge (off : Nat) (secs : List Section) : off ≤ idealEnd off secs := by
  induction secs generalizing off with
  | nil => simp [idealEnd]
  | cons s rest ih =>
    unfold idealEnd
    split
    · have := ih (roundUp off s.align + s.realSize); have := roundUp_ge off s.align; omega
    · exact ih off

/-- first loop of `flatten` = "the ideal layout fits in 64 bits" -/
theorem flattenCheck_iff (off : Nat) (secs : List Section) (hpre : Pre off secs) (hoff : off < U64) :
    flattenCheck off secs = true ↔ idealEnd off secs < U64 := by
  induction secs generalizing off with
  | nil => simp [flattenCheck, idealEnd, hoff]
  | cons s rest ih =>
    unfold flattenCheck idealEnd
    by_cases hr : s.realSize ≠ 0
    · rw [if_pos hr, if_pos hr]
      by_cases hfit : roundUp off s.align < U64
      · have he := alignUp_eq_of_fits off s.align hpre.1 hoff hfit
        have hge := roundUp_ge off s.align
        rw [he]
        simp only [show ¬ roundUp off s.align < off by omega, if_false]
        by_cases hs : roundUp off s.align + s.realSize ≥ U64
        · simp only [hs, if_true]
          have := idealEnd_ge (roundUp off s.align + s.realSize) rest
          constructor
          · intro h; cases h
          · intro h; omega
        · simp only [hs, if_false]
          exact ih _ (Pre_tail hpre _) (by omega)
      · have hl := alignUp_lt_of_not_fits off s.align hpre.1 hoff (by omega)
        simp only [hl, if_true]
        have := idealEnd_ge (roundUp off s.align + s.realSize) rest
        constructor
        · intro h; cases h
        · intro h; omega
    · rw [if_neg hr, if_neg hr]
      have hpre' : Pre off rest := Pre_tail hpre off
      exact ih off hpre' hoff

/-! ### the layout monitor -/

theorem firstNonEmpty_mem {l : List Section} {t : Section} (h : firstNonEmpty l = some t) : t ∈ l ∧ t.realSize ≠ 0 := by
  induction l with
  | nil => simp [firstNonEmpty] at h
  | cons s rest ih =>
    unfold firstNonEmpty at h
    split at h
    · cases h; simp_all
    · have := ih h; simp_all

theorem firstNonEmpty_none {l : List Section} (h : firstNonEmpty l = none) : ∀ b ∈ l, b.realSize = 0 := by
  induction l with
  | nil => simp
  | cons s rest ih =>
    unfold firstNonEmpty at h
    split at h
    · cases h
    · intro b hb
      rcases List.mem_cons.mp hb with rfl | hb
      · omega
      · exact ih h b hb

theorem layoutChk_weaken {po lo po' lo' : Nat} {l : List Section} (h : layoutChk po lo l = true) (hpo : po' ≤ po)
    (hlo : ∀ t, firstNonEmpty l = some t → lo' ≤ t.offset) : layoutChk po' lo' l = true := by
  induction l generalizing po lo po' lo' with
  | nil => simp [layoutChk]
  | cons s rest ih =>
    unfold layoutChk at h ⊢
    simp only [Bool.and_eq_true, decide_eq_true_eq] at h ⊢
    refine ⟨by omega, ?_⟩
    by_cases hr : s.realSize = 0
    · rw [if_pos hr] at h ⊢
      apply ih h.2 (Nat.le_refl _)
      intro t ht
      apply hlo t
      simp [firstNonEmpty, hr, ht]
    · rw [if_neg hr] at h ⊢
      simp only [Bool.and_eq_true, decide_eq_true_eq] at h ⊢
      have := hlo s (by simp [firstNonEmpty, hr])
      exact ⟨⟨this, h.2.1.2⟩, h.2.2⟩

theorem layoutChk_bounds {po lo : Nat} {l : List Section} (h : layoutChk po lo l = true) :
    ∀ b ∈ l, po ≤ b.offset ∧ (b.realSize ≠ 0 → lo ≤ b.offset) := by
  induction l generalizing po lo with
  | nil => simp
  | cons s rest ih =>
    unfold layoutChk at h
    simp only [Bool.and_eq_true, decide_eq_true_eq] at h
    intro b hb
    by_cases hr : s.realSize = 0
    · rw [if_pos hr] at h
      rcases List.mem_cons.mp hb with rfl | hb
      · exact ⟨h.1, fun hne => absurd hr hne⟩
      · have := ih h.2 b hb
        exact ⟨by omega, this.2⟩
    · rw [if_neg hr] at h
      simp only [Bool.and_eq_true, decide_eq_true_eq] at h
      rcases List.mem_cons.mp hb with rfl | hb
      · exact ⟨h.1, fun _ => h.2.1.1⟩
      · have := ih h.2.2 b hb
        refine ⟨by omega, fun hne => ?_⟩
        have := this.2 hne
        omega

end AsmjitVerif.Sections

namespace AsmjitVerif.Sections

/-- two lists related position by position -/
inductive AllRel {α β : Type} (R : α → β → Prop) : List α → List β → Prop
  | nil : AllRel R [] []
  | cons {a b l₁ l₂} : R a b → AllRel R l₁ l₂ → AllRel R (a :: l₁) (b :: l₂)

/-- what `flatten` may change in a section: only offset and virtual size; the real size never shrinks and an empty
    section stays empty -/
def Rel (a b : Section) : Prop :=
  b.id = a.id ∧ b.order = a.order ∧ b.align = a.align ∧ b.data = a.data ∧ b.name = a.name ∧
  a.realSize ≤ b.realSize ∧ (a.realSize = 0 → b.realSize = 0) ∧ a.vsize ≤ b.vsize

theorem alignedB_of_roundUp (s : Section) (off : Nat) (h : s.offset = roundUp off s.align) : alignedB s = true := by
  unfold alignedB
  by_cases ha : s.align = 0
  · simp [ha]
  · have := roundUp_dvd off s.align ha
    rw [← h] at this
    simp [Nat.mod_eq_zero_of_dvd this]

/-- the second loop of `flatten` on a table whose ideal layout fits 64 bits -/
theorem assign_good (off : Nat) (secs : List Section) (hpre : Pre off secs) (hfit : idealEnd off secs < U64) :
    (assign off secs).map (·.offset) = idealOffsets off secs ∧
    layoutChk off off (assign off secs) = true ∧
    AllRel Rel secs (assign off secs) ∧
    (∀ b ∈ assign off secs, b.offset + b.realSize ≤ idealEnd off secs) := by
  induction secs generalizing off with
  | nil => simp [assign, idealOffsets, layoutChk]; exact AllRel.nil
  | cons s rest ih =>
    have hoff : off < U64 := by have := idealEnd_ge off (s :: rest); omega
    unfold assign idealOffsets
    by_cases hr : s.realSize ≠ 0
    · simp only [if_pos hr]
      unfold idealEnd at hfit
      rw [if_pos hr] at hfit
      have hx := idealEnd_ge (roundUp off s.align + s.realSize) rest
      have hge := roundUp_ge off s.align
      have he := alignUp_eq_of_fits off s.align hpre.1 hoff (by omega)
      rw [he, Nat.mod_eq_of_lt (by omega)]
      obtain ⟨ihA, ihB, ihC, ihD⟩ := ih (roundUp off s.align + s.realSize) (Pre_tail hpre _) hfit
      have hend : idealEnd off (s :: rest) = idealEnd (roundUp off s.align + s.realSize) rest := by
        simp [idealEnd, hr]
      have hbnd := layoutChk_bounds ihB
      cases hf : firstNonEmpty (assign (roundUp off s.align + s.realSize) rest) with
      | none =>
        simp only []
        have hnone := firstNonEmpty_none hf
        refine ⟨by simp [ihA], ?_, ?_, ?_⟩
        · unfold layoutChk
          have hreal : ({ s with offset := roundUp off s.align } : Section).realSize = s.realSize := rfl
          simp only [hreal, if_neg hr, Bool.and_eq_true, decide_eq_true_eq]
          refine ⟨hge, ⟨hge, alignedB_of_roundUp _ off rfl⟩, ?_⟩
          exact layoutChk_weaken ihB (by omega) (by intro t ht; rw [hf] at ht; cases ht)
        · exact AllRel.cons ⟨rfl, rfl, rfl, rfl, rfl, Nat.le_refl _, fun h => h, Nat.le_refl _⟩ ihC
        · intro b hb
          rcases List.mem_cons.mp hb with rfl | hb
          · show roundUp off s.align + s.realSize ≤ _
            rw [hend]; exact hx
          · rw [hend]; exact ihD b hb
      | some t =>
        simp only []
        obtain ⟨htm, htne⟩ := firstNonEmpty_mem hf
        have htlo := (hbnd t htm).2 htne
        have htD := ihD t htm
        have hvs : (t.offset + U64 - roundUp off s.align) % U64 = t.offset - roundUp off s.align := by
          have : t.offset + U64 - roundUp off s.align = (t.offset - roundUp off s.align) + U64 := by omega
          rw [this, Nat.add_mod_right, Nat.mod_eq_of_lt (by omega)]
        rw [hvs]
        have hreal : ({ s with offset := roundUp off s.align, vsize := t.offset - roundUp off s.align } : Section).realSize
            = t.offset - roundUp off s.align := by
          show max (t.offset - roundUp off s.align) s.bufSize = _
          have : s.bufSize ≤ s.realSize := by unfold Section.realSize; omega
          omega
        refine ⟨by simp [ihA], ?_, ?_, ?_⟩
        · unfold layoutChk
          simp only [hreal, Bool.and_eq_true, decide_eq_true_eq]
          rw [if_neg (by omega)]
          simp only [Bool.and_eq_true, decide_eq_true_eq]
          refine ⟨hge, ⟨hge, alignedB_of_roundUp _ off rfl⟩, ?_⟩
          apply layoutChk_weaken ihB (by show roundUp off s.align ≤ _; omega)
          intro t' ht'
          rw [hf] at ht'; cases ht'
          show roundUp off s.align + (t.offset - roundUp off s.align) ≤ t.offset
          omega
        · refine AllRel.cons ⟨rfl, rfl, rfl, rfl, rfl, ?_, ?_, ?_⟩ ihC
          · rw [hreal]; omega
          · intro h0; exact absurd h0 hr
          · show s.vsize ≤ t.offset - roundUp off s.align
            have : s.vsize ≤ s.realSize := by unfold Section.realSize; omega
            omega
        · intro b hb
          rcases List.mem_cons.mp hb with rfl | hb
          · rw [hreal, hend]
            show roundUp off s.align + (t.offset - roundUp off s.align) ≤ _
            omega
          · rw [hend]; exact ihD b hb
    · simp only [if_neg hr]
      have hr0 : s.realSize = 0 := by omega
      have hend : idealEnd off (s :: rest) = idealEnd off rest := by simp [idealEnd, hr0]
      rw [hend] at hfit
      obtain ⟨ihA, ihB, ihC, ihD⟩ := ih off (Pre_tail hpre _) hfit
      refine ⟨by simp [ihA], ?_, ?_, ?_⟩
      · unfold layoutChk
        have hreal : ({ s with offset := off } : Section).realSize = 0 := hr0
        simp only [hreal, if_pos, Bool.and_eq_true, decide_eq_true_eq]
        exact ⟨Nat.le_refl _, ihB⟩
      · exact AllRel.cons ⟨rfl, rfl, rfl, rfl, rfl, Nat.le_refl _, fun h => h, Nat.le_refl _⟩ ihC
      · intro b hb
        rcases List.mem_cons.mp hb with rfl | hb
        · show off + s.realSize ≤ _
          rw [hend, hr0]; have := idealEnd_ge off rest; omega
        · rw [hend]; exact ihD b hb

end AsmjitVerif.Sections

namespace AsmjitVerif.Sections

theorem alignedB_sound {s : Section} (h : alignedB s = true) : AlignedSec s := by
  unfold alignedB at h
  unfold AlignedSec
  simp only [Bool.or_eq_true, beq_iff_eq] at h
  rcases h with h | h
  · exact Or.inl h
  · exact Or.inr (Nat.dvd_of_mod_eq_zero h)

/-- the layout monitor implies the textbook statements -/
theorem layoutChk_sound {po lo : Nat} {l : List Section} (h : layoutChk po lo l = true) :
    NoOverlap l ∧ OffsetsMonotone l ∧ Aligned l := by
  induction l generalizing po lo with
  | nil => simp [NoOverlap, OffsetsMonotone, Aligned]
  | cons s rest ih =>
    have hb := layoutChk_bounds h
    unfold layoutChk at h
    simp only [Bool.and_eq_true, decide_eq_true_eq] at h
    unfold NoOverlap OffsetsMonotone Aligned
    by_cases hr : s.realSize = 0
    · rw [if_pos hr] at h
      obtain ⟨ih1, ih2, ih3⟩ := ih h.2
      have hb' := layoutChk_bounds h.2
      refine ⟨List.Pairwise.cons ?_ ih1, List.Pairwise.cons ?_ ih2, ?_⟩
      · intro b hbm _; have := (hb' b hbm).1; omega
      · intro b hbm; exact (hb' b hbm).1
      · intro b hbm hne
        rcases List.mem_cons.mp hbm with rfl | hbm
        · exact absurd hr hne
        · exact ih3 b hbm hne
    · rw [if_neg hr] at h
      simp only [Bool.and_eq_true, decide_eq_true_eq] at h
      obtain ⟨ih1, ih2, ih3⟩ := ih h.2.2
      have hb' := layoutChk_bounds h.2.2
      refine ⟨List.Pairwise.cons ?_ ih1, List.Pairwise.cons ?_ ih2, ?_⟩
      · intro b hbm hne; exact (hb' b hbm).2 hne
      · intro b hbm; exact (hb' b hbm).1
      · intro b hbm hne
        rcases List.mem_cons.mp hbm with rfl | hbm
        · exact alignedB_sound h.2.1.2
        · exact ih3 b hbm hne

end AsmjitVerif.Sections
