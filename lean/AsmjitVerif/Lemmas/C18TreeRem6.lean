/-
C18 — ArenaTree::remove, part 6: simulation of the double-rotation-at-parent branch.
-/
import AsmjitVerif.Lemmas.C18TreeRem5
namespace AsmjitVerif.Tree.Rem
open AsmjitVerif.Tree AsmjitVerif.Tree.Spec

theorem mkT_idxs_perm (i k : Nat) (c d : Bool) (a b : T) : (mkT i k c d a b).idxs.Perm (i :: (a.idxs ++ b.idxs)) := by
  cases d
  · simpa [mkT, T.idxs] using (List.perm_middle (a := i) (l₁ := a.idxs) (l₂ := b.idxs))
  · simp only [mkT, T.idxs, if_true]
    exact (List.perm_middle (a := i) (l₁ := b.idxs) (l₂ := a.idxs)).trans (List.Perm.cons i List.perm_append_comm)

theorem dbl_distinct (A B C E F D : List Nat) (q p x s : Nat)
    (hn : (A ++ q :: (B ++ p :: (C ++ x :: ((s :: (E ++ F)) ++ D)))).Nodup) :
    (q ≠ p ∧ q ≠ x ∧ q ≠ s ∧ p ≠ x ∧ p ≠ s ∧ x ≠ s) ∧
    (∀ i ∈ A, i ≠ q ∧ i ≠ p ∧ i ≠ x ∧ i ≠ s) ∧ (∀ i ∈ B, i ≠ q ∧ i ≠ p ∧ i ≠ x ∧ i ≠ s) ∧
    (∀ i ∈ C, i ≠ q ∧ i ≠ p ∧ i ≠ x ∧ i ≠ s) ∧ (∀ i ∈ E, i ≠ q ∧ i ≠ p ∧ i ≠ x ∧ i ≠ s) ∧
    (∀ i ∈ F, i ≠ q ∧ i ≠ p ∧ i ≠ x ∧ i ≠ s) ∧ (∀ i ∈ D, i ≠ q ∧ i ≠ p ∧ i ≠ x ∧ i ≠ s) ∧ D.Nodup ∧
    (∀ i ∈ A, i ∉ D) ∧ (∀ i ∈ B, i ∉ D) ∧ (∀ i ∈ C, i ∉ D) ∧ (∀ i ∈ E, i ∉ D) ∧ (∀ i ∈ F, i ∉ D) := by
  simp only [List.nodup_append, List.nodup_cons, List.mem_append, List.mem_cons, not_or] at hn
  refine ⟨⟨?_, ?_, ?_, ?_, ?_, ?_⟩, ?_, ?_, ?_, ?_, ?_, ?_, ?_, ?_, ?_, ?_, ?_, ?_⟩
  all_goals grind

/-- double rotation at the parent (near nephew red) -/
theorem inv_dbl {kn node : Nat} {st : RmState} {P : Frame} {up : List Frame} {S : T}
    (inv : Inv kn node st (P :: up) S)
    (hS : S.isNil = false) (d : Bool) (hdd : decide (S.key < kn) = d)
    (c1 : S.isRed = false) (c2 : (S.child d).isRed = false) (c3 : (S.child (!d)).isRed = false)
    (hsn : P.sib.isNil = false) (c5 : (P.sib.child P.d).isRed = true)
    (hn : ((S.child d).idxs ++
      ctxIdxs (⟨S.rootIdx, S.key, true, d, S.child (!d)⟩ :: ⟨P.i, P.k, false, P.d, (P.sib.child P.d).child P.d⟩ ::
        ⟨(P.sib.child P.d).rootIdx, (P.sib.child P.d).key, true, P.d,
          mkT P.sib.rootIdx P.sib.key false P.d ((P.sib.child P.d).child (!P.d)) (P.sib.child (!P.d))⟩ :: up)).Nodup) :
    Inv kn node (stepState node st)
      (⟨S.rootIdx, S.key, true, d, S.child (!d)⟩ :: ⟨P.i, P.k, false, P.d, (P.sib.child P.d).child P.d⟩ ::
        ⟨(P.sib.child P.d).rootIdx, (P.sib.child P.d).key, true, P.d,
          mkT P.sib.rootIdx P.sib.key false P.d ((P.sib.child P.d).child (!P.d)) (P.sib.child (!P.d))⟩ :: up)
      (S.child d) := by
  obtain ⟨hq0, hq, hd, hri, hkey, hred, hq2, hqs, hch, hrq, hrc⟩ := inv.qfacts hS
  obtain ⟨sq, sdir, sp, hp2, hps, hpk, hsr, hhole, hup, hs0, hsc, sri, skey, hs2, hss, sch, srd⟩ := inv.sfacts hsn
  obtain ⟨hg0, hgs, hg1, hgm, hu2⟩ := inv.gfacts
  rw [hdd] at hd
  have i1 := inv.size1; have i2 := inv.headl; have i3 := inv.hkn
  have hqp : holeptr st.t (P :: up) = getC (nd st.t P.i) P.d := rfl
  generalize hh : st.t = h at *
  generalize hqq : holeptr h (P :: up) = q at *
  generalize hsv : getC (nd h P.i) (!P.d) = s at *
  -- the red near nephew
  have hxn := T.isRed_notNil c5
  have hx0 : getC (nd h s) P.d ≠ 0 := by
    intro e; have := (sch P.d).isNil_iff.mpr e; rw [hxn] at this; cases this
  obtain ⟨_, xri, xkey, xred, hx2, hxs, xch⟩ := (sch P.d).acc hx0
  generalize hxv : getC (nd h s) P.d = x at *
  rw [hri, sri, xri] at hn ⊢
  have hn0 := hn
  simp only [ctxIdxs] at hn
  have hn' := (List.Perm.append_left _ (List.Perm.cons q (List.Perm.append_left _ (List.Perm.cons P.i
    (List.Perm.append_left _ (List.Perm.cons x (List.Perm.append_right (ctxIdxs up)
      (mkT_idxs_perm s P.sib.key false P.d ((P.sib.child P.d).child (!P.d)) (P.sib.child (!P.d)))))))))).nodup_iff.mp hn
  obtain ⟨⟨hqp', hqx, hqs', hpx, hps', hxs'⟩, dA, dB, dC, dE, dF, dD, nD, eA, eB, eC, eE, eF⟩ :=
    dbl_distinct _ _ _ _ _ _ _ _ _ _ hn'
  have hgn : pIdx up ≠ q ∧ pIdx up ≠ P.i ∧ pIdx up ≠ x ∧ pIdx up ≠ s := by
    rcases hgm with e1 | e1
    · rw [e1]; omega
    · exact dD _ e1
  have hd2 : (child h (pIdx up) true == P.i) = dirOf up :=
    dir2_eq hup hhole hp2 (fun hm => (dD _ hm).2.1 rfl)
  obtain ⟨t1, t2⟩ := step_dbl node st q d s (hh ▸ hq) (hh ▸ hd) (by rw [hh, hrq, c1]) (by rw [hh, hrc, c2])
    (by rw [hh, hrc, c3]) (hh ▸ hsc) hs0 (by rw [hh, sdir, srd, c5]) (dirOf up)
    (by rw [hh, sp, sq]; exact hd2)
  rw [hh, sq, sdir, sp] at t1
  obtain ⟨r1, r2, r3, r4⟩ := doubleRotate_nd h P.i P.d s x hsv hxv (by omega) hps hs0 hss hx0 hxs
    (Ne.symm hps') (Ne.symm hpx) hxs'
  rw [r1] at t1
  generalize (doubleRotate h P.i P.d).1 = h1 at *
  have n2 := setChild_nd h1 (pIdx up) (dirOf up) x hg0 (r2 ▸ hgs)
  have s2 : (setChild h1 (pIdx up) (dirOf up) x).nodes.size = h.nodes.size := by rw [setChild_size, r2]
  generalize setChild h1 (pIdx up) (dirOf up) x = h2 at *
  have n2x : nd h2 x = setR (setC (setC (nd h x) (!P.d) s) P.d P.i) false := by
    rw [n2 x, if_neg (Ne.symm hgn.2.2.1), r4 x, if_pos rfl]
  obtain ⟨s5, n5⟩ := recolor_tail h2 q x P.d P.i s (by rw [n2x]; simp) (by rw [n2x]; simp)
    hq0 (s2 ▸ hqs) hx0 (s2 ▸ hxs) (by omega) (s2 ▸ hps) hs0 (s2 ▸ hss) hqx hqp' hqs' (Ne.symm hpx) hxs' hps'
  rw [← t1] at s5 n5
  have es : (stepState node st).t.nodes.size = h.nodes.size := s5.trans s2
  generalize hh' : (stepState node st).t = h' at t1 s5 n5 es
  have fr : ∀ i, (i ≠ q ∧ i ≠ P.i ∧ i ≠ x ∧ i ≠ s) → i ≠ pIdx up → nd h' i = nd h i := by
    intro i ⟨a, b, c, e⟩ f
    rw [n5 i, if_neg a, if_neg c, if_neg b, if_neg e, n2 i, if_neg f, r4 i, if_neg c, if_neg e, if_neg b]
  have fr2 : ∀ i, 2 ≤ i → i ∉ ctxIdxs up → (i ≠ q ∧ i ≠ P.i ∧ i ≠ x ∧ i ≠ s) → nd h' i = nd h i := by
    intro i i2 iD hi
    apply fr i hi
    rcases hgm with e1 | e1
    · omega
    · intro e; exact iD (e ▸ e1)
  have eq' : nd h' q = setR (nd h q) true := by
    rw [n5 q, if_pos rfl, n2 q, if_neg (Ne.symm hgn.1), r4 q, if_neg hqx, if_neg hqs', if_neg hqp']
  have ex' : nd h' x = setR (setR (setC (setC (nd h x) (!P.d) s) P.d P.i) false) true := by
    rw [n5 x, if_neg (Ne.symm hqx), if_pos rfl, n2x]
  have ep' : nd h' P.i = setR (setR (setC (nd h P.i) (!P.d) (getC (nd h x) P.d)) true) false := by
    rw [n5 P.i, if_neg (Ne.symm hqp'), if_neg hpx, if_pos rfl, n2 P.i, if_neg (Ne.symm hgn.2.1), r4 P.i,
      if_neg hpx, if_neg hps', if_pos rfl]
  have es' : nd h' s = setR (setR (setC (nd h s) P.d (getC (nd h x) (!P.d))) true) false := by
    rw [n5 s, if_neg (Ne.symm hqs'), if_neg (Ne.symm hxs'), if_neg (Ne.symm hps'), if_pos rfl, n2 s,
      if_neg (Ne.symm hgn.2.2.2), r4 s, if_neg (Ne.symm hxs'), if_pos rfl]
  have eg' : nd h' (pIdx up) = setC (nd h (pIdx up)) (dirOf up) x := by
    rw [n5 _, if_neg hgn.1, if_neg hgn.2.2.1, if_neg hgn.2.1, if_neg hgn.2.2.2, n2 _, if_pos rfl, r4 _,
      if_neg hgn.2.2.1, if_neg hgn.2.2.2, if_neg hgn.2.1]
  have ekey : ∀ n, (nd h' n).key = (nd h n).key := by
    intro n
    by_cases a : n = q
    · rw [a, eq']; simp
    · by_cases b : n = P.i
      · rw [b, ep']; simp
      · by_cases c : n = x
        · rw [c, ex']; simp
        · by_cases e : n = s
          · rw [e, es']; simp
          · by_cases f : n = pIdx up
            · rw [f, eg']; simp
            · rw [fr n ⟨a, b, c, e⟩ f]
  refine ⟨?_, ?_, ?_, ?_, ?_, ?_, ?_, ?_, ?_⟩ <;> (try simp only [hh'])
  · rw [es]; exact i1
  · by_cases h1p : pIdx up = 1
    · rw [← h1p, eg', hg1 h1p]; simp only [setC, if_true]; rw [h1p]; exact i2
    · rw [fr 1 ⟨by omega, by omega, by omega, by omega⟩ (Ne.symm h1p)]; exact i2
  · show (nd h' node).key = kn
    rw [ekey]; exact i3
  · refine ⟨hq2, es ▸ hqs, ?_, ?_, ?_, ?_, ⟨hp2, es ▸ hps, ?_, ?_, ?_, ?_, ⟨hx2, es ▸ hxs, ?_, ?_, ?_, ?_, ?_⟩⟩⟩
    · rw [ekey, hkey]
    · rw [eq']; rfl
    · rw [eq']; simp
      exact (hch (!d)).frame es (fun i hi => fr2 i ((hch (!d)).ge2 i hi).1 (eB i hi) (dB i hi))
    · simp only [holeptr, pIdx, dirOf]; rw [ep']; simp; exact hqp.symm
    · rw [ekey, hpk]
    · rw [ep']; rfl
    · rw [ep']; simp
      exact (xch P.d).frame es (fun i hi => fr2 i ((xch P.d).ge2 i hi).1 (eC i hi) (dC i hi))
    · simp only [holeptr, pIdx, dirOf]; rw [ex']; simp
    · rw [ekey, xkey]
    · rw [ex']; rfl
    · rw [ex']; simp
      apply Rep.mk hs2 (es ▸ hss) (by rw [ekey, skey]) (by rw [es']; rfl)
      · rw [es']; simp
        exact (xch (!P.d)).frame es (fun i hi => fr2 i ((xch (!P.d)).ge2 i hi).1 (eE i hi) (dE i hi))
      · rw [es']; simp
        exact (sch (!P.d)).frame es (fun i hi => fr2 i ((sch (!P.d)).ge2 i hi).1 (eF i hi) (dF i hi))
    · simp only [holeptr]; rw [eg']; simp
    · apply hup.frame_hole es nD
      · intro i hi hm
        rcases hm with rfl | hm
        · exact fr 1 ⟨by omega, by omega, by omega, by omega⟩ hi
        · exact fr i (dD i hm) hi
      · rw [ekey]
      · rw [eg']; simp
      · rw [eg']; simp
  · simp only [holeptr, pIdx, dirOf]; rw [eq']; simp
    exact (hch d).frame es (fun i hi => fr2 i ((hch d).ge2 i hi).1 (eA i hi) (dA i hi))
  · exact hn0
  · rw [step_q, hh, hq]; rfl
  · rw [step_dir, hh, hq, hd]; rfl
  · rw [t2, sq]; rfl

end AsmjitVerif.Tree.Rem
