/-
C18 — ArenaTree insert, part 4: one loop iteration split into `recolor` / `fixup`; the relink of the rotated
subtree under `t` (`t->_set_child(t->_get_right() == g, …)`), and the heap effect of `fixup` (single and double
rotation) on a tree in zipper form.  Core-only.
-/
import AsmjitVerif.Lemmas.C18TreeIns3
namespace AsmjitVerif.Tree.Ins
open AsmjitVerif.Tree AsmjitVerif.Tree.Spec

/-- first half of the loop body: bottom insertion or colour flip; returns the new heap and the new `q` -/
def recolor (h : Tree) (node p q : Nat) (dir : Bool) : Tree × Nat :=
  if q = 0 then (setChild h p dir node, node)
  else if isRed h (child h q false) && isRed h (child h q true) then
    (makeBlack (makeBlack (makeRed h q) (child h q false)) (child h q true), q)
  else (h, q)

/-- second half: fix a red violation -/
def fixup (h : Tree) (g p tt q : Nat) (last : Bool) : Tree :=
  if isRed h q && isRed h p then
    let r := if q == child h p last then singleRotate h g (!last) else doubleRotate h g (!last)
    setChild r.1 tt (child h tt true == g) r.2
  else h

theorem insertLoop_succ (fuel : Nat) (h : Tree) (node g p tt q : Nat) (dir last : Bool) :
    insertLoop (fuel + 1) h node g p tt q dir last =
      (let r := recolor h node p q dir
       let h2 := fixup r.1 g p tt r.2 last
       if r.2 = node then h2 else
         insertLoop fuel h2 node p r.2 (if g ≠ 0 then g else tt)
           (child h2 r.2 (decide (key h2 r.2 < key h2 node))) (decide (key h2 r.2 < key h2 node)) dir) := by
  rfl

theorem Rep_mem_root {h : Tree} {n : Nat} {X : T} (r : Rep h n X) (hn : n ≠ 0) : n ∈ X.idxs := by
  cases r with
  | nil => exact absurd rfl hn
  | node => simp [T.idxs]

theorem Rep_idx_unique {h : Tree} {a b : Nat} {X : T} (ra : Rep h a X) (rb : Rep h b X) : a = b := by
  rw [← Rep_rootIdx ra, ← Rep_rootIdx rb]

theorem plug_disjoint {ctx : List Frame} {Q : T} (hnd : (plug ctx Q).idxs.Nodup) :
    ∀ i ∈ Q.idxs, i ∉ ctxIdxs ctx := by
  rw [(idxs_plug_perm ctx Q).nodup_iff, List.nodup_append] at hnd
  intro i hi hc
  exact hnd.2.2 i hi i hc rfl

theorem plug_nodup_sub {ctx : List Frame} {Q : T} (hnd : (plug ctx Q).idxs.Nodup) : Q.idxs.Nodup := by
  rw [(idxs_plug_perm ctx Q).nodup_iff, List.nodup_append] at hnd
  exact hnd.1

/-- the head cell is read through `.r` only -/
def rootOf (h : Tree) : Nat := (nd h 1).r

/-- the node above the frames `rest`: the innermost of them, or `head` -/
def ttOf : List Frame → Nat
  | [] => 1
  | f :: _ => f.idx

/-- `t->_set_child(t->_get_right() == g, res)`: hang the rotated subtree `G'` (at `res`) where `G` (at `g`) was -/
theorem relink {h h1 : Tree} {rest : List Frame} {G G' : T} {g res tt : Nat} {S : List Nat}
    (hr : Rep h (rootOf h) (plug rest G)) (hnd : (plug rest G).idxs.Nodup)
    (hg : Rep h g G) (hg0 : g ≠ 0)
    (r1 : Rep h1 res G') (so1 : SameOut S h h1) (hS : ∀ i ∈ S, i ∈ G.idxs)
    (hidx : ∀ i, i ∈ G'.idxs → i ∈ G.idxs)
    (htt : tt = ttOf rest) (h1lt : 1 < h.nodes.size) :
    Rep (setChild h1 tt (child h tt true == g) res) (rootOf (setChild h1 tt (child h tt true == g) res))
        (plug rest G') ∧
    SameOut (1 :: (plug rest G).idxs) h (setChild h1 tt (child h tt true == g) res) := by
  have hGge := Rep_idx_ge hg
  have sz1 := so1.size
  cases rest with
  | nil =>
    simp only [ttOf] at htt
    subst htt
    simp only [plug] at hr hnd ⊢
    have eg : rootOf h = g := Rep_idx_unique hr hg
    have eslot : (child h 1 true == g) = true := by
      simp only [child_eq, if_true, beq_iff_eq]; exact eg
    rw [eslot]
    have so2 : SameOut [1] h1 (setChild h1 1 true res) := SameOut.upd [1] h1 1 _ (by simp)
    have c1 : rootOf (setChild h1 1 true res) = res := by
      simp only [rootOf]
      rw [setChild_upd, nd_upd_same _ _ _ (by omega) (by omega)]
      rfl
    rw [c1]
    refine ⟨Rep_sameOut r1 so2 ?_, ?_⟩
    · intro i hi
      have := (hGge i (hidx i hi)).1
      simp only [List.mem_singleton]; omega
    · refine SameOut.trans (so1.mono ?_) (so2.mono ?_)
      · intro i hi; exact List.mem_cons_of_mem _ (hS i hi)
      · intro i hi; simp only [List.mem_singleton] at hi; simp [hi]
  | cons tf rest' =>
    simp only [ttOf] at htt
    simp only [plug] at hr hnd ⊢
    have hdis := plug_disjoint hnd
    have hndF := plug_nodup_sub hnd
    obtain ⟨n, rn⟩ := rep_plug_sub hr
    have rn0 := rn
    simp only [Frame.fill, Rep_nodeD] at rn
    obtain ⟨en, t2, tl, tk, tc, rG, rS⟩ := rn
    have ent : n = tt := en.trans htt.symm
    subst ent
    simp only [Frame.fill, nodup_nodeD] at hndF
    obtain ⟨htG, htS, ndG, ndS, hGS⟩ := hndF
    rw [← en] at htG htS
    have ecg : child h n tf.dir = g := Rep_idx_unique rG hg
    have eslot : (child h n true == g) = tf.dir := by
      cases hd : tf.dir
      · rw [hd] at rS ecg
        simp only [Bool.not_false] at rS
        rw [beq_eq_false_iff_ne]
        intro e
        rw [e] at rS
        exact hGS g (Rep_mem_root hg hg0) (Rep_mem_root rS hg0)
      · rw [hd] at ecg; rw [ecg]; simp
    rw [eslot]
    have so2 : SameOut [n] h1 (setChild h1 n tf.dir res) := SameOut.upd [n] h1 n _ (by simp)
    have hn1 : nd h1 n = nd h n := so1.cells n (fun e => htG (hS n e))
    have cn : nd (setChild h1 n tf.dir res) n = setc (nd h n) tf.dir res := by
      rw [setChild_upd, nd_upd_same _ _ _ (by omega) (by omega), hn1]
    have c1 : rootOf (setChild h1 n tf.dir res) = rootOf h := by
      simp only [rootOf]
      rw [so2.cells 1 (by simp only [List.mem_singleton]; omega), so1.cells 1 ?_]
      intro e; have := (hGge 1 (hS 1 e)).1; omega
    have soAll : SameOut (n :: G.idxs) h (setChild h1 n tf.dir res) := by
      refine SameOut.trans (so1.mono ?_) (so2.mono ?_)
      · intro i hi; exact List.mem_cons_of_mem _ (hS i hi)
      · intro i hi; simp only [List.mem_singleton] at hi; simp [hi]
    rw [c1]
    generalize setChild h1 n tf.dir res = h2 at *
    refine ⟨rep_plug_replace hr ?_ (by rw [so2.size, sz1]; exact Nat.le_refl _) ?_, ?_⟩
    · intro i hi
      refine soAll.cells i ?_
      intro hm
      refine hdis i ?_ hi
      simp only [Frame.fill, mem_idxs_nodeD]
      simp only [List.mem_cons] at hm
      rcases hm with hm | hm
      · exact Or.inl (hm.trans en)
      · exact Or.inr (Or.inl hm)
    · intro n' rn'
      have : n' = n := Rep_idx_unique rn' rn0
      subst this
      simp only [Frame.fill, Rep_nodeD]
      refine ⟨en, t2, by rw [so2.size, sz1]; exact tl, by rw [cn]; simp [tk], by rw [cn]; simp [tc], ?_, ?_⟩
      · rw [child_childOf, cn, childOf_setc_same]
        refine Rep_sameOut r1 so2 ?_
        intro i hi
        simp only [List.mem_singleton]
        exact fun e => htG (e ▸ hidx i hi)
      · rw [child_childOf, cn, childOf_setc_other, ← child_childOf]
        refine Rep_sameOut rS soAll ?_
        intro i hi
        simp only [List.mem_cons, not_or]
        exact ⟨fun e => htS (e ▸ hi), fun e => hGS i e hi⟩
    · refine soAll.mono ?_
      intro i hi
      refine List.mem_cons_of_mem _ (mem_idxs_plug.2 (Or.inl ?_))
      simp only [Frame.fill, mem_idxs_nodeD]
      simp only [List.mem_cons] at hi
      rcases hi with hi | hi
      · exact Or.inl (hi.trans en)
      · exact Or.inr (Or.inl hi)

theorem isRed_of_cell {h : Tree} {n : Nat} (h2 : 2 ≤ n) (hc : (nd h n).red = true) : isRed h n = true := by
  have : (n != 0) = true := by simp; omega
  simp only [isRed, this, hc, Bool.and_self]

/-- red violation, outer grandchild: single rotation at `g` and relink under `t` -/
theorem fixup_single {h : Tree} {rest : List Frame} {p kp g kg q tt : Nat} {A U Q1 : T} {dl : Bool}
    (hr : Rep h (rootOf h) (plug (⟨p, kp, true, dl, A⟩ :: ⟨g, kg, false, dl, U⟩ :: rest) Q1))
    (hnd : (plug (⟨p, kp, true, dl, A⟩ :: ⟨g, kg, false, dl, U⟩ :: rest) Q1).idxs.Nodup)
    (hq : Rep h q Q1) (hqred : Q1.isRed = true)
    (htt : tt = ttOf rest) (h1lt : 1 < h.nodes.size) :
    Rep (fixup h g p tt q dl) (rootOf (fixup h g p tt q dl))
      (plug (⟨p, kp, false, dl, nodeD dl g kg true A U⟩ :: rest) Q1) ∧
    SameOut (1 :: (plug (⟨p, kp, true, dl, A⟩ :: ⟨g, kg, false, dl, U⟩ :: rest) Q1).idxs) h
      (fixup h g p tt q dl) := by
  simp only [plug] at hr hnd ⊢
  obtain ⟨g', rg⟩ := rep_plug_sub hr
  have rg0 := rg
  have ndG := plug_nodup_sub hnd
  simp only [Frame.fill] at rg0 ndG
  simp only [Frame.fill, Rep_nodeD] at rg
  obtain ⟨eg, g2, gl, gk, gc, rP, rU⟩ := rg
  subst eg
  generalize hp : child h g' dl = p' at rP
  obtain ⟨ep, p2, pl, pk, pc, rQ, rA⟩ := rP
  subst ep
  have eq : q = child h p' dl := Rep_idx_unique hq rQ
  have hqr : isRed h q = true := by rw [isRed_rep hq]; exact hqred
  have hpr : isRed h p' = true := isRed_of_cell p2 pc
  have hq0 : q ≠ 0 := by
    intro e; rw [e] at hq; have := (Rep_nil_iff hq).1 rfl; rw [this] at hqred; cases hqred
  have efix : fixup h g' p' tt q dl =
      setChild (singleRotate h g' (!dl)).1 tt (child h tt true == g') (singleRotate h g' (!dl)).2 := by
    simp only [fixup, hqr, hpr, Bool.and_self, if_true, ← eq, beq_self_eq_true]
  rw [efix]
  have e1 : nodeD dl g' kg false (nodeD dl p' kp true Q1 A) U =
      nodeD (!(!dl)) g' kg false (nodeD (!dl) p' kp true A Q1) U := by cases dl <;> rfl
  rw [e1] at rg0 ndG
  obtain ⟨es, r1, so1⟩ := rep_singleRotate rg0 ndG
  rw [es]
  have e2 : nodeD (!dl) p' kp false (nodeD (!(!dl)) g' kg true A U) Q1 =
      nodeD dl p' kp false Q1 (nodeD dl g' kg true A U) := by cases dl <;> rfl
  rw [e2] at r1
  rw [← e1] at rg0
  have := relink (rest := rest) (G := nodeD dl g' kg false (nodeD dl p' kp true Q1 A) U)
    (G' := nodeD dl p' kp false Q1 (nodeD dl g' kg true A U)) (g := g') (res := p') (tt := tt) (S := [g', p'])
    hr hnd rg0 (by omega) r1 so1 (by
      intro i hi; simp only [mem_idxs_nodeD]
      simp only [List.mem_cons, List.not_mem_nil, or_false] at hi
      rcases hi with hi | hi
      · exact Or.inl hi
      · exact Or.inr (Or.inl (Or.inl hi))) (by
      intro i hi; simp only [mem_idxs_nodeD] at hi ⊢
      rcases hi with hi | hi | hi | hi | hi <;> simp [hi]) htt h1lt
  exact this

/-- red violation, inner grandchild: double rotation at `g` and relink under `t` (`d = !last`) -/
theorem fixup_double {h : Tree} {rest : List Frame} {p kp g kg q kq tt : Nat} {A U C B : T} {d : Bool}
    (hr : Rep h (rootOf h) (plug (⟨p, kp, true, d, A⟩ :: ⟨g, kg, false, !d, U⟩ :: rest) (nodeD d q kq true C B)))
    (hnd : (plug (⟨p, kp, true, d, A⟩ :: ⟨g, kg, false, !d, U⟩ :: rest) (nodeD d q kq true C B)).idxs.Nodup)
    (hq : Rep h q (nodeD d q kq true C B))
    (htt : tt = ttOf rest) (h1lt : 1 < h.nodes.size) :
    Rep (fixup h g p tt q (!d)) (rootOf (fixup h g p tt q (!d)))
      (plug rest (nodeD d q kq false (nodeD (!d) g kg true C U) (nodeD d p kp true B A))) ∧
    SameOut (1 :: (plug (⟨p, kp, true, d, A⟩ :: ⟨g, kg, false, !d, U⟩ :: rest) (nodeD d q kq true C B)).idxs) h
      (fixup h g p tt q (!d)) := by
  simp only [plug] at hr hnd ⊢
  obtain ⟨g', rg⟩ := rep_plug_sub hr
  have rg0 := rg
  have ndG := plug_nodup_sub hnd
  simp only [Frame.fill] at rg0 ndG
  simp only [Frame.fill, Rep_nodeD] at rg
  obtain ⟨eg, g2, gl, gk, gc, rP, rU⟩ := rg
  subst eg
  generalize hp : child h g' (!d) = p' at rP
  obtain ⟨ep, p2, pl, pk, pc, rQ, rA⟩ := rP
  subst ep
  obtain ⟨_, q2, _⟩ := rQ
  have hqr : isRed h q = true := by rw [isRed_rep hq, isRed_nodeD]
  have hpr : isRed h p' = true := isRed_of_cell p2 pc
  have ndG' := ndG
  simp only [nodup_nodeD, mem_idxs_nodeD, not_or] at ndG'
  have hqA : q ∉ A.idxs := fun e => ndG'.2.2.1.2.2.2.2 q (Or.inl rfl) e
  have hne : (q == child h p' (!d)) = false := by
    rw [beq_eq_false_iff_ne]
    intro e
    rw [← e] at rA
    exact hqA (Rep_mem_root rA (by omega))
  have efix : fixup h g' p' tt q (!d) =
      setChild (doubleRotate h g' d).1 tt (child h tt true == g') (doubleRotate h g' d).2 := by
    simp only [fixup, hqr, hpr, Bool.and_self, if_true, hne, Bool.not_not, Bool.false_eq_true, if_false]
  rw [efix]
  obtain ⟨es, r1, so1⟩ := rep_doubleRotate rg0 ndG
  rw [es]
  have := relink (rest := rest) (G := nodeD (!d) g' kg false (nodeD d p' kp true (nodeD d q kq true C B) A) U)
    (G' := nodeD d q kq false (nodeD (!d) g' kg true C U) (nodeD d p' kp true B A))
    (g := g') (res := q) (tt := tt) (S := [g', p', q])
    hr hnd rg0 (by omega) r1 so1 (by
      intro i hi; simp only [mem_idxs_nodeD]
      simp only [List.mem_cons, List.not_mem_nil, or_false] at hi
      rcases hi with hi | hi | hi <;> simp [hi]) (by
      intro i hi; simp only [mem_idxs_nodeD] at hi ⊢
      rcases hi with hi | (hi | hi | hi) | hi | hi | hi <;> simp [hi]) htt h1lt
  exact this

end AsmjitVerif.Tree.Ins
