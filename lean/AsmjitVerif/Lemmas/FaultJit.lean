/- C15: `JitAllocator::alloc` under the oracle - C09's alloc when nothing fails; a failed block allocation changes no state. -/
import AsmjitVerif.Model.FaultJit
import AsmjitVerif.Lemmas.FaultMore
namespace AsmjitVerif.FaultJit
open AsmjitVerif AsmjitVerif.Fault AsmjitVerif.JitAlloc AsmjitVerif.FaultMore
set_option maxHeartbeats 800000

theorem newBlockF_nil_ok (dual : Bool) (r : Res) : (newBlockF dual [] r).1 = [] ∧ (newBlockF dual [] r).2.2 = true := by
  cases dual <;> simp [newBlockF, dualMapF, req]

theorem allocIn_eq (a : Alloc) (size : Nat) :
    a.allocIn size = (match scan2 a size with
      | (blocks, some (id, idx, wasEmpty)) =>
        a.allocFound (sizeToPoolId a.cfg size) ((size + a.cfg.poolGran (sizeToPoolId a.cfg size) - 1) / a.cfg.poolGran (sizeToPoolId a.cfg size)) size blocks id idx wasEmpty
      | (blocks, none) =>
        a.allocNew (sizeToPoolId a.cfg size) ((size + a.cfg.poolGran (sizeToPoolId a.cfg size) - 1) / a.cfg.poolGran (sizeToPoolId a.cfg size)) size blocks) := by
  unfold Alloc.allocIn scan2
  simp only
  generalize (if (scanPass _ _ a.blocks).2.isSome = true then _ else _ : List Block × Option Found) = r2
  obtain ⟨bl, f⟩ := r2
  cases f with
  | none => rfl
  | some x => obtain ⟨i, j, k⟩ := x; rfl

/-- `allocF_nofault`: with the oracle that never fails `allocF` is C09's `Alloc.alloc` -/
theorem allocF_nofault (a : Alloc) (res : Res) (reqSize : Nat) :
    (allocF [] a res reqSize).1 = [] ∧
    ((allocF [] a res reqSize).2.1, (allocF [] a res reqSize).2.2.2) = a.alloc reqSize := by
  unfold allocF Alloc.alloc
  simp only
  split
  · exact ⟨rfl, rfl⟩
  · split
    · exact ⟨rfl, rfl⟩
    · rw [allocIn_eq]
      unfold allocInF
      simp only
      rcases scan2 a (alignUp reqSize a.cfg.gran) with ⟨blocks, f⟩
      cases f with
      | some x => obtain ⟨id, idx, we⟩ := x; exact ⟨rfl, rfl⟩
      | none =>
        have h := newBlockF_nil_ok a.cfg.dual res
        simp only [h.2, Bool.true_eq_false, if_false]
        exact ⟨h.1, trivial⟩

/-- a block the scan did not choose keeps everything but its search caches -/
theorem tryAlloc_none_core (b b' : Block) (n : Nat) (h : b.tryAlloc n = (b', none)) : core b' = core b := by
  unfold Block.tryAlloc at h
  repeat' split at h
  all_goals (first | (cases h; done) | (cases h; rfl))

theorem scanPass_none_core (sel : Block → Bool) (n : Nat) : ∀ (bs : List Block), (scanPass sel n bs).2 = none →
    (scanPass sel n bs).1.map core = bs.map core
  | [], _ => by simp [scanPass]
  | b :: bs, h => by
    unfold scanPass at h ⊢
    split
    · rename_i hs
      simp only [hs, if_true] at h
      rcases ht : b.tryAlloc n with ⟨b', oi⟩
      rw [ht] at h
      cases oi with
      | some idx => simp at h
      | none =>
        simp only at h ⊢
        rw [List.map_cons, List.map_cons, tryAlloc_none_core b b' n ht, scanPass_none_core sel n bs h]
    · rename_i hs
      simp only [hs] at h
      simp only [Bool.false_eq_true, if_false] at h ⊢
      rw [List.map_cons, List.map_cons, scanPass_none_core sel n bs h]

/-- `jit_alloc_fail_atomic`: when `JitAllocator::alloc` answers kOutOfMemory because the new block could not be obtained (any of
its requests, plain or dual mapping): no mapping / descriptor / record is left, no block was inserted, every block keeps its
bit vectors, its accounting and its flags (only search caches may have been refreshed), pools, allocation count and block ids
are untouched, and a failure was consumed -/
theorem scan2_none_core (a : Alloc) (size : Nat) (h : (scan2 a size).2 = none) : (scan2 a size).1.map core = a.blocks.map core := by
  unfold scan2 at h ⊢
  simp only at h ⊢
  split
  · rename_i h1
    rw [if_pos h1] at h
    simp [h] at h1
  · rename_i h1
    rw [if_neg h1] at h
    have h1' : (scanPass (fun b => b.pool == sizeToPoolId a.cfg size && decide ((a.pool (sizeToPoolId a.cfg size)).cursor.getD 0 ≤ b.id))
        ((size + a.cfg.poolGran (sizeToPoolId a.cfg size) - 1) / a.cfg.poolGran (sizeToPoolId a.cfg size)) a.blocks).2 = none := by
      simpa using h1
    rw [scanPass_none_core _ _ _ h, scanPass_none_core _ _ _ h1']

theorem allocF_fail_atomic (o o' : Oracle) (a a' : Alloc) (res res' : Res) (reqSize : Nat)
    (h : allocF o a res reqSize = (o', a', res', .error JitAlloc.Err.OutOfMemory)) :
    res' = res ∧ a'.blocks.map core = a.blocks.map core ∧ a'.pools = a.pools ∧ a'.allocCount = a.allocCount ∧
    a'.nextId = a.nextId ∧ a'.cfg = a.cfg ∧ faults o' < faults o := by
  unfold allocF at h
  simp only at h
  split at h
  · cases h
  · split at h
    · cases h
    · unfold allocInF at h
      simp only at h
      have hc := scan2_none_core a (alignUp reqSize a.cfg.gran)
      rcases hs : scan2 a (alignUp reqSize a.cfg.gran) with ⟨blocks, f⟩
      rw [hs] at h hc
      cases f with
      | some x =>
        obtain ⟨id, idx, we⟩ := x
        unfold Alloc.allocFound at h
        simp at h
      | none =>
        simp only at h hc
        have hb := newBlockF_spec a.cfg.dual o res
        split at h
        · rename_i hf
          have := hb.1 hf
          simp at h
          obtain ⟨rfl, rfl, rfl⟩ := h
          exact ⟨this.1, hc trivial, rfl, rfl, rfl, rfl, this.2⟩
        · unfold Alloc.allocNew at h
          simp at h

end AsmjitVerif.FaultJit
