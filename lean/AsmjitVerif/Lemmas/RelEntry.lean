/- byte-level exactness of one relocation entry applied to a state that satisfies the ownership invariant (any format
   proved in C17, any value offset inside the region; 1/2/4-byte values). -/
import AsmjitVerif.Lemmas.RelStep
namespace AsmjitVerif.CodeHolder
open AsmjitVerif.Offset

theorem encode32_vo (f : OffsetFormat) (off : BitVec 64) :
    encodeOffset32 f off = encodeOffset32 { f with valueOffset := 0 } off := by
  cases f; rfl

theorem decode32_vo (f : OffsetFormat) (w : BitVec 32) : decode32 f w = decode32 { f with valueOffset := 0 } w := by
  cases f; rfl

theorem fieldMask32_vo (f : OffsetFormat) : fieldMask32 f = fieldMask32 { f with valueOffset := 0 } := by
  cases f; rfl

/-- `write_offset` with any format whose zero-offset form is proved exact (C17): a zero field afterwards decodes to exactly
the value written -/
theorem write_exact32_vo (f : OffsetFormat) (hf : ({ f with valueOffset := 0 } : OffsetFormat) ∈ formatsProved) (h8 : f.valueSize ≠ 8)
    (buf buf' : Bytes) (pos : Nat) (off : BitVec 64) (old : Nat)
    (hw : writeOffset buf pos off f = some buf')
    (hold : loadLE buf (pos + f.valueOffset) f.valueSize = some old)
    (hzero : BitVec.ofNat 32 old &&& fieldMask32 f = 0#32) :
    ∃ new, loadLE buf' (pos + f.valueOffset) f.valueSize = some new ∧ decode32 f (BitVec.ofNat 32 new) = off := by
  obtain ⟨_, _, old', m, hold', hm, hnew⟩ := Offset.writeOffset_frame buf buf' pos off f hw
  rw [hold] at hold'; cases hold'
  simp only [h8, if_false] at hm
  cases he : encodeOffset32 f off with
  | none => simp [he] at hm
  | some mv =>
    simp only [he, Option.map_some, Option.some.injEq] at hm
    have he0 : encodeOffset32 { f with valueOffset := 0 } off = some mv := by rw [← encode32_vo]; exact he
    have hfit := mask_fits_value_size _ hf h8 off mv he0
    have hmm : m = mv.toNat := by rw [← hm]; exact Nat.mod_eq_of_lt hfit
    have hex := formatsProved_exact _ hf
    unfold CodecExact at hex
    have h8' : ({ f with valueOffset := 0 } : OffsetFormat).valueSize ≠ 8 := h8
    simp only [h8', if_false] at hex
    have := (hex.1 off mv he0 (BitVec.ofNat 32 old) (by rw [← fieldMask32_vo]; exact hzero)).1
    refine ⟨old ||| m, hnew, ?_⟩
    have e : BitVec.ofNat 32 (old ||| m) = BitVec.ofNat 32 old ||| mv := by
      rw [hmm]; apply BitVec.eq_of_toNat_eq; simp [BitVec.toNat_or]
    rw [e, decode32_vo]; exact this

/-- the value a non-table relocation entry must hold after `relocate_to_base(base)` in layout `secs` -/
def relocValue (s : State) (base : BitVec 64) (secs : List Section) (re : Reloc) : Option (BitVec 64) :=
  let site := base + secOffset secs re.srcSec + BitVec.ofNat 64 re.srcOff + BitVec.ofNat 64 re.regionSize
  match re.type with
  | .absToAbs => some re.payload
  | .relToAbs => (re.tgtSec.bind (fun t => secs[t]?)).map (fun tgt => re.payload + (base + tgt.offset))
  | .absToRel =>
    let v := re.payload - site
    if s.arch.regSize ≤ 4 then some ((v.truncate 32).signExtend 64) else if isInt32 v then some v else none
  | .x64AddressEntry => let v := re.payload - site; if isInt32 v then some v else none
  | .expression =>
    match s.exprs[re.payload.toNat]? with
    | some e => match evalExpr { s with secs := secs } e with | .ok v => some v | .error _ => none
    | none => none
  | _ => none

/-- **one entry, byte level.** In a state that satisfies the ownership invariant, applying `relocate_to_base`'s loop body to an entry
whose value is 1/2/4 bytes wide and that does not go through the address table: if it succeeds, the value word decodes
(Spec/Offset.lean) to exactly `relocValue` - base + target section offset + payload for RelToAbs, payload − end of instruction
for AbsToRel / X64AddressEntry (range tested in 64-bit mode, wrapped in 32-bit mode), the expression's value. -/
theorem reloc_entry_exact (s : State) (hr : RInv s) (base : BitVec 64) (re : Reloc) (hre : re ∈ s.relocs) (h8 : re.fmt.valueSize ≠ 8)
    (v : BitVec 64) (hv : relocValue s base s.secs re = some v)
    (acc' : RelocAcc) (hok : relocStep s base { secs := s.secs, addrTab := s.addrTab, nSlots := 0 } re = .ok acc') :
    ∃ new, field acc'.secs re.rgn.val = some new ∧ decode32 re.fmt (BitVec.ofNat 32 new) = v := by
  have hmem : re.rgn ∈ s.relocs.map Reloc.rgn := List.mem_map_of_mem hre
  obtain ⟨src, hsrc, hb1, hb2, hpos, hfmt, _⟩ := hr.inb _ hmem
  obtain ⟨old, hold, hz⟩ := hr.zero _ hmem
  have h8' : re.rgn.fmt.valueSize ≠ 8 := h8
  rw [if_neg h8'] at hz
  replace hsrc : s.secs[re.srcSec]? = some src := hsrc
  have hold' : loadLE src.buf (re.srcOff + re.fmt.valueOffset) re.fmt.valueSize = some old := by
    unfold field at hold
    have : s.secs[re.rgn.val.sec]? = some src := hsrc
    rw [this] at hold; exact hold
  -- the step computes exactly `relocValue` and writes it
  have key : ∀ x, relocFinish { secs := s.secs, addrTab := s.addrTab, nSlots := 0 } re x = .ok acc' →
      ∃ new, field acc'.secs re.rgn.val = some new ∧ decode32 re.fmt (BitVec.ofNat 32 new) = x := by
    intro x hx
    unfold relocFinish at hx
    dsimp only at hx
    rw [hsrc] at hx
    simp only [Option.bind_some] at hx
    cases hw : writeOffset src.buf re.srcOff x re.fmt with
    | none => rw [hw] at hx; cases hx
    | some buf' =>
      rw [hw] at hx
      cases hx
      obtain ⟨new, hn, hd⟩ := write_exact32_vo re.fmt hfmt h8 src.buf buf' re.srcOff x old hw hold' hz
      refine ⟨new, ?_, hd⟩
      unfold field setBuf
      show ((modifySec s.secs re.srcSec _)[re.srcSec]?).bind _ = _
      rw [modifySec_get_same _ _ _ _ hsrc]
      exact hn
  have hbnd : ¬ (re.srcOff ≥ src.buf.length ∨ src.buf.length - re.srcOff < re.regionSize) := by
    have h1 : re.srcOff + re.regionSize ≤ src.buf.length := hb1
    have h2 : re.fmt.valueOffset + re.fmt.valueSize ≤ re.regionSize := hb2
    have h3 : 0 < re.fmt.valueSize := hpos
    omega
  unfold relocStep at hok
  unfold relocValue at hv
  have hso : secOffset s.secs re.srcSec = src.offset := by unfold secOffset; rw [hsrc]
  rw [hso] at hv
  cases hty : re.type <;> rw [hty] at hv <;> simp only [] at hv <;> simp only [hty, hsrc] at hok
  all_goals first
    | (cases hv; done)
    | skip
  all_goals (unfold relocPrep at hok; simp only [hty, hbnd, if_false] at hok)
  · -- expression
    cases he : s.exprs[re.payload.toNat]? with
    | none => rw [he] at hv; cases hv
    | some e =>
      rw [he] at hv
      dsimp only at hv
      cases hev : evalExpr { s with secs := s.secs } e with
      | error er => rw [hev] at hv; cases hv
      | ok x =>
        rw [hev] at hv; cases hv
        simp only [he, hev] at hok
        exact key _ hok
  · -- absToAbs
    cases hv
    exact key _ hok
  · -- relToAbs
    cases ht : re.tgtSec.bind (fun t => s.secs[t]?) with
    | none => rw [ht] at hv; cases hv
    | some tgt =>
      rw [ht] at hv; cases hv
      simp only [ht] at hok
      exact key _ hok
  · -- absToRel
    try dsimp only at hv hok
    by_cases h4 : s.arch.regSize ≤ 4
    · simp only [h4, if_true] at hv hok
      cases hv
      exact key _ hok
    · simp only [h4, if_false] at hv hok
      by_cases hi : isInt32 (re.payload - (base + src.offset + BitVec.ofNat 64 re.srcOff + BitVec.ofNat 64 re.regionSize)) = true
      · simp only [hi, if_true, Bool.not_true, Bool.false_eq_true, if_false] at hv hok
        cases hv
        exact key _ hok
      · simp only [hi, if_false] at hv
        cases hv
  · -- x64AddressEntry, direct form
    try dsimp only at hv hok
    by_cases hi : isInt32 (re.payload - (base + src.offset + BitVec.ofNat 64 re.srcOff + BitVec.ofNat 64 re.regionSize)) = true
    · simp only [hi, if_true] at hv
      cases hv
      by_cases hc4 : re.fmt.valueSize ≠ 4 ∨ re.srcOff + re.fmt.valueOffset < 2
      · simp only [hc4, if_true] at hok
        cases hok
      · simp only [hc4, if_false, hi, if_true] at hok
        exact key _ hok
    · simp only [hi] at hv
      cases hv

end AsmjitVerif.CodeHolder
