/-
C18 — ArenaTree (insert/get half), part 1: heap primitives (`nd`/`upd` characterisations, `Rep` frame lemma),
`Sorted` toolkit, `get_spec` (A) and `height_bound` (C).
Core-only.
-/
import AsmjitVerif.Spec.C18Tree
namespace AsmjitVerif.Tree.Ins
open AsmjitVerif.Tree AsmjitVerif.Tree.Spec

/-! ### heap primitives -/

theorem nd_upd_other (h : Tree) (n m : Nat) (f : TNode → TNode) (hne : m ≠ n) : nd (upd h n f) m = nd h m := by
  unfold upd nd
  split
  · rfl
  · simp only [Array.getD_eq_getD_getElem?, Array.getElem?_modify]
    rw [if_neg (fun e => hne e.symm)]

theorem nd_upd_same (h : Tree) (n : Nat) (f : TNode → TNode) (h0 : n ≠ 0) (hlt : n < h.nodes.size) :
    nd (upd h n f) n = f (nd h n) := by
  unfold upd nd
  rw [if_neg h0]
  simp only [Array.getD_eq_getD_getElem?, Array.getElem?_modify, if_true]
  rw [Array.getElem?_eq_getElem hlt]
  rfl

theorem size_upd (h : Tree) (n : Nat) (f : TNode → TNode) : (upd h n f).nodes.size = h.nodes.size := by
  unfold upd
  split
  · rfl
  · simp only [Array.size_modify]

theorem root_upd (h : Tree) (n : Nat) (f : TNode → TNode) : (upd h n f).root = h.root := by
  unfold upd
  split <;> rfl

/-- pointwise description of a heap: all cells, the size and the root -/
structure SameOut (S : List Nat) (h h' : Tree) : Prop where
  cells : ∀ i, i ∉ S → nd h' i = nd h i
  size : h'.nodes.size = h.nodes.size

theorem SameOut.refl (S : List Nat) (h : Tree) : SameOut S h h := ⟨fun _ _ => rfl, rfl⟩

theorem SameOut.trans {S h1 h2 h3} (a : SameOut S h1 h2) (b : SameOut S h2 h3) : SameOut S h1 h3 :=
  ⟨fun i hi => (b.cells i hi).trans (a.cells i hi), b.size.trans a.size⟩

theorem SameOut.mono {S S' h1 h2} (a : SameOut S h1 h2) (hs : ∀ i, i ∈ S → i ∈ S') : SameOut S' h1 h2 :=
  ⟨fun i hi => a.cells i (fun hm => hi (hs i hm)), a.size⟩

theorem SameOut.upd (S : List Nat) (h : Tree) (n : Nat) (f) (hn : n ∈ S) : SameOut S h (upd h n f) :=
  ⟨fun i hi => nd_upd_other h n i f (fun e => hi (e ▸ hn)), size_upd h n f⟩

/-! ### `Rep` basics -/

theorem Rep_idx_ge {h n t} (r : Rep h n t) : ∀ i ∈ t.idxs, 2 ≤ i ∧ i < h.nodes.size := by
  induction r with
  | nil => intro i hi; cases hi
  | node h2 hlt _ _ _ _ ihl ihr =>
    intro i hi
    simp only [T.idxs, List.mem_append, List.mem_cons] at hi
    rcases hi with hi | hi | hi
    · exact ihl i hi
    · subst hi; exact ⟨h2, hlt⟩
    · exact ihr i hi

theorem Rep_rootIdx {h n t} (r : Rep h n t) : t.rootIdx = n := by
  cases r <;> rfl

theorem Rep_nil_iff {h n t} (r : Rep h n t) : n = 0 ↔ t = .nil := by
  cases r with
  | nil => simp
  | node h2 => constructor
               · intro e; omega
               · intro e; cases e

/-- frame lemma: `Rep` only reads the cells of the tree -/
theorem Rep_frame {h h' n t} (r : Rep h n t) (hc : ∀ i ∈ t.idxs, nd h' i = nd h i)
    (hs : h.nodes.size ≤ h'.nodes.size) : Rep h' n t := by
  induction r with
  | nil => exact .nil
  | @node n k c L R h2 hlt hk hcol _ _ ihl ihr =>
    have hn : nd h' n = nd h n := hc n (by simp [T.idxs])
    refine .node h2 (by omega) (by rw [hn]; exact hk) (by rw [hn]; exact hcol) ?_ ?_
    · rw [hn]; exact ihl (fun i hi => hc i (by simp [T.idxs, hi]))
    · rw [hn]; exact ihr (fun i hi => hc i (by simp [T.idxs, hi]))

theorem Rep_sameOut {S h h' n t} (r : Rep h n t) (so : SameOut S h h') (hd : ∀ i ∈ t.idxs, i ∉ S) : Rep h' n t :=
  Rep_frame r (fun i hi => so.cells i (hd i hi)) (by rw [so.size]; exact Nat.le_refl _)

/-! ### sorted lists -/

theorem Sorted.tail {a : Nat} {l : List Nat} (h : Sorted (a :: l)) : Sorted l := by
  cases l with
  | nil => trivial
  | cons b r => exact h.2

theorem sorted_cons {a : Nat} {l : List Nat} : Sorted (a :: l) ↔ (∀ x ∈ l, a < x) ∧ Sorted l := by
  induction l generalizing a with
  | nil => simp [Sorted]
  | cons b r ih =>
    simp only [Sorted, List.mem_cons, forall_eq_or_imp]
    constructor
    · rintro ⟨hab, hs⟩
      refine ⟨⟨hab, ?_⟩, hs⟩
      intro x hx
      exact Nat.lt_trans hab ((ih.1 hs).1 x hx)
    · rintro ⟨⟨hab, _⟩, hs⟩
      exact ⟨hab, hs⟩

theorem sorted_append {l r : List Nat} :
    Sorted (l ++ r) ↔ Sorted l ∧ Sorted r ∧ ∀ x ∈ l, ∀ y ∈ r, x < y := by
  induction l with
  | nil => simp [Sorted]
  | cons a l ih =>
    simp only [List.cons_append, sorted_cons, ih, List.mem_append, List.mem_cons, forall_eq_or_imp]
    constructor
    · rintro ⟨h1, h2, h3, h4⟩
      exact ⟨⟨fun x hx => h1 x (Or.inl hx), h2⟩, h3, fun y hy => h1 y (Or.inr hy), h4⟩
    · rintro ⟨⟨h1, h2⟩, h3, h4, h5⟩
      exact ⟨fun x hx => hx.elim (h1 x) (h4 x), h2, h3, h5⟩

/-- the shape used everywhere: `l ++ k :: r` -/
theorem sorted_mid {l r : List Nat} {k : Nat} :
    Sorted (l ++ k :: r) ↔ Sorted l ∧ Sorted r ∧ (∀ x ∈ l, x < k) ∧ (∀ y ∈ r, k < y) ∧ ∀ x ∈ l, ∀ y ∈ r, x < y := by
  rw [sorted_append, sorted_cons]
  simp only [List.mem_cons, forall_eq_or_imp]
  constructor
  · rintro ⟨h1, ⟨h2, h3⟩, h4⟩
    exact ⟨h1, h3, fun x hx => (h4 x hx).1, h2, fun x hx => (h4 x hx).2⟩
  · rintro ⟨h1, h2, h3, h4, h5⟩
    exact ⟨h1, ⟨h4, h2⟩, fun x hx => ⟨h3 x hx, h5 x hx⟩⟩

theorem setInsert_mid {l r : List Nat} {k : Nat} (hs : Sorted (l ++ k :: r)) :
    setInsert k (l ++ r) = l ++ k :: r := by
  induction l with
  | nil =>
    cases r with
    | nil => rfl
    | cons b r =>
      have : k < b := hs.1
      simp [setInsert, this]
  | cons a l ih =>
    have h1 := sorted_cons.1 hs
    have hak : a < k := h1.1 k (by simp)
    simp only [List.cons_append, setInsert]
    rw [if_neg (by omega), if_neg (by omega), ih h1.2]

theorem setInsert_mem {s : List Nat} {k : Nat} (hs : Sorted s) (hk : k ∈ s) : setInsert k s = s := by
  induction s with
  | nil => cases hk
  | cons a l ih =>
    have h1 := sorted_cons.1 hs
    simp only [setInsert]
    by_cases hka : k = a
    · subst hka; simp
    · have hkl : k ∈ l := by
        cases hk with
        | head => exact absurd rfl hka
        | tail _ h => exact h
      have : a < k := h1.1 k hkl
      rw [if_neg (by omega), if_neg hka, ih h1.2 hkl]

theorem setErase_not_mem {s : List Nat} {k : Nat} (hk : k ∉ s) : setErase k s = s := by
  unfold setErase
  rw [List.filter_eq_self]
  intro a ha
  simp only [bne_iff_ne, ne_eq]
  intro e; subst e; exact hk ha

theorem setInsert_length (k : Nat) (s : List Nat) : (setInsert k s).length ≤ s.length + 1 := by
  induction s with
  | nil => simp [setInsert]
  | cons a l ih =>
    simp only [setInsert]
    split
    · simp
    · split
      · simp
      · simp only [List.length_cons]; omega

theorem setErase_length (k : Nat) (s : List Nat) : (setErase k s).length ≤ s.length := by
  unfold setErase; exact List.length_filter_le _ _

theorem keys_length (t : T) : t.keys.length = t.size := by
  induction t with
  | nil => rfl
  | node i k c l r ihl ihr => simp only [T.keys, T.size, List.length_append, List.length_cons, ihl, ihr]; omega

/-! ### A. `get` -/

theorem getLoop_spec {h : Tree} {k : Nat} : ∀ (fuel : Nat) {n : Nat} {t : T}, Rep h n t → t.BST → t.height < fuel →
    ((getLoop fuel h n k ≠ 0 ↔ k ∈ t.keys) ∧
     (getLoop fuel h n k ≠ 0 → key h (getLoop fuel h n k) = k ∧ getLoop fuel h n k ∈ t.idxs)) := by
  intro fuel
  induction fuel with
  | zero => intro n t _ _ hh; omega
  | succ fuel ih =>
    intro n t r hb hh
    cases r with
    | nil => simp [getLoop, T.keys]
    | @node _ k0 c L R h2 hlt hk hc rl rr =>
      have hn0 : n ≠ 0 := by omega
      unfold T.BST at hb
      simp only [T.keys] at hb
      obtain ⟨hsl, hsr, hlk, hkr, _⟩ := sorted_mid.1 hb
      simp only [T.height] at hh
      simp only [getLoop, if_neg hn0, key, hk, T.keys, T.idxs, List.mem_append, List.mem_cons]
      by_cases hkk : k0 = k
      · subst hkk
        simp [hn0, hk]
      · rw [if_neg hkk]
        by_cases hlt' : k0 < k
        · have hch : child h n (decide (k0 < k)) = (nd h n).r := by simp [child, hlt']
          rw [hch]
          obtain ⟨i1, i2⟩ := ih rr hsr (by omega)
          refine ⟨?_, ?_⟩
          · rw [i1]
            constructor
            · intro hm; exact Or.inr (Or.inr hm)
            · rintro (hm | hm | hm)
              · have := hlk k hm; omega
              · exact absurd hm.symm hkk
              · exact hm
          · intro hne
            exact ⟨(i2 hne).1, Or.inr (Or.inr (i2 hne).2)⟩
        · have hch : child h n (decide (k0 < k)) = (nd h n).l := by simp [child, hlt']
          rw [hch]
          obtain ⟨i1, i2⟩ := ih rl hsl (by omega)
          refine ⟨?_, ?_⟩
          · rw [i1]
            constructor
            · intro hm; exact Or.inl hm
            · rintro (hm | hm | hm)
              · exact hm
              · exact absurd hm.symm hkk
              · have := hkr k hm; omega
          · intro hne
            exact ⟨(i2 hne).1, Or.inl (i2 hne).2⟩

/-- A. `get` finds exactly the keys of the represented tree, and returns the node that carries the key. -/
theorem get_spec {h : Tree} {t : T} (k : Nat) (hr : Represents h t) (hb : t.BST) (hh : t.height < kFuel) :
    (get h k ≠ 0 ↔ k ∈ t.keys) ∧ (get h k ≠ 0 → key h (get h k) = k ∧ get h k ∈ t.idxs) :=
  getLoop_spec kFuel hr.1 hb hh

/-! ### C. height bound -/

theorem height_le_blackH {t : T} {n : Nat} (hb : t.blackH n) (hr : t.noRedRed) :
    t.height ≤ 2 * n + (if t.isRed then 1 else 0) := by
  induction hb with
  | nil => simp [T.height]
  | @red i k l r n hl hrr ihl ihr =>
    simp only [T.noRedRed] at hr
    obtain ⟨hc, hnl, hnr⟩ := hr
    obtain ⟨cl, cr⟩ := hc trivial
    have h1 := ihl hnl
    have h2 := ihr hnr
    rw [cl] at h1; rw [cr] at h2
    simp only [T.height, T.isRed]
    simp only [Bool.false_eq_true, if_false, if_true] at *
    omega
  | @black i k l r n hl hrr ihl ihr =>
    simp only [T.noRedRed] at hr
    obtain ⟨_, hnl, hnr⟩ := hr
    have h1 := ihl hnl
    have h2 := ihr hnr
    have e1 : (if l.isRed = true then 1 else 0) ≤ 1 := by split <;> omega
    have e2 : (if r.isRed = true then 1 else 0) ≤ 1 := by split <;> omega
    simp only [T.height, T.isRed]
    simp only [Bool.false_eq_true, if_false]
    omega

theorem size_ge_blackH {t : T} {n : Nat} (hb : t.blackH n) : 2 ^ n ≤ t.size + 1 := by
  induction hb with
  | nil => simp [T.size]
  | red hl hrr ihl ihr => simp only [T.size]; omega
  | black hl hrr ihl ihr => simp only [T.size, Nat.pow_succ]; omega

/-- C. a red-black tree of black height `n` has height ≤ 2n and at least 2^n − 1 nodes -/
theorem height_bound {t : T} (hrb : t.RB) : ∃ n, t.blackH n ∧ t.height ≤ 2 * n ∧ 2 ^ n ≤ t.size + 1 := by
  obtain ⟨hroot, hnrr, n, hb⟩ := hrb
  refine ⟨n, hb, ?_, size_ge_blackH hb⟩
  have := height_le_blackH hb hnrr
  simp only [hroot] at this
  simpa using this

theorem blackH_le_64 {t : T} {n : Nat} (hb : t.blackH n) (hs : t.size < 2 ^ 64) : n ≤ 64 := by
  have h1 := size_ge_blackH hb
  have h2 : 2 ^ n ≤ 2 ^ 64 := by omega
  exact (Nat.pow_le_pow_iff_right (by decide)).1 h2

/-- C'. with fewer than 2^64 nodes the height is at most 128 (so `kFuel = 256` never runs out) -/
theorem height_le_128 {t : T} (hrb : t.RB) (hs : t.size < 2 ^ 64) : t.height ≤ 128 := by
  obtain ⟨n, hb, hh, _⟩ := height_bound hrb
  have := blackH_le_64 hb hs
  omega

/-! ### non-vacuity -/

/-- `height_bound` applies to a concrete red-black tree (black root 5 with red left child 3) -/
example : ∃ n, (T.node 2 5 false (.node 3 3 true .nil .nil) .nil).blackH n ∧
    (T.node 2 5 false (.node 3 3 true .nil .nil) .nil).height ≤ 2 * n ∧
    2 ^ n ≤ (T.node 2 5 false (.node 3 3 true .nil .nil) .nil).size + 1 :=
  height_bound ⟨rfl, ⟨(fun e => nomatch e), ⟨(fun _ => ⟨rfl, rfl⟩), trivial, trivial⟩, trivial⟩,
    1, .black (.red .nil .nil) .nil⟩

/-- a concrete heap built with `newNode`/`insertNode` -/
def ins (h : Tree) (k : Nat) : Tree := let (h1, n) := newNode h k; insertNode h1 n
def demo : Tree := ins (ins (ins (ins (ins {} 5) 3) 8) 1) 4

example : get demo 4 ≠ 0 ∧ key demo (get demo 4) = 4 ∧ get demo 7 = 0 := by decide
example : inorder 10 demo demo.root = [1, 3, 4, 5, 8] := by decide

end AsmjitVerif.Tree.Ins
