/- C20 helper lemmas: the digit loop of String::_op_number and the positional readers of Spec/FormatText.lean. -/
import AsmjitVerif.Model.Format
import AsmjitVerif.Spec.FormatText

namespace AsmjitVerif.Lemmas.FormatNum
open AsmjitVerif.Format AsmjitVerif.FormatText

theorem decVal_digit : ∀ d : Fin 10, decVal? (digitChar d.val) = some d.val := by decide
theorem hexVal_digit : ∀ d : Fin 16, hexVal? (digitChar d.val) = some d.val := by decide
theorem digit_ne_dot : ∀ d : Fin 16, digitChar d.val ≠ '.' := by decide

/-- the accumulator of the digit loop is only ever prepended to -/
theorem digitsLoop_acc (base : Nat) : ∀ (fuel i : Nat) (acc : Str),
    digitsLoop base fuel i acc = digitsLoop base fuel i [] ++ acc := by
  intro fuel
  induction fuel with
  | zero => intro i acc; simp [digitsLoop]
  | succ f ih =>
    intro i acc
    simp only [digitsLoop]
    by_cases h : i / base = 0
    · simp [h]
    · simp only [h, if_false]
      rw [ih (i / base) (digitChar (i % base) :: acc), ih (i / base) [digitChar (i % base)]]
      simp

theorem digitsLoop_ne_nil (base f i : Nat) : digitsLoop base (f + 1) i [] ≠ [] := by
  simp only [digitsLoop]
  by_cases h : i / base = 0
  · simp [h]
  · simp only [h, if_false]
    rw [digitsLoop_acc]
    simp

/-- one reading step of `parseBase` -/
def rstep (base : Nat) (dig : Char → Option Nat) (acc : Option Nat) (c : Char) : Option Nat :=
  match acc, dig c with
  | some a, some d => if d < base then some (a * base + d) else none
  | _, _ => none

theorem parseBase_eq_foldl (base : Nat) (dig : Char → Option Nat) (s : Str) (h : s ≠ []) :
    parseBase base dig s = s.foldl (rstep base dig) (some 0) := by
  cases s with
  | nil => exact absurd rfl h
  | cons c cs => rfl

theorem parseBase_snoc (base : Nat) (dig : Char → Option Nat) (s : Str) (c : Char) (h : s ≠ []) :
    parseBase base dig (s ++ [c]) = rstep base dig (parseBase base dig s) c := by
  rw [parseBase_eq_foldl _ _ _ (by simp), parseBase_eq_foldl _ _ _ h, List.foldl_append]
  rfl

theorem parse_single (base : Nat) (dig : Char → Option Nat) (c : Char) :
    parseBase base dig [c] = rstep base dig (some 0) c := rfl

/-- the digit loop followed by the positional reader is the identity, for any base whose digits the reader knows -/
theorem parse_digitsLoop (base : Nat) (dig : Char → Option Nat) (hb : 2 ≤ base)
    (hd : ∀ d, d < base → dig (digitChar d) = some d) :
    ∀ (fuel i : Nat), i < base ^ (fuel + 1) → parseBase base dig (digitsLoop base (fuel + 1) i []) = some i := by
  have hpos : 0 < base := by omega
  have small : ∀ i, i / base = 0 → parseBase base dig [digitChar (i % base)] = some i := by
    intro i h
    have hi : i < base := by
      rcases Nat.lt_or_ge i base with h1 | h1
      · exact h1
      · have := Nat.div_pos h1 hpos; omega
    rw [parse_single, Nat.mod_eq_of_lt hi]
    simp [rstep, hd i hi, hi]
  intro fuel
  induction fuel with
  | zero =>
    intro i _
    simp only [digitsLoop]
    by_cases h : i / base = 0
    · simp only [h, if_true]; exact small i h
    · -- no fuel left: the loop stops after one digit; cannot happen for i < base
      rename_i hlt
      simp at hlt
      have : i / base = 0 := Nat.div_eq_of_lt hlt
      exact absurd this h
  | succ f ih =>
    intro i hlt
    rw [digitsLoop]
    by_cases h : i / base = 0
    · simp only [h, if_true]; exact small i h
    · simp only [h, if_false]
      rw [digitsLoop_acc, parseBase_snoc _ _ _ _ (digitsLoop_ne_nil base f (i / base))]
      have hq : i / base < base ^ (f + 1) := by
        apply Nat.div_lt_of_lt_mul
        rw [Nat.pow_succ] at hlt
        rw [Nat.mul_comm]; exact hlt
      rw [ih (i / base) hq]
      have hm : i % base < base := Nat.mod_lt _ hpos
      simp only [rstep, hd (i % base) hm, hm, if_true]
      congr 1
      rw [Nat.mul_comm]; exact Nat.div_add_mod i base

theorem parseDec_uintStr (n : Nat) (h : n < two64) : parseDec (uintStr n 10) = some n := by
  unfold parseDec uintStr
  apply parse_digitsLoop 10 decVal? (by omega) (fun d hd => decVal_digit ⟨d, hd⟩) 63 n
  have : two64 ≤ 10 ^ 64 := by decide
  omega

theorem parseHex_uintStr (n : Nat) (h : n < two64) : parseHex (uintStr n 16) = some n := by
  unfold parseHex uintStr
  apply parse_digitsLoop 16 hexVal? (by omega) (fun d hd => hexVal_digit ⟨d, hd⟩) 63 n
  have : two64 ≤ 16 ^ 64 := by decide
  omega

/-- every character the digit loop writes is one of the base's digit characters -/
theorem digitsLoop_chars (base : Nat) (P : Char → Prop) (hpos : 0 < base) (hP : ∀ d, d < base → P (digitChar d)) :
    ∀ (fuel i : Nat), ∀ c ∈ digitsLoop base fuel i [], P c := by
  intro fuel
  induction fuel with
  | zero => intro i c h; simp [digitsLoop] at h
  | succ f ih =>
    intro i c h
    rw [digitsLoop] at h
    by_cases hq : i / base = 0
    · simp only [hq, if_true, List.mem_singleton] at h
      subst h; exact hP _ (Nat.mod_lt _ hpos)
    · simp only [hq, if_false] at h
      rw [digitsLoop_acc] at h
      rcases List.mem_append.mp h with h | h
      · exact ih _ c h
      · simp only [List.mem_singleton] at h
        subst h; exact hP _ (Nat.mod_lt _ hpos)

theorem dec_digit_plain : ∀ d : Fin 10, digitChar d.val ≠ 'x' ∧ digitChar d.val ≠ '-' := by decide

theorem uintStr_dec_plain (n : Nat) : ∀ c ∈ uintStr n 10, c ≠ 'x' ∧ c ≠ '-' :=
  digitsLoop_chars 10 (fun c => c ≠ 'x' ∧ c ≠ '-') (by omega) (fun d hd => dec_digit_plain ⟨d, hd⟩) 64 n

theorem parseMagnitude_dec (n : Nat) (h : n < two64) : parseMagnitude (uintStr n 10) = some n := by
  have hp := uintStr_dec_plain n
  unfold parseMagnitude
  split
  · rename_i rest heq
    have := (hp 'x' (by rw [heq]; simp)).1
    exact absurd rfl this
  · exact parseDec_uintStr n h

theorem parseMagnitude_hex (n : Nat) (h : n < two64) : parseMagnitude ('0' :: 'x' :: uintStr n 16) = some n := by
  unfold parseMagnitude
  exact parseHex_uintStr n h

theorem parseNumber64_intStr (u : Nat) (h : u < two64) : parseNumber64 (intStr u) = some u := by
  have hmod : u % two64 = u := Nat.mod_eq_of_lt h
  unfold intStr
  rw [hmod]
  by_cases hneg : u ≥ two63
  · simp only [hneg, if_true]
    have hm : two64 - u < two64 := by unfold two64 at *; unfold two63 at hneg; omega
    simp only [parseNumber64, parseMagnitude_dec _ hm, Option.bind]
    have h1 : two64 - u ≤ two63 := by unfold two64 two63 at *; omega
    have h2 : two64 - u ≠ 0 := by omega
    simp only [h1, h2, ne_eq, not_false_eq_true, and_self, if_true]
    congr 1; omega
  · simp only [hneg, if_false]
    have hp := uintStr_dec_plain u
    unfold parseNumber64
    split
    · rename_i rest heq
      exact absurd rfl (hp '-' (by rw [heq]; simp)).2
    · simp [parseMagnitude_dec u h, h]


/-- a number token: `0x…` when the hex switch applies, else signed decimal -/
def numTok (hex : Bool) (u : Nat) : Str := if hex = true ∧ u > 9 then ['0', 'x'] ++ uintStr u 16 else intStr u

theorem parseNumber64_numTok (hex : Bool) (u : Nat) (h : u < two64) : parseNumber64 (numTok hex u) = some u := by
  unfold numTok
  split
  · show parseNumber64 ('0' :: 'x' :: uintStr u 16) = some u
    unfold parseNumber64
    split
    · rename_i heq; simp at heq
    · simp [parseMagnitude_hex u h, h]
  · exact parseNumber64_intStr u h

end AsmjitVerif.Lemmas.FormatNum
