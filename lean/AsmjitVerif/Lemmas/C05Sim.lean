/- C05: one step of the simulation between the virtual-register program and the allocated program,
   for a certificate every entry of which passes `checkEntry`. -/
import AsmjitVerif.Lemmas.C05

namespace AsmjitVerif.RAIR

variable {Val : Type}

/-- the simulation relation: equal memory tokens, and the pair of program points is certified with a relation
    that holds of the two register files (`d` = stutter measure of that certificate entry) -/
def RelSt (cert : Cert) (sP sQ : State Val) (d : Nat) : Prop :=
  sP.mem = sQ.mem ∧ ∃ es e, cert[sQ.pc]? = some es ∧ e ∈ es ∧ e.p = sP.pc ∧ e.d = d ∧ Holds e.E sP.regs sQ.regs

/-- every entry of the certificate passes the local check -/
def CertOK (vsz : Loc → Nat) (pre post : Prog) (cert : Cert) : Prop :=
  ∀ q es e, cert[q]? = some es → e ∈ es → checkEntry vsz pre post cert q e = true

theorem okSucc_sound {cert : Cert} {p q : Nat} {E : Rel} {dlim : Option Nat} (h : okSucc cert p q E dlim = true)
    {rP rQ : Loc → Val} (hE : Holds E rP rQ) :
    ∃ es e, cert[q]? = some es ∧ e ∈ es ∧ e.p = p ∧ Holds e.E rP rQ ∧ (∀ d, dlim = some d → e.d < d) := by
  unfold okSucc at h
  split at h
  · exact absurd h (by decide)
  · next es hes =>
    rw [List.any_eq_true] at h
    obtain ⟨e, he, hc⟩ := h
    simp only [Bool.and_eq_true, beq_iff_eq] at hc
    refine ⟨es, e, hes, he, hc.1.1, hE.sub hc.1.2, ?_⟩
    intro d hd
    subst hd
    simpa using hc.2

/-- successor after a step both sides took -/
theorem rel_of_okSucc {cert : Cert} {p q : Nat} {E : Rel} (h : okSucc cert p q E none = true)
    {sP sQ : State Val} (hp : sP.pc = p) (hq : sQ.pc = q) (hm : sP.mem = sQ.mem) (hE : Holds E sP.regs sQ.regs) :
    ∃ d, RelSt cert sP sQ d := by
  obtain ⟨es, e, hes, he, hep, hh, _⟩ := okSucc_sound h hE
  exact ⟨e.d, hm, es, e, by rw [hq]; exact hes, he, by rw [hp]; exact hep, rfl, hh⟩

/-- successor after a step only one side took -/
theorem rel_of_okSucc_lt {cert : Cert} {p q d : Nat} {E : Rel} (h : okSucc cert p q E (some d) = true)
    {sP sQ : State Val} (hp : sP.pc = p) (hq : sQ.pc = q) (hm : sP.mem = sQ.mem) (hE : Holds E sP.regs sQ.regs) :
    ∃ d', d' < d ∧ RelSt cert sP sQ d' := by
  obtain ⟨es, e, hes, he, hep, hh, hd⟩ := okSucc_sound h hE
  exact ⟨e.d, hd d rfl, hm, es, e, by rw [hq]; exact hes, he, by rw [hp]; exact hep, rfl, hh⟩

/-- what one certified pair of states can do next -/
inductive SimStep (I : Interp Val) (pre post : Prog) (cert : Cert) (sP sQ : State Val) (d : Nat) : Prop where
  | twinNext (sP' sQ' : State Val) (ev : Option (Event Val)) (d' : Nat) :
      step I pre sP = .next sP' ev → step I post sQ = .next sQ' ev → RelSt cert sP' sQ' d' → SimStep I pre post cert sP sQ d
  | twinDone (vals : List Val) (m : Val) :
      step I pre sP = .done vals m → step I post sQ = .done vals m → SimStep I pre post cert sP sQ d
  | twinStuck : step I pre sP = .stuck → step I post sQ = .stuck → SimStep I pre post cert sP sQ d
  | postOnly (sQ' : State Val) (d' : Nat) :
      step I post sQ = .next sQ' none → d' < d → RelSt cert sP sQ' d' → SimStep I pre post cert sP sQ d
  | preOnly (sP' : State Val) (d' : Nat) :
      step I pre sP = .next sP' none → d' < d → RelSt cert sP' sQ d' → SimStep I pre post cert sP sQ d

theorem jtab_targets {cert : Cert} {E : Rel} : ∀ {tsP tsQ : List Nat} (i : Nat),
    (tsP.zip tsQ).all (fun x => okSucc cert x.1 x.2 E none) = true → tsP.length = tsQ.length →
    (tsP[i]? = none ∧ tsQ[i]? = none) ∨ ∃ a b, tsP[i]? = some a ∧ tsQ[i]? = some b ∧ okSucc cert a b E none = true
  | [], [], _, _, _ => Or.inl ⟨rfl, rfl⟩
  | [], _ :: _, _, _, hl => by simp at hl
  | _ :: _, [], _, _, hl => by simp at hl
  | a :: as, b :: bs, 0, h, _ => by
    simp only [List.zip_cons_cons, List.all_cons, Bool.and_eq_true] at h
    exact Or.inr ⟨a, b, rfl, rfl, h.1⟩
  | a :: as, b :: bs, i + 1, h, hl => by
    simp only [List.zip_cons_cons, List.all_cons, Bool.and_eq_true] at h
    simp only [List.length_cons, Nat.add_right_cancel_iff] at hl
    simpa using jtab_targets i h.2 hl

theorem sim_twin (I : Interp Val) {pre post : Prog} {cert : Cert} {sP sQ : State Val} {e : Entry} {iP iQ : Inst}
    (hP : pre[sP.pc]? = some iP) (hQ : post[sQ.pc]? = some iQ) (hm : sP.mem = sQ.mem)
    (hE : Holds e.E sP.regs sQ.regs) (h : checkTwin cert sP.pc sQ.pc e.E iP iQ = true) :
    SimStep I pre post cert sP sQ e.d := by
  cases iP <;> cases iQ <;> simp only [checkTwin, Bool.and_eq_true, beq_iff_eq] at h <;> try exact absurd h (by decide)
  · -- op / op
    rename_i kP rP wP cP mP eP kQ rQ wQ cQ mQ eQ
    obtain ⟨⟨⟨⟨⟨⟨⟨hk, hmm⟩, hev⟩, hr⟩, _⟩, hnP⟩, hnQ⟩, hs⟩ := h
    subst hk hmm hev
    have hreads := readsOK_sound hE hr
    have hins : rQ.map sQ.regs ++ (if mP = true then [sQ.mem] else []) = rP.map sP.regs ++ (if mP = true then [sP.mem] else []) := by
      rw [hreads, hm]
    have hH := twinE_sound hE wQ cQ wP cP (I.eval kP (rP.map sP.regs ++ (if mP = true then [sP.mem] else [])))
      (I.junk kP (rP.map sP.regs ++ (if mP = true then [sP.mem] else [])))
      (I.junk kP (rP.map sP.regs ++ (if mP = true then [sP.mem] else []))) (nodupB_sound hnQ) (nodupB_sound hnP)
    obtain ⟨d', hrel⟩ := rel_of_okSucc (cert := cert) hs
      (sP := { pc := sP.pc + 1,
               regs := assign (assign sP.regs cP (I.junk kP (rP.map sP.regs ++ (if mP = true then [sP.mem] else []))))
                 wP (I.eval kP (rP.map sP.regs ++ (if mP = true then [sP.mem] else []))),
               mem := if mP = true then I.evalMem kP (rP.map sP.regs ++ (if mP = true then [sP.mem] else [])) else sP.mem })
      (sQ := { pc := sQ.pc + 1,
               regs := assign (assign sQ.regs cQ (I.junk kP (rP.map sP.regs ++ (if mP = true then [sP.mem] else []))))
                 wQ (I.eval kP (rP.map sP.regs ++ (if mP = true then [sP.mem] else []))),
               mem := if mP = true then I.evalMem kP (rP.map sP.regs ++ (if mP = true then [sP.mem] else [])) else sQ.mem })
      rfl rfl (by simp only [hm]) hH
    refine .twinNext _ _ (if eP = true then some ⟨kP, rP.map sP.regs ++ (if mP = true then [sP.mem] else [])⟩ else none) d' ?_ ?_ hrel
    · simp only [step, hP]
    · simp only [step, hQ, hins]
  · -- move / move
    rename_i dP sPl _ dQ sQl _
    obtain ⟨hc, hs⟩ := h
    have hH := twinMove_sound hE dQ sQl dP sPl (contains_pair hc)
    obtain ⟨d', hrel⟩ := rel_of_okSucc (cert := cert) hs
      (sP := { sP with pc := sP.pc + 1, regs := upd sP.regs dP (sP.regs sPl) })
      (sQ := { sQ with pc := sQ.pc + 1, regs := upd sQ.regs dQ (sQ.regs sQl) }) rfl rfl hm hH
    refine .twinNext _ _ none d' ?_ ?_ hrel
    · simp only [step, hP]
    · simp only [step, hQ]
  · -- jmp / jmp
    rename_i tP tQ
    obtain ⟨d', hrel⟩ := rel_of_okSucc (cert := cert) h (sP := { sP with pc := tP }) (sQ := { sQ with pc := tQ }) rfl rfl hm hE
    refine .twinNext _ _ none d' ?_ ?_ hrel
    · simp only [step, hP]
    · simp only [step, hQ]
  · -- jcc / jcc
    rename_i kP rP tP kQ rQ tQ
    obtain ⟨⟨⟨hk, hr⟩, ht⟩, hf⟩ := h
    subst hk
    have hreads := readsOK_sound hE hr
    by_cases hc : I.cond kP (rP.map sP.regs) = true
    · obtain ⟨d', hrel⟩ := rel_of_okSucc (cert := cert) ht (sP := { sP with pc := tP }) (sQ := { sQ with pc := tQ }) rfl rfl hm hE
      refine .twinNext _ _ none d' ?_ ?_ hrel
      · simp only [step, hP, hc, if_true]
      · simp only [step, hQ, hreads, hc, if_true]
    · obtain ⟨d', hrel⟩ := rel_of_okSucc (cert := cert) hf (sP := { sP with pc := sP.pc + 1 }) (sQ := { sQ with pc := sQ.pc + 1 })
        rfl rfl hm hE
      refine .twinNext _ _ none d' ?_ ?_ hrel
      · simp only [step, hP, hc]; rfl
      · simp only [step, hQ, hreads, hc]; rfl
  · -- jtab / jtab
    rename_i kP rP tsP kQ rQ tsQ
    obtain ⟨⟨⟨hk, hr⟩, hl⟩, hall⟩ := h
    subst hk
    have hreads := readsOK_sound hE hr
    rcases jtab_targets (I.sel kP (rP.map sP.regs)) hall hl with ⟨h1, h2⟩ | ⟨a, b, h1, h2, hs⟩
    · refine .twinStuck ?_ ?_
      · simp only [step, hP, h1]
      · simp only [step, hQ, hreads, h2]
    · obtain ⟨d', hrel⟩ := rel_of_okSucc (cert := cert) hs (sP := { sP with pc := a }) (sQ := { sQ with pc := b }) rfl rfl hm hE
      refine .twinNext _ _ none d' ?_ ?_ hrel
      · simp only [step, hP, h1]
      · simp only [step, hQ, hreads, h2]
  · -- ret / ret
    rename_i rP rQ
    have hreads := readsOK_sound hE h
    refine .twinDone (rP.map sP.regs) sP.mem ?_ ?_
    · simp only [step, hP]
    · simp only [step, hQ, hreads, hm]

theorem sim_postOnly (I : Interp Val) (vsz : Loc → Nat) {pre post : Prog} {cert : Cert} {sP sQ : State Val} {e : Entry}
    {iQ : Inst} (hQ : post[sQ.pc]? = some iQ) (hm : sP.mem = sQ.mem)
    (hE : Holds e.E sP.regs sQ.regs) (h : checkPostOnly vsz cert sP.pc sQ.pc e.d e.E iQ = true) :
    SimStep I pre post cert sP sQ e.d := by
  cases iQ
  case op key rs ws cs mem ev =>
    cases mem <;> cases ev <;> simp only [checkPostOnly] at h <;> try exact absurd h (by decide)
    have hH := killE_sound hE ws cs (I.eval key (rs.map sQ.regs ++ [])) (I.junk key (rs.map sQ.regs ++ []))
    obtain ⟨d', hlt, hrel⟩ := rel_of_okSucc_lt (cert := cert) h (sP := sP)
      (sQ := { pc := sQ.pc + 1,
               regs := assign (assign sQ.regs cs (I.junk key (rs.map sQ.regs ++ []))) ws (I.eval key (rs.map sQ.regs ++ [])),
               mem := sQ.mem }) rfl rfl hm hH
    refine .postOnly _ d' ?_ hlt hrel
    simp [step, hQ]
  case move dQ sQl sz =>
    simp only [checkPostOnly] at h
    have hH := moveE_sound vsz hE dQ sQl sz
    obtain ⟨d', hlt, hrel⟩ := rel_of_okSucc_lt (cert := cert) h (sP := sP)
      (sQ := { sQ with pc := sQ.pc + 1, regs := upd sQ.regs dQ (sQ.regs sQl) }) rfl rfl hm hH
    refine .postOnly _ d' ?_ hlt hrel
    simp only [step, hQ]
  case swap a b sz =>
    simp only [checkPostOnly] at h
    have hH := swapE_sound vsz hE a b sz
    obtain ⟨d', hlt, hrel⟩ := rel_of_okSucc_lt (cert := cert) h (sP := sP)
      (sQ := { sQ with pc := sQ.pc + 1, regs := upd (upd sQ.regs a (sQ.regs b)) b (sQ.regs a) }) rfl rfl hm hH
    refine .postOnly _ d' ?_ hlt hrel
    simp only [step, hQ]
  case jmp t =>
    simp only [checkPostOnly] at h
    obtain ⟨d', hlt, hrel⟩ := rel_of_okSucc_lt (cert := cert) h (sP := sP) (sQ := { sQ with pc := t }) rfl rfl hm hE
    refine .postOnly _ d' ?_ hlt hrel
    simp only [step, hQ]
  all_goals (simp only [checkPostOnly] at h; exact absurd h (by decide))

theorem sim_preOnly (I : Interp Val) {pre post : Prog} {cert : Cert} {sP sQ : State Val} {e : Entry}
    {iP : Inst} (hP : pre[sP.pc]? = some iP) (hm : sP.mem = sQ.mem)
    (hE : Holds e.E sP.regs sQ.regs) (h : checkPreOnly cert sP.pc sQ.pc e.d e.E iP = true) :
    SimStep I pre post cert sP sQ e.d := by
  cases iP
  case move dP sPl sz =>
    simp only [checkPreOnly] at h
    have hH := preMoveE_sound hE dP sPl
    obtain ⟨d', hlt, hrel⟩ := rel_of_okSucc_lt (cert := cert) h
      (sP := { sP with pc := sP.pc + 1, regs := upd sP.regs dP (sP.regs sPl) }) (sQ := sQ) rfl rfl hm hH
    refine .preOnly _ d' ?_ hlt hrel
    simp only [step, hP]
  all_goals (simp only [checkPreOnly] at h; exact absurd h (by decide))

/-- one step of the simulation -/
theorem sim_step (I : Interp Val) {vsz : Loc → Nat} {pre post : Prog} {cert : Cert} (hc : CertOK vsz pre post cert)
    {sP sQ : State Val} {d : Nat} (hr : RelSt cert sP sQ d) : SimStep I pre post cert sP sQ d := by
  obtain ⟨hm, es, e, hes, he, hp, hd, hE⟩ := hr
  subst hd
  have hck := hc _ _ _ hes he
  unfold checkEntry at hck
  rw [hp] at hck
  split at hck
  · next iP iQ hP hQ =>
    simp only [Bool.or_eq_true] at hck
    rcases hck with (h | h) | h
    · exact sim_twin I hP hQ hm hE h
    · exact sim_postOnly I vsz hQ hm hE h
    · exact sim_preOnly I hP hm hE h
  · exact absurd hck (by decide)

end AsmjitVerif.RAIR
