/-
C18 — ArenaTree::remove, part 10: list facts (strictly sorted lists, erase) and the decomposition of a plugged
context's in-order sequence.
-/
import AsmjitVerif.Lemmas.C18TreeRem9
namespace AsmjitVerif.Tree.Rem
open AsmjitVerif.Tree AsmjitVerif.Tree.Spec

theorem sorted_iff_pairwise (l : List Nat) : Sorted l ↔ l.Pairwise (· < ·) := by
  induction l with
  | nil => simp [Sorted]
  | cons a l ih =>
    cases l with
    | nil => simp [Sorted]
    | cons b l =>
      simp only [Sorted, ih, List.pairwise_cons]
      constructor
      · rintro ⟨hab, hb, hl⟩
        refine ⟨?_, hb, hl⟩
        intro x hx
        rcases List.mem_cons.mp hx with rfl | hx
        · exact hab
        · exact Nat.lt_trans hab (hb x hx)
      · rintro ⟨ha, hb, hl⟩
        exact ⟨ha b (by simp), hb, hl⟩

/-- erasing the key `k` from a strictly sorted list that contains it once, in the middle -/
theorem setErase_mid (A B : List Nat) (k : Nat) (hs : Sorted (A ++ k :: B)) :
    setErase k (A ++ k :: B) = A ++ B ∧ Sorted (A ++ B) := by
  rw [sorted_iff_pairwise] at hs ⊢
  have hs' := hs
  rw [List.pairwise_append] at hs
  obtain ⟨hA, hkB, hAB⟩ := hs
  rw [List.pairwise_cons] at hkB
  constructor
  · simp only [setErase, List.filter_append, List.filter_cons]
    have fA : A.filter (fun x => x != k) = A := by
      apply List.filter_eq_self.mpr
      intro x hx; have := hAB x hx k (by simp); simp; omega
    have fB : B.filter (fun x => x != k) = B := by
      apply List.filter_eq_self.mpr
      intro x hx; have := hkB.1 x hx; simp; omega
    simp [fA, fB]
  · exact hs'.sublist (by simp)

theorem plug_io_split (ctx : List Frame) : ∃ L R, ∀ s, (plug ctx s).io = L ++ s.io ++ R := by
  induction ctx with
  | nil => exact ⟨[], [], fun s => by simp [plug]⟩
  | cons F up ih =>
    obtain ⟨L, R, h⟩ := ih
    cases hd : F.d
    · refine ⟨L, (F.i, F.k) :: F.sib.io ++ R, fun s => ?_⟩
      simp only [plug, h, mkT_io, hd]; simp
    · refine ⟨L ++ F.sib.io ++ [(F.i, F.k)], R, fun s => ?_⟩
      simp only [plug, h, mkT_io, hd]; simp

/-- removing the bottom frame: the in-order sequence loses exactly that frame's (index, key) -/
theorem plug_unlink_io (F : Frame) (up : List Frame) : ∃ L R,
    (plug (F :: up) .nil).io = L ++ (F.i, F.k) :: R ∧ (plug up F.sib).io = L ++ R := by
  obtain ⟨L, R, h⟩ := plug_io_split up
  cases hd : F.d
  · refine ⟨L, F.sib.io ++ R, ?_, ?_⟩
    · simp only [plug, h, mkT_io, hd, T.io]; simp
    · rw [h]; simp
  · refine ⟨L ++ F.sib.io, R, ?_, ?_⟩
    · simp only [plug, h, mkT_io, hd, T.io]; simp
    · rw [h]

end AsmjitVerif.Tree.Rem
