/- C15 helper lemmas, part 5: the component invariant (capacities cover sizes, no unchecked append without room) is
preserved by every operation under every oracle. -/
import AsmjitVerif.Lemmas.FaultRetry
import AsmjitVerif.Lemmas.C18Str2
namespace AsmjitVerif.Fault
open AsmjitVerif
set_option maxHeartbeats 1600000

/-- capacities cover the sizes and no unchecked append ever ran without room -/
def InvV (s : St) : Prop :=
  s.corrupt = false ∧ s.v.sections.length ≤ s.c.secCap ∧ s.v.byOrder.length ≤ s.c.ordCap ∧
  s.v.labels.length ≤ s.c.labCap ∧ s.v.relocs.length ≤ s.c.relCap ∧ s.v.vec.length ≤ s.c.vecCap ∧
  s.v.str.length ≤ s.c.strCap

/-- every section buffer has a capacity record that covers its size -/
def InvB (s : St) : Prop :=
  s.c.bufCap.length = s.v.sections.length ∧
  ∀ i : Nat, ((s.v.sections[i]?).map Section.size).getD 0 ≤ (s.c.bufCap[i]?).getD 0

/-- sizes stay below `B` (the growth rules are exact only far below 2^64) -/
def Bnd (s : St) (B : Nat) : Prop :=
  s.v.sections.length ≤ B ∧ s.v.byOrder.length ≤ B ∧ s.v.labels.length ≤ B ∧ s.v.relocs.length ≤ B ∧
  s.v.vec.length ≤ B ∧ s.v.str.length ≤ B

theorem reserve_room (o o1 : Oracle) (size cap n item c : Nat)
    (h : reserveAdd o size cap n item = (o1, c, true)) (hi : 0 < item) (hn : 0 < n) (hsc : size ≤ cap)
    (hb : (size + n) * item + Vector.kGrowThreshold < Arena.u64) : size + n ≤ c := by
  rcases reserveAdd_cases o size cap n item with ⟨h1, hlt⟩ | ⟨o2, _, h1, _⟩ | ⟨o2, _, h1, _⟩
  · rw [h1] at h; cases h; omega
  · rw [h1] at h; cases h
  · rw [h1] at h; cases h; exact growCap_ge size n item hi hn hb

theorem reserve_roomG (o o1 : Oracle) (size cap n item c : Nat)
    (h : reserveAdd o size cap n item = (o1, c, true)) (hi : 0 < item) (hi16 : item ≤ 16) (hn : 0 < n) (hsc : size ≤ cap)
    (hb : size + n ≤ 2 ^ 41) : size + n ≤ c := by
  apply reserve_room _ _ _ _ _ _ _ h hi hn hsc
  have : (size + n) * item ≤ 2 ^ 41 * 16 := Nat.mul_le_mul hb hi16
  unfold Vector.kGrowThreshold Arena.u64; omega

theorem growLoop_ge : ∀ (fuel cap req : Nat), 32 < cap → req ≤ fuel + (cap - 32) → req ≤ growLoop fuel cap req - 32
  | 0, cap, req, hc, h => by simp [growLoop]; omega
  | fuel + 1, cap, req, hc, h => by
    unfold growLoop
    simp only
    split
    · apply growLoop_ge fuel _ req
      · omega
      · have : 1 ≤ min cap (16 * 1024 * 1024) := by omega
        omega
    · omega

theorem growBufferCap_ge (size cap n : Nat) : size + n ≤ growBufferCap size cap n := by
  unfold growBufferCap
  simp only
  apply growLoop_ge
  · split <;> omega
  · split <;> omega

theorem ensureSpace_ok_room (o o1 : Oracle) (size cap n c : Nat) (h : ensureSpace o size cap n = (o1, c, true)) (hsc : size ≤ cap) :
    size + n ≤ c := by
  unfold ensureSpace at h
  repeat' split at h
  all_goals (first | (cases h; done) | (cases h; exact growBufferCap_ge _ _ _) | (cases h; omega))

theorem ensureSpace_fail_cap (o o1 : Oracle) (size cap n c : Nat) (h : ensureSpace o size cap n = (o1, c, false)) : c = cap := by
  unfold ensureSpace at h
  repeat' split at h
  all_goals (cases h; try rfl)

theorem strReserve_ok_room (o o1 : Oracle) (size cap n c : Nat) (h : strReserve o size cap n = (o1, c, true))
    (hb : size + n + 1 ≤ 2 ^ 41) : size + n ≤ c := by
  unfold strReserve at h
  repeat' split at h
  all_goals (first | (cases h; done) | (cases h; omega) | skip)
  cases h
  have := Str.growCapacity_ge (n + 1) (size + n + 1) (by unfold Str.kMaxAllocSize Str.kGrowThreshold Arena.u64; omega)
  omega

attribute [grind →] reserve_roomG strReserve_ok_room

set_option maxRecDepth 100000 in
/-- the rehash touches only the hash-table growth state -/
theorem hashInsert_caps (o : Oracle) (c : Caps) (n : Nat) :
    (hashInsert o c n).2.secCap = c.secCap ∧ (hashInsert o c n).2.ordCap = c.ordCap ∧ (hashInsert o c n).2.labCap = c.labCap ∧
    (hashInsert o c n).2.relCap = c.relCap ∧ (hashInsert o c n).2.vecCap = c.vecCap ∧ (hashInsert o c n).2.strCap = c.strCap ∧
    (hashInsert o c n).2.bufCap = c.bufCap ∧ (hashInsert o c n).2.pool = c.pool := by
  unfold hashInsert
  rcases req o with ⟨b, o1⟩
  cases b <;> (dsimp only; repeat' split) <;> simp

/-- weight of an operation: how much it can add to any size -/
def Op.weight : Op → Nat
  | .vreserve n => n + 1
  | .sappend n _ => n + 1
  | _ => 1

theorem newLabel_inv (o o' : Oracle) (s s' : St) (e : Err) (B : Nat) (hI : InvV s) (hB : Bnd s B) (hs : B + 1 ≤ 2 ^ 40)
    (h : newLabel o s = (o', s', e)) : InvV s' ∧ Bnd s' (B + 1) := by
  unfold InvV Bnd at *
  unfold newLabel at h
  repeat' split at h
  all_goals (cases h; (try simp); grind)

theorem newSection_invV (o o' : Oracle) (s s' : St) (nm : List Nat) (al : Nat) (ord : Int) (e : Err) (B : Nat)
    (hI : InvV s) (hB : Bnd s B) (hs : B + 1 ≤ 2 ^ 40)
    (h : newSection o s nm al ord = (o', s', e)) : InvV s' ∧ Bnd s' (B + 1) := by
  unfold InvV Bnd at *
  unfold newSection at h
  repeat' split at h
  all_goals (cases h; (try simp [commitSection]); grind)

theorem newNamed_invV (o o' : Oracle) (s s' : St) (nm : List Nat) (t p : Nat) (e : Err) (B : Nat)
    (hI : InvV s) (hB : Bnd s B) (hs : B + 1 ≤ 2 ^ 40)
    (h : newNamed o s nm t p = (o', s', e)) : InvV s' ∧ Bnd s' (B + 1) := by
  unfold InvV Bnd at *
  unfold newNamed at h
  repeat' split at h
  all_goals (cases h; (try simp [hashInsert_caps]); grind)

theorem newReloc_invV (o o' : Oracle) (s s' : St) (t : Nat) (e : Err) (B : Nat)
    (hI : InvV s) (hB : Bnd s B) (hs : B + 1 ≤ 2 ^ 40)
    (h : newReloc o s t = (o', s', e)) : InvV s' ∧ Bnd s' (B + 1) := by
  unfold InvV Bnd at *
  unfold newReloc at h
  repeat' split at h
  all_goals (cases h; (try simp); grind)

theorem newFixup_invV (o o' : Oracle) (s s' : St) (e : Err) (B : Nat)
    (hI : InvV s) (hB : Bnd s B) (h : newFixup o s = (o', s', e)) : InvV s' ∧ Bnd s' (B + 1) := by
  unfold InvV Bnd at *
  unfold newFixup at h
  repeat' split at h
  all_goals (cases h; (try simp); grind)

theorem freeFixup_invV (o o' : Oracle) (s s' : St) (e : Err) (B : Nat)
    (hI : InvV s) (hB : Bnd s B) (h : freeFixup o s = (o', s', e)) : InvV s' ∧ Bnd s' (B + 1) := by
  unfold InvV Bnd at *
  unfold freeFixup at h
  repeat' split at h
  all_goals (cases h; (try simp); grind)

theorem vappend_invV (o o' : Oracle) (s s' : St) (x : Nat) (e : Err) (B : Nat)
    (hI : InvV s) (hB : Bnd s B) (hs : B + 1 ≤ 2 ^ 40)
    (h : vappend o s x = (o', s', e)) : InvV s' ∧ Bnd s' (B + 1) := by
  unfold InvV Bnd at *
  unfold vappend at h
  repeat' split at h
  all_goals (cases h; (try simp); grind)

theorem vreserve_invV (o o' : Oracle) (s s' : St) (n : Nat) (e : Err) (B : Nat)
    (hI : InvV s) (hB : Bnd s B) (hs : B + (n + 1) ≤ 2 ^ 40)
    (h : vreserve o s n = (o', s', e)) : InvV s' ∧ Bnd s' (B + (n + 1)) := by
  unfold InvV Bnd at *
  unfold vreserve at h
  by_cases hn : n = 0
  · subst hn
    unfold reserveAdd at h
    simp at h
    cases h; grind
  · repeat' split at h
    all_goals (cases h; (try simp); grind)

theorem sappend_invV (o o' : Oracle) (s s' : St) (n ch : Nat) (e : Err) (B : Nat)
    (hI : InvV s) (hB : Bnd s B) (hs : B + (n + 1) ≤ 2 ^ 40)
    (h : sappend o s n ch = (o', s', e)) : InvV s' ∧ Bnd s' (B + (n + 1)) := by
  unfold InvV Bnd at *
  unfold sappend at h
  repeat' split at h
  all_goals (cases h; (try simp); grind)

theorem invB_of_eq (s s' : St) (h1 : s'.v.sections = s.v.sections) (h2 : s'.c.bufCap = s.c.bufCap) (hI : InvB s) : InvB s' := by
  unfold InvB at *; rw [h1, h2]; exact hI

theorem invB_of_eq' {s s' : St} (hI : InvB s) (h1 : s'.v.sections = s.v.sections) (h2 : s'.c.bufCap = s.c.bufCap) : InvB s' :=
  invB_of_eq s s' h1 h2 hI

theorem invB_append (s : St) (secs : List Section) (caps : List Nat) (x : Section) (hx : x.data = [])
    (hI : caps.length = secs.length ∧ ∀ i : Nat, ((secs[i]?).map Section.size).getD 0 ≤ (caps[i]?).getD 0) :
    (caps ++ [0]).length = (secs ++ [x]).length ∧
    ∀ i : Nat, (((secs ++ [x])[i]?).map Section.size).getD 0 ≤ ((caps ++ [0])[i]?).getD 0 := by
  refine ⟨by simp [hI.1], fun i => ?_⟩
  have := hI.2 i
  by_cases hi : i < secs.length
  · rw [List.getElem?_append_left hi, List.getElem?_append_left (by omega)]; exact this
  · have h1 : (secs ++ [x])[i]?.map Section.size = if i = secs.length then some 0 else none := by
      rw [List.getElem?_append_right (by omega)]
      by_cases h2 : i = secs.length
      · simp [h2, Section.size, hx]
      · have : i - secs.length ≠ 0 := by omega
        simp [h2]; omega
    rw [h1]; split <;> simp

theorem invB_set (secs : List Section) (caps : List Nat) (k c : Nat) (sc sc' : Section)
    (hk : secs[k]? = some sc) (hc : sc'.size ≤ c)
    (hI : caps.length = secs.length ∧ ∀ i : Nat, ((secs[i]?).map Section.size).getD 0 ≤ (caps[i]?).getD 0) :
    (caps.set k c).length = (secs.set k sc').length ∧
    ∀ i : Nat, (((secs.set k sc')[i]?).map Section.size).getD 0 ≤ (((caps.set k c))[i]?).getD 0 := by
  have hlt : k < secs.length := by
    rcases Nat.lt_or_ge k secs.length with h | h
    · exact h
    · rw [List.getElem?_eq_none h] at hk; cases hk
  refine ⟨by simp [hI.1], fun i => ?_⟩
  have := hI.2 i
  by_cases hik : k = i
  · subst hik
    simp [List.getElem?_set, hlt, hI.1 ▸ hlt]; exact hc
  · simp [List.getElem?_set, hik]; exact this

theorem invB_modify (secs : List Section) (caps : List Nat) (k : Nat) (f : Section → Section) (hf : ∀ x, (f x).size = x.size)
    (hI : caps.length = secs.length ∧ ∀ i : Nat, ((secs[i]?).map Section.size).getD 0 ≤ (caps[i]?).getD 0) :
    caps.length = (secs.modify k f).length ∧
    ∀ i : Nat, (((secs.modify k f)[i]?).map Section.size).getD 0 ≤ (caps[i]?).getD 0 := by
  refine ⟨by simp [hI.1], fun i => ?_⟩
  have := hI.2 i
  rw [List.getElem?_modify]
  by_cases hik : k = i
  · subst hik
    cases hs : secs[k]? <;> simp [hs, hf] at this ⊢ <;> exact this
  · simpa [hik] using this

/-- the component invariant -/
def Inv (s : St) : Prop := InvV s ∧ InvB s

macro "invB_tac" h:ident hI:ident : tactic =>
  `(tactic| ((repeat' split at $h:ident) <;> (cases $h:ident; exact invB_of_eq' $hI:ident rfl rfl)))

theorem newLabel_invB (o o' : Oracle) (s s' : St) (e : Err) (hI : InvB s) (h : newLabel o s = (o', s', e)) : InvB s' := by
  unfold newLabel at h; invB_tac h hI
theorem newNamed_invB (o o' : Oracle) (s s' : St) (nm : List Nat) (t p : Nat) (e : Err) (hI : InvB s)
    (h : newNamed o s nm t p = (o', s', e)) : InvB s' := by
  unfold newNamed at h
  repeat' split at h
  all_goals (cases h; exact invB_of_eq' hI rfl (by simp [hashInsert_caps]))
theorem newReloc_invB (o o' : Oracle) (s s' : St) (t : Nat) (e : Err) (hI : InvB s) (h : newReloc o s t = (o', s', e)) : InvB s' := by
  unfold newReloc at h; invB_tac h hI
theorem newFixup_invB (o o' : Oracle) (s s' : St) (e : Err) (hI : InvB s) (h : newFixup o s = (o', s', e)) : InvB s' := by
  unfold newFixup at h; invB_tac h hI
theorem freeFixup_invB (o o' : Oracle) (s s' : St) (e : Err) (hI : InvB s) (h : freeFixup o s = (o', s', e)) : InvB s' := by
  unfold freeFixup at h; invB_tac h hI
theorem vappend_invB (o o' : Oracle) (s s' : St) (x : Nat) (e : Err) (hI : InvB s) (h : vappend o s x = (o', s', e)) : InvB s' := by
  unfold vappend at h; invB_tac h hI
theorem vreserve_invB (o o' : Oracle) (s s' : St) (x : Nat) (e : Err) (hI : InvB s) (h : vreserve o s x = (o', s', e)) : InvB s' := by
  unfold vreserve at h; invB_tac h hI
theorem sappend_invB (o o' : Oracle) (s s' : St) (a b : Nat) (e : Err) (hI : InvB s) (h : sappend o s a b = (o', s', e)) : InvB s' := by
  unfold sappend at h; invB_tac h hI

theorem newSection_invB (o o' : Oracle) (s s' : St) (nm : List Nat) (al : Nat) (ord : Int) (e : Err) (hI : InvB s)
    (h : newSection o s nm al ord = (o', s', e)) : InvB s' := by
  unfold newSection at h
  repeat' split at h
  all_goals (first | (cases h; exact invB_of_eq' hI rfl rfl) | skip)
  cases h
  unfold InvB at *
  simp only [commitSection]
  exact invB_append s _ _ _ rfl hI

theorem emit_inv (o o' : Oracle) (s s' : St) (sec n : Nat) (e : Err) (B : Nat) (hI : Inv s) (hB : Bnd s B)
    (h : emit o s sec n = (o', s', e)) : Inv s' ∧ Bnd s' (B + 1) := by
  unfold emit at h
  split at h
  · cases h; exact ⟨hI, by unfold Bnd at *; omega⟩
  · rename_i sc hsc
    have hroom : sc.size ≤ s.c.bufCap.getD sec 0 := by
      have := hI.2.2 sec
      simpa [hsc, List.getD_eq_getElem?_getD] using this
    split at h
    · cases h; exact ⟨hI, by unfold Bnd at *; omega⟩
    · rename_i o1 cap' hes
      have hr := ensureSpace_ok_room _ _ _ _ _ _ hes hroom
      cases h
      refine ⟨⟨?_, ?_⟩, ?_⟩
      · have hV := hI.1
        unfold InvV at *
        simp
        refine ⟨⟨hV.1, ?_⟩, hV.2⟩
        simp [Section.size] at hr ⊢; omega
      · unfold InvB
        exact invB_set _ _ _ _ sc _ hsc (by simp [Section.size] at hr ⊢; omega) hI.2
      · unfold Bnd at *; simp; omega
theorem invB_capset (secs : List Section) (caps : List Nat) (k c : Nat) (sc : Section)
    (hk : secs[k]? = some sc) (hc : sc.size ≤ c)
    (hI : caps.length = secs.length ∧ ∀ i : Nat, ((secs[i]?).map Section.size).getD 0 ≤ (caps[i]?).getD 0) :
    (caps.set k c).length = secs.length ∧
    ∀ i : Nat, ((secs[i]?).map Section.size).getD 0 ≤ (((caps.set k c))[i]?).getD 0 := by
  have hlt : k < secs.length := by
    rcases Nat.lt_or_ge k secs.length with h | h
    · exact h
    · rw [List.getElem?_eq_none h] at hk; cases hk
  refine ⟨by simp [hI.1], fun i => ?_⟩
  have := hI.2 i
  by_cases hik : k = i
  · subst hik
    simp [hk, hI.1 ▸ hlt]; exact hc
  · simp [List.getElem?_set, hik]; exact this

theorem newReloc_shape (o o' : Oracle) (s s' : St) (t : Nat) (e : Err) (h : newReloc o s t = (o', s', e)) :
    s'.c.bufCap = s.c.bufCap ∧ s'.v.sections = s.v.sections ∧
    (e ≠ .ok → s'.v = s.v) ∧ (e = .ok → s'.v = { s.v with relocs := s.v.relocs ++ [(t, false)] }) := by
  unfold newReloc at h
  repeat' split at h
  all_goals (cases h; simp)

theorem exprReloc_inv (o o' : Oracle) (s s' : St) (e : Err) (B : Nat) (hI : Inv s) (hB : Bnd s B) (hs : B + 1 ≤ 2 ^ 40)
    (h : exprReloc o s = (o', s', e)) : Inv s' ∧ Bnd s' (B + 1) := by
  have hB0 : Bnd s (B + 1) := by unfold Bnd at *; omega
  unfold exprReloc at h
  split at h
  · cases h; exact ⟨hI, hB0⟩
  · rename_i sc hsc
    have hroom : sc.size ≤ s.c.bufCap.getD 0 0 := by
      have := hI.2.2 0
      simpa [hsc, List.getD_eq_getElem?_getD] using this
    split at h
    · cases h; exact ⟨hI, hB0⟩
    · rename_i o1 cap1 hes
      have hr := ensureSpace_ok_room _ _ _ _ _ _ hes hroom
      dsimp only at h
      generalize hs1 : ({ s with c := { s.c with bufCap := s.c.bufCap.set 0 cap1 } } : St) = s1 at h
      have hI1 : Inv s1 := by
        subst hs1
        refine ⟨hI.1, ?_⟩
        unfold InvB
        exact invB_capset _ _ _ _ sc hsc (by omega) hI.2
      have hB1 : Bnd s1 B := by subst hs1; exact hB
      generalize hnr : newReloc o1 s1 1 = r at h
      obtain ⟨o2, s2, e2⟩ := r
      have hV2 := newReloc_invV _ _ _ _ _ _ _ hI1.1 hB1 hs hnr
      have hBB2 := newReloc_invB _ _ _ _ _ _ hI1.2 hnr
      have hsh := newReloc_shape _ _ _ _ _ _ hnr
      unfold exprTail at h
      simp only at h
      have hv1 : s1.v = s.v := by subst hs1; rfl
      have hc1 : s1.c.bufCap = s.c.bufCap.set 0 cap1 := by subst hs1; rfl
      split at h
      · cases h; exact ⟨⟨hV2.1, hBB2⟩, hV2.2⟩
      · rename_i hok
        have hok' : e2 = .ok := by simpa using hok
        have hv2 := hsh.2.2.2 hok'
        have hvv : s2.v = { s.v with relocs := s.v.relocs ++ [(1, false)] } := by rw [hv2, hv1]
        split at h
        · cases h
          refine ⟨⟨?_, ?_⟩, hB0⟩
          · have := hV2.1; unfold InvV at this ⊢; simp [hvv] at this ⊢; grind
          · unfold InvB
            simp only
            rw [hsh.1, hc1]
            exact invB_capset _ _ _ _ sc hsc (by omega) hI.2
        · cases h
          refine ⟨⟨?_, ?_⟩, ?_⟩
          · have := hV2.1; unfold InvV at this ⊢; simp [hvv] at this ⊢
            refine ⟨⟨this.1, ?_⟩, this.2⟩
            simp [Section.size] at hr ⊢; omega
          · unfold InvB
            simp only
            rw [hsh.1, hc1]
            exact invB_set _ _ _ _ sc _ hsc (by simp [Section.size] at hr ⊢; omega) hI.2
          · have := hV2.2; unfold Bnd at this ⊢; simp [hvv] at this ⊢; omega

theorem ensureAddrTab_inv (o : Oracle) (s : St) (B : Nat) (hI : Inv s) (hB : Bnd s B) (hs : B + 1 ≤ 2 ^ 40) :
    Inv (ensureAddrTab o s).2.1 ∧ Bnd (ensureAddrTab o s).2.1 (B + 1) := by
  unfold ensureAddrTab
  split
  · exact ⟨hI, by unfold Bnd at *; simp only; omega⟩
  · generalize hns : newSection o s _ 8 2147483647 = r
    obtain ⟨o1, s1, e⟩ := r
    have hV := newSection_invV _ _ _ _ _ _ _ _ _ hI.1 hB hs hns
    have hBB := newSection_invB _ _ _ _ _ _ _ _ hI.2 hns
    unfold ensureTail
    split
    · exact ⟨⟨by have := hV.1; unfold InvV at this ⊢; simpa using this, invB_of_eq' hBB rfl rfl⟩,
        by have := hV.2; unfold Bnd at this ⊢; simpa using this⟩
    · exact ⟨⟨hV.1, hBB⟩, hV.2⟩

theorem addAddr_inv (o o' : Oracle) (s s' : St) (a : Nat) (e : Err) (B : Nat) (hI : Inv s) (hB : Bnd s B) (hs : B + 1 ≤ 2 ^ 40)
    (h : addAddr o s a = (o', s', e)) : Inv s' ∧ Bnd s' (B + 1) := by
  unfold addAddr at h
  split at h
  · cases h; exact ⟨hI, by unfold Bnd at *; omega⟩
  · have hE := ensureAddrTab_inv o s B hI hB hs
    generalize ensureAddrTab o s = r at h hE
    obtain ⟨o1, s1, oid⟩ := r
    unfold addAddrTail at h
    simp only at h hE
    repeat' split at h
    all_goals (first | (cases h; exact hE) | skip)
    cases h
    refine ⟨⟨?_, ?_⟩, ?_⟩
    · have := hE.1.1; unfold InvV at this ⊢; simpa using this
    · have := hE.1.2; unfold InvB at this ⊢
      exact invB_modify _ _ _ _ (fun x => rfl) this
    · have := hE.2; unfold Bnd at this ⊢; simpa using this

theorem instBytes_le (k : Nat) : (instBytes k).length ≤ 5 := by
  unfold instBytes; split <;> simp

theorem inst_inv (o o' : Oracle) (s s' : St) (sec k : Nat) (e : Err) (B : Nat) (hI : Inv s) (hB : Bnd s B)
    (h : inst o s sec k = (o', s', e)) : Inv s' ∧ Bnd s' (B + 1) := by
  unfold inst at h
  split at h
  · cases h; exact ⟨hI, by unfold Bnd at *; omega⟩
  · rename_i sc hsc
    have hroom : sc.size ≤ s.c.bufCap.getD sec 0 := by
      have := hI.2.2 sec
      simpa [hsc, List.getD_eq_getElem?_getD] using this
    split at h
    · cases h; exact ⟨hI, by unfold Bnd at *; omega⟩
    · rename_i o1 cap' hes
      have hr := ensureSpace_ok_room _ _ _ _ _ _ hes hroom
      have hl := instBytes_le k
      cases h
      refine ⟨⟨?_, ?_⟩, ?_⟩
      · have hV := hI.1
        unfold InvV at *
        simp
        refine ⟨⟨hV.1, ?_⟩, hV.2⟩
        simp [Section.size] at hr ⊢; omega
      · unfold InvB
        exact invB_set _ _ _ _ sc _ hsc (by simp [Section.size] at hr ⊢; omega) hI.2
      · unfold Bnd at *; simp; omega

theorem jmpf_inv (o o' : Oracle) (s s' : St) (sec : Nat) (e : Err) (B : Nat) (hI : Inv s) (hB : Bnd s B)
    (h : jmpf o s sec = (o', s', e)) : Inv s' ∧ Bnd s' (B + 1) := by
  have hB0 : Bnd s (B + 1) := by unfold Bnd at *; omega
  unfold jmpf at h
  split at h
  · cases h; exact ⟨hI, hB0⟩
  · rename_i sc hsc
    have hroom : sc.size ≤ s.c.bufCap.getD sec 0 := by
      have := hI.2.2 sec
      simpa [hsc, List.getD_eq_getElem?_getD] using this
    split at h
    · cases h; exact ⟨hI, hB0⟩
    · rename_i o1 cap' hes
      have hr := ensureSpace_ok_room _ _ _ _ _ _ hes hroom
      have hcapset : InvB ({ s with c := { s.c with bufCap := s.c.bufCap.set sec cap' } } : St) := by
        unfold InvB
        exact invB_capset _ _ _ _ sc hsc (by omega) hI.2
      have hfin : ∀ (pool' : Nat),
          Inv ({ v := { s.v with sections := s.v.sections.set sec { sc with data := sc.data ++ [0xE9, 0, 0, 0, 0] },
                                 fixups := s.v.fixups + 1 },
                 c := { s.c with bufCap := s.c.bufCap.set sec cap', pool := pool' },
                 corrupt := s.corrupt || decide (sc.size + 5 > cap') } : St) ∧
          Bnd ({ v := { s.v with sections := s.v.sections.set sec { sc with data := sc.data ++ [0xE9, 0, 0, 0, 0] },
                                 fixups := s.v.fixups + 1 },
                 c := { s.c with bufCap := s.c.bufCap.set sec cap', pool := pool' },
                 corrupt := s.corrupt || decide (sc.size + 5 > cap') } : St) (B + 1) := by
        intro pool'
        refine ⟨⟨?_, ?_⟩, ?_⟩
        · have hV := hI.1
          unfold InvV at *
          simp
          refine ⟨⟨hV.1, ?_⟩, hV.2⟩
          omega
        · unfold InvB
          exact invB_set _ _ _ _ sc _ hsc (by simp [Section.size] at hr ⊢; omega) hI.2
        · unfold Bnd at *; simp; omega
      dsimp only at h
      repeat' split at h
      all_goals (first | (cases h; exact hfin _) | (cases h; exact ⟨⟨hI.1, hcapset⟩, hB0⟩) | skip)

theorem step_inv (op : Op) (o o' : Oracle) (s s' : St) (e : Err) (B : Nat) (hI : Inv s) (hB : Bnd s B)
    (hs : B + op.weight ≤ 2 ^ 40) (h : step op o s = (o', s', e)) : Inv s' ∧ Bnd s' (B + op.weight) := by
  cases op <;> simp only [step, Op.weight] at h hs ⊢
  case newSection n a r =>
    exact ⟨⟨(newSection_invV _ _ _ _ _ _ _ _ _ hI.1 hB hs h).1, newSection_invB _ _ _ _ _ _ _ _ hI.2 h⟩,
      (newSection_invV _ _ _ _ _ _ _ _ _ hI.1 hB hs h).2⟩
  case newLabel =>
    exact ⟨⟨(newLabel_inv _ _ _ _ _ _ hI.1 hB hs h).1, newLabel_invB _ _ _ _ _ hI.2 h⟩, (newLabel_inv _ _ _ _ _ _ hI.1 hB hs h).2⟩
  case newNamed n t p =>
    exact ⟨⟨(newNamed_invV _ _ _ _ _ _ _ _ _ hI.1 hB hs h).1, newNamed_invB _ _ _ _ _ _ _ _ hI.2 h⟩,
      (newNamed_invV _ _ _ _ _ _ _ _ _ hI.1 hB hs h).2⟩
  case newReloc t =>
    exact ⟨⟨(newReloc_invV _ _ _ _ _ _ _ hI.1 hB hs h).1, newReloc_invB _ _ _ _ _ _ hI.2 h⟩, (newReloc_invV _ _ _ _ _ _ _ hI.1 hB hs h).2⟩
  case exprReloc => exact exprReloc_inv _ _ _ _ _ _ hI hB hs h
  case newFixup =>
    exact ⟨⟨(newFixup_invV _ _ _ _ _ _ hI.1 hB h).1, newFixup_invB _ _ _ _ _ hI.2 h⟩, (newFixup_invV _ _ _ _ _ _ hI.1 hB h).2⟩
  case freeFixup =>
    exact ⟨⟨(freeFixup_invV _ _ _ _ _ _ hI.1 hB h).1, freeFixup_invB _ _ _ _ _ hI.2 h⟩, (freeFixup_invV _ _ _ _ _ _ hI.1 hB h).2⟩
  case addAddr a => exact addAddr_inv _ _ _ _ _ _ _ hI hB hs h
  case emit a b => exact emit_inv _ _ _ _ _ _ _ _ hI hB h
  case inst a b => exact inst_inv _ _ _ _ _ _ _ _ hI hB h
  case jmpf a => exact jmpf_inv _ _ _ _ _ _ _ hI hB h
  case vappend x =>
    exact ⟨⟨(vappend_invV _ _ _ _ _ _ _ hI.1 hB hs h).1, vappend_invB _ _ _ _ _ _ hI.2 h⟩, (vappend_invV _ _ _ _ _ _ _ hI.1 hB hs h).2⟩
  case vreserve n =>
    exact ⟨⟨(vreserve_invV _ _ _ _ _ _ _ hI.1 hB hs h).1, vreserve_invB _ _ _ _ _ _ hI.2 h⟩, (vreserve_invV _ _ _ _ _ _ _ hI.1 hB hs h).2⟩
  case sappend n c =>
    exact ⟨⟨(sappend_invV _ _ _ _ _ _ _ _ hI.1 hB hs h).1, sappend_invB _ _ _ _ _ _ _ hI.2 h⟩, (sappend_invV _ _ _ _ _ _ _ _ hI.1 hB hs h).2⟩

/-- total weight of a history -/
def totalWeight : List Op → Nat
  | [] => 0
  | op :: rest => op.weight + totalWeight rest

theorem run_inv : ∀ (ops : List Op) (o : Oracle) (s : St) (B : Nat), Inv s → Bnd s B → B + totalWeight ops ≤ 2 ^ 40 →
    Inv (run ops o s).1
  | [], _, _, _, hI, _, _ => by simpa [run] using hI
  | op :: rest, o, s, B, hI, hB, hs => by
    unfold run
    generalize hst : step op o s = r
    obtain ⟨o1, s1, e⟩ := r
    simp only [totalWeight] at hs
    have := step_inv op o o1 s s1 e B hI hB (by omega) hst
    simp only
    exact run_inv rest o1 s1 (B + op.weight) this.1 this.2 (by omega)

theorem totalWeight_append (a b : List Op) : totalWeight (a ++ b) = totalWeight a + totalWeight b := by
  induction a with
  | nil => simp [totalWeight]
  | cons x r ih => simp [totalWeight, ih]; omega

theorem init_inv : Inv St.init ∧ Bnd St.init 1 := by
  refine ⟨⟨?_, ?_⟩, ?_⟩
  · unfold InvV; decide
  · unfold InvB; refine ⟨by decide, fun i => ?_⟩
    match i with
    | 0 => decide
    | i + 1 => simp [St.init]
  · unfold Bnd; decide

end AsmjitVerif.Fault
