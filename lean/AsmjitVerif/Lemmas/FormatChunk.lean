/- C20 helper lemmas: one operand chunk of an x86 line — operand text, `{k}{z}`, `{1toN}` — read back. -/
import AsmjitVerif.Lemmas.FormatOps

namespace AsmjitVerif.Lemmas.FormatChunk
open AsmjitVerif.Format AsmjitVerif.FormatText AsmjitVerif.Lemmas.FormatLex AsmjitVerif.Lemmas.FormatNum
open AsmjitVerif.Lemmas.FormatX86Mem AsmjitVerif.Lemmas.FormatNames

/-- what is shown after the first operand -/
inductive KZ
  | none
  | k (K : Str)
  | kz (K : Str)
  | z

def kzText : KZ → Str
  | .none => []
  | .k K => " {".toList ++ K ++ ['}']
  | .kz K => " {".toList ++ K ++ ['}'] ++ "{z}".toList
  | .z => " {z}".toList

def kGroup (K : Str) : Piece := (some '{', K ++ ['}'])
def zGroup : Piece := (some '{', ['z', '}'])
def bGroup (b : Nat) : Piece := (some '{', "1to".toList ++ uintStr (1 <<< b) ++ ['}'])

def kzPieces : KZ → List Piece
  | .none => []
  | .k K => [kGroup K]
  | .kz K => [kGroup K, zGroup]
  | .z => [zGroup]

def bcText (b : Nat) : Str := if b ≠ 0 then " {1to".toList ++ uintStr (1 <<< b) ++ ['}'] else []

def sufPieces (kz : KZ) (b : Nat) : List Piece :=
  kzPieces kz ++ (if b ≠ 0 then (match kz with | .none => [] | _ => [(some ' ', [])]) ++ [bGroup b] else [])

/-- the suffix text is a blank followed by the glued groups -/
theorem suffix_text (kz : KZ) (b : Nat) :
    kzText kz ++ bcText b = match sufPieces kz b with | [] => [] | ps => ' ' :: flattenPieces ps := by
  unfold sufPieces bcText
  cases kz <;> by_cases hb : b = 0 <;> simp [kzText, kzPieces, kGroup, zGroup, bGroup, flattenPieces, hb]

theorem oneto_facts : ∀ b ∈ [1, 2, 3, 4, 5, 6],
    parseDec (uintStr (1 <<< b)) = some (1 <<< b) ∧
    ((1 <<< b = 2 ∨ 1 <<< b = 4 ∨ 1 <<< b = 8 ∨ 1 <<< b = 16 ∨ 1 <<< b = 32 ∨ 1 <<< b = 64) ∧ 1 <<< b ≠ 0) ∧
    (∀ c ∈ uintStr (1 <<< b), isSuffixDelim c = false ∧ notCloseBrace c = true) := by decide

/-- the mask register's text: a name the reader resolves, not mistakable for `z` or `1to…` -/
structure MaskOK (env : Env) (K : Str) (rk : PReg) : Prop where
  like : NameLike K
  reads : parseReg env K = some rk
  notz : K ≠ ['z']
  not1to : stripPrefix? ['1', 't', 'o'] K = none

theorem like_suffix_clean {K : Str} (h : NameLike K) : ∀ c ∈ K, isSuffixDelim c = false ∧ notCloseBrace c = true := by
  intro c hc
  obtain ⟨_, _, _, a4, _, _, _, _, a9, a10⟩ := h.clean c hc
  simp [isSuffixDelim, notCloseBrace, a4, a9, a10]

theorem drop_close (t : Str) (h : ∀ c ∈ t, notCloseBrace c = true) :
    (t ++ ['}']).dropWhile notCloseBrace = ['}'] ∧ (t ++ ['}']).takeWhile notCloseBrace = t := by
  have := takeWhile_append_stop notCloseBrace t ['}'] h (Or.inr ⟨'}', [], rfl, by decide⟩)
  exact ⟨this.2, this.1⟩

theorem step_k (env : Env) (o : POperand) (K : Str) (rk : PReg) (hk : MaskOK env K rk)
    (h1 : o.kmask = none) (h2 : o.zeroing = false) (h3 : o.bcast = 0) :
    suffixStep env o (kGroup K) = some { o with kmask := some rk } := by
  obtain ⟨hd, ht⟩ := drop_close K (fun c hc => (like_suffix_clean hk.like c hc).2)
  have hz : (K == ['z']) = false := by simpa using hk.notz
  unfold suffixStep kGroup
  simp [hd, ht, hz, hk.not1to, hk.reads, h1, h2, h3]

theorem step_z (env : Env) (o : POperand) (h2 : o.zeroing = false) (h3 : o.bcast = 0) :
    suffixStep env o zGroup = some { o with zeroing := true } := by
  have hd : List.dropWhile notCloseBrace ['z', '}'] = ['}'] := by decide
  have ht : List.takeWhile notCloseBrace ['z', '}'] = ['z'] := by decide
  unfold suffixStep zGroup
  simp [hd, ht, h2, h3]

theorem step_sp (env : Env) (o : POperand) : suffixStep env o (some ' ', []) = some o := by
  simp [suffixStep]

theorem step_b (env : Env) (o : POperand) (b : Nat) (hb : b ∈ [1, 2, 3, 4, 5, 6]) (h3 : o.bcast = 0) :
    suffixStep env o (bGroup b) = some { o with bcast := 1 <<< b } := by
  obtain ⟨hp, ⟨hset, hne⟩, hc⟩ := oneto_facts b hb
  have hcl : ∀ c ∈ "1to".toList ++ uintStr (1 <<< b), notCloseBrace c = true := by
    intro c hcm
    simp only [List.mem_append] at hcm
    rcases hcm with e | e
    · have : c = '1' ∨ c = 't' ∨ c = 'o' := by simpa using e
      rcases this with r | r | r <;> subst r <;> decide
    · exact (hc c e).2
  obtain ⟨hd, ht⟩ := drop_close _ hcl
  have hz : (("1to".toList ++ uintStr (1 <<< b)) == ['z']) = false := by
    have : "1to".toList = ['1', 't', 'o'] := by decide
    rw [this]; simp
  unfold suffixStep bGroup
  simp only [hd, ht, hz, stripPrefix_append, hp, h3]
  rcases hset with h | h | h | h | h | h <;> simp [h]

/-- the reader's result after all suffix groups -/
def kzMask : KZ → Option PReg → Option PReg
  | .k _, rk => rk
  | .kz _, rk => rk
  | _, _ => none
def kzZero : KZ → Bool
  | .kz _ => true
  | .z => true
  | _ => false

theorem suffix_fold (env : Env) (r : POp) (kz : KZ) (rk : PReg) (b : Nat) (hb : b = 0 ∨ b ∈ [1, 2, 3, 4, 5, 6])
    (hk : ∀ K, (kz = .k K ∨ kz = .kz K) → MaskOK env K rk) :
    (sufPieces kz b).foldlM (suffixStep env) { op := r } =
      some { op := r, kmask := kzMask kz (some rk), zeroing := kzZero kz, bcast := if b = 0 then 0 else 1 <<< b } := by
  unfold sufPieces
  rcases hb with h0 | hb
  · subst h0
    cases kz with
    | none => simp [kzPieces, kzMask, kzZero]
    | k K =>
      have := step_k env { op := r } K rk (hk K (Or.inl rfl)) rfl rfl rfl
      simp [kzPieces, kzMask, kzZero, this]
    | kz K =>
      have s1 := step_k env { op := r } K rk (hk K (Or.inr rfl)) rfl rfl rfl
      have s2 := step_z env { op := r, kmask := some rk } rfl rfl
      simp [kzPieces, kzMask, kzZero, s1, s2]
    | z =>
      have := step_z env { op := r } rfl rfl
      simp [kzPieces, kzMask, kzZero, this]
  · have hb0 : b ≠ 0 := by intro e; subst e; simp at hb
    cases kz with
    | none =>
      have := step_b env { op := r } b hb rfl
      simp [kzPieces, kzMask, kzZero, hb0, this]
    | k K =>
      have s1 := step_k env { op := r } K rk (hk K (Or.inl rfl)) rfl rfl rfl
      have s3 := step_b env { op := r, kmask := some rk } b hb rfl
      simp [kzPieces, kzMask, kzZero, hb0, s1, step_sp, s3]
    | kz K =>
      have s1 := step_k env { op := r } K rk (hk K (Or.inr rfl)) rfl rfl rfl
      have s2 := step_z env { op := r, kmask := some rk } rfl rfl
      have s3 := step_b env { op := r, kmask := some rk, zeroing := true } b hb rfl
      simp [kzPieces, kzMask, kzZero, hb0, s1, s2, step_sp, s3]
    | z =>
      have s2 := step_z env { op := r } rfl rfl
      have s3 := step_b env { op := r, zeroing := true } b hb rfl
      simp [kzPieces, kzMask, kzZero, hb0, s2, step_sp, s3]

theorem dropWhile_all (p : Char → Bool) : ∀ t : Str, (∀ c ∈ t, p c = true) → t.dropWhile p = []
  | [], _ => rfl
  | c :: t, h => by
    have hc := h c (List.mem_cons_self ..)
    simp [List.dropWhile, hc, dropWhile_all p t (fun x hx => h x (List.mem_cons_of_mem _ hx))]

/-- an operand text without suffix groups -/
theorem chunk_read_plain (env : Env) (T : Str) (r : POp) (hT : parseX86Op env T = some r) (hclean : ∀ c ∈ T, c ≠ '{') :
    readChunk env T = some { op := r } := by
  have h : T.dropWhile notOpenBrace = [] := dropWhile_all _ T (fun c hc => by simpa [notOpenBrace] using hclean c hc)
  simp [readChunk, h, hT]

/-- an operand text followed by a blank and suffix groups -/
theorem chunk_read_ps (env : Env) (T : Str) (r : POp) (hT : parseX86Op env T = some r) (hclean : ∀ c ∈ T, c ≠ '{')
    (t : Str) (ps : List Piece) (hok : TailOK isSuffixDelim ((some '{', t) :: ps)) (o : POperand)
    (hfold : ((some '{', t) :: ps).foldlM (suffixStep env) { op := r } = some o) :
    readChunk env (T ++ ' ' :: flattenPieces ((some '{', t) :: ps)) = some o := by
  have hflat : flattenPieces ((some '{', t) :: ps) = '{' :: (t ++ flattenPieces ps) := rfl
  have hT' : ∀ c ∈ T ++ [' '], notOpenBrace c = true := by
    intro c hc
    simp only [List.mem_append, List.mem_singleton] at hc
    rcases hc with e | e
    · simpa [notOpenBrace] using hclean c e
    · subst e; decide
  have hsplit := takeWhile_append_stop notOpenBrace (T ++ [' ']) ('{' :: (t ++ flattenPieces ps)) hT'
    (Or.inr ⟨'{', _, rfl, by decide⟩)
  have e : T ++ ' ' :: flattenPieces ((some '{', t) :: ps) = (T ++ [' ']) ++ ('{' :: (t ++ flattenPieces ps)) := by
    rw [hflat]; simp
  unfold readChunk
  rw [e, hsplit.2, hsplit.1]
  simp only [dropLast_concat, Option.bind_some, hT]
  rw [← hflat, lex_pieces _ _ (PiecesOK_of_tail _ _ hok)]
  exact hfold

theorem suf_tail_ok (kz : KZ) (b : Nat) (hb : b = 0 ∨ b ∈ [1, 2, 3, 4, 5, 6])
    (hk : ∀ K, (kz = .k K ∨ kz = .kz K) → NameLike K) : TailOK isSuffixDelim (sufPieces kz b) := by
  have hB : ∀ b ∈ [1, 2, 3, 4, 5, 6], ∀ c ∈ "1to".toList ++ uintStr (1 <<< b) ++ ['}'], isSuffixDelim c = false := by
    intro b hb c hc
    simp only [List.mem_append, List.mem_singleton] at hc
    rcases hc with (e | e) | e
    · have : c = '1' ∨ c = 't' ∨ c = 'o' := by simpa using e
      rcases this with r | r | r <;> subst r <;> decide
    · exact ((oneto_facts b hb).2.2 c e).1
    · subst e; decide
  have hK : ∀ K, NameLike K → ∀ c ∈ K ++ ['}'], isSuffixDelim c = false := by
    intro K hl c hc
    simp only [List.mem_append, List.mem_singleton] at hc
    rcases hc with e | e
    · exact (like_suffix_clean hl c e).1
    · subst e; decide
  have hZ : ∀ c ∈ ['z', '}'], isSuffixDelim c = false := by decide
  unfold sufPieces
  rcases hb with h0 | hb
  · subst h0
    cases kz with
    | none => simp [kzPieces, TailOK]
    | k K => simp only [kzPieces, kGroup, TailOK]; exact ⟨by decide, hK K (hk K (Or.inl rfl)), trivial⟩
    | kz K => simp only [kzPieces, kGroup, zGroup, TailOK]; exact ⟨by decide, hK K (hk K (Or.inr rfl)), by decide, hZ, trivial⟩
    | z => simp only [kzPieces, zGroup, TailOK]; exact ⟨by decide, hZ, trivial⟩
  · have hb0 : b ≠ 0 := by intro e; subst e; simp at hb
    cases kz with
    | none => simp only [kzPieces, if_pos hb0, List.nil_append, List.cons_append, List.append_nil, List.singleton_append, List.append_eq, bGroup, TailOK]; exact ⟨by decide, hB b hb, trivial⟩
    | k K =>
      simp only [kzPieces, if_pos hb0, List.nil_append, List.cons_append, List.append_nil, List.singleton_append, List.append_eq, kGroup, bGroup, TailOK]
      exact ⟨by decide, hK K (hk K (Or.inl rfl)), by decide, by simp, by decide, hB b hb, trivial⟩
    | kz K =>
      simp only [kzPieces, if_pos hb0, List.nil_append, List.cons_append, List.append_nil, List.singleton_append, List.append_eq, kGroup, zGroup, bGroup, TailOK]
      exact ⟨by decide, hK K (hk K (Or.inr rfl)), by decide, hZ, by decide, by simp, by decide, hB b hb, trivial⟩
    | z =>
      simp only [kzPieces, if_pos hb0, List.nil_append, List.cons_append, List.append_nil, List.singleton_append, List.append_eq, zGroup, bGroup, TailOK]
      exact ⟨by decide, hZ, by decide, by simp, by decide, hB b hb, trivial⟩

/-- any chunk: operand text + `{k}{z}` + `{1toN}` -/
theorem chunk_read (env : Env) (T : Str) (r : POp) (hT : parseX86Op env T = some r) (hclean : ∀ c ∈ T, c ≠ '{')
    (kz : KZ) (rk : PReg) (b : Nat) (hb : b = 0 ∨ b ∈ [1, 2, 3, 4, 5, 6])
    (hk : ∀ K, (kz = .k K ∨ kz = .kz K) → MaskOK env K rk) :
    readChunk env (T ++ (kzText kz ++ bcText b)) =
      some { op := r, kmask := kzMask kz (some rk), zeroing := kzZero kz, bcast := if b = 0 then 0 else 1 <<< b } := by
  have hfold := suffix_fold env r kz rk b hb hk
  have hok := suf_tail_ok kz b hb (fun K h => (hk K h).like)
  rw [suffix_text]
  cases hps : sufPieces kz b with
  | nil =>
    rw [hps] at hfold
    simp only [List.foldlM_nil] at hfold
    simp only [List.append_nil]
    rw [chunk_read_plain env T r hT hclean]
    exact hfold
  | cons p ps =>
    rw [hps] at hfold hok
    obtain ⟨sg, t⟩ := p
    cases sg with
    | none => exact absurd hok (by simp [TailOK])
    | some d =>
      have hd : d = '{' := by
        -- the first suffix piece is always a group
        have : ∀ q ∈ (sufPieces kz b).head?, q.1 = some '{' := by
          unfold sufPieces
          cases kz <;> by_cases h0 : b = 0 <;> simp [kzPieces, kGroup, zGroup, bGroup, h0]
        have := this (some d, t) (by rw [hps]; simp)
        simpa using this
      subst hd
      exact chunk_read_ps env T r hT hclean t ps hok _ hfold

end AsmjitVerif.Lemmas.FormatChunk
