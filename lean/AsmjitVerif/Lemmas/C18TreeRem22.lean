/-
C18 — ArenaTree::remove, part 22: the full refinement theorem `remove_refines` (shape AND red-black balance, both
paths), `remove_keeps_colours`, and `removeStep : Ins.RemoveStep`.
-/
import AsmjitVerif.Lemmas.C18TreeRem21
import AsmjitVerif.Lemmas.C18TreeIns11
namespace AsmjitVerif.Tree.Rem
open AsmjitVerif.Tree AsmjitVerif.Tree.Spec

/-- the `f == q` path with the resulting tree made explicit -/
theorem leaf_path {h : Tree} {t : T} {node : Nat} {s : RmState} {F : Frame} {up : List Frame}
    (hs : removeLoop kFuel node (initState h) = s)
    (hr : Represents h t) (hbst : t.BST) (inv : Inv (key h node) node s (F :: up) .nil)
    (eio : (plug (F :: up) .nil).io = t.io) (hf : s.f = node) (hfq : s.f = s.q) :
    Represents (removeNode h node) ((plug up F.sib).setRed false) ∧
    ((plug up F.sib).setRed false).keys = setErase (key h node) t.keys ∧ ((plug up F.sib).setRed false).BST ∧
    ((plug up F.sib).setRed false).idxs.Perm (t.idxs.erase node) ∧
    (removeNode h node).nodes.size = s.t.nodes.size := by
  have hFn : F.i = node := by rw [← hf, hfq, inv.hq]; rfl
  have hFk : F.k = key h node := by
    rw [← inv.repc.2.2.1, ← inv.hkn, hFn]; rfl
  obtain ⟨ur, us, uk, und, uni, _, _⟩ := unlink_rep inv
  have eR : removeNode h node =
      makeBlack { setChild s.t s.p (child s.t s.p true == s.q) (child s.t s.q (child s.t s.q false == 0)) with
        root := child (setChild s.t s.p (child s.t s.p true == s.q) (child s.t s.q (child s.t s.q false == 0))) 1 true }
        (child (setChild s.t s.p (child s.t s.p true == s.q) (child s.t s.q (child s.t s.q false == 0))) 1 true) := by
    rw [removeNode_eq, hs]
    simp only [ne_eq, hfq, not_true_eq_false, if_false]
  generalize setChild s.t s.p (child s.t s.p true == s.q) (child s.t s.q (child s.t s.q false == 0)) = h' at *
  have hnd2 : (plug up F.sib).idxs.Nodup := (plug_idxs_perm up F.sib).nodup_iff.mpr und
  obtain ⟨f1, f2⟩ := finish_root ur hnd2
  obtain ⟨L, R, e1, e2⟩ := plug_unlink_io F up
  rw [eio, hFn, hFk] at e1
  obtain ⟨g1, g2, g3, _⟩ := erase_conclusion e1 e2 hbst hr.2
  exact ⟨eR ▸ f1, g1, g2, g3, by rw [eR, f2, us]⟩

theorem cinv_init {t : T} (hrb : t.RB) : CInv [] t :=
  ⟨hrb.2.1, trivial, (exists_blackH_iff t).mp hrb.2.2, trivial, trivial⟩

/-- `ArenaTree::remove(node)` REFINES set erase and KEEPS the red-black invariants (all inputs, both paths).
    Hypotheses: `Represents h t`, `t.BST`, `t.RB`, `node ∈ t.idxs`, `t.height ≤ kFuel` (= 256). -/
theorem remove_refines {h : Tree} {t : T} {node : Nat} (hr : Represents h t) (hbst : t.BST) (hrb : t.RB)
    (hmem : node ∈ t.idxs) (hfuel : t.height ≤ kFuel) :
    ∃ t', Represents (removeNode h node) t' ∧ t'.keys = setErase (key h node) t.keys ∧ t'.BST ∧ t'.RB ∧
      t'.idxs.Perm (t.idxs.erase node) ∧ 2 ≤ (removeNode h node).nodes.size := by
  obtain ⟨ctx', i2, ci, eio⟩ := removeLoop_inv3 (key h node) node kFuel (initState h) [] t
    (init_inv2 hr hbst hmem) (cinv_init hrb) hfuel
  simp only [plug] at eio
  cases ctx' with
  | nil =>
    exfalso
    simp only [plug, T.io] at eio
    have := congrArg (List.map Prod.fst) eio
    rw [T.io_idxs] at this
    rw [← this] at hmem; simp at hmem
  | cons F up =>
    have hsz := i2.inv.size1
    have hcol := exit_unlink_col ci
    have hf : (removeLoop kFuel node (initState h)).f = node := by
      rcases i2.fok with ⟨_, hm⟩ | ⟨fn, _⟩
      · simp [T.idxs] at hm
      · exact fn
    by_cases hfq : (removeLoop kFuel node (initState h)).f = (removeLoop kFuel node (initState h)).q
    · obtain ⟨a, b, c, d, e⟩ := leaf_path rfl hr hbst i2.inv eio hf hfq
      exact ⟨_, a, b, c, setRed_false_col hcol, d, by rw [e]; exact hsz⟩
    · obtain ⟨t', a, b, c, d, _, f, below, Ff, mid, upf, rfl, rfl⟩ := replace_path rfl hr hbst i2 eio hfq
      exact ⟨_, a, b, c, setRed_false_col (replace_col F.i F.k hcol), d, by rw [f]; exact hsz⟩

theorem rep_unique {h : Tree} {n : Nat} {t1 t2 : T} (h1 : Rep h n t1) (h2 : Rep h n t2) : t1 = t2 := by
  induction h1 generalizing t2 with
  | nil =>
    cases h2 with
    | nil => rfl
    | node h2' => omega
  | @node n k c L R a b hk hc _ _ ihL ihR =>
    cases h2 with
    | nil => omega
    | node _ _ hk' hc' hL' hR' =>
      rw [← hk, ← hc, hk', hc', ihL hL', ihR hR']

/-- the form needed by the sequence theorem -/
theorem removeStep : Ins.RemoveStep := by
  intro h t n hr hbst hrb _ hsz hmem
  have := Ins.height_le_128 hrb hsz
  obtain ⟨t', a, b, c, d, _, f⟩ := remove_refines hr hbst hrb hmem (by show t.height ≤ 256; omega)
  exact ⟨t', a, b, c, d, f⟩

/-- `ArenaTree::remove` keeps the colour invariant (exact shape of `C18.RemoveKeepsColours`) -/
theorem remove_keeps_colours : ∀ (h : Tree) (t : T) (n : Nat), Represents h t → t.BST → t.RB → 2 ≤ h.nodes.size →
    t.size < 2 ^ 64 → n ∈ t.idxs → ∀ t', Represents (removeNode h n) t' → t'.noRedRed ∧ ∃ m, t'.blackH m := by
  intro h t n hr hbst hrb h2 hsz hmem t' hr'
  obtain ⟨t'', a, _, _, d, _⟩ := removeStep h t n hr hbst hrb h2 hsz hmem
  have := rep_unique hr'.1 a.1
  rw [this]; exact d.2

/-- the unconditional sequence theorem: any history of inserts and removes refines the ordered set and keeps the
    tree a red-black BST -/
theorem tree_refines_set (ops : List TOp) (hlen : ops.length < 2 ^ 64) :
    ∃ t, Represents (runModel ops {}) t ∧ t.keys = runSpec ops [] ∧ t.BST ∧ t.RB :=
  Ins.tree_refines_set removeStep ops hlen

/-- non-vacuity: a mixed history on the model and on the specification -/
example : inorder 20 (runModel [.insert 5, .insert 3, .insert 8, .remove 5, .insert 4, .remove 3, .insert 1] {})
    (runModel [.insert 5, .insert 3, .insert 8, .remove 5, .insert 4, .remove 3, .insert 1] {}).root = [1, 4, 8] ∧
    runSpec [.insert 5, .insert 3, .insert 8, .remove 5, .insert 4, .remove 3, .insert 1] [] = [1, 4, 8] := by decide

example : ∃ t, Represents (runModel [.insert 5, .insert 3, .insert 8, .remove 5, .insert 4, .remove 3] {}) t ∧
    t.keys = [4, 8] ∧ t.BST ∧ t.RB :=
  tree_refines_set [.insert 5, .insert 3, .insert 8, .remove 5, .insert 4, .remove 3] (by decide)

end AsmjitVerif.Tree.Rem
