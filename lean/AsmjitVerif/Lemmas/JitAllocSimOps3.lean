/- C09 refinement (model run ⊑ monitor): `JudgeOk` for read and the memory dump. -/
import AsmjitVerif.Lemmas.JitAllocSimCol
namespace AsmjitVerif.JitAlloc
open Spec

theorem judge_read {g : Ghost} {s : St} (hS : Sim g s) (hG : Good s) (h : Nat) : JudgeOk g s (.read h) := by
  have hI := hG.inv
  have hst : (step s (.read h)).1 = s := by
    simp only [step]
    cases s.tab[h]? with
    | none => rfl
    | some hd => simp only; split; rfl; split <;> rfl
  refine ⟨g, ?_, by rw [hst]; exact hS⟩
  have hget := hS.getH h
  cases hx : g.tab[h]? with
  | none =>
    rw [hx] at hget
    simp only [Option.map_none] at hget
    simp [step, judge, hget, hx]
  | some x =>
    rw [hx] at hget
    simp only [Option.map_some] at hget
    simp only [step, hget]
    cases hl : x.live with
    | false =>
      have : (toH x).live = false := hl
      simp [this, judge, hx]
    | true =>
      have hl' : (toH x).live = true := hl
      simp only [hl', Bool.not_true, Bool.false_eq_true, if_false]
      obtain ⟨b, hb, e, st, n, o1, o2⟩ := hI.owned h (toH x) hget hl'
      have hg := poolGran_pos hI.wf b.pool
      have hf : s.a.findBlock (toH x).blk = some b := by rw [← e]; exact findBlock_of_mem hI.ids hb
      simp only [hf]
      obtain ⟨hB, _⟩ := hI.blk b hb
      obtain ⟨i1, i2, i3⟩ := hB.inside st n ⟨h, toH x, hget, hl', e.symm, o1, o2⟩
      have r1 : (toH x).off / s.a.cfg.poolGran b.pool = st := by rw [o1]; exact Nat.mul_div_cancel _ hg
      have r2 : (toH x).size / s.a.cfg.poolGran b.pool = n := by rw [o2]; exact Nat.mul_div_cancel _ hg
      have hbq : g.block? x.blk = some (toGB b) := by
        have := hS.block? hI hb
        rw [e] at this; exact this
      have hlen := (hG.mem b hb).len
      simp only [judge, hx, hl, Bool.not_true, Bool.false_eq_true, if_false, hbq, unrle_rle, toGB, hS.cfg]
      have c1 : ((b.mem.drop ((toH x).off / s.a.cfg.poolGran b.pool)).take ((toH x).size / s.a.cfg.poolGran b.pool)).length =
          x.size / s.a.cfg.poolGran b.pool := by
        rw [r1, r2, length_slice _ _ _ (by omega)]
        exact r2.symm
      have c2 := coloursOk_slice hS hG hb st n i3
      rw [r1, r2] at c1 ⊢
      have r1' : x.off / s.a.cfg.poolGran b.pool = st := r1
      simp only [toGB] at c2
      simp [c1, r1', c2]

theorem zip_map_map {α β γ} (l : List α) (f : α → β) (h : α → γ) : (l.map f).zip (l.map h) = l.map (fun x => (f x, h x)) := by
  induction l with
  | nil => rfl
  | cons x xs ih => simp [ih]

theorem judge_mem {g : Ghost} {s : St} (hS : Sim g s) (hG : Good s) : JudgeOk g s .mem := by
  refine ⟨g, ?_, hS⟩
  simp only [step, judge, List.map_map]
  have h1 : (s.a.blocks.map ((fun (x : Nat × List (Nat × Nat)) => x.1) ∘ fun b => (b.id, rle b.mem))) = g.blocks.map (·.id) := by
    rw [hS.blocks, List.map_map]; rfl
  simp only [h1, ne_eq, not_true_eq_false, if_false]
  have h2 : (g.blocks.zip (s.a.blocks.map ((fun (x : Nat × List (Nat × Nat)) => x.2) ∘ fun b => (b.id, rle b.mem)))).all
      (fun (b, cs) => (unrle cs).length == b.size / g.cfg.poolGran b.pool && g.coloursOk b 0 (unrle cs)) = true := by
    rw [hS.blocks, zip_map_map, List.all_map, List.all_eq_true]
    intro b hb
    simp only [Function.comp, unrle_rle, toGB, hS.cfg]
    have hD := hG.div b hb
    have hg := poolGran_pos hG.inv.wf b.pool
    have hlen := (hG.mem b hb).len
    have e1 : b.blockSize / s.a.cfg.poolGran b.pool = b.areaSize := by rw [← hD.area]; exact Nat.mul_div_cancel _ hg
    have c2 := coloursOk_slice hS hG hb 0 b.areaSize (by omega)
    have e2 : (b.mem.drop 0).take b.areaSize = b.mem := by simp [← hlen]
    rw [e2] at c2
    simp only [toGB] at c2
    simp [e1, hlen, c2]
  simp [h2]

end AsmjitVerif.JitAlloc
