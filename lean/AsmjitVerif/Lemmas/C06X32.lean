/- C06: the default strategy of x86 init_func_detail on 32-bit x86 follows the cdecl/stdcall/fastcall/thiscall/regparm rules. -/
import AsmjitVerif.Lemmas.C06Types
namespace AsmjitVerif.C06
open AsmjitVerif.CallConv AsmjitVerif.ABI

/-- what the default strategy reads of a 32-bit convention record -/
structure X32Cc (cc : CallConv) (gp : List Nat) : Prop where
  arch : cc.arch = .x86
  strat : cc.strategy = 0
  gpo : cc.gpOrder = gp
  veco : cc.vecOrder = [0, 1, 2]
  nofv : cc.hasFlag fFloatsByVec = false
  vsva : cc.hasFlag fVecByStackIfVA = true
  gplen : gp.length ≤ 3
  gpok : ∀ k, k < gp.length → gp.getD k 0 ≠ idBad
  wos : (gp = [1, 2] ∨ gp = [1]) → (cc.id = 2 || cc.id = 4) = true

/-- 64-bit integers: cdecl / stdcall, and (with fix C06-16) `__fastcall` / `__thiscall`, whose rule is the stack as a whole -/
def x32Dom (gp : List Nat) (t : Nat) : Bool :=
  (isInt t && !isAbstract t && (decide (tySize t ≤ 4) || gp.isEmpty || decide (gp = [1, 2]) || decide (gp = [1])))
  || isF32F64 t || isVec t || isMask t

/-- the `whole_on_stack` flag of fix C06-16 as the argument loop computes it -/
def wosOf (cc : CallConv) (t : Nat) : Bool := decide ((unpack .x86 t).length > 1) && (cc.id = 2 || cc.id = 4)

theorem wosOf_small (cc : CallConv) {t : Nat} (h1 : t ≠ tInt64) (h2 : t ≠ tUInt64) : wosOf cc t = false := by
  simp [wosOf, unpack, h1, h2]

structure X32Inv (gp : List Nat) (va : Bool) (s : St) (older : List Nat) : Prop where
  gpP : s.gpPos = min (older.countP isSmallInt) gp.length
  vecP : s.vecPos = if va then 0 else min (older.countP isVec) 3
  off : s.stackOffset = x32StackEnd gp va older

theorem orderAt_gp (gp : List Nat) (hl : gp.length ≤ 3) (k : Nat) :
    orderAt gp (min k gp.length) = if k < gp.length then gp.getD k 0 else idBad := by
  unfold orderAt
  have h16 : min k gp.length < 16 := by omega
  simp only [h16, if_true]
  by_cases h : k < gp.length
  · have : min k gp.length = k := by omega
    simp [this, h, List.getD_eq_getElem?_getD]
  · have : min k gp.length = gp.length := by omega
    simp [this, h, List.getD_eq_getElem?_getD]

theorem orderAt_vec3 (k : Nat) : orderAt [0, 1, 2] (min k 3) = if k < 3 then k else idBad := by
  by_cases h : k < 3
  · have : k = 0 ∨ k = 1 ∨ k = 2 := by omega
    rcases this with rfl | rfl | rfl <;> decide
  · have : min k 3 = 3 := by omega
    simp [this, h]; decide

theorem x32_small_facts : ∀ t ∈ List.range 42, isInt t = true → isAbstract t = false → tySize t ≤ 4 →
    isSmallInt t = true ∧ (if t ≤ tUInt32 then rtGp32 else rtGp64) = rtGp32 ∧ isVec t = false ∧ isF32F64 t = false ∧
    x32SlotAlign t = 1 := by decide +kernel

theorem x32_i64_facts : ∀ t ∈ List.range 42, isInt t = true → isAbstract t = false → ¬ tySize t ≤ 4 →
    (t = tInt64 ∨ t = tUInt64) ∧ isSmallInt t = false ∧ isVec t = false ∧ x32SlotAlign t = 1 ∧ x32SlotSize t = 8 ∧
    isInt tUInt32 = true ∧ isInt (t - 2) = true ∧ max (tySize tUInt32) 4 = 4 ∧ max (tySize (t - 2)) 4 = 4 := by decide +kernel

theorem x32_float_facts : ∀ t ∈ List.range 101, isF32F64 t = true →
    isInt t = false ∧ isFloat t = true ∧ isVec t = false ∧ isSmallInt t = false ∧ x32SlotAlign t = 1 ∧
    ¬ (max (tySize t) 4 ≥ 16) ∧ t ≠ tInt64 ∧ t ≠ tUInt64 ∧ t ≠ tFloat80 := by decide +kernel

theorem x32_vec_facts : ∀ t ∈ List.range 101, isVec t = true →
    isInt t = false ∧ isFloat t = false ∧ isF32F64 t = false ∧ isSmallInt t = false ∧ vecTypeIdToRegType t = xmmView t ∧
    t ≠ tInt64 ∧ t ≠ tUInt64 ∧ t ≠ tFloat80 ∧
    (if max (tySize t) 4 ≥ 16 then x32SlotAlign t = max (tySize t) 4 else x32SlotAlign t = 1) := by decide +kernel

theorem x32_mask_facts : ∀ t ∈ List.range 101, isMask t = true →
    isInt t = false ∧ isFloat t = false ∧ isVec t = false ∧ isF32F64 t = false ∧ isSmallInt t = false ∧ t ≠ tInt64 ∧ t ≠ tUInt64 ∧
    isMmx t = false := by
  decide +kernel

theorem x32Dom_lt {gp : List Nat} {t : Nat} (h : x32Dom gp t = true) : t < 101 := by
  simp only [x32Dom, isInt, isF32F64, isVec, isMask, isAbstract, isBetween, tFloat32, tFloat64, Bool.or_eq_true,
    Bool.and_eq_true, decide_eq_true_eq, Bool.not_eq_true'] at h
  rcases h with ((⟨⟨h, _⟩, _⟩ | h | h) | h) | h <;> first | omega | (have := of_decide_eq_true h; omega)

theorem unpack_x86_small {t : Nat} (h1 : t ≠ tInt64) (h2 : t ≠ tUInt64) : unpack .x86 t = [t] := by
  simp [unpack, h1, h2]
theorem unpack_x86_i64 {t : Nat} (h : t = tInt64 ∨ t = tUInt64) : unpack .x86 t = [tUInt32, t - 2] := by
  rcases h with rfl | rfl <;> simp [unpack, tInt64, tUInt64]

theorem orderAt_nil (k : Nat) : orderAt [] k = idBad := by unfold orderAt; split <;> simp

theorem x32_step (cc : CallConv) (gp : List Nat) (hcc : X32Cc cc gp) (va : Bool) (s : St) (older : List Nat) (t : Nat)
    (hI : X32Inv gp va s older) (ht : x32Dom gp t = true) :
    (packLoop (x86DefaultValue cc va 4 (wosOf cc t)) s (unpack .x86 t)).2 = x32Arg gp va older t ∧
    X32Inv gp va (packLoop (x86DefaultValue cc va 4 (wosOf cc t)) s (unpack .x86 t)).1 (t :: older) := by
  obtain ⟨hgp, hvec, hoff⟩ := hI
  have hm101 : t ∈ List.range 101 := List.mem_range.2 (x32Dom_lt ht)
  simp only [x32Dom, Bool.or_eq_true, Bool.and_eq_true, Bool.not_eq_true', decide_eq_true_eq] at ht
  rcases ht with ((⟨⟨hi, hab⟩, hsz⟩ | hf) | hv) | hm
  · have hlt42 : t ∈ List.range 42 := by
      simp [isInt, isBetween] at hi; exact List.mem_range.2 (by omega)
    by_cases hs4 : tySize t ≤ 4
    · -- small integer
      obtain ⟨hsm, hview, hnv, hnf, hal⟩ := x32_small_facts t hlt42 hi hab hs4
      have hne1 : t ≠ tInt64 := by intro h; subst h; simp [tySize, tInt64] at hs4
      have hne2 : t ≠ tUInt64 := by intro h; subst h; simp [tySize, tUInt64] at hs4
      rw [unpack_x86_small hne1 hne2, packLoop_single, wosOf_small cc hne1 hne2]
      simp only [x86DefaultValue, hi, if_true, Bool.false_eq_true, if_false, hcc.gpo, hgp, orderAt_gp gp hcc.gplen]
      by_cases hk : older.countP isSmallInt < gp.length
      · have hne := hcc.gpok _ hk
        simp only [hk, if_true, hne, ne_eq, not_false_eq_true]
        refine ⟨by simp [x32Arg, hi, hs4, hk, hview], ⟨?_, ?_, ?_⟩⟩
        · simp [List.countP_cons, hsm]; omega
        · simp [List.countP_cons, hnv]; exact hvec
        · simp [x32StackEnd, x32OnStack, hi, hs4, hoff]; omega
      · simp only [hk, if_false, ne_eq, not_true_eq_false]
        have hge : older.countP isSmallInt ≥ gp.length := by omega
        refine ⟨by simp [x32Arg, hi, hs4, hk, hal, alignUp_one, hoff], ⟨?_, ?_, ?_⟩⟩
        · simp [List.countP_cons, hsm]; omega
        · simp [List.countP_cons, hnv]; exact hvec
        · simp [x32StackEnd, x32OnStack, hi, hs4, hge, hal, alignUp_one, x32SlotSize, hoff]
    · -- 64-bit integer: the convention has no integer registers, or passes it on the stack as a whole
      obtain ⟨h64, hsm, hnv, hal, hss, hi1, hi2, hm1, hm2⟩ := x32_i64_facts t hlt42 hi hab hs4
      have hbad : ∀ k, (if wosOf cc t = true then idBad else orderAt gp k) = idBad := by
        intro k
        rcases hsz with ((h | h) | h) | h
        · exact absurd h hs4
        · have : gp = [] := by simpa using h
          subst this; simp [orderAt_nil]
        · have hw : wosOf cc t = true := by
            simp only [wosOf, unpack_x86_i64 h64, hcc.wos (Or.inl h)]; simp
          simp [hw]
        · have hw : wosOf cc t = true := by
            simp only [wosOf, unpack_x86_i64 h64, hcc.wos (Or.inr h)]; simp
          simp [hw]
      rw [unpack_x86_i64 h64]
      simp only [packLoop, x86DefaultValue, hi1, hi2, if_true, hcc.gpo, hbad, ne_eq, not_true_eq_false, if_false, hm1, hm2]
      refine ⟨by simp [x32Arg, hi, hs4, hal, alignUp_one, hoff], ⟨?_, ?_, ?_⟩⟩
      · simp [List.countP_cons, hsm]; exact hgp
      · simp [List.countP_cons, hnv]; exact hvec
      · simp [x32StackEnd, x32OnStack, hi, hs4, hal, alignUp_one, hss, hoff]
  · -- float / double: always on the stack
    obtain ⟨hni, hfl, hnv, hsm, hal, hns, hne1, hne2, hn80⟩ := x32_float_facts t hm101 hf
    rw [unpack_x86_small hne1 hne2, packLoop_single, wosOf_small cc hne1 hne2]
    simp only [x86DefaultValue, hni, hfl, Bool.true_or, if_true, if_false, Bool.false_eq_true, hcc.nofv, Bool.not_false, hn80, hns]
    refine ⟨by simp [x32Arg, hni, hf, hal, alignUp_one, hoff], ⟨?_, ?_, ?_⟩⟩
    · simp [List.countP_cons, hsm]; exact hgp
    · simp [List.countP_cons, hnv]; exact hvec
    · simp [x32StackEnd, x32OnStack, hni, hf, hal, alignUp_one, x32SlotSize, hoff]
  · -- vectors
    obtain ⟨hni, hnfl, hnf, hsm, hview, hne1, hne2, hn80, halc⟩ := x32_vec_facts t hm101 hv
    rw [unpack_x86_small hne1 hne2, packLoop_single, wosOf_small cc hne1 hne2]
    simp only [x86DefaultValue, hni, hnfl, hv, Bool.false_or, Bool.true_or, if_true, if_false, Bool.false_eq_true, hcc.vsva, Bool.and_true, hcc.veco, hn80]
    cases va with
    | true =>
      simp only [if_true, ne_eq, not_true_eq_false, if_false]
      have hoffeq : (if max (tySize t) 4 ≥ 16 then alignUp s.stackOffset (max (tySize t) 4) else s.stackOffset) =
          alignUp (x32StackEnd gp true older) (x32SlotAlign t) := by
        by_cases h16 : max (tySize t) 4 ≥ 16
        · simp only [h16, if_true] at halc ⊢; rw [halc, hoff]
        · simp only [h16, if_false] at halc ⊢; rw [halc, alignUp_one, hoff]
      refine ⟨by simp only [hoffeq]; simp [x32Arg, hni, hnf, hv], ⟨?_, ?_, ?_⟩⟩
      · simp [List.countP_cons, hsm]; exact hgp
      · simpa using hvec
      · simp only [hoffeq]; simp [x32StackEnd, x32OnStack, hni, hnf, hv, x32SlotSize]
    | false =>
      simp only [Bool.false_eq_true, if_false] at hvec ⊢
      rw [hvec, orderAt_vec3]
      by_cases hk : older.countP isVec < 3
      · have hne : older.countP isVec ≠ idBad := by simp [idBad]; omega
        simp only [hk, if_true, hne, ne_eq, not_false_eq_true]
        refine ⟨by simp [x32Arg, hni, hnf, hv, hk, hview], ⟨?_, ?_, ?_⟩⟩
        · simp [List.countP_cons, hsm]; exact hgp
        · simp [List.countP_cons, hv]; omega
        · simp [x32StackEnd, x32OnStack, hni, hnf, hv, hoff]; omega
      · simp only [hk, if_false, ne_eq, not_true_eq_false]
        have hge : older.countP isVec ≥ 3 := by omega
        have hoffeq : (if max (tySize t) 4 ≥ 16 then alignUp s.stackOffset (max (tySize t) 4) else s.stackOffset) =
            alignUp (x32StackEnd gp false older) (x32SlotAlign t) := by
          by_cases h16 : max (tySize t) 4 ≥ 16
          · simp only [h16, if_true] at halc ⊢; rw [halc, hoff]
          · simp only [h16, if_false] at halc ⊢; rw [halc, alignUp_one, hoff]
        refine ⟨by simp only [hoffeq]; simp [x32Arg, hni, hnf, hv, hk], ⟨?_, ?_, ?_⟩⟩
        · simp [List.countP_cons, hsm]; exact hgp
        · simp [List.countP_cons, hv]; omega
        · simp only [hoffeq]; simp [x32StackEnd, x32OnStack, hni, hnf, hv, hge, x32SlotSize]
  · -- opmask
    obtain ⟨hni, hnfl, hnv, hnf, hsm, hne1, hne2, hnmx⟩ := x32_mask_facts t hm101 hm
    rw [unpack_x86_small hne1 hne2, packLoop_single, wosOf_small cc hne1 hne2]
    simp only [x86DefaultValue, hni, hnfl, hnv, hnmx, Bool.or_false, Bool.false_and, if_false, Bool.false_eq_true]
    refine ⟨by simp [x32Arg, hni, hnf, hnv], ⟨?_, ?_, ?_⟩⟩
    · simp [List.countP_cons, hsm]; exact hgp
    · simp [List.countP_cons, hnv]; exact hvec
    · simp [x32StackEnd, x32OnStack, hni, hnf, hnv, hoff]

theorem x32_loop (cc : CallConv) (gp : List Nat) (pops : Bool) (hcc : X32Cc cc gp) (va : Bool) :
    ∀ (ts : List Nat) (i : Nat) (s : St) (older : List Nat), X32Inv gp va s older → (∀ t ∈ ts, x32Dom gp t = true) →
    (x86ArgLoop cc va 4 i s ts).2 = argsFrom (.x32 gp pops) va older ts ∧
    X32Inv gp va (x86ArgLoop cc va 4 i s ts).1 (ts.reverse ++ older) := by
  intro ts
  induction ts with
  | nil => intro i s older hI _; exact ⟨rfl, by simpa [x86ArgLoop] using hI⟩
  | cons t ts ih =>
    intro i s older hI hd
    obtain ⟨hv, hI'⟩ := x32_step cc gp hcc va s older t hI (hd t (by simp))
    obtain ⟨ha, hI''⟩ := ih (i + 1) (packLoop (x86DefaultValue cc va 4 (wosOf cc t)) s (unpack .x86 t)).1 (t :: older) hI'
      (fun u hu => hd u (by simp [hu]))
    have hstrat : (cc.strategy = 1 || cc.strategy = 2) = false := by simp [hcc.strat]
    simp only [x86ArgLoop, hstrat, hcc.arch, Bool.false_eq_true, if_false]
    simp only [wosOf] at ha hv hI''
    refine ⟨?_, ?_⟩
    · simp only [argsFrom]; rw [ha, hv]
    · simpa [List.reverse_cons, List.append_assoc] using hI''

/-- every 32-bit convention record `CallConv::init` builds is of the shape the default strategy lemma needs, and its frame facts are
    the ABI's (checked for all seven convention ids and both platform ABIs) -/
def x32CcB (cc : CallConv) (gp : List Nat) (pops : Bool) : Bool :=
  cc.arch == .x86 && cc.strategy == 0 && cc.gpOrder == gp && cc.vecOrder == [0, 1, 2] && !cc.hasFlag fFloatsByVec &&
  cc.hasFlag fVecByStackIfVA && decide (gp.length ≤ 3) && gp.all (· != idBad) &&
  (!(gp == [1, 2] || gp == [1]) || (cc.id == 2 || cc.id == 4)) &&
  (cc.hasFlag fCalleePops == pops) && cc.redZone == 0 && cc.spillZone == 0 && cc.naturalAlign == 4 &&
  cc.presGp == maskOf [3, 4, 5, 6, 7] && cc.presVec == 0

theorem initCallConv_x32_all : ∀ win ∈ [false, true], ∀ ccid ∈ List.range 8,
    (match convOf ⟨.x86, win, false⟩ ccid, initCallConvX86 win ccid with
     | some (.x32 gp pops), some cc => x32CcB cc gp pops
     | some (.x32 _ _), none => false
     | _, _ => true) = true := by decide +kernel

end AsmjitVerif.C06
