/-
C18 — ArenaTree::remove, part 7: one iteration of the push-down loop simulates `absStep`; the whole loop.
-/
import AsmjitVerif.Lemmas.C18TreeRem6
namespace AsmjitVerif.Tree.Rem
open AsmjitVerif.Tree AsmjitVerif.Tree.Spec

/-- ONE ITERATION of `removeLoop` (any branch) maps the invariant to the invariant of the abstract step. -/
theorem step_sim {kn node : Nat} {st : RmState} {ctx : List Frame} {S : T} (inv : Inv kn node st ctx S)
    (hS : S.isNil = false) :
    Inv kn node (stepState node st) (absStep kn ctx S).1 (absStep kn ctx S).2 := by
  have hnd := absStep_nodup kn ctx S hS inv.nodup
  obtain ⟨hq0, hq, hd, hri, hkey, hred, hq2, hqs, hch, hrq, hrc⟩ := inv.qfacts hS
  generalize hdd : decide (S.key < kn) = d at hd
  by_cases b1 : (!S.isRed && !(S.child d).isRed) = true
  · have c1 : S.isRed = false := by revert b1; cases S.isRed <;> simp
    have c2 : (S.child d).isRed = false := by revert b1; cases (S.child d).isRed <;> simp
    by_cases b2 : (S.child (!d)).isRed = true
    · have e : absStep kn ctx S = (⟨S.rootIdx, S.key, true, d, (S.child (!d)).child d⟩ ::
          ⟨(S.child (!d)).rootIdx, (S.child (!d)).key, false, d, (S.child (!d)).child (!d)⟩ :: ctx, S.child d) := by
        simp only [absStep, hdd]; rw [if_pos b1, if_pos b2]
      rw [e] at hnd ⊢
      exact inv_rot inv hS d hdd c1 c2 b2 hnd
    · have c3 : (S.child (!d)).isRed = false := by revert b2; cases (S.child (!d)).isRed <;> simp
      cases ctx with
      | nil =>
        have e : absStep kn [] S = (⟨S.rootIdx, S.key, S.isRed, d, S.child (!d)⟩ :: [], S.child d) := by
          simp only [absStep, hdd]; rw [if_pos b1, if_neg b2]
        rw [e] at hnd ⊢
        subst hdd
        obtain ⟨ht, hp⟩ := step_noop node st _ _ hq hd (Or.inr ⟨by rw [hrc, c3], by
          rw [inv.hq, inv.hdir]; exact inv.headl⟩)
        exact inv_noop inv hS ht hp hnd
      | cons P up =>
        by_cases b3 : P.sib.isNil = true
        · have e : absStep kn (P :: up) S = (⟨S.rootIdx, S.key, S.isRed, d, S.child (!d)⟩ :: P :: up, S.child d) := by
            simp only [absStep, hdd]; rw [if_pos b1, if_neg b2, if_pos b3]
          rw [e] at hnd ⊢
          subst hdd
          obtain ⟨ht, hp⟩ := step_noop node st _ _ hq hd (Or.inr ⟨by rw [hrc, c3], by
            rw [inv.hq, inv.hdir]; exact (inv.repc.2.2.2.2.1).isNil_iff.mp b3⟩)
          exact inv_noop inv hS ht hp hnd
        · have hsn : P.sib.isNil = false := by revert b3; cases P.sib.isNil <;> simp
          by_cases b4 : (!(P.sib.child (!P.d)).isRed && !(P.sib.child P.d).isRed) = true
          · have c4 : (P.sib.child (!P.d)).isRed = false := by revert b4; cases (P.sib.child (!P.d)).isRed <;> simp
            have c5 : (P.sib.child P.d).isRed = false := by revert b4; cases (P.sib.child P.d).isRed <;> simp
            have e : absStep kn (P :: up) S = (⟨S.rootIdx, S.key, true, d, S.child (!d)⟩ ::
                ⟨P.i, P.k, false, P.d, P.sib.setRed true⟩ :: up, S.child d) := by
              simp only [absStep, hdd]; rw [if_pos b1, if_neg b2, if_neg b3, if_pos b4]
            rw [e] at hnd ⊢
            exact inv_flip inv hS d hdd c1 c2 c3 hsn c4 c5 hnd
          · by_cases b5 : (P.sib.child P.d).isRed = true
            · have e : absStep kn (P :: up) S = (⟨S.rootIdx, S.key, true, d, S.child (!d)⟩ ::
                  ⟨P.i, P.k, false, P.d, (P.sib.child P.d).child P.d⟩ ::
                  ⟨(P.sib.child P.d).rootIdx, (P.sib.child P.d).key, true, P.d,
                    mkT P.sib.rootIdx P.sib.key false P.d ((P.sib.child P.d).child (!P.d)) (P.sib.child (!P.d))⟩ :: up,
                  S.child d) := by
                simp only [absStep, hdd]; rw [if_pos b1, if_neg b2, if_neg b3, if_neg b4, if_pos b5]
              rw [e] at hnd ⊢
              exact inv_dbl inv hS d hdd c1 c2 c3 hsn b5 hnd
            · have c5 : (P.sib.child P.d).isRed = false := by revert b5; cases (P.sib.child P.d).isRed <;> simp
              have c4 : (P.sib.child (!P.d)).isRed = true := by
                revert b4; rw [c5]; cases (P.sib.child (!P.d)).isRed <;> simp
              have e : absStep kn (P :: up) S = (⟨S.rootIdx, S.key, true, d, S.child (!d)⟩ ::
                  ⟨P.i, P.k, false, P.d, P.sib.child P.d⟩ ::
                  ⟨P.sib.rootIdx, P.sib.key, true, P.d, (P.sib.child (!P.d)).setRed false⟩ :: up, S.child d) := by
                simp only [absStep, hdd]; rw [if_pos b1, if_neg b2, if_neg b3, if_neg b4, if_neg b5]
              rw [e] at hnd ⊢
              exact inv_sgl inv hS d hdd c1 c2 c3 hsn c5 c4 hnd
  · have e : absStep kn ctx S = (⟨S.rootIdx, S.key, S.isRed, d, S.child (!d)⟩ :: ctx, S.child d) := by
      simp only [absStep, hdd]; rw [if_neg b1]
    rw [e] at hnd ⊢
    subst hdd
    obtain ⟨ht, hp⟩ := step_noop node st _ _ hq hd (Or.inl (by
      rw [hrq, hrc]; revert b1; cases (!S.isRed && !(S.child (decide (S.key < kn))).isRed) <;> simp))
    exact inv_noop inv hS ht hp hnd

theorem absStep_snd (kn : Nat) (ctx : List Frame) (S : T) :
    (absStep kn ctx S).2 = S.child (decide (S.key < kn)) := by
  simp only [absStep]
  repeat' split
  all_goals rfl

theorem _root_.AsmjitVerif.Tree.Spec.T.child_height (t : T) (hn : t.isNil = false) (d : Bool) :
    (t.child d).height < t.height := by
  cases t with
  | nil => simp [T.isNil] at hn
  | node i k c l r => cases d <;> simp [T.child, T.height] <;> omega

theorem _root_.AsmjitVerif.Tree.Spec.T.isNil_eq {t : T} (h : t.isNil = true) : t = .nil := by
  cases t <;> simp_all [T.isNil]

/-- THE PUSH-DOWN LOOP: from any invariant state with enough fuel the loop ends in an invariant state whose
    subtree below the hole is empty, and the whole tree keeps its in-order (index, key) sequence. -/
theorem removeLoop_inv (kn node : Nat) : ∀ (fuel : Nat) (st : RmState) (ctx : List Frame) (S : T),
    Inv kn node st ctx S → S.height ≤ fuel →
    ∃ ctx', Inv kn node (removeLoop fuel node st) ctx' .nil ∧ (plug ctx' .nil).io = (plug ctx S).io ∧
      ctx'.length ≤ ctx.length + 3 * S.height := by
  intro fuel
  induction fuel with
  | zero =>
    intro st ctx S inv hh
    have : S = .nil := by
      cases S with
      | nil => rfl
      | node => simp [T.height] at hh
    subst this
    exact ⟨ctx, inv, rfl, by omega⟩
  | succ fuel ih =>
    intro st ctx S inv hh
    rw [removeLoop_succ]
    by_cases hS : S.isNil = true
    · have h0 : child st.t st.q st.dir = 0 := by
        rw [inv.hq, inv.hdir]; exact inv.reps.isNil_iff.mp hS
      rw [if_pos h0]
      have := T.isNil_eq hS; subst this
      exact ⟨ctx, inv, rfl, by omega⟩
    · have hS' : S.isNil = false := by revert hS; cases S.isNil <;> simp
      obtain ⟨hq0, hq, _⟩ := inv.qfacts hS'
      rw [if_neg (by rw [hq]; exact hq0)]
      have hlt := T.child_height S hS' (decide (S.key < kn))
      have hlen : (absStep kn ctx S).1.length ≤ ctx.length + 3 := by
        simp only [absStep]
        repeat' split
        all_goals simp
      obtain ⟨ctx', i', e', l'⟩ := ih _ _ _ (step_sim inv hS') (by rw [absStep_snd]; omega)
      refine ⟨ctx', i', e'.trans (absStep_io kn ctx S hS'), ?_⟩
      rw [absStep_snd] at l'
      omega

end AsmjitVerif.Tree.Rem
