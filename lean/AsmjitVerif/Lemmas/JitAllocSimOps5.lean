/- C09 refinement (model run ⊑ monitor): `JudgeOk` for release. -/
import AsmjitVerif.Lemmas.JitAllocSimGood
namespace AsmjitVerif.JitAlloc
open Spec

theorem judge_release {g : Ghost} {s : St} (hS : Sim g s) (hG : Good s) (h : Nat) : JudgeOk g s (.release h) := by
  have hG' := hG.step (.release h)
  have hget := hS.getH h
  cases hx : g.tab[h]? with
  | none =>
    rw [hx] at hget
    simp only [Option.map_none] at hget
    exact ⟨g, by simp [step, judge, hget, hx], by simp only [step, hget]; exact hS⟩
  | some x =>
    rw [hx] at hget
    simp only [Option.map_some] at hget
    cases hl : x.live with
    | false =>
      have hl' : (toH x).live = false := hl
      exact ⟨g, by simp [step, judge, hget, hx, hl, hl'], by simp only [step, hget, hl']; simpa using hS⟩
    | true =>
      have hl' : (toH x).live = true := hl
      obtain ⟨hok, _⟩ := hG.inv.release_handle hget hl'
      have hstep : step s (.release h) = ({ a := (s.a.release x.blk x.off).1, tab := killHandle s.tab h }, .ok) := by
        simp only [step, hget, hl', Bool.not_true, Bool.false_eq_true, if_false]
        rcases hr : s.a.release (toH x).blk (toH x).off with ⟨a', (e | u)⟩
        · rw [hr] at hok; simp at hok
        · have : (s.a.release x.blk x.off).1 = a' := by
            show (s.a.release (toH x).blk (toH x).off).1 = a'
            rw [hr]
          rw [this]
      rw [hstep] at hG'
      have hst := (stats_of_pinv hG'.pool).1
      refine ⟨(g.kill h).afterRelease x.blk (step s (.release h)).1.a.stats, ?_, ?_⟩
      · rw [hstep]; simp [judge, hx, hl]
      · rw [hstep]
        exact sim_release hS hG.inv hG.mem hx hl _ hst

end AsmjitVerif.JitAlloc
