/- C08: an edit-free sequence of unconditional emitter calls linearises to itself (`serialize_replays`, restricted class). -/
import AsmjitVerif.Lemmas.C08Sim
import AsmjitVerif.Lemmas.C08Ops

namespace AsmjitVerif.Builder
open Spec

/-- the emitter's one-shot state (next instruction's options, extra register, inline comment) -/
structure OneShot where
  opts : Nat := 0
  extra : String := "-"
  cmt : String := "-"

/-- what an Assembler is handed by a sequence of unconditional emitter calls (written down independently of the Builder):
    the state setters accumulate, an instruction consumes and resets them, everything else is passed through -/
def callsOf : OneShot → List Op → List Call
  | _, [] => []
  | st, .opts v :: r => callsOf { st with opts := st.opts ||| v } r
  | st, .extra s :: r => callsOf { st with extra := s } r
  | st, .icomment s :: r => callsOf { st with cmt := s } r
  | st, .inst id ops :: r => .inst id (clearReserved st.opts) st.extra st.cmt (normalizeOps ops) :: callsOf {} r
  | st, .align m n :: r => .align m n :: callsOf st r
  | st, .comment t :: r => .comment t :: callsOf st r
  | st, .embed b :: r => .data 35 (hexLen b) 1 b :: callsOf st r
  | st, _ :: r => callsOf st r

/-- the class of calls the Builder accepts unconditionally at call time -/
def Simple : Op → Prop
  | .opts _ | .extra _ | .icomment _ | .align _ _ | .comment _ | .embed _ => True
  | .inst _ l => l.length = 6
  | _ => False

/-- the insertion point is at the end and every linked node exists in the store -/
structure AtEnd (t : Spec.St) : Prop where
  gap : t.d.gap = t.d.items.length
  fresh : ∀ n ∈ t.d.items, n < t.f.nodes.length

def oneShotOf (f : Front) : OneShot := { opts := f.opts, extra := f.extra, cmt := f.cmt }

theorem nodeAt_append_left (f f' : Front) (P : Node) (h : f'.nodes = f.nodes ++ [P]) (n : Nat) (hn : n < f.nodes.length) :
    nodeAt f' n = nodeAt f n := by
  simp [nodeAt, h, List.getD_eq_getElem?_getD, List.getElem?_append_left hn]

theorem nodeAt_append_new (f f' : Front) (P : Node) (h : f'.nodes = f.nodes ++ [P]) : nodeAt f' f.nodes.length = P := by
  simp [nodeAt, h, List.getD_eq_getElem?_getD]

/-- appending a fresh node at the end -/
theorem step_add_fresh (t : Spec.St) (P : Node) (f' : Front) (hnodes : f'.nodes = t.f.nodes ++ [P]) (h : AtEnd t) :
    let t' : Spec.St := { f := f', d := t.d.apply (.add t.f.nodes.length) }
    AtEnd t' ∧ linearize t' = linearize t ++ [P.toCall] := by
  have hnot : t.f.nodes.length ∉ t.d.items := fun hm => Nat.lt_irrefl _ (h.fresh _ hm)
  have hd : t.d.apply (.add t.f.nodes.length) =
      { t.d with items := t.d.items ++ [t.f.nodes.length], gap := t.d.items.length + 1 } := by
    simp only [Doc.apply]
    rw [if_neg (by simp [Doc.has, hnot])]
    rw [h.gap, List.insertIdx_length_self]
  refine ⟨⟨?_, ?_⟩, ?_⟩
  · simp [hd]
  · intro n hn
    simp only [hd, List.mem_append, List.mem_singleton] at hn
    rw [hnodes]; simp only [List.length_append, List.length_singleton]
    rcases hn with hn | rfl
    · exact Nat.lt_succ_of_lt (h.fresh n hn)
    · exact Nat.lt_succ_self _
  · simp only [linearize, hd, List.map_append, List.map_cons, List.map_nil, nodeAt_append_new _ _ _ hnodes]
    congr 1
    apply List.map_congr_left
    intro n hn
    rw [nodeAt_append_left _ _ _ hnodes n (h.fresh n hn)]

theorem step_state_only (t : Spec.St) (f' : Front) (hnodes : f'.nodes = t.f.nodes) (h : AtEnd t) :
    let t' : Spec.St := { f := f', d := t.d }
    AtEnd t' ∧ linearize t' = linearize t := by
  refine ⟨⟨h.gap, ?_⟩, ?_⟩
  · intro n hn; rw [hnodes]; exact h.fresh n hn
  · simp [linearize, nodeAt, hnodes]

theorem simple_step (t : Spec.St) (op : Op) (hs : Simple op) (h : AtEnd t) :
    AtEnd (Spec.step t op).1 ∧
    linearize (Spec.step t op).1 ++ callsOf (oneShotOf (Spec.step t op).1.f) rest =
      linearize t ++ callsOf (oneShotOf t.f) (op :: rest) := by
  cases op with
  | opts v =>
    have := step_state_only t { t.f with opts := t.f.opts ||| v } rfl h
    simpa [Spec.step, Spec.rangePre, front, callsOf, oneShotOf] using this
  | extra s =>
    have := step_state_only t { t.f with extra := s } rfl h
    simpa [Spec.step, Spec.rangePre, front, callsOf, oneShotOf] using this
  | icomment s =>
    have := step_state_only t { t.f with cmt := s } rfl h
    simpa [Spec.step, Spec.rangePre, front, callsOf, oneShotOf] using this
  | align m n =>
    have := step_add_fresh t (.align m n) { t.f with nodes := t.f.nodes ++ [.align m n] } rfl h
    obtain ⟨h1, h2⟩ := this
    refine ⟨by simpa [Spec.step, Spec.rangePre, front, Front.newNode] using h1, ?_⟩
    simp only [Spec.step, Spec.rangePre, front, Front.newNode, List.foldl_cons, List.foldl_nil, Bool.not_true,
      Bool.false_eq_true, if_false] at h2 ⊢
    simp [h2, callsOf, oneShotOf, Node.toCall]
  | comment c =>
    have := step_add_fresh t (.comment c) { t.f with nodes := t.f.nodes ++ [.comment c] } rfl h
    obtain ⟨h1, h2⟩ := this
    refine ⟨by simpa [Spec.step, Spec.rangePre, front, Front.newNode] using h1, ?_⟩
    simp only [Spec.step, Spec.rangePre, front, Front.newNode, List.foldl_cons, List.foldl_nil, Bool.not_true,
      Bool.false_eq_true, if_false] at h2 ⊢
    simp [h2, callsOf, oneShotOf, Node.toCall]
  | embed b =>
    have := step_add_fresh t (.data 35 (hexLen b) 1 b) { t.f with nodes := t.f.nodes ++ [.data 35 (hexLen b) 1 b] } rfl h
    obtain ⟨h1, h2⟩ := this
    refine ⟨by simpa [Spec.step, Spec.rangePre, front, Front.newNode] using h1, ?_⟩
    simp only [Spec.step, Spec.rangePre, front, Front.newNode, List.foldl_cons, List.foldl_nil, Bool.not_true,
      Bool.false_eq_true, if_false] at h2 ⊢
    simp [h2, callsOf, oneShotOf, Node.toCall]
  | inst id l =>
    have hl : l.length = 6 := hs
    obtain ⟨a, b, c, d, e, f, rfl⟩ : ∃ a b c d e f, l = [a, b, c, d, e, f] := by
      match l, hl with
      | [a, b, c, d, e, f], _ => exact ⟨a, b, c, d, e, f, rfl⟩
    have := step_add_fresh t
      (.inst id (clearReserved t.f.opts) t.f.extra t.f.cmt (opCountFromArgs [a, b, c, d, e, f]) (storeOps [a, b, c, d, e, f]))
      { t.f with nodes := t.f.nodes ++ [.inst id (clearReserved t.f.opts) t.f.extra t.f.cmt (opCountFromArgs [a, b, c, d, e, f])
                  (storeOps [a, b, c, d, e, f])], opts := 0, extra := "-", cmt := "-" } rfl h
    obtain ⟨h1, h2⟩ := this
    refine ⟨by simpa [Spec.step, Spec.rangePre, front, Front.newNode] using h1, ?_⟩
    simp only [Spec.step, Spec.rangePre, front, Front.newNode, List.foldl_cons, List.foldl_nil, Bool.not_true,
      Bool.false_eq_true, if_false] at h2 ⊢
    simp [h2, callsOf, oneShotOf, Node.toCall, replay_store_eq]
  | _ => exact absurd hs (by simp [Simple])

theorem simple_run : ∀ (ops : List Op) (t : Spec.St), (∀ op ∈ ops, Simple op) → AtEnd t →
    linearize (Spec.run t ops) = linearize t ++ callsOf (oneShotOf t.f) ops := by
  intro ops
  induction ops with
  | nil => intro t _ _; simp [Spec.run, callsOf]
  | cons op rest ih =>
    intro t hs h
    have hstep := simple_step (rest := rest) t op (hs op (by simp)) h
    have := ih (Spec.step t op).1 (fun o ho => hs o (by simp [ho])) hstep.1
    simp only [Spec.run, List.foldl_cons] at this ⊢
    rw [this, hstep.2]

end AsmjitVerif.Builder
