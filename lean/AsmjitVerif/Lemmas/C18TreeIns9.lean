/-
C18 — ArenaTree insert, part 9: the bottom insertion (mode `N`, `q == nullptr`) and the loop theorem
`loop_spec`.  Core-only.
-/
import AsmjitVerif.Lemmas.C18TreeIns8
namespace AsmjitVerif.Tree.Ins
open AsmjitVerif.Tree AsmjitVerif.Tree.Spec

theorem step_N_nil {C : Cfg} {fuel : Nat} (hs : Sorted C.K0)
    {ctx : List Frame} {h : Tree} {g p tt q : Nat} {dir last : Bool}
    (core : CoreH C C.K0 C.I0 h (plug ctx .nil)) (fresh : Fresh C h) (bnd : Bnd C.k ctx) (col : Col (plug ctx .nil))
    (hq : Rep h q .nil) (hm : ModeOK C.k .N ctx .nil g p tt dir last) :
    Post C (insertLoop (fuel + 1) h C.node g p tt q dir last) := by
  obtain ⟨vp, vg, vt, cn⟩ := hm
  have hq0 : q = 0 := (Rep_nil_iff hq).2 rfl
  subst hq0
  cases ctx with
  | nil => exact absurd rfl cn.1
  | cons f rest =>
  have vp' := vp
  simp only [VP] at vp'
  obtain ⟨ep, ed⟩ := vp'
  have hge := ctx_idx_ge core.rep
  have hf2 : 2 ≤ f.idx := hge f.idx (by simp [ctxIdxs])
  have erec : recolor h C.node p 0 dir = (setChild h f.idx f.dir C.node, C.node) := by
    simp only [recolor, if_true, ep, ed]
  rw [insertLoop_succ]
  simp only [erec, if_true]
  -- the heap after linking the new node
  have so0 : SameOut [f.idx] h (setChild h f.idx f.dir C.node) := SameOut.upd [f.idx] h f.idx _ (by simp)
  have hnodup := core.nodup
  simp only [plug] at hnodup
  have hdis := plug_disjoint hnodup
  have hndF := plug_nodup_sub hnodup
  simp only [Frame.fill, nodup_nodeD] at hndF
  have hnodeI : ∀ i ∈ ctxIdxs (f :: rest), i ∈ C.I0 := fun i hi =>
    core.idxs.mem_iff.1 (mem_idxs_plug.2 (Or.inr hi))
  have hnf : C.node ≠ f.idx := fun e => fresh.notin (hnodeI _ (by simp [ctxIdxs, e]))
  have hflt : f.idx < h.nodes.size := (Rep_idx_ge core.rep f.idx (mem_idxs_plug.2 (Or.inr (by simp [ctxIdxs])))).2
  have cf : nd (setChild h f.idx f.dir C.node) f.idx = setc (nd h f.idx) f.dir C.node := by
    rw [setChild_upd, nd_upd_same _ _ _ (by omega) hflt]
  have cnode : nd (setChild h f.idx f.dir C.node) C.node = { key := C.k, red := true } := by
    rw [so0.cells C.node (by simp only [List.mem_singleton]; exact hnf)]; exact fresh.cell
  have eroot : rootOf (setChild h f.idx f.dir C.node) = rootOf h := by
    simp only [rootOf]; rw [so0.cells 1 (by simp only [List.mem_singleton]; omega)]
  generalize setChild h f.idx f.dir C.node = h1 at *
  have rleaf : Rep h1 C.node (.node C.node C.k true .nil .nil) := by
    refine .node fresh.ge (by rw [so0.size]; exact fresh.lt) (by rw [cnode]) (by rw [cnode]) ?_ ?_
    · rw [cnode]; exact .nil
    · rw [cnode]; exact .nil
  have rep1 : Rep h1 (rootOf h1) (plug (f :: rest) (.node C.node C.k true .nil .nil)) := by
    rw [eroot]
    simp only [plug]
    refine rep_plug_replace (ctx := rest) core.rep ?_ (by rw [so0.size]; exact Nat.le_refl _) ?_
    · intro i hi
      refine so0.cells i ?_
      simp only [List.mem_singleton]
      intro e
      exact hdis f.idx (by simp [Frame.fill, mem_idxs_nodeD]) (e ▸ hi)
    · intro n rn
      simp only [Frame.fill, Rep_nodeD] at rn ⊢
      obtain ⟨en, f2, fl, fk, fc, rN, rS⟩ := rn
      subst en
      refine ⟨rfl, f2, by rw [so0.size]; exact fl, by rw [cf]; simp [fk], by rw [cf]; simp [fc], ?_, ?_⟩
      · rw [child_childOf, cf, childOf_setc_same]; exact rleaf
      · rw [child_childOf, cf, childOf_setc_other, ← child_childOf]
        refine Rep_sameOut rS so0 ?_
        intro i hi
        simp only [List.mem_singleton]
        exact fun e => hndF.2.1 (e ▸ hi)
  have permLeaf : (plug (f :: rest) (.node C.node C.k true .nil .nil)).idxs.Perm (C.node :: C.I0) := by
    refine (idxs_plug_perm _ _).trans ?_
    simp only [T.idxs, List.nil_append, List.cons_append]
    refine List.Perm.cons _ ?_
    have := (idxs_plug_perm (f :: rest) .nil).symm.trans core.idxs
    simpa [T.idxs] using this
  have nd1 : (plug (f :: rest) (.node C.node C.k true .nil .nil)).idxs.Nodup := by
    rw [permLeaf.nodup_iff, List.nodup_cons]
    exact ⟨fresh.notin, core.idxs.nodup_iff.1 core.nodup⟩
  have keysLeaf : (plug (f :: rest) (.node C.node C.k true .nil .nil)).keys = setInsert C.k C.K0 := by
    have hK : C.K0 = keysL (f :: rest) ++ keysR (f :: rest) := by
      rw [← core.keys, keys_plug]; simp [T.keys]
    rw [keys_plug, hK]
    simp only [T.keys, List.nil_append, List.append_assoc, List.cons_append]
    rw [hK] at hs
    obtain ⟨s1, s2, s3⟩ := sorted_append.1 hs
    exact (setInsert_mid (sorted_mid.2 ⟨s1, s2, bnd.1, bnd.2, s3⟩)).symm
  have one1 : 1 < h1.nodes.size := by rw [so0.size]; exact core.one
  obtain ⟨ctx2, Q2, r2, perm2, keys2, so2, col2, _⟩ :=
    fixup_spec (Qold := .nil) (g := g) (p := p) (tt := tt) (dir := dir) (last := last)
      rep1 nd1 one1 rleaf rfl ⟨(fun _ => ⟨rfl, rfl⟩), trivial, trivial⟩ col
      (by intro m hm; cases hm; exact .red .nil .nil) cn vp vg vt
  refine ⟨plug ctx2 Q2, ⟨r2, perm2.nodup_iff.2 nd1, keys2.trans keysLeaf, perm2.trans permLeaf, ?_, ?_⟩, col2⟩
  · refine core.same.trans ((so0.mono ?_).trans (so2.mono ?_))
    · intro i hi
      simp only [List.mem_singleton] at hi
      simp only [List.mem_cons]
      exact Or.inr (Or.inr (hnodeI i (by simp [ctxIdxs, hi])))
    · intro i hi
      simp only [List.mem_cons] at hi ⊢
      rcases hi with hi | hi
      · exact Or.inl hi
      · have := permLeaf.mem_iff.1 hi
        simp only [List.mem_cons] at this
        exact Or.inr this
  · rw [so2.size]; exact one1

/-- the `for (;;)` loop of `insert`: from any state satisfying the invariant, with enough fuel, the loop ends in a
heap that represents a tree with the key inserted, no red-red edge, equal black heights -/
theorem loop_spec (C : Cfg) (hs : Sorted C.K0) (hk : C.k ∉ C.K0) : ∀ fuel, LoopIH C fuel := by
  intro fuel
  induction fuel with
  | zero =>
    intro mode ctx Q h g p tt q dir last _ _ _ _ _ _ hf
    cases mode with
    | N => obtain ⟨n, _, hfu⟩ := hf; omega
    | F => obtain ⟨n, _, hfu⟩ := hf; omega
    | D1 => obtain ⟨n, _, hfu⟩ := hf; omega
  | succ fuel ih =>
    intro mode ctx Q h g p tt q dir last core fresh bnd col hq hm hf
    cases mode with
    | F => exact step_F ih hs hk core fresh bnd col hq hm hf
    | D1 => exact step_D1 ih hs hk core fresh bnd col hq hm hf
    | N =>
      by_cases hQ : Q = .nil
      · subst hQ
        exact step_N_nil hs core fresh bnd col hq hm
      · by_cases hfl : (childD Q false).isRed = true ∧ (childD Q true).isRed = true
        · exact step_N_flip ih hs hk core fresh bnd col hq hm hf hfl
        · exact step_N_quiet ih hs hk core fresh bnd col hq hm hf hQ hfl

end AsmjitVerif.Tree.Ins
