/- C20 helper lemmas: the head of an x86 instruction line (option words + mnemonic) read back. -/
import AsmjitVerif.Lemmas.FormatNames
import AsmjitVerif.Lemmas.FormatMnemonics

namespace AsmjitVerif.Lemmas.FormatLine
open AsmjitVerif.Format AsmjitVerif.FormatText AsmjitVerif.Lemmas.FormatLex AsmjitVerif.Lemmas.FormatNum
open AsmjitVerif.Lemmas.FormatX86Mem AsmjitVerif.Lemmas.FormatLabels AsmjitVerif.Lemmas.FormatNames
open AsmjitVerif.Gen.FormatTabs AsmjitVerif.Lemmas.FormatMn

set_option maxRecDepth 1000000

theorem stops_space (r : Str) : StopsAt notSpace (' ' :: r) := Or.inr ⟨' ', r, rfl, by decide⟩

/-- reading the head words back: words (blank free, recognisable) each followed by a blank, then a word that is not a head word -/
theorem readHeadWords_spec : ∀ (ws : List Str) (fuel : Nat) (name rest : Str),
    ws.length < fuel →
    (∀ w ∈ ws, isHeadWord w = true ∧ ∀ c ∈ w, notSpace c = true) →
    (∀ c ∈ name, notSpace c = true) → isHeadWord name = false → (rest = [] ∨ ∃ r, rest = ' ' :: r) →
    readHeadWords fuel (ws.flatMap (fun w => w ++ [' ']) ++ (name ++ rest)) = (ws, name ++ rest)
  | [], fuel, name, rest, hf, _, hn, hnh, hr => by
    cases fuel with
    | zero => simp at hf
    | succ f =>
      simp only [List.flatMap_nil, List.nil_append, readHeadWords]
      rcases hr with h | ⟨r, h⟩
      · subst h
        have := takeWhile_append_stop notSpace name [] hn (Or.inl rfl)
        simp only [List.append_nil] at this ⊢
        rw [this.2]
      · subst h
        have := takeWhile_append_stop notSpace name (' ' :: r) hn (stops_space r)
        rw [this.2, this.1]
        simp [hnh]
  | w :: ws, fuel, name, rest, hf, hw, hn, hnh, hr => by
    cases fuel with
    | zero => simp at hf
    | succ f =>
      obtain ⟨hwh, hwc⟩ := hw w (List.mem_cons_self ..)
      have hws : ∀ x ∈ ws, isHeadWord x = true ∧ ∀ c ∈ x, notSpace c = true := fun x hx => hw x (List.mem_cons_of_mem _ hx)
      have e : (w :: ws).flatMap (fun w => w ++ [' ']) ++ (name ++ rest) =
          w ++ (' ' :: (ws.flatMap (fun w => w ++ [' ']) ++ (name ++ rest))) := by simp
      have := takeWhile_append_stop notSpace w (' ' :: (ws.flatMap (fun w => w ++ [' ']) ++ (name ++ rest))) hwc (stops_space _)
      rw [e]
      simp only [readHeadWords]
      rw [this.2, this.1]
      have ih := readHeadWords_spec ws f name rest (by simp at hf; omega) hws hn hnh hr
      simp [hwh, ih]

/-! ### the words `format_instruction` prints are head words; mnemonics are not -/

theorem fixed_words_ok : ∀ w ∈ x86PrefixWordsL, isHeadWord w = true ∧ ∀ c ∈ w, notSpace c = true := by decide

theorem mem_ite_single {α : Type} (c : Prop) [Decidable c] (a w : α) (h : w ∈ (if c then [a] else [])) : w = a := by
  split at h <;> simp_all

/-- the register shown after `rep` -/
def repWord (flags : Nat) (env : Env) (extra : ExtraReg) : Str :=
  ['{'] ++ x86FormatOperand flags env (.reg extra.type extra.id 0 none) ++ ['}']

theorem headWords_mem (flags : Nat) (env : Env) (options : Nat) (extra : ExtraReg) :
    ∀ w ∈ x86HeadWords flags env options extra, w ∈ x86PrefixWordsL ∨ (w = repWord flags env extra ∧ extra.isReg = true) := by
  intro w hw
  unfold x86HeadWords at hw
  simp only [List.mem_append] at hw
  rcases hw with ((((((((((h | h) | h) | h) | h) | h) | h) | h) | h) | h) | h)
  · left; rw [mem_ite_single _ _ _ h]; decide
  · left; rw [mem_ite_single _ _ _ h]; decide
  · left; rw [mem_ite_single _ _ _ h]; decide
  · left
    split at h
    · simp only [List.mem_singleton] at h; rw [h]; decide
    · rw [mem_ite_single _ _ _ h]; decide
  · left; rw [mem_ite_single _ _ _ h]; decide
  · left; rw [mem_ite_single _ _ _ h]; decide
  · left; rw [mem_ite_single _ _ _ h]; decide
  · left; rw [mem_ite_single _ _ _ h]; decide
  · left; rw [mem_ite_single _ _ _ h]; decide
  · split at h
    · simp only [List.mem_append, List.mem_singleton] at h
      rcases h with h | h
      · left; rw [h]; split <;> decide
      · right
        split at h
        · rename_i hr
          simp only [List.mem_singleton] at h
          exact ⟨h, hr⟩
        · simp at h
    · simp at h
  · left; rw [mem_ite_single _ _ _ h]; decide

theorem words_length_le : ∀ ws : List Str, ws.length ≤ (ws.flatMap (fun w => w ++ [' '])).length
  | [] => by simp
  | w :: ws => by
    have := words_length_le ws
    simp only [List.flatMap_cons, List.length_append, List.length_cons, List.length_nil]
    omega

theorem instName_ok (flags id : Nat) (hid : id < x86InstCount) :
    isHeadWord (x86InstName flags id) = false ∧ ∀ c ∈ x86InstName flags id, notSpace c = true := by
  unfold x86InstCount at hid
  have hsz := alias_size
  have hlt : id < x86AliasNames.size := by omega
  have k1 := mnemonics_ok.1 (x86InstNames[id]'hid) (by simp)
  have k2 := mnemonics_ok.2 (x86AliasNames[id]'hlt) (by simp)
  unfold x86InstName
  split
  · simpa [Array.getD, hlt] using k2
  · simpa [Array.getD, hid] using k1

/-- reading the head of any x86 instruction line back: exactly the words printed, then the mnemonic -/
theorem head_read (flags : Nat) (env : Env) (instId options : Nat) (extra : ExtraReg) (rest : Str)
    (hid : instId < x86InstCount)
    (hrep : extra.isReg = true → ∀ c ∈ repWord flags env extra, notSpace c = true)
    (hr : rest = [] ∨ ∃ r, rest = ' ' :: r) :
    readHeadWords ((x86FormatHead flags env instId options extra ++ rest).length + 1) (x86FormatHead flags env instId options extra ++ rest) =
      (x86HeadWords flags env options extra, x86InstName flags instId ++ rest) := by
  unfold x86FormatHead
  simp only [hid, if_true, List.append_assoc]
  obtain ⟨hn1, hn2⟩ := instName_ok flags instId hid
  have hlen : (x86HeadWords flags env options extra).length <
      ((x86HeadWords flags env options extra).flatMap (fun w => w ++ [' ']) ++ (x86InstName flags instId ++ rest)).length + 1 := by
    have := words_length_le (x86HeadWords flags env options extra)
    simp only [List.length_append]; omega
  apply readHeadWords_spec _ _ _ rest hlen _ hn2 hn1 hr
  intro w hw
  rcases headWords_mem flags env options extra w hw with h | ⟨h, hreg⟩
  · exact fixed_words_ok w h
  · rw [h]
    exact ⟨by simp [isHeadWord, repWord], hrep hreg⟩

end AsmjitVerif.Lemmas.FormatLine
