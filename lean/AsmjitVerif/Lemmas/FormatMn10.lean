/- C20 helper lemma (table): AArch64 instruction names (id ≥ 1) are non-empty and contain neither a blank nor a dot;
   condition-code names likewise, and the reader knows them. -/
import AsmjitVerif.Spec.FormatText

namespace AsmjitVerif.Lemmas.FormatMn
open AsmjitVerif.Format AsmjitVerif.FormatText AsmjitVerif.Gen.FormatTabs

set_option maxRecDepth 1000000

theorem a64_names_ok : ∀ n ∈ a64InstNames.toList.drop 1,
    n.toList ≠ [] ∧ ∀ c ∈ n.toList, notSpace c = true ∧ notDot c = true := by decide +kernel

theorem cond_names_ok : ∀ cc ∈ [1, 2, 3, 4, 5, 6, 7, 8, 9, 10, 11, 12, 13, 14, 15],
    condNames.any (fun x => x.toList == armCondCode cc) = true ∧
    (∀ c ∈ armCondCode cc, notSpace c = true) := by decide

end AsmjitVerif.Lemmas.FormatMn
