/- C09 refinement (model run ⊑ monitor): `JudgeOk` for reset. -/
import AsmjitVerif.Lemmas.JitAllocSimAlloc3
namespace AsmjitVerif.JitAlloc
open Spec

theorem judge_reset {g : Ghost} {s : St} (hS : Sim g s) (hG : Good s) (hard : Bool) : JudgeOk g s (.reset hard) := by
  have hI := hG.inv
  have hpw := kept_pairwise (a := s.a) hard hI.ids
  generalize hk : (s.a.blocks.filterMap fun b => if s.a.keeps hard b then some (wipeOut s.a.cfg b) else none) = kept at hpw
  have hblocks : (s.a.reset hard).blocks = kept := by simp only [Alloc.reset, hk]
  have hkmem : ∀ x ∈ kept, ∃ y ∈ s.a.blocks, s.a.keeps hard y = true ∧ x = wipeOut s.a.cfg y := by
    intro x hx
    rw [← hk] at hx
    obtain ⟨y, hy, hf⟩ := List.mem_filterMap.mp hx
    by_cases ky : s.a.keeps hard y = true
    · simp [ky] at hf; exact ⟨y, hy, ky, hf.symm⟩
    · simp [ky] at hf
  have hstat : ∀ y : Block, (wipeOut s.a.cfg y).blockSize = y.blockSize := by
    intro y; unfold wipeOut; split; rfl; split <;> rfl
  let g' : Ghost := { g with tab := g.tab.map fun _ => deadGH,
                             blocks := (blockListOf (s.a.reset hard)).map fun (id, p, sz, _) => { id, pool := p, size := sz } }
  refine ⟨g', ?_, ?_⟩
  · simp only [step, judge]
    have h1 : (blockListOf (s.a.reset hard)).all (fun (id, p, sz, _) => g.blocks.any fun b => b.id == id && b.pool == p && b.size == sz) = true := by
      rw [List.all_eq_true]
      rintro ⟨id, p, sz, pd⟩ hm
      simp only [blockListOf, hblocks, List.mem_map, Prod.mk.injEq] at hm
      obtain ⟨x, hx, rfl, rfl, rfl, _⟩ := hm
      obtain ⟨y, hy, _, rfl⟩ := hkmem x hx
      rw [List.any_eq_true]
      refine ⟨toGB y, by rw [hS.blocks]; exact List.mem_map_of_mem hy, ?_⟩
      simp [toGB, (wipeOut_id s.a.cfg y).1, (wipeOut_id s.a.cfg y).2, hstat y]
    have h2 : (List.range g.cfg.poolCount).any (fun p =>
        decide (((blockListOf (s.a.reset hard)).filter fun x => x.2.1 == p).length > (if hard || g.cfg.immediate then 0 else 1))) = false := by
      rw [List.any_eq_false]
      intro p _
      have hlen : ((blockListOf (s.a.reset hard)).filter fun x => x.2.1 == p).length = agg (wCnt p) kept := by
        simp only [blockListOf, hblocks, List.filter_map, List.length_map, length_filter_eq_agg]
        apply agg_congr_mem
        intro b _
        simp [Function.comp, wCnt]
      rw [hlen]
      have e1 : agg (wCnt p) kept = (match kept.find? (·.pool == p) with | some _ => 1 | none => 0) := agg_find p (fun _ => 1) kept hpw
      have hle : agg (wCnt p) kept ≤ 1 := by rw [e1]; split <;> omega
      by_cases hc : (hard || g.cfg.immediate) = true
      · have : kept = [] := by
          rw [← hk]
          apply List.filterMap_eq_nil_iff.mpr
          intro y _
          have : s.a.keeps hard y = false := by
            unfold Alloc.keeps
            rw [hS.cfg] at hc
            cases hard <;> simp_all
          simp [this]
        simp [this, hc]
      · simp [hc]; omega
    simp only [List.any_eq_false, List.mem_range, decide_eq_true_eq] at h2
    simp [h1]
    rw [if_neg]
    rintro ⟨x, hx, hlt⟩
    exact h2 x hx (by simpa using hlt)
  · refine ⟨hS.cfg, ?_, ?_, ?_⟩
    · simp only [step, g', List.map_map]
      rw [← hS.tab, List.map_map]
      apply List.map_congr_left
      intro x _
      rfl
    · simp only [step, g', blockListOf, List.map_map]
      apply List.map_congr_left
      intro b _
      rfl
    · intro i x hx hl
      simp only [g', List.getElem?_map] at hx
      cases hgi : g.tab[i]? with
      | none => rw [hgi] at hx; simp at hx
      | some y => rw [hgi] at hx; simp at hx; rw [← hx] at hl; simp [deadGH] at hl

end AsmjitVerif.JitAlloc
