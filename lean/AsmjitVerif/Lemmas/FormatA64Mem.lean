/- C20 helper lemmas: the AArch64 memory operand text as pieces and the reader on it. -/
import AsmjitVerif.Lemmas.FormatRegs

namespace AsmjitVerif.Lemmas.FormatA64Mem
open AsmjitVerif.Format AsmjitVerif.FormatText AsmjitVerif.Lemmas.FormatLex AsmjitVerif.Lemmas.FormatNum
open AsmjitVerif.Lemmas.FormatX86Mem

def baseTok (env : Env) (m : A64Mem) : Str := a64MemBaseText env m
def offVal (m : A64Mem) : Nat := effOff (m.base ≠ MemBase.none) m.off
def offPiecesOf (flags : Nat) (m : A64Mem) (off : Nat) : List Piece :=
  if off ≠ 0 ∨ (m.mode = 2 ∧ m.index.isNone) then [(some ',', []), (some ' ', numTok (hasBit flags ffHexOffsets) off)] else []

theorem off_flatten (flags : Nat) (m : A64Mem) (off : Nat) :
    flattenPieces (offPiecesOf flags m off) = a64MemOffTextOf flags m off := by
  unfold offPiecesOf a64MemOffTextOf numTok
  split <;> simp_all [flattenPieces]

def shiftShown (m : A64Mem) : Prop := m.shift ≠ 0 ∨ (m.index.isSome ∧ m.mode = 0 ∧ m.shiftOp ≠ 0)
instance (m : A64Mem) : Decidable (shiftShown m) := by unfold shiftShown; infer_instance

def pieces (flags : Nat) (env : Env) (m : A64Mem) : List Piece :=
  [(some '[', baseTok env m)] ++ (if m.mode = 2 then [(some ']', [])] else []) ++
  (match m.index with | some (t, id) => [(some ',', []), (some ' ', armFormatRegister env t id)] | none => []) ++
  offPiecesOf flags m (offVal m) ++
  (if shiftShown m then
     [(some ' ', if m.mode = 0 then armShiftOp m.shiftOp else [])] ++ (if m.shift ≠ 0 then [(some ' ', uintStr m.shift)] else [])
   else []) ++
  (if m.mode ≠ 2 then [(some ']', [])] else []) ++ (if m.mode = 1 then [(some '!', [])] else [])

theorem a64FormatMem_eq (flags : Nat) (env : Env) (m : A64Mem) :
    a64FormatMem flags env m = flattenPieces (pieces flags env m) := by
  unfold a64FormatMem pieces
  simp only [flatten_append]
  congr 1
  · congr 1
    · congr 1
      · congr 1
        · congr 1
          · congr 1
            · simp [flattenPieces, baseTok]
            · split <;> simp [flattenPieces]
          · unfold a64MemIndexText
            cases m.index with
            | none => simp [flattenPieces]
            | some p => obtain ⟨t, id⟩ := p; simp [flattenPieces]
        · exact (off_flatten flags m _).symm
      · unfold a64MemShiftText shiftShown
        by_cases h : m.shift = 0 <;>
          by_cases c : (m.index.isSome = true ∧ m.mode = 0 ∧ m.shiftOp ≠ 0) <;> simp [h, c, flattenPieces]
    · split <;> simp [flattenPieces]
  · split <;> simp [flattenPieces]

end AsmjitVerif.Lemmas.FormatA64Mem
