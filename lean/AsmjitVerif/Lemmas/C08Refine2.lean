/- C08: refinement of remove_nodes (range removal). -/
import AsmjitVerif.Lemmas.C08Refine
import AsmjitVerif.Lemmas.C08Range

namespace AsmjitVerif.Builder
open Spec

/-- the removed segment, positionally -/
theorem seg_eq (l : List Nat) (a b : Nat) (hd : l.Nodup) (ha : a ∈ l) (hb : b ∈ l) (hij : l.idxOf a < l.idxOf b) :
    takeThrough (suffixFrom l a) b = (l.drop (l.idxOf a)).take (l.idxOf b - l.idxOf a + 1) := by
  have hbd : b ∈ l.drop (l.idxOf a) := (mem_drop_iff l _ b hd).mpr ⟨hb, Nat.le_of_lt hij⟩
  rw [suffixFrom_eq _ _ ha, takeThrough_eq _ _ hbd, idxOf_drop _ _ _ hb (Nat.le_of_lt hij)]

theorem mem_seg_iff (l : List Nat) (i j c : Nat) (hd : l.Nodup) (hij : i ≤ j) :
    c ∈ (l.drop i).take (j - i + 1) ↔ c ∈ l ∧ i ≤ l.idxOf c ∧ l.idxOf c ≤ j := by
  rw [mem_take_iff, mem_drop_iff _ _ _ hd]
  constructor
  · rintro ⟨⟨h1, h2⟩, h3⟩
    rw [idxOf_drop _ _ _ h1 h2] at h3
    exact ⟨h1, h2, by omega⟩
  · rintro ⟨h1, h2, h3⟩
    refine ⟨⟨h1, h2⟩, ?_⟩
    rw [idxOf_drop _ _ _ h1 h2]
    omega

theorem split3 (l : List Nat) (i j : Nat) (hij : i ≤ j) :
    l = l.take i ++ ((l.drop i).take (j - i + 1) ++ l.drop (j + 1)) := by
  have h1 := (List.take_append_drop i l).symm
  have h2 := (List.take_append_drop (j - i + 1) (l.drop i)).symm
  have h3 : (l.drop i).drop (j - i + 1) = l.drop (j + 1) := by
    rw [List.drop_drop]; congr 1; omega
  rw [h3] at h2
  rw [← h2]; exact h1

theorem cut_sublist (l : List Nat) (i j : Nat) (hij : i ≤ j) : (l.take i ++ l.drop (j + 1)).Sublist l := by
  have h3 : l.drop (j + 1) = (l.drop i).drop (j + 1 - i) := by
    rw [List.drop_drop]; congr 1; omega
  have := List.Sublist.append (List.Sublist.refl (l.take i)) (List.drop_sublist (j + 1 - i) (l.drop i))
  rw [List.take_append_drop, ← h3] at this
  exact this

theorem refine_removeRange (m : MList) (a b : Nat) (h : Inv m) :
    Inv (m.apply (.removeRange a b)) ∧ (m.apply (.removeRange a b)).abs = m.abs.apply (.removeRange a b) := by
  by_cases hab : a = b
  · subst hab
    have := refine_remove m a h
    simpa [MList.apply, Doc.apply] using this
  by_cases ha : a ∈ m.list
  case neg => simp [MList.apply, Doc.apply, Doc.has, MList.active, MList.abs, hab, ha, h]
  -- guard: `last` reachable from `first`  ⇔  b linked and behind a
  have hguard : b ∈ suffixFrom m.list a ↔ (b ∈ m.list ∧ m.list.idxOf a < m.list.idxOf b) := by
    rw [suffixFrom_eq _ _ ha, mem_drop_iff _ _ _ h.nodup]
    constructor
    · rintro ⟨hb, hle⟩
      have hne : m.list.idxOf a ≠ m.list.idxOf b := fun e => hab (idxOf_inj _ _ _ ha hb e)
      exact ⟨hb, by omega⟩
    · rintro ⟨hb, hlt⟩; exact ⟨hb, Nat.le_of_lt hlt⟩
  have hA : m.list.contains a = true := by simpa using ha
  by_cases hg : b ∈ m.list ∧ m.list.idxOf a < m.list.idxOf b
  case neg =>
    have hnS : (suffixFrom m.list a).contains b = false := by
      have : b ∉ suffixFrom m.list a := fun hh => hg (hguard.mp hh)
      simpa using this
    have hnSP : b ∉ suffixFrom m.list a := fun hh => hg (hguard.mp hh)
    have e1 : m.apply (.removeRange a b) = m := by
      simp only [MList.apply, hab, if_false]
      split
      · rfl
      · rw [if_pos (by simp [hnSP])]
    have e2 : m.abs.apply (.removeRange a b) = m.abs := by
      simp only [Doc.apply, hab, if_false]
      split
      · rfl
      · have hS : (m.list.contains b && decide (m.list.idxOf a < m.list.idxOf b)) = false := by
          cases hh : (m.list.contains b && decide (m.list.idxOf a < m.list.idxOf b))
          · rfl
          · exfalso; apply hg; simpa using hh
        rw [if_pos]
        · simp only [Doc.has, Doc.pos, MList.abs]
          simp
          by_cases hb' : b ∈ m.list
          · right
            have : ¬ (m.list.idxOf a < m.list.idxOf b) := fun hlt => hg ⟨hb', hlt⟩
            exact decide_eq_false this
          · left; exact hb'
    rw [e1, e2]; exact ⟨h, rfl⟩
  obtain ⟨hb, hij⟩ := hg
  have hG : (suffixFrom m.list a).contains b = true := by simpa using hguard.mpr ⟨hb, hij⟩
  have hB : m.list.contains b = true := by simpa using hb
  have hseg := seg_eq m.list a b h.nodup ha hb hij
  have hlist := removeRangeL_eq m.list a b ha hb hij
  have hps := prevOf_spec m.list a h.nodup ha
  have hle : m.list.idxOf a ≤ m.list.idxOf b := Nat.le_of_lt hij
  -- name the result
  have e : m.apply (.removeRange a b) =
      { m with list := m.list.take (m.list.idxOf a) ++ m.list.drop (m.list.idxOf b + 1),
               cursor := match m.cursor with
                 | some c => if ((m.list.drop (m.list.idxOf a)).take (m.list.idxOf b - m.list.idxOf a + 1)).contains c
                             then prevOf m.list a else some c
                 | none => none,
               dirty := m.dirty || ((m.list.drop (m.list.idxOf a)).take (m.list.idxOf b - m.list.idxOf a + 1)).any m.isSec } := by
    simp only [MList.apply, hab, if_false]
    rw [if_neg (by simp [MList.active, ha]), if_neg (by simp [hguard.mpr ⟨hb, hij⟩])]
    simp only [hseg, hlist]
    cases m.cursor <;> rfl
  have e2 : m.abs.apply (.removeRange a b) = m.abs.deleteBlock (m.list.idxOf a) (m.list.idxOf b) := by
    simp only [Doc.apply, hab, if_false]
    rw [if_neg (by simp [Doc.has, MList.abs, ha]), if_neg (by simp [Doc.has, Doc.pos, MList.abs, hb, hij])]
    simp only [Doc.pos, MList.abs]
  rw [e, e2]
  generalize hseg' : (m.list.drop (m.list.idxOf a)).take (m.list.idxOf b - m.list.idxOf a + 1) = seg
  have hmemseg : ∀ c, c ∈ seg ↔ c ∈ m.list ∧ m.list.idxOf a ≤ m.list.idxOf c ∧ m.list.idxOf c ≤ m.list.idxOf b := by
    intro c; rw [← hseg']; exact mem_seg_iff _ _ _ _ h.nodup hle
  obtain ⟨m', hm'⟩ : ∃ m' : MList, m' =
      { m with list := m.list.take (m.list.idxOf a) ++ m.list.drop (m.list.idxOf b + 1),
               cursor := (match m.cursor with
                 | some c => if seg.contains c then prevOf m.list a else some c
                 | none => none),
               dirty := m.dirty || seg.any m.isSec } := ⟨_, rfl⟩
  rw [← hm']
  have hl' : m'.list = m.list.take (m.list.idxOf a) ++ m.list.drop (m.list.idxOf b + 1) := by rw [hm']
  have hc' : m'.cursor = match m.cursor with
                 | some c => if seg.contains c then prevOf m.list a else some c
                 | none => none := by rw [hm']
  have hd' : m'.dirty = (m.dirty || seg.any m.isSec) := by rw [hm']
  have hn' : m'.nextSec = m.nextSec := by rw [hm']
  have hs' : m'.secNodes = m.secNodes := by rw [hm']
  -- the cursor after the removal, as a position
  have hgap : absCursor m'.list m'.cursor =
      (if absCursor m.list m.cursor ≤ m.list.idxOf a then absCursor m.list m.cursor
      else if absCursor m.list m.cursor ≤ m.list.idxOf b + 1 then m.list.idxOf a
      else absCursor m.list m.cursor - (m.list.idxOf b + 1 - m.list.idxOf a)) ∧
      (∀ c, m'.cursor = some c → c ∈ m'.list) := by
    rw [hc', hl']
    cases hcur : m.cursor with
    | none => simp [absCursor]
    | some c0 =>
      have hc0 := h.cur c0 hcur
      by_cases hin : c0 ∈ seg
      · have hh := (hmemseg c0).mp hin
        have hinB : seg.contains c0 = true := by simpa using hin
        have h1 : ¬ (m.list.idxOf c0 + 1 ≤ m.list.idxOf a) := by omega
        have h2 : m.list.idxOf c0 + 1 ≤ m.list.idxOf b + 1 := by omega
        simp only [hinB, if_true, absCursor, h1, h2, if_false]
        cases hp : prevOf m.list a with
        | none => rw [hp] at hps; simp [absCursor, hps]
        | some p =>
          rw [hp] at hps
          obtain ⟨hp1, _, hp3⟩ := hps
          refine ⟨?_, ?_⟩
          · simp only [absCursor]
            rw [idxOf_take_append _ _ _ _ (by omega) hp1]
            omega
          · intro c hc
            simp at hc; subst hc
            exact List.mem_append_left _ ((mem_take_iff _ _ _).mpr ⟨hp1, by omega⟩)
      · have hnot : ¬ (m.list.idxOf a ≤ m.list.idxOf c0 ∧ m.list.idxOf c0 ≤ m.list.idxOf b) :=
          fun hh => hin ((hmemseg c0).mpr ⟨hc0, hh⟩)
        have hinB : seg.contains c0 = false := by simpa using hin
        simp only [hinB, Bool.false_eq_true, if_false, absCursor]
        by_cases hlt : m.list.idxOf c0 < m.list.idxOf a
        · have h1 : m.list.idxOf c0 + 1 ≤ m.list.idxOf a := by omega
          simp only [h1, if_true]
          refine ⟨by rw [idxOf_take_append _ _ _ _ hlt hc0], ?_⟩
          intro c hc
          simp at hc; subst hc
          exact List.mem_append_left _ ((mem_take_iff _ _ _).mpr ⟨hc0, hlt⟩)
        · have hgt : m.list.idxOf b < m.list.idxOf c0 := by omega
          have h1 : ¬ (m.list.idxOf c0 + 1 ≤ m.list.idxOf a) := by omega
          have h2 : ¬ (m.list.idxOf c0 + 1 ≤ m.list.idxOf b + 1) := by omega
          simp only [h1, h2, if_false]
          refine ⟨by rw [idxOf_cut _ _ _ _ h.nodup hc0 hle hgt]; omega, ?_⟩
          intro c hc
          simp at hc; subst hc
          exact List.mem_append_right _ ((mem_drop_iff _ _ _ h.nodup).mpr ⟨hc0, by omega⟩)
  refine ⟨⟨?_, hgap.2, ?_⟩, ?_⟩
  · rw [hl']; exact (cut_sublist _ _ _ hle).nodup h.nodup
  · apply cache_keep m m' (seg.any m.isSec) hs' hn' hd' _ _ h.cache
    · intro hb'
      have hnil : seg.filter m.isSec = [] := by
        rw [List.filter_eq_nil_iff]
        exact List.any_eq_false.mp hb'
      rw [hl']
      conv => rhs; rw [split3 m.list _ _ hle]
      rw [hseg']
      simp [List.filter_append, hnil]
    · intro _ s hs _
      rw [hl'] at hs
      exact (cut_sublist _ _ _ hle).subset hs
  · simp only [MList.abs, Doc.deleteBlock, hl', hs']
    refine congrArg (fun g => ({ items := m.list.take (m.list.idxOf a) ++ m.list.drop (m.list.idxOf b + 1), gap := g,
                                 secNodes := m.secNodes } : Doc)) ?_
    rw [← hl']; exact hgap.1

end AsmjitVerif.Builder
