/- C20 helper lemmas: the whole AArch64 instruction line read back. -/
import AsmjitVerif.Lemmas.FormatA64Ops
import AsmjitVerif.Lemmas.FormatMn10

namespace AsmjitVerif.Lemmas.FormatA64Line
open AsmjitVerif.Format AsmjitVerif.FormatText AsmjitVerif.Lemmas.FormatLex AsmjitVerif.Lemmas.FormatNum
open AsmjitVerif.Lemmas.FormatX86Mem AsmjitVerif.Lemmas.FormatA64Mem AsmjitVerif.Lemmas.FormatOpKinds AsmjitVerif.Lemmas.FormatMn
open AsmjitVerif.Gen.FormatTabs

theorem a64_ops_tail (flags : Nat) (env : Env) : ∀ (ops : List Operand) (i : Nat), i ≠ 0 → (∀ o ∈ ops, o ≠ Operand.none) →
    a64FormatOps flags env i ops = ops.flatMap (fun o => ',' :: ' ' :: a64FormatOperand flags env o)
  | [], _, _, _ => by simp [a64FormatOps]
  | op :: rest, i, hi, hne => by
    have hop : op ≠ Operand.none := hne op (List.mem_cons_self ..)
    have ih := a64_ops_tail flags env rest (i + 1) (by omega) (fun o ho => hne o (List.mem_cons_of_mem _ ho))
    have hsep : (if i = 0 then " " else ", ").toList = [',', ' '] := by simp [hi]
    cases op <;> first | exact absurd rfl hop | simp [a64FormatOps, ih, hsep]

theorem a64_ops_text (flags : Nat) (env : Env) (op : Operand) (rest : List Operand) (hne : ∀ o ∈ op :: rest, o ≠ Operand.none) :
    a64FormatOps flags env 0 (op :: rest) = ' ' :: joinComma ((op :: rest).map (a64FormatOperand flags env)) := by
  have hop : op ≠ Operand.none := hne op (List.mem_cons_self ..)
  have ih := a64_ops_tail flags env rest 1 (by omega) (fun o ho => hne o (List.mem_cons_of_mem _ ho))
  rw [List.map_cons, joinComma_cons]
  cases op <;> first | exact absurd rfl hop | simp [a64FormatOps, ih, List.flatMap_map]

/-- a plain `[b]` memory operand may only be the last operand -/
def A64OpsOK : List Operand → Prop
  | [] => True
  | [_] => True
  | o :: r => ¬ plainMem o ∧ A64OpsOK r

theorem good_of (flags : Nat) (env : Env) : ∀ ops : List Operand, A64OpsOK ops → (∀ o ∈ ops, OpOKA flags env o) →
    GoodItems (ops.map (itemOf flags env))
  | [], _, _ => by simp [GoodItems]
  | [o], _, hok => by
    have hs := (hok o (List.mem_cons_self ..)).shape
    cases hi : itemOf flags env o with
    | one s => simp [GoodItems, hi]
    | two a b => rw [hi] at hs; simp [GoodItems, hi]; exact hs
  | o :: o' :: r, hg, hok => by
    have hg' : ¬ plainMem o ∧ A64OpsOK (o' :: r) := hg
    have ih := good_of flags env (o' :: r) hg'.2 (fun x hx => hok x (List.mem_cons_of_mem _ hx))
    have hs := (hok o (List.mem_cons_self ..)).shape
    simp only [List.map_cons] at ih ⊢
    cases hi : itemOf flags env o with
    | one s =>
      rw [hi] at hs
      have : ¬ opensGroup s := by rcases hs with h | h; exact h; exact absurd h hg'.1
      simp only [GoodItems]; exact ⟨this, ih⟩
    | two a b =>
      rw [hi] at hs
      simp only [GoodItems]; exact ⟨hs, ih⟩

theorem items_text (flags : Nat) (env : Env) : ∀ ops : List Operand, (∀ o ∈ ops, OpOKA flags env o) →
    (ops.map (itemOf flags env)).map Item.text = ops.map (a64FormatOperand flags env)
  | [], _ => rfl
  | o :: r, h => by
    simp only [List.map_cons]
    rw [(h o (List.mem_cons_self ..)).text, items_text flags env r (fun x hx => h x (List.mem_cons_of_mem _ hx))]

theorem ops_parse (flags : Nat) (env : Env) : ∀ ops : List Operand, (∀ o ∈ ops, OpOKA flags env o) →
    (ops.map (a64FormatOperand flags env)).mapM (parseA64Op env) = some (ops.map (rdOpA flags env))
  | [], _ => by simp
  | o :: r, h => by
    have := ops_parse flags env r (fun x hx => h x (List.mem_cons_of_mem _ hx))
    simp [(h o (List.mem_cons_self ..)).eq.1, this]

theorem chunks_facts (flags : Nat) (env : Env) (ops : List Operand) (h : ∀ o ∈ ops, OpOKA flags env o) :
    ∀ c ∈ (ops.map (itemOf flags env)).flatMap Item.chunks, c ≠ [] ∧ ',' ∉ c := by
  intro c hc
  simp only [List.mem_flatMap, List.mem_map] at hc
  obtain ⟨it, ⟨o, ho, rfl⟩, hcm⟩ := hc
  exact (h o ho).chunks c hcm

def a64Name (instId : Nat) : Str := (a64InstNames.getD (instId % 65536) "").toList
def a64Cc (instId : Nat) : Nat := (instId / 134217728) % 16

theorem a64Name_facts (instId : Nat) (h0 : instId % 65536 ≠ 0) (hid : instId % 65536 < a64InstCount) :
    a64Name instId ≠ [] ∧ ∀ c ∈ a64Name instId, notSpace c = true ∧ notDot c = true := by
  unfold a64InstCount at hid
  have m1 : a64InstNames[instId % 65536]'hid ∈ a64InstNames.toList.drop 1 := by
    have : (a64InstNames.toList.drop 1)[instId % 65536 - 1]'(by simp; omega) = a64InstNames[instId % 65536]'hid := by
      simp [List.getElem_drop]; congr 1; omega
    rw [← this]; exact List.getElem_mem _
  have k := a64_names_ok _ m1
  unfold a64Name
  simpa [Array.getD, hid] using k

theorem a64_line_read (flags : Nat) (env : Env) (instId : Nat) (ops : List Operand)
    (h0 : instId % 65536 ≠ 0) (hid : instId % 65536 < a64InstCount)
    (hne : ∀ o ∈ ops, o ≠ Operand.none) (hok : ∀ o ∈ ops, OpOKA flags env o) (hgood : A64OpsOK ops) :
    parseA64Inst env (a64FormatInstruction flags env instId ops) =
      some { mnemonic := a64Name instId, cond := if a64Cc instId = 0 then none else some (armCondCode (a64Cc instId)),
             ops := ops.map fun o => { op := rdOpA flags env o } } := by
  obtain ⟨hnne, hnc⟩ := a64Name_facts instId h0 hid
  -- the mnemonic word
  let M : Str := a64Name instId ++ (if a64Cc instId ≠ 0 then ['.'] ++ armCondCode (a64Cc instId) else [])
  have htext : a64FormatInstruction flags env instId ops = M ++ a64FormatOps flags env 0 ops := by
    unfold a64FormatInstruction
    simp only [h0, hid, ne_eq, not_false_eq_true, and_self, if_true]
    rfl
  have hccmem : a64Cc instId ≠ 0 → a64Cc instId ∈ [1, 2, 3, 4, 5, 6, 7, 8, 9, 10, 11, 12, 13, 14, 15] := by
    intro h
    have : a64Cc instId < 16 := Nat.mod_lt _ (by decide)
    simp; omega
  have hMsp : ∀ c ∈ M, notSpace c = true := by
    intro c hc
    simp only [M, List.mem_append] at hc
    rcases hc with e | e
    · exact (hnc c e).1
    · split at e
      · rename_i hcc
        simp only [List.mem_append, List.mem_singleton] at e
        rcases e with e | e
        · subst e; decide
        · exact (cond_names_ok _ (hccmem hcc)).2 c e
      · simp at e
  have hmn : readA64Mnemonic M = some (a64Name instId, if a64Cc instId = 0 then none else some (armCondCode (a64Cc instId))) := by
    unfold readA64Mnemonic
    by_cases hcc : a64Cc instId = 0
    · have hM : M = a64Name instId := by simp [M, hcc]
      have := dropWhile_all' notDot (a64Name instId) (fun c hc => (hnc c hc).2)
      rw [hM, this.1]; simp [hcc]
    · have hM : M = a64Name instId ++ '.' :: armCondCode (a64Cc instId) := by simp [M, hcc]
      have hs := takeWhile_append_stop notDot (a64Name instId) ('.' :: armCondCode (a64Cc instId)) (fun c hc => (hnc c hc).2)
        (Or.inr ⟨'.', _, rfl, by decide⟩)
      rw [hM, hs.2, hs.1]
      simp [hcc, (cond_names_ok _ (hccmem hcc)).1]
  rw [htext]
  unfold parseA64Inst
  cases hops : ops with
  | nil =>
    have hs := dropWhile_all' notSpace M hMsp
    simp only [a64FormatOps, List.append_nil, hs.1, hs.2, hmn, Option.bind_some, List.map_nil]
  | cons op rest =>
    have hne' : ∀ o ∈ op :: rest, o ≠ Operand.none := fun o ho => hne o (by rw [hops]; exact ho)
    have hok' : ∀ o ∈ op :: rest, OpOKA flags env o := fun o ho => hok o (by rw [hops]; exact ho)
    have hgood' : A64OpsOK (op :: rest) := by rw [← hops]; exact hgood
    rw [a64_ops_text flags env op rest hne']
    have hs := takeWhile_append_stop notSpace M (' ' :: joinComma ((op :: rest).map (a64FormatOperand flags env))) hMsp
      (Or.inr ⟨' ', _, rfl, by decide⟩)
    rw [hs.1, hs.2, hmn]
    simp only [Option.bind_some]
    -- the operand texts as items and comma chunks
    have hit := items_text flags env (op :: rest) hok'
    have hjoin := join_items ((op :: rest).map (itemOf flags env)) (by simp)
    rw [hit] at hjoin
    rw [← hjoin]
    obtain ⟨b, R, hbR⟩ := flatMap_ne (itemOf flags env op) (rest.map (itemOf flags env))
    have hcf := chunks_facts flags env (op :: rest) hok'
    simp only [List.map_cons] at hcf hjoin ⊢
    rw [hbR] at hcf ⊢
    have hlex := comma_lex b R (hcf b (List.mem_cons_self ..)).1 (fun x hx => (hcf x hx).2)
    rw [hlex]
    simp only [Option.bind_some]
    have hgrp := group_items ((op :: rest).map (itemOf flags env)) (good_of flags env (op :: rest) hgood' hok')
    simp only [List.map_cons] at hgrp
    rw [hbR] at hgrp
    rw [hgrp]
    have hit' := items_text flags env (op :: rest) hok'
    simp only [List.map_cons] at hit'
    rw [hit']
    have hp := ops_parse flags env (op :: rest) hok'
    simp only [List.map_cons] at hp
    rw [hp]
    simp

end AsmjitVerif.Lemmas.FormatA64Line
