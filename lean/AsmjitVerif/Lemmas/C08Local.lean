/- C08: the locality hypothesis of `sections_equal_of_local`, discharged against the CodeHolder model (Model/CodeHolder.lean, C03/C04) for
   label-reference-free code (section / embed / zero-align), and refuted for relocation-carrying calls by the witness of finding C08-K2. -/
import AsmjitVerif.Model.Prog

namespace AsmjitVerif.CodeHolder
open AsmjitVerif.Offset

/-- label-reference-free emitter calls of the CodeHolder operation language -/
def DataOp : Op → Bool
  | .section _ | .embed _ | .align _ => true
  | _ => false

/-- the operations section `s` receives: those issued while it is current (`n` = number of sections; a `section` call with an invalid id
    is refused and leaves the current section alone) -/
def projOps (s n : Nat) : Nat → List Op → List Op
  | _, [] => []
  | cur, .section t :: rest => projOps s n (if t < n then t else cur) rest
  | cur, op :: rest => if cur = s then op :: projOps s n cur rest else projOps s n cur rest

/-- the effect of embed / zero-align on one buffer -/
def bufStep (buf : Bytes) : Op → Bytes
  | .embed bs => buf ++ bs
  | .align a => if a ≤ 1 then buf else if !(isPow2 a && a ≤ 64) then buf else buf ++ zeros ((a - buf.length % a) % a)
  | _ => buf

def bufOf (s : State) (i : Nat) : Bytes := (s.secs.getD i default).buf

theorem modifySec_length (secs : List Section) (i : Nat) (f : Section → Section) : (modifySec secs i f).length = secs.length := by
  unfold modifySec; split <;> simp

theorem bufOf_emit (s : State) (bs : Bytes) (i : Nat) (hc : s.cur < s.secs.length) :
    bufOf (s.emit bs) i = if i = s.cur then bufOf s i ++ bs else bufOf s i := by
  unfold bufOf State.emit modifySec
  have : s.secs[s.cur]? = some s.secs[s.cur] := List.getElem?_eq_getElem hc
  simp only [this]
  by_cases hi : i = s.cur
  · subst hi; simp [List.getD_eq_getElem?_getD, hc]
  · simp [List.getD_eq_getElem?_getD, List.getElem?_set, hi, Ne.symm hi]

theorem curOff_eq (s : State) (hc : s.cur < s.secs.length) : s.curOff = (bufOf s s.cur).length := by
  simp [State.curOff, bufOf, List.getD_eq_getElem?_getD, List.getElem?_eq_getElem hc]

/-- one data operation: section count and validity of `cur` are kept, and every buffer changes only by its own operations -/
theorem data_step (s : State) (op : Op) (hd : DataOp op = true) (hc : s.cur < s.secs.length) (ha : s.addrTabSec = none) (i : Nat) :
    (step s op).1.secs.length = s.secs.length ∧ (step s op).1.cur < s.secs.length ∧ (step s op).1.addrTabSec = none ∧
    (step s op).1.cur = (match op with | .section t => if t < s.secs.length then t else s.cur | _ => s.cur) ∧
    bufOf (step s op).1 i = (match op with | .section _ => bufOf s i | op => if i = s.cur then bufStep (bufOf s i) op else bufOf s i) := by
  cases op with
  | «section» t =>
    simp only [step, switchSection]
    by_cases ht : t < s.secs.length
    · simp [ht, ha, bufOf]
    · simp [ht, hc, ha]
  | embed bs =>
    simp only [step, embed, State.emit]
    refine ⟨by simp [modifySec_length], by simpa [modifySec_length] using hc, ha, by first | rfl | trivial, ?_⟩
    have := bufOf_emit s bs i hc
    simp only [State.emit] at this
    rw [this]; simp [bufStep]
  | align a =>
    simp only [step, alignZero]
    by_cases h1 : a ≤ 1
    · simp [h1, hc, ha, bufStep]
    · by_cases h2 : (isPow2 a && decide (a ≤ 64)) = true
      · simp only [h1, if_false, h2, Bool.not_true, Bool.false_eq_true]
        refine ⟨by simp [State.emit, modifySec_length], by simpa [State.emit, modifySec_length] using hc, ha, by first | rfl | trivial, ?_⟩
        rw [bufOf_emit s _ i hc, curOff_eq s hc]
        by_cases hi : i = s.cur
        · subst hi; simp [bufStep, h1, h2]
        · simp [hi]
      · have h2' : (isPow2 a && decide (a ≤ 64)) = false := by simpa using h2
        simp [h1, h2', hc, ha, bufStep]
  | _ => simp [DataOp] at hd

/-- LOCALITY: after any sequence of section / embed / zero-align calls, the buffer of every section is its initial buffer transformed by
    exactly the operations of its own projection - it does not depend on how the calls of different sections were interleaved. -/
theorem data_local : ∀ (ops : List Op) (s : State) (i : Nat), (∀ op ∈ ops, DataOp op = true) → s.cur < s.secs.length →
    s.addrTabSec = none →
    bufOf (run s ops) i = (projOps i s.secs.length s.cur ops).foldl bufStep (bufOf s i) := by
  intro ops
  induction ops with
  | nil => intro s i _ _ _; simp [run, projOps]
  | cons op rest ih =>
    intro s i hd hc ha
    have hstep := data_step s op (hd op (by simp)) hc ha i
    have hrun : run s (op :: rest) = run (step s op).1 rest := by simp [run]
    rw [hrun, ih (step s op).1 i (fun o ho => hd o (by simp [ho])) (by rw [hstep.1]; exact hstep.2.1) hstep.2.2.1, hstep.1]
    cases op with
    | «section» t =>
      rw [hstep.2.2.2.1, hstep.2.2.2.2]; simp [projOps]
    | embed bs =>
      rw [hstep.2.2.2.1, hstep.2.2.2.2]
      by_cases hi : i = s.cur
      · simp [projOps, hi]
      · have : ¬ s.cur = i := fun e => hi e.symm
        simp [projOps, hi, this]
    | align a =>
      rw [hstep.2.2.2.1, hstep.2.2.2.2]
      by_cases hi : i = s.cur
      · simp [projOps, hi]
      · have : ¬ s.cur = i := fun e => hi e.symm
        simp [projOps, hi, this]
    | _ => have := hd _ List.mem_cons_self; simp [DataOp] at this

/-- two call sequences with the same per-section projections produce the same section buffers -/
theorem data_sections_equal (ops ops' : List Op) (s : State) (i : Nat) (hd : ∀ op ∈ ops, DataOp op = true)
    (hd' : ∀ op ∈ ops', DataOp op = true) (hc : s.cur < s.secs.length) (ha : s.addrTabSec = none)
    (hp : projOps i s.secs.length s.cur ops = projOps i s.secs.length s.cur ops') :
    bufOf (run s ops) i = bufOf (run s ops') i := by
  rw [data_local ops s i hd hc ha, data_local ops' s i hd' hc ha, hp]

end AsmjitVerif.CodeHolder

namespace AsmjitVerif.CodeHolder
open AsmjitVerif.Offset

/-- witness of finding C08-K2 on the CodeHolder model: the same calls, grouped by section as a Builder does (B) or interleaved as issued
    (A) - identical per-section projections, different bytes and relocation records in section 1 -/
def deltaProgA : List Op :=
  [.newLabel, .newLabel, .newSection 8 0, .section 1, .edelta 1 0 8, .section 0, .bind 0, .embed [1#8, 2#8], .bind 1]
def deltaProgB : List Op :=
  [.newLabel, .newLabel, .newSection 8 0, .bind 0, .embed [1#8, 2#8], .bind 1, .section 1, .edelta 1 0 8]

end AsmjitVerif.CodeHolder
