/- C20 helper lemmas: the operand list of an x86 instruction line as comma pieces, and the reader's walk over the chunks. -/
import AsmjitVerif.Lemmas.FormatLine

namespace AsmjitVerif.Lemmas.FormatOps
open AsmjitVerif.Format AsmjitVerif.FormatText AsmjitVerif.Lemmas.FormatLex AsmjitVerif.Lemmas.FormatX86Mem

/-- the pieces `, chunk` of operands i, i+1, … -/
def tailPieces (ch : Nat → Operand → Str) : Nat → List Operand → List Piece
  | _, [] => []
  | i, op :: rest => (some ',', ' ' :: ch i op) :: tailPieces ch (i + 1) rest

def tailChunks (ch : Nat → Operand → Str) : Nat → List Operand → List Str
  | _, [] => []
  | i, op :: rest => ch i op :: tailChunks ch (i + 1) rest

theorem ops_tail (flags : Nat) (env : Env) (options : Nat) (extra : ExtraReg) :
    ∀ (ops : List Operand) (i : Nat), i ≠ 0 → (∀ o ∈ ops, o ≠ Operand.none) →
      x86FormatOps flags env options extra i ops = flattenPieces (tailPieces (x86ChunkText flags env options extra) i ops)
  | [], i, _, _ => by simp [x86FormatOps, tailPieces, flattenPieces]
  | op :: rest, i, hi, hne => by
    have hop : op ≠ Operand.none := hne op (List.mem_cons_self ..)
    have ih := ops_tail flags env options extra rest (i + 1) (by omega) (fun o ho => hne o (List.mem_cons_of_mem _ ho))
    have hsep : (if i = 0 then " " else ", ").toList = [',', ' '] := by simp [hi]
    cases op <;> first | exact absurd rfl hop | simp [x86FormatOps, tailPieces, flattenPieces, ih, hsep]

theorem ops_first (flags : Nat) (env : Env) (options : Nat) (extra : ExtraReg) (op : Operand) (rest : List Operand)
    (hne : ∀ o ∈ op :: rest, o ≠ Operand.none) :
    x86FormatOps flags env options extra 0 (op :: rest) =
      ' ' :: flattenPieces ((none, x86ChunkText flags env options extra 0 op) :: tailPieces (x86ChunkText flags env options extra) 1 rest) := by
  have hop : op ≠ Operand.none := hne op (List.mem_cons_self ..)
  have ih := ops_tail flags env options extra rest 1 (by omega) (fun o ho => hne o (List.mem_cons_of_mem _ ho))
  cases op <;> first | exact absurd rfl hop | simp [x86FormatOps, flattenPieces, ih]

theorem tail_ok (ch : Nat → Operand → Str) : ∀ (ops : List Operand) (i : Nat),
    (∀ k o, ∀ c ∈ ch k o, c ≠ ',') → TailOK (fun c => c == ',') (tailPieces ch i ops)
  | [], _, _ => by simp [tailPieces, TailOK]
  | op :: rest, i, h => by
    simp only [tailPieces, TailOK]
    refine ⟨by decide, ?_, tail_ok ch rest (i + 1) h⟩
    intro c hc
    simp only [List.mem_cons] at hc
    rcases hc with e | e
    · subst e; decide
    · simpa using h i op c e

theorem tail_chunks (ch : Nat → Operand → Str) : ∀ (ops : List Operand) (i : Nat),
    (tailPieces ch i ops).mapM chunkOfPiece = some (tailChunks ch i ops)
  | [], _ => by simp [tailPieces, tailChunks]
  | op :: rest, i => by
    simp [tailPieces, tailChunks, chunkOfPiece, tail_chunks ch rest (i + 1)]

/-- the reader's walk over operand chunks that each read back, no rounding group -/
theorem readChunks_plain (env : Env) : ∀ (cps : List (Str × POperand)),
    (∀ p ∈ cps, readChunk env p.1 = some p.2 ∧ p.1.head? ≠ some '{') →
    readChunks env (cps.map Prod.fst) = some (cps.map Prod.snd, none)
  | [], _ => by simp [readChunks]
  | [p], h => by
    obtain ⟨h1, h2⟩ := h p (List.mem_cons_self ..)
    simp [readChunks, h1, h2]
  | p :: q :: rest, h => by
    obtain ⟨h1, h2⟩ := h p (List.mem_cons_self ..)
    have ih := readChunks_plain env (q :: rest) (fun x hx => h x (List.mem_cons_of_mem _ hx))
    simp only [List.map_cons] at ih ⊢
    simp [readChunks, h1, h2, ih]

/-- … and with a rounding group as the last chunk -/
theorem readChunks_round (env : Env) (rc : Str) (w : String) (hr : readRounding rc = some w) (hh : rc.head? = some '{') :
    ∀ (cps : List (Str × POperand)),
    (∀ p ∈ cps, readChunk env p.1 = some p.2 ∧ p.1.head? ≠ some '{') →
    readChunks env (cps.map Prod.fst ++ [rc]) = some (cps.map Prod.snd, some w)
  | [], _ => by simp [readChunks, hr, hh]
  | [p], h => by
    obtain ⟨h1, h2⟩ := h p (List.mem_cons_self ..)
    simp [readChunks, h1, h2, hr, hh]
  | p :: q :: rest, h => by
    obtain ⟨h1, h2⟩ := h p (List.mem_cons_self ..)
    have ih := readChunks_round env rc w hr hh (q :: rest) (fun x hx => h x (List.mem_cons_of_mem _ hx))
    simp only [List.map_cons, List.cons_append] at ih ⊢
    simp [readChunks, h1, h2, ih]

end AsmjitVerif.Lemmas.FormatOps
