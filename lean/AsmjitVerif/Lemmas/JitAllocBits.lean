/- Bit-vector facts used by the C09 proofs: reading a bit after `setRange` / `set`, `indexOfStop`, the free-range scan. -/
import AsmjitVerif.Model.JitAlloc
namespace AsmjitVerif.JitAlloc

theorem bit_setRange (l : List Bool) (a b i : Nat) (v : Bool) :
    bit (setRange l a b v) i = if a ≤ i ∧ i < b ∧ i < l.length then v else bit l i := by
  unfold bit setRange
  by_cases h : i < l.length
  · simp [List.getD, h]
  · simp [List.getD, h]

theorem bit_set (l : List Bool) (j i : Nat) (v : Bool) :
    bit (l.set j v) i = if i = j ∧ i < l.length then v else bit l i := by
  unfold bit
  by_cases h : i < l.length
  · by_cases hj : j = i
    · subst hj; simp [List.getD, h]
    · simp [List.getD, hj, h]; intro h2; omega
  · simp [List.getD, h]

theorem length_setRange {α} (l : List α) (a b : Nat) (v : α) : (setRange l a b v).length = l.length := by
  simp [setRange]

theorem bit_of_ge_length (l : List Bool) (i : Nat) (h : l.length ≤ i) : bit l i = false := by
  simp [bit, List.getD, h]

theorem bit_replicate_set (n i : Nat) (v : Bool) :
    bit ((List.replicate n false).set 0 v) i = (decide (i = 0 ∧ 0 < n) && v) := by
  rw [bit_set]
  by_cases h : i = 0 ∧ i < n
  · obtain ⟨rfl, h2⟩ := h; simp [h2]
  · have : bit (List.replicate n false) i = false := by
      unfold bit; simp [List.getD, List.getElem?_replicate]
      split <;> simp
    simp at h
    simp [this]
    by_cases hi : i = 0
    · subst hi; simp at h; simp [h]
    · simp [hi]

/-- `bit_vector_index_of(stop, i, true)` finds `j` when `j` is the first set bit at or after `i` -/
theorem indexOfStop_eq (stop : List Bool) (i j : Nat) (hij : i ≤ j) (hj : j < stop.length)
    (hset : bit stop j = true) (hclr : ∀ k, i ≤ k → k < j → bit stop k = false) : indexOfStop stop i = j := by
  unfold indexOfStop List.idxOf
  have hlen : j - i < (stop.drop i).length := by simp; omega
  have := (List.findIdx_eq (p := (· == true)) hlen).mpr
  rw [this]; · omega
  constructor
  · simp [bit, List.getD] at hset
    have h2 : stop[j]? = some stop[j] := by simp [hj]
    rw [h2] at hset; simp at hset
    simp; have : i + (j - i) = j := by omega
    simp [this, hset]
  · intro k hk
    have := hclr (i + k) (by omega) (by omega)
    simp [bit, List.getD] at this
    have hk2 : i + k < stop.length := by omega
    have h2 : stop[i + k]? = some stop[i + k] := by simp [hk2]
    rw [h2] at this; simp at this
    simp [this]

/-! ### counting set bits -/

theorem setRange_cons {α} (x : α) (xs : List α) (s e : Nat) (v : α) :
    setRange (x :: xs) s e v = (if s = 0 ∧ 0 < e then v else x) :: setRange xs (s - 1) (e - 1) v := by
  unfold setRange
  simp [List.mapIdx_cons]
  apply List.mapIdx_eq_mapIdx_iff.mpr
  intro i hi
  split <;> split <;> first | rfl | (exfalso; omega)

theorem bit_cons_succ (x : Bool) (xs : List Bool) (i : Nat) : bit (x :: xs) (i + 1) = bit xs i := by
  simp [bit, List.getD]

theorem bit_cons_zero (x : Bool) (xs : List Bool) : bit (x :: xs) 0 = x := by
  simp [bit, List.getD]

theorem count_setRange_true (l : List Bool) : ∀ (s e : Nat), s ≤ e → e ≤ l.length → (∀ j, s ≤ j → j < e → bit l j = false) →
    (setRange l s e true).count true = l.count true + (e - s) := by
  induction l with
  | nil => intro s e h1 h2 _; simp at h2; subst h2; simp [setRange]
  | cons x xs ih =>
    intro s e h1 h2 hf
    rw [setRange_cons]
    simp at h2
    by_cases he : e = 0
    · subst he
      have : s = 0 := by omega
      subst this
      have := ih 0 0 (by omega) (by omega) (by intro j _ h; omega)
      simp [List.count_cons] at this ⊢
      omega
    have ih' := ih (s - 1) (e - 1) (by omega) (by omega) (by
      intro j a c
      have := hf (j + 1) (by omega) (by omega)
      rwa [bit_cons_succ] at this)
    by_cases hs : s = 0
    · subst hs
      have h0 := hf 0 (by omega) (by omega)
      rw [bit_cons_zero] at h0
      subst h0
      simp [he, Nat.pos_of_ne_zero he, List.count_cons]
      simp at ih'
      rw [ih']; omega
    · simp [hs, List.count_cons]
      rw [ih']; omega

theorem count_setRange_false (l : List Bool) : ∀ (s e : Nat), s ≤ e → e ≤ l.length → (∀ j, s ≤ j → j < e → bit l j = true) →
    (setRange l s e false).count true + (e - s) = l.count true := by
  induction l with
  | nil => intro s e h1 h2 _; simp at h2; subst h2; simp [setRange]
  | cons x xs ih =>
    intro s e h1 h2 hf
    rw [setRange_cons]
    simp at h2
    by_cases he : e = 0
    · subst he
      have : s = 0 := by omega
      subst this
      have := ih 0 0 (by omega) (by omega) (by intro j _ h; omega)
      simp [List.count_cons] at this ⊢
      omega
    have ih' := ih (s - 1) (e - 1) (by omega) (by omega) (by
      intro j a c
      have := hf (j + 1) (by omega) (by omega)
      rwa [bit_cons_succ] at this)
    by_cases hs : s = 0
    · subst hs
      have h0 := hf 0 (by omega) (by omega)
      rw [bit_cons_zero] at h0
      subst h0
      simp [he, Nat.pos_of_ne_zero he, List.count_cons]
      simp at ih'
      omega
    · simp [hs, List.count_cons]
      omega

theorem count_replicate_set (n : Nat) (v : Bool) :
    ((List.replicate n false).set 0 v).count true = if v = true ∧ 0 < n then 1 else 0 := by
  cases n with
  | zero => simp
  | succ n => cases v <;> simp [List.replicate_succ, List.count_cons, List.count_replicate]

/-- a set bit contributes to the count -/
theorem count_pos_of_bit (l : List Bool) : ∀ i, bit l i = true → 1 ≤ l.count true := by
  induction l with
  | nil => intro i h; simp [bit] at h
  | cons x xs ih =>
    intro i h
    cases i with
    | zero => rw [bit_cons_zero] at h; subst h; simp [List.count_cons]
    | succ i => rw [bit_cons_succ] at h; have := ih i h; simp [List.count_cons]; omega

theorem count_two_of_bits (l : List Bool) (i : Nat) (h0 : bit l 0 = true) (hi : bit l (i + 1) = true) : 2 ≤ l.count true := by
  cases l with
  | nil => simp [bit] at h0
  | cons x xs =>
    rw [bit_cons_zero] at h0; rw [bit_cons_succ] at hi
    have := count_pos_of_bit xs i hi
    subst h0; rw [List.count_cons_self]; omega

/-! ### soundness of the free-range scan -/

theorem close_run (a : ScanAcc) (i : Nat) : (a.close i).run = 0 := by
  unfold ScanAcc.close; split <;> simp_all

theorem scanGo_found (used : List Bool) (n : Nat) :
    ∀ (l : List Bool) (i : Nat) (acc : ScanAcc) (idx : Nat),
      (∀ k, k < l.length → bit used (i + k) = l.getD k false) →
      acc.run ≤ i → (∀ j, i - acc.run ≤ j → j < i → bit used j = false) → acc.run < n →
      scanGo n l i acc = .inl idx →
      i - acc.run ≤ idx ∧ idx + n ≤ i + l.length ∧ ∀ j, idx ≤ j → j < idx + n → bit used j = false := by
  intro l
  induction l with
  | nil => intro i acc idx _ _ _ _ h; simp [scanGo] at h
  | cons u rest ih =>
    intro i acc idx hl hle hfree hrun h
    have h0 := hl 0 (by simp)
    simp at h0
    have hl' : ∀ k, k < rest.length → bit used (i + 1 + k) = rest.getD k false := by
      intro k hk
      have := hl (k + 1) (by simp; omega)
      simp at this
      have e : i + 1 + k = i + (k + 1) := by omega
      rw [e, this]; simp [List.getD]
    unfold scanGo at h
    split at h
    · -- used granule: the run is closed
      have := ih (i + 1) (acc.close i) idx hl' (by simp [close_run]) (by intro j h1 h2; simp [close_run] at h1; omega)
        (by simp [close_run]; omega) h
      simp [close_run] at this
      obtain ⟨a, b, c⟩ := this
      refine ⟨by omega, by simp; omega, c⟩
    · rename_i hu
      simp at hu
      simp only at h
      split at h
      · rename_i hn
        simp at h
        subst h
        refine ⟨by omega, by simp; omega, ?_⟩
        intro j h1 h2
        by_cases hj : j < i
        · exact hfree j (by omega) hj
        · have : j = i := by omega
          subst this; rw [h0, hu]
      · rename_i hn
        have := ih (i + 1) _ idx hl' (by simp; omega) (by
          intro j h1 h2; simp at h1
          by_cases hj : j < i
          · exact hfree j (by omega) hj
          · have : j = i := by omega
            subst this; rw [h0, hu]) (by simp; omega) h
        simp at this
        obtain ⟨a, b, c⟩ := this
        refine ⟨by omega, by simp; omega, c⟩

theorem scan_found (used : List Bool) (ss se n idx : Nat) (hn : 0 < n) (h : scan used ss se n = .inl idx) :
    ss ≤ idx ∧ idx + n ≤ se ∧ idx + n ≤ used.length ∧ ∀ j, idx ≤ j → j < idx + n → bit used j = false := by
  unfold scan at h
  have := scanGo_found used n _ ss {} idx (by
    intro k hk
    simp at hk
    have hk1 : k < se - ss := by omega
    simp [bit, List.getD, hk1]) (by simp) (by intro j h1 h2; simp at h1; omega) (by simpa using hn) h
  simp at this
  obtain ⟨a, b, c⟩ := this
  refine ⟨a, by omega, by omega, c⟩

end AsmjitVerif.JitAlloc
