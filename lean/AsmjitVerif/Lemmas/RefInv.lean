/-
The disjoint-regions invariant behind the end-to-end theorems of C03 (Props/C03E.lean).

Ghost log `State.ghost`: one `GRef` per patchable fixup ever created.  `Inv s` says, for every reachable state:
 * every logged field lies inside its section's buffer, and the fields are pairwise disjoint (fixups are created at the
   end of the buffer, emission is append-only);
 * every logged reference is either *pending* (its fixup is on its label's list or on the cross-section list) and
   its field still holds zeros, or *locally resolved*: its label is bound in the same section and the field decodes
   (Spec/Offset.lean) to exactly `label offset - site + addend`;
 * conversely every patchable fixup on any list is logged, and no list holds two fixups for overlapping fields.
-/
import AsmjitVerif.Props.C03
namespace AsmjitVerif.CodeHolder
open AsmjitVerif.Offset

def GRef.toFixup (g : GRef) (lr : Option Nat) : Fixup :=
  { sec := g.sec, lr := lr, offset := g.offset, rel := g.rel, fmt := g.fmt }

/-- the value regions of two references do not overlap -/
def D (a b : GRef) : Prop :=
  a.sec ≠ b.sec ∨ a.offset + a.fmt.valueSize ≤ b.offset ∨ b.offset + b.fmt.valueSize ≤ a.offset

def Df (a b : Fixup) : Prop := D (a.toG 0) (b.toG 0)

theorem D_symm {a b : GRef} (h : D a b) : D b a := by
  unfold D at *; rcases h with h | h | h
  · exact .inl (Ne.symm h)
  · exact .inr (.inr h)
  · exact .inr (.inl h)

/-- the word of a reference as it currently stands in the buffers -/
def field (secs : List Section) (g : GRef) : Option Nat :=
  (secs[g.sec]?).bind (fun sec => loadLE sec.buf g.offset g.fmt.valueSize)

def FieldZero (secs : List Section) (g : GRef) : Prop :=
  ∃ old, field secs g = some old ∧ BitVec.ofNat 32 old &&& fieldMask32 g.fmt = 0#32

/-- the field designates displacement `d` under the independent decoder of Spec/Offset.lean -/
def Decodes (secs : List Section) (g : GRef) (d : BitVec 64) : Prop :=
  ∃ new, field secs g = some new ∧ decode32 g.fmt (BitVec.ofNat 32 new) = d

def InB (secs : List Section) (g : GRef) : Prop :=
  ∃ sec, secs[g.sec]? = some sec ∧ g.offset + g.fmt.valueSize ≤ sec.buf.length

/-- the reference's fixup is still on a list (and therefore counted: `unresolved_count_exact`) -/
def Pending (s : State) (g : GRef) : Prop :=
  (∃ fx, s.labels[g.label]? = some (.unbound fx) ∧ g.toFixup none ∈ fx) ∨ (g.toFixup (some g.label) ∈ s.fixups)

def LocalResolved (s : State) (g : GRef) : Prop :=
  ∃ loff, s.labels[g.label]? = some (.bound g.sec loff) ∧ Decodes s.secs g (loff - BitVec.ofNat 64 g.offset + g.rel)

/-- exactly one of: still pending with a zero field / no longer on any list and designating the label -/
def Status (s : State) (g : GRef) : Prop := (Pending s g ∧ FieldZero s.secs g) ∨ (¬ Pending s g ∧ LocalResolved s g)

theorem D_irrefl {g : GRef} (hpos : 0 < g.fmt.valueSize) : ¬ D g g := by
  unfold D; omega

structure Inv (s : State) : Prop where
  cur    : s.cur < s.secs.length
  fmts   : ∀ g ∈ s.ghost, g.fmt ∈ fixupFormats
  inb    : ∀ g ∈ s.ghost, InB s.secs g
  disj   : s.ghost.Pairwise D
  status : ∀ g ∈ s.ghost, Status s g
  lab    : ∀ (l : Nat) (fx : List Fixup), s.labels[l]? = some (LabelEntry.unbound fx) →
             (∀ f ∈ fx, f.lr = none → f.toG l ∈ s.ghost) ∧ (fx.filter (fun f => f.lr.isNone)).Pairwise Df
  glob   : (∀ f ∈ s.fixups, ∃ l, f.lr = some l ∧ f.toG l ∈ s.ghost) ∧ s.fixups.Pairwise Df
  wf     : FixupsWF s

/-! ### generic list facts -/

theorem pairwise_mem {α} {R : α → α → Prop} (hs : ∀ a b, R a b → R b a) {l : List α} (hp : l.Pairwise R)
    {a b : α} (ha : a ∈ l) (hb : b ∈ l) : a = b ∨ R a b := by
  induction l with
  | nil => cases ha
  | cons x xs ih =>
    rw [List.pairwise_cons] at hp
    simp only [List.mem_cons] at ha hb
    rcases ha with rfl | ha <;> rcases hb with rfl | hb
    · exact .inl rfl
    · exact .inr (hp.1 b hb)
    · exact .inr (hs _ _ (hp.1 a ha))
    · exact ih hp.2 ha hb

theorem fmt_size_pos {f : OffsetFormat} (h : f ∈ fixupFormats) : 0 < f.valueSize ∧ f.valueOffset = 0 ∧ (f.valueSize = 1 ∨ f.valueSize = 4) := by
  simp only [fixupFormats, List.mem_cons, List.mem_nil_iff, or_false] at h
  rcases h with h | h | h | h | h | h | h <;> subst h <;> decide

/-! ### loads and appends -/

theorem loadLE_append_left (n : Nat) (a b : Bytes) (pos : Nat) (h : pos + n ≤ a.length) :
    loadLE (a ++ b) pos n = loadLE a pos n := by
  apply loadLE_congr
  intro i _ h2
  rw [List.getElem?_append_left (by omega)]

theorem loadLE_append_right (n : Nat) : ∀ (a b : Bytes) (p : Nat), loadLE (a ++ b) (a.length + p) n = loadLE b p n := by
  induction n with
  | zero => intros; rfl
  | succ k ih =>
    intro a b p
    simp only [loadLE]
    rw [Nat.add_assoc, ih a b (p + 1), List.getElem?_append_right (by omega)]
    simp

theorem loadLE_zeros (n : Nat) : ∀ (k p : Nat) (x : Bytes), p + n ≤ k → loadLE (zeros k ++ x) p n = some 0 := by
  induction n with
  | zero => intros; rfl
  | succ m ih =>
    intro k p x h
    simp only [loadLE]
    rw [ih k (p + 1) x (by omega)]
    have : (zeros k ++ x)[p]? = some 0#8 := by
      have hp : p < k := by omega
      rw [List.getElem?_append_left (by simp [zeros]; exact hp)]
      simp [zeros, hp]
    rw [this]; simp

/-! ### sections only grow at the end -/

/-- every section of `a` is still there in `b`, its buffer extended at the end -/
def SecsExt (a b : List Section) : Prop :=
  ∀ (i : Nat) (sec : Section), a[i]? = some sec → ∃ sec' : Section, b[i]? = some sec' ∧ ∃ ext, sec'.buf = sec.buf ++ ext

theorem SecsExt.refl (a : List Section) : SecsExt a a := by
  intro i sec h; exact ⟨sec, h, [], by simp⟩

theorem SecsExt.trans {a b c : List Section} (h1 : SecsExt a b) (h2 : SecsExt b c) : SecsExt a c := by
  intro i sec h
  obtain ⟨s1, hs1, e1, he1⟩ := h1 i sec h
  obtain ⟨s2, hs2, e2, he2⟩ := h2 i s1 hs1
  exact ⟨s2, hs2, e1 ++ e2, by rw [he2, he1, List.append_assoc]⟩

theorem secsExt_modifySec (a : List Section) (i : Nat) (f : Section → Section) (hf : ∀ s, ∃ ext, (f s).buf = s.buf ++ ext) :
    SecsExt a (modifySec a i f) := by
  intro j sec h
  unfold modifySec
  cases hi : a[i]? with
  | none => exact ⟨sec, h, [], by simp⟩
  | some si =>
    dsimp only
    by_cases hij : i = j
    · subst hij
      rw [hi] at h; cases h
      have hlt : i < a.length := by
        rcases Nat.lt_or_ge i a.length with h' | h'
        · exact h'
        · rw [List.getElem?_eq_none h'] at hi; cases hi
      exact ⟨f sec, by simp [hlt], hf sec⟩
    · exact ⟨sec, by rw [List.getElem?_set_ne hij]; exact h, [], by simp⟩

theorem secsExt_append (a x : List Section) : SecsExt a (a ++ x) := by
  intro i sec h
  have hlt : i < a.length := by
    rcases Nat.lt_or_ge i a.length with h' | h'
    · exact h'
    · rw [List.getElem?_eq_none h'] at h; cases h
  exact ⟨sec, by rw [List.getElem?_append_left hlt]; exact h, [], by simp⟩

theorem secsExt_length {a b : List Section} (h : SecsExt a b) : a.length ≤ b.length := by
  rcases Nat.lt_or_ge b.length a.length with hlt | hge
  · have hl : b.length < a.length := hlt
    obtain ⟨s', hs', _⟩ := h b.length (a[b.length]) (by simp [hl])
    rw [List.getElem?_eq_none (Nat.le_refl _)] at hs'; cases hs'
  · exact hge

theorem InB.ext {a b : List Section} (h : SecsExt a b) {g : GRef} (hg : InB a g) : InB b g := by
  obtain ⟨sec, hs, hb⟩ := hg
  obtain ⟨s', hs', ext, he⟩ := h _ _ hs
  exact ⟨s', hs', by rw [he, List.length_append]; omega⟩

theorem field_ext {a b : List Section} (h : SecsExt a b) {g : GRef} (hg : InB a g) : field b g = field a g := by
  obtain ⟨sec, hs, hb⟩ := hg
  obtain ⟨s', hs', ext, he⟩ := h _ _ hs
  unfold field
  rw [hs, hs']
  simp only [Option.bind_some]
  rw [he, loadLE_append_left _ _ _ _ hb]

/-! ### frames: operations that only append bytes / sections and leave labels, fixups and the log alone -/

structure Frame (s s' : State) : Prop where
  ghost  : s'.ghost = s.ghost
  fixups : s'.fixups = s.fixups
  labels : s'.labels = s.labels
  secs   : SecsExt s.secs s'.secs
  cur    : s'.cur < s'.secs.length

/-- a status survives any change that keeps the pending set, keeps bound labels bound and keeps the field's bytes -/
theorem status_mono {s s' : State} {g : GRef}
    (hp : Pending s g → Pending s' g) (hp' : Pending s' g → Pending s g)
    (hb : ∀ sec off, s.labels[g.label]? = some (.bound sec off) → s'.labels[g.label]? = some (.bound sec off))
    (hf : field s'.secs g = field s.secs g) (h : Status s g) : Status s' g := by
  rcases h with ⟨h1, h2⟩ | ⟨hn, loff, h1, h2⟩
  · left
    refine ⟨hp h1, ?_⟩
    obtain ⟨old, ho, hz⟩ := h2
    exact ⟨old, by rw [hf]; exact ho, hz⟩
  · right
    obtain ⟨new, hn', hd⟩ := h2
    exact ⟨fun hx => hn (hp' hx), loff, hb _ _ h1, new, by rw [hf]; exact hn', hd⟩

theorem Inv.frame {s s' : State} (h : Inv s) (f : Frame s s') : Inv s' := by
  refine ⟨f.cur, ?_, ?_, ?_, ?_, ?_, ?_, ?_⟩
  · rw [f.ghost]; exact h.fmts
  · rw [f.ghost]; intro g hg; exact (h.inb g hg).ext f.secs
  · rw [f.ghost]; exact h.disj
  · rw [f.ghost]; intro g hg
    refine status_mono ?_ ?_ ?_ (field_ext f.secs (h.inb g hg)) (h.status g hg)
    · unfold Pending; rw [f.labels, f.fixups]; exact id
    · unfold Pending; rw [f.labels, f.fixups]; exact id
    · rw [f.labels]; intro _ _ h; exact h
  · rw [f.labels, f.ghost]; exact h.lab
  · rw [f.fixups, f.ghost]; exact h.glob
  · exact fixupsWF_of_core f.labels f.fixups h.wf

theorem modifySec_length (a : List Section) (i : Nat) (f : Section → Section) : (modifySec a i f).length = a.length := by
  unfold modifySec; split <;> simp

theorem Frame.refl {s : State} (h : s.cur < s.secs.length) : Frame s s := ⟨rfl, rfl, rfl, SecsExt.refl _, h⟩

theorem Frame.trans {a b c : State} (h1 : Frame a b) (h2 : Frame b c) : Frame a c :=
  ⟨h2.ghost.trans h1.ghost, h2.fixups.trans h1.fixups, h2.labels.trans h1.labels, h1.secs.trans h2.secs, h2.cur⟩

theorem frame_emit (s : State) (bs : Bytes) (h : s.cur < s.secs.length) : Frame s (s.emit bs) := by
  refine ⟨rfl, rfl, rfl, ?_, ?_⟩
  · exact secsExt_modifySec _ _ _ (fun x => ⟨bs, rfl⟩)
  · show s.cur < (modifySec _ _ _).length
    rw [modifySec_length]; exact h

/-- states that differ only in relocations / expressions / address table entries / base -/
theorem frame_of_eq {s s' : State} (hg : s'.ghost = s.ghost) (hf : s'.fixups = s.fixups) (hl : s'.labels = s.labels)
    (hs : s'.secs = s.secs) (hc : s'.cur = s.cur) (h : s.cur < s.secs.length) : Frame s s' :=
  ⟨hg, hf, hl, by rw [hs]; exact SecsExt.refl _, by rw [hs, hc]; exact h⟩

theorem frame_addAddress (s : State) (a : BitVec 64) (h : s.cur < s.secs.length) : Frame s (addAddress s a) := by
  unfold addAddress
  split
  · exact Frame.refl h
  · cases hs : s.addrTabSec with
    | some i =>
      dsimp only
      refine ⟨rfl, rfl, rfl, secsExt_modifySec _ _ _ (fun x => ⟨[], by simp⟩), ?_⟩
      show s.cur < (modifySec _ _ _).length
      rw [modifySec_length]; exact h
    | none =>
      dsimp only
      refine ⟨rfl, rfl, rfl, (secsExt_append _ _).trans (secsExt_modifySec _ _ _ (fun x => ⟨[], by simp⟩)), ?_⟩
      show s.cur < (modifySec _ _ _).length
      rw [modifySec_length, List.length_append]; omega

theorem loadLE_some_le (n : Nat) : ∀ (buf : Bytes) (p v : Nat), 0 < n → loadLE buf p n = some v → p + n ≤ buf.length := by
  induction n with
  | zero => intro _ _ _ h; omega
  | succ k ih =>
    intro buf p v _ h
    simp only [loadLE] at h
    split at h
    · rename_i b r hb hr
      rcases Nat.eq_zero_or_pos k with hk | hk
      · subst hk
        have : p < buf.length := by
          rcases Nat.lt_or_ge p buf.length with h' | h'
          · exact h'
          · rw [List.getElem?_eq_none h'] at hb; cases hb
        omega
      · have := ih buf (p + 1) r hk hr
        omega
    · cases h

/-- a new reference whose word starts at the old end of the current section and lies inside the bytes just emitted:
in bounds, its field is what was emitted, and it is disjoint from every reference that was in bounds before -/
theorem emit_new_region (secs : List Section) (cur : Nat) (sec0 : Section) (hsec0 : secs[cur]? = some sec0) (tail : Bytes) (g : GRef)
    (hsec : g.sec = cur) (hoff : g.offset = sec0.buf.length) (hpos : 0 < g.fmt.valueSize) (old0 : Nat)
    (hl : loadLE tail 0 g.fmt.valueSize = some old0) :
    InB (modifySec secs cur (fun sec => { sec with buf := sec.buf ++ tail })) g ∧
    field (modifySec secs cur (fun sec => { sec with buf := sec.buf ++ tail })) g = some old0 ∧
    ∀ g', InB secs g' → D g' g := by
  have hlt : cur < secs.length := by
    rcases Nat.lt_or_ge cur secs.length with h' | h'
    · exact h'
    · rw [List.getElem?_eq_none h'] at hsec0; cases hsec0
  have hget : (modifySec secs cur (fun sec => { sec with buf := sec.buf ++ tail }))[cur]? = some { sec0 with buf := sec0.buf ++ tail } := by
    unfold modifySec; rw [hsec0]; simp [hlt]
  have hle := loadLE_some_le _ _ _ _ hpos hl
  refine ⟨⟨_, by rw [hsec]; exact hget, ?_⟩, ?_, ?_⟩
  · simp only [List.length_append]; omega
  · unfold field
    rw [hsec, hget]
    simp only [Option.bind_some]
    rw [hoff]
    have := loadLE_append_right g.fmt.valueSize sec0.buf tail 0
    simp only [Nat.add_zero] at this
    rw [this]; exact hl
  · intro g' ⟨sec', hs', hb'⟩
    by_cases hse : g'.sec = g.sec
    · right; left
      rw [hse, hsec, hsec0] at hs'; cases hs'
      omega
    · exact .inl hse


end AsmjitVerif.CodeHolder
