/-
C18 — ArenaTree::remove, part 15: the heap after the raw copy represents the tree in which `q` sits in `f`'s place.
-/
import AsmjitVerif.Lemmas.C18TreeRem14
namespace AsmjitVerif.Tree.Rem
open AsmjitVerif.Tree AsmjitVerif.Tree.Spec

theorem rc_distinct (X Bl Sb Ab : List Nat) (f : Nat) (hn : (X ++ (Bl ++ f :: (Sb ++ Ab))).Nodup) :
    (∀ i ∈ X, i ∉ Ab) ∧ (∀ i ∈ Bl, i ∉ Ab) ∧ f ∉ Ab ∧ (∀ i ∈ Sb, i ∉ Ab) ∧ Ab.Nodup := by
  simp only [List.nodup_append, List.nodup_cons, List.mem_append, List.mem_cons, not_or] at hn
  refine ⟨?_, ?_, ?_, ?_, ?_⟩
  all_goals grind

theorem rawCopy_nd (h : Tree) (n : Nat) (d : Bool) (f q : Nat) (hn0 : n ≠ 0) (hns : n < h.nodes.size)
    (hq0 : q ≠ 0) (hqs : q < h.nodes.size) (hqn : q ≠ n) (hfn : f ≠ n) :
    (rawCopy h n d f q).nodes.size = h.nodes.size ∧
    ∀ i, nd (rawCopy h n d f q) i = if i = q then cp (nd h q) (nd h f) else if i = n then setC (nd h n) d q
      else nd h i := by
  have n1 := setChild_nd h n d q hn0 hns
  refine ⟨by simp only [rawCopy, size_upd, setChild_size], ?_⟩
  intro i
  simp only [rawCopy, nd_upd, setChild_size]
  by_cases e : i = q
  · subst e; rw [if_pos ⟨rfl, hq0, hqs⟩, if_pos rfl, n1 i, if_neg hqn, n1 f, if_neg hfn]
  · rw [if_neg (fun c => e c.1), if_neg e, n1 i]

/-- THE RAW COPY: `n->_set_child(dir, q); q->links = f->links` where `n` owns the hole of `above` and `f = Ff.i`. -/
theorem replace_rep {h : Tree} {X : T} {below above : List Frame} {Ff : Frame} {q kq : Nat}
    (hsz : 1 < h.nodes.size) (hrc : RepC h (below ++ Ff :: above))
    (hrs : Rep h (holeptr h (below ++ Ff :: above)) X)
    (hnd : (X.idxs ++ ctxIdxs (below ++ Ff :: above)).Nodup)
    (hq2 : 2 ≤ q) (hqs : q < h.nodes.size) (hkq : (nd h q).key = kq)
    (hqn : q ∉ X.idxs ++ ctxIdxs (below ++ Ff :: above)) :
    let h'' := rawCopy h (pIdx above) (dirOf above) Ff.i q
    Rep h'' (nd h'' 1).r (plug (below ++ ⟨q, kq, Ff.c, Ff.d, Ff.sib⟩ :: above) X) ∧
    h''.nodes.size = h.nodes.size ∧ (∀ n, (nd h'' n).key = (nd h n).key) := by
  intro h''
  have hge := hrc.ge2
  have hXge := hrs.ge2
  have eidx : ctxIdxs (below ++ Ff :: above) = ctxIdxs below ++ Ff.i :: (Ff.sib.idxs ++ ctxIdxs above) := by
    rw [ctxIdxs_append]; rfl
  rw [eidx] at hnd hqn hge
  obtain ⟨dX, dBl, dF, dSb, nAb⟩ := rc_distinct _ _ _ _ _ hnd
  have hab := RepC.suffix below _ hrc
  have habove : RepC h above := hab.2.2.2.2.2.2
  have hF2 : 2 ≤ Ff.i := hab.1
  have hgm := pIdx_mem above
  have hn0 : pIdx above ≠ 0 ∧ pIdx above < h.nodes.size := by
    rcases hgm with e1 | e1
    · rw [e1]; omega
    · have := habove.ge2 _ e1; omega
  -- nodes different from `n`
  have nen : ∀ i, 2 ≤ i → i ∉ ctxIdxs above → i ≠ pIdx above := fun i h2 hi => pIdx_ne h2 hi
  have hqab : q ∉ ctxIdxs above := fun hm => hqn (by simp [hm])
  obtain ⟨es, n''⟩ := rawCopy_nd h (pIdx above) (dirOf above) Ff.i q hn0.1 hn0.2 (by omega) hqs
    (nen q hq2 hqab) (nen _ hF2 dF)
  have eq' : nd h'' q = cp (nd h q) (nd h Ff.i) := by rw [n'' q, if_pos rfl]
  have en : nd h'' (pIdx above) = setC (nd h (pIdx above)) (dirOf above) q := by
    rw [n'' _, if_neg (Ne.symm (nen q hq2 hqab)), if_pos rfl]
  have fr : ∀ i, i ≠ q → i ≠ pIdx above → nd h'' i = nd h i := by
    intro i a b; rw [n'' i, if_neg a, if_neg b]
  have ekey : ∀ n, (nd h'' n).key = (nd h n).key := by
    intro n; rw [n'' n]; split
    · rename_i e; rw [e]; simp
    · split
      · rename_i e; rw [e]; simp
      · rfl
  have habove'' : RepC h'' above := by
    apply habove.frame_hole es nAb
    · intro i hi hm
      apply fr i _ hi
      rcases hm with rfl | hm
      · omega
      · intro e; exact hqab (e ▸ hm)
    · rw [ekey]
    · rw [en]; simp
    · rw [en]; simp
  have hhole : holeptr h'' above = q := by simp only [holeptr]; rw [en]; simp
  have fr' : ∀ i ∈ ctxIdxs (below ++ [Ff]), nd h'' i = nd h i := by
    intro i hi
    rw [ctxIdxs_append] at hi
    simp only [ctxIdxs, List.append_nil, List.mem_append, List.mem_cons] at hi
    have hmem : i ∈ ctxIdxs below ++ Ff.i :: (Ff.sib.idxs ++ ctxIdxs above) := by
      simp only [List.mem_append, List.mem_cons]
      rcases hi with hi | hi | hi
      · left; exact hi
      · right; left; exact hi
      · right; right; left; exact hi
    apply fr i
    · intro e; exact hqn (by rw [← e]; exact List.mem_append_right _ hmem)
    · apply nen i (hge i hmem).1
      rcases hi with hi | hi | hi
      · exact dBl i hi
      · rw [hi]; exact dF
      · exact dSb i hi
  obtain ⟨r1, r2⟩ := rawcopy_repc (kq := kq) es hq2 hqs eq' hkq rfl habove'' hhole below hrc fr'
  have hrs'' : Rep h'' (holeptr h'' (below ++ ⟨q, kq, Ff.c, Ff.d, Ff.sib⟩ :: above)) X := by
    rw [r2]
    apply hrs.frame es
    intro i hi
    apply fr i
    · intro e; exact hqn (by rw [← e]; simp [hi])
    · exact nen i (hXge i hi).1 (dX i hi)
  exact ⟨r1.plug hrs'', es, ekey⟩

end AsmjitVerif.Tree.Rem
