/-
C18 — ArenaTree insert, part 3: heap-level lemmas for the primitive restructurings on represented subtrees:
`singleRotate`, `doubleRotate`, colour flip, bottom insertion.  Each says: the result represents the transformed
tree at the stated index and only the named cells changed.  Core-only.
-/
import AsmjitVerif.Lemmas.C18TreeIns2
namespace AsmjitVerif.Tree.Ins
open AsmjitVerif.Tree AsmjitVerif.Tree.Spec

def childOf (x : TNode) (d : Bool) : Nat := if d then x.r else x.l
def setc (x : TNode) (d : Bool) (c : Nat) : TNode := if d then { x with r := c } else { x with l := c }

theorem child_childOf (h : Tree) (n : Nat) (d : Bool) : child h n d = childOf (nd h n) d := rfl
theorem setChild_upd (h : Tree) (n : Nat) (d : Bool) (c : Nat) :
    setChild h n d c = upd h n (fun x => setc x d c) := rfl

@[simp] theorem childOf_setc_same (x d c) : childOf (setc x d c) d = c := by cases d <;> rfl
@[simp] theorem childOf_setc_other (x d c) : childOf (setc x d c) (!d) = childOf x (!d) := by cases d <;> rfl
@[simp] theorem childOf_setc_other' (x d c) : childOf (setc x (!d) c) d = childOf x d := by cases d <;> rfl
@[simp] theorem key_setc (x d c) : (setc x d c).key = x.key := by cases d <;> rfl
@[simp] theorem red_setc (x d c) : (setc x d c).red = x.red := by cases d <;> rfl
@[simp] theorem childOf_red (x : TNode) (b d) : childOf { x with red := b } d = childOf x d := by cases d <;> rfl

theorem nodup_nodeD {d : Bool} {i k : Nat} {c : Bool} {a b : T} :
    (nodeD d i k c a b).idxs.Nodup ↔
      i ∉ a.idxs ∧ i ∉ b.idxs ∧ a.idxs.Nodup ∧ b.idxs.Nodup ∧ ∀ x ∈ a.idxs, x ∉ b.idxs := by
  rw [(idxs_nodeD_perm d i k c a b).nodup_iff, List.nodup_cons, List.nodup_append, List.mem_append]
  constructor
  · rintro ⟨h1, h2, h3, h4⟩
    exact ⟨fun e => h1 (Or.inl e), fun e => h1 (Or.inr e), h2, h3, fun x hx hb => h4 x hx x hb rfl⟩
  · rintro ⟨h1, h2, h3, h4, h5⟩
    exact ⟨fun e => e.elim h1 h2, h3, h4, fun x hx y hy e => h5 x hx (e ▸ hy)⟩

theorem nodup_node {i k : Nat} {c : Bool} {a b : T} :
    (T.node i k c a b).idxs.Nodup ↔
      i ∉ a.idxs ∧ i ∉ b.idxs ∧ a.idxs.Nodup ∧ b.idxs.Nodup ∧ ∀ x ∈ a.idxs, x ∉ b.idxs :=
  nodup_nodeD (d := false)

theorem mem_idxs_node {i k : Nat} {c : Bool} {a b : T} {x : Nat} :
    x ∈ (T.node i k c a b).idxs ↔ x = i ∨ x ∈ a.idxs ∨ x ∈ b.idxs :=
  mem_idxs_nodeD (d := false)

/-- in-order traversals are invariant under rotations -/
theorem idxs_rot1 (d : Bool) (g kg s ks : Nat) (c1 c2 c3 c4 : Bool) (B A U : T) :
    (nodeD d s ks c1 (nodeD (!d) g kg c2 B U) A).idxs = (nodeD (!d) g kg c3 (nodeD d s ks c4 B A) U).idxs := by
  cases d <;> simp [nodeD, T.idxs]

theorem keys_rot1 (d : Bool) (g kg s ks : Nat) (c1 c2 c3 c4 : Bool) (B A U : T) :
    (nodeD d s ks c1 (nodeD (!d) g kg c2 B U) A).keys = (nodeD (!d) g kg c3 (nodeD d s ks c4 B A) U).keys := by
  cases d <;> simp [nodeD, T.keys]

theorem idxs_rot2 (d : Bool) (g kg p kp q kq : Nat) (c1 c2 c3 c4 c5 c6 : Bool) (C B A U : T) :
    (nodeD d q kq c1 (nodeD (!d) g kg c2 C U) (nodeD d p kp c3 B A)).idxs =
      (nodeD (!d) g kg c4 (nodeD d p kp c5 (nodeD d q kq c6 C B) A) U).idxs := by
  cases d <;> simp [nodeD, T.idxs]

theorem keys_rot2 (d : Bool) (g kg p kp q kq : Nat) (c1 c2 c3 c4 c5 c6 : Bool) (C B A U : T) :
    (nodeD d q kq c1 (nodeD (!d) g kg c2 C U) (nodeD d p kp c3 B A)).keys =
      (nodeD (!d) g kg c4 (nodeD d p kp c5 (nodeD d q kq c6 C B) A) U).keys := by
  cases d <;> simp [nodeD, T.keys]

theorem idxs_rotInner (d : Bool) (g kg p kp q kq : Nat) (c1 c2 c3 c4 c5 c6 : Bool) (C B A U : T) :
    (nodeD (!d) g kg c1 (nodeD d q kq c2 C (nodeD d p kp c3 B A)) U).idxs =
      (nodeD (!d) g kg c4 (nodeD d p kp c5 (nodeD d q kq c6 C B) A) U).idxs := by
  cases d <;> simp [nodeD, T.idxs]

theorem singleRotate_cells (h : Tree) (g : Nat) (d : Bool) (s : Nat) (hs : child h g (!d) = s)
    (hg0 : g ≠ 0) (hs0 : s ≠ 0) (hgs : g ≠ s) (hgl : g < h.nodes.size) (hsl : s < h.nodes.size) :
    (singleRotate h g d).2 = s ∧
    nd (singleRotate h g d).1 g = { setc (nd h g) (!d) (child h s d) with red := true } ∧
    nd (singleRotate h g d).1 s = { setc (nd h s) d g with red := false } ∧
    (∀ i, i ≠ g → i ≠ s → nd (singleRotate h g d).1 i = nd h i) ∧
    (singleRotate h g d).1.nodes.size = h.nodes.size := by
  have hsg : s ≠ g := fun e => hgs e.symm
  simp only [singleRotate, hs, setChild_upd, makeRed, makeBlack]
  refine ⟨trivial, ?_, ?_, ?_, ?_⟩
  · simp only [nd_upd_other _ _ _ _ hgs, nd_upd_same, size_upd, hgl, hg0, ne_eq, not_false_eq_true]
  · simp only [nd_upd_other _ _ _ _ hsg, nd_upd_same, size_upd, hsl, hs0, ne_eq, not_false_eq_true]
  · intro i hig his
    simp only [nd_upd_other _ _ _ _ hig, nd_upd_other _ _ _ _ his]
  · simp only [size_upd]

/-- `_single_rotate(g, d)` on a represented subtree -/
theorem rep_singleRotate {h : Tree} {g : Nat} {d : Bool} {kg : Nat} {cg : Bool} {s ks : Nat} {cs : Bool} {B A U : T}
    (hr : Rep h g (nodeD (!d) g kg cg (nodeD d s ks cs B A) U))
    (hnd : (nodeD (!d) g kg cg (nodeD d s ks cs B A) U).idxs.Nodup) :
    (singleRotate h g d).2 = s ∧
    Rep (singleRotate h g d).1 s (nodeD d s ks false (nodeD (!d) g kg true B U) A) ∧
    SameOut [g, s] h (singleRotate h g d).1 := by
  simp only [nodup_nodeD, mem_idxs_nodeD, not_or] at hnd
  obtain ⟨⟨hgs, hgB, hgA⟩, hgU, ⟨hsB, hsA, ndB, ndA, hBA⟩, ndU, hSU⟩ := hnd
  rw [Rep_nodeD] at hr
  obtain ⟨_, g2, gl, gk, gc, r1, rU⟩ := hr
  generalize hs : child h g (!d) = s' at r1
  rw [Rep_nodeD] at r1
  obtain ⟨rfl, s2, sl, sk, sc, rB, rA⟩ := r1
  obtain ⟨e1, cg', cs', co, sz⟩ := singleRotate_cells h g d s' hs (by omega) (by omega) hgs gl sl
  refine ⟨e1, ?_, ⟨fun i hi => co i (by simp at hi; exact hi.1) (by simp at hi; exact hi.2), sz⟩⟩
  generalize (singleRotate h g d).1 = h' at *
  have frame : ∀ {n X}, Rep h n X → g ∉ X.idxs → s' ∉ X.idxs → Rep h' n X := by
    intro n X rX h1 h2
    refine Rep_frame rX (fun i hi => co i ?_ ?_) (by omega)
    · intro e; exact h1 (e ▸ hi)
    · intro e; exact h2 (e ▸ hi)
  rw [Rep_nodeD]
  refine ⟨rfl, s2, by omega, ?_, ?_, ?_, ?_⟩
  · rw [cs']; simp [sk]
  · rw [cs']
  · rw [child_childOf, cs']
    simp only [childOf_red, childOf_setc_same]
    rw [Rep_nodeD]
    refine ⟨rfl, g2, by omega, ?_, ?_, ?_, ?_⟩
    · rw [cg']; simp [gk]
    · rw [cg']
    · rw [child_childOf, cg']
      simp only [childOf_red, childOf_setc_same]
      exact frame rB hgB hsB
    · rw [child_childOf, cg', Bool.not_not]
      simp only [childOf_red, childOf_setc_other']
      rw [Bool.not_not] at rU
      exact frame rU hgU (fun e => hSU s' (by simp) e)
  · rw [child_childOf, cs']
    simp only [childOf_red, childOf_setc_other]
    exact frame rA hgA hsA

/-- `_double_rotate(g, d)` on a represented subtree: `g`'s child `p` in direction `!d` has the (red) node `q` in
direction `d`; `q` becomes the subtree root -/
theorem rep_doubleRotate {h : Tree} {g : Nat} {d : Bool} {kg : Nat} {cg : Bool} {p kp : Nat} {cp : Bool}
    {q kq : Nat} {cq : Bool} {C B A U : T}
    (hr : Rep h g (nodeD (!d) g kg cg (nodeD d p kp cp (nodeD d q kq cq C B) A) U))
    (hnd : (nodeD (!d) g kg cg (nodeD d p kp cp (nodeD d q kq cq C B) A) U).idxs.Nodup) :
    (doubleRotate h g d).2 = q ∧
    Rep (doubleRotate h g d).1 q (nodeD d q kq false (nodeD (!d) g kg true C U) (nodeD d p kp true B A)) ∧
    SameOut [g, p, q] h (doubleRotate h g d).1 := by
  have hnd0 := hnd
  simp only [nodup_nodeD, mem_idxs_nodeD, not_or] at hnd
  obtain ⟨⟨hgp, ⟨hgq, hgC, hgB⟩, hgA⟩, hgU, ⟨⟨hpq, hpC, hpB⟩, hpA, ndQ, ndA, hQA⟩, ndU, hPU⟩ := hnd
  rw [Rep_nodeD] at hr
  obtain ⟨_, g2, gl, gk, gc, rP, rU⟩ := hr
  generalize hp : child h g (!d) = p' at rP
  have rP0 := rP
  rw [Rep_nodeD] at rP
  obtain ⟨rfl, p2, pl, _⟩ := rP
  -- first rotation: at `p'`, direction `!d`
  have rP1 : Rep h p' (nodeD (!(!d)) p' kp cp (nodeD (!d) q kq cq B C) A) := by
    rw [Bool.not_not, nodeD_not (d := d) (a := B)]; exact rP0
  have nd1 : (nodeD (!(!d)) p' kp cp (nodeD (!d) q kq cq B C) A).idxs.Nodup := by
    rw [Bool.not_not, nodeD_not (d := d) (a := B)]
    exact (nodup_nodeD.1 hnd0).2.2.1
  obtain ⟨e1, r1, so1⟩ := rep_singleRotate rP1 nd1
  simp only [doubleRotate, hp, e1]
  generalize (singleRotate h p' !d).1 = h1 at *
  -- relink `g`
  have hg1 : nd h1 g = nd h g := so1.cells g (by simp; exact ⟨hgp, hgq⟩)
  have sz1 := so1.size
  have so2 : SameOut [g] h1 (setChild h1 g (!d) q) := SameOut.upd [g] h1 g _ (by simp)
  have cg2 : nd (setChild h1 g (!d) q) g = setc (nd h g) (!d) q := by
    rw [setChild_upd, nd_upd_same _ _ _ (by omega) (by omega), hg1]
  generalize setChild h1 g (!d) q = h2 at *
  have r2 : Rep h2 g (nodeD (!d) g kg cg (nodeD d q kq false C (nodeD d p' kp true B A)) U) := by
    rw [Rep_nodeD]
    refine ⟨rfl, g2, by rw [so2.size]; omega, by rw [cg2]; simp [gk], by rw [cg2]; simp [gc], ?_, ?_⟩
    · rw [child_childOf, cg2, childOf_setc_same]
      refine Rep_sameOut ?_ so2 ?_
      · have r1' := r1
        rw [Bool.not_not, nodeD_not] at r1'
        exact r1'
      · intro i hi
        simp only [mem_idxs_nodeD] at hi
        simp only [List.mem_singleton]
        rcases hi with rfl | hi | rfl | hi | hi
        · exact fun e => hgq e.symm
        · exact fun e => hgC (e ▸ hi)
        · exact fun e => hgp e.symm
        · exact fun e => hgB (e ▸ hi)
        · exact fun e => hgA (e ▸ hi)
    · rw [child_childOf, cg2, Bool.not_not, childOf_setc_other']
      rw [Bool.not_not] at rU
      refine Rep_sameOut (Rep_sameOut rU so1 ?_) so2 ?_
      · intro i hi
        simp only [List.mem_cons, List.not_mem_nil, or_false, not_or]
        exact ⟨fun e => hPU i (by simp [e]) hi,
               fun e => hPU i (by simp [e]) hi⟩
      · intro i hi
        simp only [List.mem_singleton]
        exact fun e => hgU (e ▸ hi)
  have nd2 : (nodeD (!d) g kg cg (nodeD d q kq false C (nodeD d p' kp true B A)) U).idxs.Nodup := by
    rw [idxs_rotInner d g kg p' kp q kq cg false true cg cp cq]; exact hnd0
  obtain ⟨e3, r3, so3⟩ := rep_singleRotate r2 nd2
  refine ⟨e3, r3, ?_⟩
  refine SameOut.trans (so1.mono ?_) (SameOut.trans (so2.mono ?_) (so3.mono ?_)) <;>
    (intro i hi; simp at hi ⊢; omega)

theorem isRed_rep {h : Tree} {n : Nat} {X : T} (r : Rep h n X) : isRed h n = X.isRed := by
  cases r with
  | nil => rfl
  | @node n k c L R h2 hlt hk hc rl rr =>
    have : (n != 0) = true := by simp; omega
    simp only [isRed, this, Bool.true_and, hc]
    cases c <;> rfl

theorem key_rep {h : Tree} {n i k : Nat} {c : Bool} {L R : T} (r : Rep h n (.node i k c L R)) : key h n = k := by
  cases r with | node h2 hlt hk hc rl rr => exact hk

/-- colour flip on a represented subtree -/
theorem rep_flip {h : Tree} {q kq : Nat} {c : Bool} {ql kl qr kr : Nat} {LL LR RL RR : T}
    (hr : Rep h q (.node q kq c (.node ql kl true LL LR) (.node qr kr true RL RR)))
    (hnd : (T.node q kq c (.node ql kl true LL LR) (.node qr kr true RL RR)).idxs.Nodup) :
    child h q false = ql ∧ child h q true = qr ∧
    Rep (makeBlack (makeBlack (makeRed h q) ql) qr) q
      (.node q kq true (.node ql kl false LL LR) (.node qr kr false RL RR)) ∧
    SameOut [q, ql, qr] h (makeBlack (makeBlack (makeRed h q) ql) qr) := by
  cases hr with
  | node q2 qlt qk qc rl rr =>
  have el : (nd h q).l = ql := Rep_rootIdx rl ▸ rfl
  have er : (nd h q).r = qr := Rep_rootIdx rr ▸ rfl
  rw [el] at rl; rw [er] at rr
  cases rl with
  | node l2 llt lk lc rll rlr =>
  cases rr with
  | node r2 rlt rk rc rrl rrr =>
  simp only [nodup_node, mem_idxs_node, not_or] at hnd
  obtain ⟨⟨hql, hqLL, hqLR⟩, ⟨hqr, hqRL, hqRR⟩, ⟨hlLL, hlLR, ndLL, ndLR, dLL⟩, ⟨hrRL, hrRR, ndRL, ndRR, dRR⟩, hLR⟩ := hnd
  have hlr : ql ≠ qr := (hLR ql (Or.inl rfl)).1
  have so : SameOut [q, ql, qr] h (makeBlack (makeBlack (makeRed h q) ql) qr) := by
    simp only [makeRed, makeBlack]
    exact ((SameOut.upd _ h q _ (by simp)).trans (SameOut.upd _ _ ql _ (by simp))).trans
      (SameOut.upd _ _ qr _ (by simp))
  have cq : nd (makeBlack (makeBlack (makeRed h q) ql) qr) q = { nd h q with red := true } := by
    simp only [makeRed, makeBlack]
    rw [nd_upd_other _ _ _ _ hqr, nd_upd_other _ _ _ _ hql, nd_upd_same _ _ _ (by omega) qlt]
  have cl : nd (makeBlack (makeBlack (makeRed h q) ql) qr) ql = { nd h ql with red := false } := by
    simp only [makeRed, makeBlack]
    rw [nd_upd_other _ _ _ _ hlr, nd_upd_same _ _ _ (by omega) (by simp only [size_upd]; exact llt),
      nd_upd_other _ _ _ _ (fun e => hql e.symm)]
  have cr : nd (makeBlack (makeBlack (makeRed h q) ql) qr) qr = { nd h qr with red := false } := by
    simp only [makeRed, makeBlack]
    rw [nd_upd_same _ _ _ (by omega) (by simp only [size_upd]; exact rlt),
      nd_upd_other _ _ _ _ (fun e => hlr e.symm), nd_upd_other _ _ _ _ (fun e => hqr e.symm)]
  refine ⟨by simp only [child_eq, Bool.false_eq_true, if_false]; exact el,
          by simp only [child_eq, if_true]; exact er, ?_, so⟩
  generalize makeBlack (makeBlack (makeRed h q) ql) qr = h' at *
  have frame : ∀ {n X}, Rep h n X → q ∉ X.idxs → ql ∉ X.idxs → qr ∉ X.idxs → Rep h' n X := by
    intro n X rX h1 h2 h3
    refine Rep_sameOut rX so ?_
    intro i hi
    simp only [List.mem_cons, List.not_mem_nil, or_false, not_or]
    exact ⟨fun e => h1 (e ▸ hi), fun e => h2 (e ▸ hi), fun e => h3 (e ▸ hi)⟩
  have sz := so.size
  refine .node q2 (by omega) (by rw [cq]; exact qk) (by rw [cq]) ?_ ?_
  · rw [cq]; simp only [el]
    refine .node l2 (by omega) (by rw [cl]; exact lk) (by rw [cl]) ?_ ?_
    · rw [cl]
      exact frame rll hqLL hlLL (fun e => (hLR qr (Or.inr (Or.inl e))).1 rfl)
    · rw [cl]
      exact frame rlr hqLR hlLR (fun e => (hLR qr (Or.inr (Or.inr e))).1 rfl)
  · rw [cq]; simp only [er]
    refine .node r2 (by omega) (by rw [cr]; exact rk) (by rw [cr]) ?_ ?_
    · rw [cr]
      exact frame rrl hqRL (fun e => (hLR ql (Or.inl rfl)).2.1 e) hrRL
    · rw [cr]
      exact frame rrr hqRR (fun e => (hLR ql (Or.inl rfl)).2.2 e) hrRR

end AsmjitVerif.Tree.Ins
