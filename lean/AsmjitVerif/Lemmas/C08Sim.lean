/- C08: every list action refines; the Builder model simulates the specification operation by operation. -/
import AsmjitVerif.Lemmas.C08Section

namespace AsmjitVerif.Builder
open Spec

theorem refine_act (m : MList) (a : Act) (h : Inv m) :
    Inv (m.apply a) ∧ (m.apply a).abs = m.abs.apply a := by
  cases a with
  | add n => exact refine_add m n h
  | addAfter n r => exact refine_addAfter m n r h
  | addBefore n r => exact refine_addBefore m n r h
  | remove n => exact refine_remove m n h
  | removeRange a b => exact refine_removeRange m a b h
  | setCursor c => exact refine_setCursor m c h
  | regSection n => exact refine_regSection m n h
  | «section» n => exact refine_section m n h

theorem refine_acts : ∀ (acts : List Act) (m : MList), Inv m →
    Inv (acts.foldl MList.apply m) ∧ (acts.foldl MList.apply m).abs = acts.foldl Doc.apply m.abs := by
  intro acts
  induction acts with
  | nil => intro m h; exact ⟨h, rfl⟩
  | cons a rest ih =>
    intro m h
    have hstep := refine_act m a h
    have := ih (m.apply a) hstep.1
    simpa [List.foldl_cons, hstep.2] using this

/-- the `pre` answer for `remove_nodes` never changes the state: the action is a no-op when the precondition fails -/
theorem step_state (s : Builder.St) (op : Op) :
    (step s op).1 = { f := (front s.f s.l.active op).1, l := (front s.f s.l.active op).2.2.foldl MList.apply s.l } := by
  unfold step
  by_cases hp : rangePre s.l op = true
  · simp [hp]
  · have hp' : rangePre s.l op = false := by simpa using hp
    cases op with
    | removerange a b =>
      have hp0 := hp'
      simp only [rangePre] at hp'
      have hab : a ≠ b := by intro e; subst e; simp at hp'
      have hact : s.l.active a = true := by
        cases h : s.l.active a <;> simp_all
      have hnc : (suffixFrom s.l.list a).contains b = false := by
        cases h : (suffixFrom s.l.list a).contains b <;> simp_all
      simp only [hp', Bool.not_false, if_true, front]
      by_cases hlen : (decide (a < s.f.nodes.length) && decide (b < s.f.nodes.length)) = true
      · simp only [hlen, if_true, List.foldl_cons, List.foldl_nil, MList.apply, hab, if_false, hact, hnc,
          Bool.not_true, Bool.not_false, Bool.false_eq_true]
        simp [hp0]
      · have : (decide (a < s.f.nodes.length) && decide (b < s.f.nodes.length)) = false := by simpa using hlen
        simp only [this, Bool.false_eq_true, if_false, List.foldl_nil]
        simp [hp0]
    | _ => simp [rangePre] at hp'

theorem spec_step_state (s : Spec.St) (op : Op) :
    (Spec.step s op).1 = { f := (front s.f s.d.has op).1, d := (front s.f s.d.has op).2.2.foldl Doc.apply s.d } := by
  unfold Spec.step
  by_cases hp : Spec.rangePre s.d op = true
  · simp [hp]
  · have hp' : Spec.rangePre s.d op = false := by simpa using hp
    cases op with
    | removerange a b =>
      have hp0 := hp'
      simp only [Spec.rangePre] at hp'
      have hab : a ≠ b := by intro e; subst e; simp at hp'
      have hact : s.d.has a = true := by
        cases h : s.d.has a <;> simp_all
      have hnc : (s.d.has b && decide (s.d.pos a < s.d.pos b)) = false := by
        cases h : (s.d.has b && decide (s.d.pos a < s.d.pos b)) <;> simp_all
      simp only [hp', Bool.not_false, if_true, front]
      by_cases hlen : (decide (a < s.f.nodes.length) && decide (b < s.f.nodes.length)) = true
      · simp only [hlen, if_true, List.foldl_cons, List.foldl_nil, Doc.apply, hab, if_false, hact, hnc,
          Bool.not_true, Bool.not_false, Bool.false_eq_true]
        simp [hp0]
      · have : (decide (a < s.f.nodes.length) && decide (b < s.f.nodes.length)) = false := by simpa using hlen
        simp only [this, Bool.false_eq_true, if_false, List.foldl_nil]
        simp [hp0]
    | _ => simp [Spec.rangePre] at hp'

/-- simulation relation between a Builder model state and a specification state -/
structure Sim (s : Builder.St) (t : Spec.St) : Prop where
  front : s.f = t.f
  doc : s.l.abs = t.d
  inv : Inv s.l

theorem sim_step (s : Builder.St) (t : Spec.St) (op : Op) (h : Sim s t) : Sim (step s op).1 (Spec.step t op).1 := by
  rw [step_state, spec_step_state]
  have hact : s.l.active = t.d.has := by
    funext n
    rw [← h.doc]; rfl
  rw [← h.front, ← hact]
  have := refine_acts (front s.f s.l.active op).2.2 s.l h.inv
  exact ⟨rfl, by rw [this.2, h.doc], this.1⟩

theorem sim_run : ∀ (ops : List Op) (s : Builder.St) (t : Spec.St), Sim s t → Sim (run s ops) (Spec.run t ops) := by
  intro ops
  induction ops with
  | nil => intro s t h; exact h
  | cons op rest ih =>
    intro s t h
    simpa [run, Spec.run, List.foldl_cons] using ih _ _ (sim_step s t op h)

end AsmjitVerif.Builder
