/- `code_size()` against the ideal size; the size is unchanged by `flatten`. -/
import AsmjitVerif.Lemmas.SectionsFlatten
namespace AsmjitVerif.Sections

theorem codeSizeLoop_sticky (off : Nat) (secs : List Section) : (codeSizeLoop off true secs).2 = true := by
  induction secs generalizing off with
  | nil => rfl
  | cons s rest ih =>
    unfold codeSizeLoop
    split
    · simp only [Bool.true_or]; exact ih _
    · exact ih _

/-- the loop of `code_size` computes the ideal size, or raises the overflow flag exactly when it does not fit -/
theorem codeSizeLoop_spec (off : Nat) (secs : List Section) (hpre : Pre off secs) (hoff : off < U64) :
    (idealEnd off secs < U64 → codeSizeLoop off false secs = (idealEnd off secs, false)) ∧
    (U64 ≤ idealEnd off secs → (codeSizeLoop off false secs).2 = true) := by
  induction secs generalizing off with
  | nil => simp [codeSizeLoop, idealEnd]; omega
  | cons s rest ih =>
    unfold codeSizeLoop idealEnd
    by_cases hr : s.realSize ≠ 0
    · rw [if_pos hr, if_pos hr]
      simp only [Bool.false_or]
      have hx := idealEnd_ge (roundUp off s.align + s.realSize) rest
      have hge := roundUp_ge off s.align
      by_cases hfit : roundUp off s.align + s.realSize < U64
      · have he := alignUp_eq_of_fits off s.align hpre.1 hoff (by omega)
        rw [he, Nat.mod_eq_of_lt hfit]
        have h1 : decide (roundUp off s.align < off) = false := by simp; omega
        have h2 : decide (roundUp off s.align + s.realSize ≥ U64) = false := by simp; omega
        rw [h1, h2]
        exact ih _ (Pre_tail hpre _) hfit
      · constructor
        · intro h; omega
        · intro _
          have hov : (decide (alignUp off s.align < off) || decide (alignUp off s.align + s.realSize ≥ U64)) = true := by
            by_cases hf2 : roundUp off s.align < U64
            · rw [alignUp_eq_of_fits off s.align hpre.1 hoff hf2]
              simp; right; omega
            · have := alignUp_lt_of_not_fits off s.align hpre.1 hoff (by omega)
              simp [this]
          rw [hov]
          exact codeSizeLoop_sticky _ _
    · rw [if_neg hr, if_neg hr]
      exact ih off (Pre_tail hpre off) hoff

/-- `code_size()` = ideal size saturated at SIZE_MAX -/
theorem codeSizeOf_eq_spec (secs : List Section) (hpre : Pre 0 secs) : codeSizeOf secs = codeSizeSpec secs := by
  unfold codeSizeOf codeSizeSpec
  have := codeSizeLoop_spec 0 secs hpre (by unfold U64; omega)
  by_cases h : idealEnd 0 secs < U64
  · rw [this.1 h, if_pos h]; simp
  · rw [if_neg h]
    have := this.2 (by omega)
    simp [this]

theorem idealEnd_congr_first {l : List Section} {t : Section} {x y : Nat} (hf : firstNonEmpty l = some t)
    (h : roundUp y t.align = roundUp x t.align) : idealEnd y l = idealEnd x l := by
  induction l with
  | nil => simp [firstNonEmpty] at hf
  | cons s rest ih =>
    unfold firstNonEmpty at hf
    unfold idealEnd
    split at hf
    · rename_i hr
      cases hf
      rw [if_pos hr, if_pos hr, h]
    · rename_i hr
      rw [if_neg hr, if_neg hr]
      exact ih hf

theorem idealEnd_all_empty {l : List Section} (h : ∀ b ∈ l, b.realSize = 0) (x : Nat) : idealEnd x l = x := by
  induction l with
  | nil => rfl
  | cons s rest ih =>
    unfold idealEnd
    rw [if_neg (by have := h s (by simp); omega)]
    exact ih (fun b hb => h b (by simp [hb]))

theorem idealEnd_cons_ne (off : Nat) (s : Section) (rest : List Section) (h : s.realSize ≠ 0) :
    idealEnd off (s :: rest) = idealEnd (roundUp off s.align + s.realSize) rest := by simp [idealEnd, h]

theorem idealEnd_cons_e (off : Nat) (s : Section) (rest : List Section) (h : s.realSize = 0) :
    idealEnd off (s :: rest) = idealEnd off rest := by simp [idealEnd, h]

/-- after `flatten` the table is its own ideal layout: `code_size()` does not change (this is what fails on the pinned
    code, defect #17) -/
theorem assign_idealEnd (off : Nat) (secs : List Section) (hpre : Pre off secs) (hfit : idealEnd off secs < U64) :
    idealEnd off (assign off secs) = idealEnd off secs ∧
    (∀ t, firstNonEmpty (assign off secs) = some t → t.offset = roundUp off t.align) := by
  induction secs generalizing off with
  | nil => simp [assign, firstNonEmpty]
  | cons s rest ih =>
    have hoff : off < U64 := by have := idealEnd_ge off (s :: rest); omega
    unfold assign
    by_cases hr : s.realSize ≠ 0
    · simp only [if_pos hr]
      have hend : idealEnd off (s :: rest) = idealEnd (roundUp off s.align + s.realSize) rest := by simp [idealEnd, hr]
      rw [hend] at hfit ⊢
      have hx := idealEnd_ge (roundUp off s.align + s.realSize) rest
      have hge := roundUp_ge off s.align
      have he := alignUp_eq_of_fits off s.align hpre.1 hoff (by omega)
      rw [he, Nat.mod_eq_of_lt (by omega)]
      obtain ⟨ihE, ihF⟩ := ih (roundUp off s.align + s.realSize) (Pre_tail hpre _) hfit
      obtain ⟨_, gB, _, gD⟩ := assign_good (roundUp off s.align + s.realSize) rest (Pre_tail hpre _) hfit
      have hbnd := layoutChk_bounds gB
      cases hf : firstNonEmpty (assign (roundUp off s.align + s.realSize) rest) with
      | none =>
        simp only []
        constructor
        · have hreal : ({ s with offset := roundUp off s.align } : Section).realSize = s.realSize := rfl
          rw [idealEnd_cons_ne _ _ _ (by rw [hreal]; exact hr)]
          show idealEnd (roundUp off s.align + s.realSize) _ = _
          exact ihE
        · intro t ht
          unfold firstNonEmpty at ht
          have hreal : ({ s with offset := roundUp off s.align } : Section).realSize = s.realSize := rfl
          rw [hreal, if_pos hr] at ht
          cases ht; rfl
      | some t =>
        simp only []
        obtain ⟨htm, htne⟩ := firstNonEmpty_mem hf
        have htlo := (hbnd t htm).2 htne
        have htD := gD t htm
        have hvs : (t.offset + U64 - roundUp off s.align) % U64 = t.offset - roundUp off s.align := by
          have : t.offset + U64 - roundUp off s.align = (t.offset - roundUp off s.align) + U64 := by omega
          rw [this, Nat.add_mod_right, Nat.mod_eq_of_lt (by omega)]
        rw [hvs]
        have hreal : ({ s with offset := roundUp off s.align, vsize := t.offset - roundUp off s.align } : Section).realSize
            = t.offset - roundUp off s.align := by
          show max (t.offset - roundUp off s.align) s.bufSize = _
          have : s.bufSize ≤ s.realSize := by unfold Section.realSize; omega
          omega
        constructor
        · rw [idealEnd_cons_ne _ _ _ (by rw [hreal]; omega), hreal]
          show idealEnd (roundUp off s.align + (t.offset - roundUp off s.align)) _ = _
          have h1 : roundUp off s.align + (t.offset - roundUp off s.align) = t.offset := by omega
          rw [h1, ← ihE]
          apply idealEnd_congr_first hf
          rw [ihF t hf, roundUp_idem]
        · intro t' ht'
          unfold firstNonEmpty at ht'
          rw [hreal, if_pos (by omega)] at ht'
          cases ht'; rfl
    · simp only [if_neg hr]
      have hr0 : s.realSize = 0 := by omega
      have hend : idealEnd off (s :: rest) = idealEnd off rest := by simp [idealEnd, hr0]
      rw [hend] at hfit ⊢
      obtain ⟨ihE, ihF⟩ := ih off (Pre_tail hpre _) hfit
      have hreal : ({ s with offset := off } : Section).realSize = 0 := hr0
      constructor
      · rw [idealEnd_cons_e _ _ _ hreal]
        exact ihE
      · intro t ht
        unfold firstNonEmpty at ht
        rw [hreal, if_neg (by omega)] at ht
        exact ihF t ht

end AsmjitVerif.Sections
