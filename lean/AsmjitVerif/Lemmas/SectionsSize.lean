/- `code_size()` against the ideal size; the size is unchanged by `flatten`. -/
import AsmjitVerif.Lemmas.SectionsFlatten
import AsmjitVerif.Lemmas.SectionsCopy
namespace AsmjitVerif.Sections

theorem codeSizeLoop_sticky (off : Nat) (secs : List Section) : (codeSizeLoop off true secs).2 = true := by
  induction secs generalizing off with
  | nil => rfl
  | cons s rest ih =>
    unfold codeSizeLoop
    split
    · simp only [Bool.true_or]; exact ih _
    · exact ih _

/-- the loop of `code_size` computes the ideal size, or raises the overflow flag exactly when it does not fit -/
theorem codeSizeLoop_spec (off : Nat) (secs : List Section) (hpre : Pre off secs) (hoff : off < U64) :
    (idealEnd off secs < U64 → codeSizeLoop off false secs = (idealEnd off secs, false)) ∧
    (U64 ≤ idealEnd off secs → (codeSizeLoop off false secs).2 = true) := by
  induction secs generalizing off with
  | nil => simp [codeSizeLoop, idealEnd]; omega
  | cons s rest ih =>
    unfold codeSizeLoop idealEnd
    by_cases hr : s.realSize ≠ 0
    · rw [if_pos hr, if_pos hr]
      simp only [Bool.false_or]
      have hx := idealEnd_ge (roundUp off s.align + s.realSize) rest
      have hge := roundUp_ge off s.align
      by_cases hfit : roundUp off s.align + s.realSize < U64
      · have he := alignUp_eq_of_fits off s.align hpre.1 hoff (by omega)
        rw [he, Nat.mod_eq_of_lt hfit]
        have h1 : decide (roundUp off s.align < off) = false := by simp; omega
        have h2 : decide (roundUp off s.align + s.realSize ≥ U64) = false := by simp; omega
        rw [h1, h2]
        exact ih _ (Pre_tail hpre _) hfit
      · constructor
        · intro h; omega
        · intro _
          have hov : (decide (alignUp off s.align < off) || decide (alignUp off s.align + s.realSize ≥ U64)) = true := by
            by_cases hf2 : roundUp off s.align < U64
            · rw [alignUp_eq_of_fits off s.align hpre.1 hoff hf2]
              simp; right; omega
            · have := alignUp_lt_of_not_fits off s.align hpre.1 hoff (by omega)
              simp [this]
          rw [hov]
          exact codeSizeLoop_sticky _ _
    · rw [if_neg hr, if_neg hr]
      exact ih off (Pre_tail hpre off) hoff

/-- `code_size()` = ideal size saturated at SIZE_MAX -/
theorem codeSizeOf_eq_spec (secs : List Section) (hpre : Pre 0 secs) : codeSizeOf secs = codeSizeSpec secs := by
  unfold codeSizeOf codeSizeSpec
  have := codeSizeLoop_spec 0 secs hpre (by unfold U64; omega)
  by_cases h : idealEnd 0 secs < U64
  · rw [this.1 h, if_pos h]; simp
  · rw [if_neg h]
    have := this.2 (by omega)
    simp [this]

theorem idealEnd_congr_first {l : List Section} {t : Section} {x y : Nat} (hf : firstNonEmpty l = some t)
    (h : roundUp y t.align = roundUp x t.align) : idealEnd y l = idealEnd x l := by
  induction l with
  | nil => simp [firstNonEmpty] at hf
  | cons s rest ih =>
    unfold firstNonEmpty at hf
    unfold idealEnd
    split at hf
    · rename_i hr
      cases hf
      rw [if_pos hr, if_pos hr, h]
    · rename_i hr
      rw [if_neg hr, if_neg hr]
      exact ih hf

theorem idealEnd_all_empty {l : List Section} (h : ∀ b ∈ l, b.realSize = 0) (x : Nat) : idealEnd x l = x := by
  induction l with
  | nil => rfl
  | cons s rest ih =>
    unfold idealEnd
    rw [if_neg (by have := h s (by simp); omega)]
    exact ih (fun b hb => h b (by simp [hb]))

theorem idealEnd_cons_ne (off : Nat) (s : Section) (rest : List Section) (h : s.realSize ≠ 0) :
    idealEnd off (s :: rest) = idealEnd (roundUp off s.align + s.realSize) rest := by simp [idealEnd, h]

theorem idealEnd_cons_e (off : Nat) (s : Section) (rest : List Section) (h : s.realSize = 0) :
    idealEnd off (s :: rest) = idealEnd off rest := by simp [idealEnd, h]

/-- after `flatten` the table is its own ideal layout: `code_size()` does not change (this is what fails on the pinned
    code, defect #17) -/
theorem assign_idealEnd (off : Nat) (secs : List Section) (hpre : Pre off secs) (hfit : idealEnd off secs < U64) :
    idealEnd off (assign off secs) = idealEnd off secs ∧
    (∀ t, firstNonEmpty (assign off secs) = some t → t.offset = roundUp off t.align) := by
  induction secs generalizing off with
  | nil => simp [assign, firstNonEmpty]
  | cons s rest ih =>
    have hoff : off < U64 := by have := idealEnd_ge off (s :: rest); omega
    unfold assign
    by_cases hr : s.realSize ≠ 0
    · simp only [if_pos hr]
      have hend : idealEnd off (s :: rest) = idealEnd (roundUp off s.align + s.realSize) rest := by simp [idealEnd, hr]
      rw [hend] at hfit ⊢
      have hx := idealEnd_ge (roundUp off s.align + s.realSize) rest
      have hge := roundUp_ge off s.align
      have he := alignUp_eq_of_fits off s.align hpre.1 hoff (by omega)
      rw [he, Nat.mod_eq_of_lt (by omega)]
      obtain ⟨ihE, ihF⟩ := ih (roundUp off s.align + s.realSize) (Pre_tail hpre _) hfit
      obtain ⟨_, gB, _, gD⟩ := assign_good (roundUp off s.align + s.realSize) rest (Pre_tail hpre _) hfit
      have hbnd := layoutChk_bounds gB
      cases hf : firstNonEmpty (assign (roundUp off s.align + s.realSize) rest) with
      | none =>
        simp only []
        constructor
        · have hreal : ({ s with offset := roundUp off s.align } : Section).realSize = s.realSize := rfl
          rw [idealEnd_cons_ne _ _ _ (by rw [hreal]; exact hr)]
          show idealEnd (roundUp off s.align + s.realSize) _ = _
          exact ihE
        · intro t ht
          unfold firstNonEmpty at ht
          have hreal : ({ s with offset := roundUp off s.align } : Section).realSize = s.realSize := rfl
          rw [hreal, if_pos hr] at ht
          cases ht; rfl
      | some t =>
        simp only []
        obtain ⟨htm, htne⟩ := firstNonEmpty_mem hf
        have htlo := (hbnd t htm).2 htne
        have htD := gD t htm
        have hvs : (t.offset + U64 - roundUp off s.align) % U64 = t.offset - roundUp off s.align := by
          have : t.offset + U64 - roundUp off s.align = (t.offset - roundUp off s.align) + U64 := by omega
          rw [this, Nat.add_mod_right, Nat.mod_eq_of_lt (by omega)]
        rw [hvs]
        have hreal : ({ s with offset := roundUp off s.align, vsize := t.offset - roundUp off s.align } : Section).realSize
            = t.offset - roundUp off s.align := by
          show max (t.offset - roundUp off s.align) s.bufSize = _
          have : s.bufSize ≤ s.realSize := by unfold Section.realSize; omega
          omega
        constructor
        · rw [idealEnd_cons_ne _ _ _ (by rw [hreal]; omega), hreal]
          show idealEnd (roundUp off s.align + (t.offset - roundUp off s.align)) _ = _
          have h1 : roundUp off s.align + (t.offset - roundUp off s.align) = t.offset := by omega
          rw [h1, ← ihE]
          apply idealEnd_congr_first hf
          rw [ihF t hf, roundUp_idem]
        · intro t' ht'
          unfold firstNonEmpty at ht'
          rw [hreal, if_pos (by omega)] at ht'
          cases ht'; rfl
    · simp only [if_neg hr]
      have hr0 : s.realSize = 0 := by omega
      have hend : idealEnd off (s :: rest) = idealEnd off rest := by simp [idealEnd, hr0]
      rw [hend] at hfit ⊢
      obtain ⟨ihE, ihF⟩ := ih off (Pre_tail hpre _) hfit
      have hreal : ({ s with offset := off } : Section).realSize = 0 := hr0
      constructor
      · rw [idealEnd_cons_e _ _ _ hreal]
        exact ihE
      · intro t ht
        unfold firstNonEmpty at ht
        rw [hreal, if_neg (by omega)] at ht
        exact ihF t ht

end AsmjitVerif.Sections

namespace AsmjitVerif.Sections

theorem endOfLastNonEmpty_all_empty {l : List Section} (h : ∀ b ∈ l, b.realSize = 0) (d : Nat) : endOfLastNonEmpty d l = d := by
  induction l generalizing d with
  | nil => rfl
  | cons s rest ih =>
    unfold endOfLastNonEmpty
    rw [if_neg (by have := h s (by simp); omega)]
    exact ih (fun b hb => h b (by simp [hb])) d

theorem endOfLastNonEmpty_default {l : List Section} {t : Section} (hf : firstNonEmpty l = some t) (d d' : Nat) :
    endOfLastNonEmpty d l = endOfLastNonEmpty d' l := by
  induction l generalizing d d' with
  | nil => simp [firstNonEmpty] at hf
  | cons s rest ih =>
    unfold firstNonEmpty at hf
    unfold endOfLastNonEmpty
    split at hf
    · rename_i hr; rw [if_pos hr, if_pos hr]
    · rename_i hr; rw [if_neg hr, if_neg hr]; exact ih hf d d'

/-- the default is returned or some non-empty member's end -/
theorem endOfLastNonEmpty_mem (l : List Section) (d : Nat) :
    endOfLastNonEmpty d l = d ∨ ∃ b ∈ l, b.realSize ≠ 0 ∧ endOfLastNonEmpty d l = b.offset + b.realSize := by
  induction l generalizing d with
  | nil => left; rfl
  | cons s rest ih =>
    unfold endOfLastNonEmpty
    split
    · rename_i hr
      rcases ih (s.offset + s.realSize) with h | ⟨b, hb, hne, he⟩
      · right; exact ⟨s, by simp, hr, h⟩
      · right; exact ⟨b, by simp [hb], hne, he⟩
    · rcases ih d with h | ⟨b, hb, hne, he⟩
      · left; exact h
      · right; exact ⟨b, by simp [hb], hne, he⟩

theorem assign_length (off : Nat) (secs : List Section) : (assign off secs).length = secs.length := by
  induction secs generalizing off with
  | nil => rfl
  | cons s rest ih =>
    unfold assign
    split
    · simp only []
      split <;> simp [ih]
    · simp [ih]

theorem lastEnd_cons {s : Section} {l : List Section} (h : l ≠ []) : lastEnd (s :: l) = lastEnd l := by
  unfold lastEnd
  cases l with
  | nil => exact absurd rfl h
  | cons a r => simp [List.getLast?_cons_cons]

/-- after `flatten`, the ideal size is the end of the last non-empty section, and also the end of the very last section -/
theorem assign_ends (off : Nat) (secs : List Section) (hpre : Pre off secs) (hfit : idealEnd off secs < U64) :
    endOfLastNonEmpty off (assign off secs) = idealEnd off secs ∧
    (secs ≠ [] → lastEnd (assign off secs) = idealEnd off secs) := by
  induction secs generalizing off with
  | nil => simp [assign, endOfLastNonEmpty, idealEnd]
  | cons s rest ih =>
    have hoff : off < U64 := by have := idealEnd_ge off (s :: rest); omega
    unfold assign
    by_cases hr : s.realSize ≠ 0
    · simp only [if_pos hr]
      have hend : idealEnd off (s :: rest) = idealEnd (roundUp off s.align + s.realSize) rest := by simp [idealEnd, hr]
      rw [hend] at hfit ⊢
      have hx := idealEnd_ge (roundUp off s.align + s.realSize) rest
      have hge := roundUp_ge off s.align
      have he := alignUp_eq_of_fits off s.align hpre.1 hoff (by omega)
      rw [he, Nat.mod_eq_of_lt (by omega)]
      obtain ⟨ihE, ihL⟩ := ih (roundUp off s.align + s.realSize) (Pre_tail hpre _) hfit
      obtain ⟨_, gB, _, gD⟩ := assign_good (roundUp off s.align + s.realSize) rest (Pre_tail hpre _) hfit
      have hbnd := layoutChk_bounds gB
      have hlen := assign_length (roundUp off s.align + s.realSize) rest
      have hlast : ∀ (s' : Section), s'.offset + s'.realSize = roundUp off s.align + s.realSize ∨ rest ≠ [] →
          (rest = [] → s'.offset + s'.realSize = roundUp off s.align + s.realSize) →
          lastEnd (s' :: assign (roundUp off s.align + s.realSize) rest) = idealEnd (roundUp off s.align + s.realSize) rest := by
        intro s' _ hnil
        cases hrest : rest with
        | nil =>
          subst hrest
          simp only [assign, idealEnd, lastEnd, List.getLast?_singleton]
          exact hnil rfl
        | cons a r =>
          have hne : assign (roundUp off s.align + s.realSize) rest ≠ [] := by
            intro hc; rw [hc] at hlen; rw [hrest] at hlen; simp at hlen
          rw [← hrest, lastEnd_cons hne]
          exact ihL (by rw [hrest]; simp)
      cases hf : firstNonEmpty (assign (roundUp off s.align + s.realSize) rest) with
      | none =>
        simp only []
        have hnone := firstNonEmpty_none hf
        have hreal : ({ s with offset := roundUp off s.align } : Section).realSize = s.realSize := rfl
        constructor
        · unfold endOfLastNonEmpty
          rw [hreal, if_pos hr]
          show endOfLastNonEmpty (roundUp off s.align + s.realSize) _ = _
          rw [endOfLastNonEmpty_all_empty hnone, ← ihE, endOfLastNonEmpty_all_empty hnone]
        · intro _
          exact hlast _ (Or.inl rfl) (fun _ => rfl)
      | some t =>
        simp only []
        obtain ⟨htm, htne⟩ := firstNonEmpty_mem hf
        have htlo := (hbnd t htm).2 htne
        have htD := gD t htm
        have hvs : (t.offset + U64 - roundUp off s.align) % U64 = t.offset - roundUp off s.align := by
          have : t.offset + U64 - roundUp off s.align = (t.offset - roundUp off s.align) + U64 := by omega
          rw [this, Nat.add_mod_right, Nat.mod_eq_of_lt (by omega)]
        rw [hvs]
        have hreal : ({ s with offset := roundUp off s.align, vsize := t.offset - roundUp off s.align } : Section).realSize
            = t.offset - roundUp off s.align := by
          show max (t.offset - roundUp off s.align) s.bufSize = _
          have : s.bufSize ≤ s.realSize := by unfold Section.realSize; omega
          omega
        have hrne : rest ≠ [] := by
          intro hc; subst hc; simp [assign] at htm
        constructor
        · unfold endOfLastNonEmpty
          rw [hreal, if_pos (by omega)]
          rw [endOfLastNonEmpty_default hf _ (roundUp off s.align + s.realSize)]
          exact ihE
        · intro _
          exact hlast _ (Or.inr hrne) (fun h => absurd h hrne)
    · simp only [if_neg hr]
      have hr0 : s.realSize = 0 := by omega
      have hend : idealEnd off (s :: rest) = idealEnd off rest := by simp [idealEnd, hr0]
      rw [hend] at hfit ⊢
      obtain ⟨ihE, ihL⟩ := ih off (Pre_tail hpre _) hfit
      have hreal : ({ s with offset := off } : Section).realSize = 0 := hr0
      have hlen := assign_length off rest
      constructor
      · unfold endOfLastNonEmpty
        rw [hreal, if_neg (by omega)]
        exact ihE
      · intro _
        cases hrest : rest with
        | nil =>
          simp only [assign, idealEnd, lastEnd, List.getLast?_singleton]
          show off + s.realSize = off
          omega
        | cons a r =>
          have hne : assign off rest ≠ [] := by
            intro hc; rw [hc] at hlen; rw [hrest] at hlen; simp at hlen
          rw [← hrest, lastEnd_cons hne]
          exact ihL (by rw [hrest]; simp)

end AsmjitVerif.Sections

namespace AsmjitVerif.Sections

theorem foldl_max_le {α : Type} (f : α → Nat) (l : List α) (e M : Nat) (he : e ≤ M) (h : ∀ s ∈ l, f s ≤ M) :
    l.foldl (fun m s => max m (f s)) e ≤ M := by
  induction l generalizing e with
  | nil => simpa using he
  | cons a rest ih =>
    simp only [List.foldl_cons]
    apply ih
    · have := h a (by simp); omega
    · intro s hs; exact h s (by simp [hs])

/-- after `flatten` the largest section end is the ideal size -/
theorem assign_imageEnd (secs : List Section) (hpre : Pre 0 secs) (hfit : idealEnd 0 secs < U64) :
    imageEnd (assign 0 secs) = idealEnd 0 secs := by
  obtain ⟨_, _, _, gD⟩ := assign_good 0 secs hpre hfit
  have hE := (assign_ends 0 secs hpre hfit).1
  unfold imageEnd
  apply Nat.le_antisymm
  · exact foldl_max_le (fun (s : Section) => s.offset + s.realSize) _ 0 _ (Nat.zero_le _) gD
  · have hge := foldl_max_ge (fun s => s.offset + s.realSize) (assign 0 secs) 0
    rcases endOfLastNonEmpty_mem (assign 0 secs) 0 with h | ⟨b, hb, _, he⟩
    · rw [← hE, h]; exact Nat.zero_le _
    · rw [← hE, he]; exact hge.2 b hb

end AsmjitVerif.Sections
