/-
C01 helper lemmas, spec side: shape lemmas of the monitor for EVEX REGISTER forms carrying AVX-512 decorations - {k} (aaa), {z}, {er} with a
rounding mode, {sae}. The parse must spell the decorations: aaa = k, z, b = er ∨ sae, L'L = rounding mode under {er}.
-/
import AsmjitVerif.Lemmas.X86Parse
set_option linter.constructorNameAsVariable false
set_option linter.unusedSimpArgs false
set_option linter.unusedVariables false
namespace AsmjitVerif.Lemmas.X86Parse
open Spec.X86

/-- what the parser returned for a decorated EVEX register form -/
structure EvexParsedD (rule : Rule) (p : Parsed) (mb : BitVec 8) (k : Nat) (z er sae : Bool) (rc : Nat) : Prop where
  hvk : p.vexKind = 4
  hpfx : p.prefixes = []
  hrex : p.rex = none
  hmodrm : p.modrm = some mb
  hmod : bits mb 6 2 = 3
  hop : p.opcode.toNat = rule.opcode
  hmap : p.map = rule.map
  hpp : p.pp = ppWant rule
  hw : wWant rule = 2 ∨ p.W = (wWant rule == 1)
  hl : rule.l = 3 ∨ p.b = true ∨ p.L = rule.l
  haaa : p.aaa = k
  hz : p.z = z
  hb : p.b = (er || sae)
  hrc : er = true → p.L = rc
  hmap8 : p.map < 8

/-- shape [reg, vvvv, rm] with decorations -/
theorem vex_rvm_formOk_dec (ctx : Spec.X86.Ctx) (rule : Rule) (p : Parsed) (mb : BitVec 8) (bytes : List (BitVec 8))
    (k0 k1 k2 : RegKind) (f0 f1 f2 : FormOp) (i0 i1 i2 : Nat) (k : Nat) (z er sae : Bool) (rc : Nat)
    (hmode : ((if ctx.mode64 then rule.modes &&& 2 else rule.modes &&& 1) != 0) = true) (hk0 : PlainKind k0) (hk1 : PlainKind k1) (hk2 : PlainKind k2)
    (R : VexRule rule 0) (D : DecorAllowed rule k z er sae) (hf0 : f0.role = .reg) (hf1 : f1.role = .vvvv) (hf2 : f2.role = .rm)
    (hal : alignOps rule.oszEff rule.ops [.reg k0 i0, .reg k1 i1, .reg k2 i2] =
           some [(f0, some (.reg k0 i0)), (f1, some (.reg k1 i1)), (f2, some (.reg k2 i2))])
    (hparse : parse ctx.mode64 rule bytes = .ok p) (P : EvexParsedD rule p mb k z er sae rc)
    (hreg : regNum p.R' p.R (bits mb 3 3) = i0)
    (hvv : regNum p.V' false p.vvvv = i1)
    (hrm : regNum (p.vexKind == 4 && p.X) p.B (bits mb 0 3) = i2) :
    formOk ctx rule [.reg k0 i0, .reg k1 i1, .reg k2 i2] (decorOf k z er sae rc) bytes = true := by
  obtain ⟨hvk, hpfx, hrex, hmodrm, hmod, hop, hmap, hpp, hw, hl, haaa, hz, hb, hrc, hmap8⟩ := P
  obtain ⟨hmodes, hs, hpp8, hri, hmk, hmr, hmrm, himm, hrel, hmoff, ha67, hrev, hosz⟩ := R
  obtain ⟨dk, dz, der, dsae⟩ := D
  have hleg : isLegacySpace rule = false := by rcases hs with h | h | h <;> simp [isLegacySpace, h]
  have hs4 : (rule.space == 4) = false := by rcases hs with h | h | h <;> simp [h]
  simp only [formOk, conds, hal, hparse, hmode]
  simp only [allOk_cons, allOk_append, decorConds, headConds, prefixConds, modrmConds, operandConds, opConds, tailConds, hf0, hf1, hf2,
    regConds_plain _ _ _ _ _ hk0, regConds_plain _ _ _ _ _ hk1, regConds_plain _ _ _ _ _ hk2, allOk_nil, memOperandOf, implMemOf, usesVvvv,
    hasBcst, hleg, hri, hmodrm, hpfx, hrex, decorOf, memDestOf]
  rw [hmap] at hmap8
  simp [hop, hmap, hpp, hreg, hvv, hrm, hmod, hmr, hmrm, hs4, hvk, hpp8, ha67, haaa, hz, hb, hmap8, allOk]
  and_intros
  all_goals first
    | exact hw
    | (by_cases h : k = 0
       · exact Or.inl h
       · exact Or.inr (dk h))
    | (cases z
       · exact Or.inl rfl
       · exact Or.inr (dz rfl))
    | (cases er
       · exact Or.inl rfl
       · exact Or.inr (der rfl))
    | (cases er
       · exact Or.inl rfl
       · exact Or.inr (hrc rfl))
    | (cases sae
       · exact Or.inl (Or.inl rfl)
       · rcases dsae rfl with h | h
         · exact Or.inl (Or.inr h)
         · exact Or.inr h)
    | (simpa [hvk] using hrm)
    | (refine Or.inl ?_; rcases hs with h | h | h <;> omega)
    | (rcases hmk with h | h <;> omega)
    | (rcases hl with h | h | h
       · exact Or.inl (Or.inl h)
       · rw [hb] at h; exact Or.inl (Or.inr (by simpa using h))
       · exact Or.inr h)
    | exact Or.inl (Or.inr (Or.inl hf1))
    | simp [leBytes, allOk]

/-- shape [reg, rm] with decorations -/
theorem vex_rm_formOk_dec (ctx : Spec.X86.Ctx) (rule : Rule) (p : Parsed) (mb : BitVec 8) (bytes : List (BitVec 8))
    (k0 k2 : RegKind) (f0 f2 : FormOp) (i0 i2 : Nat) (k : Nat) (z er sae : Bool) (rc : Nat)
    (hmode : ((if ctx.mode64 then rule.modes &&& 2 else rule.modes &&& 1) != 0) = true) (hk0 : PlainKind k0) (hk2 : PlainKind k2)
    (R : VexRule rule 0) (D : DecorAllowed rule k z er sae) (hf0 : f0.role = .reg) (hf2 : f2.role = .rm)
    (hal : alignOps rule.oszEff rule.ops [.reg k0 i0, .reg k2 i2] =
           some [(f0, some (.reg k0 i0)), (f2, some (.reg k2 i2))])
    (hparse : parse ctx.mode64 rule bytes = .ok p) (P : EvexParsedD rule p mb k z er sae rc)
    (hreg : regNum p.R' p.R (bits mb 3 3) = i0)
    (hvv : regNum p.V' false p.vvvv = 0)
    (hrm : regNum (p.vexKind == 4 && p.X) p.B (bits mb 0 3) = i2) :
    formOk ctx rule [.reg k0 i0, .reg k2 i2] (decorOf k z er sae rc) bytes = true := by
  obtain ⟨hvk, hpfx, hrex, hmodrm, hmod, hop, hmap, hpp, hw, hl, haaa, hz, hb, hrc, hmap8⟩ := P
  obtain ⟨hmodes, hs, hpp8, hri, hmk, hmr, hmrm, himm, hrel, hmoff, ha67, hrev, hosz⟩ := R
  obtain ⟨dk, dz, der, dsae⟩ := D
  have hleg : isLegacySpace rule = false := by rcases hs with h | h | h <;> simp [isLegacySpace, h]
  have hs4 : (rule.space == 4) = false := by rcases hs with h | h | h <;> simp [h]
  simp only [formOk, conds, hal, hparse, hmode]
  simp only [allOk_cons, allOk_append, decorConds, headConds, prefixConds, modrmConds, operandConds, opConds, tailConds, hf0, hf2,
    regConds_plain _ _ _ _ _ hk0, regConds_plain _ _ _ _ _ hk2, allOk_nil, memOperandOf, implMemOf, usesVvvv,
    hasBcst, hleg, hri, hmodrm, hpfx, hrex, decorOf, memDestOf]
  rw [hmap] at hmap8
  obtain ⟨hv0, hV⟩ := regNum_zero _ _ hvv
  simp [hop, hmap, hpp, hreg, hv0, hV, hrm, hmod, hmr, hmrm, hs4, hvk, hpp8, ha67, haaa, hz, hb, hmap8, allOk]
  and_intros
  all_goals first
    | exact hw
    | (by_cases h : k = 0
       · exact Or.inl h
       · exact Or.inr (dk h))
    | (cases z
       · exact Or.inl rfl
       · exact Or.inr (dz rfl))
    | (cases er
       · exact Or.inl rfl
       · exact Or.inr (der rfl))
    | (cases er
       · exact Or.inl rfl
       · exact Or.inr (hrc rfl))
    | (cases sae
       · exact Or.inl (Or.inl rfl)
       · rcases dsae rfl with h | h
         · exact Or.inl (Or.inr h)
         · exact Or.inr h)
    | (simpa [hvk] using hrm)
    | (refine Or.inl ?_; rcases hs with h | h | h <;> omega)
    | (rcases hmk with h | h <;> omega)
    | (rcases hl with h | h | h
       · exact Or.inl (Or.inl h)
       · rw [hb] at h; exact Or.inl (Or.inr (by simpa using h))
       · exact Or.inr h)
    | simp [leBytes, allOk]

/-- shape [reg, vvvv, rm, imm8] with decorations -/
theorem vex_rvmi_formOk_dec (ctx : Spec.X86.Ctx) (rule : Rule) (p : Parsed) (mb : BitVec 8) (bytes : List (BitVec 8))
    (k0 k1 k2 : RegKind) (f0 f1 f2 : FormOp) (i0 i1 i2 : Nat) (k : Nat) (z er sae : Bool) (rc : Nat)
    (hmode : ((if ctx.mode64 then rule.modes &&& 2 else rule.modes &&& 1) != 0) = true) (hk0 : PlainKind k0) (hk1 : PlainKind k1) (hk2 : PlainKind k2)
    (R : VexRule rule 1) (f3 : FormOp) (v : BitVec 64) (hf3 : f3.role = .imm) (hib : immBitsOf f3 = 8)
    (himmp : p.imm = [BitVec.ofNat 8 v.toNat]) (D : DecorAllowed rule k z er sae) (hf0 : f0.role = .reg) (hf1 : f1.role = .vvvv) (hf2 : f2.role = .rm)
    (hal : alignOps rule.oszEff rule.ops [.reg k0 i0, .reg k1 i1, .reg k2 i2, .imm v] =
           some [(f0, some (.reg k0 i0)), (f1, some (.reg k1 i1)), (f2, some (.reg k2 i2)), (f3, some (.imm v))])
    (hparse : parse ctx.mode64 rule bytes = .ok p) (P : EvexParsedD rule p mb k z er sae rc)
    (hreg : regNum p.R' p.R (bits mb 3 3) = i0)
    (hvv : regNum p.V' false p.vvvv = i1)
    (hrm : regNum (p.vexKind == 4 && p.X) p.B (bits mb 0 3) = i2) :
    formOk ctx rule [.reg k0 i0, .reg k1 i1, .reg k2 i2, .imm v] (decorOf k z er sae rc) bytes = true := by
  obtain ⟨hvk, hpfx, hrex, hmodrm, hmod, hop, hmap, hpp, hw, hl, haaa, hz, hb, hrc, hmap8⟩ := P
  obtain ⟨hmodes, hs, hpp8, hri, hmk, hmr, hmrm, himm, hrel, hmoff, ha67, hrev, hosz⟩ := R
  obtain ⟨dk, dz, der, dsae⟩ := D
  have hleg : isLegacySpace rule = false := by rcases hs with h | h | h <;> simp [isLegacySpace, h]
  have hs4 : (rule.space == 4) = false := by rcases hs with h | h | h <;> simp [h]
  simp only [formOk, conds, hal, hparse, hmode]
  simp only [allOk_cons, allOk_append, decorConds, headConds, prefixConds, modrmConds, operandConds, opConds, tailConds, hf3, hib, himmp, immBytesOf, oszEff_zero rule hosz hs, hrev, hf0, hf1, hf2,
    regConds_plain _ _ _ _ _ hk0, regConds_plain _ _ _ _ _ hk1, regConds_plain _ _ _ _ _ hk2, allOk_nil, memOperandOf, implMemOf, usesVvvv,
    hasBcst, hleg, hri, hmodrm, hpfx, hrex, decorOf, memDestOf]
  rw [hmap] at hmap8
  simp [hop, hmap, hpp, hreg, hvv, hrm, hmod, hmr, hmrm, hs4, hvk, hpp8, ha67, haaa, hz, hb, hmap8, allOk]
  and_intros
  all_goals first
    | exact hw
    | (by_cases h : k = 0
       · exact Or.inl h
       · exact Or.inr (dk h))
    | (cases z
       · exact Or.inl rfl
       · exact Or.inr (dz rfl))
    | (cases er
       · exact Or.inl rfl
       · exact Or.inr (der rfl))
    | (cases er
       · exact Or.inl rfl
       · exact Or.inr (hrc rfl))
    | (cases sae
       · exact Or.inl (Or.inl rfl)
       · rcases dsae rfl with h | h
         · exact Or.inl (Or.inr h)
         · exact Or.inr h)
    | (simpa [hvk] using hrm)
    | (refine Or.inl ?_; rcases hs with h | h | h <;> omega)
    | (rcases hmk with h | h <;> omega)
    | (rcases hl with h | h | h
       · exact Or.inl (Or.inl h)
       · rw [hb] at h; exact Or.inl (Or.inr (by simpa using h))
       · exact Or.inr h)
    | exact Or.inl (Or.inr (Or.inl hf1))
    | simp [leBytes, allOk]

/-- shape [reg, rm, imm8] with decorations -/
theorem vex_rmi_formOk_dec (ctx : Spec.X86.Ctx) (rule : Rule) (p : Parsed) (mb : BitVec 8) (bytes : List (BitVec 8))
    (k0 k2 : RegKind) (f0 f2 : FormOp) (i0 i2 : Nat) (k : Nat) (z er sae : Bool) (rc : Nat)
    (hmode : ((if ctx.mode64 then rule.modes &&& 2 else rule.modes &&& 1) != 0) = true) (hk0 : PlainKind k0) (hk2 : PlainKind k2)
    (R : VexRule rule 1) (f3 : FormOp) (v : BitVec 64) (hf3 : f3.role = .imm) (hib : immBitsOf f3 = 8)
    (himmp : p.imm = [BitVec.ofNat 8 v.toNat]) (D : DecorAllowed rule k z er sae) (hf0 : f0.role = .reg) (hf2 : f2.role = .rm)
    (hal : alignOps rule.oszEff rule.ops [.reg k0 i0, .reg k2 i2, .imm v] =
           some [(f0, some (.reg k0 i0)), (f2, some (.reg k2 i2)), (f3, some (.imm v))])
    (hparse : parse ctx.mode64 rule bytes = .ok p) (P : EvexParsedD rule p mb k z er sae rc)
    (hreg : regNum p.R' p.R (bits mb 3 3) = i0)
    (hvv : regNum p.V' false p.vvvv = 0)
    (hrm : regNum (p.vexKind == 4 && p.X) p.B (bits mb 0 3) = i2) :
    formOk ctx rule [.reg k0 i0, .reg k2 i2, .imm v] (decorOf k z er sae rc) bytes = true := by
  obtain ⟨hvk, hpfx, hrex, hmodrm, hmod, hop, hmap, hpp, hw, hl, haaa, hz, hb, hrc, hmap8⟩ := P
  obtain ⟨hmodes, hs, hpp8, hri, hmk, hmr, hmrm, himm, hrel, hmoff, ha67, hrev, hosz⟩ := R
  obtain ⟨dk, dz, der, dsae⟩ := D
  have hleg : isLegacySpace rule = false := by rcases hs with h | h | h <;> simp [isLegacySpace, h]
  have hs4 : (rule.space == 4) = false := by rcases hs with h | h | h <;> simp [h]
  simp only [formOk, conds, hal, hparse, hmode]
  simp only [allOk_cons, allOk_append, decorConds, headConds, prefixConds, modrmConds, operandConds, opConds, tailConds, hf3, hib, himmp, immBytesOf, oszEff_zero rule hosz hs, hrev, hf0, hf2,
    regConds_plain _ _ _ _ _ hk0, regConds_plain _ _ _ _ _ hk2, allOk_nil, memOperandOf, implMemOf, usesVvvv,
    hasBcst, hleg, hri, hmodrm, hpfx, hrex, decorOf, memDestOf]
  rw [hmap] at hmap8
  obtain ⟨hv0, hV⟩ := regNum_zero _ _ hvv
  simp [hop, hmap, hpp, hreg, hv0, hV, hrm, hmod, hmr, hmrm, hs4, hvk, hpp8, ha67, haaa, hz, hb, hmap8, allOk]
  and_intros
  all_goals first
    | exact hw
    | (by_cases h : k = 0
       · exact Or.inl h
       · exact Or.inr (dk h))
    | (cases z
       · exact Or.inl rfl
       · exact Or.inr (dz rfl))
    | (cases er
       · exact Or.inl rfl
       · exact Or.inr (der rfl))
    | (cases er
       · exact Or.inl rfl
       · exact Or.inr (hrc rfl))
    | (cases sae
       · exact Or.inl (Or.inl rfl)
       · rcases dsae rfl with h | h
         · exact Or.inl (Or.inr h)
         · exact Or.inr h)
    | (simpa [hvk] using hrm)
    | (refine Or.inl ?_; rcases hs with h | h | h <;> omega)
    | (rcases hmk with h | h <;> omega)
    | (rcases hl with h | h | h
       · exact Or.inl (Or.inl h)
       · rw [hb] at h; exact Or.inl (Or.inr (by simpa using h))
       · exact Or.inr h)
    | simp [leBytes, allOk]

end AsmjitVerif.Lemmas.X86Parse
