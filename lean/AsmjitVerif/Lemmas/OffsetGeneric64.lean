/-
C17, parametric codec lemmas, 64-bit path (`encode_offset64`): symbolic (bits, shift, discard), every displacement.
See Lemmas/OffsetGeneric.lean for the method.
-/
import AsmjitVerif.Lemmas.OffsetGeneric
import Std.Tactic.BVDecide
namespace AsmjitVerif.Offset

theorem s64_core_exact (b s d off : BitVec 64) (m old : BitVec 64)
    (hb1 : 1#64 ≤ b) (hb : b ≤ 64#64) (hs : s ≤ 64#64) (hbs : b + s ≤ 64#64) (hd : d ≤ 32#64)
    (h : encS64 b s d off = some m) (hold : old &&& mask64 b s = 0#64) :
    decS64 b s d (old ||| m) = off ∧ (old ||| m) &&& ~~~ mask64 b s = old := by
  simp only [encS64, decS64, mask64, sextb] at *
  split at h
  · simp at h
  split at h
  · simp at h
  simp at h
  subst h
  bv_decide (config := { timeout := 300 })

theorem s64_core_refused (b s d off : BitVec 64) (w : BitVec 64)
    (hb1 : 1#64 ≤ b) (hb : b ≤ 64#64) (hs : s ≤ 64#64) (hbs : b + s ≤ 64#64) (hd : d ≤ 32#64)
    (h : encS64 b s d off = none) : decS64 b s d w ≠ off := by
  simp only [encS64, decS64, sextb] at *
  split at h
  · bv_decide (config := { timeout := 300 })
  split at h
  · bv_decide (config := { timeout := 300 })
  simp at h

theorem u64_core_exact (b s d off : BitVec 64) (m old : BitVec 64)
    (hb1 : 1#64 ≤ b) (hb : b ≤ 64#64) (hs : s ≤ 64#64) (hbs : b + s ≤ 64#64) (hd : d ≤ 32#64)
    (h : encU64 b s d off = some m) (hold : old &&& mask64 b s = 0#64) :
    decU64 b s d (old ||| m) = off ∧ (old ||| m) &&& ~~~ mask64 b s = old := by
  simp only [encU64, decU64, mask64] at *
  split at h
  · simp at h
  split at h
  · simp at h
  simp at h
  subst h
  bv_decide (config := { timeout := 300 })

theorem u64_core_refused (b s d off : BitVec 64) (w : BitVec 64)
    (hb1 : 1#64 ≤ b) (hb : b ≤ 64#64) (hs : s ≤ 64#64) (hbs : b + s ≤ 64#64) (hd : d ≤ 32#64)
    (h : encU64 b s d off = none) : decU64 b s d w ≠ off := by
  simp only [encU64, decU64] at *
  split at h
  · bv_decide (config := { timeout := 300 })
  split at h
  · bv_decide (config := { timeout := 300 })
  simp at h

/-! ### `Nat` range hypotheses as bit-vector comparisons -/
theorem bv_le (a c : Nat) (h : a ≤ c) (hc : c < 2 ^ 64) : BitVec.ofNat 64 a ≤ BitVec.ofNat 64 c := by
  rw [BitVec.le_def]; simp only [BitVec.toNat_ofNat]; omega
theorem bv_add_le (a b c : Nat) (h : a + b ≤ c) (hc : c < 2 ^ 64) :
    BitVec.ofNat 64 a + BitVec.ofNat 64 b ≤ BitVec.ofNat 64 c := by
  rw [BitVec.le_def]; simp only [BitVec.toNat_ofNat, BitVec.toNat_add]; omega

end AsmjitVerif.Offset
