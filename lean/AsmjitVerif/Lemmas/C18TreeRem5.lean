/-
C18 — ArenaTree::remove, part 5: simulation of the single-rotation-at-parent branch.
-/
import AsmjitVerif.Lemmas.C18TreeRem4
namespace AsmjitVerif.Tree.Rem
open AsmjitVerif.Tree AsmjitVerif.Tree.Spec

theorem _root_.AsmjitVerif.Tree.Spec.T.rootIdx_mem (t : T) (hn : t.isNil = false) : t.rootIdx ∈ t.idxs := by
  rw [T.idxs_eq t hn]; simp

/-- `dir2 = (g->right == p)` is the direction of the hole of the outer context -/
theorem dir2_eq {h : Tree} {up : List Frame} {p : Nat} (hup : RepC h up) (hhole : holeptr h up = p) (hp2 : 2 ≤ p)
    (hpn : p ∉ ctxIdxs up) : (child h (pIdx up) true == p) = dirOf up := by
  cases up with
  | nil => simpa [pIdx, dirOf, holeptr, child_eq] using hhole
  | cons G up' =>
    simp only [pIdx, dirOf, holeptr] at hhole ⊢
    cases hd : G.d
    · rw [hd] at hhole
      have e := hup.2.2.2.2.1
      rw [hd] at e
      simp only [Bool.not_false] at e
      rw [child_eq]
      apply beq_eq_false_iff_ne.mpr
      intro e1
      rw [e1] at e
      obtain ⟨n1, n2, _⟩ := e.acc (by omega)
      exact hpn (by simp only [ctxIdxs]; have := T.rootIdx_mem _ n1; rw [n2] at this; simp [this])
    · rw [hd] at hhole; rw [child_eq, hhole]; simp

theorem sgl_distinct (A B C Y1 Y2 D : List Nat) (q p s y : Nat)
    (hn : (A ++ q :: (B ++ p :: (C ++ s :: ((Y1 ++ y :: Y2) ++ D)))).Nodup) :
    (q ≠ p ∧ q ≠ s ∧ q ≠ y ∧ p ≠ s ∧ p ≠ y ∧ s ≠ y) ∧
    (∀ i ∈ A, i ≠ q ∧ i ≠ p ∧ i ≠ s ∧ i ≠ y) ∧ (∀ i ∈ B, i ≠ q ∧ i ≠ p ∧ i ≠ s ∧ i ≠ y) ∧
    (∀ i ∈ C, i ≠ q ∧ i ≠ p ∧ i ≠ s ∧ i ≠ y) ∧ (∀ i ∈ Y1, i ≠ q ∧ i ≠ p ∧ i ≠ s ∧ i ≠ y) ∧
    (∀ i ∈ Y2, i ≠ q ∧ i ≠ p ∧ i ≠ s ∧ i ≠ y) ∧ (∀ i ∈ D, i ≠ q ∧ i ≠ p ∧ i ≠ s ∧ i ≠ y) ∧
    (Y1 ++ y :: Y2).Nodup ∧ D.Nodup ∧
    (∀ i ∈ A, i ∉ D) ∧ (∀ i ∈ B, i ∉ D) ∧ (∀ i ∈ C, i ∉ D) ∧ (∀ i ∈ Y1, i ∉ D) ∧ (∀ i ∈ Y2, i ∉ D) := by
  simp only [List.nodup_append, List.nodup_cons, List.mem_append, List.mem_cons, not_or] at hn
  refine ⟨⟨?_, ?_, ?_, ?_, ?_, ?_⟩, ?_, ?_, ?_, ?_, ?_, ?_, ?_, ?_, ?_, ?_, ?_, ?_, ?_⟩
  all_goals grind

/-- single rotation at the parent (far nephew red) -/
theorem inv_sgl {kn node : Nat} {st : RmState} {P : Frame} {up : List Frame} {S : T}
    (inv : Inv kn node st (P :: up) S)
    (hS : S.isNil = false) (d : Bool) (hdd : decide (S.key < kn) = d)
    (c1 : S.isRed = false) (c2 : (S.child d).isRed = false) (c3 : (S.child (!d)).isRed = false)
    (hsn : P.sib.isNil = false) (c5 : (P.sib.child P.d).isRed = false) (c4 : (P.sib.child (!P.d)).isRed = true)
    (hn : ((S.child d).idxs ++
      ctxIdxs (⟨S.rootIdx, S.key, true, d, S.child (!d)⟩ :: ⟨P.i, P.k, false, P.d, P.sib.child P.d⟩ ::
        ⟨P.sib.rootIdx, P.sib.key, true, P.d, (P.sib.child (!P.d)).setRed false⟩ :: up)).Nodup) :
    Inv kn node (stepState node st)
      (⟨S.rootIdx, S.key, true, d, S.child (!d)⟩ :: ⟨P.i, P.k, false, P.d, P.sib.child P.d⟩ ::
        ⟨P.sib.rootIdx, P.sib.key, true, P.d, (P.sib.child (!P.d)).setRed false⟩ :: up)
      (S.child d) := by
  obtain ⟨hq0, hq, hd, hri, hkey, hred, hq2, hqs, hch, hrq, hrc⟩ := inv.qfacts hS
  obtain ⟨sq, sdir, sp, hp2, hps, hpk, hsr, hhole, hup, hs0, hsc, sri, skey, hs2, hss, sch, srd⟩ := inv.sfacts hsn
  obtain ⟨hg0, hgs, hg1, hgm, hu2⟩ := inv.gfacts
  rw [hdd] at hd
  have i1 := inv.size1; have i2 := inv.headl; have i3 := inv.hkn
  have hqp : holeptr st.t (P :: up) = getC (nd st.t P.i) P.d := rfl
  generalize hh : st.t = h at *
  generalize hqq : holeptr h (P :: up) = q at *
  generalize hsv : getC (nd h P.i) (!P.d) = s at *
  -- the red far nephew
  have hyn := T.isRed_notNil c4
  have hy0 : getC (nd h s) (!P.d) ≠ 0 := by
    intro e; have := (sch (!P.d)).isNil_iff.mpr e; rw [hyn] at this; cases this
  obtain ⟨_, yri, ykey, yred, hy2, hys, ych⟩ := (sch (!P.d)).acc hy0
  generalize hyv : getC (nd h s) (!P.d) = y at *
  rw [hri, sri] at hn ⊢
  simp only [ctxIdxs, T.setRed_idxs] at hn
  rw [T.idxs_eq _ hyn, yri] at hn
  obtain ⟨⟨hqp', hqs', hqy, hps', hpy, hsy⟩, dA, dB, dC, dY1, dY2, dD, nY, nD, eA, eB, eC, eY1, eY2⟩ := sgl_distinct _ _ _ _ _ _ _ _ _ _ hn
  have hgn : pIdx up ≠ q ∧ pIdx up ≠ P.i ∧ pIdx up ≠ s ∧ pIdx up ≠ y := by
    rcases hgm with e1 | e1
    · rw [e1]; omega
    · exact dD _ e1
  have hd2 : (child h (pIdx up) true == P.i) = dirOf up :=
    dir2_eq hup hhole hp2 (fun hm => (dD _ hm).2.1 rfl)
  obtain ⟨t1, t2⟩ := step_sgl node st q d s (hh ▸ hq) (hh ▸ hd) (by rw [hh, hrq, c1]) (by rw [hh, hrc, c2])
    (by rw [hh, hrc, c3]) (hh ▸ hsc) hs0 (by rw [hh, sdir, srd, c5]) (by rw [hh, sdir, srd, c4]) (dirOf up)
    (by rw [hh, sp, sq]; exact hd2)
  rw [hh, sq, sdir, sp] at t1
  obtain ⟨r1, r2, r3, r4⟩ := singleRotate_nd h P.i P.d s hsv (by omega) hps hs0 hss (Ne.symm hps')
  rw [r1] at t1
  generalize (singleRotate h P.i P.d).1 = h1 at *
  have n2 := setChild_nd h1 (pIdx up) (dirOf up) s hg0 (r2 ▸ hgs)
  have s2 : (setChild h1 (pIdx up) (dirOf up) s).nodes.size = h.nodes.size := by rw [setChild_size, r2]
  generalize setChild h1 (pIdx up) (dirOf up) s = h2 at *
  have n2s : nd h2 s = setR (setC (nd h s) P.d P.i) false := by
    rw [n2 s, if_neg (Ne.symm hgn.2.2.1), r4 s, if_pos rfl]
  obtain ⟨s5, n5⟩ := recolor_tail h2 q s P.d P.i y (by rw [n2s]; simp) (by rw [n2s]; simp; exact hyv)
    hq0 (s2 ▸ hqs) hs0 (s2 ▸ hss) (by omega) (s2 ▸ hps) hy0 (s2 ▸ hys) hqs' hqp' hqy (Ne.symm hps') hsy hpy
  rw [← t1] at s5 n5
  have es : (stepState node st).t.nodes.size = h.nodes.size := s5.trans s2
  generalize hh' : (stepState node st).t = h' at t1 s5 n5 es
  have fr : ∀ i, (i ≠ q ∧ i ≠ P.i ∧ i ≠ s ∧ i ≠ y) → i ≠ pIdx up → nd h' i = nd h i := by
    intro i ⟨a, b, c, e⟩ f
    rw [n5 i, if_neg a, if_neg c, if_neg b, if_neg e, n2 i, if_neg f, r4 i, if_neg c, if_neg b]
  have fr2 : ∀ i, 2 ≤ i → i ∉ ctxIdxs up → (i ≠ q ∧ i ≠ P.i ∧ i ≠ s ∧ i ≠ y) → nd h' i = nd h i := by
    intro i i2 iD hi
    apply fr i hi
    rcases hgm with e1 | e1
    · omega
    · intro e; exact iD (e ▸ e1)
  have eq' : nd h' q = setR (nd h q) true := by
    rw [n5 q, if_pos rfl, n2 q, if_neg (Ne.symm hgn.1), r4 q, if_neg hqs', if_neg hqp']
  have es' : nd h' s = setR (setR (setC (nd h s) P.d P.i) false) true := by
    rw [n5 s, if_neg (Ne.symm hqs'), if_pos rfl, n2s]
  have ep' : nd h' P.i = setR (setR (setC (nd h P.i) (!P.d) (getC (nd h s) P.d)) true) false := by
    rw [n5 P.i, if_neg (Ne.symm hqp'), if_neg hps', if_pos rfl, n2 P.i, if_neg (Ne.symm hgn.2.1), r4 P.i,
      if_neg hps', if_pos rfl]
  have ey' : nd h' y = setR (nd h y) false := by
    rw [n5 y, if_neg (Ne.symm hqy), if_neg (Ne.symm hsy), if_neg (Ne.symm hpy), if_pos rfl, n2 y,
      if_neg (Ne.symm hgn.2.2.2), r4 y, if_neg (Ne.symm hsy), if_neg (Ne.symm hpy)]
  have eg' : nd h' (pIdx up) = setC (nd h (pIdx up)) (dirOf up) s := by
    rw [n5 _, if_neg hgn.1, if_neg hgn.2.2.1, if_neg hgn.2.1, if_neg hgn.2.2.2, n2 _, if_pos rfl, r4 _,
      if_neg hgn.2.2.1, if_neg hgn.2.1]
  have ekey : ∀ n, (nd h' n).key = (nd h n).key := by
    intro n
    by_cases a : n = q
    · rw [a, eq']; simp
    · by_cases b : n = P.i
      · rw [b, ep']; simp
      · by_cases c : n = s
        · rw [c, es']; simp
        · by_cases e : n = y
          · rw [e, ey']; simp
          · by_cases f : n = pIdx up
            · rw [f, eg']; simp
            · rw [fr n ⟨a, b, c, e⟩ f]
  refine ⟨?_, ?_, ?_, ?_, ?_, ?_, ?_, ?_, ?_⟩ <;> (try simp only [hh'])
  · rw [es]; exact i1
  · by_cases h1p : pIdx up = 1
    · rw [← h1p, eg', hg1 h1p]; simp only [setC, if_true]; rw [h1p]; exact i2
    · rw [fr 1 ⟨by omega, by omega, by omega, by omega⟩ (Ne.symm h1p)]; exact i2
  · show (nd h' node).key = kn
    rw [ekey]; exact i3
  · refine ⟨hq2, es ▸ hqs, ?_, ?_, ?_, ?_, ⟨hp2, es ▸ hps, ?_, ?_, ?_, ?_, ⟨hs2, es ▸ hss, ?_, ?_, ?_, ?_, ?_⟩⟩⟩
    · rw [ekey, hkey]
    · rw [eq']; rfl
    · rw [eq']; simp
      exact (hch (!d)).frame es (fun i hi => fr2 i ((hch (!d)).ge2 i hi).1 (eB i hi) (dB i hi))
    · simp only [holeptr, pIdx, dirOf]; rw [ep']; simp; exact hqp.symm
    · rw [ekey, hpk]
    · rw [ep']; rfl
    · rw [ep']; simp
      exact (sch P.d).frame es (fun i hi => fr2 i ((sch P.d).ge2 i hi).1 (eC i hi) (dC i hi))
    · simp only [holeptr, pIdx, dirOf]; rw [es']; simp
    · rw [ekey, skey]
    · rw [es']; rfl
    · rw [es']; simp; rw [hyv]
      have schy : Rep h y (P.sib.child (!P.d)) := hyv ▸ sch (!P.d)
      refine schy.setRed false es ey' (fun i hi hne => ?_) ?_
      · rw [T.idxs_eq _ hyn, yri] at hi
        have h2 := ((sch (!P.d)).ge2 i (by rw [T.idxs_eq _ hyn, yri]; exact hi)).1
        simp only [List.mem_append, List.mem_cons] at hi
        rcases hi with hi | hi | hi
        · exact fr2 i h2 (eY1 i hi) (dY1 i hi)
        · exact absurd hi hne
        · exact fr2 i h2 (eY2 i hi) (dY2 i hi)
      · rw [T.idxs_eq _ hyn, yri]; exact nY
    · simp only [holeptr]; rw [eg']; simp
    · apply hup.frame_hole es nD
      · intro i hi hm
        rcases hm with rfl | hm
        · exact fr 1 ⟨by omega, by omega, by omega, by omega⟩ hi
        · exact fr i (dD i hm) hi
      · rw [ekey]
      · rw [eg']; simp
      · rw [eg']; simp
  · simp only [holeptr, pIdx, dirOf]; rw [eq']; simp
    exact (hch d).frame es (fun i hi => fr2 i ((hch d).ge2 i hi).1 (eA i hi) (dA i hi))
  · simp only [ctxIdxs, T.setRed_idxs]; rw [T.idxs_eq _ hyn, yri]; exact hn
  · rw [step_q, hh, hq]; rfl
  · rw [step_dir, hh, hq, hd]; rfl
  · rw [t2, sq]; rfl

end AsmjitVerif.Tree.Rem
