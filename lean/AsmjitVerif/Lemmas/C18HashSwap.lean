/-
`ArenaHashBase::_swap` on the two-object model of `Model/Hash.lean` (`Raw`, `swapRaw`): both tables exchange their abstract
bucket arrays and scalars and stay self-contained (neither `_data` points into the other object).
-/
import AsmjitVerif.Model.Hash
namespace AsmjitVerif.Hash

/-- neither object's `_data` points into the other object -/
def SelfContained (a b : Raw) : Prop := a.data ≠ .embB ∧ b.data ≠ .embA

theorem swapRaw_spec (a b : Raw) (h : SelfContained a b) :
    SelfContained (swapRaw a b).1 (swapRaw a b).2 ∧
    bucketsOf (swapRaw a b).1 (swapRaw a b).2 (swapRaw a b).1 = bucketsOf a b b ∧
    bucketsOf (swapRaw a b).1 (swapRaw a b).2 (swapRaw a b).2 = bucketsOf a b a ∧
    (swapRaw a b).1.size = b.size ∧ (swapRaw a b).2.size = a.size ∧
    (swapRaw a b).1.count = b.count ∧ (swapRaw a b).2.count = a.count ∧
    (swapRaw a b).1.grow = b.grow ∧ (swapRaw a b).2.grow = a.grow ∧
    (swapRaw a b).1.rcp = b.rcp ∧ (swapRaw a b).2.rcp = a.rcp ∧
    (swapRaw a b).1.shift = b.shift ∧ (swapRaw a b).2.shift = a.shift ∧
    (swapRaw a b).1.primeIndex = b.primeIndex ∧ (swapRaw a b).2.primeIndex = a.primeIndex := by
  obtain ⟨ha, hb⟩ := h
  cases hda : a.data <;> cases hdb : b.data <;>
    simp_all [swapRaw, bucketsOf, SelfContained]

/-- the `else if` variant leaves `other._data` pointing at `this->_embedded` when BOTH tables are embedded (empty) -/
theorem swapRawElseIf_aliases (a b : Raw) (ha : a.data = .embA) (hb : b.data = .embB) :
    (swapRawElseIf a b).2.data = .embA ∧ ¬ SelfContained (swapRawElseIf a b).1 (swapRawElseIf a b).2 := by
  simp [swapRawElseIf, SelfContained, ha, hb]

end AsmjitVerif.Hash
