/-
The fold of `relocate_to_base` over the entry list, composed with the ownership invariant (Lemmas/RelInv.lean):
each iteration touches only the bytes of its own entry's region and the address-table section (`Touch`), so what earlier
iterations wrote survives, and every later entry still finds its value word zero.
-/
import AsmjitVerif.Lemmas.RelEntry
namespace AsmjitVerif.CodeHolder
open AsmjitVerif.Offset

/-- `b` differs from `a` at most inside region `rg` and inside the address-table section `ats`; offsets and the number of
sections are the same -/
def Touch (a b : List Section) (rg : Rgn) (ats : Option Nat) : Prop :=
  a.length = b.length ∧
  ∀ (i : Nat) (sec : Section), a[i]? = some sec → ∃ sec' : Section, b[i]? = some sec' ∧ sec'.offset = sec.offset ∧
    (ats ≠ some i → sec'.buf.length = sec.buf.length ∧
      ∀ j, (i ≠ rg.sec ∨ j < rg.off ∨ rg.off + rg.size ≤ j) → sec'.buf[j]? = sec.buf[j]?)

theorem Touch.refl (a : List Section) (rg : Rgn) (ats : Option Nat) : Touch a a rg ats :=
  ⟨rfl, fun _ sec h => ⟨sec, h, rfl, fun _ => ⟨rfl, fun _ _ => rfl⟩⟩⟩

theorem Touch.trans {a b c : List Section} {rg : Rgn} {ats : Option Nat} (h1 : Touch a b rg ats) (h2 : Touch b c rg ats) :
    Touch a c rg ats := by
  refine ⟨h1.1.trans h2.1, ?_⟩
  intro i sec hs
  obtain ⟨s1, e1, o1, k1⟩ := h1.2 i sec hs
  obtain ⟨s2, e2, o2, k2⟩ := h2.2 i s1 e1
  refine ⟨s2, e2, o2.trans o1, fun hn => ?_⟩
  obtain ⟨l1, f1⟩ := k1 hn
  obtain ⟨l2, f2⟩ := k2 hn
  exact ⟨l2.trans l1, fun j hj => (f2 j hj).trans (f1 j hj)⟩

theorem secOffset_touch {a b : List Section} {rg : Rgn} {ats : Option Nat} (h : Touch a b rg ats) (j : Nat) :
    secOffset b j = secOffset a j := by
  unfold secOffset
  cases hs : a[j]? with
  | none =>
    have : b[j]? = none := by
      rw [List.getElem?_eq_none_iff] at hs ⊢; rw [← h.1]; exact hs
    rw [this]
  | some sec =>
    obtain ⟨s', e, o, _⟩ := h.2 j sec hs
    rw [e]; exact o

theorem getOffset_touch {a b : List Section} {rg : Rgn} {ats : Option Nat} (h : Touch a b rg ats) (j : Nat) :
    (b[j]?).map (·.offset) = (a[j]?).map (·.offset) := by
  cases hs : a[j]? with
  | none =>
    have : b[j]? = none := by
      rw [List.getElem?_eq_none_iff] at hs ⊢; rw [← h.1]; exact hs
    rw [this]
  | some sec =>
    obtain ⟨s', e, o, _⟩ := h.2 j sec hs
    rw [e]; simp [o]

/-- a reference-like region outside `rg` and outside the address table keeps its bytes and stays in bounds -/
theorem field_touch {a b : List Section} {rg : Rgn} {ats : Option Nat} (h : Touch a b rg ats) (g : GRef)
    (hat : ats ≠ some g.sec) (hd : DRG rg g) (hb : InB a g) : field b g = field a g ∧ InB b g := by
  obtain ⟨sec, hs, hbnd⟩ := hb
  obtain ⟨s', e, _, k⟩ := h.2 _ sec hs
  obtain ⟨hl, hf⟩ := k hat
  refine ⟨?_, ⟨s', e, by rw [hl]; exact hbnd⟩⟩
  unfold field
  rw [hs, e]
  simp only [Option.bind_some]
  apply loadLE_congr
  intro j h1 h2
  apply hf
  unfold DRG at hd
  rcases hd with hd | hd | hd
  · exact .inl (Ne.symm hd)
  · exact .inr (.inr (by omega))
  · exact .inr (.inl (by omega))

theorem touch_setBuf (secs : List Section) (rg : Rgn) (ats : Option Nat) (sec : Section) (buf' : Bytes)
    (hs : secs[rg.sec]? = some sec) (hl : buf'.length = sec.buf.length)
    (hf : ∀ j, (j < rg.off ∨ rg.off + rg.size ≤ j) → buf'[j]? = sec.buf[j]?) :
    Touch secs (setBuf secs rg.sec buf') rg ats := by
  refine ⟨by unfold setBuf; rw [modifySec_length], ?_⟩
  intro i seci hi
  unfold setBuf
  by_cases hij : rg.sec = i
  · subst hij
    rw [hs] at hi; cases hi
    refine ⟨_, modifySec_get_same _ _ _ _ hs, rfl, fun _ => ⟨hl, fun j hj => ?_⟩⟩
    rcases hj with hj | hj | hj
    · exact absurd rfl hj
    · exact hf j (.inl hj)
    · exact hf j (.inr hj)
  · exact ⟨seci, by rw [modifySec_get_ne _ _ _ _ hij]; exact hi, rfl, fun _ => ⟨rfl, fun _ _ => rfl⟩⟩

theorem touch_modifyAts (secs : List Section) (rg : Rgn) (ats : Nat) (f : Section → Section) (hf : ∀ x, (f x).offset = x.offset) :
    Touch secs (modifySec secs ats f) rg (some ats) := by
  refine ⟨by rw [modifySec_length], ?_⟩
  intro i seci hi
  by_cases hij : ats = i
  · subst hij
    exact ⟨f seci, modifySec_get_same _ _ _ _ hi, hf seci, fun hn => absurd rfl hn⟩
  · exact ⟨seci, by rw [modifySec_get_ne _ _ _ _ hij]; exact hi, rfl, fun _ => ⟨rfl, fun _ _ => rfl⟩⟩

/-- the designation of a relocation entry's value word under the decoders of Spec/Offset.lean (64-bit decoder for 8-byte values) -/
def RDecodes (secs : List Section) (rg : Rgn) (v : BitVec 64) : Prop :=
  ∃ new, field secs rg.val = some new ∧
    (if rg.fmt.valueSize = 8 then decode64 rg.fmt (BitVec.ofNat 64 new) = v else decode32 rg.fmt (BitVec.ofNat 32 new) = v)

theorem encode64_vo (f : OffsetFormat) (off : BitVec 64) : encodeOffset64 f off = encodeOffset64 { f with valueOffset := 0 } off := by
  cases f; rfl
theorem decode64_vo (f : OffsetFormat) (w : BitVec 64) : decode64 f w = decode64 { f with valueOffset := 0 } w := by
  cases f; rfl

/-- 8-byte values: an all-zero word patched by `write_offset` decodes to exactly the value written -/
theorem write_exact64_vo (f : OffsetFormat) (hf : ({ f with valueOffset := 0 } : OffsetFormat) ∈ formatsProved) (h8 : f.valueSize = 8)
    (buf buf' : Bytes) (pos : Nat) (off : BitVec 64)
    (hw : writeOffset buf pos off f = some buf')
    (hold : loadLE buf (pos + f.valueOffset) f.valueSize = some 0) :
    ∃ new, loadLE buf' (pos + f.valueOffset) f.valueSize = some new ∧ decode64 f (BitVec.ofNat 64 new) = off := by
  obtain ⟨_, _, old', m, hold', hm, hnew⟩ := Offset.writeOffset_frame buf buf' pos off f hw
  rw [hold] at hold'; cases hold'
  simp only [h8, if_true] at hm
  cases he : encodeOffset64 f off with
  | none => simp [he] at hm
  | some mv =>
    simp only [he, Option.map_some, Option.some.injEq] at hm
    have he0 : encodeOffset64 { f with valueOffset := 0 } off = some mv := by rw [← encode64_vo]; exact he
    have hex := formatsProved_exact _ hf
    unfold CodecExact at hex
    have h8' : ({ f with valueOffset := 0 } : OffsetFormat).valueSize = 8 := h8
    rw [if_pos h8'] at hex
    have := (hex.1 off mv he0 0#64 (by simp)).1
    refine ⟨0 ||| m, hnew, ?_⟩
    have e : BitVec.ofNat 64 (0 ||| m) = 0#64 ||| mv := by
      rw [← hm]; apply BitVec.eq_of_toNat_eq; simp
    rw [e, decode64_vo]; exact this

/-- the final `write_offset` of an iteration: touches only the entry's region; a zero value word afterwards designates the value -/
theorem relocFinish_spec (acc acc' : RelocAcc) (re : Reloc) (v : BitVec 64) (ats : Option Nat)
    (hin : RInB acc.secs re.rgn) (hok : relocFinish acc re v = .ok acc') :
    Touch acc.secs acc'.secs re.rgn ats ∧ acc'.addrTab = acc.addrTab ∧ acc'.nSlots = acc.nSlots ∧
    (RZero acc.secs re.rgn → RDecodes acc'.secs re.rgn v) := by
  obtain ⟨src, hsrc, hb1, hb2, hpos, hfmt, _⟩ := hin
  replace hsrc : acc.secs[re.srcSec]? = some src := hsrc
  unfold relocFinish at hok
  rw [hsrc] at hok
  simp only [Option.bind_some] at hok
  cases hw : writeOffset src.buf re.srcOff v re.fmt with
  | none => rw [hw] at hok; cases hok
  | some buf' =>
    rw [hw] at hok
    cases hok
    obtain ⟨hlen, hout, _⟩ := Offset.writeOffset_frame src.buf buf' re.srcOff v re.fmt hw
    have h2 : re.fmt.valueOffset + re.fmt.valueSize ≤ re.regionSize := hb2
    refine ⟨touch_setBuf acc.secs re.rgn ats src buf' hsrc hlen (fun j hj => hout j (by
      show j < re.srcOff + re.fmt.valueOffset ∨ re.srcOff + re.fmt.valueOffset + re.fmt.valueSize ≤ j
      have : (j < re.srcOff ∨ re.srcOff + re.regionSize ≤ j) := hj
      omega)), rfl, rfl, ?_⟩
    intro hz
    obtain ⟨old, hold, hzc⟩ := hz
    have hold' : loadLE src.buf (re.srcOff + re.fmt.valueOffset) re.fmt.valueSize = some old := by
      unfold field at hold
      have : acc.secs[re.rgn.val.sec]? = some src := hsrc
      rw [this] at hold; exact hold
    have hget : field (setBuf acc.secs re.srcSec buf') re.rgn.val = loadLE buf' (re.srcOff + re.fmt.valueOffset) re.fmt.valueSize := by
      unfold field setBuf
      show ((modifySec acc.secs re.srcSec _)[re.srcSec]?).bind _ = _
      rw [modifySec_get_same _ _ _ _ hsrc]; rfl
    by_cases h8 : re.fmt.valueSize = 8
    · have h8' : re.rgn.fmt.valueSize = 8 := h8
      rw [if_pos h8'] at hzc
      subst hzc
      obtain ⟨new, hn, hd⟩ := write_exact64_vo re.fmt hfmt h8 src.buf buf' re.srcOff v hw hold'
      exact ⟨new, by rw [hget]; exact hn, by show (if re.fmt.valueSize = 8 then _ else _); rw [if_pos h8]; exact hd⟩
    · have h8' : re.rgn.fmt.valueSize ≠ 8 := h8
      rw [if_neg h8'] at hzc
      obtain ⟨new, hn, hd⟩ := write_exact32_vo re.fmt hfmt h8 src.buf buf' re.srcOff v old hw hold' hzc
      exact ⟨new, by rw [hget]; exact hn, by show (if re.fmt.valueSize = 8 then _ else _); rw [if_neg h8]; exact hd⟩

/-- the slot store of `relocTable` on the address-table section -/
def slotStore (a v : Nat) (t : Section) : Section :=
  match storeLE (padTo t.buf (a + 8)) a v 8 with
  | some b => { t with buf := b }
  | none => t

/-- the address-table form, right after `relocTable`: the rel32 to write reaches the slot, the two bytes before the value word
are `FF 15` / `FF 25`, and the slot holds the target -/
def TableFacts (s : State) (acc acc1 : RelocAcc) (re : Reloc) (src : Section) (v : BitVec 64) : Prop :=
  ∃ ats slot nb, s.addrTabSec = some ats ∧ isInt32 v = true ∧
    v = secOffset acc.secs ats + BitVec.ofNat 64 (slot * s.arch.regSize) -
          (src.offset + BitVec.ofNat 64 re.srcOff + BitVec.ofNat 64 re.regionSize) ∧
    (nb = 0x15#8 ∨ nb = 0x25#8) ∧
    (∃ sec1, acc1.secs[re.srcSec]? = some sec1 ∧ sec1.buf[re.srcOff + re.fmt.valueOffset - 2]? = some 0xFF#8 ∧
        sec1.buf[re.srcOff + re.fmt.valueOffset - 1]? = some nb) ∧
    (∀ t0, acc.secs[ats]? = some t0 →
      ∃ t1, acc1.secs[ats]? = some t1 ∧ loadLE t1.buf (slot * s.arch.regSize) 8 = some (re.payload.toNat % 256 ^ 8)) ∧
    (∃ ei buf1, acc.addrTab.findIdx? (fun e => e.addr == re.payload) = some ei ∧ slot = (assignSlot acc ei).2.2 ∧
      acc1.addrTab = (assignSlot acc ei).1 ∧ acc1.nSlots = (assignSlot acc ei).2.1 ∧
      acc1.secs = modifySec (setBuf acc.secs re.srcSec buf1) ats (slotStore (slot * s.arch.regSize) re.payload.toNat))

theorem relocValue_src (s : State) (B : BitVec 64) (secs : List Section) (re : Reloc) (src : Section) (h : secs[re.srcSec]? = some src) :
    secOffset secs re.srcSec = src.offset := by unfold secOffset; rw [h]

theorem relocPrep_spec (s : State) (B : BitVec 64) (acc acc1 : RelocAcc) (re : Reloc) (src : Section) (v : BitVec 64)
    (hsrc : acc.secs[re.srcSec]? = some src) (hin : RInB acc.secs re.rgn) (hat : s.addrTabSec ≠ some re.srcSec)
    (hok : relocPrep s B acc re src = .ok (acc1, v)) :
    Touch acc.secs acc1.secs re.rgn s.addrTabSec ∧ field acc1.secs re.rgn.val = field acc.secs re.rgn.val ∧
    ((acc1 = acc ∧ relocValue s B acc.secs re = some v) ∨
     (re.type = .x64AddressEntry ∧ relocValue s B acc.secs re = none ∧ TableFacts s acc acc1 re src v)) := by
  have hso := relocValue_src s B acc.secs re src hsrc
  have simple : ∀ (hv : relocValue s B acc.secs re = some v) (he : acc1 = acc),
      Touch acc.secs acc1.secs re.rgn s.addrTabSec ∧ field acc1.secs re.rgn.val = field acc.secs re.rgn.val ∧
      ((acc1 = acc ∧ relocValue s B acc.secs re = some v) ∨
       (re.type = .x64AddressEntry ∧ relocValue s B acc.secs re = none ∧ TableFacts s acc acc1 re src v)) := by
    intro hv he; subst he
    exact ⟨Touch.refl _ _ _, rfl, .inl ⟨rfl, hv⟩⟩
  unfold relocPrep at hok
  obtain ⟨ty, hty⟩ : ∃ ty, re.type = ty := ⟨_, rfl⟩
  cases ty <;> simp only [hty] at hok
  · cases hok
  · -- expression
    cases he : s.exprs[re.payload.toNat]? with
    | none => rw [he] at hok; cases hok
    | some e =>
      rw [he] at hok
      dsimp only at hok
      cases hev : evalExpr { s with secs := acc.secs } e with
      | error er => rw [hev] at hok; cases hok
      | ok x =>
        rw [hev] at hok
        simp only [Except.ok.injEq, Prod.mk.injEq] at hok
        obtain ⟨h1, h2⟩ := hok
        subst h2
        exact simple (by unfold relocValue; simp only [hty, he, hev]) h1.symm
  · cases hok
  · -- absToAbs: never created by the assemblers; the value is the payload
    simp only [Except.ok.injEq, Prod.mk.injEq] at hok
    obtain ⟨h1, h2⟩ := hok
    subst h2
    exact simple (by unfold relocValue; simp only [hty]) h1.symm
  · -- relToAbs
    cases ht : re.tgtSec.bind (fun t => acc.secs[t]?) with
    | none => rw [ht] at hok; cases hok
    | some tgt =>
      rw [ht] at hok
      simp only [Except.ok.injEq, Prod.mk.injEq] at hok
      obtain ⟨h1, h2⟩ := hok
      subst h2
      exact simple (by unfold relocValue; simp only [hty, ht, Option.map_some]) h1.symm
  · -- absToRel
    try dsimp only at hok
    by_cases h4 : s.arch.regSize ≤ 4
    · simp only [h4, if_true, Except.ok.injEq, Prod.mk.injEq] at hok
      obtain ⟨h1, h2⟩ := hok
      subst h2
      exact simple (by unfold relocValue; simp only [hty, hso, h4, if_true]) h1.symm
    · simp only [h4, if_false] at hok
      by_cases hi : isInt32 (re.payload - (B + src.offset + BitVec.ofNat 64 re.srcOff + BitVec.ofNat 64 re.regionSize)) = true
      · simp only [hi, Bool.not_true, Bool.false_eq_true, if_false, Except.ok.injEq, Prod.mk.injEq] at hok
        obtain ⟨h1, h2⟩ := hok
        subst h2
        exact simple (by unfold relocValue; simp only [hty, hso, h4, if_false, hi, if_true]) h1.symm
      · simp only [hi] at hok
        cases hok
  · -- x64AddressEntry
    by_cases hc4 : re.fmt.valueSize ≠ 4 ∨ re.srcOff + re.fmt.valueOffset < 2
    · simp only [hc4, if_true] at hok; cases hok
    · simp only [hc4, if_false] at hok
      try dsimp only at hok
      by_cases hi : isInt32 (re.payload - (B + src.offset + BitVec.ofNat 64 re.srcOff + BitVec.ofNat 64 re.regionSize)) = true
      · simp only [hi, if_true, Except.ok.injEq, Prod.mk.injEq] at hok
        obtain ⟨h1, h2⟩ := hok
        subst h2
        exact simple (by unfold relocValue; simp only [hty, hso, hi, if_true]) h1.symm
      · simp only [hi] at hok
        -- the address-table form
        have hvnone : relocValue s B acc.secs re = none := by unfold relocValue; simp only [hty, hso, hi]; rfl
        unfold relocTable at hok
        dsimp only at hok
        cases hfi : acc.addrTab.findIdx? (fun e => e.addr == re.payload) with
        | none => rw [hfi] at hok; cases hok
        | some ei =>
          cases hats : s.addrTabSec with
          | none => rw [hfi, hats] at hok; cases hok
          | some ats =>
            rw [hfi, hats] at hok
            try dsimp only at hok
            -- name the slot triple
            generalize htrip : assignSlot acc ei = trip at hok
            obtain ⟨tab, nSlots, slot⟩ := trip
            try dsimp only at hok
            by_cases hv2 : isInt32 (secOffset acc.secs ats + BitVec.ofNat 64 (slot * s.arch.regSize) -
                (src.offset + BitVec.ofNat 64 re.srcOff + BitVec.ofNat 64 re.regionSize)) = true
            · simp only [hv2, Bool.not_true, Bool.false_eq_true, if_false] at hok
              cases hb1 : src.buf[re.srcOff + re.fmt.valueOffset - 1]? with
              | none => rw [hb1] at hok; cases hok
              | some b1 =>
                rw [hb1] at hok
                try dsimp only at hok
                generalize hnb : (if b1 = 0xE8#8 then some 0x15#8 else if b1 = 0xE9#8 then some 0x25#8 else none : Option (BitVec 8)) = nbo at hok
                cases nbo with
                | none => cases hok
                | some nb =>
                  try dsimp only at hok
                  simp only [Except.ok.injEq, Prod.mk.injEq] at hok
                  obtain ⟨h1, h2⟩ := hok
                  obtain ⟨sec0, hs0, hb1', hb2', hpos, _, htab⟩ := hin
                  have hvo2 : 2 ≤ re.fmt.valueOffset := htab hty
                  have hreg : re.srcOff + re.regionSize ≤ src.buf.length := by
                    have : acc.secs[re.rgn.sec]? = some src := hsrc
                    rw [this] at hs0; cases hs0; exact hb1'
                  have hvs : re.fmt.valueOffset + re.fmt.valueSize ≤ re.regionSize := hb2'
                  have hne : ats ≠ re.srcSec := fun e => hat (by rw [hats, e])
                  -- the rewritten instruction bytes
                  let buf1 := (src.buf.set (re.srcOff + re.fmt.valueOffset - 2) 0xFF#8).set (re.srcOff + re.fmt.valueOffset - 1) nb
                  have hlen1 : buf1.length = src.buf.length := by simp [buf1]
                  have hout1 : ∀ j, (j < re.srcOff ∨ re.srcOff + re.regionSize ≤ j) → buf1[j]? = src.buf[j]? := by
                    intro j hj
                    show ((src.buf.set _ _).set _ _)[j]? = _
                    rw [List.getElem?_set_ne (by omega), List.getElem?_set_ne (by omega)]
                  have hval1 : ∀ j, re.srcOff + re.fmt.valueOffset ≤ j → buf1[j]? = src.buf[j]? := by
                    intro j hj
                    show ((src.buf.set _ _).set _ _)[j]? = _
                    rw [List.getElem?_set_ne (by omega), List.getElem?_set_ne (by omega)]
                  have T1 : Touch acc.secs (setBuf acc.secs re.srcSec buf1) re.rgn (some ats) :=
                    touch_setBuf acc.secs re.rgn (some ats) src buf1 hsrc hlen1 hout1
                  have T2 := touch_modifyAts (setBuf acc.secs re.srcSec buf1) re.rgn ats
                    (fun t => match storeLE (padTo t.buf (slot * s.arch.regSize + 8)) (slot * s.arch.regSize) re.payload.toNat 8 with
                      | some b => { t with buf := b }
                      | none => t)
                    (fun x => by split <;> rfl)
                  have hget1 : (setBuf acc.secs re.srcSec buf1)[re.srcSec]? = some { src with buf := buf1 } := by
                    unfold setBuf; exact modifySec_get_same _ _ _ _ hsrc
                  subst h1
                  refine ⟨T1.trans T2, ?_, .inr ⟨hty, hvnone, ?_⟩⟩
                  · -- the value word is not touched
                    unfold field
                    show ((modifySec (setBuf acc.secs re.srcSec buf1) ats _)[re.srcSec]?).bind _ = (acc.secs[re.srcSec]?).bind _
                    rw [modifySec_get_ne _ _ _ _ hne, hget1, hsrc]
                    simp only [Option.bind_some]
                    apply loadLE_congr
                    intro j hj1 _
                    exact hval1 j hj1
                  · refine ⟨ats, slot, nb, hats, ?_, h2.symm, ?_, ?_, ?_, ⟨ei, buf1, hfi, by rw [htrip], by rw [htrip], by rw [htrip], rfl⟩⟩
                    · rw [← h2]; exact hv2
                    · split at hnb
                      · cases hnb; exact .inl rfl
                      · split at hnb
                        · cases hnb; exact .inr rfl
                        · cases hnb
                    · refine ⟨{ src with buf := buf1 }, by rw [modifySec_get_ne _ _ _ _ hne]; exact hget1, ?_, ?_⟩
                      · show ((src.buf.set _ _).set _ _)[_]? = _
                        rw [List.getElem?_set_ne (by omega), List.getElem?_set_self (by omega)]
                      · show ((src.buf.set _ _).set _ _)[_]? = _
                        rw [List.getElem?_set_self (by simp; omega)]
                    · -- the slot
                      intro t0 ht0
                      have hpad : slot * s.arch.regSize + 8 ≤ (padTo t0.buf (slot * s.arch.regSize + 8)).length := by
                        unfold padTo; simp [zeros]; omega
                      obtain ⟨b, hb⟩ := storeLE_isSome 8 (padTo t0.buf (slot * s.arch.regSize + 8)) (slot * s.arch.regSize) re.payload.toNat hpad
                      have h0 : (setBuf acc.secs re.srcSec buf1)[ats]? = some t0 := by
                        unfold setBuf; rw [modifySec_get_ne _ _ _ _ (Ne.symm hne)]; exact ht0
                      refine ⟨{ t0 with buf := b }, ?_, loadLE_storeLE _ _ _ _ _ hb⟩
                      rw [modifySec_get_same _ _ _ _ h0]
                      simp only [hb]
            · simp only [hv2] at hok
              cases hok

/-! ### one iteration, then the fold -/

theorem relocFinish_ne (acc : RelocAcc) (re : Reloc) (v : BitVec 64) : relocFinish acc re v ≠ .error .ok := by
  unfold relocFinish; split <;> simp
theorem evalExpr_ne (s : State) (e : Nat × Nat) : evalExpr s e ≠ .error .ok := by
  unfold evalExpr; split <;> simp
theorem relocPrep_ne (s : State) (B : BitVec 64) (acc : RelocAcc) (re : Reloc) (src : Section) : relocPrep s B acc re src ≠ .error .ok := by
  unfold relocPrep relocTable
  dsimp only
  repeat' split
  all_goals first
    | (simp; done)
    | (intro e; cases e; exact absurd ‹_› (evalExpr_ne _ _))
theorem relocStep_ne (s : State) (B : BitVec 64) (acc : RelocAcc) (re : Reloc) : relocStep s B acc re ≠ .error .ok := by
  unfold relocStep
  split
  · simp
  · split
    · simp
    · split
      · simp
      · cases h : relocPrep s B acc re _ with
        | ok pr => exact relocFinish_ne _ _ _
        | error e =>
          dsimp only
          intro hx
          cases hx
          exact relocPrep_ne _ _ _ _ _ h


theorem secOffset_of_map {a b : List Section} (h : ∀ j : Nat, (b[j]?).map Section.offset = (a[j]?).map Section.offset) (j : Nat) :
    secOffset b j = secOffset a j := by
  have := h j
  unfold secOffset
  cases ha : a[j]? <;> cases hb : b[j]? <;> rw [ha, hb] at this <;> simp at this
  · simp [this]

theorem relocValue_offs (s : State) (B : BitVec 64) {a b : List Section} (re : Reloc)
    (h : ∀ j : Nat, (b[j]?).map Section.offset = (a[j]?).map Section.offset) : relocValue s B b re = relocValue s B a re := by
  have hso := secOffset_of_map h
  unfold relocValue
  rw [hso re.srcSec]
  have htgt : (re.tgtSec.bind (fun t => b[t]?)).map (fun tgt => re.payload + (B + tgt.offset)) =
      (re.tgtSec.bind (fun t => a[t]?)).map (fun tgt => re.payload + (B + tgt.offset)) := by
    cases re.tgtSec with
    | none => rfl
    | some t =>
      simp only [Option.bind_some]
      have := h t
      cases ha : a[t]? <;> cases hb : b[t]? <;> rw [ha, hb] at this <;> simp at this
      · simp [this]
  have hev : ∀ e, evalExpr { s with secs := b } e = evalExpr { s with secs := a } e := by
    intro e
    unfold evalExpr
    simp only [hso]
  rw [htgt]
  cases re.type <;> simp only []
  cases s.exprs[re.payload.toNat]? with
  | none => rfl
  | some e => simp only [hev]

/-- what `relocate_to_base` has done to one entry -/
def EntryDone (s : State) (B : BitVec 64) (secs0 secsF : List Section) (re : Reloc) : Prop :=
  re.type = .none ∨
  (∃ v, relocValue s B secs0 re = some v ∧ RDecodes secsF re.rgn v) ∨
  (re.type = .x64AddressEntry ∧ relocValue s B secs0 re = none ∧
    ∃ v ats slot, s.addrTabSec = some ats ∧ isInt32 v = true ∧
      v = secOffset secs0 ats + BitVec.ofNat 64 (slot * s.arch.regSize) -
            (secOffset secs0 re.srcSec + BitVec.ofNat 64 re.srcOff + BitVec.ofNat 64 re.regionSize) ∧
      RDecodes secsF re.rgn v)

theorem relocStep_spec (s : State) (B : BitVec 64) (acc acc' : RelocAcc) (re : Reloc)
    (hin : RInB acc.secs re.rgn) (hz : RZero acc.secs re.rgn) (hat : s.addrTabSec ≠ some re.srcSec)
    (hok : relocStep s B acc re = .ok acc') :
    Touch acc.secs acc'.secs re.rgn s.addrTabSec ∧ EntryDone s B acc.secs acc'.secs re := by
  unfold relocStep at hok
  by_cases hn : re.type = .none
  · simp only [hn, if_true] at hok
    cases hok
    exact ⟨Touch.refl _ _ _, .inl hn⟩
  · simp only [hn, if_false] at hok
    obtain ⟨src, hsrc, hb1, hb2, hpos, hfmt, htab⟩ := hin
    replace hsrc : acc.secs[re.srcSec]? = some src := hsrc
    rw [hsrc] at hok
    dsimp only at hok
    split at hok
    · cases hok
    · cases hp : relocPrep s B acc re src with
      | error e => rw [hp] at hok; cases hok
      | ok pr =>
        obtain ⟨acc1, v⟩ := pr
        rw [hp] at hok
        dsimp only at hok
        have hin0 : RInB acc.secs re.rgn := ⟨src, hsrc, hb1, hb2, hpos, hfmt, htab⟩
        obtain ⟨T1, hfld, hcase⟩ := relocPrep_spec s B acc acc1 re src v hsrc hin0 hat hp
        -- the entry's own region / value word in acc1
        have hin1 : RInB acc1.secs re.rgn := by
          obtain ⟨s1, e1, _, k1⟩ := T1.2 _ src hsrc
          obtain ⟨hl, _⟩ := k1 hat
          exact ⟨s1, e1, by rw [hl]; exact hb1, hb2, hpos, hfmt, htab⟩
        have hz1 : RZero acc1.secs re.rgn := by
          obtain ⟨old, ho, hc⟩ := hz
          exact ⟨old, by rw [hfld]; exact ho, hc⟩
        obtain ⟨T2, _, _, hown⟩ := relocFinish_spec acc1 acc' re v s.addrTabSec hin1 hok
        refine ⟨T1.trans T2, ?_⟩
        have hso := relocValue_src s B acc.secs re src hsrc
        rcases hcase with ⟨_, hv⟩ | ⟨hty, hvn, ats, slot, nb, hats, hi, hveq, _⟩
        · exact .inr (.inl ⟨v, hv, hown hz1⟩)
        · exact .inr (.inr ⟨hty, hvn, v, ats, slot, hats, hi, by rw [hso]; exact hveq, hown hz1⟩)

theorem DRG_val_of_DRR {secs : List Section} {a b : Rgn} (hb : RInB secs b) (h : DRR a b) : DRG a b.val := by
  obtain ⟨_, _, _, h3, _⟩ := hb
  unfold DRG DRR at *
  show a.sec ≠ b.sec ∨ a.off + a.size ≤ b.off + b.fmt.valueOffset ∨ b.off + b.fmt.valueOffset + b.fmt.valueSize ≤ a.off
  omega

theorem rinb_touch {a b : List Section} {rg r : Rgn} {ats : Option Nat} (h : Touch a b rg ats) (hat : ats ≠ some r.sec)
    (hr : RInB a r) : RInB b r := by
  obtain ⟨sec, hs, h1, h2, h3, h4, h5⟩ := hr
  obtain ⟨s', e, _, k⟩ := h.2 _ sec hs
  obtain ⟨hl, _⟩ := k hat
  exact ⟨s', e, by rw [hl]; exact h1, h2, h3, h4, h5⟩

/-- the whole fold: offsets are preserved, bytes outside every processed region (and outside the address table) are
preserved, and every entry has been relocated -/
theorem relocLoop_spec (s : State) (B : BitVec 64) : ∀ (rs : List Reloc) (acc accF : RelocAcc),
    (rs.map Reloc.rgn).Pairwise DRR →
    (∀ re ∈ rs, RInB acc.secs re.rgn ∧ RZero acc.secs re.rgn ∧ s.addrTabSec ≠ some re.srcSec) →
    relocLoop s B rs acc = (accF, .ok) →
    (∀ j : Nat, (accF.secs[j]?).map Section.offset = (acc.secs[j]?).map Section.offset) ∧
    (∀ g : GRef, s.addrTabSec ≠ some g.sec → InB acc.secs g → (∀ re ∈ rs, DRG re.rgn g) →
        field accF.secs g = field acc.secs g ∧ InB accF.secs g) ∧
    (∀ re ∈ rs, EntryDone s B acc.secs accF.secs re) := by
  intro rs
  induction rs with
  | nil =>
    intro acc accF _ _ hok
    simp only [relocLoop, Prod.mk.injEq] at hok
    obtain ⟨e, _⟩ := hok; subst e
    exact ⟨fun _ => rfl, fun g _ hb _ => ⟨rfl, hb⟩, fun _ h => by cases h⟩
  | cons re rest ih =>
    intro acc accF hpw hall hok
    simp only [List.map_cons, List.pairwise_cons] at hpw
    obtain ⟨h0in, h0z, h0at⟩ := hall re List.mem_cons_self
    simp only [relocLoop] at hok
    cases hst : relocStep s B acc re with
    | error e =>
      rw [hst] at hok
      dsimp only at hok
      have := (Prod.mk.inj hok).2
      subst this
      exact absurd hst (relocStep_ne _ _ _ _)
    | ok acc1 =>
      rw [hst] at hok
      dsimp only at hok
      obtain ⟨T, hdone0⟩ := relocStep_spec s B acc acc1 re h0in h0z h0at hst
      have hoffs1 : ∀ j : Nat, (acc1.secs[j]?).map Section.offset = (acc.secs[j]?).map Section.offset := getOffset_touch T
      -- the remaining entries still satisfy the preconditions in acc1
      have hall1 : ∀ r ∈ rest, RInB acc1.secs r.rgn ∧ RZero acc1.secs r.rgn ∧ s.addrTabSec ≠ some r.srcSec := by
        intro r hr
        obtain ⟨ri, rz, rat⟩ := hall r (List.mem_cons_of_mem _ hr)
        have hd : DRR re.rgn r.rgn := hpw.1 r.rgn (List.mem_map_of_mem hr)
        have hfl := field_touch T r.rgn.val rat (DRG_val_of_DRR ri hd) ri.val
        obtain ⟨old, ho, hc⟩ := rz
        exact ⟨rinb_touch T rat ri, ⟨old, by rw [hfl.1]; exact ho, hc⟩, rat⟩
      obtain ⟨hoffsF, hframeF, hdoneF⟩ := ih acc1 accF hpw.2 hall1 hok
      refine ⟨fun j => (hoffsF j).trans (hoffs1 j), ?_, ?_⟩
      · intro g hgat hgb hgd
        have h1 := field_touch T g hgat (hgd re List.mem_cons_self) hgb
        have h2 := hframeF g hgat h1.2 (fun r hr => hgd r (List.mem_cons_of_mem _ hr))
        exact ⟨h2.1.trans h1.1, h2.2⟩
      · intro r hr
        simp only [List.mem_cons] at hr
        rcases hr with rfl | hr
        · -- the first entry: done in acc1, untouched afterwards
          have hkeep := hframeF r.rgn.val h0at (rinb_touch T h0at h0in).val
            (fun r' hr' => DRG_val_of_DRR h0in (by
              have := hpw.1 r'.rgn (List.mem_map_of_mem hr')
              unfold DRR at *; omega))
          have hdec : ∀ v, RDecodes acc1.secs r.rgn v → RDecodes accF.secs r.rgn v := by
            intro v ⟨new, hn, hd⟩
            exact ⟨new, by rw [hkeep.1]; exact hn, hd⟩
          rcases hdone0 with h | ⟨v, hv, hd⟩ | ⟨hty, hvn, v, ats, slot, h1, h2, h3, hd⟩
          · exact .inl h
          · exact .inr (.inl ⟨v, hv, hdec v hd⟩)
          · exact .inr (.inr ⟨hty, hvn, v, ats, slot, h1, h2, h3, hdec v hd⟩)
        · -- a later entry: the induction hypothesis, with values computed from the same offsets
          have hso := secOffset_of_map hoffs1
          rcases hdoneF r hr with h | ⟨v, hv, hd⟩ | ⟨hty, hvn, v, ats, slot, h1, h2, h3, hd⟩
          · exact .inl h
          · exact .inr (.inl ⟨v, by rw [← relocValue_offs s B r hoffs1]; exact hv, hd⟩)
          · exact .inr (.inr ⟨hty, by rw [← relocValue_offs s B r hoffs1]; exact hvn, v, ats, slot, h1, h2,
              by rw [← hso ats, ← hso r.srcSec]; exact h3, hd⟩)

/-- **`relocate_to_base`, whole call.** In a state that satisfies the ownership invariant, a successful
`relocate_to_base(B)` leaves every relocation entry done: its value word designates the specified value (or, for the
address-table form, the rel32 that reaches the entry's slot). -/
theorem relocate_spec (s : State) (hr : RInv s) (B : BitVec 64) (s' : State) (n : Nat)
    (h : relocate s B = (s', .ok, n)) :
    ∀ re ∈ s.relocs, EntryDone { s with base := B } B s.secs s'.secs re := by
  unfold relocate at h
  by_cases hB : B = noBase
  · simp only [hB, if_true] at h
    cases h
  · simp only [hB, if_false] at h
    try dsimp only at h
    cases hl : relocLoop { s with base := B } B s.relocs { secs := s.secs, addrTab := s.addrTab, nSlots := 0 } with
    | mk acc e =>
      rw [hl] at h
      cases e
      case ok =>
        dsimp only at h
        have hpre : ∀ re ∈ s.relocs, RInB s.secs re.rgn ∧ RZero s.secs re.rgn ∧ s.addrTabSec ≠ some re.srcSec := by
          intro re hre
          have hm : re.rgn ∈ s.relocs.map Reloc.rgn := List.mem_map_of_mem hre
          exact ⟨hr.inb _ hm, hr.zero _ hm, hr.notab.1 _ hm⟩
        obtain ⟨_, _, hdone⟩ := relocLoop_spec { s with base := B } B s.relocs
          { secs := s.secs, addrTab := s.addrTab, nSlots := 0 } acc hr.disj hpre hl
        intro re hre
        have hd := hdone re hre
        -- the tail only resizes the address table section
        have hfield : field s'.secs re.rgn.val = field acc.secs re.rgn.val := by
          cases hats : s.addrTabSec with
          | none =>
            rw [hats] at h
            dsimp only at h
            cases h; rfl
          | some ats =>
            rw [hats] at h
            dsimp only at h
            cases h
            have hne : ats ≠ re.srcSec := fun e => (hpre re hre).2.2 (by rw [hats, e])
            unfold field
            show ((modifySec acc.secs ats _)[re.srcSec]?).bind _ = _
            rw [modifySec_get_ne _ _ _ _ hne]
            rfl
        have hdec : ∀ v, RDecodes acc.secs re.rgn v → RDecodes s'.secs re.rgn v := by
          intro v ⟨new, hn, hx⟩
          exact ⟨new, by rw [hfield]; exact hn, hx⟩
        rcases hd with h0 | ⟨v, hv, hx⟩ | ⟨hty, hvn, v, ats, slot, h1, h2, h3, hx⟩
        · exact .inl h0
        · exact .inr (.inl ⟨v, hv, hdec v hx⟩)
        · exact .inr (.inr ⟨hty, hvn, v, ats, slot, h1, h2, h3, hdec v hx⟩)
      all_goals (dsimp only at h; cases h)

end AsmjitVerif.CodeHolder
