/- C09: blocks are whole numbers of base blocks and granules; exact structure of the block list after release / shrink. -/
import AsmjitVerif.Lemmas.JitAllocMem
namespace AsmjitVerif.JitAlloc


/-- every pool's granularity divides the base block size (true for every configuration `JitAllocator_new_impl` builds: powers of two) -/
def CfgDiv (c : Config) : Prop := ∀ p, p < c.poolCount → c.poolGran p ∣ c.blockSize

/-- a block is a whole number of base blocks and of granules -/
structure DivB (cfg : Config) (b : Block) : Prop where
  pool : b.pool < cfg.poolCount
  mult : cfg.blockSize ∣ b.blockSize
  area : b.areaSize * cfg.poolGran b.pool = b.blockSize
  padc : b.pad = !cfg.noPad

def ADiv (a : Alloc) : Prop := ∀ b ∈ a.blocks, DivB a.cfg b

theorem DivB.of_static {cfg : Config} {b b' : Block} (h : DivB cfg b) (h1 : b'.pool = b.pool) (h2 : b'.blockSize = b.blockSize)
    (h3 : b'.areaSize = b.areaSize) (h4 : b'.pad = b.pad) : DivB cfg b' :=
  ⟨by rw [h1]; exact h.pool, by rw [h2]; exact h.mult, by rw [h1, h2, h3]; exact h.area, by rw [h4]; exact h.padc⟩

theorem alignUp_dvd (x a : Nat) : a ∣ alignUp x a := by unfold alignUp; exact Nat.dvd_mul_left _ _

theorem idealCore_dvd (bs0 sz blk : Nat) (h : blk ∣ bs0) : blk ∣ idealCore bs0 sz blk := by
  unfold idealCore
  simp only
  have := alignUp_dvd sz blk
  have h2 : blk ∣ bs0 * 2 := Nat.dvd_mul_right_of_dvd h 2
  split <;> split <;> assumption

theorem alloc_adiv {a : Alloc} {T} (req : Nat) (h : AInv a T) (hc : CfgDiv a.cfg) (hD : ADiv a) : ADiv (a.alloc req).1 := by
  intro x hx
  rw [alloc_cfg]
  refine alloc_forall (DivB a.cfg) req h hD ?_ ?_ ?_ x hx
  · intro b b' k _ _ hq ht
    obtain ⟨_, f2, f3, f4, f5⟩ := tryAlloc_fields ht
    exact hq.of_static f2 f3 f4 f5
  · intro b b' k idx _ _ _ hq ht
    obtain ⟨_, f2, f3, f4, f5⟩ := tryAlloc_fields ht
    exact hq.of_static (by simp [f2]) (by simp [f3]) (by simp [f4]) (by simp [Block.commit, f5])
  · intro blocks p n size hqb _ _ hp _ _
    have hg := poolGran_pos h.wf p
    have hmult : a.cfg.blockSize ∣ idealBlockSize { a with blocks := blocks } p size := by
      have hlast : a.cfg.blockSize ∣ (match (({ a with blocks := blocks } : Alloc).poolBlocks p).getLast? with
          | some l => l.blockSize | none => a.cfg.blockSize) := by
        cases hl : (({ a with blocks := blocks } : Alloc).poolBlocks p).getLast? with
        | none => exact Nat.dvd_refl _
        | some l =>
          have hm : l ∈ ({ a with blocks := blocks } : Alloc).poolBlocks p := List.mem_of_getLast? hl
          simp only [Alloc.poolBlocks, List.mem_filter] at hm
          exact (hqb l hm.1).mult
      exact idealCore_dvd _ _ _ hlast
    refine ⟨by simpa [newBlock, Block.clear] using hp, by simpa [newBlock, Block.clear] using hmult, ?_, by simp [newBlock, Block.clear]⟩
    simp only [markAllocated_areaSize, markAllocated_pool, markAllocated_blockSize, newBlock, Block.clear]
    apply ceil_mul_of_dvd _ _ hg
    exact Nat.mod_eq_zero_of_dvd (Nat.dvd_trans (hc p hp) hmult)

theorem ADiv.trans {s s' : St} (hI : Inv s) (hc : CfgDiv s.a.cfg) (hD : ADiv s.a) {l : TLabel} (t : Trans s l s') : ADiv s'.a := by
  have rel : ∀ (j : Nat) (hd : Handle), s.tab[j]? = some hd → hd.live = true → ADiv (s.a.release hd.blk hd.off).1 := by
    intro j hd h1 h2
    obtain ⟨b, hb, e, _⟩ := hI.owned j hd h1 h2
    have hfb : s.a.findBlock hd.blk = some b := by rw [← e]; exact findBlock_of_mem hI.ids hb
    intro x hx
    rw [release_cfg]
    rcases release_shape2 s.a hd.blk hd.off b hfb x hx with hx | rfl
    · exact hD x hx
    · exact (hD b hb).of_static (by simp) (by simp) (by simp) (by simp)
  have shr : ∀ (j : Nat) (hd : Handle) (n : Nat), s.tab[j]? = some hd → hd.live = true → ADiv (s.a.shrinkImpl hd.blk hd.off n).1 := by
    intro j hd n h1 h2
    obtain ⟨b, hb, e, _⟩ := hI.owned j hd h1 h2
    have hfb : s.a.findBlock hd.blk = some b := by rw [← e]; exact findBlock_of_mem hI.ids hb
    intro x hx
    rw [shrinkImpl_cfg]
    rcases shrink_shape2 s.a hd.blk hd.off n b hfb x hx with hx | ⟨b0, hb0, rfl⟩
    · exact hD x hx
    · rcases hb0 with e | ⟨_, _, e⟩
      · rw [e]; exact (hD b hb).of_static rfl rfl rfl rfl
      · rw [e]; exact (hD b hb).of_static (by simp) (by simp) (by simp) (by simp)
  cases t with
  | same => exact hD
  | allocErr req e h => exact alloc_adiv req hI.toAInv hc hD
  | allocOk req sp h => exact alloc_adiv req hI.toAInv hc hD
  | release j hd h1 h2 h3 => exact rel j hd h1 h2
  | shrinkSome j hd n sz h1 h2 h3 h4 => exact shr j hd n h1 h2
  | shrinkNone j hd n h1 h2 h3 h4 => exact shr j hd n h1 h2
  | write j hd byte h1 h2 =>
    intro x hx
    simp only [Alloc.writeMem, Alloc.modifyBlock, List.mem_map] at hx
    obtain ⟨y, hy, rfl⟩ := hx
    split
    · exact (hD y hy).of_static rfl rfl rfl rfl
    · exact hD y hy
  | reset hard =>
    intro x hx
    simp only [Alloc.reset] at hx
    obtain ⟨y, hy, hf⟩ := List.mem_filterMap.mp hx
    by_cases hk : s.a.keeps hard y = true
    · simp [hk] at hf
      rw [← hf]
      refine (hD y hy).of_static (wipeOut_id _ _).2 ?_ ?_ ?_
      · unfold wipeOut; split; rfl; split <;> rfl
      · unfold wipeOut; split; rfl; split <;> rfl
      · unfold wipeOut; split; rfl; split <;> rfl
    · simp [hk] at hf




/-- the block list after `release` of a live span: the released block replaced, and removed again when it became empty and the
policy says so -/
theorem release_struct {a : Alloc} {T} {s0 n0 : Nat} {b : Block} (h : AInv a T) (hb : b ∈ a.blocks) (hS : T b.id b.pool s0 n0) :
    ∃ b' : Block, b'.id = b.id ∧ b'.pool = b.pool ∧ b'.blockSize = b.blockSize ∧ b'.areaSize = b.areaSize ∧ b'.pad = b.pad ∧
      b'.areaUsed = b.areaUsed - n0 ∧ (b'.empty = true → b'.areaUsed = b'.padN) ∧
      ((a.release b.id (s0 * a.cfg.poolGran b.pool)).1.blocks = (a.blocks.map fun x => if x.id = b.id then b' else x) ∨
       (b'.empty = true ∧
        (a.release b.id (s0 * a.cfg.poolGran b.pool)).1.blocks = (a.blocks.map fun x => if x.id = b.id then b' else x).filter (·.id != b.id))) := by
  have hg := poolGran_pos h.wf b.pool
  obtain ⟨hI, hC⟩ := h.blk b hb
  obtain ⟨i1, i2, i3⟩ := hI.inside s0 n0 hS
  have hidx : s0 * a.cfg.poolGran b.pool / a.cfg.poolGran b.pool = s0 := Nat.mul_div_cancel _ hg
  have he : indexOfStop b.stop s0 + 1 = s0 + n0 := by rw [hI.toBCore.indexOfStop hS]; omega
  have e1 : s0 + n0 - s0 = n0 := by omega
  unfold Alloc.release
  simp only [findBlock_of_mem h.ids hb, hidx, he, e1]
  generalize hb' : (if a.cfg.fillUnused = true then
      { b.markReleased s0 (s0 + n0) with mem := setRange (b.markReleased s0 (s0 + n0)).mem s0 (s0 + n0) (patColour a.cfg) }
    else b.markReleased s0 (s0 + n0)) = b'
  have hacc : b'.id = b.id ∧ b'.pool = b.pool ∧ b'.blockSize = b.blockSize ∧ b'.areaSize = b.areaSize ∧ b'.pad = b.pad ∧
      b'.areaUsed = b.areaUsed - n0 := by
    rw [← hb']; split <;> simp [e1]
  have hemp : b'.empty = true → b'.areaUsed = b'.padN := by
    have hC' := BCnt.markReleased hI hC hS
    rw [← hb']; split
    · exact (hC'.withMem _).emp
    · exact hC'.emp
  refine ⟨b', hacc.1, hacc.2.1, hacc.2.2.1, hacc.2.2.2.1, hacc.2.2.2.2.1, hacc.2.2.2.2.2, hemp, ?_⟩
  split
  · rename_i hempty
    split
    · right
      refine ⟨hempty, ?_⟩
      simp only [Alloc.removeBlock, setPool_blocks, Alloc.modifyBlock, hacc.1]
    · left; rfl
  · left; rfl

/-- the block list after `JitAllocatorImpl_shrink` on a live span: unchanged (refused) or the block replaced -/
theorem shrink_struct {a : Alloc} {T} {s0 n0 : Nat} {b : Block} (h : AInv a T) (hb : b ∈ a.blocks) (hS : T b.id b.pool s0 n0)
    (newSize : Nat) :
    (n0 < (newSize + a.cfg.poolGran b.pool - 1) / a.cfg.poolGran b.pool ∧ (a.shrinkImpl b.id (s0 * a.cfg.poolGran b.pool) newSize).1 = a) ∨
    ∃ b' : Block, b'.id = b.id ∧ b'.pool = b.pool ∧ b'.blockSize = b.blockSize ∧ b'.areaSize = b.areaSize ∧ b'.pad = b.pad ∧
      b'.areaUsed = b.areaUsed - (n0 - (newSize + a.cfg.poolGran b.pool - 1) / a.cfg.poolGran b.pool) ∧
      (newSize + a.cfg.poolGran b.pool - 1) / a.cfg.poolGran b.pool ≤ n0 ∧
      (a.shrinkImpl b.id (s0 * a.cfg.poolGran b.pool) newSize).1.blocks = (a.blocks.map fun x => if x.id = b.id then b' else x) := by
  have hg := poolGran_pos h.wf b.pool
  obtain ⟨hI, hC⟩ := h.blk b hb
  obtain ⟨i1, i2, i3⟩ := hI.inside s0 n0 hS
  have hidx : s0 * a.cfg.poolGran b.pool / a.cfg.poolGran b.pool = s0 := Nat.mul_div_cancel _ hg
  have he : indexOfStop b.stop s0 + 1 = s0 + n0 := by rw [hI.toBCore.indexOfStop hS]; omega
  have hused : bit b.used s0 = true := (hI.used s0 (by omega)).mpr (Or.inr ⟨s0, n0, hS, by omega, by omega⟩)
  have e1 : s0 + n0 - s0 = n0 := by omega
  simp only [Alloc.shrinkImpl, findBlock_of_mem h.ids hb, hidx, he, hused, e1, Bool.not_true, Bool.false_eq_true, if_false]
  generalize (newSize + a.cfg.poolGran b.pool - 1) / a.cfg.poolGran b.pool = m
  split
  · rename_i hgt0; exact Or.inl ⟨hgt0, rfl⟩
  · rename_i hgt
    right
    by_cases hd : n0 - m = 0
    · simp only [hd, ne_eq, not_true_eq_false, if_false]
      refine ⟨_, ?_, ?_, ?_, ?_, ?_, ?_, by omega, rfl⟩ <;> (split <;> simp [hd])
    · simp only [hd, ne_eq, not_false_eq_true, if_true]
      have e2 : s0 + n0 - (s0 + m) = n0 - m := by omega
      refine ⟨_, ?_, ?_, ?_, ?_, ?_, ?_, by omega, rfl⟩ <;> (split <;> simp [e2])



end AsmjitVerif.JitAlloc
