/-
C18 — ArenaTree::remove, part 11: end-to-end refinement of `removeNode` on the path where the loop stops AT the
node to remove (`f == q`, no `replaceLoop`).
-/
import AsmjitVerif.Lemmas.C18TreeRem10
namespace AsmjitVerif.Tree.Rem
open AsmjitVerif.Tree AsmjitVerif.Tree.Spec

theorem nd_root (h : Tree) (r n : Nat) : nd { h with root := r } n = nd h n := rfl

/-- PARTIAL END-TO-END RESULT (path `f == q`).
    Hypotheses: `Represents h t`, `t.BST`, `node ∈ t.idxs`, `t.height ≤ kFuel`, and the run-time condition that the
    push-down loop stops at the found node itself (`f = q`: the C++ skips the replace loop; this is the case e.g. when
    `node` has no left child when it is reached).  Then `removeNode h node` represents a tree `t'` with
    `t'.keys = setErase (key h node) t.keys`, `t'.BST`, and `t'.idxs` a permutation of `t.idxs.erase node` (exactly the
    passed node leaves, nothing else lost or duplicated), root black.
    MISSING w.r.t. `remove_refines`: the path `f ≠ q` (`replaceLoop`), and `t'.RB` (`noRedRed`, `blackH`). -/
theorem remove_refines_leaf_partial {h : Tree} {t : T} {node : Nat} (hr : Represents h t) (hbst : t.BST)
    (hmem : node ∈ t.idxs) (hfuel : t.height ≤ kFuel)
    (hfq : (removeLoop kFuel node (initState h)).f = (removeLoop kFuel node (initState h)).q) :
    ∃ t', Represents (removeNode h node) t' ∧ t'.keys = setErase (key h node) t.keys ∧ t'.BST ∧
      t'.idxs.Perm (t.idxs.erase node) ∧ t'.isRed = false := by
  obtain ⟨F, up, inv, eio, eidx, ekeys, hrep, hq, hc0, hf⟩ := removeLoop_refines_partial hr hmem hfuel
  generalize hs : removeLoop kFuel node (initState h) = s at *
  -- the bottom node is `node`
  have hF2 : 2 ≤ F.i := inv.repc.1
  have hFn : F.i = node := by
    rcases hf with e | e
    · rw [hfq, hq] at e; omega
    · rw [← e, hfq, hq]
  have hFk : F.k = key h node := by
    rw [← inv.repc.2.2.1, ← inv.hkn, hFn]; rfl
  obtain ⟨ur, us, uk, und, uni, _, _⟩ := unlink_rep inv
  have eR : removeNode h node =
      makeBlack { setChild s.t s.p (child s.t s.p true == s.q) (child s.t s.q (child s.t s.q false == 0)) with
        root := child (setChild s.t s.p (child s.t s.p true == s.q) (child s.t s.q (child s.t s.q false == 0))) 1 true }
        (child (setChild s.t s.p (child s.t s.p true == s.q) (child s.t s.q (child s.t s.q false == 0))) 1 true) := by
    rw [removeNode_eq, hs]
    simp only [ne_eq, hfq, not_true_eq_false, if_false]
  generalize setChild s.t s.p (child s.t s.p true == s.q) (child s.t s.q (child s.t s.q false == 0)) = h' at *
  have hr' : child h' 1 true = (nd h' 1).r := rfl
  rw [hr'] at eR
  generalize hrt : (nd h' 1).r = r at *
  -- the resulting abstract tree
  have hnd2 : (plug up F.sib).idxs.Nodup := (plug_idxs_perm up F.sib).nodup_iff.mpr und
  obtain ⟨L, R, e1, e2⟩ := plug_unlink_io F up
  rw [eio, hFn, hFk] at e1
  have hkeys : t.keys = L.map Prod.snd ++ key h node :: R.map Prod.snd := by
    rw [← T.io_keys, e1]; simp
  have hkeys2 : (plug up F.sib).keys = L.map Prod.snd ++ R.map Prod.snd := by
    rw [← T.io_keys, e2]; simp
  have hidx : t.idxs = L.map Prod.fst ++ node :: R.map Prod.fst := by
    rw [← T.io_idxs, e1]; simp
  have hidx2 : (plug up F.sib).idxs = L.map Prod.fst ++ R.map Prod.fst := by
    rw [← T.io_idxs, e2]; simp
  obtain ⟨se, ss⟩ := setErase_mid (L.map Prod.snd) (R.map Prod.snd) (key h node) (by rw [← hkeys]; exact hbst)
  have hnL : node ∉ L.map Prod.fst := by
    have := hr.2; rw [hidx] at this
    have := (List.nodup_append.mp this).2.2
    intro hm; exact this node hm node (by simp) rfl
  refine ⟨(plug up F.sib).setRed false, ⟨?_, by rw [T.setRed_idxs]; exact hnd2⟩, ?_, ?_, ?_, ?_⟩
  · rw [eR]
    show Rep _ (makeBlack _ r).root _
    rw [makeBlack_eq, root_upd]
    show Rep _ r _
    by_cases hr0 : r = 0
    · have : plug up F.sib = .nil := (Rep.nil_iff ur).mp hr0
      rw [this, hr0]; exact Rep.nil
    · obtain ⟨_, _, _, _, r2, rs, _⟩ := ur.acc hr0
      have ur' : Rep { h' with root := r } r (plug up F.sib) := ur.frame rfl (fun i _ => rfl)
      have rs' : r < ({ h' with root := r } : Tree).nodes.size := rs
      rw [← makeBlack_eq]
      generalize ({ h' with root := r } : Tree) = h2 at ur' rs'
      refine ur'.setRed false (by rw [makeBlack_size]) ?_ ?_ hnd2
      · rw [makeBlack_nd h2 r hr0 rs' r, if_pos rfl]
      · intro i _ hne; rw [makeBlack_nd h2 r hr0 rs' i, if_neg hne]
  · have : ((plug up F.sib).setRed false).keys = (plug up F.sib).keys := by
      rw [← T.io_keys, T.setRed_io, T.io_keys]
    rw [this, hkeys2, hkeys, se]
  · show Sorted ((plug up F.sib).setRed false).keys
    have : ((plug up F.sib).setRed false).keys = (plug up F.sib).keys := by
      rw [← T.io_keys, T.setRed_io, T.io_keys]
    rw [this, hkeys2]; exact ss
  · rw [T.setRed_idxs, hidx2, hidx, List.erase_append_right _ hnL]
    simp
  · cases plug up F.sib <;> rfl

/-- non-vacuity: in `demo` (keys 1 3 4 5 8 9) the node with key 1 (index 5) is removed on the `f == q` path -/
example : (removeLoop kFuel 5 (initState demo)).f = (removeLoop kFuel 5 (initState demo)).q ∧
    inorder 10 (removeNode demo 5) (removeNode demo 5).root = [3, 4, 5, 8, 9] := by decide

end AsmjitVerif.Tree.Rem
