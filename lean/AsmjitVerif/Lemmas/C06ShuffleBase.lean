/- C06 part 2 – basic lemmas: the machine state as an association list, `run` over appended programs, list updates. -/
import AsmjitVerif.Spec.Machine
namespace AsmjitVerif.C06S
open AsmjitVerif.CallConv AsmjitVerif.Shuffle AsmjitVerif.Machine

theorem get_set_self (s : State) (l : Loc) (t : Option Tok) : (s.set l t).get l = t := by
  cases t with
  | none =>
    simp only [State.set, State.get]
    have : (s.filter (fun x => x.1 != l)).find? (fun x => x.1 == l) = none := by
      rw [List.find?_eq_none]; intro x hx; simp at hx; simp [hx.2]
    simp [this]
  | some t => simp [State.set, State.get]

theorem get_set_ne (s : State) (l l' : Loc) (t : Option Tok) (h : l' ≠ l) : (s.set l t).get l' = s.get l' := by
  have hf : (s.filter (fun x => x.1 != l)).find? (fun x => x.1 == l') = s.find? (fun x => x.1 == l') := by
    induction s with
    | nil => rfl
    | cons a s ih =>
      by_cases ha : a.1 = l
      · have h2 : (l == l') = false := by simp; exact fun h' => h h'.symm
        simp [ha, List.find?_cons, h2, ih]
      · simp [ha, List.find?_cons, ih]
  cases t with
  | none => simp only [State.set, State.get, hf]
  | some t =>
    have : (l == l') = false := by simp; exact fun h' => h h'.symm
    simp only [State.set, State.get, List.find?_cons, this, hf]

theorem run_append (vis : List VarInfo) (f : FrameIn) (ar : Arch) : ∀ (p q : List Inst) (s : State),
    run vis f ar s (p ++ q) = (run vis f ar s p).bind fun s' => run vis f ar s' q := by
  intro p
  induction p with
  | nil => intro q s; simp [run]
  | cons i p ih =>
    intro q s
    simp only [List.cons_append, run]
    cases step vis f ar s i with
    | none => simp
    | some s' => simp [ih]

theorem run_push (vis : List VarInfo) (f : FrameIn) (ar : Arch) (p : List Inst) (i : Inst) (s0 s s' : State)
    (h : run vis f ar s0 p = some s) (hs : step vis f ar s i = some s') :
    run vis f ar s0 (p ++ [i]) = some s' := by
  rw [run_append, h]; simp [run, hs]

end AsmjitVerif.C06S
