/- C08: the document of an edit-free run is a sequence of regions (section node + body) with the gap at the end of one of them. -/
import AsmjitVerif.Lemmas.C08Eff
import AsmjitVerif.Lemmas.C08Section

namespace AsmjitVerif.Builder
open Spec

def Region.flat (r : Region) : List Nat := r.node :: r.body
def flatR (rs : List Region) : List Nat := rs.flatMap Region.flat

/-- regions with a focus: the gap is at the end of `cur` -/
structure Zip where
  pre : List Region
  cur : Region
  post : List Region

namespace Zip
def all (z : Zip) : List Region := z.pre ++ z.cur :: z.post
def items (z : Zip) : List Nat := flatR z.pre ++ (z.cur.flat ++ flatR z.post)
def gap (z : Zip) : Nat := (flatR z.pre).length + (1 + z.cur.body.length)
def push (z : Zip) (n : Nat) : Zip := { z with cur := { z.cur with body := z.cur.body ++ [n] } }
end Zip

theorem flatR_append (a b : List Region) : flatR (a ++ b) = flatR a ++ flatR b := by simp [flatR]
theorem flatR_cons (r : Region) (b : List Region) : flatR (r :: b) = r.flat ++ flatR b := by simp [flatR]

theorem Zip.items_all (z : Zip) : flatR z.all = z.items := by
  simp [Zip.all, Zip.items, flatR_append, flatR_cons]

theorem insertIdx_append_length (A B : List Nat) (n : Nat) : (A ++ B).insertIdx A.length n = A ++ n :: B := by
  induction A with
  | nil => simp
  | cons x xs ih => simp [ih]

theorem idxOf_append_mid (A C : List Nat) (x : Nat) (h : x ∉ A) : (A ++ x :: C).idxOf x = A.length := by
  induction A with
  | nil => simp [idxOf_cons_self]
  | cons y ys ih =>
    have hy : y ≠ x := fun e => h (by simp [e])
    have h' : x ∉ ys := fun e => h (List.mem_cons_of_mem _ e)
    simp [idxOf_cons_ne _ hy, ih h']

/-- linking a node at the gap appends it to the focused region -/
theorem zip_insert (d : Doc) (z : Zip) (n : Nat) (hi : d.items = z.items) (hg : d.gap = z.gap) (hn : n ∉ d.items) :
    d.apply (.add n) = { d with items := (z.push n).items, gap := (z.push n).gap } := by
  simp only [Doc.apply]
  rw [if_neg (by simp [Doc.has, hn])]
  have hA : z.items = (flatR z.pre ++ z.cur.flat) ++ flatR z.post := by simp [Zip.items]
  have hlen : z.gap = (flatR z.pre ++ z.cur.flat).length := by simp [Zip.gap, Region.flat]; omega
  rw [hi, hg, hA, hlen, insertIdx_append_length]
  simp [Zip.push, Zip.items, Zip.gap, Region.flat]
  omega

theorem not_mem_of_nodup_mid (A C : List Nat) (x : Nat) (h : (A ++ x :: C).Nodup) : x ∉ A := by
  intro hx
  have := List.nodup_append.mp h
  exact this.2.2 x hx x (by simp) rfl

theorem mem_push (z : Zip) (n x : Nat) : x ∈ (z.push n).items ↔ x ∈ z.items ∨ x = n := by
  simp only [Zip.push, Zip.items, Region.flat, List.mem_append, List.mem_cons]
  constructor
  · rintro (h | (h | h | h) | h)
    · exact Or.inl (Or.inl h)
    · exact Or.inl (Or.inr (Or.inl (Or.inl h)))
    · exact Or.inl (Or.inr (Or.inl (Or.inr h)))
    · simp at h; exact Or.inr h
    · exact Or.inl (Or.inr (Or.inr h))
  · rintro ((h | (h | h) | h) | h)
    · exact Or.inl h
    · exact Or.inr (Or.inl (Or.inl h))
    · exact Or.inr (Or.inl (Or.inr (Or.inl h)))
    · exact Or.inr (Or.inr h)
    · exact Or.inr (Or.inl (Or.inr (Or.inr (by simp [h]))))

/-- `section` on a linked section node: the gap goes to the end of that node's region -/
theorem zip_reenter (d : Doc) (L R : List Region) (r : Region)
    (hi : d.items = flatR (L ++ r :: R)) (hd : d.items.Nodup) (hsec : d.isSec r.node = true)
    (hbody : ∀ b ∈ r.body, d.isSec b = false) (hR : ∀ r' ∈ R, d.isSec r'.node = true) :
    d.apply (.section r.node) = { d with gap := (Zip.mk L r R).gap } := by
  have hitems : d.items = flatR L ++ r.node :: (r.body ++ flatR R) := by
    rw [hi, flatR_append, flatR_cons]; simp [Region.flat]
  have hnL : r.node ∉ flatR L := not_mem_of_nodup_mid _ _ _ (hitems ▸ hd)
  have hpos : d.items.idxOf r.node = (flatR L).length := by rw [hitems]; exact idxOf_append_mid _ _ _ hnL
  have hmem : r.node ∈ d.items := by rw [hitems]; simp
  have hdrop : d.items.drop (d.items.idxOf r.node + 1) = r.body ++ flatR R := by
    rw [hpos, hitems]
    rw [show (flatR L).length + 1 = (flatR L ++ [r.node]).length by simp]
    rw [show flatR L ++ r.node :: (r.body ++ flatR R) = (flatR L ++ [r.node]) ++ (r.body ++ flatR R) by simp]
    exact List.drop_left
  have hfb : r.body.find? d.isSec = none := by
    rw [List.find?_eq_none]; intro b hb; simp [hbody b hb]
  simp only [Doc.apply]
  rw [if_neg (by simp [hsec]), if_neg (by simp [Doc.has, hmem])]
  simp only [Doc.pos, hdrop, List.find?_append, hfb, Option.none_or]
  cases R with
  | nil =>
    simp only [flatR, List.flatMap_nil, List.find?_nil]
    congr 1
    rw [hitems]; simp [Zip.gap, flatR]; omega
  | cons r2 R' =>
    have h2 := hR r2 (by simp)
    simp only [flatR_cons, Region.flat, List.cons_append, List.find?_cons, h2]
    congr 1
    have hitems2 : d.items = (flatR L ++ r.node :: r.body) ++ r2.node :: (r2.body ++ flatR R') := by
      rw [hitems, flatR_cons]; simp [Region.flat]
    have hn2 : r2.node ∉ flatR L ++ r.node :: r.body := not_mem_of_nodup_mid _ _ _ (hitems2 ▸ hd)
    rw [hitems2, idxOf_append_mid _ _ _ hn2]
    simp [Zip.gap]; omega

/-- `section` on a new section node (just registered, not linked): a new region at the end -/
theorem zip_new (d : Doc) (z : Zip) (s n : Nat) (hi : d.items = z.items) (hn : n ∉ d.items) :
    [Act.regSection n, Act.section n].foldl Doc.apply d =
      { d with items := (Zip.mk z.all ⟨s, n, []⟩ []).items, gap := (Zip.mk z.all ⟨s, n, []⟩ []).gap,
               secNodes := n :: d.secNodes } := by
  have h1 : d.apply (.regSection n) = { d with secNodes := n :: d.secNodes } := by simp [Doc.apply, Doc.has, hn]
  simp only [List.foldl_cons, List.foldl_nil, h1]
  simp only [Doc.apply]
  rw [if_neg (by simp [Doc.isSec]), if_pos (by simp [Doc.has, hn])]
  have e1 : (Zip.mk z.all ⟨s, n, []⟩ []).items = d.items ++ [n] := by
    simp only [Zip.items, Region.flat]; rw [Zip.items_all, ← hi]; simp [flatR]
  have e2 : (Zip.mk z.all ⟨s, n, []⟩ []).gap = d.items.length + 1 := by
    simp only [Zip.gap]; rw [Zip.items_all, ← hi]; simp
  rw [e1, e2]

end AsmjitVerif.Builder
