/- C06 part 2 – finite cores for every register group: float / double / vector variables in vector registers, opmask variables in k registers and
   `__m64` variables in mm registers satisfy the selection hypotheses of `shuffle_correct_regs`, like integers in GP registers. -/
import AsmjitVerif.Lemmas.C06ShuffleInt
namespace AsmjitVerif.C06S
open AsmjitVerif.CallConv AsmjitVerif.Shuffle AsmjitVerif.Machine

/-- float, double and every vector TypeId (4 … 64 bytes) -/
def fvTys : List Nat := [42, 43] ++ (List.range 50).map (· + 51)
def maskTys : List Nat := [45, 46, 47, 48]
def mmTys : List Nat := [49, 50]

/-! ### x86: the selection for a register source reads the configuration only through `avx`, and the destination register type only
    when the destination type is an integer / mmx / mask type or absent -/
theorem x86Sel_cfg (c : Cfg) (rtD dt rtS st : Nat) :
    x86Sel c rtD dt (.reg rtS) st = x86Sel { arch := .x64, avx := c.avx } rtD dt (.reg rtS) st := by
  unfold x86Sel v
  simp only [SrcKind.isMem, Bool.false_and, Bool.or_false, Bool.not_false]

theorem x86Sel_vec_dst (c : Cfg) (rtD dt rtS st : Nat) (h0 : dt ≠ 0) (h1 : isInt dt = false) (h2 : isMmx dt = false)
    (h3 : isMask dt = false) :
    x86Sel c rtD dt (.reg rtS) st = x86Sel c 11 dt (.reg rtS) st := by
  unfold x86Sel
  simp only [h0, h1, h2, h3, if_false, Bool.false_eq_true]

theorem selOkTok_cfg (c : Cfg) (vis : List VarInfo) (rtD tD rtS tS : Nat) (tok : Tok) :
    selOkTok c vis rtD tD rtS tS tok = selOkTok { arch := .x64, avx := c.avx } vis rtD tD rtS tS tok := by
  unfold selOkTok
  rw [x86Sel_cfg]

theorem selOkTok_vec_dst (c : Cfg) (vis : List VarInfo) (rtD tD rtS tS : Nat) (tok : Tok) (h0 : tD ≠ 0) (h1 : isInt tD = false)
    (h2 : isMmx tD = false) (h3 : isMask tD = false) (hg : groupOf rtD = 1) :
    selOkTok c vis rtD tD rtS tS tok = selOkTok c vis 11 tD rtS tS tok := by
  unfold selOkTok
  rw [x86Sel_vec_dst c rtD tD rtS tS h0 h1 h2 h3]
  have : groupOf 11 = 1 := by decide
  simp only [hg, this]

theorem a64Sel_dst (rtD dt : Nat) (k : SrcKind) (st : Nat) (h0 : dt ≠ 0) : a64Sel rtD dt k st = a64Sel 11 dt k st := by
  unfold a64Sel
  simp only [h0, if_false]

theorem selOkTokA_dst (vis : List VarInfo) (rtD tD rtS tS : Nat) (tok : Tok) (h0 : tD ≠ 0) (hg : groupOf rtD = 1) :
    selOkTokA vis rtD tD rtS tS tok = selOkTokA vis 11 tD rtS tS tok := by
  unfold selOkTokA
  rw [a64Sel_dst rtD tD _ tS h0]
  have : groupOf 11 = 1 := by decide
  simp only [hg, this]

theorem fv_facts : ∀ t ∈ fvTys, t ≠ 0 ∧ isInt t = false ∧ isMmx t = false ∧ isMask t = false := by decide

/-- finite core, x86 vector group (both `avx` settings; destination register type fixed by `selOkTok_vec_dst`) -/
theorem x86_vec_core : ∀ avx ∈ [false, true], ∀ dt ∈ fvTys, ∀ st ∈ fvTys, ∀ rt ∈ [11, 12, 13],
    selOkTok { arch := .x64, avx := avx } [⟨st, dt⟩] 11 dt rt st ⟨0, true, (⟨st, dt⟩ : VarInfo).required == .none⟩ = true ∧
    selOkTok { arch := .x64, avx := avx } [⟨st, dt⟩] 11 dt rt dt ⟨0, false, true⟩ = true ∧
    selOkTok { arch := .x64, avx := avx } [⟨st, dt⟩] 11 dt rt dt ⟨0, true, true⟩ = true := by
  decide +kernel

/-- finite core, AArch64 vector group -/
theorem a64_vec_core : ∀ dt ∈ fvTys, ∀ st ∈ fvTys, ∀ rt ∈ [7, 8, 9, 10, 11],
    selOkTokA [⟨st, dt⟩] 11 dt rt st ⟨0, true, (⟨st, dt⟩ : VarInfo).required == .none⟩ = true ∧
    selOkTokA [⟨st, dt⟩] 11 dt rt dt ⟨0, false, true⟩ = true ∧
    selOkTokA [⟨st, dt⟩] 11 dt rt dt ⟨0, true, true⟩ = true := by
  decide +kernel

/-- finite core, x86 opmask and mm groups -/
theorem x86_mask_mm_core : ∀ avx ∈ [false, true],
    (∀ dt ∈ maskTys, ∀ st ∈ maskTys,
      selOkTok { arch := .x64, avx := avx } [⟨st, dt⟩] 16 dt 16 st ⟨0, true, (⟨st, dt⟩ : VarInfo).required == .none⟩ = true ∧
      selOkTok { arch := .x64, avx := avx } [⟨st, dt⟩] 16 dt 16 dt ⟨0, false, true⟩ = true ∧
      selOkTok { arch := .x64, avx := avx } [⟨st, dt⟩] 16 dt 16 dt ⟨0, true, true⟩ = true) ∧
    (∀ dt ∈ mmTys, ∀ st ∈ mmTys,
      selOkTok { arch := .x64, avx := avx } [⟨st, dt⟩] 28 dt 28 st ⟨0, true, (⟨st, dt⟩ : VarInfo).required == .none⟩ = true ∧
      selOkTok { arch := .x64, avx := avx } [⟨st, dt⟩] 28 dt 28 dt ⟨0, false, true⟩ = true ∧
      selOkTok { arch := .x64, avx := avx } [⟨st, dt⟩] 28 dt 28 dt ⟨0, true, true⟩ = true) := by
  decide +kernel

end AsmjitVerif.C06S
