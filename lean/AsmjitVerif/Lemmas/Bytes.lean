/- Little-endian byte-buffer lemmas for `loadLE` / `storeLE` (Model/Offset.lean): a store changes exactly its
   `n` bytes, keeps the length, and a load after it returns the stored value. Core-only. -/
import AsmjitVerif.Model.Offset
namespace AsmjitVerif.Offset

theorem storeLE_length (n : Nat) : ∀ (buf : Bytes) (pos v : Nat) (buf' : Bytes),
    storeLE buf pos v n = some buf' → buf'.length = buf.length := by
  induction n with
  | zero => intro buf pos v buf' h; simp [storeLE] at h; subst h; rfl
  | succ n ih =>
    intro buf pos v buf' h
    simp only [storeLE] at h
    split at h
    · have := ih _ _ _ _ h
      simpa using this
    · cases h

theorem storeLE_outside (n : Nat) : ∀ (buf : Bytes) (pos v : Nat) (buf' : Bytes),
    storeLE buf pos v n = some buf' → ∀ i, (i < pos ∨ pos + n ≤ i) → buf'[i]? = buf[i]? := by
  induction n with
  | zero => intro buf pos v buf' h i _; simp [storeLE] at h; subst h; rfl
  | succ n ih =>
    intro buf pos v buf' h i hi
    simp only [storeLE] at h
    split at h
    · have h1 := ih _ _ _ _ h i (by omega)
      rw [h1]
      have : pos ≠ i := by omega
      simp [List.getElem?_set, this]
    · cases h

theorem loadLE_congr (n : Nat) : ∀ (a b : Bytes) (pos : Nat),
    (∀ i, pos ≤ i → i < pos + n → a[i]? = b[i]?) → loadLE a pos n = loadLE b pos n := by
  induction n with
  | zero => intros; rfl
  | succ n ih =>
    intro a b pos h
    simp only [loadLE]
    rw [h pos (Nat.le_refl _) (by omega), ih a b (pos + 1) (fun i h1 h2 => h i (by omega) (by omega))]

theorem loadLE_storeLE (n : Nat) : ∀ (buf : Bytes) (pos v : Nat) (buf' : Bytes),
    storeLE buf pos v n = some buf' → loadLE buf' pos n = some (v % 256 ^ n) := by
  induction n with
  | zero => intro buf pos v buf' h; simp [loadLE, Nat.mod_one]
  | succ n ih =>
    intro buf pos v buf' h
    simp only [storeLE] at h
    split at h
    · rename_i hlt
      have h1 := ih _ _ _ _ h
      have h2 := storeLE_outside n _ _ _ _ h pos (Or.inl (Nat.lt_succ_self _))
      simp only [loadLE, h1, h2]
      simp only [List.getElem?_set, hlt, if_true]
      simp only [BitVec.toNat_ofNat]
      congr 1
      have e : 256 ^ (n + 1) = 256 * 256 ^ n := by rw [Nat.pow_succ, Nat.mul_comm]
      rw [e, Nat.mod_mul]
    · cases h

theorem loadLE_lt (n : Nat) : ∀ (buf : Bytes) (pos x : Nat), loadLE buf pos n = some x → x < 256 ^ n := by
  induction n with
  | zero => intro buf pos x h; simp [loadLE] at h; subst h; simp
  | succ n ih =>
    intro buf pos x h
    simp only [loadLE] at h
    split at h
    · rename_i b r hb hr
      cases h
      have := ih _ _ _ hr
      have hb' : b.toNat < 256 := b.isLt
      rw [Nat.pow_succ]; omega
    · cases h

/-! lemmas added for C03/C04 (sub-agent) -/


/-- bytes outside `[pos, pos + n)` are untouched by a store -/
theorem storeLE_frame (n : Nat) : ∀ (buf : Bytes) (pos v : Nat) (buf' : Bytes), storeLE buf pos v n = some buf' →
    ∀ i, (i < pos ∨ pos + n ≤ i) → buf'[i]? = buf[i]? := by
  induction n with
  | zero => intro buf pos v buf' h i _; simp [storeLE] at h; subst h; rfl
  | succ k ih =>
    intro buf pos v buf' h i hi
    simp only [storeLE] at h
    split at h
    · rw [ih _ _ _ _ h i (by omega)]
      rw [List.getElem?_set_ne (by omega)]
    · cases h

/-- loads at positions disjoint from a store are unchanged -/
theorem loadLE_storeLE_disjoint (m : Nat) : ∀ (buf : Bytes) (pos v n : Nat) (buf' : Bytes) (q : Nat),
    storeLE buf pos v n = some buf' → (q + m ≤ pos ∨ pos + n ≤ q) → loadLE buf' q m = loadLE buf q m := by
  induction m with
  | zero => intros; simp [loadLE]
  | succ k ih =>
    intro buf pos v n buf' q h hd
    simp only [loadLE]
    rw [storeLE_frame n _ _ _ _ h q (by omega), ih _ _ _ _ _ (q + 1) h (by omega)]

end AsmjitVerif.Offset
