/-
C18 — ArenaTree::remove, part 1: heap algebra (`nd`/`upd`), frame lemmas for `Rep`, contexts (zippers) and the
heap-level characterisation of `_single_rotate` / `_double_rotate`.
-/
import AsmjitVerif.Spec.C18Tree
namespace AsmjitVerif.Tree.Rem
open AsmjitVerif.Tree AsmjitVerif.Tree.Spec

/-! ### heap algebra -/

theorem nd_upd (h : Tree) (n m : Nat) (f : TNode → TNode) :
    nd (upd h n f) m = if m = n ∧ n ≠ 0 ∧ n < h.nodes.size then f (nd h n) else nd h m := by
  unfold upd nd
  by_cases h0 : n = 0
  · simp [h0]
  · simp only [h0, if_false]
    by_cases hm : m = n
    · subst hm
      by_cases hs : m < h.nodes.size
      · simp [Array.getD, hs, Array.getElem_modify, h0]
      · simp [Array.getD, hs]
    · simp [Array.getD, hm, Array.getElem_modify]
      by_cases hs : m < h.nodes.size
      · simp [hs]; intro e; exact absurd e.symm hm
      · simp [hs]

theorem size_upd (h : Tree) (n : Nat) (f : TNode → TNode) : (upd h n f).nodes.size = h.nodes.size := by
  unfold upd; split <;> simp

theorem root_upd (h : Tree) (n : Nat) (f : TNode → TNode) : (upd h n f).root = h.root := by
  unfold upd; split <;> simp

/-- write / read one link of a node record -/
def setC (x : TNode) (d : Bool) (c : Nat) : TNode := if d then { x with r := c } else { x with l := c }
def getC (x : TNode) (d : Bool) : Nat := if d then x.r else x.l

theorem child_eq (h : Tree) (n : Nat) (d : Bool) : child h n d = getC (nd h n) d := rfl
theorem setChild_eq (h : Tree) (n : Nat) (d : Bool) (c : Nat) : setChild h n d c = upd h n (fun x => setC x d c) := rfl

@[simp] theorem getC_setC_same (x : TNode) (d : Bool) (c : Nat) : getC (setC x d c) d = c := by cases d <;> rfl
@[simp] theorem getC_setC_not (x : TNode) (d : Bool) (c : Nat) : getC (setC x d c) (!d) = getC x (!d) := by cases d <;> rfl
@[simp] theorem getC_setC_not' (x : TNode) (d : Bool) (c : Nat) : getC (setC x (!d) c) d = getC x d := by cases d <;> rfl
@[simp] theorem key_setC (x : TNode) (d : Bool) (c : Nat) : (setC x d c).key = x.key := by cases d <;> rfl
@[simp] theorem red_setC (x : TNode) (d : Bool) (c : Nat) : (setC x d c).red = x.red := by cases d <;> rfl
def setR (x : TNode) (b : Bool) : TNode := { x with red := b }
@[simp] theorem getC_setR (x : TNode) (d b : Bool) : getC (setR x b) d = getC x d := by cases d <;> rfl
@[simp] theorem key_setR (x : TNode) (b : Bool) : (setR x b).key = x.key := rfl
@[simp] theorem red_setR (x : TNode) (b : Bool) : (setR x b).red = b := rfl
@[simp] theorem l_setR (x : TNode) (b : Bool) : (setR x b).l = x.l := rfl
@[simp] theorem r_setR (x : TNode) (b : Bool) : (setR x b).r = x.r := rfl
theorem makeRed_eq (h : Tree) (n : Nat) : makeRed h n = upd h n (fun x => setR x true) := rfl
theorem makeBlack_eq (h : Tree) (n : Nat) : makeBlack h n = upd h n (fun x => setR x false) := rfl

/-! ### abstract helpers -/

def _root_.AsmjitVerif.Tree.Spec.T.child : T → Bool → T
  | .nil, _ => .nil
  | .node _ _ _ l r, d => if d then r else l

/-- node whose `d` child is `a` and whose `!d` child is `b` -/
def mkT (i k : Nat) (c : Bool) (d : Bool) (a b : T) : T := if d then .node i k c b a else .node i k c a b

/-! ### frame lemma for `Rep` -/

theorem _root_.AsmjitVerif.Tree.Spec.Rep.frame {h h' : Tree} {n : Nat} {t : T} (hr : Rep h n t) (hs : h'.nodes.size = h.nodes.size)
    (hn : ∀ i ∈ t.idxs, nd h' i = nd h i) : Rep h' n t := by
  induction hr with
  | nil => exact Rep.nil
  | @node n k c L R h2 hlt hk hc _ _ ihL ihR =>
    have e : nd h' n = nd h n := hn n (by simp [T.idxs])
    refine Rep.node h2 (hs ▸ hlt) (e ▸ hk) (e ▸ hc) ?_ ?_
    · rw [e]; exact ihL (fun i hi => hn i (by simp [T.idxs, hi]))
    · rw [e]; exact ihR (fun i hi => hn i (by simp [T.idxs, hi]))

theorem _root_.AsmjitVerif.Tree.Spec.Rep.rootIdx {h : Tree} {n : Nat} {t : T} (hr : Rep h n t) : t.rootIdx = n := by
  cases hr <;> rfl

theorem _root_.AsmjitVerif.Tree.Spec.Rep.ge2 {h : Tree} {n : Nat} {t : T} (hr : Rep h n t) : ∀ i ∈ t.idxs, 2 ≤ i ∧ i < h.nodes.size := by
  induction hr with
  | nil => intro i hi; simp [T.idxs] at hi
  | @node n k c L R h2 hlt hk hc _ _ ihL ihR =>
    intro i hi
    simp only [T.idxs, List.mem_append, List.mem_cons] at hi
    rcases hi with hi | rfl | hi
    · exact ihL i hi
    · exact ⟨h2, hlt⟩
    · exact ihR i hi

theorem _root_.AsmjitVerif.Tree.Spec.Rep.nil_iff {h : Tree} {n : Nat} {t : T} (hr : Rep h n t) : n = 0 ↔ t = .nil := by
  cases hr with
  | nil => simp
  | node h2 => constructor
               · intro e; omega
               · intro e; cases e

/-- inversion in `mkT` form -/
theorem _root_.AsmjitVerif.Tree.Spec.Rep.inv {h : Tree} {n i k : Nat} {c : Bool} {L R : T} (hr : Rep h n (.node i k c L R)) :
    n = i ∧ 2 ≤ i ∧ i < h.nodes.size ∧ (nd h i).key = k ∧ (nd h i).red = c ∧ Rep h (nd h i).l L ∧ Rep h (nd h i).r R := by
  cases hr with
  | node h2 hlt hk hc hL hR => exact ⟨rfl, h2, hlt, hk, hc, hL, hR⟩

theorem _root_.AsmjitVerif.Tree.Spec.Rep.mk {h : Tree} {i k : Nat} {c d : Bool} {A B : T} (h2 : 2 ≤ i) (hlt : i < h.nodes.size)
    (hk : (nd h i).key = k) (hc : (nd h i).red = c) (hA : Rep h (getC (nd h i) d) A) (hB : Rep h (getC (nd h i) (!d)) B) :
    Rep h i (mkT i k c d A B) := by
  cases d
  · exact Rep.node h2 hlt hk hc hA hB
  · exact Rep.node h2 hlt hk hc hB hA

/-! ### contexts -/

structure Frame where
  i : Nat
  k : Nat
  c : Bool
  d : Bool
  sib : T
  deriving Repr, DecidableEq

/-- plug a subtree into a context (innermost frame first) -/
def plug : List Frame → T → T
  | [], s => s
  | F :: up, s => plug up (mkT F.i F.k F.c F.d s F.sib)

/-- index of the node owning the hole (`head` = 1 for the empty context), its direction, and the hole pointer -/
def pIdx : List Frame → Nat
  | [] => 1
  | F :: _ => F.i
def dirOf : List Frame → Bool
  | [] => true
  | F :: _ => F.d
def holeptr (h : Tree) (ctx : List Frame) : Nat := getC (nd h (pIdx ctx)) (dirOf ctx)

def RepC (h : Tree) : List Frame → Prop
  | [] => True
  | F :: up => 2 ≤ F.i ∧ F.i < h.nodes.size ∧ (nd h F.i).key = F.k ∧ (nd h F.i).red = F.c ∧
      Rep h (getC (nd h F.i) (!F.d)) F.sib ∧ holeptr h up = F.i ∧ RepC h up

/-- all indices mentioned by a context -/
def ctxIdxs : List Frame → List Nat
  | [] => []
  | F :: up => F.i :: (F.sib.idxs ++ ctxIdxs up)

theorem RepC.frame {h h' : Tree} {ctx : List Frame} (hr : RepC h ctx) (hs : h'.nodes.size = h.nodes.size)
    (h1 : nd h' 1 = nd h 1) (hn : ∀ i ∈ ctxIdxs ctx, nd h' i = nd h i) : RepC h' ctx := by
  induction ctx with
  | nil => trivial
  | cons F up ih =>
    obtain ⟨a, b, c, d, e, f, g⟩ := hr
    have eF : nd h' F.i = nd h F.i := hn F.i (by simp [ctxIdxs])
    have hup : ∀ i ∈ ctxIdxs up, nd h' i = nd h i := fun i hi => hn i (by simp [ctxIdxs, hi])
    refine ⟨a, hs ▸ b, eF ▸ c, eF ▸ d, ?_, ?_, ih g hup⟩
    · rw [eF]; exact e.frame hs (fun i hi => hn i (by simp [ctxIdxs, hi]))
    · unfold holeptr at f ⊢
      cases up with
      | nil => simpa [pIdx, dirOf, h1] using f
      | cons G up' =>
        have eG : nd h' G.i = nd h G.i := hup G.i (by simp [ctxIdxs])
        simpa [pIdx, dirOf, eG] using f

/-- reassembly: a represented subtree in a represented context is a represented tree -/
theorem RepC.plug {h : Tree} {ctx : List Frame} {s : T} (hc : RepC h ctx) (hs : Rep h (holeptr h ctx) s) :
    Rep h (nd h 1).r (plug ctx s) := by
  induction ctx generalizing s with
  | nil => simpa [holeptr, pIdx, dirOf, getC, Rem.plug] using hs
  | cons F up ih =>
    obtain ⟨a, b, c, d, e, f, g⟩ := hc
    simp only [Rem.plug]
    apply ih g
    rw [f]
    exact Rep.mk a b c d (by simpa [holeptr, pIdx, dirOf] using hs) e

theorem plug_idxs_perm (ctx : List Frame) (s : T) : (plug ctx s).idxs.Perm (s.idxs ++ ctxIdxs ctx) := by
  induction ctx generalizing s with
  | nil => simp [plug, ctxIdxs]
  | cons F up ih =>
    simp only [plug, ctxIdxs]
    refine (ih _).trans ?_
    have : (mkT F.i F.k F.c F.d s F.sib).idxs.Perm (s.idxs ++ F.i :: F.sib.idxs) := by
      unfold mkT; cases F.d
      · simp [T.idxs]
      · simp only [T.idxs, if_true]
        refine List.perm_append_comm.trans ?_
        simpa using (List.perm_middle (a := F.i) (l₁ := s.idxs) (l₂ := F.sib.idxs)).symm
    simpa [List.append_assoc] using this.append_right (ctxIdxs up)


/-! ### heap-level characterisation of the rotations -/

theorem singleRotate_nd (h : Tree) (r : Nat) (d : Bool) (s : Nat) (hs : getC (nd h r) (!d) = s)
    (hr0 : r ≠ 0) (hrs : r < h.nodes.size) (hs0 : s ≠ 0) (hss : s < h.nodes.size) (hne : s ≠ r) :
    (singleRotate h r d).2 = s ∧ (singleRotate h r d).1.nodes.size = h.nodes.size ∧
    (singleRotate h r d).1.root = h.root ∧
    ∀ n, nd (singleRotate h r d).1 n =
      if n = s then setR (setC (nd h s) d r) false
      else if n = r then setR (setC (nd h r) (!d) (getC (nd h s) d)) true
      else nd h n := by
  subst hs
  refine ⟨rfl, ?_, ?_, ?_⟩
  · simp only [singleRotate, setChild_eq, makeRed_eq, makeBlack_eq, size_upd]
  · simp only [singleRotate, setChild_eq, makeRed_eq, makeBlack_eq, root_upd]
  · intro n
    simp only [singleRotate, setChild_eq, makeRed_eq, makeBlack_eq, nd_upd, size_upd, child_eq]
    by_cases h1 : n = getC (nd h r) (!d)
    · subst h1; simp [hne, hs0, hss, hr0, hrs]
    · by_cases h2 : n = r
      · subst h2; simp [h1, hr0, hrs]
      · simp [h1, h2]

theorem doubleRotate_nd (h : Tree) (p : Nat) (d : Bool) (s x : Nat) (hs : getC (nd h p) (!d) = s)
    (hx : getC (nd h s) d = x)
    (hp0 : p ≠ 0) (hps : p < h.nodes.size) (hs0 : s ≠ 0) (hss : s < h.nodes.size)
    (hx0 : x ≠ 0) (hxs : x < h.nodes.size) (hsp : s ≠ p) (hxp : x ≠ p) (hxs' : x ≠ s) :
    (doubleRotate h p d).2 = x ∧ (doubleRotate h p d).1.nodes.size = h.nodes.size ∧
    (doubleRotate h p d).1.root = h.root ∧
    ∀ n, nd (doubleRotate h p d).1 n =
      if n = x then setR (setC (setC (nd h x) (!d) s) d p) false
      else if n = s then setR (setC (nd h s) d (getC (nd h x) (!d))) true
      else if n = p then setR (setC (nd h p) (!d) (getC (nd h x) d)) true
      else nd h n := by
  have hx' : getC (nd h s) (!(!d)) = x := by simpa using hx
  obtain ⟨a1, a2, a3, a4⟩ := singleRotate_nd h s (!d) x hx' hs0 hss hx0 hxs hxs'
  have e1 : doubleRotate h p d =
      singleRotate (setChild (singleRotate h s (!d)).1 p (!d) (singleRotate h s (!d)).2) p d := by
    simp only [doubleRotate, child_eq, hs]
  rw [e1, a1]
  generalize (singleRotate h s (!d)).1 = h1 at a2 a3 a4
  have b4 : ∀ n, nd (setChild h1 p (!d) x) n = if n = p then setC (nd h1 p) (!d) x else nd h1 n := by
    intro n; simp only [setChild_eq, nd_upd, a2]
    by_cases hn : n = p <;> simp [hn, hp0, hps]
  have b2 : (setChild h1 p (!d) x).nodes.size = h.nodes.size := by simp only [setChild_eq, size_upd, a2]
  have b3 : (setChild h1 p (!d) x).root = h.root := by simp only [setChild_eq, root_upd, a3]
  generalize setChild h1 p (!d) x = h2 at b2 b3 b4
  have hpx : getC (nd h2 p) (!d) = x := by
    rw [b4 p, a4 p]; simp [Ne.symm hxp, Ne.symm hsp]
  obtain ⟨c1, c2, c3, c4⟩ := singleRotate_nd h2 p d x hpx hp0 (b2 ▸ hps) hx0 (b2 ▸ hxs) hxp
  refine ⟨c1, c2.trans b2, c3.trans b3, ?_⟩
  intro n
  rw [c4 n]
  by_cases h1 : n = x
  · subst h1; simp [b4, a4, hxp]; cases d <;> simp [setC, setR]
  · by_cases h2' : n = s
    · subst h2'; simp [b4, a4, h1, hsp, hxs']
    · by_cases h3 : n = p
      · subst h3; simp [b4, a4, h1, h2', hxp]; cases d <;> simp [setC, getC, setR]
      · simp [b4, a4, h1, h2', h3]

end AsmjitVerif.Tree.Rem
