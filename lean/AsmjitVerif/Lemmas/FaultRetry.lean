/- C15 helper lemmas, part 4: the retry protocol converges to the failure-free spec. -/
import AsmjitVerif.Lemmas.FaultAcct
namespace AsmjitVerif.Fault
open AsmjitVerif
set_option maxHeartbeats 800000

/-- the operations whose failure is atomic -/
def Op.atomic : Op → Bool
  | .addAddr _ => false
  | _ => true

theorem step_oom_atomic (op : Op) (o o' : Oracle) (s s' : St) (hop : op.atomic = true)
    (h : step op o s = (o', s', .oom)) : s'.v = s.v := by
  cases op <;> simp only [step] at h
  case newSection n a r => exact newSection_oom _ _ _ _ _ _ _ h
  case newLabel => exact newLabel_oom _ _ _ _ h
  case newNamed n t p => exact newNamed_oom _ _ _ _ _ _ _ h
  case newReloc t => exact newReloc_oom _ _ _ _ _ h
  case exprReloc => exact exprReloc_oom _ _ _ _ h
  case newFixup => exact newFixup_oom _ _ _ _ h
  case freeFixup => exact freeFixup_oom _ _ _ _ h
  case addAddr a => simp [Op.atomic] at hop
  case emit a b => exact emit_oom _ _ _ _ _ _ h
  case inst a b => exact inst_oom _ _ _ _ _ _ h
  case jmpf a => exact jmpf_oom _ _ _ _ _ h
  case vappend x => exact vappend_oom _ _ _ _ _ h
  case vreserve n => exact vreserve_oom _ _ _ _ _ h
  case sappend n c => exact sappend_oom _ _ _ _ _ _ h

/-- a failed `add_address_to_address_table`: nothing changed, or exactly the empty address table section was created (and
then there was none before and the address is new) -/
theorem addAddr_oom (a : Nat) (o o' : Oracle) (s s' : St) (h : addAddr o s a = (o', s', .oom)) :
    ¬ a ∈ s.v.addrs ∧ (s'.v = s.v ∨ (s.v.addrTab = none ∧ s'.v = withAddrTab s.v)) := by
  unfold addAddr at h
  split at h
  · cases h
  · rename_i hc
    refine ⟨by simpa using hc, ?_⟩
    have hs := ensureAddrTab_spec o s
    generalize ensureAddrTab o s = r at h hs
    obtain ⟨o1, s1, oid⟩ := r
    unfold addAddrTail at h
    simp only at h hs
    rcases hs with ⟨rfl, hv, _⟩ | ⟨id, rfl, hat, hv⟩ | ⟨rfl, hat, hv⟩
    · simp only at h; cases h; left; exact hv
    · simp only at h
      split at h
      · cases h; left; exact hv
      · cases h
    · simp only at h
      split at h
      · cases h; right; exact ⟨hat, hv⟩
      · cases h

/-- states a sequence of failed attempts of `op` can reach from a state with view `v` -/
def Mid (op : Op) (v v' : View) : Prop :=
  v' = v ∨ ∃ a, op = .addAddr a ∧ v.addrTab = none ∧ ¬ a ∈ v.addrs ∧ v' = withAddrTab v

theorem step_oom_mid (op : Op) (v : View) (o o' : Oracle) (s s' : St) (hm : Mid op v s.v)
    (h : step op o s = (o', s', .oom)) : Mid op v s'.v := by
  by_cases hop : op.atomic = true
  · have := step_oom_atomic op o o' s s' hop h
    rw [this]; exact hm
  · cases op <;> simp [Op.atomic] at hop
    rename_i a
    simp only [step] at h
    have ⟨hna, hv⟩ := addAddr_oom a o o' s s' h
    rcases hm with hm | ⟨a', ha', hat, hna', hm⟩
    · rcases hv with hv | ⟨hat, hv⟩
      · left; rw [hv, hm]
      · right; exact ⟨a, rfl, hm ▸ hat, hm ▸ hna, by rw [hv, hm]⟩
    · rcases hv with hv | ⟨hat', hv⟩
      · right; exact ⟨a', ha', hat, hna', by rw [hv, hm]⟩
      · rw [hm] at hat'; simp [withAddrTab] at hat'

theorem mid_spec (op : Op) (v v' : View) (hm : Mid op v v') : specStep op v' = specStep op v := by
  rcases hm with rfl | ⟨a, rfl, hat, hna, rfl⟩
  · rfl
  · have h1 : ¬ a ∈ (withAddrTab v).addrs := by simpa [withAddrTab, commitSection] using hna
    simp [specStep, specAddAddr, hna, h1, hat]
    simp [withAddrTab, commitSection_eq_spec]

theorem retry_spec : ∀ (fuel : Nat) (op : Op) (v : View) (o o' : Oracle) (s s' : St) (e : Err),
    Mid op v s.v → faults o ≤ fuel → retry fuel op o s = (o', s', e) →
    e ≠ .oom ∧ (s'.v, e) = specStep op v
  | 0, op, v, o, o', s, s', e, hm, hf, h => by
    unfold retry at h
    have hacc := step_faults op o o' s s' e h
    have he : e ≠ .oom := by
      intro he; have := hacc.2 he; omega
    exact ⟨he, by rw [step_ref op o o' s s' e h he, mid_spec op v s.v hm]⟩
  | fuel + 1, op, v, o, o', s, s', e, hm, hf, h => by
    unfold retry at h
    generalize hst : step op o s = r at h
    obtain ⟨o1, s1, e1⟩ := r
    have hacc := step_faults op o o1 s s1 e1 hst
    by_cases he1 : e1 = .oom
    · subst he1
      simp only at h
      have hlt := hacc.2 rfl
      exact retry_spec fuel op v o1 o' s1 s' e (step_oom_mid op v o o1 s s1 hm hst) (by omega) h
    · have h2 : (o1, s1, e1) = (o', s', e) := by
        cases e1 <;> first | exact absurd rfl he1 | exact h
      cases h2
      exact ⟨he1, by rw [step_ref op o o' s s' e hst he1, mid_spec op v s.v hm]⟩

theorem faults_le_length (o : Oracle) : faults o ≤ o.length := List.count_le_length

end AsmjitVerif.Fault
