/- C15: theorems about the BaseCompiler fault model (Model/FaultCompiler.lean). -/
import AsmjitVerif.Model.FaultCompiler
import AsmjitVerif.Lemmas.FaultBuilder
namespace AsmjitVerif.FaultCompiler
open AsmjitVerif AsmjitVerif.Fault
open AsmjitVerif.FaultBuilder (reserveGrow8 reserveGrow8_le reserveGrow8_lt reserveGrow8_room)
set_option maxHeartbeats 1600000

/-- everything a client sees except the number of labels -/
def shape (v : CView) : List CNode × Nat × List Bool × Bool × Nat × Nat := (v.nodes, v.cursor, v.regs, v.isOpen, v.pendExtra, v.pendOpts)

/-! ## `register_label_node` -/

theorem registerLabel_spec (o : Oracle) (s : CSt) :
    shape (registerLabel o s).2.1.v = shape s.v ∧
    s.v.labelCount ≤ (registerLabel o s).2.1.v.labelCount ∧ (registerLabel o s).2.1.v.labelCount ≤ s.v.labelCount + 1 ∧
    ((registerLabel o s).2.2 = true → (registerLabel o s).2.1.v.labelCount = s.v.labelCount + 1) ∧
    faults (registerLabel o s).1 ≤ faults o ∧ ((registerLabel o s).2.2 = false → faults (registerLabel o s).1 < faults o) := by
  unfold registerLabel
  rcases hr : reserveAdd o s.v.labelCount s.c.labCap 1 16 with ⟨o1, c1, b1⟩
  cases b1
  · simp [shape]; grind
  · simp only
    rcases hg : reserveGrow8 o1 s.c.lnCap (s.v.labelCount + 1) with ⟨o2, c2, b2⟩
    cases b2 <;> (simp [shape]; grind)

theorem endFunc_not_oom (v : CView) : (endFuncView v).2 ≠ .oom := by
  unfold endFuncView
  repeat' split
  all_goals simp

/-! ## out of memory -/

theorem newReg_oom (o o' : Oracle) (s s' : CSt) (l : Bool) (h : newReg o s l = (o', s', .oom)) : s'.v = s.v := by
  unfold newReg at h
  repeat' split at h
  all_goals (first | (cases h; done) | (cases h; rfl))

theorem invokeCore_oom (o o' : Oracle) (s s' : CSt) (n : Nat) (h : invokeCore o s n = (o', s', .oom)) : s'.v = s.v := by
  unfold invokeCore at h
  repeat' split at h
  all_goals (first | (cases h; done) | (cases h; rfl))

theorem emit_oom (o o' : Oracle) (s s' : CSt) (k : Nat) (h : emit o s k = (o', s', .oom)) : s'.v = clearPending s.v := by
  unfold emit at h
  repeat' split at h
  all_goals (first | (cases h; done) | (cases h; rfl))

theorem funcTail_oom (v0 : CView) (nargs : Nat) (r : Oracle × CSt × Bool) (o' : Oracle) (s' : CSt)
    (h : funcTail v0 nargs r = (o', s', .oom)) :
    shape s'.v = shape r.2.1.v ∧ r.2.1.v.labelCount ≤ s'.v.labelCount ∧ s'.v.labelCount ≤ r.2.1.v.labelCount + 1 := by
  obtain ⟨o1, s1, b⟩ := r
  unfold funcTail at h
  simp only at h
  split at h
  · cases h; exact ⟨rfl, Nat.le_refl _, Nat.le_succ _⟩
  · split at h
    · cases h; exact ⟨rfl, Nat.le_refl _, Nat.le_succ _⟩
    · rename_i o4 _
      generalize (if nargs ≠ 0 then (match req o4 with | (true, o2) => (o2, false) | (false, o2) => (o2, true)) else (o4, true) : Oracle × Bool) = a at h
      split at h
      · cases h; exact ⟨rfl, Nat.le_refl _, Nat.le_succ _⟩
      · have := registerLabel_spec a.1 s1
        split at h
        · cases h
          exact ⟨this.1, this.2.1, this.2.2.1⟩
        · cases h

/-- `compiler_fail_atomic_exact` for `add_func`: nodes, cursor, registers untouched; up to two label ids may be used up -/
theorem addFuncCore_oom (o o' : Oracle) (s s' : CSt) (n : Nat) (h : addFuncCore o s n = (o', s', .oom)) :
    shape s'.v = shape s.v ∧ s.v.labelCount ≤ s'.v.labelCount ∧ s'.v.labelCount ≤ s.v.labelCount + 2 := by
  unfold addFuncCore at h
  split at h
  · cases h; exact ⟨rfl, Nat.le_refl _, by omega⟩
  · split at h
    · cases h; exact ⟨rfl, Nat.le_refl _, by omega⟩
    · rename_i o2 _
      have h1 := registerLabel_spec o2 s
      have h2 := funcTail_oom _ _ _ _ _ h
      exact ⟨h2.1.trans h1.1, by omega, by omega⟩

/-- what a failed call leaves of the observable state apart from label ids: `_emit`, `add_func` and `invoke` have consumed
(cleared) the one-shot state - `_emit` resets it on both paths, the other two take it with `_grab_state()` before anything can
fail -, `new_virt_reg` and `end_func` never touch it -/
def afterFail (op : COp) (v : CView) : CView :=
  match op with
  | .emit _ | .addFunc _ | .invoke _ => clearPending v
  | _ => v

/-- `compiler_fail_atomic_exact`: a Compiler call answered out of memory left node list, cursor, registers and the open function
untouched and the one-shot state as `afterFail` says (cleared by `_emit` / `add_func` / `invoke`, never left pending from the
failed call); only `add_func` may have used up label ids of the CodeHolder - at most two -/
theorem cstep_oom_exact (op : COp) (o o' : Oracle) (s s' : CSt) (h : cstep op o s = (o', s', .oom)) :
    shape s'.v = shape (afterFail op s.v) ∧ s.v.labelCount ≤ s'.v.labelCount ∧ s'.v.labelCount ≤ s.v.labelCount + 2 ∧
    ((∀ n, op ≠ .addFunc n) → s'.v = afterFail op s.v) := by
  cases op <;> simp only [cstep] at h
  case newReg l => have := newReg_oom _ _ _ _ _ h; rw [this]; exact ⟨rfl, Nat.le_refl _, by omega, fun _ => rfl⟩
  case addFunc n =>
    have := addFuncCore_oom _ _ _ _ _ h
    exact ⟨this.1, this.2.1, this.2.2, fun hn => absurd rfl (hn n)⟩
  case invoke n =>
    have := invokeCore_oom _ _ _ _ _ h
    simp only at this
    rw [this]; exact ⟨rfl, Nat.le_refl _, by simp [clearPending], fun _ => rfl⟩
  case emit k =>
    have := emit_oom _ _ _ _ _ h
    rw [this]; exact ⟨rfl, Nat.le_refl _, by simp [clearPending], fun _ => rfl⟩
  case endFunc =>
    have := endFunc_not_oom s.v
    simp at h
    exact absurd h.2.2 this
  case setExtra r => cases h
  case setOpts b => cases h

/-! ## fault accounting -/

theorem argPack_faults (nargs : Nat) (o4 : Oracle) :
    faults (if nargs ≠ 0 then (match req o4 with | (true, o2) => (o2, false) | (false, o2) => (o2, true)) else (o4, true) : Oracle × Bool).1 ≤ faults o4 ∧
    ((if nargs ≠ 0 then (match req o4 with | (true, o2) => (o2, false) | (false, o2) => (o2, true)) else (o4, true) : Oracle × Bool).2 = false →
      faults (if nargs ≠ 0 then (match req o4 with | (true, o2) => (o2, false) | (false, o2) => (o2, true)) else (o4, true) : Oracle × Bool).1 < faults o4) := by
  split
  · split <;> simp <;> grind
  · simp

theorem funcTail_faults (v0 : CView) (nargs : Nat) (r : Oracle × CSt × Bool) (o0 o' : Oracle) (s' : CSt) (e : Err)
    (hr : faults r.1 ≤ faults o0 ∧ (r.2.2 = false → faults r.1 < faults o0))
    (h : funcTail v0 nargs r = (o', s', e)) : Acct o0 o' e := by
  obtain ⟨o1, s1, b⟩ := r
  unfold funcTail at h
  simp only at h hr
  split at h
  · cases h; grind
  · split at h
    · cases h; grind
    · rename_i o4 hreq
      have ha := argPack_faults nargs o4
      have h4 := req_le _ _ _ hreq
      generalize (if nargs ≠ 0 then (match req o4 with | (true, o2) => (o2, false) | (false, o2) => (o2, true)) else (o4, true) : Oracle × Bool) = a at h ha
      split at h
      · cases h; grind
      · have h2 := registerLabel_spec a.1 s1
        split at h
        · cases h; grind
        · cases h; grind

theorem cstep_faults (op : COp) (o o' : Oracle) (s s' : CSt) (e : Err) (h : cstep op o s = (o', s', e)) : Acct o o' e := by
  cases op <;> simp only [cstep] at h
  case newReg l =>
    unfold newReg at h
    repeat' split at h
    all_goals (cases h; grind)
  case addFunc n =>
    unfold addFunc addFuncCore at h
    split at h
    · cases h; grind
    · split at h
      · cases h; grind
      · rename_i o1 hr1 _ o2 hr2
        have h1 := registerLabel_spec o2 { s with v := clearPending s.v }
        have := funcTail_faults _ _ _ o2 _ _ _ ⟨h1.2.2.2.2.1, h1.2.2.2.2.2⟩ h
        have e1 := req_le _ _ _ hr1
        have e2 := req_le _ _ _ hr2
        grind
  case invoke n =>
    unfold invoke invokeCore at h
    repeat' split at h
    all_goals (cases h; grind)
  case emit k =>
    unfold emit at h
    repeat' split at h
    all_goals (cases h; grind)
  case endFunc => cases h; simp [Acct]; exact endFunc_not_oom s.v
  case setExtra r => cases h; simp [Acct]
  case setOpts b => cases h; simp [Acct]


/-! ## other answers refine the failure-free meaning -/

theorem registerLabel_ok_view (o : Oracle) (s : CSt) (h : (registerLabel o s).2.2 = true) :
    (registerLabel o s).2.1.v = { s.v with labelCount := s.v.labelCount + 1 } := by
  unfold registerLabel at h ⊢
  rcases hr : reserveAdd o s.v.labelCount s.c.labCap 1 16 with ⟨o1, c1, b1⟩
  rw [hr] at h
  cases b1
  · simp at h
  · simp only at h ⊢
    rcases hg : reserveGrow8 o1 s.c.lnCap (s.v.labelCount + 1) with ⟨o2, c2, b2⟩
    rw [hg] at h
    cases b2
    · simp at h
    · rfl

theorem funcTail_ref (v0 : CView) (nargs : Nat) (r : Oracle × CSt × Bool) (o' : Oracle) (s' : CSt) (e : Err)
    (hv : r.2.2 = true → r.2.1.v = { v0 with labelCount := v0.labelCount + 1 })
    (hp : v0.pendExtra = 0 ∧ v0.pendOpts = 0)
    (h : funcTail v0 nargs r = (o', s', e)) (he : e ≠ .oom) : (s'.v, e) = cspec (.addFunc nargs) v0 := by
  obtain ⟨o1, s1, b⟩ := r
  unfold funcTail at h
  simp only at h hv
  split at h
  · cases h; simp at he
  · rename_i hb
    have hb' : b = true := by simpa using hb
    have hv1 := hv hb'
    split at h
    · cases h; simp at he
    · rename_i o4 _
      generalize (if nargs ≠ 0 then (match req o4 with | (true, o2) => (o2, false) | (false, o2) => (o2, true)) else (o4, true) : Oracle × Bool) = a at h
      split at h
      · cases h; simp at he
      · split at h
        · cases h; simp at he
        · rename_i hr2
          have hr2' : (registerLabel a.1 s1).2.2 = true := by simpa using hr2
          have hv2 := registerLabel_ok_view a.1 s1 hr2'
          cases h
          simp [cspec, hv2, hv1, hp.1, hp.2]

/-- `compiler_answer_refines_spec` -/
theorem cstep_ref (op : COp) (o o' : Oracle) (s s' : CSt) (e : Err) (h : cstep op o s = (o', s', e)) (he : e ≠ .oom) :
    (s'.v, e) = cspec op s.v ∨
    (op = .newReg true ∧ e = .ok ∧ s'.v = { s.v with regs := s.v.regs ++ [false] }) := by
  cases op <;> simp only [cstep] at h
  case newReg l =>
    unfold newReg at h
    repeat' split at h
    all_goals (first | (cases h; simp at he; done) | (cases h; left; simp_all [cspec]; done) | (cases h; right; simp_all; done))
  case addFunc n =>
    left
    unfold addFunc addFuncCore at h
    have hcs : cspec (.addFunc n) (clearPending s.v) = cspec (.addFunc n) s.v := by simp [cspec, clearPending]
    split at h
    · cases h; simp at he
    · split at h
      · cases h; simp at he
      · rename_i o2 _
        rw [← hcs]
        exact funcTail_ref _ _ _ _ _ _ (registerLabel_ok_view o2 _) ⟨rfl, rfl⟩ h he
  case invoke n =>
    left
    unfold invoke invokeCore at h
    repeat' split at h
    all_goals (first | (cases h; simp at he; done) | (cases h; simp [cspec]))
  case emit k =>
    left
    unfold emit at h
    repeat' split at h
    all_goals (first | (cases h; simp at he; done) | (cases h; simp [cspec]))
  case endFunc => left; cases h; simp [cspec]
  case setExtra r => left; cases h; rfl
  case setOpts b => left; cases h; rfl

/-! ## the component invariant -/

def CInv (s : CSt) : Prop :=
  s.corrupt = false ∧ s.v.labelCount ≤ s.c.labCap ∧ s.c.lnSize ≤ s.c.lnCap ∧ s.c.lnSize ≤ s.v.labelCount ∧
  s.v.regs.length ≤ s.c.vregCap

theorem registerLabel_inv (o : Oracle) (s : CSt) (hI : CInv s) (hb : s.v.labelCount + 1 ≤ 2 ^ 40) :
    CInv (registerLabel o s).2.1 ∧ (registerLabel o s).2.1.v.regs = s.v.regs ∧ (registerLabel o s).2.1.c.vregCap = s.c.vregCap := by
  unfold CInv at *
  unfold registerLabel
  rcases hr : reserveAdd o s.v.labelCount s.c.labCap 1 16 with ⟨o1, c1, b1⟩
  cases b1
  · exact ⟨hI, rfl, rfl⟩
  · have h1 := reserve_roomG _ _ _ _ _ _ _ hr (by decide) (by decide) (by decide) hI.2.1 (by omega)
    simp only
    rcases hg : reserveGrow8 o1 s.c.lnCap (s.v.labelCount + 1) with ⟨o2, c2, b2⟩
    cases b2
    · simp; grind
    · have h2 := reserveGrow8_room _ _ _ _ _ hg (by omega) (by omega)
      simp; grind

theorem cstep_inv (op : COp) (o o' : Oracle) (s s' : CSt) (e : Err) (hI : CInv s)
    (hb : s.v.labelCount + 2 ≤ 2 ^ 40 ∧ s.v.regs.length + 1 ≤ 2 ^ 40) (h : cstep op o s = (o', s', e)) :
    CInv s' ∧ s'.v.labelCount ≤ s.v.labelCount + 2 ∧ s'.v.regs.length ≤ s.v.regs.length + 1 := by
  cases op <;> simp only [cstep] at h
  case newReg l =>
    unfold CInv at *
    unfold newReg at h
    repeat' split at h
    all_goals (cases h; (try simp); grind)
  case addFunc n =>
    unfold addFunc at h
    have hI0 : CInv ({ s with v := clearPending s.v } : CSt) := by unfold CInv at *; simpa [clearPending] using hI
    generalize hs0 : ({ s with v := clearPending s.v } : CSt) = s0 at h hI0
    have hl0 : s0.v.labelCount = s.v.labelCount ∧ s0.v.regs = s.v.regs := by subst hs0; exact ⟨rfl, rfl⟩
    unfold addFuncCore at h
    split at h
    · cases h; exact ⟨hI0, by omega, by simp [hl0.2]⟩
    · split at h
      · cases h; exact ⟨hI0, by omega, by simp [hl0.2]⟩
      · rename_i o2 _
        have h1 := registerLabel_inv o2 s0 hI0 (by omega)
        have hs1 := registerLabel_spec o2 s0
        generalize registerLabel o2 s0 = r at h h1 hs1
        obtain ⟨o3, s3, b3⟩ := r
        unfold funcTail at h
        simp only at h h1 hs1
        split at h
        · cases h; exact ⟨h1.1, by omega, by simp [h1.2.1, hl0.2]⟩
        · split at h
          · cases h; exact ⟨h1.1, by omega, by simp [h1.2.1, hl0.2]⟩
          · rename_i o4 _
            generalize (if n ≠ 0 then (match req o4 with | (true, o2) => (o2, false) | (false, o2) => (o2, true)) else (o4, true) : Oracle × Bool) = a at h
            split at h
            · cases h; exact ⟨h1.1, by omega, by simp [h1.2.1, hl0.2]⟩
            · have h2 := registerLabel_inv a.1 s3 h1.1 (by omega)
              have hs2 := registerLabel_spec a.1 s3
              split at h
              · cases h; exact ⟨h2.1, by omega, by simp [h2.2.1, h1.2.1, hl0.2]⟩
              · cases h
                refine ⟨?_, by simp; omega, by simp [h2.2.1, h1.2.1, hl0.2]⟩
                have := h2.1; unfold CInv at this ⊢; simpa using this
  case invoke n =>
    unfold invoke invokeCore at h
    repeat' split at h
    all_goals (cases h; exact ⟨by unfold CInv at *; simpa [link, clearPending] using hI, by simp [link, clearPending], by simp [link, clearPending]⟩)
  case emit k =>
    unfold emit at h
    repeat' split at h
    all_goals (cases h; exact ⟨by unfold CInv at *; simpa [link, clearPending] using hI, by simp [link, clearPending], by simp [link, clearPending]⟩)
  case setExtra r => cases h; exact ⟨by unfold CInv at *; simpa using hI, by simp, by simp⟩
  case setOpts b => cases h; exact ⟨by unfold CInv at *; simpa using hI, by simp, by simp⟩
  case endFunc =>
    cases h
    unfold endFuncView
    repeat' split
    all_goals (exact ⟨by unfold CInv at *; simpa using hI, by simp, by simp⟩)

def crun : List COp → Oracle → CSt → CSt × List Err
  | [], _, s => (s, [])
  | op :: rest, o, s =>
    match cstep op o s with
    | (o1, s1, e) => let (s2, es) := crun rest o1 s1; (s2, e :: es)

theorem crun_inv : ∀ (ops : List COp) (o : Oracle) (s : CSt), CInv s →
    s.v.labelCount + 2 * ops.length ≤ 2 ^ 40 → s.v.regs.length + ops.length ≤ 2 ^ 40 → CInv (crun ops o s).1
  | [], _, _, hI, _, _ => by simpa [crun] using hI
  | op :: rest, o, s, hI, h1, h2 => by
    unfold crun
    generalize hst : cstep op o s = r
    obtain ⟨o1, s1, e⟩ := r
    simp only [List.length_cons] at h1 h2
    have := cstep_inv op o o1 s s1 e hI ⟨by omega, by omega⟩ hst
    simp only
    exact crun_inv rest o1 s1 this.1 (by omega) (by omega)

end AsmjitVerif.FaultCompiler
