/- C09 refinement (model run ⊑ monitor): allocation: memory of the new span, appended block, simulation after allocation. -/
import AsmjitVerif.Lemmas.JitAllocSimAlloc1
namespace AsmjitVerif.JitAlloc
open Spec

/-- a freshly mapped block carries the fill pattern everywhere -/
theorem alloc_new_mem {a : Alloc} {T} (req : Nat) (h : AInv a T) :
    ∀ x ∈ (a.alloc req).1.blocks, x.id = a.nextId → a.cfg.fillUnused = true → ∀ k, k < x.areaSize → memAt x k = patColour a.cfg := by
  apply alloc_forall (fun x => x.id = a.nextId → a.cfg.fillUnused = true → ∀ k, k < x.areaSize → memAt x k = patColour a.cfg) req h
  · intro b hb e
    have := h.fresh b hb; omega
  · intro b b' k _ _ hq ht e hf j hj
    obtain ⟨f1, _, _, f4, _⟩ := tryAlloc_fields ht
    unfold memAt; rw [tryAlloc_mem ht]
    exact hq (by rw [← f1]; exact e) hf j (by rw [← f4]; exact hj)
  · intro b b' k idx _ _ _ hq ht e hf j hj
    obtain ⟨f1, _, _, f4, _⟩ := tryAlloc_fields ht
    unfold memAt; rw [commit_mem, tryAlloc_mem ht]
    exact hq (by rw [← f1]; simpa using e) hf j (by rw [← f4]; simpa using hj)
  · intro blocks p n size _ _ _ _ _ _ _ hf k hk
    unfold memAt
    simp only [markAllocated_mem, markAllocated_areaSize] at hk ⊢
    simp only [newBlock, Block.clear] at hk ⊢
    rw [getD_replicate]
    simp [hk, hf]

theorem map_toGB_of_triple {l1 l2 : List Block}
    (h : l1.map (fun b => (b.id, b.pool, b.blockSize)) = l2.map (fun b => (b.id, b.pool, b.blockSize))) : l1.map toGB = l2.map toGB := by
  have := congrArg (List.map (fun (t : Nat × Nat × Nat) => ({ id := t.1, pool := t.2.1, size := t.2.2 } : GBlock))) h
  rw [List.map_map, List.map_map] at this
  exact this

end AsmjitVerif.JitAlloc

namespace AsmjitVerif.JitAlloc
open Spec

/-- the ghost stays in step when a new entry is appended to the table -/
theorem sim_append {g : Ghost} {s : St} {a' : Alloc} (hS : Sim g s) (hI : Inv s) (hM : AMem s.a) (xn : GH)
    (t : Trans s none { a := a', tab := s.tab ++ [toH xn] }) (blocks' : List GBlock) (hblocks : blocks' = a'.blocks.map toGB)
    (hnew : xn.live = true → xn.tag = none ∧ ∀ b' ∈ a'.blocks, b'.id = xn.blk → ∀ k, inSpan (a'.cfg.poolGran b'.pool) (toH xn) k →
      a'.cfg.fillUnused = true → memAt b' k = patColour a'.cfg) :
    Sim { g with tab := g.tab ++ [xn], blocks := blocks' } { a := a', tab := s.tab ++ [toH xn] } := by
  have hc : a'.cfg = s.a.cfg := t.cfg
  refine ⟨by rw [hc]; exact hS.cfg, by simp [hS.tab], hblocks, ?_⟩
  intro i x' hx' hl' b' hb' e' k hk
  have hx'' : (g.tab ++ [xn])[i]? = some x' := hx'
  by_cases hi : i < g.tab.length
  · rw [List.getElem?_append_left hi] at hx''
    have hm' : (s.tab ++ [toH xn])[i]? = some (toH x') := by
      rw [List.getElem?_append_left (by rw [← hS.tab, List.length_map]; exact hi), hS.getH, hx'']; rfl
    obtain ⟨_, _, _, f4⟩ := tags_old hS hI hM t hx'' hl' hm' hl'
    exact (f4 b' hb' e' k hk).1 (by intro byte hh; simp at hh)
  · rw [List.getElem?_append_right (by omega)] at hx''
    by_cases hi2 : i - g.tab.length = 0
    · simp [hi2] at hx''
      subst hx''
      obtain ⟨ht, hp⟩ := hnew hl'
      rw [ht]
      exact hp b' hb' e' k hk
    · have : i - g.tab.length = (i - g.tab.length - 1) + 1 := by omega
      rw [this] at hx''; simp at hx''

end AsmjitVerif.JitAlloc
