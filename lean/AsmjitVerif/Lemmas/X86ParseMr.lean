/-
C01 helper lemmas, spec side: VEX-family shapes with the r/m operand FIRST ([rm, reg] / [rm, reg, imm8]: classes VexMr_Lx, VexMri) - register
forms and memory-destination forms. Generated from the [reg, rm] lemmas by swapping the operand order; each is checked on its own.
-/
import AsmjitVerif.Lemmas.X86ParseMem
set_option linter.constructorNameAsVariable false
set_option linter.unusedSimpArgs false
set_option linter.unusedVariables false
namespace AsmjitVerif.Lemmas.X86Parse
open Spec.X86

/-- shape [rm, reg (swapped operand order: the destination is the r/m operand)]: vvvv must be unused (1111b, V' clear) -/
theorem vex_mr_formOk (ctx : Spec.X86.Ctx) (rule : Rule) (p : Parsed) (mb : BitVec 8) (bytes : List (BitVec 8))
    (k0 k2 : RegKind) (f0 f2 : FormOp) (i0 i2 : Nat)
    (hmode : ((if ctx.mode64 then rule.modes &&& 2 else rule.modes &&& 1) != 0) = true) (hk0 : PlainKind k0) (hk2 : PlainKind k2)
    (R : VexRule rule 0) (hf0 : f0.role = .reg) (hf2 : f2.role = .rm)
    (hal : alignOps rule.oszEff rule.ops [.reg k2 i2, .reg k0 i0] =
           some [(f2, some (.reg k2 i2)), (f0, some (.reg k0 i0))])
    (hparse : parse ctx.mode64 rule bytes = .ok p) (P : VexParsed rule p mb)
    (hreg : regNum p.R' p.R (bits mb 3 3) = i0)
    (hvv : regNum p.V' false p.vvvv = 0)
    (hrm : regNum (p.vexKind == 4 && p.X) p.B (bits mb 0 3) = i2) :
    formOk ctx rule [.reg k2 i2, .reg k0 i0] {} bytes = true := by
  obtain ⟨hvk, hpfx, hrex, hmodrm, hmod, hop, hmap, hpp, hw, hl, hl1, hev⟩ := P
  obtain ⟨hmodes, hs, hpp8, hri, hmk, hmr, hmrm, himm, hrel, hmoff, ha67, hrev, hosz⟩ := R
  have hleg : isLegacySpace rule = false := by rcases hs with h | h | h <;> simp [isLegacySpace, h]
  have hs4 : (rule.space == 4) = false := by rcases hs with h | h | h <;> simp [h]
  have hvk0 : (p.vexKind == 0) = false := by rcases hvk with h | h | h | h <;> simp [h]
  simp only [formOk, conds, hal, hparse, hmode]
  simp only [allOk_cons, allOk_append, decorConds, headConds, prefixConds, modrmConds, operandConds, opConds, tailConds, hf0, hf2,
    regConds_plain _ _ _ _ _ hk0, regConds_plain _ _ _ _ _ hk2, allOk_nil, memOperandOf, implMemOf, usesVvvv,
    hasBcst, hleg, hri, hmodrm, hpfx, hrex]
  obtain ⟨hv0, hV⟩ := regNum_zero _ _ hvv
  simp [hop, hmap, hpp, hreg, hrm, hmod, hmr, hmrm, hs4, hvk0, hpp8, ha67, hv0, hV]
  have hvk0' : ¬ p.vexKind = 0 := by rcases hvk with h | h | h | h <;> omega
  and_intros
  all_goals first
    | exact hw
    | exact hvk0'
    | (refine Or.inl ?_; rcases hs with h | h | h <;> omega)
    | (rcases hmk with h | h <;> omega)
    | (rcases hl with h | h
       · exact Or.inl (Or.inl h)
       · exact Or.inr h)
    | (by_cases h4 : p.vexKind = 4
       · left; omega
       · right; exact hl1 h4)
    | (by_cases h4 : p.vexKind = 4
       · obtain ⟨a, z, b, m⟩ := hev h4
         rw [hmap] at m
         simp [h4, allOk, a, z, b, m]
       · simp [h4, allOk])
    | exact Or.inl (Or.inr (Or.inr (Or.inl ‹_›)))
    | simp [leBytes, allOk]

/-- shape [rm, reg (swapped operand order: the destination is the r/m operand), imm8] -/
theorem vex_mri_formOk (ctx : Spec.X86.Ctx) (rule : Rule) (p : Parsed) (mb : BitVec 8) (bytes : List (BitVec 8))
    (k0 k2 : RegKind) (f0 f2 : FormOp) (i0 i2 : Nat)
    (hmode : ((if ctx.mode64 then rule.modes &&& 2 else rule.modes &&& 1) != 0) = true) (hk0 : PlainKind k0) (hk2 : PlainKind k2)
    (R : VexRule rule 1) (f3 : FormOp) (v : BitVec 64) (hf3 : f3.role = .imm) (hib : immBitsOf f3 = 8)
    (himmp : p.imm = [BitVec.ofNat 8 v.toNat]) (hf0 : f0.role = .reg) (hf2 : f2.role = .rm)
    (hal : alignOps rule.oszEff rule.ops [.reg k2 i2, .reg k0 i0, .imm v] =
           some [(f2, some (.reg k2 i2)), (f0, some (.reg k0 i0)), (f3, some (.imm v))])
    (hparse : parse ctx.mode64 rule bytes = .ok p) (P : VexParsed rule p mb)
    (hreg : regNum p.R' p.R (bits mb 3 3) = i0)
    (hvv : regNum p.V' false p.vvvv = 0)
    (hrm : regNum (p.vexKind == 4 && p.X) p.B (bits mb 0 3) = i2) :
    formOk ctx rule [.reg k2 i2, .reg k0 i0, .imm v] {} bytes = true := by
  obtain ⟨hvk, hpfx, hrex, hmodrm, hmod, hop, hmap, hpp, hw, hl, hl1, hev⟩ := P
  obtain ⟨hmodes, hs, hpp8, hri, hmk, hmr, hmrm, himm, hrel, hmoff, ha67, hrev, hosz⟩ := R
  have hleg : isLegacySpace rule = false := by rcases hs with h | h | h <;> simp [isLegacySpace, h]
  have hs4 : (rule.space == 4) = false := by rcases hs with h | h | h <;> simp [h]
  have hvk0 : (p.vexKind == 0) = false := by rcases hvk with h | h | h | h <;> simp [h]
  simp only [formOk, conds, hal, hparse, hmode]
  simp only [allOk_cons, allOk_append, decorConds, headConds, prefixConds, modrmConds, operandConds, opConds, tailConds, hf0, hf2, hf3, hib, himmp, immBytesOf, oszEff_zero rule hosz hs, hrev,
    regConds_plain _ _ _ _ _ hk0, regConds_plain _ _ _ _ _ hk2, allOk_nil, memOperandOf, implMemOf, usesVvvv,
    hasBcst, hleg, hri, hmodrm, hpfx, hrex]
  obtain ⟨hv0, hV⟩ := regNum_zero _ _ hvv
  simp [hop, hmap, hpp, hreg, hrm, hmod, hmr, hmrm, hs4, hvk0, hpp8, ha67, hv0, hV]
  have hvk0' : ¬ p.vexKind = 0 := by rcases hvk with h | h | h | h <;> omega
  and_intros
  all_goals first
    | exact hw
    | exact hvk0'
    | (refine Or.inl ?_; rcases hs with h | h | h <;> omega)
    | (rcases hmk with h | h <;> omega)
    | (rcases hl with h | h
       · exact Or.inl (Or.inl h)
       · exact Or.inr h)
    | (by_cases h4 : p.vexKind = 4
       · left; omega
       · right; exact hl1 h4)
    | (by_cases h4 : p.vexKind = 4
       · obtain ⟨a, z, b, m⟩ := hev h4
         rw [hmap] at m
         simp [h4, allOk, a, z, b, m]
       · simp [h4, allOk])
    | exact Or.inl (Or.inr (Or.inr (Or.inl ‹_›)))
    | simp [leBytes, allOk]

/-- shape [MEM, reg (memory DESTINATION: {z} is not allowed)] with a 64-bit-addressed, non-VSIB memory operand without segment / broadcast: all conditions of the monitor hold -/
theorem vex_mr_mem_formOk (ctx : Spec.X86.Ctx) (rule : Rule) (p : Parsed) (mb : BitVec 8) (bytes pfx : List (BitVec 8))
    (k0 : RegKind) (f0 f2 : FormOp) (i0 : Nat) (m : MemOp) (k : Nat) (z bb : Bool)
    (hm64 : ctx.mode64 = true) (hmode : (rule.modes &&& 2 != 0) = true) (hk0 : PlainKind k0)
    (R : VexRuleM rule 0) (hf0 : f0.role = .reg) (hf2 : f2.role = .rm)
    (hz : z = false) (K : PfxCounts pfx m) (D : DecorAllowed rule k z false false) (hvs : vsibOf m = .none) (hbc : (m.bcst != 0) = bb) (hbr : bb = true → rule.bcst = true)
    (hal : alignOps rule.oszEff rule.ops [.mem m, .reg k0 i0] =
           some [(f2, some (.mem m)), (f0, some (.reg k0 i0))])
    (hparse : parse true rule bytes = .ok p) (P : VexParsedM rule p mb pfx k z bb)
    (hreg : regNum p.R' p.R (bits mb 3 3) = i0)
    (hvv : regNum p.V' false p.vvvv = 0)
    (hcm : checkMem ctx rule p m = .ok ()) :
    formOk ctx rule [.mem m, .reg k0 i0] (decorOf k z false false 0) bytes = true := by
  obtain ⟨hvk, hpfx, hrex, hmodrm, hmod, hop, hmap, hpp, hw, hl, hl1, hev, hnk⟩ := P
  obtain ⟨dk, dz, -, -⟩ := D
  obtain ⟨hs, hpp8, hri, hmk, hmr, hmrm, himm, hrel, hmoff, ha67, hrev, hosz⟩ := R
  obtain ⟨c66, cF3, cF2, cF0, c9B, cseg, c67, ccont⟩ := K
  have hleg : isLegacySpace rule = false := by rcases hs with h | h | h <;> simp [isLegacySpace, h]
  have hs4 : (rule.space == 4) = false := by rcases hs with h | h | h <;> simp [h]
  have hvk0 : (p.vexKind == 0) = false := by rcases hvk with h | h | h | h <;> simp [h]
  have hmod' : (bits mb 6 2 == 3) = false := by simpa using hmod
  simp only [formOk, conds, hm64, hal, hparse, ↓reduceIte, hmode]
  simp only [allOk_cons, allOk_append, decorConds, headConds, prefixConds, modrmConds, operandConds, opConds, tailConds, hf0, hf2,
    regConds_plain _ _ _ _ _ hk0, allOk_nil, memOperandOf, implMemOf, usesVvvv, memDestOf, hcm, Spec.X86.ofExcept,
    hasBcst, hleg, hri, hmodrm, hpfx, hrex, List.foldl, List.find?, c66, cF3, cF2, cF0, c9B, cseg, ccont, decorOf]
  obtain ⟨hv0, hV⟩ := regNum_zero _ _ hvv
  simp [hop, hmap, hpp, hreg, hv0, hV, hmod', hmr, hmrm, hs4, hvk0, hpp8, ha67, hbc, hvs, hm64, allOk]
  have hvk0' : ¬ p.vexKind = 0 := by rcases hvk with h | h | h | h <;> omega
  and_intros
  all_goals first
    | exact hw
    | exact hvk0'
    | exact c67
    | (refine Or.inr ?_; simpa using ccont)
    | (refine Or.inl ?_; rcases hs with h | h | h <;> omega)
    | (rcases hmk with h | h <;> omega)
    | (rcases hl with h | h
       · exact Or.inl (Or.inl h)
       · exact Or.inr h)
    | (by_cases h4 : p.vexKind = 4
       · left; omega
       · right; exact hl1 h4)
    | (by_cases h4 : p.vexKind = 4
       · obtain ⟨a, zz, b, mm⟩ := hev h4
         rw [hmap] at mm
         simp [h4, allOk, a, zz, b, mm, hf2, hz]
       · obtain ⟨k0', z0', b0'⟩ := hnk h4
         simp [h4, allOk, k0', z0', b0', hf2, hz])
    | (cases bb
       · exact Or.inl rfl
       · exact Or.inr (hbr rfl))
    | (by_cases h : k = 0
       · exact Or.inl h
       · exact Or.inr (dk h))
    | (cases z
       · exact Or.inl rfl
       · exact Or.inr (dz rfl))
    | exact Or.inl (Or.inr (Or.inr (Or.inl ‹_›)))
    | rfl

/-- shape [MEM, reg (memory DESTINATION: {z} is not allowed), imm8] with a 64-bit-addressed, non-VSIB memory operand without segment / broadcast: all conditions of the monitor hold -/
theorem vex_mri_mem_formOk (ctx : Spec.X86.Ctx) (rule : Rule) (p : Parsed) (mb : BitVec 8) (bytes pfx : List (BitVec 8))
    (k0 : RegKind) (f0 f2 : FormOp) (i0 : Nat) (m : MemOp) (k : Nat) (z bb : Bool)
    (hm64 : ctx.mode64 = true) (hmode : (rule.modes &&& 2 != 0) = true) (hk0 : PlainKind k0)
    (R : VexRuleM rule 1) (f3 : FormOp) (v : BitVec 64) (hf3 : f3.role = .imm) (hib : immBitsOf f3 = 8)
    (himmp : p.imm = [BitVec.ofNat 8 v.toNat]) (hf0 : f0.role = .reg) (hf2 : f2.role = .rm)
    (hz : z = false) (K : PfxCounts pfx m) (D : DecorAllowed rule k z false false) (hvs : vsibOf m = .none) (hbc : (m.bcst != 0) = bb) (hbr : bb = true → rule.bcst = true)
    (hal : alignOps rule.oszEff rule.ops [.mem m, .reg k0 i0, .imm v] =
           some [(f2, some (.mem m)), (f0, some (.reg k0 i0)), (f3, some (.imm v))])
    (hparse : parse true rule bytes = .ok p) (P : VexParsedM rule p mb pfx k z bb)
    (hreg : regNum p.R' p.R (bits mb 3 3) = i0)
    (hvv : regNum p.V' false p.vvvv = 0)
    (hcm : checkMem ctx rule p m = .ok ()) :
    formOk ctx rule [.mem m, .reg k0 i0, .imm v] (decorOf k z false false 0) bytes = true := by
  obtain ⟨hvk, hpfx, hrex, hmodrm, hmod, hop, hmap, hpp, hw, hl, hl1, hev, hnk⟩ := P
  obtain ⟨dk, dz, -, -⟩ := D
  obtain ⟨hs, hpp8, hri, hmk, hmr, hmrm, himm, hrel, hmoff, ha67, hrev, hosz⟩ := R
  obtain ⟨c66, cF3, cF2, cF0, c9B, cseg, c67, ccont⟩ := K
  have hleg : isLegacySpace rule = false := by rcases hs with h | h | h <;> simp [isLegacySpace, h]
  have hs4 : (rule.space == 4) = false := by rcases hs with h | h | h <;> simp [h]
  have hvk0 : (p.vexKind == 0) = false := by rcases hvk with h | h | h | h <;> simp [h]
  have hmod' : (bits mb 6 2 == 3) = false := by simpa using hmod
  simp only [formOk, conds, hm64, hal, hparse, ↓reduceIte, hmode]
  simp only [allOk_cons, allOk_append, decorConds, headConds, prefixConds, modrmConds, operandConds, opConds, tailConds, hf3, hib, himmp, immBytesOf, oszEff_zero rule hosz hs, hrev, hf0, hf2,
    regConds_plain _ _ _ _ _ hk0, allOk_nil, memOperandOf, implMemOf, usesVvvv, memDestOf, hcm, Spec.X86.ofExcept,
    hasBcst, hleg, hri, hmodrm, hpfx, hrex, List.foldl, List.find?, c66, cF3, cF2, cF0, c9B, cseg, ccont, decorOf]
  obtain ⟨hv0, hV⟩ := regNum_zero _ _ hvv
  simp [hop, hmap, hpp, hreg, hv0, hV, hmod', hmr, hmrm, hs4, hvk0, hpp8, ha67, hbc, hvs, hm64, allOk]
  have hvk0' : ¬ p.vexKind = 0 := by rcases hvk with h | h | h | h <;> omega
  and_intros
  all_goals first
    | exact hw
    | exact hvk0'
    | exact c67
    | (refine Or.inr ?_; simpa using ccont)
    | (refine Or.inl ?_; rcases hs with h | h | h <;> omega)
    | (rcases hmk with h | h <;> omega)
    | (rcases hl with h | h
       · exact Or.inl (Or.inl h)
       · exact Or.inr h)
    | (by_cases h4 : p.vexKind = 4
       · left; omega
       · right; exact hl1 h4)
    | (by_cases h4 : p.vexKind = 4
       · obtain ⟨a, zz, b, mm⟩ := hev h4
         rw [hmap] at mm
         simp [h4, allOk, a, zz, b, mm, hf2, hz]
       · obtain ⟨k0', z0', b0'⟩ := hnk h4
         simp [h4, allOk, k0', z0', b0', hf2, hz])
    | (cases bb
       · exact Or.inl rfl
       · exact Or.inr (hbr rfl))
    | (by_cases h : k = 0
       · exact Or.inl h
       · exact Or.inr (dk h))
    | (cases z
       · exact Or.inl rfl
       · exact Or.inr (dz rfl))
    | exact Or.inl (Or.inr (Or.inr (Or.inl ‹_›)))
    | rfl
    | simp [leBytes, allOk]

end AsmjitVerif.Lemmas.X86Parse
