/- every assembling operation is a `Grow` step (Lemmas/RelInv.lean), hence keeps the region-ownership invariant `RInv`. -/
import AsmjitVerif.Lemmas.RelInv
namespace AsmjitVerif.CodeHolder
open AsmjitVerif.Offset

theorem grow_of_frame {s s' : State} (f : Frame s s') (hc : True) (news : List Rgn)
    (hr : s'.relocs.map Reloc.rgn = s.relocs.map Reloc.rgn ++ news) (hl : news.length ≤ 1)
    (hnew : ∀ r ∈ news, r.sec = s.cur ∧ s.curOff ≤ r.off ∧ RInB s'.secs r) : Grow s s' :=
  ⟨LenExt.of_ext f.secs, ⟨news, hr, hl, hnew⟩, ⟨[], by rw [f.ghost]; simp, fun _ h => by cases h⟩, .inr f.ghost⟩

theorem grow_frame {s s' : State} (f : Frame s s') (hr : s'.relocs = s.relocs) : Grow s s' :=
  grow_of_frame f trivial [] (by rw [hr]; simp) (by simp) (fun _ h => by cases h)

theorem rinb_emit (s : State) (hcur : s.cur < s.secs.length) (bytes : Bytes) (r : Rgn) (h1 : r.sec = s.cur) (h2 : r.off = s.curOff)
    (h3 : r.size ≤ bytes.length) (h4 : r.fmt.valueOffset + r.fmt.valueSize ≤ r.size) (h5 : 0 < r.fmt.valueSize) :
    RInB (modifySec s.secs s.cur (fun sec => { sec with buf := sec.buf ++ bytes })) r := by
  have hs : s.secs[s.cur]? = some (s.secs[s.cur]'hcur) := by simp [hcur]
  have hco : s.curOff = (s.secs[s.cur]'hcur).buf.length := by unfold State.curOff; rw [hs]
  refine ⟨_, by rw [h1]; exact modifySec_get_same _ _ _ _ hs, ?_, h4, h5⟩
  simp only [List.length_append]; omega

theorem rinb_emit2 (s : State) (hcur : s.cur < s.secs.length) (b1 b2 : Bytes) (r : Rgn) (h1 : r.sec = s.cur) (h2 : r.off = s.curOff)
    (h3 : r.size ≤ b1.length + b2.length) (h4 : r.fmt.valueOffset + r.fmt.valueSize ≤ r.size) (h5 : 0 < r.fmt.valueSize) :
    RInB (modifySec (modifySec s.secs s.cur (fun sec => { sec with buf := sec.buf ++ b1 })) s.cur
      (fun sec => { sec with buf := sec.buf ++ b2 })) r := by
  have hs : s.secs[s.cur]? = some (s.secs[s.cur]'hcur) := by simp [hcur]
  have hco : s.curOff = (s.secs[s.cur]'hcur).buf.length := by unfold State.curOff; rw [hs]
  refine ⟨_, by rw [h1]; exact modifySec_get_same _ _ _ _ (modifySec_get_same _ _ _ _ hs), ?_, h4, h5⟩
  simp only [List.length_append]; omega

/-- `new_fixup` then emission, on top of a frame step `s → s1` that may have added relocation regions `news` -/
theorem grow_newFixup_emit (s s1 : State) (hf : Frame s s1) (hcur : s1.cur = s.cur) (l : Nat) (f : Fixup) (tail : Bytes)
    (news : List Rgn) (hr : s1.relocs.map Reloc.rgn = s.relocs.map Reloc.rgn ++ news) (hl : news.length ≤ 1)
    (hnew : ∀ r ∈ news, r.sec = s.cur ∧ s.curOff ≤ r.off ∧
      RInB (modifySec s1.secs s1.cur (fun sec => { sec with buf := sec.buf ++ tail })) r)
    (hsec : f.sec = s.cur) (hoff : s.curOff ≤ f.offset) (hboth : f.lr = none → news = []) :
    Grow s ((newFixup s1 l f).emit tail) := by
  have hlen : LenExt s.secs (modifySec s1.secs s1.cur (fun sec => { sec with buf := sec.buf ++ tail })) :=
    LenExt.of_ext (hf.secs.trans (secsExt_modifySec _ _ _ (fun x => ⟨tail, rfl⟩)))
  have hlog : (logRef s1.ghost l f = s1.ghost ∧ (f.lr = none → False)) ∨ (logRef s1.ghost l f = s1.ghost ++ [f.toG l] ∧ f.lr = none) := by
    unfold logRef
    cases hx : f.lr with
    | none => exact .inr ⟨rfl, rfl⟩
    | some _ => exact .inl ⟨rfl, fun h => by cases h⟩
  have hgnew : ∀ g ∈ [f.toG l], g.sec = s.cur ∧ s.curOff ≤ g.offset := by
    intro g hg; simp only [List.mem_singleton] at hg; subst hg; exact ⟨hsec, hoff⟩
  unfold newFixup
  cases hlab : s1.labels[l]? with
  | none =>
    exact ⟨hlen, ⟨news, hr, hl, hnew⟩, ⟨[], by show s1.ghost = _; rw [hf.ghost]; simp, fun _ h => by cases h⟩, .inr hf.ghost⟩
  | some le =>
    cases le with
    | unbound fx =>
      dsimp only
      rcases hlog with ⟨e, _⟩ | ⟨e, hn⟩
      · exact ⟨hlen, ⟨news, hr, hl, hnew⟩, ⟨[], by show logRef s1.ghost l f = _; rw [e, hf.ghost]; simp, fun _ h => by cases h⟩,
          .inr (by show logRef s1.ghost l f = _; rw [e, hf.ghost])⟩
      · have hnews := hboth hn
        exact ⟨hlen, ⟨news, hr, hl, hnew⟩, ⟨[f.toG l], by show logRef s1.ghost l f = _; rw [e, hf.ghost], hgnew⟩,
          .inl (by show s1.relocs.map Reloc.rgn = _; rw [hr, hnews]; simp)⟩
    | bound bs bo =>
      dsimp only
      rcases hlog with ⟨e, _⟩ | ⟨e, hn⟩
      · exact ⟨hlen, ⟨news, hr, hl, hnew⟩, ⟨[], by show logRef s1.ghost l f = _; rw [e, hf.ghost]; simp, fun _ h => by cases h⟩,
          .inr (by show logRef s1.ghost l f = _; rw [e, hf.ghost])⟩
      · have hnews := hboth hn
        exact ⟨hlen, ⟨news, hr, hl, hnew⟩, ⟨[f.toG l], by show logRef s1.ghost l f = _; rw [e, hf.ghost], hgnew⟩,
          .inl (by show s1.relocs.map Reloc.rgn = _; rw [hr, hnews]; simp)⟩

/-- a plain reference site: `emit lead; new_fixup; emit tail`, no relocation -/
theorem grow_site (s : State) (hc : s.cur < s.secs.length) (lead tail : Bytes) (l : Nat) (f : Fixup)
    (hsec : f.sec = s.cur) (hoff : s.curOff ≤ f.offset) : Grow s ((newFixup (s.emit lead) l f).emit tail) :=
  grow_newFixup_emit s (s.emit lead) (frame_emit _ _ hc) rfl l f tail [] (by show s.relocs.map Reloc.rgn = _; simp) (by simp) (fun _ h => by cases h) hsec hoff (fun _ => rfl)

/-- `new_reloc_entry` (+ caller's assignments) followed by the emission of the whole region -/
theorem grow_newReloc_emit (s : State) (hc : s.cur < s.secs.length) (re : Reloc) (bytes : Bytes)
    (h1 : re.srcSec = s.cur) (h2 : re.srcOff = s.curOff) (h3 : re.regionSize ≤ bytes.length)
    (h4 : re.fmt.valueOffset + re.fmt.valueSize ≤ re.regionSize) (h5 : 0 < re.fmt.valueSize) :
    Grow s ((newReloc s re).1.emit bytes) :=
  grow_of_frame (frame_newReloc_emit s re bytes hc) trivial [re.rgn]
    (by show (s.relocs ++ [re]).map Reloc.rgn = _; simp) (by simp)
    (by intro r hr; simp only [List.mem_singleton] at hr; subst hr
        exact ⟨h1, by show s.curOff ≤ re.srcOff; omega, rinb_emit s hc bytes re.rgn h1 h2 h3 h4 h5⟩)

theorem grow_reloc_fixup (s : State) (hc : s.cur < s.secs.length) (re : Reloc) (lead tail : Bytes) (l : Nat) (f : Fixup)
    (h1 : re.srcSec = s.cur) (h2 : re.srcOff = s.curOff) (h3 : re.regionSize ≤ lead.length + tail.length)
    (h4 : re.fmt.valueOffset + re.fmt.valueSize ≤ re.regionSize) (h5 : 0 < re.fmt.valueSize)
    (hsec : f.sec = s.cur) (hoff : s.curOff ≤ f.offset) (hlr : f.lr ≠ none) :
    Grow s ((newFixup ((newReloc s re).1.emit lead) l f).emit tail) := by
  refine grow_newFixup_emit s _ (frame_newReloc_emit s re lead hc) rfl l f tail [re.rgn]
    (by show (s.relocs ++ [re]).map Reloc.rgn = _; simp) (by simp) ?_ hsec hoff (fun hn => absurd hn hlr)
  intro r hr
  simp only [List.mem_singleton] at hr; subst hr
  exact ⟨h1, by show s.curOff ≤ re.srcOff; omega, rinb_emit2 s hc lead tail re.rgn h1 h2 h3 h4 h5⟩

theorem grow_reloc_fixup0 (s : State) (hc : s.cur < s.secs.length) (re : Reloc) (tail : Bytes) (l : Nat) (f : Fixup)
    (h1 : re.srcSec = s.cur) (h2 : re.srcOff = s.curOff) (h3 : re.regionSize ≤ tail.length)
    (h4 : re.fmt.valueOffset + re.fmt.valueSize ≤ re.regionSize) (h5 : 0 < re.fmt.valueSize)
    (hsec : f.sec = s.cur) (hoff : s.curOff ≤ f.offset) (hlr : f.lr ≠ none) :
    Grow s ((newFixup (newReloc s re).1 l f).emit tail) := by
  refine grow_newFixup_emit s _ (frame_newReloc s re hc) rfl l f tail [re.rgn]
    (by show (s.relocs ++ [re]).map Reloc.rgn = _; simp) (by simp) ?_ hsec hoff (fun hn => absurd hn hlr)
  intro r hr
  simp only [List.mem_singleton] at hr; subst hr
  exact ⟨h1, by show s.curOff ≤ re.srcOff; omega, rinb_emit s hc tail re.rgn h1 h2 h3 h4 h5⟩

theorem grow_exprs_emit (s : State) (hc : s.cur < s.secs.length) (re : Reloc) (e : List (Nat × Nat)) (bytes : Bytes)
    (h1 : re.srcSec = s.cur) (h2 : re.srcOff = s.curOff) (h3 : re.regionSize ≤ bytes.length)
    (h4 : re.fmt.valueOffset + re.fmt.valueSize ≤ re.regionSize) (h5 : 0 < re.fmt.valueSize) :
    Grow s (State.emit { (newReloc s re).1 with exprs := e } bytes) :=
  grow_of_frame (frame_exprs_emit s re e bytes hc) trivial [re.rgn]
    (by show (s.relocs ++ [re]).map Reloc.rgn = _; simp) (by simp)
    (by intro r hr; simp only [List.mem_singleton] at hr; subst hr
        exact ⟨h1, by show s.curOff ≤ re.srcOff; omega, rinb_emit s hc bytes re.rgn h1 h2 h3 h4 h5⟩)

theorem relocs_rgn_modify (rs : List Reloc) (i : Nat) (f : Reloc → Reloc) (hf : ∀ r, (f r).rgn = r.rgn) :
    (modifyReloc rs i f).map Reloc.rgn = rs.map Reloc.rgn := by
  unfold modifyReloc
  cases h : rs[i]? with
  | none => rfl
  | some r =>
    dsimp only
    apply List.ext_getElem?
    intro j
    simp only [List.getElem?_map]
    by_cases hij : i = j
    · subst hij
      rw [List.getElem?_set_self (getElem?_lt h), h]
      simp [hf]
    · rw [List.getElem?_set_ne hij]

theorem bindStep_rgn (l toSec : Nat) (toOff : BitVec 64) (acc : Acc) (f : Fixup) :
    (bindStep l toSec toOff acc f).relocs.map Reloc.rgn = acc.relocs.map Reloc.rgn := by
  unfold bindStep
  split
  · exact relocs_rgn_modify _ _ _ (fun r => rfl)
  · split
    · rfl
    · dsimp only
      split <;> rfl

theorem bindLoop_rgn (l toSec : Nat) (toOff : BitVec 64) : ∀ (fx : List Fixup) (acc : Acc),
    (fx.foldl (bindStep l toSec toOff) acc).relocs.map Reloc.rgn = acc.relocs.map Reloc.rgn := by
  intro fx
  induction fx with
  | nil => intro acc; rfl
  | cons f rest ih => intro acc; simp only [List.foldl_cons]; rw [ih, bindStep_rgn]

theorem grow_bindLabel (s : State) (h : Inv s) (l sec : Nat) (off : BitVec 64) : Grow s (bindLabel s l sec off).1 := by
  have hrefl : Grow s s := grow_frame (Frame.refl h.cur) rfl
  unfold bindLabel
  cases hle : s.labels[l]? with
  | none => exact hrefl
  | some le =>
    dsimp only
    by_cases hs : sec ≥ s.secs.length
    · simp only [hs, if_true]; exact hrefl
    · simp only [hs, if_false]
      cases le with
      | bound _ _ => exact hrefl
      | unbound fx =>
        dsimp only
        have hlab := h.lab l fx hle
        have LS := bindLoop_spec l sec off fx { secs := s.secs, relocs := s.relocs, kept := [], resolved := 0, err := .ok }
          (fun f hf hn => h.fmts _ (hlab.1 f hf hn)) (fun f hf hn => h.inb _ (hlab.1 f hf hn)) hlab.2
        refine ⟨LenExt.of_shape LS.shape, ⟨[], ?_, by simp, fun _ h => by cases h⟩, ⟨[], by simp, fun _ h => by cases h⟩, .inr rfl⟩
        show (fx.foldl (bindStep l sec off) _).relocs.map Reloc.rgn = _
        rw [bindLoop_rgn]; simp

theorem grow_ext {s s' : State} (he : SecsExt s.secs s'.secs) (hr : s'.relocs = s.relocs) (hg : s'.ghost = s.ghost) : Grow s s' :=
  ⟨LenExt.of_ext he, ⟨[], by rw [hr]; simp, by simp, fun _ h => by cases h⟩, ⟨[], by rw [hg]; simp, fun _ h => by cases h⟩, .inr hg⟩

theorem grow_emit (s : State) (bs : Bytes) : Grow s (s.emit bs) :=
  grow_ext (secsExt_modifySec _ _ _ (fun x => ⟨bs, rfl⟩)) rfl rfl

theorem grow_refl (s : State) : Grow s s := grow_ext (SecsExt.refl _) rfl rfl

theorem leBytes_length (v n : Nat) : (leBytes v n).length = n := by
  induction n generalizing v with
  | zero => rfl
  | succ k ih => simp [leBytes, ih]

theorem zeros_length (n : Nat) : (zeros n).length = n := by simp [zeros]

theorem pow2UpTo8_pos {n : Nat} (h : ¬ (!isPow2UpTo8 n) = true) : 0 < n := by
  unfold isPow2UpTo8 at h
  rcases Nat.eq_zero_or_pos n with h0 | h0
  · subst h0; simp at h
  · exact h0

theorem curOff_addAddress (s : State) (a : BitVec 64) (hc : s.cur < s.secs.length) :
    (addAddress s a).cur = s.cur ∧ (addAddress s a).curOff = s.curOff ∧ (addAddress s a).relocs = s.relocs ∧
    (addAddress s a).ghost = s.ghost ∧ (s.addrTabSec ≠ some s.cur → True) := by
  have hs : s.secs[s.cur]? = some (s.secs[s.cur]'hc) := by simp [hc]
  unfold addAddress
  split
  · exact ⟨rfl, rfl, rfl, rfl, fun _ => trivial⟩
  · cases hx : s.addrTabSec with
    | some i =>
      dsimp only
      refine ⟨rfl, ?_, rfl, rfl, fun _ => trivial⟩
      unfold State.curOff
      dsimp only
      by_cases hi : i = s.cur
      · subst hi; rw [modifySec_get_same _ _ _ _ hs, hs]
      · rw [modifySec_get_ne _ _ _ _ hi]
    | none =>
      dsimp only
      refine ⟨rfl, ?_, rfl, rfl, fun _ => trivial⟩
      unfold State.curOff
      dsimp only
      have hne : s.secs.length ≠ s.cur := by omega
      rw [modifySec_get_ne _ _ _ _ hne, List.getElem?_append_left hc]

/-- a step that adds nothing, followed by a `Grow` step from a state with the same cursor -/
theorem grow_after {a b c : State} (he : SecsExt a.secs b.secs) (hr : b.relocs = a.relocs) (hg : b.ghost = a.ghost)
    (hc : b.cur = a.cur) (ho : b.curOff = a.curOff) (g : Grow b c) : Grow a c := by
  obtain ⟨news, h1, h2, h3⟩ := g.newR
  obtain ⟨newg, h4, h5⟩ := g.newG
  refine ⟨fun i sec hs => ?_, ⟨news, by rw [h1, hr], h2, fun r hx => by rw [← hc, ← ho]; exact h3 r hx⟩,
    ⟨newg, by rw [h4, hg], fun x hx => by rw [← hc, ← ho]; exact h5 x hx⟩, ?_⟩
  · obtain ⟨s1, e1, e2⟩ := (LenExt.of_ext he) i sec hs
    obtain ⟨s2, e3, e4⟩ := g.len i s1 e1
    exact ⟨s2, e3, by omega⟩
  · rcases g.notBoth with e | e
    · exact .inl (by rw [e, hr])
    · exact .inr (by rw [e, hg])

theorem step_grow (s : State) (op : Op) (hop : op.early = true) (h : Inv s) : Grow s (step s op).1 := by
  have hc := h.cur
  cases op with
  | newLabel => simp only [step]; exact grow_ext (SecsExt.refl _) rfl rfl
  | newSection a o =>
    simp only [step]; unfold newSection
    split
    · exact grow_refl s
    · exact grow_ext (secsExt_append _ _) rfl rfl
  | «section» id =>
    simp only [step]; unfold switchSection
    split
    · exact grow_ext (SecsExt.refl _) rfl rfl
    · exact grow_refl s
  | bind l => simp only [step]; unfold bind; exact grow_bindLabel s h _ _ _
  | align n =>
    simp only [step]; unfold alignZero
    repeat' split
    all_goals first | exact grow_refl s | exact grow_emit s _
  | embed bs => simp only [step]; unfold embed; exact grow_emit s _
  | jmp k opt l =>
    simp only [step]
    split
    · exact grow_refl s
    · unfold x86JmpLabel
      cases hl : s.labels[l]? with
      | none => exact grow_refl s
      | some le =>
        dsimp only
        split
        · split
          · exact grow_refl s
          · unfold emitJmpCallRel
            dsimp only
            repeat' split
            all_goals first | exact grow_refl s | exact grow_emit s _
        · repeat' split
          all_goals first
            | exact grow_refl s
            | exact grow_site s hc _ _ l _ rfl (by show s.curOff ≤ s.curOff + _ + _; omega)
  | mem k l d =>
    simp only [step]
    split
    · exact grow_refl s
    · unfold x86MemLabel
      cases hl : s.labels[l]? with
      | none => exact grow_refl s
      | some le =>
        dsimp only
        split
        · cases le with
          | bound lsec loff =>
            dsimp only
            exact grow_newReloc_emit s hc _ _ rfl rfl (by simp [zeros_length]; omega) (by dsimp only [simpleValue]; omega) (by dsimp only [simpleValue]; omega)
          | unbound fx =>
            dsimp only
            exact grow_reloc_fixup s hc _ _ _ l _ rfl rfl (by simp [zeros_length]; omega) (by dsimp only [simpleValue]; omega)
              (by dsimp only [simpleValue]; omega) rfl (by show s.curOff ≤ s.curOff + _; omega) (by simp)
        · cases le with
          | unbound fx =>
            dsimp only
            split
            · exact grow_refl s
            · exact grow_site s hc _ _ l _ rfl (by show s.curOff ≤ s.curOff + _; omega)
          | bound lsec loff =>
            dsimp only
            split
            · split
              · exact grow_refl s
              · exact grow_emit s _
            · split
              · exact grow_refl s
              · exact grow_site s hc _ _ l _ rfl (by show s.curOff ≤ s.curOff + _; omega)
  | a64 k l a =>
    simp only [step]
    split
    · exact grow_refl s
    · unfold a64RelLabel
      cases hl : s.labels[l]? with
      | none => exact grow_refl s
      | some le =>
        dsimp only
        split
        · split
          · exact grow_emit s _
          · exact grow_refl s
        · exact grow_newFixup_emit s s (Frame.refl hc) rfl l _ _ [] (by simp) (by simp) (fun _ hx => by cases hx) rfl
            (Nat.le_refl _) (fun _ => rfl)
  | elabel l n =>
    simp only [step]; unfold embedLabel
    cases hl : s.labels[l]? with
    | none => exact grow_refl s
    | some le =>
      cases le with
      | bound lsec loff =>
        dsimp only
        repeat' (first | split | dsimp only)
        all_goals first
          | exact grow_refl s
          | exact grow_newReloc_emit s hc _ _ rfl rfl (by simp [zeros_length]) (by dsimp only [simpleValue]; omega)
              (by dsimp only [simpleValue]; exact pow2UpTo8_pos ‹_›)
      | unbound fx =>
        dsimp only
        repeat' (first | split | dsimp only)
        all_goals first
          | exact grow_refl s
          | exact grow_reloc_fixup0 s hc _ _ l _ rfl rfl (by simp [zeros_length]) (by dsimp only [simpleValue]; omega)
              (by dsimp only [simpleValue]; exact pow2UpTo8_pos ‹_›) rfl (Nat.le_refl _) (by simp)
  | edelta l b n =>
    simp only [step]; unfold embedLabelDelta
    repeat' (first | split | dsimp only)
    all_goals first
      | exact grow_refl s
      | exact grow_emit s _
      | exact grow_exprs_emit s hc _ _ _ rfl rfl (by simp [zeros_length]) (by dsimp only [simpleValue]; omega)
          (by dsimp only [simpleValue]; exact pow2UpTo8_pos ‹_›)
  | vsize i v =>
    simp only [step]; unfold setVirtSize
    split
    · exact grow_ext (secsExt_modifySec _ _ _ (fun x => ⟨[], by simp⟩)) rfl rfl
    · exact grow_refl s
  | flatten => simp only [step]; exact grow_ext (frame_flatten s hc).secs (by unfold flatten; dsimp only; split <;> rfl) (frame_flatten s hc).ghost
  | resolve => cases hop
  | relocate b => cases hop
  | jmpAbs k opt t =>
    simp only [step]
    split
    · exact grow_refl s
    · unfold x86JmpAbs emitJmpCallRel
      dsimp only
      have hA := curOff_addAddress s t hc
      have hAf := frame_addAddress s t hc
      repeat' split
      all_goals first
        | exact grow_refl s
        | exact grow_emit s _
        | exact grow_newReloc_emit s hc _ _ rfl rfl (by simp only [List.length_append, zeros_length, List.length_cons, List.length_nil]; omega) (by dsimp only [fmtS, simpleValue]; omega)
            (by dsimp only [fmtS, simpleValue]; omega)
        | exact grow_after hAf.secs hA.2.2.1 hA.2.2.2.1 hA.1 hA.2.1
            (grow_newReloc_emit (addAddress s t) hAf.cur _ _ hA.1.symm hA.2.1.symm (by simp only [List.length_append, zeros_length, List.length_cons, List.length_nil]; omega)
              (by dsimp only [fmtS, simpleValue]; omega) (by dsimp only [fmtS, simpleValue]; omega))
  | a64Abs k t =>
    simp only [step]
    split
    · exact grow_refl s
    · unfold a64RelAbs
      dsimp only
      repeat' split
      all_goals first
        | exact grow_refl s
        | exact grow_emit s _
        | exact grow_newReloc_emit s hc _ _ rfl rfl (by simp [leBytes_length]) (by dsimp only; cases k <;> decide) (by dsimp only; cases k <;> decide)

theorem step_rinv (s : State) (op : Op) (hop : op.early = true) (h : Inv s) (hr : RInv s) : RInv (step s op).1 :=
  rinv_grow hr h (step_grow s op hop h)

theorem run_rinv (s : State) (ops : List Op) (hops : ∀ op ∈ ops, op.early = true) (h : Inv s) (hr : RInv s) :
    RInv (run s ops) ∧ Inv (run s ops) := by
  induction ops generalizing s with
  | nil => exact ⟨hr, h⟩
  | cons op rest ih =>
    have ho := hops op List.mem_cons_self
    exact ih _ (fun o h' => hops o (List.mem_cons_of_mem _ h')) (step_inv s op ho h) (step_rinv s op ho h hr)

end AsmjitVerif.CodeHolder
