/- every assembling operation is a `Grow` step (Lemmas/RelInv.lean), hence keeps the region-ownership invariant `RInv`. -/
import AsmjitVerif.Lemmas.RelInv
namespace AsmjitVerif.CodeHolder
open AsmjitVerif.Offset

theorem grow_of_frame {s s' : State} (f : Frame s s') (ht : s'.addrTabSec = s.addrTabSec) (hcu : s'.cur = s.cur) (news : List Rgn)
    (hr : s'.relocs.map Reloc.rgn = s.relocs.map Reloc.rgn ++ news) (hl : news.length ≤ 1)
    (hnew : ∀ r ∈ news, r.sec = s.cur ∧ s.curOff ≤ r.off ∧ RInB s'.secs r ∧ RZero s'.secs r) : Grow s s' :=
  ⟨LenExt.of_ext f.secs, fun g hg _ => field_ext f.secs hg, ⟨news, hr, hl, hnew⟩,
   ⟨[], by rw [f.ghost]; simp, fun _ h => by cases h⟩, .inr f.ghost, .inl ht, by rw [ht, hcu]; exact id⟩

theorem grow_ext {s s' : State} (he : SecsExt s.secs s'.secs) (hr : s'.relocs = s.relocs) (hg : s'.ghost = s.ghost)
    (ht : s'.addrTabSec = s.addrTabSec) (hco : s.addrTabSec ≠ some s.cur → s'.addrTabSec ≠ some s'.cur) : Grow s s' :=
  ⟨LenExt.of_ext he, fun g hgi _ => field_ext he hgi, ⟨[], by rw [hr]; simp, by simp, fun _ h => by cases h⟩,
   ⟨[], by rw [hg]; simp, fun _ h => by cases h⟩, .inr hg, .inl ht, hco⟩

theorem grow_emit (s : State) (bs : Bytes) : Grow s (s.emit bs) :=
  grow_ext (secsExt_modifySec _ _ _ (fun x => ⟨bs, rfl⟩)) rfl rfl rfl id

theorem grow_refl (s : State) : Grow s s := grow_ext (SecsExt.refl _) rfl rfl rfl id

/-- what a relocation site must establish about the bytes it emits (`bytes` = everything emitted for the instruction / datum) -/
structure SiteOK (s : State) (r : Rgn) (bytes : Bytes) : Prop where
  sec  : r.sec = s.cur
  off  : r.off = s.curOff
  size : r.size ≤ bytes.length
  val  : r.fmt.valueOffset + r.fmt.valueSize ≤ r.size
  pos  : 0 < r.fmt.valueSize
  fmt  : ({ r.fmt with valueOffset := 0 } : OffsetFormat) ∈ formatsProved
  tab  : r.ty = .x64AddressEntry → 2 ≤ r.fmt.valueOffset
  zero : ∃ old, loadLE bytes r.fmt.valueOffset r.fmt.valueSize = some old ∧
           (if r.fmt.valueSize = 8 then old = 0 else BitVec.ofNat 32 old &&& fieldMask32 r.fmt = 0#32)

theorem rgn_emit (s : State) (hcur : s.cur < s.secs.length) (bytes : Bytes) (r : Rgn) (h : SiteOK s r bytes) :
    RInB (modifySec s.secs s.cur (fun sec => { sec with buf := sec.buf ++ bytes })) r ∧
    RZero (modifySec s.secs s.cur (fun sec => { sec with buf := sec.buf ++ bytes })) r := by
  have hs : s.secs[s.cur]? = some (s.secs[s.cur]'hcur) := by simp [hcur]
  have hco : s.curOff = (s.secs[s.cur]'hcur).buf.length := by unfold State.curOff; rw [hs]
  have hget := modifySec_get_same s.secs s.cur (fun sec => { sec with buf := sec.buf ++ bytes }) _ hs
  constructor
  · refine ⟨_, by rw [h.sec]; exact hget, ?_, h.val, h.pos, h.fmt, h.tab⟩
    have := h.off; have := h.size
    simp only [List.length_append]; omega
  · obtain ⟨old, ho, hz⟩ := h.zero
    refine ⟨old, ?_, hz⟩
    unfold field
    show (_[r.sec]?).bind _ = _
    rw [h.sec, hget]
    simp only [Option.bind_some]
    show loadLE (_ ++ bytes) (r.off + r.fmt.valueOffset) _ = _
    rw [h.off, hco, loadLE_append_right]
    exact ho

theorem modifySec_twice (secs : List Section) (c : Nat) (b1 b2 : Bytes) :
    modifySec (modifySec secs c (fun sec => { sec with buf := sec.buf ++ b1 })) c (fun sec => { sec with buf := sec.buf ++ b2 }) =
    modifySec secs c (fun sec => { sec with buf := sec.buf ++ (b1 ++ b2) }) := by
  cases hs : secs[c]? with
  | none => simp [modifySec, hs]
  | some sec =>
    apply List.ext_getElem?
    intro j
    by_cases hj : c = j
    · subst hj
      rw [modifySec_get_same _ _ _ _ (modifySec_get_same _ _ _ _ hs), modifySec_get_same _ _ _ _ hs]
      simp [List.append_assoc]
    · rw [modifySec_get_ne _ _ _ _ hj, modifySec_get_ne _ _ _ _ hj, modifySec_get_ne _ _ _ _ hj]

/-- `new_fixup` then emission, on top of a frame step `s → s1` that may have added relocation regions `news` -/
theorem grow_newFixup_emit (s s1 : State) (hf : Frame s s1) (hcur : s1.cur = s.cur) (ht : s1.addrTabSec = s.addrTabSec)
    (l : Nat) (f : Fixup) (tail : Bytes)
    (news : List Rgn) (hr : s1.relocs.map Reloc.rgn = s.relocs.map Reloc.rgn ++ news) (hl : news.length ≤ 1)
    (hnew : ∀ r ∈ news, r.sec = s.cur ∧ s.curOff ≤ r.off ∧
      RInB (modifySec s1.secs s1.cur (fun sec => { sec with buf := sec.buf ++ tail })) r ∧
      RZero (modifySec s1.secs s1.cur (fun sec => { sec with buf := sec.buf ++ tail })) r)
    (hsec : f.sec = s.cur) (hoff : s.curOff ≤ f.offset) (hboth : f.lr = none → news = []) :
    Grow s ((newFixup s1 l f).emit tail) := by
  have hext : SecsExt s.secs (modifySec s1.secs s1.cur (fun sec => { sec with buf := sec.buf ++ tail })) :=
    hf.secs.trans (secsExt_modifySec _ _ _ (fun x => ⟨tail, rfl⟩))
  have hlen := LenExt.of_ext hext
  have hkeep : ∀ g, InB s.secs g → (∀ x ∈ s.ghost, D g x) →
      field (modifySec s1.secs s1.cur (fun sec => { sec with buf := sec.buf ++ tail })) g = field s.secs g :=
    fun g hg _ => field_ext hext hg
  have hco : s.addrTabSec ≠ some s.cur → s1.addrTabSec ≠ some s1.cur := by rw [ht, hcur]; exact id
  have hlog : (logRef s1.ghost l f = s1.ghost ∧ (f.lr = none → False)) ∨ (logRef s1.ghost l f = s1.ghost ++ [f.toG l] ∧ f.lr = none) := by
    unfold logRef
    cases hx : f.lr with
    | none => exact .inr ⟨rfl, rfl⟩
    | some _ => exact .inl ⟨rfl, fun h => by cases h⟩
  have hgnew : ∀ g ∈ [f.toG l], g.sec = s.cur ∧ s.curOff ≤ g.offset := by
    intro g hg; simp only [List.mem_singleton] at hg; subst hg; exact ⟨hsec, hoff⟩
  unfold newFixup
  cases hlab : s1.labels[l]? with
  | none =>
    exact ⟨hlen, hkeep, ⟨news, hr, hl, hnew⟩, ⟨[], by show s1.ghost = _; rw [hf.ghost]; simp, fun _ h => by cases h⟩, .inr hf.ghost,
      .inl ht, hco⟩
  | some le =>
    cases le with
    | unbound fx =>
      dsimp only
      rcases hlog with ⟨e, _⟩ | ⟨e, hn⟩
      · exact ⟨hlen, hkeep, ⟨news, hr, hl, hnew⟩, ⟨[], by show logRef s1.ghost l f = _; rw [e, hf.ghost]; simp, fun _ h => by cases h⟩,
          .inr (by show logRef s1.ghost l f = _; rw [e, hf.ghost]), .inl ht, hco⟩
      · have hnews := hboth hn
        exact ⟨hlen, hkeep, ⟨news, hr, hl, hnew⟩, ⟨[f.toG l], by show logRef s1.ghost l f = _; rw [e, hf.ghost], hgnew⟩,
          .inl (by show s1.relocs.map Reloc.rgn = _; rw [hr, hnews]; simp), .inl ht, hco⟩
    | bound bs bo =>
      dsimp only
      rcases hlog with ⟨e, _⟩ | ⟨e, hn⟩
      · exact ⟨hlen, hkeep, ⟨news, hr, hl, hnew⟩, ⟨[], by show logRef s1.ghost l f = _; rw [e, hf.ghost]; simp, fun _ h => by cases h⟩,
          .inr (by show logRef s1.ghost l f = _; rw [e, hf.ghost]), .inl ht, hco⟩
      · have hnews := hboth hn
        exact ⟨hlen, hkeep, ⟨news, hr, hl, hnew⟩, ⟨[f.toG l], by show logRef s1.ghost l f = _; rw [e, hf.ghost], hgnew⟩,
          .inl (by show s1.relocs.map Reloc.rgn = _; rw [hr, hnews]; simp), .inl ht, hco⟩

/-- a plain reference site: `emit lead; new_fixup; emit tail`, no relocation -/
theorem grow_site (s : State) (hc : s.cur < s.secs.length) (lead tail : Bytes) (l : Nat) (f : Fixup)
    (hsec : f.sec = s.cur) (hoff : s.curOff ≤ f.offset) : Grow s ((newFixup (s.emit lead) l f).emit tail) :=
  grow_newFixup_emit s (s.emit lead) (frame_emit _ _ hc) rfl rfl l f tail [] (by show s.relocs.map Reloc.rgn = _; simp) (by simp)
    (fun _ h => by cases h) hsec hoff (fun _ => rfl)

/-- `new_reloc_entry` (+ caller's assignments) followed by the emission of the whole region -/
theorem grow_newReloc_emit (s : State) (hc : s.cur < s.secs.length) (re : Reloc) (bytes : Bytes) (h : SiteOK s re.rgn bytes) :
    Grow s ((newReloc s re).1.emit bytes) :=
  grow_of_frame (frame_newReloc_emit s re bytes hc) rfl rfl [re.rgn]
    (by show (s.relocs ++ [re]).map Reloc.rgn = _; simp) (by simp)
    (by intro r hr; simp only [List.mem_singleton] at hr; subst hr
        have := rgn_emit s hc bytes re.rgn h
        exact ⟨h.sec, by rw [h.off]; exact Nat.le_refl _, this.1, this.2⟩)

theorem grow_exprs_emit (s : State) (hc : s.cur < s.secs.length) (re : Reloc) (e : List (Nat × Nat)) (bytes : Bytes)
    (h : SiteOK s re.rgn bytes) : Grow s (State.emit { (newReloc s re).1 with exprs := e } bytes) :=
  grow_of_frame (frame_exprs_emit s re e bytes hc) rfl rfl [re.rgn]
    (by show (s.relocs ++ [re]).map Reloc.rgn = _; simp) (by simp)
    (by intro r hr; simp only [List.mem_singleton] at hr; subst hr
        have := rgn_emit s hc bytes re.rgn h
        exact ⟨h.sec, by rw [h.off]; exact Nat.le_refl _, this.1, this.2⟩)

theorem grow_reloc_fixup (s : State) (hc : s.cur < s.secs.length) (re : Reloc) (lead tail : Bytes) (l : Nat) (f : Fixup)
    (h : SiteOK s re.rgn (lead ++ tail)) (hsec : f.sec = s.cur) (hoff : s.curOff ≤ f.offset) (hlr : f.lr ≠ none) :
    Grow s ((newFixup ((newReloc s re).1.emit lead) l f).emit tail) := by
  refine grow_newFixup_emit s _ (frame_newReloc_emit s re lead hc) rfl rfl l f tail [re.rgn]
    (by show (s.relocs ++ [re]).map Reloc.rgn = _; simp) (by simp) ?_ hsec hoff (fun hn => absurd hn hlr)
  intro r hr
  simp only [List.mem_singleton] at hr; subst hr
  have := rgn_emit s hc (lead ++ tail) re.rgn h
  rw [← modifySec_twice] at this
  exact ⟨h.sec, by rw [h.off]; exact Nat.le_refl _, this.1, this.2⟩

theorem grow_reloc_fixup0 (s : State) (hc : s.cur < s.secs.length) (re : Reloc) (tail : Bytes) (l : Nat) (f : Fixup)
    (h : SiteOK s re.rgn tail) (hsec : f.sec = s.cur) (hoff : s.curOff ≤ f.offset) (hlr : f.lr ≠ none) :
    Grow s ((newFixup (newReloc s re).1 l f).emit tail) := by
  refine grow_newFixup_emit s _ (frame_newReloc s re hc) rfl rfl l f tail [re.rgn]
    (by show (s.relocs ++ [re]).map Reloc.rgn = _; simp) (by simp) ?_ hsec hoff (fun hn => absurd hn hlr)
  intro r hr
  simp only [List.mem_singleton] at hr; subst hr
  have := rgn_emit s hc tail re.rgn h
  exact ⟨h.sec, by rw [h.off]; exact Nat.le_refl _, this.1, this.2⟩

theorem relocs_rgn_modify (rs : List Reloc) (i : Nat) (f : Reloc → Reloc) (hf : ∀ r, (f r).rgn = r.rgn) :
    (modifyReloc rs i f).map Reloc.rgn = rs.map Reloc.rgn := by
  unfold modifyReloc
  cases h : rs[i]? with
  | none => rfl
  | some r =>
    dsimp only
    apply List.ext_getElem?
    intro j
    simp only [List.getElem?_map]
    by_cases hij : i = j
    · subst hij
      rw [List.getElem?_set_self (getElem?_lt h), h]
      simp [hf]
    · rw [List.getElem?_set_ne hij]

theorem bindStep_rgn (l toSec : Nat) (toOff : BitVec 64) (acc : Acc) (f : Fixup) :
    (bindStep l toSec toOff acc f).relocs.map Reloc.rgn = acc.relocs.map Reloc.rgn := by
  unfold bindStep
  split
  · exact relocs_rgn_modify _ _ _ (fun r => rfl)
  · split
    · rfl
    · dsimp only
      split <;> rfl

theorem bindLoop_rgn (l toSec : Nat) (toOff : BitVec 64) : ∀ (fx : List Fixup) (acc : Acc),
    (fx.foldl (bindStep l toSec toOff) acc).relocs.map Reloc.rgn = acc.relocs.map Reloc.rgn := by
  intro fx
  induction fx with
  | nil => intro acc; rfl
  | cons f rest ih => intro acc; simp only [List.foldl_cons]; rw [ih, bindStep_rgn]


theorem leBytes_length (v n : Nat) : (leBytes v n).length = n := by
  induction n generalizing v with
  | zero => rfl
  | succ k ih => simp [leBytes, ih]

theorem zeros_length (n : Nat) : (zeros n).length = n := by simp [zeros]

theorem pow2UpTo8_pos {n : Nat} (h : ¬ (!isPow2UpTo8 n) = true) : 0 < n := by
  unfold isPow2UpTo8 at h
  rcases Nat.eq_zero_or_pos n with h0 | h0
  · subst h0; simp at h
  · exact h0


theorem curOff_addAddress (s : State) (a : BitVec 64) (hc : s.cur < s.secs.length) :
    (addAddress s a).cur = s.cur ∧ (addAddress s a).curOff = s.curOff ∧ (addAddress s a).relocs = s.relocs ∧
    (addAddress s a).ghost = s.ghost ∧ (s.addrTabSec ≠ some s.cur → True) := by
  have hs : s.secs[s.cur]? = some (s.secs[s.cur]'hc) := by simp [hc]
  unfold addAddress
  split
  · exact ⟨rfl, rfl, rfl, rfl, fun _ => trivial⟩
  · cases hx : s.addrTabSec with
    | some i =>
      dsimp only
      refine ⟨rfl, ?_, rfl, rfl, fun _ => trivial⟩
      unfold State.curOff
      dsimp only
      by_cases hi : i = s.cur
      · subst hi; rw [modifySec_get_same _ _ _ _ hs, hs]
      · rw [modifySec_get_ne _ _ _ _ hi]
    | none =>
      dsimp only
      refine ⟨rfl, ?_, rfl, rfl, fun _ => trivial⟩
      unfold State.curOff
      dsimp only
      have hne : s.secs.length ≠ s.cur := by omega
      rw [modifySec_get_ne _ _ _ _ hne, List.getElem?_append_left hc]


theorem grow_bindLabel (s : State) (h : Inv s) (l sec : Nat) (off : BitVec 64) : Grow s (bindLabel s l sec off).1 := by
  unfold bindLabel
  cases hle : s.labels[l]? with
  | none => exact grow_refl s
  | some le =>
    dsimp only
    by_cases hs : sec ≥ s.secs.length
    · simp only [hs, if_true]; exact grow_refl s
    · simp only [hs, if_false]
      cases le with
      | bound _ _ => exact grow_refl s
      | unbound fx =>
        dsimp only
        split
        · exact grow_refl s
        have hlab := h.lab l fx hle
        have LS := bindLoop_spec l sec off fx { secs := s.secs, relocs := s.relocs, kept := [], resolved := 0, err := .ok }
          (fun f hf hn => h.fmts _ (hlab.1 f hf hn)) (fun f hf hn => h.inb _ (hlab.1 f hf hn)) hlab.2
        refine ⟨LenExt.of_shape LS.shape, ?_, ⟨[], ?_, by simp, fun _ h => by cases h⟩, ⟨[], by simp, fun _ h => by cases h⟩, .inr rfl,
          .inl rfl, id⟩
        · intro g _ hD
          exact LS.frame g (fun f hf hn => hD _ (hlab.1 f hf hn))
        · show (fx.foldl (bindStep l sec off) _).relocs.map Reloc.rgn = _
          rw [bindLoop_rgn]; simp

/-- a step that adds nothing (possibly creating the address table section), followed by a `Grow` step -/
theorem grow_after {a b c : State} (hac : a.cur < a.secs.length) (he : SecsExt a.secs b.secs) (hr : b.relocs = a.relocs)
    (hg : b.ghost = a.ghost) (hc : b.cur = a.cur) (ho : b.curOff = a.curOff)
    (hab : b.addrTabSec = a.addrTabSec ∨ (a.addrTabSec = none ∧ b.addrTabSec = some a.secs.length ∧ a.secs.length < b.secs.length))
    (hbc : c.addrTabSec = b.addrTabSec) (g : Grow b c) : Grow a c := by
  obtain ⟨news, h1, h2, h3⟩ := g.newR
  obtain ⟨newg, h4, h5⟩ := g.newG
  refine ⟨fun i sec hs => ?_, ?_, ⟨news, by rw [h1, hr], h2, fun r hx => by rw [← hc, ← ho]; exact h3 r hx⟩,
    ⟨newg, by rw [h4, hg], fun x hx => by rw [← hc, ← ho]; exact h5 x hx⟩, ?_, ?_, ?_⟩
  · obtain ⟨s1, e1, e2⟩ := (LenExt.of_ext he) i sec hs
    obtain ⟨s2, e3, e4⟩ := g.len i s1 e1
    exact ⟨s2, e3, by omega⟩
  · intro x hx hD
    rw [g.keep x (hx.ext he) (by rw [hg]; exact hD)]
    exact field_ext he hx
  · rcases g.notBoth with e | e
    · exact .inl (by rw [e, hr])
    · exact .inr (by rw [e, hg])
  · rw [hbc]
    rcases hab with e | ⟨e1, e2, e3⟩
    · exact .inl e
    · exact .inr ⟨e1, e2, Nat.lt_of_lt_of_le e3 (lenExt_length g.len)⟩
  · intro hn
    apply g.curOk
    rw [hc]
    rcases hab with e | ⟨_, e, _⟩
    · rw [e]; exact hn
    · rw [e]; intro hx; have := Option.some.inj hx; omega

/-! ### the bytes emitted at relocation sites -/

theorem zl_zeros (n : Nat) : loadLE (zeros n) 0 n = some 0 := by
  have := loadLE_zeros n n 0 [] (by omega); simpa using this
theorem zl_lead (lead : Bytes) (n : Nat) : loadLE (lead ++ zeros n) lead.length n = some 0 := by
  have := loadLE_append_right n lead (zeros n) 0
  simp only [Nat.add_zero] at this; rw [this]; exact zl_zeros n
theorem zl_lead_imm (lead imm : Bytes) (n : Nat) : loadLE (lead ++ (zeros n ++ imm)) lead.length n = some 0 := by
  have := loadLE_append_right n lead (zeros n ++ imm) 0
  simp only [Nat.add_zero] at this; rw [this]; exact loadLE_zeros n n 0 imm (by omega)
theorem zcond (vs : Nat) (m : BitVec 32) : (if vs = 8 then (0 : Nat) = 0 else BitVec.ofNat 32 0 &&& m = 0#32) := by
  split <;> simp

theorem simple_mem (t : OffsetType) (ht : t = .unsigned ∨ t = .signed) (n : Nat) (h : isPow2UpTo8 n = true) :
    ({ simpleValue t n with valueOffset := 0 } : OffsetFormat) ∈ formatsProved := by
  unfold isPow2UpTo8 at h
  simp only [Bool.or_eq_true, decide_eq_true_eq] at h
  rcases ht with rfl | rfl <;> rcases h with ((h | h) | h) | h <;> subst h <;> decide

theorem pow2_of_not {n : Nat} (h : ¬ (!isPow2UpTo8 n) = true) : isPow2UpTo8 n = true := by
  cases hx : isPow2UpTo8 n with
  | true => rfl
  | false => rw [hx] at h; simp at h

theorem fmtSvo_mem (n k : Nat) (hn : n = 1 ∨ n = 4) : ({ ({ fmtS n with valueOffset := k } : OffsetFormat) with valueOffset := 0 } : OffsetFormat) ∈ formatsProved := by
  rcases hn with rfl | rfl
  · show (fS1 : OffsetFormat) ∈ formatsProved; decide
  · show (fS4 : OffsetFormat) ∈ formatsProved; decide
theorem fU4vo_mem (k : Nat) : ({ ({ simpleValue .unsigned 4 with valueOffset := k } : OffsetFormat) with valueOffset := 0 } : OffsetFormat) ∈ formatsProved := by
  show (fU4 : OffsetFormat) ∈ formatsProved; decide
theorem kfmt_mem (k : A64Kind) : ({ k.fmt with valueOffset := 0 } : OffsetFormat) ∈ formatsProved := by
  cases k <;> decide

theorem a64abs_siteOK (s : State) (k : AKind) (re : Reloc) (hf : re.fmt = k.kind.fmt) (hr : re.regionSize = 4)
    (hs : re.srcSec = s.cur) (ho : re.srcOff = s.curOff) (hty : re.type = .absToRel) :
    SiteOK s re.rgn (leBytes k.opcode.toNat 4) := by
  obtain ⟨o, h1, h2⟩ := a64_tail k
  have e8 : k.kind.fmt.valueSize ≠ 8 := by cases k <;> decide
  have e0 : k.kind.fmt.valueOffset = 0 := by cases k <;> rfl
  have e4 : k.kind.fmt.valueOffset + k.kind.fmt.valueSize ≤ 4 := by cases k <;> decide
  have ep : 0 < k.kind.fmt.valueSize := by cases k <;> decide
  refine ⟨hs, ho, ?_, ?_, ?_, ?_, ?_, ⟨o, ?_, ?_⟩⟩
  · show re.regionSize ≤ _; rw [hr, leBytes_length]; exact Nat.le_refl _
  · show re.fmt.valueOffset + re.fmt.valueSize ≤ re.regionSize; rw [hf, hr]; exact e4
  · show 0 < re.fmt.valueSize; rw [hf]; exact ep
  · show ({ re.fmt with valueOffset := 0 } : OffsetFormat) ∈ formatsProved; rw [hf]; exact kfmt_mem _
  · intro hx; have : re.type = .x64AddressEntry := hx; rw [hty] at this; cases this
  · show loadLE _ re.fmt.valueOffset re.fmt.valueSize = _
    rw [hf, e0]; exact h1
  · show (if re.fmt.valueSize = 8 then o = 0 else BitVec.ofNat 32 o &&& fieldMask32 re.fmt = 0#32)
    rw [hf, if_neg e8]; exact h2

/-- the address-table form: `add_address_to_address_table`, then the relocation entry and the instruction -/
theorem grow_tab (s : State) (hc : s.cur < s.secs.length) (t : BitVec 64) (re : Reloc) (bytes : Bytes) (h : SiteOK s re.rgn bytes) :
    Grow s ((newReloc (addAddress s t) re).1.emit bytes) := by
  have hA := curOff_addAddress s t hc
  have hAf := frame_addAddress s t hc
  have hAt : (addAddress s t).addrTabSec = s.addrTabSec ∨
      (s.addrTabSec = none ∧ (addAddress s t).addrTabSec = some s.secs.length ∧ s.secs.length < (addAddress s t).secs.length) := by
    unfold addAddress
    split
    · exact .inl rfl
    · cases hx : s.addrTabSec with
      | some i => exact .inl (by simp [hx])
      | none => exact .inr ⟨rfl, by simp, by simp [modifySec_length]⟩
  exact grow_after hc hAf.secs hA.2.2.1 hA.2.2.2.1 hA.1 hA.2.1 hAt rfl
    (grow_newReloc_emit (addAddress s t) hAf.cur re bytes
      ⟨h.sec.trans hA.1.symm, h.off.trans hA.2.1.symm, h.size, h.val, h.pos, h.fmt, h.tab, h.zero⟩)

theorem grow_x86MemAbsM (s : State) (hc : s.cur < s.secs.length) (sh : AShape) (a : AddrT) (t : BitVec 64) :
    Grow s (x86MemAbsM s sh a t).1 := by
  unfold x86MemAbsM
  dsimp only
  repeat' split
  all_goals first
    | exact grow_refl s
    | exact grow_emit s _
    | exact grow_newReloc_emit s hc _ _ ⟨rfl, rfl, (by simp only [Reloc.rgn, List.length_append, zeros_length]; omega),
        (by dsimp only [Reloc.rgn, fmtS, simpleValue]; omega), (by dsimp only [Reloc.rgn, fmtS, simpleValue]; omega),
        fmtSvo_mem _ _ (.inr rfl), (fun hx => by cases hx),
        ⟨0, (by show loadLE (_ ++ zeros 4 ++ _) _ 4 = _; rw [List.append_assoc]; exact zl_lead_imm _ _ 4), zcond _ _⟩⟩

theorem step_grow (s : State) (op : Op) (hop : op.early = true) (h : Inv s) : Grow s (step s op).1 := by
  have hc := h.cur
  cases op with
  | newLabel => simp only [step]; exact grow_ext (SecsExt.refl _) rfl rfl rfl id
  | newSection a o =>
    simp only [step]; unfold newSection
    split
    · exact grow_refl s
    · exact grow_ext (secsExt_append _ _) rfl rfl rfl id
  | «section» id =>
    simp only [step]; unfold switchSection
    split
    · rename_i hcnd
      exact grow_ext (SecsExt.refl _) rfl rfl rfl (fun _ => hcnd.2)
    · exact grow_refl s
  | bind l => simp only [step]; unfold bind; exact grow_bindLabel s h _ _ _
  | align n =>
    simp only [step]; unfold alignZero
    repeat' split
    all_goals first | exact grow_refl s | exact grow_emit s _
  | embed bs => simp only [step]; unfold embed; exact grow_emit s _
  | jmp k opt l =>
    simp only [step]
    split
    · exact grow_refl s
    · unfold x86JmpLabel
      cases hl : s.labels[l]? with
      | none => exact grow_refl s
      | some le =>
        dsimp only
        split
        · split
          · exact grow_refl s
          · unfold emitJmpCallRel
            dsimp only
            repeat' split
            all_goals first | exact grow_refl s | exact grow_emit s _
        · repeat' split
          all_goals first
            | exact grow_refl s
            | exact grow_site s hc _ _ l _ rfl (by show s.curOff ≤ s.curOff + _ + _; omega)
  | mem k l d =>
    simp only [step]
    split
    · exact grow_refl s
    · unfold x86MemLabel
      cases hl : s.labels[l]? with
      | none => exact grow_refl s
      | some le =>
        dsimp only
        split
        · cases le with
          | bound lsec loff =>
            dsimp only
            exact grow_newReloc_emit s hc _ _ ⟨rfl, rfl, (by simp only [Reloc.rgn, List.length_append, zeros_length]; omega), (by dsimp only [Reloc.rgn, simpleValue]; omega),
              (by dsimp only [Reloc.rgn, simpleValue]; omega), fU4vo_mem _, (fun hx => by cases hx),
              ⟨0, (by show loadLE (_ ++ zeros 4 ++ _) _ 4 = _; rw [List.append_assoc]; exact zl_lead_imm _ _ 4), zcond _ _⟩⟩
          | unbound fx =>
            dsimp only
            exact grow_reloc_fixup s hc _ _ _ l _ ⟨rfl, rfl, (by simp only [Reloc.rgn, List.length_append, zeros_length]; omega), (by dsimp only [Reloc.rgn, simpleValue]; omega),
              (by dsimp only [Reloc.rgn, simpleValue]; omega), fU4vo_mem _, (fun hx => by cases hx),
              ⟨0, zl_lead_imm _ _ 4, zcond _ _⟩⟩ rfl (by show s.curOff ≤ s.curOff + _; omega) (by simp)
        · cases le with
          | unbound fx =>
            dsimp only
            split
            · exact grow_refl s
            · exact grow_site s hc _ _ l _ rfl (by show s.curOff ≤ s.curOff + _; omega)
          | bound lsec loff =>
            dsimp only
            split
            · split
              · exact grow_refl s
              · exact grow_emit s _
            · split
              · exact grow_refl s
              · exact grow_site s hc _ _ l _ rfl (by show s.curOff ≤ s.curOff + _; omega)
  | a64 k l a =>
    simp only [step]
    split
    · exact grow_refl s
    · unfold a64RelLabel
      cases hl : s.labels[l]? with
      | none => exact grow_refl s
      | some le =>
        dsimp only
        split
        · split
          · exact grow_emit s _
          · exact grow_refl s
        · exact grow_newFixup_emit s s (Frame.refl hc) rfl rfl l _ _ [] (by simp) (by simp) (fun _ hx => by cases hx) rfl
            (Nat.le_refl _) (fun _ => rfl)
  | elabel l n =>
    simp only [step]; unfold embedLabel
    cases hl : s.labels[l]? with
    | none => exact grow_refl s
    | some le =>
      cases le with
      | bound lsec loff =>
        dsimp only
        repeat' (first | split | dsimp only)
        all_goals first
          | exact grow_refl s
          | exact grow_newReloc_emit s hc _ _ ⟨rfl, rfl, (by simp [zeros_length, Reloc.rgn]), (by dsimp only [Reloc.rgn, simpleValue]; omega),
              (by dsimp only [Reloc.rgn, simpleValue]; exact pow2UpTo8_pos ‹_›), simple_mem _ (.inl rfl) _ (pow2_of_not ‹_›),
              (fun hx => by cases hx), ⟨0, zl_zeros _, zcond _ _⟩⟩
      | unbound fx =>
        dsimp only
        repeat' (first | split | dsimp only)
        all_goals first
          | exact grow_refl s
          | exact grow_reloc_fixup0 s hc _ _ l _ ⟨rfl, rfl, (by simp [zeros_length, Reloc.rgn]), (by dsimp only [Reloc.rgn, simpleValue]; omega),
              (by dsimp only [Reloc.rgn, simpleValue]; exact pow2UpTo8_pos ‹_›), simple_mem _ (.inl rfl) _ (pow2_of_not ‹_›),
              (fun hx => by cases hx), ⟨0, zl_zeros _, zcond _ _⟩⟩ rfl (Nat.le_refl _) (by simp)
  | edelta l b n =>
    simp only [step]; unfold embedLabelDelta
    repeat' (first | split | dsimp only)
    all_goals first
      | exact grow_refl s
      | exact grow_emit s _
      | exact grow_exprs_emit s hc _ _ _ ⟨rfl, rfl, (by simp [zeros_length, Reloc.rgn]), (by dsimp only [Reloc.rgn, simpleValue]; omega),
          (by dsimp only [Reloc.rgn, simpleValue]; exact pow2UpTo8_pos ‹_›), simple_mem _ (.inr rfl) _ (pow2_of_not ‹_›),
          (fun hx => by cases hx), ⟨0, zl_zeros _, zcond _ _⟩⟩
  | vsize i v =>
    simp only [step]; unfold setVirtSize
    split
    · exact grow_ext (secsExt_modifySec _ _ _ (fun x => ⟨[], by simp⟩)) rfl rfl rfl id
    · exact grow_refl s
  | flatten =>
    simp only [step]
    exact grow_ext (frame_flatten s hc).secs (by unfold flatten; dsimp only; split <;> rfl) (frame_flatten s hc).ghost
      (by unfold flatten; dsimp only; split <;> rfl) (by unfold flatten; dsimp only; split <;> exact id)
  | resolve => cases hop
  | relocate b => cases hop
  | jmpAbs k opt t =>
    simp only [step]
    split
    · exact grow_refl s
    · unfold x86JmpAbs emitJmpCallRel
      dsimp only
      repeat' split
      all_goals first
        | exact grow_refl s
        | exact grow_emit s _
        | exact grow_newReloc_emit s hc _ _ ⟨rfl, rfl, (by simp only [Reloc.rgn, List.length_append, zeros_length, List.length_cons, List.length_nil]; omega),
            (by dsimp only [Reloc.rgn, fmtS, simpleValue]; omega), (by dsimp only [Reloc.rgn, fmtS, simpleValue]; omega),
            fmtSvo_mem _ _ (by first | exact .inl rfl | exact .inr rfl), (fun hx => by cases hx), ⟨0, zl_lead _ _, zcond _ _⟩⟩
        | exact grow_tab s hc t _ _ ⟨rfl, rfl, (by simp only [Reloc.rgn, List.length_append, zeros_length, List.length_cons, List.length_nil]; omega),
            (by dsimp only [Reloc.rgn, fmtS, simpleValue]; omega), (by dsimp only [Reloc.rgn, fmtS, simpleValue]; omega),
            fmtSvo_mem _ _ (.inr rfl),
            (fun _ => by
              have h32 : (JKind.shape s.arch k).op32 ≠ [] := ‹_›
              have : 0 < (JKind.shape s.arch k).op32.length := List.length_pos_iff.mpr h32
              show 2 ≤ List.length (_ ++ [_] ++ _)
              simp only [List.length_append, List.length_cons, List.length_nil]; omega),
            ⟨0, zl_lead _ _, zcond _ _⟩⟩
  | a64Abs k t =>
    simp only [step]
    split
    · exact grow_refl s
    · unfold a64RelAbs
      dsimp only
      repeat' split
      all_goals first
        | exact grow_refl s
        | exact grow_emit s _
        | exact grow_newReloc_emit s hc _ _ (a64abs_siteOK s k _ rfl rfl rfl rfl rfl)

  | memAbs k a t =>
    simp only [step]
    split
    · exact grow_refl s
    · unfold x86MemAbs
      cases (MKind.ashape s.arch k).moffs with
      | none => exact grow_x86MemAbsM s hc _ _ _
      | some mo =>
        dsimp only
        split
        · exact grow_emit s _
        · exact grow_x86MemAbsM s hc _ _ _

theorem step_rinv (s : State) (op : Op) (hop : op.early = true) (h : Inv s) (hr : RInv s) : RInv (step s op).1 :=
  rinv_grow hr h (step_grow s op hop h)

theorem run_rinv (s : State) (ops : List Op) (hops : ∀ op ∈ ops, op.early = true) (h : Inv s) (hr : RInv s) :
    RInv (run s ops) ∧ Inv (run s ops) := by
  induction ops generalizing s with
  | nil => exact ⟨hr, h⟩
  | cons op rest ih =>
    have ho := hops op List.mem_cons_self
    exact ih _ (fun o h' => hops o (List.mem_cons_of_mem _ h')) (step_inv s op ho h) (step_rinv s op ho h hr)

end AsmjitVerif.CodeHolder
