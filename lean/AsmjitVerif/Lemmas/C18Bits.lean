/-
C18 — the bit-vector primitives (`Model/Bits.lean`) equal the textbook pointwise-bit specification
(`Spec/C18Bits.lean`: `bitAt ws j`, `bitsList ws n`) for ALL inputs.

Main theorems: `getBit_spec`, `getBit_none_iff`, `setBit_spec`, `orBit_spec`, `xorBit_spec` (+ `*_none_iff`),
`bitVectorOp_spec` (`bitVectorFill_spec`, `bitVectorClear_spec`), `ctz_spec`, `indexOf_spec`, `indexOf_none_iff`,
`indexOf_complete`, `iterate_spec`; ArenaBitSet: `WF`, `clearUnused_spec`, `truncate_spec`, `clearAll_spec`,
`fillAll_spec`, `andNot_spec`, `or_spec`, `and_spec`, and (inside the current capacity only)
`append_spec_partial`, `resizeI_spec_partial`, `copyFrom_spec_partial`.
Only `clearLowest_bv` and `mask_bv` use `bv_decide`; everything else is `getLsbD` algebra, induction and `omega`.
-/
import AsmjitVerif.Model.Bits
import AsmjitVerif.Spec.C18Bits
import Std.Tactic.BVDecide
namespace AsmjitVerif.Bits
open AsmjitVerif.Bits.Spec

/-! ### word-level facts -/

theorem ones_eq : ones = BitVec.allOnes 64 := by decide

theorem ones_getLsbD (k : Nat) : ones.getLsbD k = decide (k < 64) := by
  rw [ones_eq, BitVec.getLsbD_allOnes]

theorem getBit_word (w : BitVec 64) (k : Nat) :
    (((w >>> k) &&& 1#64) != 0#64) = w.getLsbD k := by
  have h : (w >>> k) &&& 1#64 = if w.getLsbD k then 1#64 else 0#64 := by
    apply BitVec.eq_of_getLsbD_eq
    intro i hi
    rw [BitVec.getLsbD_and, BitVec.getLsbD_ushiftRight, BitVec.getLsbD_one]
    by_cases h0 : i = 0
    · subst h0; cases hw : w.getLsbD k <;> simp
    · cases hw : w.getLsbD k <;> simp [h0]
  rw [h]
  cases hw : w.getLsbD k <;> simp

theorem one_shift_getLsbD (k i : Nat) :
    ((1#64 : BitVec 64) <<< k).getLsbD i = (decide (i < 64) && decide (i = k)) := by
  rw [BitVec.getLsbD_shiftLeft, BitVec.getLsbD_one, Bool.eq_iff_iff]
  simp
  omega

theorem boolWord_shift_getLsbD (v : Bool) (k i : Nat) :
    (boolWord v <<< k).getLsbD i = (decide (i < 64) && decide (i = k) && v) := by
  unfold boolWord
  cases v
  · simp
  · simp only [if_true, one_shift_getLsbD, Bool.and_true]

theorem setWord_getLsbD (w : BitVec 64) (v : Bool) (k m : Nat) (hm : m < 64) :
    ((w &&& ~~~ (1#64 <<< k)) ||| (boolWord v <<< k)).getLsbD m = if m = k then v else w.getLsbD m := by
  rw [BitVec.getLsbD_or, BitVec.getLsbD_and, BitVec.getLsbD_not, one_shift_getLsbD, boolWord_shift_getLsbD]
  by_cases h : m = k
  · subst h; simp [hm]
  · simp [h, hm]

theorem orWord_getLsbD (w : BitVec 64) (v : Bool) (k m : Nat) (hm : m < 64) :
    (w ||| (boolWord v <<< k)).getLsbD m = if m = k then (w.getLsbD m || v) else w.getLsbD m := by
  rw [BitVec.getLsbD_or, boolWord_shift_getLsbD]
  by_cases h : m = k
  · subst h; simp [hm]
  · simp [h, hm]

theorem xorWord_getLsbD (w : BitVec 64) (v : Bool) (k m : Nat) (hm : m < 64) :
    (w ^^^ (boolWord v <<< k)).getLsbD m = if m = k then (w.getLsbD m ^^ v) else w.getLsbD m := by
  rw [BitVec.getLsbD_xor, boolWord_shift_getLsbD]
  by_cases h : m = k
  · subst h; simp [hm]
  · simp [h, hm]

/-! ### pointwise view of `List.set` -/

theorem bitAt_set (buf : Words) (q : Nat) (w : BitVec 64) (j : Nat) (hq : q < buf.length) :
    bitAt (buf.set q w) j = if j / 64 = q then w.getLsbD (j % 64) else bitAt buf j := by
  unfold bitAt
  by_cases h : j / 64 = q
  · simp [h, List.getD_eq_getElem?_getD, hq]
  · have h' : ¬ q = j / 64 := fun e => h e.symm
    simp [h, h', List.getD_eq_getElem?_getD]

theorem bitAt_of_getElem? (buf : Words) (i : Nat) (w : BitVec 64) (h : buf[i / 64]? = some w) :
    bitAt buf i = w.getLsbD (i % 64) := by
  simp [bitAt, List.getD_eq_getElem?_getD, h]

theorem getElem?_of_lt (buf : Words) (i : Nat) (h : i < 64 * buf.length) :
    ∃ w, buf[i / 64]? = some w := by
  have : i / 64 < buf.length := by omega
  exact ⟨buf[i / 64], by simp [this]⟩

/-! ### 1. `bit_vector_get_bit` -/

theorem getBit_spec (buf : Words) (i : Nat) (h : i < 64 * buf.length) :
    getBit buf i = some (bitAt buf i) := by
  obtain ⟨w, hw⟩ := getElem?_of_lt buf i h
  simp [getBit, hw, bitAt_of_getElem? buf i w hw, getBit_word]

theorem getBit_none_iff (buf : Words) (i : Nat) :
    getBit buf i = none ↔ 64 * buf.length ≤ i := by
  simp [getBit]; omega

example : getBit [0x5#64, 0x2#64] 65 = some true ∧ getBit [0x5#64, 0x2#64] 1 = some false
    ∧ getBit [0x5#64, 0x2#64] 128 = none := by decide

/-! ### 2. `bit_vector_set_bit / or_bit / xor_bit` -/

/-- shared proof of the three single-bit writers: the word `i / 64` is replaced by `w'`, where `w'` differs
from the old word at most in bit `i % 64` -/
theorem writeBit_core (buf : Words) (i : Nat) (w w' : BitVec 64) (nb : Bool) (hw : buf[i / 64]? = some w)
    (hword : ∀ m, m < 64 → w'.getLsbD m = if m = i % 64 then nb else w.getLsbD m) :
    (buf.set (i / 64) w').length = buf.length ∧ bitAt (buf.set (i / 64) w') i = nb ∧
      ∀ j, j ≠ i → bitAt (buf.set (i / 64) w') j = bitAt buf j := by
  have hq : i / 64 < buf.length := (List.getElem?_eq_some_iff.mp hw).1
  have hk : i % 64 < 64 := Nat.mod_lt _ (by decide)
  refine ⟨by simp, ?_, ?_⟩
  · rw [bitAt_set _ _ _ _ hq, if_pos rfl, hword _ hk, if_pos rfl]
  · intro j hj
    rw [bitAt_set _ _ _ _ hq]
    split
    · next hjq =>
      have hne : j % 64 ≠ i % 64 := by omega
      have hjk : j % 64 < 64 := Nat.mod_lt _ (by decide)
      have : buf[j / 64]? = some w := by rw [hjq]; exact hw
      rw [bitAt_of_getElem? buf j w this, hword _ hjk, if_neg hne]
    · rfl

theorem setBit_spec (buf : Words) (i : Nat) (v : Bool) (h : i < 64 * buf.length) :
    ∃ buf', setBit buf i v = some buf' ∧ buf'.length = buf.length ∧ bitAt buf' i = v ∧
      ∀ j, j ≠ i → bitAt buf' j = bitAt buf j := by
  obtain ⟨w, hw⟩ := getElem?_of_lt buf i h
  exact ⟨_, by simp only [setBit, hw],
    writeBit_core buf i w _ v hw (fun m hm => setWord_getLsbD w v (i % 64) m hm)⟩

theorem setBit_none_iff (buf : Words) (i : Nat) (v : Bool) :
    setBit buf i v = none ↔ 64 * buf.length ≤ i := by
  unfold setBit
  split
  · next h => simp at h; simp; omega
  · next w h =>
    have := (List.getElem?_eq_some_iff.mp h).1
    simp; omega

example : setBit [0x5#64, 0x2#64] 64 true = some [0x5#64, 0x3#64] ∧
    setBit [0x5#64, 0x2#64] 2 false = some [0x1#64, 0x2#64] := by decide

theorem orBit_spec (buf : Words) (i : Nat) (v : Bool) (h : i < 64 * buf.length) :
    ∃ buf', orBit buf i v = some buf' ∧ buf'.length = buf.length ∧ bitAt buf' i = (bitAt buf i || v) ∧
      ∀ j, j ≠ i → bitAt buf' j = bitAt buf j := by
  obtain ⟨w, hw⟩ := getElem?_of_lt buf i h
  refine ⟨_, by simp only [orBit, hw, Option.map_some]; rfl, ?_⟩
  rw [bitAt_of_getElem? buf i w hw]
  exact writeBit_core buf i w _ _ hw (fun m hm => by
    rw [orWord_getLsbD w v (i % 64) m hm]; split <;> simp_all)

theorem xorBit_spec (buf : Words) (i : Nat) (v : Bool) (h : i < 64 * buf.length) :
    ∃ buf', xorBit buf i v = some buf' ∧ buf'.length = buf.length ∧ bitAt buf' i = (bitAt buf i ^^ v) ∧
      ∀ j, j ≠ i → bitAt buf' j = bitAt buf j := by
  obtain ⟨w, hw⟩ := getElem?_of_lt buf i h
  refine ⟨_, by simp only [xorBit, hw, Option.map_some]; rfl, ?_⟩
  rw [bitAt_of_getElem? buf i w hw]
  exact writeBit_core buf i w _ _ hw (fun m hm => by
    rw [xorWord_getLsbD w v (i % 64) m hm]; split <;> simp_all)

theorem orBit_none_iff (buf : Words) (i : Nat) (v : Bool) : orBit buf i v = none ↔ 64 * buf.length ≤ i := by
  simp [orBit]; omega
theorem xorBit_none_iff (buf : Words) (i : Nat) (v : Bool) : xorBit buf i v = none ↔ 64 * buf.length ≤ i := by
  simp [xorBit]; omega

example : orBit [0x5#64] 1 true = some [0x7#64] ∧ xorBit [0x5#64] 0 true = some [0x4#64] := by decide

/-! ### pointwise view of `::` and `++` -/

theorem bitAt_nil (j : Nat) : bitAt [] j = false := by simp [bitAt]

theorem bitAt_cons (w : BitVec 64) (ws : Words) (j : Nat) :
    bitAt (w :: ws) j = if j < 64 then w.getLsbD j else bitAt ws (j - 64) := by
  unfold bitAt
  by_cases h : j < 64
  · have h1 : j / 64 = 0 := by omega
    have h2 : j % 64 = j := by omega
    simp [h, h1, h2]
  · have h1 : j / 64 = (j - 64) / 64 + 1 := by omega
    have h2 : j % 64 = (j - 64) % 64 := by omega
    simp [h, h1, h2]

theorem bitAt_append (l1 l2 : Words) (j : Nat) :
    bitAt (l1 ++ l2) j = if j < 64 * l1.length then bitAt l1 j else bitAt l2 (j - 64 * l1.length) := by
  induction l1 generalizing j with
  | nil => simp
  | cons a l ih =>
    rw [List.cons_append, bitAt_cons, ih, bitAt_cons, List.length_cons]
    by_cases h1 : j < 64
    · have : j < 64 * (l.length + 1) := by omega
      simp [h1, this]
    · by_cases h2 : j - 64 < 64 * l.length
      · have : j < 64 * (l.length + 1) := by omega
        simp [h1, h2, this]
      · have : ¬ j < 64 * (l.length + 1) := by omega
        have e : j - 64 - 64 * l.length = j - 64 * (l.length + 1) := by omega
        simp [h1, h2, this, e]

theorem bitAt_ge (ws : Words) (j : Nat) (h : 64 * ws.length ≤ j) : bitAt ws j = false := by
  have : ws.length ≤ j / 64 := by omega
  simp [bitAt, List.getD_eq_getElem?_getD, List.getElem?_eq_none this]

/-! ### 3. `bit_vector_op` (`bit_vector_fill`, `bit_vector_clear`) -/

theorem opPart_getLsbD (fill : Bool) (w mask : BitVec 64) (m : Nat) :
    (opPart fill w mask).getLsbD m = if mask.getLsbD m then fill else w.getLsbD m := by
  unfold opPart
  cases fill
  · simp only [Bool.false_eq_true, if_false]
    rw [BitVec.getLsbD_and, BitVec.getLsbD_not]
    cases hm : mask.getLsbD m <;> simp
    exact fun h => BitVec.lt_of_getLsbD h
  · simp only [if_true]
    rw [BitVec.getLsbD_or]
    cases hm : mask.getLsbD m <;> simp

theorem opFull_getLsbD (fill : Bool) (m : Nat) (hm : m < 64) : (opFull fill).getLsbD m = fill := by
  unfold opFull
  cases fill <;> simp [ones_getLsbD, hm]

/-- `(ones >> (64 - n)) << b`: the mask with bits `[b, b + n)` set (for `n ≤ 64`) -/
theorem rangeMask_getLsbD (n b m : Nat) (hn : n ≤ 64) :
    ((ones >>> (64 - n)) <<< b).getLsbD m = (decide (m < 64) && decide (b ≤ m) && decide (m < b + n)) := by
  rw [BitVec.getLsbD_shiftLeft, BitVec.getLsbD_ushiftRight, ones_getLsbD, Bool.eq_iff_iff]
  simp
  omega

theorem lowMask_getLsbD (n m : Nat) (hn : n ≤ 64) :
    (ones >>> (64 - n)).getLsbD m = decide (m < n) := by
  rw [BitVec.getLsbD_ushiftRight, ones_getLsbD, Bool.eq_iff_iff]
  simp
  omega

theorem opTail_spec (fill : Bool) (ws : Words) (count : Nat) (h : count ≤ 64 * ws.length) :
    ∃ ws', opTail fill ws count = some ws' ∧ ws'.length = ws.length ∧
      ∀ j, bitAt ws' j = if j < count then fill else bitAt ws j := by
  induction ws generalizing count with
  | nil =>
    have : count = 0 := by simpa using h
    subst this
    exact ⟨[], by simp [opTail], rfl, by simp⟩
  | cons w rest ih =>
    unfold opTail
    by_cases h0 : count = 0
    · subst h0; exact ⟨_, by simp, rfl, by simp⟩
    · by_cases h64 : count ≥ 64
      · obtain ⟨t, ht, hlen, hbits⟩ := ih (count - 64) (by simp at h; omega)
        refine ⟨opFull fill :: t, by simp [h0, h64, ht], by simp [hlen], ?_⟩
        intro j
        rw [bitAt_cons, bitAt_cons, hbits]
        by_cases hj : j < 64
        · have : j < count := by omega
          rw [if_pos hj, opFull_getLsbD _ _ hj, if_pos this]
        · by_cases hc : j - 64 < count - 64
          · have : j < count := by omega
            simp [hj, hc, this]
          · have : ¬ j < count := by omega
            simp [hj, hc, this]
      · refine ⟨_, by simp [h0, h64]; rfl, by simp, ?_⟩
        intro j
        rw [bitAt_cons, bitAt_cons]
        by_cases hj : j < 64
        · rw [if_pos hj, if_pos hj, opPart_getLsbD, lowMask_getLsbD _ _ (by omega)]
          by_cases hc : j < count <;> simp [hc]
        · have : ¬ j < count := by omega
          simp [hj, this]

/-- **C18.3** `bit_vector_fill / bit_vector_clear`: inside the buffer the operation never overruns, keeps the
length and writes exactly the range `[index, index + count)`. -/
theorem bitVectorOp_spec (fill : Bool) (buf : Words) (index count : Nat)
    (h : index + count ≤ 64 * buf.length) :
    ∃ buf', bitVectorOp fill buf index count = some buf' ∧ buf'.length = buf.length ∧
      ∀ j, bitAt buf' j = if index ≤ j ∧ j < index + count then fill else bitAt buf j := by
  unfold bitVectorOp
  by_cases h0 : count = 0
  · subst h0
    exact ⟨buf, by simp, rfl, fun j => by
      have : ¬ (index ≤ j ∧ j < index + 0) := by omega
      rw [if_neg this]⟩
  · have hwi : index / 64 < buf.length := by omega
    have hsplit : buf = buf.take (index / 64) ++ buf.drop (index / 64) := (List.take_append_drop _ _).symm
    have hlt : (buf.take (index / 64)).length = index / 64 := by simp; omega
    cases hd : buf.drop (index / 64) with
    | nil => simp at hd; omega
    | cons w rest =>
      have hrest : rest.length = buf.length - index / 64 - 1 := by
        have := congrArg List.length hd
        simp at this; omega
      have hfn : min (64 - index % 64) count ≤ 64 := by omega
      obtain ⟨t, ht, htl, hbits⟩ := opTail_spec fill rest (count - min (64 - index % 64) count) (by
        rw [hrest]; omega)
      refine ⟨_, by simp only [h0, if_false, hd, ht, Option.map_some]; rfl, by simp [htl, hrest]; omega, ?_⟩
      intro j
      conv => rhs; rw [hsplit]
      rw [hd, bitAt_append, bitAt_append, hlt]
      by_cases hj : j < 64 * (index / 64)
      · have : ¬ (index ≤ j ∧ j < index + count) := by omega
        simp [hj, this]
      · rw [if_neg hj, if_neg hj, bitAt_cons, bitAt_cons]
        by_cases hj2 : j - 64 * (index / 64) < 64
        · rw [if_pos hj2, if_pos hj2, opPart_getLsbD, rangeMask_getLsbD _ _ _ hfn]
          by_cases hr : index ≤ j ∧ j < index + count
          · have e : (decide (j - 64 * (index / 64) < 64) && decide (index % 64 ≤ j - 64 * (index / 64)) &&
                decide (j - 64 * (index / 64) < index % 64 + min (64 - index % 64) count)) = true := by
              simp; omega
            rw [e]; simp [hr]
          · have e : (decide (j - 64 * (index / 64) < 64) && decide (index % 64 ≤ j - 64 * (index / 64)) &&
                decide (j - 64 * (index / 64) < index % 64 + min (64 - index % 64) count)) = false := by
              rw [Bool.eq_false_iff]; simp; omega
            rw [e]; simp [hr]
        · rw [if_neg hj2, if_neg hj2, hbits]
          by_cases hr : index ≤ j ∧ j < index + count
          · have : j - 64 * (index / 64) - 64 < count - min (64 - index % 64) count := by omega
            simp [hr, this]
          · have : ¬ j - 64 * (index / 64) - 64 < count - min (64 - index % 64) count := by omega
            simp [hr, this]

theorem bitVectorFill_spec (buf : Words) (index count : Nat) (h : index + count ≤ 64 * buf.length) :
    ∃ buf', bitVectorFill buf index count = some buf' ∧ buf'.length = buf.length ∧
      ∀ j, bitAt buf' j = rangeSet (bitAt buf) index count true j :=
  bitVectorOp_spec true buf index count h

theorem bitVectorClear_spec (buf : Words) (index count : Nat) (h : index + count ≤ 64 * buf.length) :
    ∃ buf', bitVectorClear buf index count = some buf' ∧ buf'.length = buf.length ∧
      ∀ j, bitAt buf' j = rangeSet (bitAt buf) index count false j :=
  bitVectorOp_spec false buf index count h

example : bitVectorFill [0#64, 0#64, 0#64] 60 70 = some [0xF000000000000000#64, ones, 0x3#64] := by decide
example : bitVectorClear [ones, ones] 4 8 = some [0xFFFFFFFFFFFFF00F#64, ones] := by decide

/-! ### `Support::ctz` -/

theorem ctzFrom_props (w : BitVec 64) (i fuel : Nat) :
    i ≤ ctzFrom w i fuel ∧ ctzFrom w i fuel ≤ i + fuel ∧
    (∀ k, i ≤ k → k < ctzFrom w i fuel → w.getLsbD k = false) ∧
    (ctzFrom w i fuel < i + fuel → w.getLsbD (ctzFrom w i fuel) = true) := by
  induction fuel generalizing i with
  | zero => simp [ctzFrom]; intro k h1 h2; omega
  | succ n ih =>
    unfold ctzFrom
    by_cases hb : w.getLsbD i
    · rw [if_pos hb]
      exact ⟨Nat.le_refl _, by omega, fun k h1 h2 => by omega, fun _ => hb⟩
    · rw [if_neg hb]
      obtain ⟨h1, h2, h3, h4⟩ := ih (i + 1)
      refine ⟨by omega, by omega, ?_, fun h => h4 (by omega)⟩
      intro k hk1 hk2
      by_cases hki : k = i
      · subst hki; simpa using hb
      · exact h3 k (by omega) hk2

theorem ctz_lt (w : BitVec 64) (hw : w ≠ 0#64) : ctz w < 64 := by
  obtain ⟨_, h2, h3, _⟩ := ctzFrom_props w 0 64
  refine Nat.lt_of_le_of_ne (by simpa [ctz] using h2) ?_
  intro h64
  apply hw
  apply BitVec.eq_of_getLsbD_eq
  intro k hk
  rw [h3 k (Nat.zero_le _) (by unfold ctz at h64; omega)]
  simp

/-- **ctz_spec**: for `w ≠ 0`, `ctz w` is the index of the least significant set bit -/
theorem ctz_spec (w : BitVec 64) (hw : w ≠ 0#64) :
    w.getLsbD (ctz w) = true ∧ ∀ k, k < ctz w → w.getLsbD k = false := by
  obtain ⟨_, _, h3, h4⟩ := ctzFrom_props w 0 64
  have := ctz_lt w hw
  exact ⟨h4 (by unfold ctz at this; omega), fun k hk => h3 k (Nat.zero_le _) hk⟩

example : ctz 0x28#64 = 3 ∧ ctz 0x8000000000000000#64 = 63 := by decide

/-! ### 4. `bit_vector_index_of` -/

theorem bitAt_drop (buf : Words) (q j : Nat) : bitAt (buf.drop q) j = bitAt buf (64 * q + j) := by
  have h1 : (64 * q + j) / 64 = q + j / 64 := by omega
  have h2 : (64 * q + j) % 64 = j % 64 := by omega
  simp [bitAt, List.getD_eq_getElem?_getD, h1, h2]

theorem bitAt_map_xor (ws : Words) (flip : BitVec 64) (j : Nat) :
    bitAt (ws.map (· ^^^ flip)) j =
      if j < 64 * ws.length then (bitAt ws j ^^ flip.getLsbD (j % 64)) else false := by
  by_cases h : j < 64 * ws.length
  · have hq : j / 64 < ws.length := by omega
    simp [bitAt, List.getD_eq_getElem?_getD, h, hq]
  · rw [if_neg h]
    exact bitAt_ge _ _ (by simp; omega)

/-- the loop, on the already flipped/masked word list `L = bits :: map (· ^^^ flip) ws` -/
theorem indexOfLoop_spec (flip : BitVec 64) (ws : Words) (bits : BitVec 64) (base : Nat) :
    match indexOfLoop flip ws bits base with
    | some i => base ≤ i ∧ i - base < 64 * (ws.length + 1) ∧
        bitAt (bits :: ws.map (· ^^^ flip)) (i - base) = true ∧
        ∀ j, j < i - base → bitAt (bits :: ws.map (· ^^^ flip)) j = false
    | none => ∀ j, bitAt (bits :: ws.map (· ^^^ flip)) j = false := by
  induction ws generalizing bits base with
  | nil =>
    unfold indexOfLoop
    by_cases hb : bits = 0#64
    · subst hb; simp [bitAt_cons, bitAt_nil]
    · have h1 := ctz_lt bits hb
      obtain ⟨h2, h3⟩ := ctz_spec bits hb
      simp only [ne_eq, hb, not_false_eq_true, if_true, Nat.add_sub_cancel_left, List.map_nil]
      refine ⟨by omega, by simp; omega, by rw [bitAt_cons, if_pos h1]; exact h2, ?_⟩
      intro j hj
      rw [bitAt_cons, if_pos (by omega)]
      exact h3 j hj
  | cons w rest ih =>
    unfold indexOfLoop
    by_cases hb : bits = 0#64
    · subst hb
      simp only [ne_eq, not_true_eq_false, if_false]
      have := ih (w ^^^ flip) (base + 64)
      split
      · next i hi =>
        rw [hi] at this
        obtain ⟨h1, h2, h3, h4⟩ := this
        have e : i - base = (i - (base + 64)) + 64 := by omega
        refine ⟨by omega, by simp at h2 ⊢; omega, ?_, ?_⟩
        · rw [e, bitAt_cons, if_neg (by omega), Nat.add_sub_cancel]; exact h3
        · intro j hj
          rw [bitAt_cons]
          split
          · simp
          · exact h4 _ (by omega)
      · next hi =>
        rw [hi] at this
        intro j
        rw [bitAt_cons]
        split
        · simp
        · exact this _
    · have h1 := ctz_lt bits hb
      obtain ⟨h2, h3⟩ := ctz_spec bits hb
      simp only [ne_eq, hb, not_false_eq_true, if_true, Nat.add_sub_cancel_left]
      refine ⟨by omega, by simp; omega, by rw [bitAt_cons, if_pos h1]; exact h2, ?_⟩
      intro j hj
      rw [bitAt_cons, if_pos (by omega)]
      exact h3 j hj

theorem flip_getLsbD (v : Bool) (m : Nat) (hm : m < 64) :
    (if v then 0#64 else ones : BitVec 64).getLsbD m = !v := by
  cases v <;> simp [ones_getLsbD, hm]

/-- pointwise meaning of the masked / flipped word list scanned by `bit_vector_index_of` -/
theorem indexOf_view (v : Bool) (w : BitVec 64) (rest : Words) (bi j : Nat) (hbi : bi < 64)
    (hj : j < 64 * (rest.length + 1)) :
    bitAt (((w ^^^ (if v then 0#64 else ones)) &&& (ones <<< bi)) ::
        rest.map (· ^^^ (if v then 0#64 else ones))) j
      = (decide (bi ≤ j) && (bitAt (w :: rest) j == v)) := by
  rw [bitAt_cons, bitAt_cons]
  by_cases h : j < 64
  · rw [if_pos h, if_pos h, BitVec.getLsbD_and, BitVec.getLsbD_xor, flip_getLsbD v j h,
      BitVec.getLsbD_shiftLeft, ones_getLsbD]
    have : j - bi < 64 := by omega
    by_cases hle : bi ≤ j
    · have : ¬ j < bi := by omega
      cases v <;> cases w.getLsbD j <;> simp [*]
    · have : j < bi := by omega
      cases v <;> cases w.getLsbD j <;> simp [h, hle, this]
  · rw [if_neg h, if_neg h, bitAt_map_xor, if_pos (by omega),
      flip_getLsbD v _ (Nat.mod_lt _ (by decide))]
    have : bi ≤ j := by omega
    cases v <;> cases bitAt rest (j - 64) <;> simp [this]

/-- **C18.4** `bit_vector_index_of`, soundness: a returned index is inside the buffer, at or after `start`,
holds `v`, and is the first such position. -/
theorem indexOf_spec (buf : Words) (start : Nat) (v : Bool) (i : Nat) (h : indexOf buf start v = some i) :
    start ≤ i ∧ i < 64 * buf.length ∧ bitAt buf i = v ∧ ∀ j, start ≤ j → j < i → bitAt buf j ≠ v := by
  unfold indexOf at h
  cases hd : buf.drop (start / 64) with
  | nil => simp only [hd] at h; exact absurd h (by simp)
  | cons w rest =>
    simp only [hd] at h
    have hwi : start / 64 < buf.length := by
      have := congrArg List.length hd; simp at this; omega
    have hrest : rest.length = buf.length - start / 64 - 1 := by
      have := congrArg List.length hd; simp at this; omega
    have hbi : start % 64 < 64 := Nat.mod_lt _ (by decide)
    have hb : ∀ j, bitAt (w :: rest) j = bitAt buf (64 * (start / 64) + j) := by
      intro j; rw [← hd, bitAt_drop]
    have := indexOfLoop_spec (if v then 0#64 else ones) rest
      ((w ^^^ (if v then 0#64 else ones)) &&& (ones <<< (start % 64))) (start / 64 * 64)
    rw [h] at this
    obtain ⟨h1, h2, h3, h4⟩ := this
    rw [indexOf_view v w rest _ _ hbi h2, hb] at h3
    simp only [Bool.and_eq_true, decide_eq_true_eq, beq_iff_eq] at h3
    have e : 64 * (start / 64) + (i - start / 64 * 64) = i := by omega
    rw [e] at h3
    refine ⟨by omega, by omega, h3.2, ?_⟩
    intro j hj1 hj2
    have := h4 (j - start / 64 * 64) (by omega)
    rw [indexOf_view v w rest _ _ hbi (by omega), hb] at this
    have e2 : 64 * (start / 64) + (j - start / 64 * 64) = j := by omega
    rw [e2] at this
    have hle : start % 64 ≤ j - start / 64 * 64 := by omega
    simpa [hle] using this

/-- **C18.4** completeness: `none` (the C++ would run off the buffer) happens exactly when no position at or after
`start` inside the buffer holds `v`. -/
theorem indexOf_none_iff (buf : Words) (start : Nat) (v : Bool) :
    indexOf buf start v = none ↔ ∀ j, start ≤ j → j < 64 * buf.length → bitAt buf j ≠ v := by
  constructor
  · intro h j hj1 hj2
    unfold indexOf at h
    cases hd : buf.drop (start / 64) with
    | nil => simp at hd; omega
    | cons w rest =>
      simp only [hd] at h
      have hrest : rest.length = buf.length - start / 64 - 1 := by
        have := congrArg List.length hd; simp at this; omega
      have hbi : start % 64 < 64 := Nat.mod_lt _ (by decide)
      have hb : ∀ j, bitAt (w :: rest) j = bitAt buf (64 * (start / 64) + j) := by
        intro j; rw [← hd, bitAt_drop]
      have := indexOfLoop_spec (if v then 0#64 else ones) rest
        ((w ^^^ (if v then 0#64 else ones)) &&& (ones <<< (start % 64))) (start / 64 * 64)
      rw [h] at this
      have := this (j - start / 64 * 64)
      rw [indexOf_view v w rest _ _ hbi (by omega), hb] at this
      have e2 : 64 * (start / 64) + (j - start / 64 * 64) = j := by omega
      rw [e2] at this
      have hle : start % 64 ≤ j - start / 64 * 64 := by omega
      simpa [hle] using this
  · intro h
    cases hr : indexOf buf start v with
    | none => rfl
    | some i =>
      obtain ⟨h1, h2, h3, _⟩ := indexOf_spec buf start v i hr
      exact absurd h3 (h i h1 h2)

theorem indexOf_complete (buf : Words) (start : Nat) (v : Bool) (j : Nat) (hj1 : start ≤ j)
    (hj2 : j < 64 * buf.length) (hv : bitAt buf j = v) : ∃ i, indexOf buf start v = some i := by
  cases hr : indexOf buf start v with
  | some i => exact ⟨i, rfl⟩
  | none => exact absurd hv ((indexOf_none_iff buf start v).mp hr j hj1 hj2)

example : indexOf [0x10#64, 0x1#64] 5 true = some 64 ∧ indexOf [0x10#64, 0x1#64] 3 true = some 4
    ∧ indexOf [ones, 0x7#64] 2 false = some 67 ∧ indexOf [0x10#64] 5 true = none := by decide

/-! ### 5. `BitVectorIterator` -/

/-- `x & (x - 1)` clears the lowest set bit (stated for `bv_decide`: `c` is the position of that bit) -/
theorem clearLowest_bv (cur c : BitVec 64) (hc : c < 64#64) (h1 : (cur >>> c) &&& 1#64 = 1#64)
    (h2 : (cur >>> c) <<< c = cur) : cur &&& (cur - 1#64) = cur &&& ~~~(1#64 <<< c) := by
  bv_decide

theorem clearLowest_getLsbD (w : BitVec 64) (hw : w ≠ 0#64) (k : Nat) :
    (w &&& (w - 1#64)).getLsbD k = (w.getLsbD k && (k != ctz w)) := by
  have hc := ctz_lt w hw
  obtain ⟨hs1, hs2⟩ := ctz_spec w hw
  have hC : (BitVec.ofNat 64 (ctz w)).toNat = ctz w := by
    simp only [BitVec.toNat_ofNat]; omega
  have h1 : (w >>> (BitVec.ofNat 64 (ctz w))) &&& 1#64 = 1#64 := by
    rw [BitVec.ushiftRight_eq', hC]
    have := getBit_word w (ctz w)
    rw [hs1] at this
    apply BitVec.eq_of_getLsbD_eq
    intro i hi
    rw [BitVec.getLsbD_and, BitVec.getLsbD_ushiftRight, BitVec.getLsbD_one]
    by_cases h0 : i = 0
    · subst h0; simp [hs1]
    · simp [h0]
  have h2 : (w >>> (BitVec.ofNat 64 (ctz w))) <<< (BitVec.ofNat 64 (ctz w)) = w := by
    rw [BitVec.ushiftRight_eq', BitVec.shiftLeft_eq', hC]
    apply BitVec.eq_of_getLsbD_eq
    intro i hi
    rw [BitVec.getLsbD_shiftLeft, BitVec.getLsbD_ushiftRight]
    by_cases hic : i < ctz w
    · simp [hic, hs2 i hic]
    · have : ctz w + (i - ctz w) = i := by omega
      simp [hic, this, hi]
  have hlt : BitVec.ofNat 64 (ctz w) < 64#64 := by
    rw [BitVec.lt_def, hC]; simpa using hc
  rw [clearLowest_bv w _ hlt h1 h2, BitVec.shiftLeft_eq', hC, BitVec.getLsbD_and, BitVec.getLsbD_not,
    one_shift_getLsbD]
  by_cases hk : k < 64
  · by_cases hkc : k = ctz w <;> simp [hk, hkc]
  · have : w.getLsbD k = false := BitVec.getLsbD_of_ge _ _ (by omega)
    simp [this]

/-- positions `< n` satisfying `p`: peel off the first one -/
theorem filter_range_first (p q : Nat → Bool) (n c : Nat) (hc : c < n) (hlow : ∀ k, k < c → p k = false)
    (hpc : p c = true) (hq : ∀ k, q k = (p k && (k != c))) :
    (List.range n).filter p = c :: (List.range n).filter q := by
  have e : List.range n = List.range' 0 c ++ c :: List.range' (c + 1) (n - c - 1) := by
    rw [List.range_eq_range', ← List.range'_succ]
    have := @List.range'_append_1 0 c (n - c - 1 + 1)
    rw [Nat.zero_add] at this
    rw [this]; congr 1; omega
  rw [e, List.filter_append, List.filter_append, List.filter_cons, List.filter_cons]
  have h1 : (List.range' 0 c).filter p = [] := by
    rw [List.filter_eq_nil_iff]; intro a ha
    rw [List.mem_range'_1] at ha; simp [hlow a (by omega)]
  have h2 : (List.range' 0 c).filter q = [] := by
    rw [List.filter_eq_nil_iff]; intro a ha
    rw [List.mem_range'_1] at ha; simp [hq, hlow a (by omega)]
  have h3 : (List.range' (c + 1) (n - c - 1)).filter p = (List.range' (c + 1) (n - c - 1)).filter q := by
    apply List.filter_congr; intro a ha
    rw [List.mem_range'_1] at ha
    have : a ≠ c := by omega
    simp [hq, this]
  have hqc : q c = false := by simp [hq]
  simp [h1, h2, h3, hpc, hqc]

/-- set bits of one word, offset by `base` -/
def wordBits (w : BitVec 64) (base : Nat) : List Nat :=
  ((List.range 64).filter (fun k => w.getLsbD k)).map (base + ·)

/-- set bits of a word list, offset by `base`, ascending -/
def bitsFrom (L : Words) (base : Nat) : List Nat :=
  ((List.range (64 * L.length)).filter (bitAt L)).map (base + ·)

theorem wordBits_zero (base : Nat) : wordBits 0#64 base = [] := by simp [wordBits]

theorem wordBits_step (w : BitVec 64) (hw : w ≠ 0#64) (base : Nat) :
    wordBits w base = (base + ctz w) :: wordBits (w &&& (w - 1#64)) base := by
  obtain ⟨hs1, hs2⟩ := ctz_spec w hw
  unfold wordBits
  rw [filter_range_first (fun k => w.getLsbD k) (fun k => (w &&& (w - 1#64)).getLsbD k) 64 (ctz w)
    (ctz_lt w hw) hs2 hs1 (clearLowest_getLsbD w hw)]
  rfl

theorem bitsFrom_nil (base : Nat) : bitsFrom [] base = [] := by simp [bitsFrom]

theorem bitsFrom_cons (w : BitVec 64) (L : Words) (base : Nat) :
    bitsFrom (w :: L) base = wordBits w base ++ bitsFrom L (base + 64) := by
  unfold bitsFrom wordBits
  have e : List.range (64 * (w :: L).length) = List.range 64 ++ (List.range (64 * L.length)).map (64 + ·) := by
    rw [← List.range'_eq_map_range, List.range_eq_range', List.range_eq_range']
    have := @List.range'_append_1 0 64 (64 * L.length)
    rw [Nat.zero_add] at this
    rw [this]; congr 1; simp; omega
  rw [e, List.filter_append, List.map_append, List.filter_map, List.map_map]
  have hA : (List.range 64).filter (bitAt (w :: L)) = (List.range 64).filter (fun k => w.getLsbD k) := by
    apply List.filter_congr; intro a ha
    rw [List.mem_range] at ha
    rw [bitAt_cons, if_pos ha]
  have hB : (bitAt (w :: L) ∘ fun x => 64 + x) = bitAt L := by
    funext k
    simp only [Function.comp]
    rw [bitAt_cons, if_neg (by omega)]
    congr 1; omega
  have hC : ((fun x => base + x) ∘ fun x => 64 + x) = fun x => base + 64 + x := by
    funext k; simp only [Function.comp]; omega
  rw [hA, hB, hC]

theorem bitsFrom_length_le (L : Words) (base : Nat) : (bitsFrom L base).length ≤ 64 * L.length := by
  unfold bitsFrom
  rw [List.length_map]
  have := List.length_filter_le (bitAt L) (List.range (64 * L.length))
  simpa using this

theorem skipZero_spec (rest : Words) (cur : BitVec 64) (idx : Nat) :
    bitsFrom ((skipZero rest cur idx).1 :: (skipZero rest cur idx).2.2) (skipZero rest cur idx).2.1
        = bitsFrom (cur :: rest) idx ∧
      ((skipZero rest cur idx).1 ≠ 0#64 ∨ (skipZero rest cur idx).2.2 = []) := by
  induction rest generalizing cur idx with
  | nil =>
    unfold skipZero
    by_cases h : cur = 0#64
    · subst h; simp [bitsFrom_cons, bitsFrom_nil, wordBits_zero]
    · simp [h]
  | cons w rest' ih =>
    unfold skipZero
    by_cases h : cur = 0#64
    · subst h
      simp only [ne_eq, not_true_eq_false, if_false]
      obtain ⟨h1, h2⟩ := ih w (idx + 64)
      refine ⟨?_, h2⟩
      rw [h1, bitsFrom_cons 0#64, wordBits_zero, List.nil_append]
    · simp [h]

theorem iterLoop_spec (fuel : Nat) (cur : BitVec 64) (idx : Nat) (rest : Words) (acc : List Nat)
    (hinv : cur ≠ 0#64 ∨ rest = []) (hfuel : (bitsFrom (cur :: rest) idx).length < fuel) :
    iterLoop fuel cur idx rest acc = acc.reverse ++ bitsFrom (cur :: rest) idx := by
  induction fuel generalizing cur idx rest acc with
  | zero => omega
  | succ n ih =>
    unfold iterLoop
    by_cases h : cur = 0#64
    · subst h
      have : rest = [] := by simpa using hinv
      subst this
      simp [bitsFrom_cons, bitsFrom_nil, wordBits_zero]
    · simp only [h, if_false]
      obtain ⟨h1, h2⟩ := skipZero_spec rest (cur &&& (cur - 1#64)) idx
      have hstep : bitsFrom (cur :: rest) idx =
          (idx + ctz cur) :: bitsFrom ((cur &&& (cur - 1#64)) :: rest) idx := by
        rw [bitsFrom_cons, wordBits_step cur h, bitsFrom_cons]; rfl
      generalize skipZero rest (cur &&& (cur - 1#64)) idx = r at h1 h2
      obtain ⟨c2, i2, r2⟩ := r
      simp only at h1 h2 ⊢
      rw [ih c2 i2 r2 _ h2 (by rw [h1]; rw [hstep] at hfuel; simp at hfuel; omega), h1, hstep]
      simp

/-- **C18.5** `BitVectorIterator(data, start)`: the iteration yields exactly the set bits at or after `start`, in
ascending order, each once. -/
theorem iterate_spec (data : Words) (start : Nat) :
    iterate data start = (List.range (64 * data.length)).filter (fun j => decide (start ≤ j) && bitAt data j) := by
  unfold iterate
  simp only
  by_cases hlt : start / 64 * 64 < data.length * 64
  · rw [if_pos hlt]
    cases hd : data.drop (start / 64) with
    | nil => simp at hd; omega
    | cons w rest =>
      simp only
      have hrest : rest.length = data.length - start / 64 - 1 := by
        have := congrArg List.length hd; simp at this; omega
      obtain ⟨h1, h2⟩ := skipZero_spec rest (w &&& (ones <<< (start % 64))) (start / 64 * 64)
      generalize skipZero rest (w &&& (ones <<< (start % 64))) (start / 64 * 64) = r at h1 h2
      obtain ⟨c, i, r⟩ := r
      simp only at h1 h2 ⊢
      rw [iterLoop_spec _ c i r [] h2 (by
        rw [h1]
        have := bitsFrom_length_le ((w &&& (ones <<< (start % 64))) :: rest) (start / 64 * 64)
        simp at this; omega), h1]
      simp only [List.reverse_nil, List.nil_append]
      -- relate the local list to `data`
      have e : List.range (64 * data.length) = List.range (start / 64 * 64) ++
          (List.range (64 * (rest.length + 1))).map (start / 64 * 64 + ·) := by
        rw [← List.range'_eq_map_range, List.range_eq_range', List.range_eq_range']
        have := @List.range'_append_1 0 (start / 64 * 64) (64 * (rest.length + 1))
        rw [Nat.zero_add] at this
        rw [this]; congr 1; omega
      rw [e, List.filter_append, List.filter_map]
      have hz : (List.range (start / 64 * 64)).filter (fun j => decide (start ≤ j) && bitAt data j) = [] := by
        rw [List.filter_eq_nil_iff]; intro a ha
        rw [List.mem_range] at ha
        have : ¬ start ≤ a := by omega
        simp [this]
      rw [hz, List.nil_append]
      unfold bitsFrom
      congr 1
      apply List.filter_congr; intro k hk
      rw [List.mem_range] at hk
      simp only [Function.comp]
      have hb : bitAt data (start / 64 * 64 + k) = bitAt (w :: rest) k := by
        rw [← hd, bitAt_drop]; congr 1; omega
      rw [hb, bitAt_cons, bitAt_cons]
      by_cases hk64 : k < 64
      · rw [if_pos hk64, if_pos hk64, BitVec.getLsbD_and, BitVec.getLsbD_shiftLeft, ones_getLsbD]
        have : k - start % 64 < 64 := by omega
        by_cases hle : start % 64 ≤ k
        · have h1 : ¬ k < start % 64 := by omega
          have h2 : start ≤ start / 64 * 64 + k := by omega
          simp [hk64, this, h1, h2]
        · have h1 : k < start % 64 := by omega
          have h2 : ¬ start ≤ start / 64 * 64 + k := by omega
          simp [h1, h2]
      · have h2 : start ≤ start / 64 * 64 + k := by omega
        simp [hk64, h2]
  · rw [if_neg hlt]
    symm
    rw [List.filter_eq_nil_iff]; intro a ha
    rw [List.mem_range] at ha
    have : ¬ start ≤ a := by omega
    simp [this]

/-- the same with the `Prop`-valued predicate of the task statement -/
theorem iterate_spec' (data : Words) (start : Nat) :
    iterate data start = (List.range (64 * data.length)).filter (fun j => start ≤ j ∧ bitAt data j) := by
  rw [iterate_spec]
  apply List.filter_congr; intro a _
  simp

example : iterate [0x11#64, 0x0#64, 0x8000000000000001#64] 1 = [4, 128, 191] := by decide

/-! ### 6. `ArenaBitSet` -/

/-- representation invariant of `ArenaBitSet`: the allocation holds at least `capacity / 64` words, `size ≤ capacity`, and
the bits at positions `≥ size` inside the last used word are zero -/
structure WF (b : BitSet) : Prop where
  cap_le : b.cap ≤ b.words.length * 64
  size_le : b.size ≤ b.cap
  tail_zero : ∀ j, b.size ≤ j → j < 64 * wordsPerBits b.size → bitAt b.words j = false

/-- abstraction function: the `size` bits of the set -/
def bits (b : BitSet) : List Bool := bitsList b.words b.size

theorem bits_eq_bitsOf (b : BitSet) : bits b = bitsOf b.words b.size := rfl

theorem bitsList_length (ws : Words) (n : Nat) : (bitsList ws n).length = n := by simp [bitsList]

theorem bitsList_getElem (ws : Words) (n j : Nat) (h : j < (bitsList ws n).length) :
    (bitsList ws n)[j] = bitAt ws j := by simp [bitsList]

/-- a `List Bool` equals the abstraction iff it has the right length and the right entries -/
theorem bitsList_eq (ws : Words) (n : Nat) (l : List Bool) (hl : l.length = n)
    (h : ∀ j (hj : j < l.length), l[j] = bitAt ws j) : bitsList ws n = l := by
  apply List.ext_getElem
  · rw [bitsList_length, hl]
  · intro i h1 h2
    rw [bitsList_getElem, h i h2]

theorem wordsPerBits_bounds (n : Nat) : n ≤ 64 * wordsPerBits n ∧ 64 * wordsPerBits n < n + 64 := by
  unfold wordsPerBits; omega

theorem bitAt_replicate (n : Nat) (p : BitVec 64) (j : Nat) :
    bitAt (List.replicate n p) j = if j < 64 * n then p.getLsbD (j % 64) else false := by
  by_cases h : j < 64 * n
  · have : j / 64 < n := by omega
    simp [bitAt, List.getD_eq_getElem?_getD, h, this]
  · rw [if_neg h]; exact bitAt_ge _ _ (by simp; omega)

theorem bitAt_take (ws : Words) (n j : Nat) :
    bitAt (ws.take n) j = if j < 64 * n then bitAt ws j else false := by
  by_cases h : j < 64 * n
  · have : j / 64 < n := by omega
    simp [bitAt, List.getD_eq_getElem?_getD, h, this]
  · have : ¬ j / 64 < n := by omega
    simp [bitAt, List.getD_eq_getElem?_getD, List.getElem?_take, h, this]

theorem mask_bv (b : BitVec 64) : (1#64 <<< b) - 1#64 = ~~~(0xFFFFFFFFFFFFFFFF#64 <<< b) := by bv_decide

theorem mask_getLsbD (bit m : Nat) (hb : bit < 64) :
    (mask bit).getLsbD m = (decide (m < 64) && decide (m < bit)) := by
  have hC : (BitVec.ofNat 64 bit).toNat = bit := by simp only [BitVec.toNat_ofNat]; omega
  have e : (1#64 : BitVec 64) <<< bit = 1#64 <<< (BitVec.ofNat 64 bit) := by rw [BitVec.shiftLeft_eq', hC]
  unfold mask
  rw [e, mask_bv, BitVec.shiftLeft_eq', hC, BitVec.getLsbD_not, BitVec.getLsbD_shiftLeft]
  change (decide (m < 64) && !(decide (m < 64) && !decide (m < bit) && ones.getLsbD (m - bit))) = _
  rw [ones_getLsbD, Bool.eq_iff_iff]
  simp
  omega

/-- `_clear_unused_bits()`: zeroes exactly the positions `≥ size` of the last used word -/
theorem clearUnused_spec (b : BitSet) (h : b.size ≤ 64 * b.words.length) :
    ∃ ws, clearUnused b = some { b with words := ws } ∧ ws.length = b.words.length ∧
      ∀ j, bitAt ws j = if b.size ≤ j ∧ j < 64 * wordsPerBits b.size then false else bitAt b.words j := by
  have hwp := wordsPerBits_bounds b.size
  unfold clearUnused
  by_cases h0 : b.size % 64 = 0
  · refine ⟨b.words, by simp [h0], rfl, ?_⟩
    intro j
    have : ¬ (b.size ≤ j ∧ j < 64 * wordsPerBits b.size) := by unfold wordsPerBits; omega
    rw [if_neg this]
  · have hq : b.size / 64 < b.words.length := by omega
    have hw : b.words[b.size / 64]? = some b.words[b.size / 64] := by simp [hq]
    refine ⟨_, by simp only [h0, if_false, hw]; rfl, by simp, ?_⟩
    intro j
    rw [bitAt_set _ _ _ _ hq]
    by_cases hj : j / 64 = b.size / 64
    · have hjk : j % 64 < 64 := Nat.mod_lt _ (by decide)
      have hw' : b.words[j / 64]? = some b.words[b.size / 64] := by rw [hj]; exact hw
      rw [if_pos hj, BitVec.getLsbD_and, mask_getLsbD _ _ (Nat.mod_lt _ (by decide)),
        bitAt_of_getElem? _ j _ hw']
      by_cases hc : b.size ≤ j ∧ j < 64 * wordsPerBits b.size
      · have : ¬ j % 64 < b.size % 64 := by omega
        simp [hc, this]
      · have : j % 64 < b.size % 64 := by unfold wordsPerBits at hc; omega
        simp [hc, this, hjk]
    · have : ¬ (b.size ≤ j ∧ j < 64 * wordsPerBits b.size) := by unfold wordsPerBits; omega
      rw [if_neg hj, if_neg this]

/-- `truncate(n)` keeps the invariant and is `List.take` on the bits -/
theorem truncate_spec (b : BitSet) (n : Nat) (hwf : WF b) :
    ∃ b', truncate b n = some b' ∧ WF b' ∧ b'.size = min b.size n ∧ b'.cap = b.cap ∧ b'.data = b.data ∧
      bits b' = (bits b).take n := by
  have hsz : min b.size n ≤ 64 * b.words.length := by have := hwf.cap_le; have := hwf.size_le; omega
  obtain ⟨ws, h1, h2, h3⟩ := clearUnused_spec { b with size := min b.size n } hsz
  refine ⟨{ b with words := ws, size := min b.size n }, h1,
    ⟨by simp [h2]; exact hwf.cap_le, by have := hwf.size_le; simp; omega, ?_⟩, rfl, rfl, rfl, ?_⟩
  · intro j hj1 hj2
    simp only at hj1 hj2 h3 ⊢
    rw [h3, if_pos ⟨hj1, hj2⟩]
  · unfold bits
    apply bitsList_eq
    · simp [bitsList_length]; omega
    · intro j hj
      simp only [List.length_take, bitsList_length] at hj
      simp only at h3
      rw [List.getElem_take, bitsList_getElem, h3, if_neg (by omega)]

example : truncate { words := [0xFF#64, 0#64], size := 8, cap := 128 } 3
    = some { words := [0x7#64, 0#64], size := 3, cap := 128 } := by decide

/-- `clear_all()` -/
theorem clearAll_spec (b : BitSet) (hwf : WF b) :
    ∃ b', clearAll b = some b' ∧ WF b' ∧ b'.size = b.size ∧ b'.cap = b.cap ∧ b'.data = b.data ∧
      bits b' = List.replicate b.size false := by
  have hwp := wordsPerBits_bounds b.size
  have hn : wordsPerBits b.size ≤ b.words.length := by
    have := hwf.cap_le; have := hwf.size_le; unfold wordsPerBits; omega
  have hb : ∀ j, j < 64 * wordsPerBits b.size →
      bitAt (List.replicate (wordsPerBits b.size) 0#64 ++ b.words.drop (wordsPerBits b.size)) j = false := by
    intro j hj
    rw [bitAt_append, List.length_replicate, if_pos hj, bitAt_replicate, if_pos hj]; simp
  refine ⟨{ b with words := List.replicate (wordsPerBits b.size) 0#64 ++ b.words.drop (wordsPerBits b.size) },
    by simp only [clearAll, hn, if_true], ⟨?_, hwf.size_le, ?_⟩, rfl, rfl, rfl, ?_⟩
  · simp only [List.length_append, List.length_replicate, List.length_drop]; have := hwf.cap_le; omega
  · intro j _ hj2; exact hb j hj2
  · unfold bits
    apply bitsList_eq
    · simp
    · intro j hj
      simp only [List.length_replicate] at hj
      rw [List.getElem_replicate, hb j (by omega)]

example : clearAll { words := [0xFF#64, 0x1#64, 0x5#64], size := 65, cap := 192 }
    = some { words := [0#64, 0#64, 0x5#64], size := 65, cap := 192 } := by decide

/-- `fill_all()` -/
theorem fillAll_spec (b : BitSet) (hwf : WF b) :
    ∃ b', fillAll b = some b' ∧ WF b' ∧ b'.size = b.size ∧ b'.cap = b.cap ∧ b'.data = b.data ∧
      bits b' = List.replicate b.size true := by
  have hwp := wordsPerBits_bounds b.size
  have hn : wordsPerBits b.size ≤ b.words.length := by
    have := hwf.cap_le; have := hwf.size_le; unfold wordsPerBits; omega
  have hlen : (List.replicate (wordsPerBits b.size) ones ++ b.words.drop (wordsPerBits b.size)).length
      = b.words.length := by
    simp only [List.length_append, List.length_replicate, List.length_drop]; omega
  obtain ⟨ws, h1, h2, h3⟩ := clearUnused_spec
    { b with words := List.replicate (wordsPerBits b.size) ones ++ b.words.drop (wordsPerBits b.size) }
    (by simp only [hlen]; have := hwf.cap_le; have := hwf.size_le; omega)
  simp only at h1 h2 h3
  refine ⟨{ b with words := ws }, by simp only [fillAll, hn, if_true]; exact h1, ⟨?_, hwf.size_le, ?_⟩, rfl, rfl, rfl, ?_⟩
  · simp only [h2, hlen]; exact hwf.cap_le
  · intro j hj1 hj2
    simp only at hj1 hj2 ⊢
    rw [h3, if_pos ⟨hj1, hj2⟩]
  · unfold bits
    apply bitsList_eq
    · simp
    · intro j hj
      simp only [List.length_replicate] at hj
      simp only
      rw [List.getElem_replicate, h3, if_neg (by omega), bitAt_append, List.length_replicate,
        if_pos (by omega), bitAt_replicate, if_pos (by omega), ones_getLsbD]
      simp [Nat.mod_lt]

example : fillAll { words := [0#64, 0x1#64, 0x5#64], size := 66, cap := 192 }
    = some { words := [ones, 0x3#64, 0x5#64], size := 66, cap := 192 } := by decide

/-! #### word-wise binary operations -/

theorem bitAt_zipHead (f : BitVec 64 → BitVec 64 → BitVec 64) (g : Bool → Bool → Bool)
    (hf : ∀ x y m, m < 64 → (f x y).getLsbD m = g (x.getLsbD m) (y.getLsbD m))
    (n : Nat) (xs ys : Words) (hx : n ≤ xs.length) (hy : n ≤ ys.length) (j : Nat) :
    bitAt (List.zipWith f (xs.take n) (ys.take n) ++ xs.drop n) j =
      if j < 64 * n then g (bitAt xs j) (bitAt ys j) else bitAt xs j := by
  induction n generalizing xs ys j with
  | zero => simp
  | succ n ih =>
    cases xs with
    | nil => simp at hx
    | cons x xs' =>
      cases ys with
      | nil => simp at hy
      | cons y ys' =>
        simp only [List.take_succ_cons, List.zipWith_cons_cons, List.drop_succ_cons, List.cons_append]
        rw [bitAt_cons, bitAt_cons, bitAt_cons, ih xs' ys' (by simpa using hx) (by simpa using hy)]
        by_cases hj : j < 64
        · have : j < 64 * (n + 1) := by omega
          rw [if_pos hj, if_pos hj, if_pos hj, if_pos this, hf _ _ _ hj]
        · rw [if_neg hj, if_neg hj, if_neg hj]
          by_cases h2 : j - 64 < 64 * n
          · have : j < 64 * (n + 1) := by omega
            rw [if_pos h2, if_pos this]
          · have : ¬ j < 64 * (n + 1) := by omega
            rw [if_neg h2, if_neg this]

theorem zipHead_spec (f : BitVec 64 → BitVec 64 → BitVec 64) (g : Bool → Bool → Bool)
    (hf : ∀ x y m, m < 64 → (f x y).getLsbD m = g (x.getLsbD m) (y.getLsbD m))
    (n : Nat) (xs ys : Words) (hx : n ≤ xs.length) (hy : n ≤ ys.length) :
    ∃ ws, zipHead f n xs ys = some ws ∧ ws.length = xs.length ∧
      ∀ j, bitAt ws j = if j < 64 * n then g (bitAt xs j) (bitAt ys j) else bitAt xs j := by
  refine ⟨List.zipWith f (xs.take n) (ys.take n) ++ xs.drop n, by simp [zipHead, hx, hy], ?_,
    bitAt_zipHead f g hf n xs ys hx hy⟩
  simp only [List.length_append, List.length_zipWith, List.length_take, List.length_drop]; omega

/-- from a pointwise description of a binary set operation to the `List Bool` level: the second operand is
padded with `false` up to the size of the first -/
theorem bits_zip (b' b other : BitSet) (g : Bool → Bool → Bool) (hsize : b'.size = b.size)
    (h : ∀ j, j < b.size → bitAt b'.words j = g (bitAt b.words j) (decide (j < other.size) && bitAt other.words j)) :
    bits b' = List.zipWith g (bits b) ((bits other ++ List.replicate (b.size - other.size) false).take b.size) := by
  unfold bits
  apply bitsList_eq
  · simp only [List.length_zipWith, List.length_take, List.length_append, bitsList_length,
      List.length_replicate]; omega
  · intro j hj
    have hj' : j < b.size := by
      simp only [List.length_zipWith, List.length_take, List.length_append, bitsList_length,
        List.length_replicate] at hj; omega
    rw [List.getElem_zipWith, bitsList_getElem, List.getElem_take, h j hj']
    congr 1
    by_cases ho : j < other.size
    · rw [List.getElem_append_left (by simpa [bitsList_length] using ho), bitsList_getElem]; simp [ho]
    · rw [List.getElem_append_right (by simpa [bitsList_length] using ho)]; simp [ho]

theorem WF.words_len {b : BitSet} (h : WF b) : wordsPerBits b.size ≤ b.words.length := by
  have := h.cap_le; have := h.size_le; unfold wordsPerBits; omega

theorem wordsPerBits_mono {a b : Nat} (h : a ≤ b) : wordsPerBits a ≤ wordsPerBits b := by
  unfold wordsPerBits; omega

/-- bit `j` of `other`, read as "not a member" beyond `other.size` -/
theorem WF.bit_ge {o : BitSet} (h : WF o) (j : Nat) (h1 : o.size ≤ j) (h2 : j < 64 * wordsPerBits o.size) :
    bitAt o.words j = false := h.tail_zero j h1 h2

/-- `and_not(other)` -/
theorem andNot_spec (b other : BitSet) (hb : WF b) (ho : WF other) :
    ∃ b', andNot b other = some b' ∧ WF b' ∧ b'.size = b.size ∧ b'.cap = b.cap ∧ b'.data = b.data ∧
      bits b' = List.zipWith (fun x y => x && !y) (bits b)
        ((bits other ++ List.replicate (b.size - other.size) false).take b.size) := by
  have hn1 := wordsPerBits_mono (Nat.min_le_left b.size other.size)
  have hn2 := wordsPerBits_mono (Nat.min_le_right b.size other.size)
  have hw1 := wordsPerBits_bounds b.size
  have hw2 := wordsPerBits_bounds other.size
  have hw3 := wordsPerBits_bounds (min b.size other.size)
  obtain ⟨ws, h1, h2, h3⟩ := zipHead_spec (fun x y => x &&& ~~~ y) (fun x y => x && !y)
    (by intro x y m hm; simp [hm]) (wordsPerBits (min b.size other.size)) b.words other.words
    (Nat.le_trans hn1 hb.words_len) (Nat.le_trans hn2 ho.words_len)
  refine ⟨{ b with words := ws }, by simp [andNot, h1], ⟨by simp only [h2]; exact hb.cap_le, hb.size_le, ?_⟩,
    rfl, rfl, rfl, ?_⟩
  · intro j hj1 hj2
    simp only at hj1 hj2 ⊢
    rw [h3, hb.tail_zero j hj1 hj2]; simp
  · apply bits_zip { b with words := ws } b other _ rfl
    intro j hj
    simp only
    rw [h3]
    by_cases hlt : j < 64 * wordsPerBits (min b.size other.size)
    · rw [if_pos hlt]
      by_cases hjo : j < other.size
      · simp [hjo]
      · have hm : min b.size other.size = other.size := by omega
        rw [ho.bit_ge j (by omega) (by rw [← hm]; exact hlt)]; simp
    · have hjo : ¬ j < other.size := by omega
      rw [if_neg hlt]; simp [hjo]

example : andNot { words := [0xFF#64], size := 8, cap := 64 } { words := [0x0F#64], size := 6, cap := 64 }
    = some { words := [0xF0#64], size := 8, cap := 64 } := by decide

/-- `or_(other)` -/
theorem or_spec (b other : BitSet) (hb : WF b) (ho : WF other) :
    ∃ b', or_ b other = some b' ∧ WF b' ∧ b'.size = b.size ∧ b'.cap = b.cap ∧ b'.data = b.data ∧
      bits b' = List.zipWith (fun x y => x || y) (bits b)
        ((bits other ++ List.replicate (b.size - other.size) false).take b.size) := by
  have hn1 := wordsPerBits_mono (Nat.min_le_left b.size other.size)
  have hn2 := wordsPerBits_mono (Nat.min_le_right b.size other.size)
  have hw1 := wordsPerBits_bounds b.size
  have hw2 := wordsPerBits_bounds other.size
  have hw3 := wordsPerBits_bounds (min b.size other.size)
  obtain ⟨ws, h1, h2, h3⟩ := zipHead_spec (fun x y => x ||| y) (fun x y => x || y)
    (by intro x y m hm; simp) (wordsPerBits (min b.size other.size)) b.words other.words
    (Nat.le_trans hn1 hb.words_len) (Nat.le_trans hn2 ho.words_len)
  obtain ⟨ws', g1, g2, g3⟩ := clearUnused_spec { b with words := ws }
    (by simp only [h2]; have := hb.cap_le; have := hb.size_le; omega)
  simp only at g1 g2 g3
  refine ⟨{ b with words := ws' }, by simp only [or_, h1]; exact g1,
    ⟨by simp only [g2, h2]; exact hb.cap_le, hb.size_le, ?_⟩, rfl, rfl, rfl, ?_⟩
  · intro j hj1 hj2
    simp only at hj1 hj2 ⊢
    rw [g3, if_pos ⟨hj1, hj2⟩]
  · apply bits_zip { b with words := ws' } b other _ rfl
    intro j hj
    simp only
    rw [g3, if_neg (by omega), h3]
    by_cases hlt : j < 64 * wordsPerBits (min b.size other.size)
    · rw [if_pos hlt]
      by_cases hjo : j < other.size
      · simp [hjo]
      · have hm : min b.size other.size = other.size := by omega
        rw [ho.bit_ge j (by omega) (by rw [← hm]; exact hlt)]; simp
    · have hjo : ¬ j < other.size := by omega
      rw [if_neg hlt]; simp [hjo]

example : or_ { words := [0x01#64], size := 4, cap := 64 } { words := [0x3A#64], size := 6, cap := 64 }
    = some { words := [0x0B#64], size := 4, cap := 64 } := by decide

/-- `and_(other)` -/
theorem and_spec (b other : BitSet) (hb : WF b) (ho : WF other) :
    ∃ b', and_ b other = some b' ∧ WF b' ∧ b'.size = b.size ∧ b'.cap = b.cap ∧ b'.data = b.data ∧
      bits b' = List.zipWith (fun x y => x && y) (bits b)
        ((bits other ++ List.replicate (b.size - other.size) false).take b.size) := by
  have hw1 := wordsPerBits_bounds b.size
  have hw2 := wordsPerBits_bounds other.size
  have hl1 := hb.words_len
  have hl2 := ho.words_len
  obtain ⟨ws, h1, h2, h3⟩ := zipHead_spec (fun x y => x &&& y) (fun x y => x && y)
    (by intro x y m hm; simp) (min (wordsPerBits b.size) (wordsPerBits other.size)) b.words other.words
    (by omega) (by omega)
  have hpt : ∀ j, bitAt (ws.take (min (wordsPerBits b.size) (wordsPerBits other.size)) ++
      List.replicate (wordsPerBits b.size - min (wordsPerBits b.size) (wordsPerBits other.size)) 0#64 ++
      ws.drop (wordsPerBits b.size)) j =
      if j < 64 * min (wordsPerBits b.size) (wordsPerBits other.size) then
        (bitAt b.words j && bitAt other.words j)
      else if j < 64 * wordsPerBits b.size then false else bitAt b.words j := by
    intro j
    rw [bitAt_append, bitAt_append, bitAt_take, bitAt_replicate, bitAt_drop]
    simp only [List.length_append, List.length_take, List.length_replicate]
    have e1 : min (min (wordsPerBits b.size) (wordsPerBits other.size)) ws.length
        = min (wordsPerBits b.size) (wordsPerBits other.size) := by omega
    rw [e1]
    by_cases c1 : j < 64 * min (wordsPerBits b.size) (wordsPerBits other.size)
    · have : j < 64 * (min (wordsPerBits b.size) (wordsPerBits other.size) +
          (wordsPerBits b.size - min (wordsPerBits b.size) (wordsPerBits other.size))) := by omega
      rw [if_pos this, if_pos c1, if_pos c1, if_pos c1, h3, if_pos c1]
    · by_cases c2 : j < 64 * wordsPerBits b.size
      · have : j < 64 * (min (wordsPerBits b.size) (wordsPerBits other.size) +
            (wordsPerBits b.size - min (wordsPerBits b.size) (wordsPerBits other.size))) := by omega
        rw [if_pos this, if_neg c1, if_neg c1, if_pos c2]
        split <;> simp
      · have : ¬ j < 64 * (min (wordsPerBits b.size) (wordsPerBits other.size) +
            (wordsPerBits b.size - min (wordsPerBits b.size) (wordsPerBits other.size))) := by omega
        rw [if_neg this, if_neg c1, if_neg c2, h3, if_neg (by omega)]
        congr 1; omega
  refine ⟨{ b with words := (ws.take (min (wordsPerBits b.size) (wordsPerBits other.size)) ++
      List.replicate (wordsPerBits b.size - min (wordsPerBits b.size) (wordsPerBits other.size)) 0#64 ++
      ws.drop (wordsPerBits b.size)) },
    by simp only [and_, h1, h2, hl1, if_true], ⟨?_, hb.size_le, ?_⟩, rfl, rfl, rfl, ?_⟩
  · simp only [List.length_append, List.length_take, List.length_replicate, List.length_drop, h2]
    have := hb.cap_le; omega
  · intro j hj1 hj2
    simp only at hj1 hj2 ⊢
    rw [hpt]
    rw [hb.tail_zero j hj1 hj2, if_pos hj2]; simp
  · apply bits_zip { b with words := (ws.take (min (wordsPerBits b.size) (wordsPerBits other.size)) ++
      List.replicate (wordsPerBits b.size - min (wordsPerBits b.size) (wordsPerBits other.size)) 0#64 ++
      ws.drop (wordsPerBits b.size)) } b other _ rfl
    intro j hj
    simp only
    rw [hpt]
    by_cases c1 : j < 64 * min (wordsPerBits b.size) (wordsPerBits other.size)
    · rw [if_pos c1]
      by_cases hjo : j < other.size
      · simp [hjo]
      · rw [ho.bit_ge j (by omega) (by omega)]; simp
    · have hjo : ¬ j < other.size := by omega
      rw [if_neg c1, if_pos (by omega)]; simp [hjo]

example : and_ { words := [0xFF#64, 0x3#64], size := 66, cap := 128 } { words := [0x0F#64], size := 6, cap := 64 }
    = some { words := [0x0F#64, 0#64], size := 66, cap := 128 } := by decide

/-! #### `append` (fast path), `_resize` / `copy_from` (inside the current capacity) -/

/-- `_resize`, shrinking branch = `truncate` -/
theorem resizeI_shrink (a : Arena.State) (b : BitSet) (newSize ideal : Nat) (v : Bool) (h : newSize ≤ b.size) :
    resizeI a b newSize ideal v = (truncate b newSize).map (fun b' => (a, b', Err.ok)) := by
  have hm : min b.size newSize = newSize := by omega
  unfold resizeI truncate clearUnused
  simp only [h, if_true, hm]
  by_cases h0 : newSize % 64 = 0
  · simp [h0]
  · simp only [ne_eq, h0, not_false_eq_true, if_true, if_false]
    cases b.words[newSize / 64]? <;> rfl

theorem pattern_shift_getLsbD (v : Bool) (sb m : Nat) (hm : m < 64) :
    ((if v then ones else 0#64 : BitVec 64) <<< sb).getLsbD m = (decide (sb ≤ m) && v) := by
  rw [BitVec.getLsbD_shiftLeft]
  have : m - sb < 64 := by omega
  cases v
  · simp
  · simp only [↓reduceIte, ones_getLsbD]
    by_cases hle : sb ≤ m
    · have h2 : ¬ m < sb := by omega
      simp [hm, this, hle, h2]
    · have h2 : m < sb := by omega
      simp [hle, h2]

/-- `append(value)` when no reallocation is needed (`size < capacity`): `snoc` on the bits.
PARTIAL: the `_append` slow path (`size = capacity`, reallocation through the arena) is not covered. -/
theorem append_spec_partial (a : Arena.State) (b : BitSet) (v : Bool) (hwf : WF b) (hlt : b.size < b.cap) :
    ∃ b', append a b v = some (a, b', Err.ok) ∧ WF b' ∧ b'.size = b.size + 1 ∧ b'.cap = b.cap ∧ b'.data = b.data ∧
      bits b' = bits b ++ [v] := by
  have hcap := hwf.cap_le
  have hq : b.size / 64 < b.words.length := by omega
  have hw : b.words[b.size / 64]? = some b.words[b.size / 64] := by simp [hq]
  have hk : b.size % 64 < 64 := Nat.mod_lt _ (by decide)
  have hnge : ¬ b.size ≥ b.cap := by omega
  -- the new word
  have hW : ∀ m, m < 64 →
      (if b.size % 64 = 0 then boolWord v <<< (b.size % 64)
        else b.words[b.size / 64] ||| (boolWord v <<< (b.size % 64))).getLsbD m =
      if m = b.size % 64 then v else if m < b.size % 64 then b.words[b.size / 64].getLsbD m else false := by
    intro m hm
    by_cases h0 : b.size % 64 = 0
    · rw [if_pos h0, boolWord_shift_getLsbD, h0]
      by_cases hm0 : m = 0
      · simp [hm0]
      · simp [hm0]
    · rw [if_neg h0, BitVec.getLsbD_or, boolWord_shift_getLsbD]
      have hz : ∀ m, m < 64 → b.size % 64 ≤ m → b.words[b.size / 64].getLsbD m = false := by
        intro m hm hle
        have := hwf.tail_zero (64 * (b.size / 64) + m) (by omega) (by unfold wordsPerBits; omega)
        rw [bitAt_of_getElem? _ _ b.words[b.size / 64] (by
          have : (64 * (b.size / 64) + m) / 64 = b.size / 64 := by omega
          rw [this]; exact hw)] at this
        have e : (64 * (b.size / 64) + m) % 64 = m := by omega
        rw [e] at this; exact this
      by_cases hmb : m = b.size % 64
      · rw [if_pos hmb, hz m hm (by omega)]; simp [hmb, hk]
      · rw [if_neg hmb]
        by_cases hlt2 : m < b.size % 64
        · rw [if_pos hlt2]; simp [hmb]
        · rw [if_neg hlt2, hz m hm (by omega)]; simp [hmb]
  refine ⟨{ b with words := b.words.set (b.size / 64) (if b.size % 64 = 0 then boolWord v <<< (b.size % 64)
        else b.words[b.size / 64] ||| (boolWord v <<< (b.size % 64))), size := b.size + 1 },
    by simp only [append, hnge, if_false, hw], ⟨by simp; exact hcap, by simp; omega, ?_⟩, rfl, rfl, rfl, ?_⟩
  · intro j hj1 hj2
    simp only at hj1 hj2 ⊢
    have hjq : j / 64 = b.size / 64 := by unfold wordsPerBits at hj2; omega
    rw [bitAt_set _ _ _ _ hq, if_pos hjq, hW _ (Nat.mod_lt _ (by decide)),
      if_neg (by unfold wordsPerBits at hj2; omega), if_neg (by unfold wordsPerBits at hj2; omega)]
  · unfold bits
    apply bitsList_eq
    · simp [bitsList_length]
    · intro j hj
      simp only [List.length_append, bitsList_length, List.length_singleton] at hj
      simp only
      rw [bitAt_set _ _ _ _ hq]
      by_cases hjs : j < b.size
      · rw [List.getElem_append_left (by simpa [bitsList_length] using hjs), bitsList_getElem]
        split
        · next hjq =>
          have hw' : b.words[j / 64]? = some b.words[b.size / 64] := by rw [hjq]; exact hw
          rw [hW _ (Nat.mod_lt _ (by decide)), if_neg (by omega), if_pos (by omega),
            bitAt_of_getElem? _ j _ hw']
        · rfl
      · have hje : j = b.size := by omega
        subst hje
        rw [List.getElem_append_right (by simp [bitsList_length]), if_pos rfl, hW _ hk, if_pos rfl]
        simp

example : (append (Arena.init 1024 0) { words := [0x5#64, 0#64], size := 3, cap := 128 } true).map (·.2)
    = some ({ words := [0xD#64, 0#64], size := 4, cap := 128 }, Err.ok) := by decide

theorem clearTail (ws : Words) (n : Nat) (hn : n ≤ 64 * ws.length) (hne : ¬ n % 64 = 0) :
    ∃ w, ws[n / 64]? = some w ∧ ∀ j, bitAt (ws.set (n / 64) (w &&& mask (n % 64))) j =
      if n ≤ j ∧ j < 64 * wordsPerBits n then false else bitAt ws j := by
  obtain ⟨ws', h1, _, h3⟩ := clearUnused_spec { words := ws, size := n } hn
  have hq : n / 64 < ws.length := by omega
  have hw : ws[n / 64]? = some ws[n / 64] := by simp [hq]
  refine ⟨ws[n / 64], hw, ?_⟩
  unfold clearUnused at h1
  simp only [hne, if_false, hw, Option.some.injEq, BitSet.mk.injEq, true_and, and_true] at h1
  rw [h1]; exact h3

/-- the part of `_resize` after the (optional) reallocation and the first-word fix-up -/
def growFinish (a : Arena.State) (b1 : BitSet) (ws1 : Words) (idx1 newSize : Nat) (pattern : BitVec 64) :
    Option (Arena.State × BitSet × Err) :=
  match fillWords ws1 idx1 (wordsPerBits newSize) pattern with
  | none => none
  | some ws2 =>
    if newSize % 64 ≠ 0 then
      match ws2[wordsPerBits newSize - 1]? with
      | none => none
      | some w => some (a, { b1 with words := ws2.set (wordsPerBits newSize - 1) (w &&& mask (newSize % 64)),
                                     size := newSize % Arena.u32 }, .ok)
    else some (a, { b1 with words := ws2, size := newSize % Arena.u32 }, .ok)

theorem growFinish_spec (a : Arena.State) (b1 : BitSet) (ws1 : Words) (idx1 newSize : Nat) (v : Bool)
    (hlen : wordsPerBits newSize ≤ ws1.length) (hidx : idx1 ≤ wordsPerBits newSize) (hnew : newSize < Arena.u32) :
    ∃ W, growFinish a b1 ws1 idx1 newSize (if v then ones else 0#64)
        = some (a, { b1 with words := W, size := newSize }, .ok) ∧ W.length = ws1.length ∧
      ∀ j, bitAt W j = if newSize ≤ j ∧ j < 64 * wordsPerBits newSize then false
        else if 64 * idx1 ≤ j ∧ j < 64 * wordsPerBits newSize then v else bitAt ws1 j := by
  have hwp := wordsPerBits_bounds newSize
  have hmod : newSize % Arena.u32 = newSize := Nat.mod_eq_of_lt hnew
  have hmax : max idx1 (wordsPerBits newSize) = wordsPerBits newSize := by omega
  have hl2 : (ws1.take idx1 ++ List.replicate (wordsPerBits newSize - idx1) (if v then ones else 0#64) ++
      ws1.drop (wordsPerBits newSize)).length = ws1.length := by
    simp only [List.length_append, List.length_take, List.length_replicate, List.length_drop]; omega
  have hb2 : ∀ j, bitAt (ws1.take idx1 ++ List.replicate (wordsPerBits newSize - idx1) (if v then ones else 0#64) ++
      ws1.drop (wordsPerBits newSize)) j =
      if 64 * idx1 ≤ j ∧ j < 64 * wordsPerBits newSize then v else bitAt ws1 j := by
    intro j
    rw [bitAt_append, bitAt_append, bitAt_take, bitAt_replicate, bitAt_drop]
    simp only [List.length_append, List.length_take, List.length_replicate]
    have e1 : min idx1 ws1.length = idx1 := by omega
    rw [e1]
    have hP : (if v then ones else 0#64 : BitVec 64).getLsbD ((j - 64 * idx1) % 64) = v := by
      cases v <;> simp [ones_getLsbD, Nat.mod_lt]
    by_cases c1 : j < 64 * idx1
    · rw [if_pos (by omega), if_pos c1, if_pos c1, if_neg (by omega)]
    · by_cases c2 : j < 64 * wordsPerBits newSize
      · rw [if_pos (by omega), if_neg c1, if_pos (by omega), hP, if_pos (by omega)]
      · rw [if_neg (by omega), if_neg (by omega)]
        congr 1; omega
  unfold growFinish fillWords
  simp only [hlen, if_true, hmax, hmod]
  by_cases he : newSize % 64 = 0
  · refine ⟨_, by simp only [he, ne_eq, not_true_eq_false, if_false], hl2, ?_⟩
    intro j
    have : ¬ (newSize ≤ j ∧ j < 64 * wordsPerBits newSize) := by unfold wordsPerBits; omega
    rw [if_neg this, hb2]
  · obtain ⟨w, hw, hb3⟩ := clearTail _ newSize (by rw [hl2]; omega) he
    have e : wordsPerBits newSize - 1 = newSize / 64 := by unfold wordsPerBits; omega
    refine ⟨_, by simp only [he, ne_eq, not_false_eq_true, if_true, e, hw]; rfl,
      by simp only [List.length_set]; exact hl2, ?_⟩
    intro j
    rw [hb3, hb2]

/-- `_resize(new_size, ideal, value)` when no reallocation is needed (`new_size ≤ capacity`, and representable):
`take` when shrinking, `++ replicate` when growing.
PARTIAL: the reallocating branch (`new_size > capacity`) is covered by `resizeI_full` in `Lemmas/C18Bits2.lean`. -/
theorem resizeI_spec_partial (a : Arena.State) (b : BitSet) (newSize ideal : Nat) (v : Bool) (hwf : WF b)
    (hcap : newSize ≤ b.cap) (hnew' : newSize ≤ 0xFFFFFFC0) :
    ∃ b', resizeI a b newSize ideal v = some (a, b', Err.ok) ∧ WF b' ∧ b'.size = newSize ∧ b'.cap = b.cap ∧ b'.data = b.data ∧
      bits b' = (bits b).take newSize ++ List.replicate (newSize - b.size) v := by
  have hnew : newSize < Arena.u32 := by unfold Arena.u32; omega
  have hbig : ¬ newSize > 0xFFFFFFC0 := by omega
  by_cases hle : newSize ≤ b.size
  · obtain ⟨b', h1, h2, h3, h4, hdata, h5⟩ := truncate_spec b newSize hwf
    refine ⟨b', by rw [resizeI_shrink a b newSize ideal v hle, h1]; rfl, h2, by omega, h4, hdata, ?_⟩
    have : newSize - b.size = 0 := by omega
    rw [h5, this]; simp
  · have hce := hwf.cap_le
    have hwpo := wordsPerBits_bounds b.size
    have hwpn := wordsPerBits_bounds newSize
    have hmono : wordsPerBits b.size ≤ wordsPerBits newSize := wordsPerBits_mono (by omega)
    have hlenN : wordsPerBits newSize ≤ b.words.length := by unfold wordsPerBits; omega
    have hncap : ¬ newSize > b.cap := by omega
    -- first word fix-up: afterwards positions `[size, 64 * wordsPerBits size)` hold `v`
    have hstep : ∃ ws1, resizeI a b newSize ideal v =
          growFinish a b ws1 (wordsPerBits b.size) newSize (if v then ones else 0#64) ∧
        ws1.length = b.words.length ∧
        ∀ j, bitAt ws1 j = if b.size ≤ j ∧ j < 64 * wordsPerBits b.size then v else bitAt b.words j := by
      by_cases hsb : b.size % 64 = 0
      · have e : b.size / 64 = wordsPerBits b.size := by unfold wordsPerBits; omega
        refine ⟨b.words, ?_, rfl, ?_⟩
        · unfold resizeI growFinish
          simp only [hle, hbig, hncap, if_false, hsb, ne_eq, not_true_eq_false, e]
          rfl
        · intro j
          have : ¬ (b.size ≤ j ∧ j < 64 * wordsPerBits b.size) := by unfold wordsPerBits; omega
          rw [if_neg this]
      · have e : b.size / 64 + 1 = wordsPerBits b.size := by unfold wordsPerBits; omega
        have hq : b.size / 64 < b.words.length := by omega
        have hw : b.words[b.size / 64]? = some b.words[b.size / 64] := by simp [hq]
        refine ⟨b.words.set (b.size / 64) (b.words[b.size / 64] ||| ((if v then ones else 0#64) <<< (b.size % 64))),
          ?_, by simp, ?_⟩
        · unfold resizeI growFinish
          simp only [hle, hbig, hncap, if_false, hsb, ne_eq, not_false_eq_true, if_true, hw, e]
          rfl
        · intro j
          rw [bitAt_set _ _ _ _ hq]
          by_cases hjq : j / 64 = b.size / 64
          · have hw' : b.words[j / 64]? = some b.words[b.size / 64] := by rw [hjq]; exact hw
            rw [if_pos hjq, BitVec.getLsbD_or, pattern_shift_getLsbD _ _ _ (Nat.mod_lt _ (by decide)),
              ← bitAt_of_getElem? _ j _ hw']
            by_cases hjs : b.size ≤ j
            · have h2 : j < 64 * wordsPerBits b.size := by unfold wordsPerBits; omega
              have h3 : b.size % 64 ≤ j % 64 := by omega
              rw [if_pos ⟨hjs, h2⟩, hwf.tail_zero j hjs h2]; simp [h3]
            · have h3 : ¬ b.size % 64 ≤ j % 64 := by omega
              rw [if_neg (by omega)]; simp [h3]
          · have : ¬ (b.size ≤ j ∧ j < 64 * wordsPerBits b.size) := by unfold wordsPerBits; omega
            rw [if_neg hjq, if_neg this]
    obtain ⟨ws1, hr, hl1, hb1⟩ := hstep
    obtain ⟨W, hg, hlW, hbW⟩ := growFinish_spec a b ws1 (wordsPerBits b.size) newSize v (by omega) hmono hnew
    refine ⟨{ b with words := W, size := newSize }, by rw [hr, hg], ⟨by simp only [hlW, hl1]; exact hce, hcap, ?_⟩,
      rfl, rfl, rfl, ?_⟩
    · intro j hj1 hj2
      simp only at hj1 hj2 ⊢
      rw [hbW, if_pos ⟨hj1, hj2⟩]
    · unfold bits
      apply bitsList_eq
      · simp [bitsList_length]; omega
      · intro j hj
        have hj' : j < newSize := by
          simp only [List.length_append, List.length_take, bitsList_length, List.length_replicate] at hj; omega
        simp only
        rw [hbW, if_neg (by omega), hb1]
        by_cases hjs : j < b.size
        · rw [List.getElem_append_left (by simp [bitsList_length]; omega), List.getElem_take, bitsList_getElem,
            if_neg (by omega), if_neg (by omega)]
        · rw [List.getElem_append_right (by simp [bitsList_length]; omega), List.getElem_replicate]
          by_cases c : j < 64 * wordsPerBits b.size
          · rw [if_neg (by omega), if_pos ⟨by omega, c⟩]
          · rw [if_pos ⟨by omega, by omega⟩]

example : (resizeI (Arena.init 1024 0) { words := [0x5#64, 0#64, 0x9#64], size := 3, cap := 192 } 67 67 true).map (·.2)
    = some ({ words := [0xFFFFFFFFFFFFFFFD#64, 0x7#64, 0x9#64], size := 67, cap := 192 }, Err.ok) := by decide

/-- `copy_from(other)` when no reallocation is needed (`other.size ≤ capacity`).
PARTIAL: the reallocating branch is not covered (same missing arena facts as `resizeI_spec_partial`). -/
theorem copyFrom_spec_partial (a : Arena.State) (b other : BitSet) (hb : WF b) (ho : WF other)
    (hcap : other.size ≤ b.cap) :
    ∃ b', copyFrom a b other = some (a, b', Err.ok) ∧ WF b' ∧ b'.size = other.size ∧ b'.cap = b.cap ∧ b'.data = b.data ∧
      bits b' = bits other := by
  by_cases h0 : other.size = 0
  · refine ⟨{ b with size := 0 }, by simp [copyFrom, h0], ⟨hb.cap_le, Nat.zero_le _, ?_⟩, h0.symm, rfl, rfl, ?_⟩
    · intro j _ hj2; simp [wordsPerBits] at hj2
    · simp [bits, bitsList, h0]
  · have hce := hb.cap_le
    have hwp := wordsPerBits_bounds other.size
    have hl1 : wordsPerBits other.size ≤ b.words.length := by unfold wordsPerBits; omega
    have hl2 := ho.words_len
    have hncap : ¬ other.size > b.cap := by omega
    have hpt : ∀ j, bitAt (other.words.take (wordsPerBits other.size) ++ b.words.drop (wordsPerBits other.size)) j =
        if j < 64 * wordsPerBits other.size then bitAt other.words j else bitAt b.words j := by
      intro j
      rw [bitAt_append, bitAt_take, bitAt_drop, List.length_take, Nat.min_eq_left hl2]
      by_cases c : j < 64 * wordsPerBits other.size
      · rw [if_pos c, if_pos c, if_pos c]
      · rw [if_neg c, if_neg c]; congr 1; omega
    refine ⟨{ b with words := other.words.take (wordsPerBits other.size) ++ b.words.drop (wordsPerBits other.size),
                     size := other.size },
      by simp only [copyFrom, h0, hncap, if_false, hl1, hl2, and_self, if_true], ⟨?_, hcap, ?_⟩, rfl, rfl, rfl, ?_⟩
    · simp only [List.length_append, List.length_take, List.length_drop]; omega
    · intro j hj1 hj2
      simp only at hj1 hj2 ⊢
      rw [hpt, if_pos hj2]; exact ho.tail_zero j hj1 hj2
    · unfold bits
      apply bitsList_eq
      · simp [bitsList_length]
      · intro j hj
        simp only [bitsList_length] at hj
        simp only
        rw [bitsList_getElem, hpt, if_pos (by omega)]

example : (copyFrom (Arena.init 1024 0) { words := [0xFF#64, 0x7#64], size := 70, cap := 128 }
      { words := [0x15#64], size := 5, cap := 64 }).map (·.2)
    = some ({ words := [0x15#64, 0x7#64], size := 5, cap := 128 }, Err.ok) := by decide

end AsmjitVerif.Bits
