/- C07 helper lemmas: `align_up` on 32-bit words for power-of-two alignments. -/
import AsmjitVerif.Model.Frame
namespace AsmjitVerif.Frame

theorem testBit_pow_sub_pow (k i : Nat) (hk : k ≤ 32) :
    (2 ^ 32 - 2 ^ k).testBit i = (decide (k ≤ i) && decide (i < 32)) := by
  have h : 2 ^ 32 - 2 ^ k = 2 ^ k * (2 ^ (32 - k) - 1) := by
    rw [Nat.mul_sub, ← Nat.pow_add, Nat.mul_one]
    congr 2; omega
  rw [h, Nat.testBit_two_pow_mul, Nat.testBit_two_pow_sub_one]
  by_cases h1 : k ≤ i <;> simp [h1] <;> omega

/-- `y & ~(2^k - 1)` clears the low `k` bits -/
theorem and_neg_pow2 (y k : Nat) (hy : y < 2 ^ 32) (hk : k ≤ 32) :
    y &&& (2 ^ 32 - 2 ^ k) = y - y % 2 ^ k := by
  have hr : y - y % 2 ^ k = 2 ^ k * (y / 2 ^ k) := by
    have := Nat.div_add_mod y (2 ^ k); omega
  apply Nat.eq_of_testBit_eq
  intro i
  rw [Nat.testBit_and, testBit_pow_sub_pow k i hk, hr, Nat.testBit_two_pow_mul, Nat.testBit_div_two_pow]
  by_cases h1 : k ≤ i
  · by_cases h2 : i < 32
    · simp [h1, h2]
    · have : y < 2 ^ i := Nat.lt_of_lt_of_le hy (Nat.pow_le_pow_right (by omega) (by omega))
      simp [h1, h2, Nat.testBit_lt_two_pow this]
  · simp [h1]

theorem alignUp_pow2 (x k : Nat) (hk : k ≤ 31) (hx : x + 2 ^ k ≤ 2 ^ 32) :
    alignUp x (2 ^ k) = (x + (2 ^ k - 1)) - (x + (2 ^ k - 1)) % 2 ^ k := by
  have hp : 0 < 2 ^ k := Nat.two_pow_pos k
  unfold alignUp u32
  have h0 : ¬ (2 ^ k = 0) := by omega
  rw [if_neg h0, Nat.mod_eq_of_lt (by omega)]
  exact and_neg_pow2 _ k (by omega) (by omega)

/-- the three facts everything else needs -/
theorem alignUp_spec (x k : Nat) (hk : k ≤ 31) (hx : x + 2 ^ k ≤ 2 ^ 32) :
    alignUp x (2 ^ k) % 2 ^ k = 0 ∧ x ≤ alignUp x (2 ^ k) ∧ alignUp x (2 ^ k) < x + 2 ^ k := by
  have hp : 0 < 2 ^ k := Nat.two_pow_pos k
  rw [alignUp_pow2 x k hk hx]
  generalize hy : x + (2 ^ k - 1) = y
  have h1 := Nat.mod_lt y hp
  have h2 := Nat.div_add_mod y (2 ^ k)
  refine ⟨?_, by omega, by omega⟩
  have : y - y % 2 ^ k = 2 ^ k * (y / 2 ^ k) := by omega
  rw [this, Nat.mul_mod_right]

theorem alignUpDiff_spec (x k : Nat) (hk : k ≤ 31) (hx : x + 2 ^ k ≤ 2 ^ 32) :
    (x + alignUpDiff x (2 ^ k)) % 2 ^ k = 0 ∧ alignUpDiff x (2 ^ k) < 2 ^ k := by
  obtain ⟨h1, h2, h3⟩ := alignUp_spec x k hk hx
  have hp : 0 < 2 ^ k := Nat.two_pow_pos k
  unfold alignUpDiff u32
  rw [Nat.mod_eq_of_lt (by omega : x < 2 ^ 32)]
  have : (alignUp x (2 ^ k) + 2 ^ 32 - x) % 2 ^ 32 = alignUp x (2 ^ k) - x := by
    have : alignUp x (2 ^ k) + 2 ^ 32 - x = (alignUp x (2 ^ k) - x) + 2 ^ 32 := by omega
    rw [this, Nat.add_mod_right, Nat.mod_eq_of_lt (by omega)]
  rw [this]
  constructor
  · have : x + (alignUp x (2 ^ k) - x) = alignUp x (2 ^ k) := by omega
    rw [this]; exact h1
  · omega

end AsmjitVerif.Frame
